(* Net/SnapSyncChunks.v — the storage-chunk (sub-task) half of the range bookkeeping of
   Net/SnapSync.v, per operation: the chunks created by processStorageResponse for a large
   contract (range.go newHashRange / Next / End) are consecutive ranges that cover the whole
   slot hash space exactly, and a chunk delivery moves the chunk's Next forward inside the
   chunk (or marks it done) under the range verifier's contract. *)
From GV Require Import Lib.Tactics Net.SnapSync Net.SnapSyncProofs Net.SnapSyncRanges.
Local Open Scope N_scope.

(* consecutive chunks from [lo] up to 2^256-1, none empty *)
Fixpoint exact_from (lo : N) (l : list stask) : Prop :=
  match l with
  | [] => lo = HSPACE
  | st :: r => st_next st = lo /\ lo <= st_last st /\ st_last st <= MAXH /\ exact_from (st_last st + 1) r
  end.

Lemma hr_end_spec cur step :
  1 <= step -> cur < HSPACE ->
  (HSPACE <= cur + step -> hr_end cur step = MAXH) /\
  (cur + step < HSPACE -> hr_end cur step = cur + step - 1).
Proof.
  intros S1 C1. unfold hr_end. split; intros H.
  - apply N.leb_le in H. rewrite H. reflexivity.
  - assert (E : (HSPACE <=? cur + step) = false) by (apply N.leb_gt; exact H). rewrite E.
    replace (cur + step + HSPACE - 1) with ((cur + step - 1) + 1 * HSPACE) by lia.
    pose proof HSPACE_pos. rewrite N.mod_add by lia. apply N.mod_small. lia.
Qed.

Lemma hr_rest_exact : forall fuel cur step root l,
  1 <= step -> cur < HSPACE -> hr_rest fuel cur step root = Some l ->
  exact_from (hr_end cur step + 1) l.
Proof.
  pose proof MAXH_succ as MS.
  induction fuel as [|f IH]; intros cur step root l S1 C1 H.
  - cbn [hr_rest] in H. destruct (HSPACE <=? cur + step) eqn:E; [|discriminate].
    inversion H. subst. apply N.leb_le in E. cbn [exact_from].
    rewrite (proj1 (hr_end_spec cur step S1 C1) E). exact MS.
  - cbn [hr_rest] in H. destruct (HSPACE <=? cur + step) eqn:E.
    + inversion H. subst. apply N.leb_le in E. cbn [exact_from].
      rewrite (proj1 (hr_end_spec cur step S1 C1) E). exact MS.
    + apply N.leb_gt in E. destruct (hr_rest f (cur + step) step root) as [l'|] eqn:R; [|discriminate].
      inversion H. subst. cbn [exact_from st_next st_last].
      rewrite (proj2 (hr_end_spec cur step S1 C1) E).
      split; [lia|]. destruct (hr_end_spec (cur + step) step S1 E) as [A B].
      destruct (N.le_gt_cases HSPACE (cur + step + step)) as [L|L].
      * rewrite (A L). split; [lia|]. split; [lia|]. rewrite <- (A L). apply (IH _ _ _ _ S1 E R).
      * rewrite (B L). split; [lia|]. split; [lia|]. rewrite <- (B L). apply (IH _ _ _ _ S1 E R).
Qed.

Lemma hr_rest_step0 : forall fuel cur root, cur < HSPACE -> hr_rest fuel cur 0 root = None.
Proof.
  induction fuel as [|f IH]; intros cur root C1; cbn [hr_rest]; rewrite !N.add_0_r;
    assert (E : (HSPACE <=? cur) = false) by (apply N.leb_gt; exact C1); rewrite E; [reflexivity|].
  rewrite (IH _ _ C1). reflexivity.
Qed.

(* chunk splitting: whenever processStorageResponse creates the sub-tasks of a large contract
   (i.e. the Go loop terminates), they are consecutive, non-empty, start at 0 and end at 2^256-1:
   pairwise disjoint and covering the account's whole slot space *)
Theorem make_chunks_partition c keys root l :
  (forall k, In k keys -> k <= MAXH) ->
  make_chunks c keys root = Some l -> exact_from 0 l.
Proof.
  intros HK H. unfold make_chunks in H.
  set (lastKey := match rev keys with [] => 0 | k :: _ => k end) in H.
  assert (LK : lastKey < HSPACE).
  { pose proof MAXH_succ. pose proof HSPACE_pos. unfold lastKey. destruct (rev keys) as [|k r] eqn:E; [lia|].
    assert (In k keys) by (apply in_rev; rewrite E; left; reflexivity). pose proof (HK k H2). lia. }
  cbv zeta in H.
  match type of H with context [hr_step lastKey ?ch] => set (chunks := ch) in H end.
  set (step := hr_step lastKey chunks) in H.
  destruct (hr_rest _ lastKey step root) as [rest|] eqn:R; [|discriminate].
  inversion H. subst l. clear H.
  destruct (N.eq_dec step 0) as [Z|NZ].
  { rewrite Z in R. rewrite hr_rest_step0 in R by exact LK. discriminate. }
  assert (S1 : 1 <= step) by lia.
  cbn [exact_from st_next st_last]. split; [reflexivity|]. split; [lia|].
  pose proof MAXH_succ.
  destruct (hr_end_spec lastKey step S1 LK) as [A B].
  destruct (N.le_gt_cases HSPACE (lastKey + step)) as [L|L].
  - rewrite (A L). split; [lia|]. rewrite <- (A L). apply (hr_rest_exact _ _ _ _ _ S1 LK R).
  - rewrite (B L). split; [lia|]. rewrite <- (B L). apply (hr_rest_exact _ _ _ _ _ S1 LK R).
Qed.

(* a chunk delivery (storage_D): the chunk whose Last is [sl] keeps its Last and is either marked done
   with Next unchanged, or gets Next = successor of a delivered key strictly below Last; all other
   chunks are untouched *)
Theorem chunk_advance t2 sa sl account slots s p2 st' l' :
  get sa (t_subs (sp_t (storage_D t2 (Some (sa, sl)) account slots s p2))) = Some l' ->
  In st' l' ->
  exists l st, get sa (t_subs t2) = Some l /\ In st l /\ st_last st' = st_last st /\
    (st' = st \/
     (st_last st = sl /\
      ((st_done st' = true /\ st_next st' = st_next st) \/
       (exists lk v, In (lk, v) slots /\ lk < sl /\ st_next st' = inc_hash lk)))).
Proof.
  unfold storage_D. cbv zeta.
  set (cont' := if existsb _ slots then false else sp_cont s).
  set (slots' := filter _ slots).
  destruct (if cont' then _ else _) as [f p3] eqn:EF. cbn [sp_t set_aux t_subs].
  unfold upd_sub. destruct (get sa (t_subs t2)) as [l|] eqn:EG.
  2:{ rewrite EG. discriminate. }
  rewrite get_put, N.eqb_refl. intros E Hin. inversion E. subst l'. clear E.
  apply in_map_iff in Hin. destruct Hin as (st & E & Hst).
  exists l, st. split; [reflexivity|]. split; [exact Hst|].
  destruct (st_last st =? sl) eqn:EL.
  2:{ subst st'. split; [reflexivity|left; reflexivity]. }
  apply N.eqb_eq in EL. destruct cont' eqn:EC.
  - destruct (last_key slots') as [lk|] eqn:LKE.
    + inversion EF. subst f p3. subst st'. cbn [st_last st_next st_done]. split; [reflexivity|]. right.
      split; [exact EL|]. right.
      unfold last_key in LKE. destruct (rev slots') as [|[k v] r] eqn:ER; [discriminate|]. inversion LKE. subst k.
      assert (Hin : In (lk, v) slots') by (apply in_rev; rewrite ER; left; reflexivity).
      unfold slots' in Hin. apply filter_In in Hin. destruct Hin as [Hin _].
      exists lk, v. split; [exact Hin|]. split; [|reflexivity].
      unfold cont' in EC. destruct (existsb _ slots) eqn:EX; [discriminate|].
      destruct (sl <=? lk) eqn:EK; [|apply N.leb_gt in EK; exact EK].
      exfalso. assert (EX' : existsb (fun '(k, _) => sl <=? k) slots = true).
      { apply existsb_exists. exists (lk, v). split; [exact Hin|exact EK]. }
      congruence.
    + inversion EF. subst f p3. subst st'. split; [reflexivity|left; reflexivity].
  - inversion EF. subst f p3. subst st'. cbn [st_last st_next st_done]. split; [reflexivity|]. right.
    split; [exact EL|]. left. split; reflexivity.
Qed.

(* hence, under the verifier's contract for the chunk request (delivered keys are not below the chunk's
   Next) Next never moves backwards and stays inside the chunk *)
Corollary chunk_advance_monotone t2 sa sl account slots s p2 st' l' :
  sl <= MAXH ->
  get sa (t_subs (sp_t (storage_D t2 (Some (sa, sl)) account slots s p2))) = Some l' ->
  In st' l' ->
  exists l st, get sa (t_subs t2) = Some l /\ In st l /\ st_last st' = st_last st /\
    ((forall k v, In (k, v) slots -> st_next st <= k) -> st_next st <= st_next st' /\
     (st_next st <= st_last st -> st_next st' <= st_last st')).
Proof.
  intros SL H Hin. destruct (chunk_advance _ _ _ _ _ _ _ _ _ H Hin) as (l & st & G & I1 & E & D).
  exists l, st. split; [exact G|]. split; [exact I1|]. split; [exact E|].
  intros HK. destruct D as [->|(EL & [[_ EN]|(lk & v & I2 & LT & EN)])].
  - split; [lia|auto].
  - rewrite EN, E. split; [lia|auto].
  - rewrite EN, E. rewrite inc_hash_lt by lia. pose proof (HK _ _ I2). split; [lia|]. intros _. lia.
Qed.

(* ---------------------------------------------------------------- the hypotheses are satisfiable *)
(* a concrete target and an honest history (responses as the real verifier would accept them, with the
   exact `more` flags) for which [trace_sound] holds and the sync completes *)
Definition ex_tg : list (N * acct) := [(5, ex_a1); (7, ex_a2); (ex_hi, ex_a3)].
Definition ex_sound_events : list event :=
  [ EAcc 0 [(5, ex_a1); (7, ex_a2)] true true true;
    EAcc 1 [(ex_hi, ex_a3)] true true false;
    ECode 2 [(99, [96; 0])];
    ESto 3 [[(1, [42]); (2, [43])]] false false true false;
    EAcc 4 [(ex_hi, ex_a3)] true true false;
    EComplete ].

Lemma ex_hi_val : ex_hi = 57896044618658097711785492504343953926634992332820282019728792003956564819973.
Proof. vm_compute. reflexivity. Qed.

Lemma ex_tg_fun : forall k a a', In (k, a) ex_tg -> In (k, a') ex_tg -> a = a'.
Proof.
  pose proof ex_hi_val as HV.
  intros k a a' H1 H2. unfold ex_tg in *. cbn [In] in *.
  destruct H1 as [E1|[E1|[E1|[]]]]; destruct H2 as [E2|[E2|[E2|[]]]];
    inversion E1; inversion E2; subst; try reflexivity; try lia.
Qed.

Lemma ex_tg_bound : forall k a, In (k, a) ex_tg -> k <= MAXH.
Proof.
  intros k a H. unfold ex_tg in H. cbn [In] in H.
  destruct H as [E|[E|[E|[]]]]; inversion E; subst; apply N.leb_le; vm_compute; reflexivity.
Qed.

Lemma ex_cfg_ok : 1 <= c_acc ex_cfg <= HSPACE.
Proof. split; apply N.leb_le; vm_compute; reflexivity. Qed.

Lemma ex_trace_sound : trace_sound ex_tg ex_cfg (start ex_cfg fresh 1) ex_sound_events.
Proof.
  pose proof ex_hi_val as HV.
  unfold ex_sound_events. cbn [trace_sound].
  split; [|split; [|split; [exact I|split; [exact I|split; [|split; exact I]]]]].
  - (* EAcc 0: the first chunk, origin 0, two accounts, more = true *)
    cbn [ev_sound]. intros q rest t TR EK Hin EL.
    vm_compute in TR. inversion TR. subst q rest. clear TR.
    vm_compute in Hin. destruct Hin as [<-|[<-|[]]]; cbn [t_last q_task] in EL; [|vm_compute in EL; discriminate].
    cbn [t_next]. unfold acc_sound. split; [|split; [|split]].
    + cbn [incr]. lia.
    + intros k a [E|[E|[]]]; inversion E; subst; unfold ex_tg; cbn [In]; auto.
    + intros k a Hk _ (k' & a' & [E|[E|[]]] & L); inversion E; subst; unfold ex_tg in Hk; cbn [In] in Hk;
        destruct Hk as [E2|[E2|[E2|[]]]]; inversion E2; subst; cbn [In]; auto; lia.
    + discriminate.
  - (* EAcc 1: the second chunk, the only account, more = false *)
    cbn [ev_sound]. intros q rest t TR EK Hin EL.
    vm_compute in TR. inversion TR. subst q rest. clear TR.
    vm_compute in Hin. destruct Hin as [<-|[<-|[]]]; cbn [t_last q_task] in EL; [vm_compute in EL; discriminate|].
    cbn [t_next]. unfold acc_sound. split; [|split; [|split]].
    + cbn [incr]. split; [|exact I]. apply N.leb_le. vm_compute. reflexivity.
    + intros k a [E|[]]; inversion E; subst; unfold ex_tg; cbn [In]; auto.
    + intros k a Hk L0 (k' & a' & [E|[]] & L); inversion E; subst; unfold ex_tg in Hk; cbn [In] in Hk;
        destruct Hk as [E2|[E2|[E2|[]]]]; inversion E2; subst; cbn [In]; auto; exfalso; lia.
    + intros _ k a Hk L. unfold ex_tg in Hk; cbn [In] in Hk.
      destruct Hk as [E2|[E2|[E2|[]]]]; inversion E2; subst; cbn [In]; auto; exfalso; revert L; rewrite HV; lia.
  - (* EAcc 4: the rest of the first chunk: the server returns the first key beyond the limit, more = false *)
    cbn [ev_sound]. intros q rest t TR EK Hin EL.
    vm_compute in TR. inversion TR. subst q rest. clear TR.
    vm_compute in Hin. destruct Hin as [<-|[]].
    cbn [t_next]. unfold acc_sound. split; [|split; [|split]].
    + cbn [incr]. split; [|exact I]. rewrite HV. lia.
    + intros k a [E|[]]; inversion E; subst; unfold ex_tg; cbn [In]; auto.
    + intros k a Hk L0 (k' & a' & [E|[]] & L); inversion E; subst; unfold ex_tg in Hk; cbn [In] in Hk;
        destruct Hk as [E2|[E2|[E2|[]]]]; inversion E2; subst; cbn [In]; auto; exfalso; lia.
    + intros _ k a Hk L. unfold ex_tg in Hk; cbn [In] in Hk.
      destruct Hk as [E2|[E2|[E2|[]]]]; inversion E2; subst; cbn [In]; auto; exfalso; lia.
Qed.

Definition c47_sound_example_check : bool :=
  match s_tasks (run ex_cfg 1 ex_sound_events), s_panic (run ex_cfg 1 ex_sound_events) with
  | [], false => true
  | _, _ => false
  end.
