(* Net/EnrProofs.v — proofs about Net/Enr.v: a byte string is accepted as a
   node record iff it is the canonical encoding of the decoded fields, at most
   300 bytes, with strictly sorted keys and a verifying signature; accepted
   records re-encode to the same bytes. *)
From GV Require Import Lib.Tactics Lib.Bytes Lib.BytesProofs Rlp.Item Rlp.Raw Rlp.RawProofs Rlp.Codec Rlp.CodecProofs Rlp.Stream Rlp.StreamProofs Net.Enr.
Local Open Scope N_scope.

(* ---------- the order on keys ---------- *)

Lemma bytes_cmp_antisym a : forall b, bytes_cmp b a = CompOpp (bytes_cmp a b).
Proof.
  induction a as [|x a IH]; intros [|y b]; cbn; try reflexivity.
  rewrite (N.compare_antisym x y). destruct (x ?= y); cbn; auto.
Qed.

Lemma bytes_cmp_eq a : forall b, bytes_cmp a b = Eq -> a = b.
Proof.
  induction a as [|x a IH]; intros [|y b]; cbn; try discriminate; [reflexivity|].
  destruct (x ?= y) eqn:E; try discriminate. intros Hc.
  apply N.compare_eq in E. subst. f_equal. apply IH. exact Hc.
Qed.

Lemma bytes_cmp_refl a : bytes_cmp a a = Eq.
Proof. induction a as [|x a IH]; cbn; [reflexivity|]. rewrite N.compare_refl. exact IH. Qed.

Lemma bytes_ltb_trans a : forall b c, bytes_ltb a b = true -> bytes_ltb b c = true -> bytes_ltb a c = true.
Proof.
  unfold bytes_ltb.
  induction a as [|x a IH]; intros [|y b] [|z c]; cbn; try discriminate; try reflexivity.
  destruct (x ?= y) eqn:E1; try discriminate.
  - apply N.compare_eq in E1. subst y. destruct (x ?= z) eqn:E2; try discriminate; try reflexivity.
    apply IH.
  - intros _. destruct (y ?= z) eqn:E2; try discriminate.
    + apply N.compare_eq in E2. subst z. rewrite E1. reflexivity.
    + intros _. rewrite N.compare_lt_iff in E1, E2.
      assert (E3 : x < z) by lia. rewrite <- N.compare_lt_iff in E3. rewrite E3. reflexivity.
Qed.

Lemma bytes_ltb_irrefl a : bytes_ltb a a = false.
Proof. unfold bytes_ltb. rewrite bytes_cmp_refl. reflexivity. Qed.

(* the Go checks "k == prev -> dup; k < prev -> unsorted" pass iff prev < k *)
Lemma order_check k pk :
  (bytes_eqb k pk = false /\ bytes_ltb k pk = false) <-> bytes_ltb pk k = true.
Proof.
  unfold bytes_eqb, bytes_ltb. rewrite (bytes_cmp_antisym k pk).
  destruct (bytes_cmp k pk); cbn; split; try tauto; try (intros [? ?]; discriminate); discriminate.
Qed.

(* strictly sorted from a previous key *)
Fixpoint chain (prev : option (list N)) (ks : list (list N)) : Prop :=
  match ks with
  | [] => True
  | k :: tl => match prev with None => True | Some p => bytes_ltb p k = true end /\ chain (Some k) tl
  end.

Lemma sortedb_chain ks : sortedb ks = true <-> chain None ks.
Proof.
  assert (G : forall l p, sortedb (p :: l) = true <-> chain (Some p) l).
  { clear ks. intros l. induction l as [|k ks IH]; intros p.
    - split; intros; [exact I|reflexivity].
    - change (sortedb (p :: k :: ks)) with (bytes_ltb p k && sortedb (k :: ks)).
      rewrite andb_true_iff, IH. cbn. tauto. }
  destruct ks as [|k ks]; [split; intros; [exact I|reflexivity]|]. rewrite G. cbn. tauto.
Qed.

Lemma chain_NoDup ks : forall p, chain p ks ->
  NoDup ks /\ forall q k, p = Some q -> In k ks -> bytes_ltb q k = true.
Proof.
  induction ks as [|k ks IH]; intros p Hc.
  - split; [constructor|]. intros ? ? ? [].
  - destruct Hc as [Hp Hc]. destruct (IH _ Hc) as [Hnd Hlt]. split.
    + constructor; [|exact Hnd]. intros Hin.
      pose proof (Hlt k k eq_refl Hin) as Hx. rewrite bytes_ltb_irrefl in Hx. discriminate.
    + intros q k' -> [<-|Hin]; [exact Hp|].
      eapply bytes_ltb_trans; [exact Hp|]. apply (Hlt k k' eq_refl Hin).
Qed.

(* ---------- stream states inside the record's list ---------- *)

(* the state after List() on the record: everything left belongs to the list *)
Definition lst (i : list N) : st := mkSt i (lenN i) [lenN i].

Lemma adv_lst h tl : adv (lenN h) tl (lst (h ++ tl)) = lst tl.
Proof.
  unfold adv, lst. cbn [rem stack sub_top]. rewrite lenN_app.
  replace (lenN h + lenN tl - lenN h) with (lenN tl) by lia. reflexivity.
Qed.

Lemma room_lst n i : n <= lenN i -> room n (lst i).
Proof. intros H. unfold room, lst. cbn. lia. Qed.

Lemma bytesb_app_l a b : bytesb (a ++ b) = true -> bytesb a = true.
Proof. rewrite bytesb_app, andb_true_iff. tauto. Qed.
Lemma bytesb_app_r a b : bytesb (a ++ b) = true -> bytesb b = true.
Proof. rewrite bytesb_app, andb_true_iff. tauto. Qed.

Lemma kind_lst_inv i k size bv s1 :
  bytesb i = true -> kind_ (lst i) = Ok (k, size, bv, s1) ->
  exists h i1, i = h ++ i1 /\ s1 = lst i1 /\ 1 <= lenN h /\ size < W64 /\
               hdr_spec k size bv h /\ size <= lenN i1.
Proof.
  intros Hb E. destruct (kind_inv (lst i) _ _ _ _ Hb E) as (h & Hi & Hr & Hs & Hh & H64 & Hspec & Hrem & _).
  cbn [inp lst] in Hi. exists h, (inp s1).
  assert (Hs1 : s1 = lst (inp s1)).
  { rewrite Hs at 1. rewrite Hi. apply adv_lst. }
  split; [exact Hi|]. split; [exact Hs1|]. split; [exact Hh|]. split; [exact H64|].
  split; [exact Hspec|]. rewrite Hs1 in Hrem. exact Hrem.
Qed.

Lemma read_full_lst_inv n i c s2 :
  read_full n (lst i) = Ok (c, s2) -> exists i2, i = c ++ i2 /\ lenN c = n /\ s2 = lst i2.
Proof.
  intros E. apply read_full_inv in E as (_ & Hi & Hl & Hs). cbn [inp lst] in Hi.
  exists (inp s2). split; [exact Hi|]. split; [exact Hl|].
  rewrite Hs at 1. rewrite Hi, <- Hl. apply adv_lst.
Qed.

Lemma read_full_lst_ok c i2 : read_full (lenN c) (lst (c ++ i2)) = Ok (c, lst i2).
Proof.
  rewrite (read_full_ok (lst (c ++ i2)) c i2); [rewrite adv_lst; reflexivity| |reflexivity].
  apply room_lst. rewrite lenN_app. lia.
Qed.

(* Kind() on a framed value: header h (as Kind() reports it) followed by
   content of the declared size.  Unlike StreamProofs.kind_ok this does not
   require the string to be canonical (Kind() does not check that). *)
Lemma kind_frame_ok s k size bv h c r :
  hdr_spec k size bv h -> size < W64 -> lenN c = size ->
  room (lenN (h ++ c)) s -> inp s = h ++ c ++ r ->
  kind_ s = Ok (k, size, bv, adv (lenN h) (c ++ r) s).
Proof.
  intros Hspec H64 Hl Hroom Hinp.
  assert (Hcanon : forall k' c', chunk_ok k' c' -> khdr k' c' = h -> kbody k' c' = c ->
                    ksize k' c' = size -> kbv k' c' = bv -> k' = k ->
                    kind_ s = Ok (k, size, bv, adv (lenN h) (c ++ r) s)).
  { intros k' c' Hok Hh Hc Hsz Hbv Hk.
    rewrite (kind_ok s k' c' r Hok).
    - rewrite Hh, Hc, Hsz, Hbv, Hk. reflexivity.
    - rewrite <- khdr_body, Hh, Hc. exact Hroom.
    - rewrite <- khdr_body, Hh, Hc, <- app_assoc. exact Hinp. }
  destruct k; cbn [hdr_spec] in Hspec.
  - destruct Hspec as (-> & Hbv & ->). apply lenN_0 in Hl. subst c.
    apply (Hcanon KByte [bv]); try reflexivity.
    split; [cbn; lia|]. exists bv. split; [reflexivity|exact Hbv].
  - destruct Hspec as [-> ->].
    assert (Hcases : (forall x, c = [x] -> 128 <= x) \/ exists x, c = [x] /\ x < 128).
    { destruct c as [|x [|y t]].
      - left. intros ? ?; discriminate.
      - destruct (N.lt_ge_cases x 128); [right; exists x; tauto|left].
        intros ? E; inversion E; subst; assumption.
      - left. intros ? ?; discriminate. }
    destruct Hcases as [Hc|(x & -> & Hx)].
    + apply (Hcanon KString c); try reflexivity.
      * split; [unfold W64 in H64; lia|exact Hc].
      * cbn [khdr hdr]. rewrite Hl. reflexivity.
      * cbn [ksize]. exact Hl.
    + (* the non-canonical single byte: header 0x81 *)
      cbn in Hl. subst size. rewrite (enc_head_short 128 183 1) in * by lia. cbn [app] in *.
      rewrite !lenN_cons, lenN_nil in Hroom. change (lenN [128 + 1]) with 1.
      destruct Hroom as [Hr1 Hr2].
      assert (R1 : room 1 s). { unfold room. destruct (stack s); lia. }
      unfold kind_, read_kind_s.
      rewrite (read_byte_ok s (128 + 1) (x :: r) R1 Hinp).
      change (128 + 1 <? 128) with false. change (128 + 1 <? 184) with true. cbn iota.
      change (128 + 1 - 128) with 1. unfold adv. cbn [rem].
      destruct (stack s) as [|t tl].
      * destruct (N.ltb_spec (rem s - 1) 1); [lia|]. reflexivity.
      * destruct (N.eqb_spec t 0); [lia|]. destruct (N.ltb_spec t 1); [lia|].
        destruct (N.ltb_spec (rem s - 1) 1); [lia|]. reflexivity.
  - destruct Hspec as [-> ->].
    apply (Hcanon KList c); try reflexivity.
    + split; [unfold W64 in H64; lia|exact I].
    + cbn [khdr hdr]. rewrite Hl. reflexivity.
    + cbn [ksize]. exact Hl.
Qed.

Lemma kind_lst_ok k size bv h c r :
  hdr_spec k size bv h -> size < W64 -> lenN c = size ->
  kind_ (lst (h ++ c ++ r)) = Ok (k, size, bv, lst (c ++ r)).
Proof.
  intros Hspec H64 Hl.
  rewrite (kind_frame_ok (lst (h ++ c ++ r)) k size bv h c r Hspec H64 Hl).
  - rewrite adv_lst. reflexivity.
  - apply room_lst. rewrite !lenN_app. lia.
  - reflexivity.
Qed.

Lemma kind_lst_eol : kind_ (lst []) = Err EOL.
Proof. reflexivity. Qed.
