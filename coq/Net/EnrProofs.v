(* Net/EnrProofs.v — proofs about Net/Enr.v: a byte string is accepted as a
   node record iff it is the canonical encoding of the decoded fields, at most
   300 bytes, with strictly sorted keys and a verifying signature; accepted
   records re-encode to the same bytes. *)
From GV Require Import Lib.Tactics Lib.Bytes Lib.BytesProofs Rlp.Item Rlp.Raw Rlp.RawProofs Rlp.Codec Rlp.CodecProofs Rlp.Stream Rlp.StreamProofs Net.Enr.
Local Open Scope N_scope.

(* ---------- the order on keys ---------- *)

Lemma bytes_cmp_antisym a : forall b, bytes_cmp b a = CompOpp (bytes_cmp a b).
Proof.
  induction a as [|x a IH]; intros [|y b]; cbn; try reflexivity.
  rewrite (N.compare_antisym x y). destruct (x ?= y); cbn; auto.
Qed.

Lemma bytes_cmp_eq a : forall b, bytes_cmp a b = Eq -> a = b.
Proof.
  induction a as [|x a IH]; intros [|y b]; cbn; try discriminate; [reflexivity|].
  destruct (x ?= y) eqn:E; try discriminate. intros Hc.
  apply N.compare_eq in E. subst. f_equal. apply IH. exact Hc.
Qed.

Lemma bytes_cmp_refl a : bytes_cmp a a = Eq.
Proof. induction a as [|x a IH]; cbn; [reflexivity|]. rewrite N.compare_refl. exact IH. Qed.

Lemma bytes_ltb_trans a : forall b c, bytes_ltb a b = true -> bytes_ltb b c = true -> bytes_ltb a c = true.
Proof.
  unfold bytes_ltb.
  induction a as [|x a IH]; intros [|y b] [|z c]; cbn; try discriminate; try reflexivity.
  destruct (x ?= y) eqn:E1; try discriminate.
  - apply N.compare_eq in E1. subst y. destruct (x ?= z) eqn:E2; try discriminate; try reflexivity.
    apply IH.
  - intros _. destruct (y ?= z) eqn:E2; try discriminate.
    + apply N.compare_eq in E2. subst z. rewrite E1. reflexivity.
    + intros _. rewrite N.compare_lt_iff in E1, E2.
      assert (E3 : x < z) by lia. rewrite <- N.compare_lt_iff in E3. rewrite E3. reflexivity.
Qed.

Lemma bytes_ltb_irrefl a : bytes_ltb a a = false.
Proof. unfold bytes_ltb. rewrite bytes_cmp_refl. reflexivity. Qed.

(* the Go checks "k == prev -> dup; k < prev -> unsorted" pass iff prev < k *)
Lemma order_check k pk :
  (bytes_eqb k pk = false /\ bytes_ltb k pk = false) <-> bytes_ltb pk k = true.
Proof.
  unfold bytes_eqb, bytes_ltb. rewrite (bytes_cmp_antisym k pk).
  destruct (bytes_cmp k pk); cbn; split; try tauto; try (intros [? ?]; discriminate); discriminate.
Qed.

(* strictly sorted from a previous key *)
Fixpoint chain (prev : option (list N)) (ks : list (list N)) : Prop :=
  match ks with
  | [] => True
  | k :: tl => match prev with None => True | Some p => bytes_ltb p k = true end /\ chain (Some k) tl
  end.

Lemma sortedb_chain ks : sortedb ks = true <-> chain None ks.
Proof.
  assert (G : forall l p, sortedb (p :: l) = true <-> chain (Some p) l).
  { clear ks. intros l. induction l as [|k ks IH]; intros p.
    - split; intros; [exact I|reflexivity].
    - change (sortedb (p :: k :: ks)) with (bytes_ltb p k && sortedb (k :: ks)).
      rewrite andb_true_iff, IH. cbn. tauto. }
  destruct ks as [|k ks]; [split; intros; [exact I|reflexivity]|]. rewrite G. cbn. tauto.
Qed.

Lemma chain_NoDup ks : forall p, chain p ks ->
  NoDup ks /\ forall q k, p = Some q -> In k ks -> bytes_ltb q k = true.
Proof.
  induction ks as [|k ks IH]; intros p Hc.
  - split; [constructor|]. intros ? ? ? [].
  - destruct Hc as [Hp Hc]. destruct (IH _ Hc) as [Hnd Hlt]. split.
    + constructor; [|exact Hnd]. intros Hin.
      pose proof (Hlt k k eq_refl Hin) as Hx. rewrite bytes_ltb_irrefl in Hx. discriminate.
    + intros q k' -> [<-|Hin]; [exact Hp|].
      eapply bytes_ltb_trans; [exact Hp|]. apply (Hlt k k' eq_refl Hin).
Qed.

(* ---------- stream states inside the record's list ---------- *)

(* the state after List() on the record: everything left belongs to the list *)
Definition lst (i : list N) : st := mkSt i (lenN i) [lenN i].

Lemma adv_lst h tl : adv (lenN h) tl (lst (h ++ tl)) = lst tl.
Proof.
  unfold adv, lst. cbn [rem stack sub_top]. rewrite lenN_app.
  replace (lenN h + lenN tl - lenN h) with (lenN tl) by lia. reflexivity.
Qed.

Lemma room_lst n i : n <= lenN i -> room n (lst i).
Proof. intros H. unfold room, lst. cbn. lia. Qed.

Lemma bytesb_app_l a b : bytesb (a ++ b) = true -> bytesb a = true.
Proof. rewrite bytesb_app, andb_true_iff. tauto. Qed.
Lemma bytesb_app_r a b : bytesb (a ++ b) = true -> bytesb b = true.
Proof. rewrite bytesb_app, andb_true_iff. tauto. Qed.

Lemma kind_lst_inv i k size bv s1 :
  bytesb i = true -> kind_ (lst i) = Ok (k, size, bv, s1) ->
  exists h i1, i = h ++ i1 /\ s1 = lst i1 /\ 1 <= lenN h /\ size < W64 /\
               hdr_spec k size bv h /\ size <= lenN i1.
Proof.
  intros Hb E. destruct (kind_inv (lst i) _ _ _ _ Hb E) as (h & Hi & Hr & Hs & Hh & H64 & Hspec & Hrem & _).
  cbn [inp lst] in Hi. exists h, (inp s1).
  assert (Hs1 : s1 = lst (inp s1)).
  { rewrite Hs at 1. rewrite Hi. apply adv_lst. }
  split; [exact Hi|]. split; [exact Hs1|]. split; [exact Hh|]. split; [exact H64|].
  split; [exact Hspec|]. rewrite Hs1 in Hrem. exact Hrem.
Qed.

Lemma read_full_lst_inv n i c s2 :
  read_full n (lst i) = Ok (c, s2) -> exists i2, i = c ++ i2 /\ lenN c = n /\ s2 = lst i2.
Proof.
  intros E. apply read_full_inv in E as (_ & Hi & Hl & Hs). cbn [inp lst] in Hi.
  exists (inp s2). split; [exact Hi|]. split; [exact Hl|].
  rewrite Hs at 1. rewrite Hi, <- Hl. apply adv_lst.
Qed.

Lemma read_full_lst_ok c i2 : read_full (lenN c) (lst (c ++ i2)) = Ok (c, lst i2).
Proof.
  rewrite (read_full_ok (lst (c ++ i2)) c i2); [rewrite adv_lst; reflexivity| |reflexivity].
  apply room_lst. rewrite lenN_app. lia.
Qed.

(* Kind() on a framed value: header h (as Kind() reports it) followed by
   content of the declared size.  Unlike StreamProofs.kind_ok this does not
   require the string to be canonical (Kind() does not check that). *)
Lemma kind_frame_ok s k size bv h c r :
  hdr_spec k size bv h -> size < W64 -> lenN c = size ->
  room (lenN (h ++ c)) s -> inp s = h ++ c ++ r ->
  kind_ s = Ok (k, size, bv, adv (lenN h) (c ++ r) s).
Proof.
  intros Hspec H64 Hl Hroom Hinp.
  assert (Hcanon : forall k' c', chunk_ok k' c' -> khdr k' c' = h -> kbody k' c' = c ->
                    ksize k' c' = size -> kbv k' c' = bv -> k' = k ->
                    kind_ s = Ok (k, size, bv, adv (lenN h) (c ++ r) s)).
  { intros k' c' Hok Hh Hc Hsz Hbv Hk.
    rewrite (kind_ok s k' c' r Hok).
    - rewrite Hh, Hc, Hsz, Hbv, Hk. reflexivity.
    - rewrite <- khdr_body, Hh, Hc. exact Hroom.
    - rewrite <- khdr_body, Hh, Hc, <- app_assoc. exact Hinp. }
  destruct k; cbn [hdr_spec] in Hspec.
  - destruct Hspec as (-> & Hbv & ->). apply lenN_0 in Hl. subst c.
    apply (Hcanon KByte [bv]); try reflexivity.
    split; [cbn; lia|]. exists bv. split; [reflexivity|exact Hbv].
  - destruct Hspec as [-> ->].
    assert (Hcases : (forall x, c = [x] -> 128 <= x) \/ exists x, c = [x] /\ x < 128).
    { destruct c as [|x [|y t]].
      - left. intros ? ?; discriminate.
      - destruct (N.lt_ge_cases x 128); [right; exists x; tauto|left].
        intros ? E; inversion E; subst; assumption.
      - left. intros ? ?; discriminate. }
    destruct Hcases as [Hc|(x & -> & Hx)].
    + apply (Hcanon KString c); try reflexivity.
      * split; [unfold W64 in H64; lia|exact Hc].
      * cbn [khdr hdr]. rewrite Hl. reflexivity.
      * cbn [ksize]. exact Hl.
    + (* the non-canonical single byte: header 0x81 *)
      cbn in Hl. subst size. rewrite (enc_head_short 128 183 1) in * by lia. cbn [app] in *.
      rewrite !lenN_cons, lenN_nil in Hroom. change (lenN [128 + 1]) with 1.
      destruct Hroom as [Hr1 Hr2].
      assert (R1 : room 1 s). { unfold room. destruct (stack s); lia. }
      unfold kind_, read_kind_s.
      rewrite (read_byte_ok s (128 + 1) (x :: r) R1 Hinp).
      change (128 + 1 <? 128) with false. change (128 + 1 <? 184) with true. cbn iota.
      change (128 + 1 - 128) with 1. unfold adv. cbn [rem].
      destruct (stack s) as [|t tl].
      * destruct (N.ltb_spec (rem s - 1) 1); [lia|]. reflexivity.
      * destruct (N.eqb_spec t 0); [lia|]. destruct (N.ltb_spec t 1); [lia|].
        destruct (N.ltb_spec (rem s - 1) 1); [lia|]. reflexivity.
  - destruct Hspec as [-> ->].
    apply (Hcanon KList c); try reflexivity.
    + split; [unfold W64 in H64; lia|exact I].
    + cbn [khdr hdr]. rewrite Hl. reflexivity.
    + cbn [ksize]. exact Hl.
Qed.

Lemma kind_lst_ok k size bv h c r :
  hdr_spec k size bv h -> size < W64 -> lenN c = size ->
  kind_ (lst (h ++ c ++ r)) = Ok (k, size, bv, lst (c ++ r)).
Proof.
  intros Hspec H64 Hl.
  rewrite (kind_frame_ok (lst (h ++ c ++ r)) k size bv h c r Hspec H64 Hl).
  - rewrite adv_lst. reflexivity.
  - apply room_lst. rewrite !lenN_app. lia.
  - reflexivity.
Qed.

Lemma kind_lst_eol : kind_ (lst []) = Err EOL.
Proof. reflexivity. Qed.

(* ---------- Bytes() (signature, keys) ---------- *)

Lemma enc_str_nonbyte c : (forall x, c = [x] -> 128 <= x) -> enc_str c = enc_head 128 183 (lenN c) ++ c.
Proof.
  intros Hc. destruct c as [|x [|y t]]; try reflexivity.
  cbn [enc_str]. specialize (Hc x eq_refl). destruct (N.ltb_spec x 128); [lia|reflexivity].
Qed.

Lemma byteslice_lst_inv i b s' :
  bytesb i = true -> byteslice_ (lst i) = Ok (b, s') -> exists i', i = enc_str b ++ i' /\ s' = lst i'.
Proof.
  intros Hb. unfold byteslice_.
  destruct (kind_ (lst i)) as [[[[k size] bv] s1]|] eqn:E; [|discriminate].
  destruct (kind_lst_inv _ _ _ _ _ Hb E) as (h & i1 & -> & -> & Hh & H64 & Hspec & Hsz).
  destruct k; cbn [bytes_ hdr_spec] in *.
  - destruct Hspec as (-> & Hbv & ->). intros E2; inversion E2; subst. exists i1. split; [|reflexivity].
    cbn [enc_str]. destruct (N.ltb_spec bv 128); [reflexivity|lia].
  - destruct Hspec as [-> ->].
    destruct (read_full size (lst i1)) as [[c s2]|] eqn:E3; [|discriminate].
    destruct (read_full_lst_inv _ _ _ _ E3) as (i2 & -> & Hl & ->).
    intros E4. exists i2.
    assert (G : b = c /\ s' = lst i2 /\ (forall x, c = [x] -> 128 <= x)).
    { destruct c as [|x [|y t]].
      - inversion E4. split; [reflexivity|]. split; [reflexivity|]. intros ? ?; discriminate.
      - destruct (N.ltb_spec x 128); [discriminate|]. inversion E4.
        split; [reflexivity|]. split; [reflexivity|]. intros ? E5; inversion E5; subst; assumption.
      - inversion E4. split; [reflexivity|]. split; [reflexivity|]. intros ? ?; discriminate. }
    destruct G as (-> & -> & Hc). split; [|reflexivity].
    rewrite (enc_str_nonbyte c Hc), Hl, <- app_assoc. reflexivity.
  - discriminate.
Qed.

Lemma byteslice_lst_ok b i' : lenN b < W64 -> byteslice_ (lst (enc_str b ++ i')) = Ok (b, lst i').
Proof.
  intros H64. unfold byteslice_.
  assert (Hcases : (exists x, b = [x] /\ x < 128) \/ (forall x, b = [x] -> 128 <= x)).
  { destruct b as [|x [|y t]].
    - right. intros ? ?; discriminate.
    - destruct (N.lt_ge_cases x 128); [left; exists x; tauto|right].
      intros ? E; inversion E; subst; assumption.
    - right. intros ? ?; discriminate. }
  destruct Hcases as [(x & -> & Hx)|Hc].
  - cbn [enc_str]. destruct (N.ltb_spec x 128); [|lia].
    change ([x] ++ i') with ([x] ++ [] ++ i').
    rewrite (kind_lst_ok KByte 0 x [x] [] i'); [reflexivity| |unfold W64; lia|reflexivity].
    cbn. auto.
  - rewrite (enc_str_nonbyte b Hc), <- app_assoc.
    rewrite (kind_lst_ok KString (lenN b) 0 (enc_head 128 183 (lenN b)) b i');
      [|cbn; auto|exact H64|reflexivity].
    cbn [bytes_]. rewrite read_full_lst_ok.
    destruct b as [|x [|y t]]; try reflexivity.
    specialize (Hc x eq_refl). destruct (N.ltb_spec x 128); [lia|reflexivity].
Qed.

Lemma byteslice_lst_eol : byteslice_ (lst []) = Err EOL.
Proof. reflexivity. Qed.

(* ---------- uint64 (seq) ---------- *)

Lemma be_bytes_byte x : x <> 0 -> x < 256 -> be_bytes x = [x].
Proof.
  intros H0 H. rewrite <- (be_decode_single x) at 1. apply be_decode_bytes.
  - cbn. unfold byteb. rewrite andb_true_r. apply N.ltb_lt. exact H.
  - cbn. apply negb_true_iff, N.eqb_neq. exact H0.
Qed.

Lemma be_decode_ge256 b0 b1 t : b0 <> 0 -> 256 <= be_decode (b0 :: b1 :: t).
Proof.
  intros H. pose proof (be_decode_pos b0 (b1 :: t) H) as Hp. rewrite lenN_cons in Hp.
  assert (256 ^ 1 <= 256 ^ (1 + lenN t)) by (apply N.pow_le_mono_r; lia).
  change (256 ^ 1) with 256 in *. lia.
Qed.

Lemma uint_lst_inv i v s' :
  bytesb i = true -> uint_ 64 (lst i) = Ok (v, s') ->
  exists i', i = enc_uint v ++ i' /\ s' = lst i' /\ v < W64.
Proof.
  intros Hb. unfold uint_.
  destruct (kind_ (lst i)) as [[[[k size] bv] s1]|] eqn:E; [|discriminate].
  destruct (kind_lst_inv _ _ _ _ _ Hb E) as (h & i1 & -> & -> & Hh & H64 & Hspec & Hsz).
  pose proof (bytesb_app_r _ _ Hb) as Hb1.
  destruct k; cbn [hdr_spec] in *.
  - destruct Hspec as (-> & Hbv & ->). destruct (N.eqb_spec bv 0); [discriminate|].
    intros E2; inversion E2; subst. exists i1. split; [|split; [reflexivity|unfold W64; lia]].
    unfold enc_uint. rewrite be_bytes_byte by lia. cbn [enc_str].
    destruct (N.ltb_spec v 128); [reflexivity|lia].
  - destruct Hspec as [-> ->]. change (64 / 8) with 8.
    destruct (N.ltb_spec 8 size); [discriminate|]. unfold read_uint.
    destruct (N.eqb_spec size 0) as [->|Hn0].
    { cbn. intros E2; inversion E2; subst. exists i1. split; [reflexivity|]. split; [reflexivity|reflexivity]. }
    destruct (N.eqb_spec size 1) as [->|Hn1].
    { destruct (read_byte (lst i1)) as [[x s2]|e] eqn:E3; [|destruct e; discriminate].
      apply read_byte_inv in E3 as (_ & Hi & Hs). cbn [inp lst] in Hi.
      change (0 <? 1) with true. cbn [andb].
      destruct (N.ltb_spec x 128); [discriminate|]. intros E2; inversion E2; subst v s'.
      assert (Hx : x < 256).
      { rewrite Hi in Hb1. cbn in Hb1. apply andb_true_iff in Hb1 as [Hx _]. apply N.ltb_lt. exact Hx. }
      exists (inp s2). split; [|split; [|unfold W64; lia]].
      - rewrite Hi. unfold enc_uint. rewrite be_bytes_byte by lia.
        rewrite enc_str_nonbyte; [reflexivity|]. intros ? E5; inversion E5; subst; assumption.
      - rewrite Hs at 1. rewrite Hi. apply (adv_lst [x] (inp s2)). }
    destruct (read_full size (lst i1)) as [[c s2]|e] eqn:E3; [|destruct e; discriminate].
    destruct (read_full_lst_inv _ _ _ _ E3) as (i2 & -> & Hl & ->).
    destruct c as [|b0 [|b1 t]].
    { cbn in Hl. lia. }
    { cbn in Hl. lia. }
    destruct (N.eqb_spec b0 0); [discriminate|].
    pose proof (be_decode_ge256 b0 b1 t ltac:(assumption)) as Hge.
    set (c := b0 :: b1 :: t) in *.
    destruct (N.ltb_spec 0 size); [|lia]. cbn [andb].
    destruct (N.ltb_spec (be_decode c) 128); [lia|].
    intros E2; inversion E2; subst v s'. exists i2.
    pose proof (bytesb_app_l _ _ Hb1) as Hbc.
    split; [|split; [reflexivity|]].
    + unfold enc_uint. rewrite be_decode_bytes; [|exact Hbc|].
      * rewrite enc_str_nonbyte; [rewrite Hl, <- app_assoc; reflexivity|].
        intros ? E5; discriminate.
      * cbn. apply negb_true_iff, N.eqb_neq. assumption.
    + apply be_decode_lt_64; [exact Hbc|lia].
  - discriminate.
Qed.

Lemma uint_lst_ok v i' : v < W64 -> uint_ 64 (lst (enc_uint v ++ i')) = Ok (v, lst i').
Proof.
  intros H64. unfold uint_, enc_uint.
  pose proof (be_bytes_decode v) as Hd. pose proof (be_bytes_hd v) as Hhd.
  pose proof (be_bytes_bytes v) as Hbb. pose proof (be_bytes_len_64 v H64) as Hl8.
  destruct (be_bytes v) as [|x [|y t]] eqn:Ebe.
  - (* v = 0 *)
    subst v. change (enc_str []) with ([128] ++ []). rewrite <- app_assoc.
    rewrite (kind_lst_ok KString 0 0 [128] [] i'); [|cbn; auto|unfold W64; lia|reflexivity].
    cbn. reflexivity.
  - rewrite be_decode_single in Hd. subst x. destruct Hhd as [Hv0 _].
    assert (Hv : v < 256).
    { cbn in Hbb. apply andb_true_iff in Hbb as [Hx _]. apply N.ltb_lt. exact Hx. }
    destruct (N.lt_ge_cases v 128) as [Hs|Hs].
    + cbn [enc_str]. destruct (N.ltb_spec v 128); [|lia].
      change ([v] ++ i') with ([v] ++ [] ++ i').
      rewrite (kind_lst_ok KByte 0 v [v] [] i'); [|cbn; auto|unfold W64; lia|reflexivity].
      destruct (N.eqb_spec v 0); [lia|]. reflexivity.
    + rewrite enc_str_nonbyte; [|intros ? E5; inversion E5; subst; assumption].
      rewrite <- app_assoc.
      rewrite (kind_lst_ok KString (lenN [v]) 0 (enc_head 128 183 (lenN [v])) [v] i');
        [|cbn; auto|unfold W64; cbn; lia|reflexivity].
      change (lenN [v]) with 1. change (64 / 8 <? 1) with false. cbn iota.
      unfold read_uint. change (1 =? 0) with false. change (1 =? 1) with true. cbn iota.
      rewrite (read_byte_ok (lst ([v] ++ i')) v i'); [|apply room_lst; rewrite lenN_app, lenN_cons, lenN_nil; lia|reflexivity].
      replace (adv 1 i' (lst ([v] ++ i'))) with (lst i') by (symmetry; apply (adv_lst [v] i')).
      change (0 <? 1) with true. cbn [andb].
      destruct (N.ltb_spec v 128); [lia|]. reflexivity.
  - set (c := x :: y :: t) in *. destruct Hhd as [Hx0 _].
    rewrite enc_str_nonbyte; [|intros ? E5; discriminate]. rewrite <- app_assoc.
    rewrite (kind_lst_ok KString (lenN c) 0 (enc_head 128 183 (lenN c)) c i');
      [|cbn; auto|unfold W64; lia|reflexivity].
    change (64 / 8) with 8. destruct (N.ltb_spec 8 (lenN c)); [lia|].
    assert (Hlc : lenN c = 2 + lenN t). { unfold c. rewrite !lenN_cons. lia. }
    unfold read_uint.
    destruct (N.eqb_spec (lenN c) 0); [lia|]. destruct (N.eqb_spec (lenN c) 1); [lia|].
    rewrite read_full_lst_ok. unfold c at 1.
    destruct (N.eqb_spec x 0); [contradiction|].
    pose proof (be_decode_ge256 x y t Hx0) as Hge. fold c in Hge. rewrite Hd in *.
    destruct (N.ltb_spec 0 (lenN c)); [|lia]. cbn [andb].
    destruct (N.ltb_spec v 128); [lia|]. reflexivity.
Qed.

(* ---------- Raw() (values) ---------- *)

Lemma raw_value_frame v :
  raw_value v <-> exists k size bv h c, hdr_spec k size bv h /\ size < W64 /\ lenN c = size /\ v = h ++ c.
Proof.
  split.
  - intros [(x & -> & Hx)|(c & Hc & [->| ->])].
    + exists KByte, 0, x, [x], []. cbn. split; [auto|]. split; [unfold W64; lia|]. split; reflexivity.
    + exists KString, (lenN c), 0, (enc_head 128 183 (lenN c)), c. cbn. auto.
    + exists KList, (lenN c), 0, (enc_head 192 247 (lenN c)), c. cbn. auto.
  - intros (k & size & bv & h & c & Hspec & H64 & Hl & ->). destruct k; cbn [hdr_spec] in Hspec.
    + destruct Hspec as (-> & Hbv & ->). apply lenN_0 in Hl. subst c. left. exists bv. auto.
    + destruct Hspec as [-> _]. right. exists c. subst size. auto.
    + destruct Hspec as [-> _]. right. exists c. subst size. auto.
Qed.

Lemma raw_lst_inv i v s' :
  bytesb i = true -> raw_ (lst i) = Ok (v, s') -> exists i', i = v ++ i' /\ s' = lst i' /\ raw_value v.
Proof.
  intros Hb. unfold raw_.
  destruct (kind_ (lst i)) as [[[[k size] bv] s1]|] eqn:E; [|discriminate].
  destruct (kind_lst_inv _ _ _ _ _ Hb E) as (h & i1 & -> & -> & Hh & H64 & Hspec & Hsz).
  destruct k.
  - intros E2; inversion E2; subst. exists i1. pose proof Hspec as Hs. cbn in Hs.
    destruct Hs as (-> & Hbv & ->). split; [reflexivity|]. split; [reflexivity|].
    left. exists bv. auto.
  - destruct (read_full size (lst i1)) as [[c s2]|] eqn:E3; [|discriminate].
    destruct (read_full_lst_inv _ _ _ _ E3) as (i2 & -> & Hl & ->).
    intros E2; inversion E2; subst v s'. exists i2. cbn in Hspec. destruct Hspec as [-> _].
    split; [rewrite app_assoc; reflexivity|]. split; [reflexivity|].
    right. exists c. rewrite Hl. auto.
  - destruct (read_full size (lst i1)) as [[c s2]|] eqn:E3; [|discriminate].
    destruct (read_full_lst_inv _ _ _ _ E3) as (i2 & -> & Hl & ->).
    intros E2; inversion E2; subst v s'. exists i2. cbn in Hspec. destruct Hspec as [-> _].
    split; [rewrite app_assoc; reflexivity|]. split; [reflexivity|].
    right. exists c. rewrite Hl. auto.
Qed.

Lemma raw_lst_ok v i' : raw_value v -> raw_ (lst (v ++ i')) = Ok (v, lst i').
Proof.
  intros Hv. apply raw_value_frame in Hv as (k & size & bv & h & c & Hspec & H64 & Hl & ->).
  unfold raw_. rewrite <- app_assoc. rewrite (kind_lst_ok k size bv h c i' Hspec H64 Hl).
  destruct k; cbn [hdr_spec] in Hspec.
  - destruct Hspec as (-> & _ & ->). apply lenN_0 in Hl. subst c. reflexivity.
  - destruct Hspec as [-> _]. rewrite <- Hl, read_full_lst_ok. reflexivity.
  - destruct Hspec as [-> _]. rewrite <- Hl, read_full_lst_ok. reflexivity.
Qed.

(* ---------- the key/value loop ---------- *)

Definition pairs_enc (l : list (list N * list N)) : list N :=
  flat_map (fun kv => enc_str (fst kv) ++ snd kv) l.

Lemma pairs_inv f : forall prev i l s',
  bytesb i = true -> pairs_ f prev (lst i) = EOk (l, s') ->
  exists i', i = pairs_enc l ++ i' /\ s' = lst i' /\
             Forall (fun kv => raw_value (snd kv)) l /\ chain prev (map fst l).
Proof.
  induction f as [|f IH]; intros prev i l s' Hb; cbn [pairs_]; [discriminate|].
  destruct (byteslice_ (lst i)) as [[k s1]|e] eqn:E1.
  2:{ destruct e; try discriminate. intros E; inversion E; subst. exists i.
      split; [reflexivity|]. split; [reflexivity|]. split; [constructor|exact I]. }
  destruct (byteslice_lst_inv _ _ _ Hb E1) as (i1 & -> & ->).
  pose proof (bytesb_app_r _ _ Hb) as Hb1.
  destruct (raw_ (lst i1)) as [[v s2]|e] eqn:E2; [|destruct e; discriminate].
  destruct (raw_lst_inv _ _ _ Hb1 E2) as (i2 & -> & -> & Hv).
  pose proof (bytesb_app_r _ _ Hb1) as Hb2.
  assert (Hcont : match prev with None => True | Some p => bytes_ltb p k = true end ->
          match pairs_ f (Some k) (lst i2) with
          | EOk (l0, s3) => EOk ((k, v) :: l0, s3)
          | EErr e => EErr e
          end = EOk (l, s') ->
          exists i', enc_str k ++ v ++ i2 = pairs_enc l ++ i' /\ s' = lst i' /\
             Forall (fun kv => raw_value (snd kv)) l /\ chain prev (map fst l)).
  { intros Hp. destruct (pairs_ f (Some k) (lst i2)) as [[l0 s3]|] eqn:E3; [|discriminate].
    intros E; inversion E; subst l s'.
    destruct (IH _ _ _ _ Hb2 E3) as (i' & -> & -> & Hf & Hc). exists i'.
    split; [cbn [pairs_enc flat_map fst snd]; rewrite <- !app_assoc; reflexivity|].
    split; [reflexivity|]. split; [constructor; [exact Hv|exact Hf]|].
    cbn [map fst chain]. split; [exact Hp|exact Hc]. }
  destruct prev as [p|]; [|apply Hcont; exact I].
  destruct (bytes_eqb k p) eqn:Eq1; [discriminate|].
  destruct (bytes_ltb k p) eqn:Lt1; [discriminate|].
  apply Hcont. apply order_check. split; assumption.
Qed.

Lemma pairs_ok l : forall f prev,
  Forall (fun kv => raw_value (snd kv)) l -> chain prev (map fst l) ->
  lenN (pairs_enc l) < W64 -> (length l < f)%nat ->
  pairs_ f prev (lst (pairs_enc l)) = EOk (l, lst []).
Proof.
  induction l as [|[k v] l IH]; intros f prev Hf Hc H64 Hfuel.
  - destruct f; [lia|]. reflexivity.
  - destruct f; [cbn in Hfuel; lia|]. inversion Hf as [|? ? Hv Hf']; subst. cbn [snd] in Hv.
    cbn [map fst chain] in Hc. destruct Hc as [Hp Hc].
    cbn [pairs_enc flat_map fst snd] in *. fold (pairs_enc l) in *.
    rewrite !lenN_app in H64. cbn [pairs_]. rewrite <- app_assoc.
    assert (Hk64 : lenN k < W64).
    { destruct k as [|x [|y t]]; cbn [enc_str] in H64; try (destruct (x <? 128));
        rewrite ?lenN_app in H64; try lia; cbn; unfold W64; lia. }
    rewrite (byteslice_lst_ok k _ Hk64), (raw_lst_ok v _ Hv).
    rewrite (IH f (Some k) Hf' Hc ltac:(lia) ltac:(cbn in Hfuel; lia)).
    destruct prev as [p|]; [|reflexivity].
    apply order_check in Hp as [-> ->]. reflexivity.
Qed.

Lemma enc_str_len_pos k : (1 <= length (enc_str k))%nat.
Proof.
  pose proof (enc_len_pos (Str k)) as H. cbn [enc] in H. unfold lenN in H. lia.
Qed.

(* the fuel of decode_record is never exhausted *)
Lemma pairs_enc_len l : (length l <= length (pairs_enc l))%nat.
Proof.
  induction l as [|[k v] l IH]; [cbn; lia|].
  cbn [pairs_enc flat_map fst snd length]. fold (pairs_enc l). rewrite !app_length.
  pose proof (enc_str_len_pos k). lia.
Qed.

(* ---------- decodeRecord / DecodeBytes ---------- *)

Lemma raw_init_inv b v s' :
  bytesb b = true -> raw_ (init b) = Ok (v, s') ->
  b = v ++ inp s' /\
  exists k size bv h c, hdr_spec k size bv h /\ size < W64 /\ lenN c = size /\ v = h ++ c.
Proof.
  intros Hb. unfold raw_.
  destruct (kind_ (init b)) as [[[[k size] bv] s1]|] eqn:E; [|discriminate].
  destruct (kind_inv (init b) _ _ _ _ Hb E) as (h & Hi & _ & _ & _ & H64 & Hspec & _ & _).
  cbn [inp init] in Hi. destruct k.
  - intros E2; inversion E2; subst v s'. pose proof Hspec as Hs. cbn in Hs. destruct Hs as (-> & _ & ->).
    split; [exact Hi|]. exists KByte, 0, bv, [bv], []. rewrite app_nil_r. auto.
  - destruct (read_full size s1) as [[c s2]|] eqn:E3; [|discriminate].
    apply read_full_inv in E3 as (_ & Hi2 & Hl & _).
    intros E2; inversion E2; subst v s'. pose proof Hspec as Hs. cbn in Hs. destruct Hs as [-> _].
    split; [rewrite Hi, Hi2, app_assoc; reflexivity|].
    exists KString, size, bv, (enc_head 128 183 size), c. auto.
  - destruct (read_full size s1) as [[c s2]|] eqn:E3; [|discriminate].
    apply read_full_inv in E3 as (_ & Hi2 & Hl & _).
    intros E2; inversion E2; subst v s'. pose proof Hspec as Hs. cbn in Hs. destruct Hs as [-> _].
    split; [rewrite Hi, Hi2, app_assoc; reflexivity|].
    exists KList, size, bv, (enc_head 192 247 size), c. auto.
Qed.

(* the inner stream: Kind() on the re-framed record, then List() *)
Lemma inner_kind k size bv h c :
  hdr_spec k size bv h -> size < W64 -> lenN c = size ->
  kind_ (init (h ++ c)) = Ok (k, size, bv, adv (lenN h) (c ++ []) (init (h ++ c))).
Proof.
  intros Hspec H64 Hl. apply (kind_frame_ok (init (h ++ c)) k size bv h c [] Hspec H64 Hl).
  - unfold room, init. cbn. split; [lia|exact I].
  - cbn [inp init]. rewrite app_nil_r. reflexivity.
Qed.

Lemma inner_list size h c :
  lenN c = size -> list_ size (adv (lenN h) (c ++ []) (init (h ++ c))) = lst c.
Proof.
  intros Hl. unfold list_, adv, init, lst. cbn [stack sub_top inp rem].
  rewrite app_nil_r, lenN_app. subst size. f_equal. lia.
Qed.

Lemma enc_str_len_ge b : lenN b <= lenN (enc_str b).
Proof.
  destruct b as [|x [|y t]]; cbn [enc_str]; try (destruct (x <? 128)); rewrite ?lenN_app; try lia.
Qed.

Lemma decode_sound b r :
  bytesb b = true -> decode b = EOk r ->
  b = encode r /\ r_raw r = b /\ lenN b <= 300 /\ rec_ok r /\ sortedb (keys r) = true.
Proof.
  intros Hb. unfold decode, decode_record.
  destruct (raw_ (init b)) as [[raw s1]|] eqn:E0; [|discriminate].
  destruct (raw_init_inv _ _ _ Hb E0) as (Hsplit & k & size & bv & h & c & Hspec & H64 & Hl & ->).
  unfold SizeLimit. destruct (N.ltb_spec 300 (lenN (h ++ c))) as [|Hsz]; [discriminate|].
  assert (Hbr : bytesb (h ++ c) = true) by (rewrite Hsplit in Hb; eapply bytesb_app_l; eauto).
  rewrite (inner_kind k size bv h c Hspec H64 Hl).
  destruct k; try discriminate. rewrite (inner_list size h c Hl).
  cbn in Hspec. destruct Hspec as [-> _].
  pose proof (bytesb_app_r _ _ Hbr) as Hbc.
  destruct (byteslice_ (lst c)) as [[sig s3]|e] eqn:E1; [|destruct e; discriminate].
  destruct (byteslice_lst_inv _ _ _ Hbc E1) as (i3 & -> & ->).
  pose proof (bytesb_app_r _ _ Hbc) as Hb3.
  destruct (uint_ 64 (lst i3)) as [[seq s4]|e] eqn:E2; [|destruct e; discriminate].
  destruct (uint_lst_inv _ _ _ Hb3 E2) as (i4 & -> & -> & Hseq).
  pose proof (bytesb_app_r _ _ Hb3) as Hb4.
  destruct (pairs_ _ None (lst i4)) as [[ps s5]|] eqn:E3; [|discriminate].
  destruct (pairs_inv _ _ _ _ _ Hb4 E3) as (i5 & -> & -> & Hvals & Hchain).
  destruct (list_end (lst i5)) as [s6|] eqn:E4; [|discriminate].
  apply list_end_inv in E4 as (tl & Hst & _). cbn [stack lst] in Hst. inversion Hst as [Hz].
  apply lenN_0 in Hz. subst i5.
  destruct (inp s1) as [|? ?] eqn:Ei; [|discriminate].
  intros E; inversion E; subst r. rewrite app_nil_r in Hsplit.
  unfold encode, encode_fields, content_enc, rec_ok, keys. cbn [r_raw r_seq r_pairs r_sig].
  fold (pairs_enc ps). rewrite app_nil_r in *. subst size.
  split; [exact Hsplit|]. split; [symmetry; exact Hsplit|].
  split; [rewrite Hsplit; exact Hsz|].
  split; [split; [exact Hseq|exact Hvals]|]. apply sortedb_chain. exact Hchain.
Qed.

Lemma decode_complete r :
  r_raw r = encode r -> lenN (encode r) <= 300 -> rec_ok r -> sortedb (keys r) = true ->
  decode (encode r) = EOk r.
Proof.
  destruct r as [sig seq ps raw]. unfold encode, rec_ok, keys. cbn [r_raw r_seq r_pairs r_sig].
  intros -> Hsz [Hseq Hvals] Hsorted. unfold encode_fields in *.
  change (content_enc seq ps) with (enc_uint seq ++ pairs_enc ps) in *.
  set (c := enc_str sig ++ enc_uint seq ++ pairs_enc ps) in *.
  set (h := enc_head 192 247 (lenN c)) in *.
  assert (Hc : lenN c <= 300) by (rewrite lenN_app in Hsz; lia).
  assert (H64 : lenN c < W64) by (unfold W64; lia).
  assert (Hspec : hdr_spec KList (lenN c) 0 h) by (cbn; auto).
  unfold decode, decode_record, raw_.
  rewrite (inner_kind KList (lenN c) 0 h c Hspec H64 eq_refl).
  set (s1 := adv (lenN h) (c ++ []) (init (h ++ c))).
  rewrite (read_full_ok s1 c []);
    [|unfold room, s1, adv, init; cbn; rewrite lenN_app; split; [lia|exact I]|reflexivity].
  fold h. unfold SizeLimit. destruct (N.ltb_spec 300 (lenN (h ++ c))); [lia|].
  rewrite (inner_kind KList (lenN c) 0 h c Hspec H64 eq_refl). fold s1.
  unfold s1 at 1. rewrite (inner_list (lenN c) h c eq_refl).
  unfold c at 1. rewrite (byteslice_lst_ok sig).
  2:{ pose proof (enc_str_len_ge sig). unfold c in Hc. rewrite lenN_app in Hc. unfold W64. lia. }
  rewrite (uint_lst_ok seq _ Hseq).
  rewrite (pairs_ok ps (S (length (h ++ c))) None Hvals).
  - cbn [list_end lst stack]. change (0 <? lenN []) with false. cbn iota. reflexivity.
  - apply sortedb_chain. exact Hsorted.
  - unfold c in Hc. rewrite !lenN_app in Hc. unfold W64. lia.
  - pose proof (pairs_enc_len ps). unfold c. rewrite !app_length. lia.
Qed.

Theorem decode_iff b r :
  bytesb b = true ->
  (decode b = EOk r <->
   b = encode r /\ r_raw r = b /\ lenN b <= 300 /\ rec_ok r /\ sortedb (keys r) = true).
Proof.
  intros Hb. split; [apply decode_sound; exact Hb|].
  intros (-> & Hraw & Hsz & Hok & Hs). apply decode_complete; assumption.
Qed.

(* ---------- identity scheme ---------- *)

Section Scheme.
  Variable H : list N -> list N.
  Variable verify : list N -> list N -> list N -> bool.

  (* the signature clause, spelled out: the "id" entry is the string "v4", the
     "secp256k1" entry is a 33-byte string pk, and the signature verifies under
     pk for the hash of rlp([seq, k1, v1, ...]) *)
  Definition sig_valid (r : record) : Prop :=
    load_bytes key_id r = EOk scheme_v4 /\
    exists pk, load_bytes key_secp256k1 r = EOk pk /\ lenN pk = 33 /\
               verify pk (H (signed_content r)) (r_sig r) = true.

  Lemma bytes_eqb_eq a b : bytes_eqb a b = true <-> a = b.
  Proof.
    unfold bytes_eqb. split.
    - destruct (bytes_cmp a b) eqn:E; try discriminate. intros _. apply bytes_cmp_eq. exact E.
    - intros ->. rewrite bytes_cmp_refl. reflexivity.
  Qed.

  Lemma new_node_iff r : new_node H verify r = EOk tt <-> sig_valid r.
  Proof.
    unfold new_node, scheme_verify, v4_verify, identity_scheme, sig_valid. split.
    - destruct (bytes_eqb _ scheme_v4) eqn:Eid; [|discriminate].
      apply bytes_eqb_eq in Eid.
      destruct (load_bytes key_id r) as [idv|] eqn:E1; [|discriminate]. subst idv.
      destruct (load_bytes key_secp256k1 r) as [pk|] eqn:E2; [|discriminate].
      destruct (N.eqb_spec (lenN pk) 33); [|discriminate].
      destruct (verify pk _ _) eqn:Ev; [|discriminate].
      intros _. split; [reflexivity|]. exists pk. auto.
    - intros (-> & pk & -> & Hl & Hv). change (bytes_eqb scheme_v4 scheme_v4) with true. cbn iota.
      rewrite Hl. cbn. rewrite Hv. reflexivity.
  Qed.

  Theorem accept_iff b r :
    bytesb b = true ->
    (accept H verify b = EOk r <->
     b = encode r /\ r_raw r = b /\ lenN b <= 300 /\ rec_ok r /\
     sortedb (keys r) = true /\ sig_valid r).
  Proof.
    intros Hb. unfold accept. split.
    - destruct (decode b) as [r'|] eqn:Ed; [|discriminate].
      destruct (new_node H verify r') as [[]|] eqn:En; [|discriminate].
      intros E; inversion E; subst r'.
      apply (decode_iff b r Hb) in Ed as (? & ? & ? & ? & ?). apply new_node_iff in En.
      repeat (split; [assumption|]). exact En.
    - intros (? & ? & ? & ? & ? & Hv).
      assert (Ed : decode b = EOk r) by (apply (decode_iff b r Hb); auto).
      rewrite Ed. apply new_node_iff in Hv. rewrite Hv. reflexivity.
  Qed.

  Theorem reencode_identical b r :
    bytesb b = true -> accept H verify b = EOk r -> encode r = b /\ encode_rlp r = b.
  Proof.
    intros Hb Ha. apply (accept_iff b r Hb) in Ha as (? & ? & _). split; [auto|assumption].
  Qed.

  (* accepted records have unique keys *)
  Theorem accepted_keys_unique b r :
    bytesb b = true -> accept H verify b = EOk r -> NoDup (keys r).
  Proof.
    intros Hb Ha. apply (accept_iff b r Hb) in Ha as (_ & _ & _ & _ & Hs & _).
    apply sortedb_chain in Hs. apply (chain_NoDup _ _ Hs).
  Qed.
End Scheme.

(* two accepted byte strings with the same fields are the same byte string *)
Lemma decode_two_encodings b1 b2 r1 r2 :
  bytesb b1 = true -> bytesb b2 = true -> decode b1 = EOk r1 -> decode b2 = EOk r2 ->
  r_sig r1 = r_sig r2 -> r_seq r1 = r_seq r2 -> r_pairs r1 = r_pairs r2 -> b1 = b2.
Proof.
  intros H1 H2 D1 D2 Es Eq Ep.
  apply (decode_iff _ _ H1) in D1 as (-> & _). apply (decode_iff _ _ H2) in D2 as (-> & _).
  unfold encode. rewrite Es, Eq, Ep. reflexivity.
Qed.

(* the model's own fuel error never surfaces: every loop iteration consumes input *)
Lemma pairs_no_fuel f : forall prev i,
  bytesb i = true -> (length i < f)%nat -> pairs_ f prev (lst i) <> EErr EFuel.
Proof.
  induction f as [|f IH]; intros prev i Hb Hf; [lia|]. cbn [pairs_].
  destruct (byteslice_ (lst i)) as [[k s1]|e] eqn:E1; [|destruct e; discriminate].
  destruct (byteslice_lst_inv _ _ _ Hb E1) as (i1 & -> & ->).
  pose proof (bytesb_app_r _ _ Hb) as Hb1.
  destruct (raw_ (lst i1)) as [[v s2]|e] eqn:E2; [|destruct e; discriminate].
  destruct (raw_lst_inv _ _ _ Hb1 E2) as (i2 & -> & -> & _).
  pose proof (bytesb_app_r _ _ Hb1) as Hb2.
  assert (Hrec : pairs_ f (Some k) (lst i2) <> EErr EFuel).
  { apply IH; [exact Hb2|]. pose proof (enc_str_len_pos k). rewrite !app_length in Hf. lia. }
  assert (Hcont : match pairs_ f (Some k) (lst i2) with
                  | EOk (l0, s3) => EOk ((k, v) :: l0, s3)
                  | EErr e => EErr e
                  end <> EErr EFuel).
  { destruct (pairs_ f (Some k) (lst i2)) as [[l0 s3]|e]; [discriminate|].
    intros E; inversion E; subst e. apply Hrec. reflexivity. }
  destruct prev as [p|]; [|exact Hcont].
  destruct (bytes_eqb k p); [discriminate|]. destruct (bytes_ltb k p); [discriminate|]. exact Hcont.
Qed.

Theorem decode_no_fuel b : bytesb b = true -> decode b <> EErr EFuel.
Proof.
  intros Hb. unfold decode, decode_record.
  destruct (raw_ (init b)) as [[raw s1]|] eqn:E0; [|discriminate].
  destruct (raw_init_inv _ _ _ Hb E0) as (Hsplit & k & size & bv & h & c & Hspec & H64 & Hl & ->).
  destruct (SizeLimit <? lenN (h ++ c)); [discriminate|].
  assert (Hbr : bytesb (h ++ c) = true) by (rewrite Hsplit in Hb; eapply bytesb_app_l; eauto).
  rewrite (inner_kind k size bv h c Hspec H64 Hl).
  destruct k; try discriminate. rewrite (inner_list size h c Hl).
  pose proof (bytesb_app_r _ _ Hbr) as Hbc.
  destruct (byteslice_ (lst c)) as [[sig s3]|e] eqn:E1; [|destruct e; discriminate].
  destruct (byteslice_lst_inv _ _ _ Hbc E1) as (i3 & -> & ->).
  pose proof (bytesb_app_r _ _ Hbc) as Hb3.
  destruct (uint_ 64 (lst i3)) as [[seq s4]|e] eqn:E2; [|destruct e; discriminate].
  destruct (uint_lst_inv _ _ _ Hb3 E2) as (i4 & -> & -> & Hseq).
  pose proof (bytesb_app_r _ _ Hb3) as Hb4.
  destruct (pairs_ _ None (lst i4)) as [[ps s5]|e] eqn:E3.
  - destruct (list_end s5); [destruct (inp s1); discriminate|discriminate].
  - intros E; inversion E; subst e. revert E3. apply pairs_no_fuel; [exact Hb4|].
    rewrite !app_length. lia.
Qed.

(* ---------- duplicates are rejected at every position, for every key ----------
   The first-pair test of the Go loop is `i > 0`; the model's [prev] is an
   option, and [None] (first pair) is distinct from [Some []] (previous key is
   the empty string): the empty key gets no special treatment. *)
Lemma chain_adjacent_dup l1 : forall p k l2, ~ chain p (l1 ++ k :: k :: l2).
Proof.
  induction l1 as [|x l1 IH]; intros p k l2; cbn [app chain].
  - intros (_ & Hkk & _). rewrite bytes_ltb_irrefl in Hkk. discriminate.
  - intros (_ & Hc). exact (IH _ _ _ Hc).
Qed.

Lemma sortedb_adjacent_dup l1 k l2 : sortedb (l1 ++ k :: k :: l2) = false.
Proof.
  destruct (sortedb (l1 ++ k :: k :: l2)) eqn:E; [|reflexivity].
  apply sortedb_chain in E. exfalso. exact (chain_adjacent_dup _ _ _ _ E).
Qed.

(* no accepted record has the same key twice in a row — anywhere in the list,
   for any key (in particular the empty one) *)
Theorem decode_no_adjacent_dup b r ps1 k v1 v2 ps2 :
  bytesb b = true -> decode b = EOk r -> r_pairs r <> ps1 ++ (k, v1) :: (k, v2) :: ps2.
Proof.
  intros Hb Hd Hp. apply (decode_iff b r Hb) in Hd as (_ & _ & _ & _ & Hs).
  unfold keys in Hs. rewrite Hp, map_app in Hs. cbn [map fst] in Hs.
  rewrite sortedb_adjacent_dup in Hs. discriminate.
Qed.

(* the concrete case of the empty key: ["", ""] first, in the middle, last,
   and the canonical single "" — by evaluation of the decoder model *)
Definition empty_key_ok : bool :=
  let dec ps := Enr.decode (encode_fields [1; 2] 5 ps) in
  let is_dup (x : eres record) := match x with EErr EDuplicateKey => true | _ => false end in
  let is_uns (x : eres record) := match x with EErr ENotSorted => true | _ => false end in
  let is_ok (x : eres record) n := match x with EOk r => lenN (r_pairs r) =? n | _ => false end in
  is_dup (dec [([], [1]); ([], [2])]) &&
  is_dup (dec [([], [1]); ([], [1])]) &&
  is_dup (dec [([], [1]); ([], [2]); ([97], [3])]) &&
  is_dup (dec [([], [1]); ([], [2]); ([], [3]); ([97], [3])]) &&
  is_dup (dec [([], [1]); ([97], [2]); ([97], [3])]) &&
  is_dup (dec [([0], [1]); ([0], [2])]) &&
  is_uns (dec [([97], [1]); ([], [2])]) &&
  is_uns (dec [([], [1]); ([97], [2]); ([], [3])]) &&
  is_ok (dec [([], [1])]) 1 &&
  is_ok (dec [([], [1]); ([0], [2]); ([97], [3])]) 3 &&
  negb (sortedb [[]; []]) && sortedb [[]; [0]; [0; 0]; [97]].

(* ---------- a concrete record (non-vacuity) ----------
   The example record of EIP-778 (seq 1, keys id, ip, secp256k1, udp).  With the
   abstract verifier answering true it is accepted, its four keys are sorted,
   both re-encodings give back the input; with one pair swapped, a trailing
   byte, or the verifier answering false it is rejected. *)
Definition eip778_example : list N :=
  [248; 132; 184; 64; 112; 152; 173; 134; 91; 0; 165; 130; 5; 25; 64; 203; 156; 243; 104; 54; 87; 36; 17; 164; 114; 120; 120; 48; 119; 1; 21; 153; 237; 92; 209; 107; 118; 242; 99; 95; 78; 35; 71; 56; 243; 8; 19; 168; 158; 185; 19; 126; 62; 61; 245; 38; 110; 58; 31; 17; 223; 114; 236; 241; 20; 92; 203; 156; 1; 130; 105; 100; 130; 118; 52; 130; 105; 112; 132; 127; 0; 0; 1; 137; 115; 101; 99; 112; 50; 53; 54; 107; 49; 161; 3; 202; 99; 76; 174; 13; 73; 172; 180; 1; 216; 164; 198; 182; 254; 140; 85; 183; 13; 17; 91; 244; 0; 118; 156; 193; 64; 15; 50; 88; 205; 49; 56; 131; 117; 100; 112; 130; 118; 95].

Definition example_ok : bool :=
  let H (x : list N) := x in
  let yes (_ _ _ : list N) := true in
  let no (_ _ _ : list N) := false in
  match accept H yes eip778_example with
  | EOk r =>
      (r_seq r =? 1) && (lenN (r_pairs r) =? 4) && sortedb (keys r) &&
      list_eqb N.eqb (encode r) eip778_example && list_eqb N.eqb (encode_rlp r) eip778_example &&
      (lenN eip778_example =? 134) &&
      match accept H no eip778_example with EErr EInvalidSig => true | _ => false end &&
      match accept H yes (eip778_example ++ [0]) with EErr (ERlp ErrMoreThanOneValue) => true | _ => false end &&
      (* ip and id swapped: same length, unsorted *)
      match Enr.decode (encode_fields (r_sig r) (r_seq r)
                          (match r_pairs r with a :: b :: t => b :: a :: t | l => l end)) with
      | EErr ENotSorted => true | _ => false end
  | EErr _ => false
  end.
