(* Net/SnapSync.v — executable model of the snap/1 state syncer,
   /repo/eth/protocols/snap/sync.go (syncer.Sync, loadSyncStatus/saveSyncStatus,
   assign{Account,Bytecode,Storage}Tasks, OnAccounts/OnStorage/onByteCodes,
   revert*Request, process{Account,Bytecode,Storage}Response, forwardAccountTask,
   cleanStorageTasks/cleanAccountTasks) and range.go (newHashRange, incHash).

   Hashes are N (< 2^256).  The local store is the flat state written so far
   (account snapshot, storage snapshot, code), as sorted association lists.
   A response carries its items explicitly plus the verdict of
   trie.VerifyRangeProof and its `more` result (abstract here: C09 models the
   verifier; the soundness contract is a hypothesis of the theorems in
   SnapSyncProofs.v).  Not modelled: peers and their scheduling (every
   assignable task gets a request at once: "enough idle peers"), timers other
   than as an explicit timeout event, request ids (numbered consecutively in
   the canonical order the harness uses), stack-trie generation / needHeal and
   the healing phase (trie rebuilt from the flat state: C11/C12), statistics.
   Go maps iterated in the real code (SubTasks, stateTasks, codeTasks,
   stateCompleted) are sorted association lists / sorted sets here.
   A Go panic (explicit panic(...), nil dereference, index out of range) that the
   transcribed code can reach sets the sticky flag [s_panic]. *)
From Coq Require Import List NArith ZArith Bool.
Import ListNotations.
Local Open Scope N_scope.

Definition HSPACE : N := 2 ^ 256.
Definition MAXH : N := HSPACE - 1.
Definition EMPTY_ROOT : N := 0x56e81f171bcc55a6ff8345e692c0f86e5b48e01b996cadc001622fb5e363b421.
Definition EMPTY_CODE : N := 0xc5d2460186f7233c927e7db2dcc703c0e500b653ca82273b7bfad8045d85a470.

(* range.go incHash: plus one, wrapping at 2^256-1 *)
Definition inc_hash (h : N) : N := if h =? MAXH then 0 else h + 1.

(* ---- sorted association lists keyed by N *)
Fixpoint put {V} (k : N) (v : V) (l : list (N * V)) : list (N * V) :=
  match l with
  | [] => [(k, v)]
  | (k', v') :: r =>
      if k <? k' then (k, v) :: l
      else if k =? k' then (k, v) :: r
      else (k', v') :: put k v r
  end.
Fixpoint get {V} (k : N) (l : list (N * V)) : option V :=
  match l with
  | [] => None
  | (k', v') :: r => if k =? k' then Some v' else get k r
  end.
Fixpoint del {V} (k : N) (l : list (N * V)) : list (N * V) :=
  match l with
  | [] => []
  | (k', v') :: r => if k =? k' then r else (k', v') :: del k r
  end.
Definition has {V} (k : N) (l : list (N * V)) : bool :=
  match get k l with Some _ => true | None => false end.
(* sorted sets *)
Fixpoint sadd (k : N) (l : list N) : list N :=
  match l with
  | [] => [k]
  | k' :: r => if k <? k' then k :: l else if k =? k' then l else k' :: sadd k r
  end.
Definition smem (k : N) (l : list N) : bool := existsb (N.eqb k) l.
Definition srem (k : N) (l : list N) : list N := filter (fun x => negb (x =? k)) l.

(* ---- data *)
Definition bytes := list N.
Record acct := { a_blob : bytes; a_root : N; a_code : N }.

Record store := {
  d_acc : list (N * bytes);                 (* rawdb.WriteAccountSnapshot *)
  d_slot : list (N * list (N * bytes));     (* rawdb.WriteStorageSnapshot *)
  d_code : list (N * bytes) }.              (* rawdb.WriteCode *)
Definition empty_store : store := {| d_acc := []; d_slot := []; d_code := [] |}.

Definition put_acc (k : N) (v : bytes) (db : store) : store :=
  {| d_acc := put k v (d_acc db); d_slot := d_slot db; d_code := d_code db |}.
Definition put_slot (a k : N) (v : bytes) (db : store) : store :=
  let cur := match get a (d_slot db) with Some m => m | None => [] end in
  {| d_acc := d_acc db; d_slot := put a (put k v cur) (d_slot db); d_code := d_code db |}.
Definition put_code (h : N) (c : bytes) (db : store) : store :=
  {| d_acc := d_acc db; d_slot := d_slot db; d_code := put h c (d_code db) |}.

(* storageTask *)
Record stask := { st_next : N; st_last : N; st_root : N; st_req : bool; st_done : bool }.
(* accountResponse: hashes/accounts zipped, cont *)
Record ares := { r_items : list (N * acct); r_cont : bool }.
(* accountTask *)
Record atask := {
  t_next : N; t_last : N;
  t_subs : list (N * list stask);      (* SubTasks *)
  t_completed : list N;                (* stateCompleted / StorageCompleted *)
  t_req : bool;                        (* req != nil *)
  t_res : option ares;                 (* res *)
  t_pend : Z;
  t_needCode : list bool; t_needState : list bool;
  t_codeTasks : list N;
  t_stateTasks : list (N * N);
  t_done : bool }.

Definition set_core (t : atask) (next : N) (res : option ares) (completed : list N) (done : bool) : atask :=
  {| t_next := next; t_last := t_last t; t_subs := t_subs t; t_completed := completed;
     t_req := t_req t; t_res := res; t_pend := t_pend t; t_needCode := t_needCode t;
     t_needState := t_needState t; t_codeTasks := t_codeTasks t; t_stateTasks := t_stateTasks t;
     t_done := done |}.
(* everything except Next / res / done *)
Definition set_aux (t : atask) (subs : list (N * list stask)) (completed : list N) (req : bool) (pend : Z)
    (nc ns : list bool) (ct : list N) (stt : list (N * N)) : atask :=
  {| t_next := t_next t; t_last := t_last t; t_subs := subs; t_completed := completed;
     t_req := req; t_res := t_res t; t_pend := pend; t_needCode := nc; t_needState := ns;
     t_codeTasks := ct; t_stateTasks := stt; t_done := t_done t |}.

Inductive rkind := KAcc | KCode | KSto.
Record req := {
  q_id : N; q_kind : rkind;
  q_task : N;                          (* Last of the account task (immutable, identifies it) *)
  q_origin : N; q_limit : N;
  q_sub : option (N * N);              (* large-contract chunk: account, chunk Last *)
  q_accounts : list (N * N);           (* storage: account, root *)
  q_hashes : list N }.                 (* bytecode *)

(* persisted progress (syncProgress.Tasks as JSON) *)
Record ptask := { p_next : N; p_last : N; p_subs : list (N * list (N * N)); p_completed : list N }.

Record syncer := {
  s_tasks : list atask; s_reqs : list req; s_nextid : N; s_db : store; s_root : N;
  s_snapped : bool; s_panic : bool; s_saved : option (list ptask) }.

Record config := { c_acc : N; c_sto : N }.   (* accountConcurrency, storageConcurrency *)

(* ---- loadSyncStatus, fresh branch: chunk the account space *)
Fixpoint fresh_tasks (n : nat) (conc_last : bool) (next step : N) : list atask :=
  match n with
  | O => []
  | S n' =>
      let last := if (match n' with O => true | _ => false end) && conc_last then MAXH
                  else (next + step) mod HSPACE in
      {| t_next := next; t_last := last; t_subs := []; t_completed := []; t_req := false;
         t_res := None; t_pend := 0%Z; t_needCode := []; t_needState := []; t_codeTasks := [];
         t_stateTasks := []; t_done := false |}
      :: fresh_tasks n' conc_last ((last + 1) mod HSPACE) step
  end.
Definition init_tasks (c : config) : list atask :=
  fresh_tasks (N.to_nat (c_acc c)) true 0 (HSPACE / c_acc c - 1).

(* loadSyncStatus, resume branch *)
Definition load_task (p : ptask) : atask :=
  {| t_next := p_next p; t_last := p_last p;
     t_subs := map (fun '(a, l) => (a, map (fun '(n, l') =>
        {| st_next := n; st_last := l'; st_root := 0; st_req := false; st_done := false |}) l)) (p_subs p);
     t_completed := p_completed p; t_req := false; t_res := None; t_pend := 0%Z;
     t_needCode := []; t_needState := []; t_codeTasks := []; t_stateTasks := []; t_done := false |}.
(* saveSyncStatus *)
Definition save_task (t : atask) : ptask :=
  {| p_next := t_next t; p_last := t_last t;
     p_subs := map (fun '(a, l) => (a, map (fun st => (st_next st, st_last st)) l)) (t_subs t);
     p_completed := t_completed t |}.

(* ---- forwardAccountTask.  The flags run alongside the items; a flag list shorter than the
   items is Go's index-out-of-range panic. *)
Fixpoint write_prefix (items : list (N * acct)) (nc ns : list bool) (db : store) : store * bool :=
  match items with
  | [] => (db, false)
  | (h, a) :: r =>
      match nc, ns with
      | c :: nc', s :: ns' =>
          if c || s then (db, false) else write_prefix r nc' ns' (put_acc h (a_blob a) db)
      | _, _ => (db, true)
      end
  end.
(* second loop: Next := incHash(hash), delete(stateCompleted, hash); true = ran to the end *)
Fixpoint advance (items : list (N * acct)) (nc ns : list bool) (next : N) (completed : list N)
  : N * list N * bool :=
  match items with
  | [] => (next, completed, true)
  | (h, a) :: r =>
      match nc, ns with
      | c :: nc', s :: ns' =>
          if c || s then (next, completed, false) else advance r nc' ns' (inc_hash h) (srem h completed)
      | _, _ => (next, completed, false)
      end
  end.
Definition forward (t : atask) (db : store) : atask * store * bool :=
  match t_res t with
  | None => (t, db, false)
  | Some res =>
      let '(db', p1) := write_prefix (r_items res) (t_needCode t) (t_needState t) db in
      if p1 then (set_core t (t_next t) None (t_completed t) (t_done t), db', true) else
      let '(next', completed', all) := advance (r_items res) (t_needCode t) (t_needState t) (t_next t) (t_completed t) in
      if all then
        let done := negb (r_cont res) in
        let panic := done && negb (match completed' with [] => true | _ => false end) in
        (set_core t next' None completed' done, db', panic)
      else (set_core t next' None completed' (t_done t), db', false)
  end.

(* ---- processAccountResponse *)
(* the overflow cut against task.Last *)
Fixpoint cut_acc (last : N) (items : list (N * acct)) (cont : bool) : list (N * acct) * bool :=
  match items with
  | [] => ([], cont)
  | (h, a) :: r =>
      if h =? last then let '(r', _) := cut_acc last r false in ((h, a) :: r', false)
      else if last <? h then ([], false)
      else let '(r', c') := cut_acc last r cont in ((h, a) :: r', c')
  end.

Record cls := { cl_nc : list bool; cl_ns : list bool; cl_subs : list (N * list stask);
                cl_ct : list N; cl_st : list (N * N); cl_resumed : list N; cl_pend : Z; cl_panic : bool }.

Definition set_roots (root : N) (l : list stask) : list stask :=
  map (fun st => {| st_next := st_next st; st_last := st_last st; st_root := root;
                    st_req := st_req st; st_done := st_done st |}) l.

Fixpoint classify (db : store) (completed : list N) (items : list (N * acct)) (c : cls) : cls :=
  match items with
  | [] => c
  | (h, a) :: r =>
      let needCode := negb (a_code a =? EMPTY_CODE) && negb (has (a_code a) (d_code db)) in
      let ct := if needCode then sadd (a_code a) (cl_ct c) else cl_ct c in
      let pend1 := if needCode then (cl_pend c + 1)%Z else cl_pend c in
      let c1 :=
        if a_root a =? EMPTY_ROOT then
          {| cl_nc := cl_nc c ++ [needCode]; cl_ns := cl_ns c ++ [false]; cl_subs := cl_subs c; cl_ct := ct;
             cl_st := cl_st c; cl_resumed := cl_resumed c; cl_pend := pend1; cl_panic := cl_panic c |}
        else if smem h completed then
          {| cl_nc := cl_nc c ++ [needCode]; cl_ns := cl_ns c ++ [false]; cl_subs := cl_subs c; cl_ct := ct;
             cl_st := cl_st c; cl_resumed := cl_resumed c; cl_pend := pend1;
             cl_panic := cl_panic c || has h (cl_subs c) |}
        else
          match get h (cl_subs c) with
          | Some subs =>
              {| cl_nc := cl_nc c ++ [needCode]; cl_ns := cl_ns c ++ [true];
                 cl_subs := put h (set_roots (a_root a) subs) (cl_subs c); cl_ct := ct; cl_st := cl_st c;
                 cl_resumed := sadd h (cl_resumed c); cl_pend := (pend1 + 1)%Z; cl_panic := cl_panic c |}
          | None =>
              {| cl_nc := cl_nc c ++ [needCode]; cl_ns := cl_ns c ++ [true]; cl_subs := cl_subs c; cl_ct := ct;
                 cl_st := put h (a_root a) (cl_st c); cl_resumed := cl_resumed c; cl_pend := (pend1 + 1)%Z;
                 cl_panic := cl_panic c |}
          end
      in classify db completed r c1
  end.

Definition last_key {V} (l : list (N * V)) : option N :=
  match rev l with [] => None | (k, _) :: _ => Some k end.

Definition process_account (t : atask) (items : list (N * acct)) (cont : bool) (db : store)
  : atask * store * bool :=
  let '(items', cont') := cut_acc (t_last t) items cont in
  let c := classify db (t_completed t) items'
             {| cl_nc := []; cl_ns := []; cl_subs := t_subs t; cl_ct := []; cl_st := [];
                cl_resumed := []; cl_pend := 0%Z; cl_panic := false |} in
  let subs' := match last_key items' with
               | None => cl_subs c
               | Some lk => filter (fun '(h, _) => (lk <? h) || smem h (cl_resumed c)) (cl_subs c)
               end in
  let t1 := set_core (set_aux t subs' (t_completed t) false (cl_pend c) (cl_nc c) (cl_ns c) (cl_ct c) (cl_st c))
              (t_next t) (Some {| r_items := items'; r_cont := cont' |}) (t_completed t) (t_done t) in
  if (cl_pend c =? 0)%Z then
    let '(t2, db2, p) := forward t1 db in (t2, db2, p || cl_panic c)
  else (t1, db, cl_panic c).

(* ---- onByteCodes matching: delivered blobs against the requested hashes, in order *)
Fixpoint match_codes (rq : list N) (dl : list (N * bytes)) {struct rq} : option (list (option bytes)) :=
  match dl with
  | [] => Some (map (fun _ => None) rq)
  | (h, c) :: dl' =>
      match rq with
      | [] => None
      | r :: rq' =>
          if r =? h then option_map (cons (Some c)) (match_codes rq' dl')
          else option_map (cons None) (match_codes rq' dl)
      end
  end.

(* needCode[j] && hash == account.CodeHash: clear, pend-- *)
Fixpoint clear_code (h : N) (items : list (N * acct)) (nc : list bool) (pend : Z) : list bool * Z :=
  match items, nc with
  | (_, a) :: r, c :: nc' =>
      let hit := c && (h =? a_code a) in
      let '(nc'', pend') := clear_code h r nc' (if hit then (pend - 1)%Z else pend) in
      ((if hit then false else c) :: nc'', pend')
  | _, _ => (nc, pend)
  end.

(* processBytecodeResponse *)
Fixpoint process_codes (hashes : list N) (codes : list (option bytes)) (items : list (N * acct))
    (nc : list bool) (pend : Z) (ct : list N) (db : store) : list bool * Z * list N * store :=
  match hashes, codes with
  | h :: hr, oc :: cr =>
      match oc with
      | None => process_codes hr cr items nc pend (sadd h ct) db
      | Some c => let '(nc', pend') := clear_code h items nc pend in
                  process_codes hr cr items nc' pend' ct (put_code h c db)
      end
  | _, _ => (nc, pend, ct, db)
  end.

Definition process_bytecode (t : atask) (hashes : list N) (codes : list (option bytes)) (db : store)
  : atask * store * bool :=
  match t_res t with
  | None =>
      (* res.task.res.accounts with res == nil: nil dereference as soon as a code was delivered *)
      if existsb (fun oc => match oc with Some _ => true | None => false end) codes
      then (t, db, true)
      else (set_aux t (t_subs t) (t_completed t) (t_req t) (t_pend t) (t_needCode t) (t_needState t)
              (fold_left (fun ct h => sadd h ct) hashes (t_codeTasks t)) (t_stateTasks t), db, false)
  | Some res =>
      let '(nc, pend, ct, db') := process_codes hashes codes (r_items res) (t_needCode t) (t_pend t) (t_codeTasks t) db in
      let t1 := set_aux t (t_subs t) (t_completed t) (t_req t) pend nc (t_needState t) ct (t_stateTasks t) in
      if (pend =? 0)%Z then forward t1 db' else (t1, db', false)
  end.

(* ---- processStorageResponse *)
(* sync.go estimateRemainingSlots *)
Definition estimate_remaining (hashes last : N) : option N :=
  if last =? 0 then None
  else let space := MAXH * hashes / last in
       if space <? 2 ^ 64 then Some (space - hashes) else None.

(* range.go newHashRange / Next / Start / End; step is truncated to 256 bits (SetFromBig) *)
Definition hr_step (start num : N) : N := ((HSPACE - start + (num - 1)) / num) mod HSPACE.
Definition hr_end (cur step : N) : N :=
  if HSPACE <=? cur + step then MAXH else (cur + step + HSPACE - 1) mod HSPACE.
Fixpoint hr_rest (fuel : nat) (cur step root : N) : option (list stask) :=
  if HSPACE <=? cur + step then Some []
  else match fuel with
       | O => None      (* step = 0: the Go loop `for r.Next()` does not terminate *)
       | S f =>
           let cur' := cur + step in
           match hr_rest f cur' step root with
           | Some l => Some ({| st_next := cur'; st_last := hr_end cur' step; st_root := root;
                                st_req := false; st_done := false |} :: l)
           | None => None
           end
       end.
Definition make_chunks (c : config) (keys : list N) (root : N) : option (list stask) :=
  let lastKey := match rev keys with [] => 0 | k :: _ => k end in
  let chunks0 := c_sto c in
  let chunks := match estimate_remaining (N.of_nat (length keys)) lastKey with
                | Some e => let n := e / (2 * (524288 / 64)) in if n + 1 <? chunks0 then n + 1 else chunks0
                | None => chunks0
                end in
  let step := hr_step lastKey chunks in
  match hr_rest (S (N.to_nat chunks)) lastKey step root with
  | Some l => Some ({| st_next := 0; st_last := hr_end lastKey step; st_root := root;
                       st_req := false; st_done := false |} :: l)
  | None => None
  end.

Fixpoint set_nth_false (j : nat) (l : list bool) : list bool :=
  match l, j with
  | [], _ => []
  | _ :: r, O => false :: r
  | b :: r, S j' => b :: set_nth_false j' r
  end.
Fixpoint find_idx (k : N) (items : list (N * acct)) (j : nat) : option (nat * acct) :=
  match items with
  | [] => None
  | (h, a) :: r => if h =? k then Some (j, a) else find_idx k r (S j)
  end.

Definition write_slots (a : N) (l : list (N * bytes)) (db : store) : store :=
  fold_left (fun d '(k, v) => put_slot a k v d) l db.

(* the subtask of [account] whose Last is [sl]: apply f *)
Definition upd_sub (account sl : N) (f : stask -> stask) (subs : list (N * list stask)) : list (N * list stask) :=
  match get account subs with
  | None => subs
  | Some l => put account (map (fun st => if st_last st =? sl then f st else st) l) subs
  end.

Record sps := { sp_t : atask; sp_db : store; sp_sub : option (N * N); sp_cont : bool; sp_panic : bool }.

(* (A) a small contract delivered completely: needState[j] = false, pend--, stateCompleted *)
Definition storage_A (t : atask) (sub : option (N * N)) (nsj lastset cont : bool) (account : N) (j : nat) : atask :=
  if (match sub with None => true | Some _ => false end) && nsj && (negb lastset || negb cont) then
    set_aux t (t_subs t) (sadd account (t_completed t)) (t_req t) (t_pend t - 1)%Z
      (t_needCode t) (set_nth_false j (t_needState t)) (t_codeTasks t) (t_stateTasks t)
  else t.

(* (C) the last contract was chunked: switch to large-contract mode (create the chunk tasks) *)
Definition storage_C (c : config) (t1 : atask) (sub : option (N * N)) (lastset cont : bool) (account : N)
    (slots : list (N * bytes)) (acc : acct) : atask * option (N * N) * bool :=
  match sub with
  | None =>
      if lastset && cont then
        match get account (t_subs t1) with
        | Some _ => (t1, None, false)
        | None =>
            match make_chunks c (map fst slots) (a_root acc) with
            | None => (t1, None, true)
            | Some tasks =>
                (set_aux t1 (put account tasks (t_subs t1)) (t_completed t1) (t_req t1) (t_pend t1)
                   (t_needCode t1) (t_needState t1) (t_codeTasks t1) (t_stateTasks t1),
                 match tasks with st :: _ => Some (account, st_last st) | [] => None end, false)
            end
        end
      else (t1, None, false)
  | Some sb => (t1, Some sb, false)
  end.

(* (D) large contract delivery: cut at the chunk's Last, forward the chunk; then the flat write *)
Definition storage_D (t2 : atask) (sub2 : option (N * N)) (account : N) (slots : list (N * bytes)) (s : sps) (p2 : bool) : sps :=
  match sub2 with
  | None =>
      {| sp_t := t2; sp_db := write_slots account slots (sp_db s); sp_sub := None;
         sp_cont := sp_cont s; sp_panic := sp_panic s || p2 |}
  | Some (sa, sl) =>
      let cont' := if existsb (fun '(k, _) => sl <=? k) slots then false else sp_cont s in
      let slots' := filter (fun '(k, _) => k <=? sl) slots in
      let '(f, p3) :=
        if cont' then
          match last_key slots' with
          | Some lk => ((fun st => {| st_next := inc_hash lk; st_last := st_last st; st_root := st_root st;
                                      st_req := st_req st; st_done := st_done st |}), false)
          | None => ((fun st : stask => st), true)
          end
        else ((fun st => {| st_next := st_next st; st_last := st_last st; st_root := st_root st;
                            st_req := st_req st; st_done := true |}), false) in
      let t3 := set_aux t2 (upd_sub sa sl f (t_subs t2)) (t_completed t2) (t_req t2) (t_pend t2)
                  (t_needCode t2) (t_needState t2) (t_codeTasks t2) (t_stateTasks t2) in
      {| sp_t := t3; sp_db := write_slots account slots' (sp_db s); sp_sub := Some (sa, sl);
         sp_cont := cont'; sp_panic := sp_panic s || p2 || p3 |}
  end.

(* one iteration of `for i, account := range res.accounts` *)
Definition storage_one (c : config) (n i : nat) (account root : N) (set : option (list (N * bytes))) (s : sps) : sps :=
  match set with
  | None =>       (* i >= len(res.hashes): reschedule *)
      let t := sp_t s in
      {| sp_t := set_aux t (t_subs t) (t_completed t) (t_req t) (t_pend t) (t_needCode t) (t_needState t)
                   (t_codeTasks t) (put account root (t_stateTasks t));
         sp_db := sp_db s; sp_sub := sp_sub s; sp_cont := sp_cont s; sp_panic := sp_panic s |}
  | Some slots =>
      let t := sp_t s in
      match t_res t with
      | None => {| sp_t := t; sp_db := sp_db s; sp_sub := sp_sub s; sp_cont := sp_cont s; sp_panic := true |}
      | Some res =>
          let lastset := Nat.eqb (S i) n in
          match find_idx account (r_items res) O with
          | None =>
              {| sp_t := t; sp_db := write_slots account slots (sp_db s); sp_sub := sp_sub s;
                 sp_cont := sp_cont s; sp_panic := sp_panic s |}
          | Some (j, acc) =>
              match nth_error (t_needState t) j with
              | None => {| sp_t := t; sp_db := sp_db s; sp_sub := sp_sub s; sp_cont := sp_cont s; sp_panic := true |}
              | Some nsj =>
                  let t1 := storage_A t (sp_sub s) nsj lastset (sp_cont s) account j in
                  let '(t2, sub2, p2) := storage_C c t1 (sp_sub s) lastset (sp_cont s) account slots acc in
                  storage_D t2 sub2 account slots s p2
              end
          end
      end
  end.

Fixpoint storage_loop (c : config) (n i : nat) (accounts : list (N * N)) (sets : list (list (N * bytes))) (s : sps) : sps :=
  match accounts with
  | [] => s
  | (a, r) :: ar =>
      match sets with
      | [] => storage_loop c n (S i) ar [] (storage_one c n i a r None s)
      | x :: sr => storage_loop c n (S i) ar sr (storage_one c n i a r (Some x) s)
      end
  end.

Definition process_storage (c : config) (t : atask) (accounts : list (N * N)) (sub : option (N * N))
    (sets : list (list (N * bytes))) (cont : bool) (db : store) : atask * store * bool :=
  let t0 := match sub with
            | Some (sa, sl) =>
                set_aux t (upd_sub sa sl (fun st => {| st_next := st_next st; st_last := st_last st; st_root := st_root st;
                                                       st_req := false; st_done := st_done st |}) (t_subs t))
                  (t_completed t) (t_req t) (t_pend t) (t_needCode t) (t_needState t) (t_codeTasks t) (t_stateTasks t)
            | None => t
            end in
  let s := storage_loop c (length sets) O accounts sets
             {| sp_t := t0; sp_db := db; sp_sub := sub; sp_cont := cont; sp_panic := false |} in
  if (t_pend (sp_t s) =? 0)%Z then
    let '(t2, db2, p) := forward (sp_t s) (sp_db s) in (t2, db2, p || sp_panic s)
  else (sp_t s, sp_db s, sp_panic s).

(* ---- cleanStorageTasks, one account task *)
Fixpoint clean_subs (subs : list (N * list stask)) (t : atask) (db : store) (panic : bool) : atask * store * bool :=
  match subs with
  | [] => (t, db, panic)
  | (account, l) :: r =>
      let l' := filter (fun st => negb (st_done st)) l in
      match l' with
      | _ :: _ =>
          let t1 := set_aux t (put account l' (t_subs t)) (t_completed t) (t_req t) (t_pend t) (t_needCode t)
                      (t_needState t) (t_codeTasks t) (t_stateTasks t) in
          clean_subs r t1 db panic
      | [] =>
          match t_res t with
          | None => clean_subs r t db true      (* task.res.hashes with res == nil *)
          | Some res =>
              let ns := match find_idx account (r_items res) O with
                        | Some (j, _) => set_nth_false j (t_needState t)
                        | None => t_needState t
                        end in
              let t1 := set_aux t (del account (t_subs t)) (sadd account (t_completed t)) (t_req t) (t_pend t - 1)%Z
                          (t_needCode t) ns (t_codeTasks t) (t_stateTasks t) in
              if (t_pend t1 =? 0)%Z then
                let '(t2, db2, p) := forward t1 db in clean_subs r t2 db2 (panic || p)
              else clean_subs r t1 db panic
          end
      end
  end.

Fixpoint map_tasks (f : atask -> store -> atask * store * bool) (ts : list atask) (db : store)
  : list atask * store * bool :=
  match ts with
  | [] => ([], db, false)
  | t :: r =>
      let '(t', db', p) := f t db in
      let '(r', db'', p') := map_tasks f r db' in
      (t' :: r', db'', p || p')
  end.

Definition clean_storage (ts : list atask) (db : store) : list atask * store * bool :=
  map_tasks (fun t d => clean_subs (t_subs t) t d false) ts db.

(* cleanAccountTasks *)
Definition clean_accounts (s : syncer) : syncer :=
  match s_tasks s with
  | [] => s
  | _ =>
      let ts := filter (fun t => negb (t_done t)) (s_tasks s) in
      {| s_tasks := ts; s_reqs := s_reqs s; s_nextid := s_nextid s; s_db := s_db s; s_root := s_root s;
         s_snapped := match ts with [] => true | _ => s_snapped s end; s_panic := s_panic s; s_saved := s_saved s |}
  end.

(* ---- assign{Account,Bytecode,Storage}Tasks with enough idle peers; requests are numbered in
   the order (kind, task, chunk requests before the small-contract request, account, origin) *)
Definition mk_req (id : N) (k : rkind) (task origin limit : N) (sub : option (N * N))
    (accounts : list (N * N)) (hashes : list N) : req :=
  {| q_id := id; q_kind := k; q_task := task; q_origin := origin; q_limit := limit; q_sub := sub;
     q_accounts := accounts; q_hashes := hashes |}.

Fixpoint assign_acc (ts : list atask) (id : N) : list atask * list req * N :=
  match ts with
  | [] => ([], [], id)
  | t :: r =>
      if negb (t_req t) && (match t_res t with None => true | Some _ => false end) then
        let '(r', q, id') := assign_acc r (id + 1) in
        (set_aux t (t_subs t) (t_completed t) true (t_pend t) (t_needCode t) (t_needState t) (t_codeTasks t) (t_stateTasks t) :: r',
         mk_req id KAcc (t_last t) (t_next t) (t_last t) None [] [] :: q, id')
      else let '(r', q, id') := assign_acc r id in (t :: r', q, id')
  end.

Fixpoint assign_code (ts : list atask) (id : N) : list atask * list req * N :=
  match ts with
  | [] => ([], [], id)
  | t :: r =>
      match t_res t, t_codeTasks t with
      | Some _, _ :: _ =>
          let '(r', q, id') := assign_code r (id + 1) in
          (set_aux t (t_subs t) (t_completed t) (t_req t) (t_pend t) (t_needCode t) (t_needState t) [] (t_stateTasks t) :: r',
           mk_req id KCode (t_last t) 0 0 None [] (t_codeTasks t) :: q, id')
      | _, _ => let '(r', q, id') := assign_code r id in (t :: r', q, id')
      end
  end.

(* idle chunks of one large contract *)
Fixpoint assign_chunks (task account : N) (l : list stask) (id : N) : list stask * list req * N :=
  match l with
  | [] => ([], [], id)
  | st :: r =>
      if st_req st then let '(r', q, id') := assign_chunks task account r id in (st :: r', q, id')
      else
        let '(r', q, id') := assign_chunks task account r (id + 1) in
        ({| st_next := st_next st; st_last := st_last st; st_root := st_root st; st_req := true; st_done := st_done st |} :: r',
         mk_req id KSto task (st_next st) (st_last st) (Some (account, st_last st)) [(account, st_root st)] [] :: q, id')
  end.
Fixpoint assign_subs (task : N) (active : N -> bool) (subs : list (N * list stask)) (id : N)
  : list (N * list stask) * list req * N :=
  match subs with
  | [] => ([], [], id)
  | (a, l) :: r =>
      if active a then
        let '(l', q1, id1) := assign_chunks task a l id in
        let '(r', q2, id2) := assign_subs task active r id1 in
        ((a, l') :: r', q1 ++ q2, id2)
      else let '(r', q2, id2) := assign_subs task active r id in ((a, l) :: r', q2, id2)
  end.
Fixpoint assign_sto (ts : list atask) (id : N) : list atask * list req * N :=
  match ts with
  | [] => ([], [], id)
  | t :: r =>
      match t_res t with
      | None => let '(r', q, id') := assign_sto r id in (t :: r', q, id')
      | Some res =>
          (* activeSubTasks: contracts up to the last delivered account *)
          let active := match last_key (r_items res) with
                        | None => fun _ => false
                        | Some lk => fun a => a <=? lk
                        end in
          let '(subs', q1, id1) := assign_subs (t_last t) active (t_subs t) id in
          let '(stt, q2, id2) :=
            match t_stateTasks t with
            | [] => ([], [], id1)
            | l => ([], [mk_req id1 KSto (t_last t) 0 0 None l []], id1 + 1)
            end in
          let '(r', q, id') := assign_sto r id2 in
          (set_aux t subs' (t_completed t) (t_req t) (t_pend t) (t_needCode t) (t_needState t) (t_codeTasks t) stt :: r',
           q1 ++ q2 ++ q, id')
      end
  end.

Definition assign (s : syncer) : syncer :=
  let '(ts1, q1, id1) := assign_acc (s_tasks s) (s_nextid s) in
  let '(ts2, q2, id2) := assign_code ts1 id1 in
  let '(ts3, q3, id3) := assign_sto ts2 id2 in
  {| s_tasks := ts3; s_reqs := s_reqs s ++ q1 ++ q2 ++ q3; s_nextid := id3; s_db := s_db s; s_root := s_root s;
     s_snapped := s_snapped s; s_panic := s_panic s; s_saved := s_saved s |}.

(* the top of the run loop: cleanStorageTasks, cleanAccountTasks, assign* *)
Definition post (s : syncer) : syncer :=
  let '(ts, db, p) := clean_storage (s_tasks s) (s_db s) in
  assign (clean_accounts
    {| s_tasks := ts; s_reqs := s_reqs s; s_nextid := s_nextid s; s_db := db; s_root := s_root s;
       s_snapped := s_snapped s; s_panic := s_panic s || p; s_saved := s_saved s |}).

(* ---- events *)
Inductive event :=
| EAcc (id : N) (items : list (N * acct)) (hasproof ok more : bool)
| ESto (id : N) (sets : list (list (N * bytes))) (hasproof lenmis ok more : bool)
| ECode (id : N) (codes : list (N * bytes))
| ETimeout (id : N)
| ERestart (root : N)      (* cancel, then Sync(root) again *)
| EStop                    (* cancel *)
| EComplete.               (* marker: the snap phase is over, healing runs *)

Fixpoint take_req (id : N) (l : list req) : option (req * list req) :=
  match l with
  | [] => None
  | q :: r => if q_id q =? id then Some (q, r)
              else match take_req id r with Some (x, r') => Some (x, q :: r') | None => None end
  end.

(* apply f to the account task whose Last is [last] *)
Fixpoint on_task (last : N) (f : atask -> store -> atask * store * bool) (ts : list atask) (db : store)
  : list atask * store * bool :=
  match ts with
  | [] => ([], db, false)
  | t :: r =>
      if t_last t =? last then let '(t', db', p) := f t db in (t' :: r, db', p)
      else let '(r', db', p) := on_task last f r db in (t :: r', db', p)
  end.

Definition with_tasks (s : syncer) (reqs : list req) (x : list atask * store * bool) : syncer :=
  let '(ts, db, p) := x in
  {| s_tasks := ts; s_reqs := reqs; s_nextid := s_nextid s; s_db := db; s_root := s_root s;
     s_snapped := s_snapped s; s_panic := s_panic s || p; s_saved := s_saved s |}.

(* revert{Account,Bytecode,Storage}Request *)
Definition revert (q : req) (t : atask) (db : store) : atask * store * bool :=
  match q_kind q with
  | KAcc => (set_aux t (t_subs t) (t_completed t) false (t_pend t) (t_needCode t) (t_needState t)
               (t_codeTasks t) (t_stateTasks t), db, false)
  | KCode => (set_aux t (t_subs t) (t_completed t) (t_req t) (t_pend t) (t_needCode t) (t_needState t)
                (fold_left (fun ct h => sadd h ct) (q_hashes q) (t_codeTasks t)) (t_stateTasks t), db, false)
  | KSto =>
      match q_sub q with
      | Some (sa, sl) =>
          (set_aux t (upd_sub sa sl (fun st => {| st_next := st_next st; st_last := st_last st; st_root := st_root st;
                                                  st_req := false; st_done := st_done st |}) (t_subs t))
             (t_completed t) (t_req t) (t_pend t) (t_needCode t) (t_needState t) (t_codeTasks t) (t_stateTasks t), db, false)
      | None =>
          (set_aux t (t_subs t) (t_completed t) (t_req t) (t_pend t) (t_needCode t) (t_needState t) (t_codeTasks t)
             (fold_left (fun m '(a, r) => put a r m) (q_accounts q) (t_stateTasks t)), db, false)
      end
  end.

Definition handle (c : config) (s : syncer) (e : event) : syncer :=
  match e with
  | EAcc id items hasproof ok more =>
      match take_req id (s_reqs s) with
      | Some (q, rest) =>
          match q_kind q with
          | KAcc =>
              (* OnAccounts: an entirely empty response, or a failed proof: revert; else deliver *)
              if (match items with [] => negb hasproof | _ => false end) || negb ok
              then with_tasks s rest (on_task (q_task q) (revert q) (s_tasks s) (s_db s))
              else with_tasks s rest (on_task (q_task q) (fun t d => process_account t items more d) (s_tasks s) (s_db s))
          | _ => s
          end
      | None => s     (* stale / unexpected packet *)
      end
  | ESto id sets hasproof lenmis ok more =>
      match take_req id (s_reqs s) with
      | Some (q, rest) =>
          match q_kind q with
          | KSto =>
              if lenmis || (length (q_accounts q) <? length sets)%nat
                 || (match sets with [] => negb hasproof | _ => false end) || negb ok
              then with_tasks s rest (on_task (q_task q) (revert q) (s_tasks s) (s_db s))
              else
                let sets' := match sets with [] => [[]] | _ => sets end in
                with_tasks s rest (on_task (q_task q)
                  (fun t d => process_storage c t (q_accounts q) (q_sub q) sets' more d) (s_tasks s) (s_db s))
          | _ => s
          end
      | None => s
      end
  | ECode id codes =>
      match take_req id (s_reqs s) with
      | Some (q, rest) =>
          match q_kind q with
          | KCode =>
              match codes with
              | [] => with_tasks s rest (on_task (q_task q) (revert q) (s_tasks s) (s_db s))
              | _ =>
                  match match_codes (q_hashes q) codes with
                  | None => with_tasks s rest (on_task (q_task q) (revert q) (s_tasks s) (s_db s))
                  | Some cs => with_tasks s rest (on_task (q_task q)
                                 (fun t d => process_bytecode t (q_hashes q) cs d) (s_tasks s) (s_db s))
                  end
              end
          | _ => s
          end
      | None => s
      end
  | ETimeout id =>
      match take_req id (s_reqs s) with
      | Some (q, rest) => with_tasks s rest (on_task (q_task q) (revert q) (s_tasks s) (s_db s))
      | None => s
      end
  | _ => s
  end.

(* the deferred block of Sync on exit: forward every task, cleanAccountTasks, saveSyncStatus;
   the request maps are reset *)
Definition shutdown (s : syncer) : syncer :=
  let '(ts, db, p) := map_tasks forward (s_tasks s) (s_db s) in
  let s1 := clean_accounts
    {| s_tasks := ts; s_reqs := []; s_nextid := s_nextid s; s_db := db; s_root := s_root s;
       s_snapped := s_snapped s; s_panic := s_panic s || p; s_saved := s_saved s |} in
  {| s_tasks := s_tasks s1; s_reqs := []; s_nextid := s_nextid s1; s_db := s_db s1; s_root := s_root s1;
     s_snapped := s_snapped s1; s_panic := s_panic s1; s_saved := Some (map save_task (s_tasks s1)) |}.

(* Sync(root): loadSyncStatus then the first turn of the loop *)
Definition start (c : config) (s : syncer) (root : N) : syncer :=
  let ts := match s_saved s with
            | Some ps => map load_task ps
            | None => init_tasks c
            end in
  post {| s_tasks := ts; s_reqs := []; s_nextid := s_nextid s; s_db := s_db s; s_root := root;
          s_snapped := match ts with [] => true | _ => false end; s_panic := s_panic s; s_saved := s_saved s |}.

Definition fresh : syncer :=
  {| s_tasks := []; s_reqs := []; s_nextid := 0; s_db := empty_store; s_root := 0; s_snapped := false;
     s_panic := false; s_saved := None |}.

Definition step (c : config) (s : syncer) (e : event) : syncer :=
  match e with
  | ERestart root => start c (shutdown s) root
  | EStop => shutdown s
  | EComplete => s
  | _ => post (handle c s e)
  end.

Definition run (c : config) (root : N) (evs : list event) : syncer :=
  fold_left (step c) evs (start c fresh root).
