(* Net/V5wireProofs.v — proofs about Net/V5wire.v: header round trips for the
   three packet kinds, message / WHOAREYOU / handshake round trips between two
   codecs, and authenticity (rejection of tampered, cross-session and
   wrong-destination packets) under named AEAD hypotheses. *)
From GV Require Import Lib.Tactics Lib.Bytes Lib.BytesProofs Rlp.Item Net.V5wire.
Local Open Scope N_scope.

(* ---------- byte-level helpers ---------- *)

Lemma be_fixed_len w : forall n, length (be_fixed w n) = w.
Proof. induction w as [|w IH]; intros n; cbn; [reflexivity|]. rewrite app_length, IH. cbn. lia. Qed.

Lemma be_fixed_decode w : forall n, n < 256 ^ N.of_nat w -> be_decode (be_fixed w n) = n.
Proof.
  induction w as [|w IH]; intros n Hn.
  - cbn in *. lia.
  - cbn [be_fixed]. rewrite be_decode_snoc, IH.
    + pose proof (N.div_mod n 256 ltac:(lia)). lia.
    + rewrite Nnat.Nat2N.inj_succ, N.pow_succ_r' in Hn.
      apply N.div_lt_upper_bound; lia.
Qed.

Lemma beq_refl a : beq a a = true.
Proof. unfold beq. induction a as [|x a IH]; cbn; [reflexivity|]. rewrite N.eqb_refl. exact IH. Qed.

Lemma beq_eq a : forall b, beq a b = true -> a = b.
Proof.
  unfold beq. induction a as [|x a IH]; intros [|y b]; cbn; try discriminate; [reflexivity|].
  intros H. apply andb_true_iff in H as [H1 H2]. apply N.eqb_eq in H1. subst. f_equal. apply IH. exact H2.
Qed.

Lemma skey_eqb_refl k : skey_eqb k k = true.
Proof. unfold skey_eqb. rewrite !beq_refl. reflexivity. Qed.

Lemma lookup_put_same {A} k (v : A) m : lookup k (put k v m) = Some v.
Proof. unfold put. cbn. rewrite skey_eqb_refl. reflexivity. Qed.

Lemma firstn_len_app {A} n (a b : list A) : length a = n -> firstn n (a ++ b) = a.
Proof. intros <-. rewrite firstn_app, Nat.sub_diag, firstn_all. cbn. apply app_nil_r. Qed.

Lemma skipn_len_app {A} n (a b : list A) : length a = n -> skipn n (a ++ b) = b.
Proof. intros <-. rewrite skipn_app, Nat.sub_diag, skipn_all. reflexivity. Qed.

Lemma lenN_len {A} (l : list A) n : length l = n -> lenN l = N.of_nat n.
Proof. intros <-. reflexivity. Qed.

Lemma take_drop_len {A} n (a b : list A) : length a = N.to_nat n -> take_drop n (a ++ b) = Some (a, b).
Proof.
  intros H. replace n with (lenN a); [apply take_drop_app|]. unfold lenN. rewrite H. apply N2Nat.id.
Qed.

Section Mask.
  Variable ks : bytes -> bytes -> nat -> N.
  Notation xor_from := (xor_from ks).
  Notation encode_raw := (encode_raw ks).
  Notation parse_packet := (parse_packet ks).

  (* ---------- masking ---------- *)

  Lemma xor_from_len k iv d : forall o, length (xor_from k iv o d) = length d.
  Proof. induction d as [|x d IH]; intros o; cbn; [reflexivity|]. rewrite IH. reflexivity. Qed.

  Lemma xor_from_app k iv d1 : forall o d2,
    xor_from k iv o (d1 ++ d2) = xor_from k iv o d1 ++ xor_from k iv (o + length d1) d2.
  Proof.
    induction d1 as [|x d1 IH]; intros o d2; cbn.
    - rewrite Nat.add_0_r. reflexivity.
    - rewrite IH. replace (S o + length d1)%nat with (o + S (length d1))%nat by lia. reflexivity.
  Qed.

  (* masking is an involution per (key, iv, offset) *)
  Lemma xor_from_invol k iv d : forall o, xor_from k iv o (xor_from k iv o d) = d.
  Proof.
    induction d as [|x d IH]; intros o; cbn; [reflexivity|]. rewrite IH. f_equal.
    rewrite N.lxor_assoc, N.lxor_nilpotent, N.lxor_0_r. reflexivity.
  Qed.

  (* ---------- static header ---------- *)

  Definition wf_sheader (h : sheader) : Prop :=
    length (h_proto h) = 6%nat /\ h_version h < 65536 /\ length (h_nonce h) = 12%nat /\
    h_authsize h < 65536.

  Lemma enc_static_len h : wf_sheader h -> length (enc_static h) = 23%nat.
  Proof.
    intros (Hp & _ & Hn & _). unfold enc_static. rewrite !app_length, !be_fixed_len, Hp, Hn. reflexivity.
  Qed.

  Lemma static_roundtrip h : wf_sheader h -> dec_static (enc_static h) = Some h.
  Proof.
    intros (Hp & Hv & Hn & Ha). unfold dec_static, enc_static.
    rewrite (take_drop_len 6 (h_proto h)) by (rewrite Hp; reflexivity).
    rewrite (take_drop_len 2 (be_fixed 2 (h_version h))) by (rewrite be_fixed_len; reflexivity).
    cbn [app].
    rewrite (take_drop_len 12 (h_nonce h)) by (rewrite Hn; reflexivity).
    rewrite <- (app_nil_r (be_fixed 2 (h_authsize h))).
    rewrite (take_drop_len 2 (be_fixed 2 (h_authsize h))) by (rewrite be_fixed_len; reflexivity).
    rewrite !be_fixed_decode by (cbn; lia). destruct h; reflexivity.
  Qed.

  (* ---------- packet framing: parse (encode_raw ...) ---------- *)

  Theorem header_roundtrip dest proto iv h auth msg :
    wf_sheader h -> length iv = 16%nat -> h_proto h = proto -> minVersion <= h_version h ->
    h_authsize h = lenN auth ->
    (h_flag h = flagWhoareyou \/ minMessageSize <= lenN auth + lenN msg) ->
    minPacketSize <= 39 + lenN auth + lenN msg ->
    parse_packet dest proto (encode_raw dest iv h auth msg) = inr (iv, enc_static h, h, auth, msg).
  Proof.
    intros Hwf Hiv Hproto Hver Hasz Hmin Hlen.
    pose proof (enc_static_len h Hwf) as Hsl.
    unfold V5wire.parse_packet, V5wire.encode_raw. set (key := mask_key dest).
    rewrite xor_from_app. rewrite Hsl. change (0 + 23)%nat with 23%nat.
    set (M1 := xor_from key iv 0 (enc_static h)). set (M2 := xor_from key iv 23 auth).
    assert (L1 : length M1 = 23%nat) by (unfold M1; rewrite xor_from_len; exact Hsl).
    assert (L2 : length M2 = length auth) by (unfold M2; apply xor_from_len).
    assert (Ltot : lenN (iv ++ (M1 ++ M2) ++ msg) = 39 + lenN auth + lenN msg).
    { rewrite !lenN_app. unfold lenN at 1 2 3. rewrite Hiv, L1, L2. unfold lenN. lia. }
    rewrite Ltot. unfold minPacketSize in *. destruct (N.ltb_spec (39 + lenN auth + lenN msg) 63); [lia|].
    rewrite (firstn_len_app 16 iv _ Hiv), (skipn_len_app 16 iv _ Hiv).
    rewrite <- app_assoc. rewrite (firstn_len_app 23 M1 _ L1).
    assert (U1 : xor_from key iv 0 M1 = enc_static h) by (unfold M1; apply xor_from_invol).
    rewrite !U1. rewrite (static_roundtrip h Hwf).
    unfold check_valid. rewrite Hproto, beq_refl. cbn [negb].
    unfold minVersion, minMessageSize, sizeofStaticPacketData in *.
    destruct (N.ltb_spec (h_version h) 1); [lia|].
    replace (39 + lenN auth + lenN msg - 39) with (lenN auth + lenN msg) by lia.
    assert (Hc3 : negb (h_flag h =? flagWhoareyou) && (lenN auth + lenN msg <? 48) = false).
    { destruct Hmin as [->|Hm]; [reflexivity|].
      destruct (N.ltb_spec (lenN auth + lenN msg) 48); [lia|]. apply andb_false_r. }
    rewrite Hc3. rewrite Hasz. destruct (N.ltb_spec (lenN auth + lenN msg) (lenN auth)); [lia|].
    assert (Hn : N.to_nat (lenN auth) = length auth) by (unfold lenN; apply Nat2N.id).
    rewrite Hn.
    assert (S39 : skipn 39 (iv ++ M1 ++ M2 ++ msg) = M2 ++ msg).
    { rewrite (app_assoc iv M1). apply skipn_len_app. rewrite app_length, Hiv, L1. reflexivity. }
    rewrite S39. rewrite (firstn_len_app (length auth) M2 msg L2).
    assert (U2 : xor_from key iv 23 M2 = auth) by (unfold M2; apply xor_from_invol).
    rewrite !U2.
    assert (S2 : skipn (39 + length auth) (iv ++ M1 ++ M2 ++ msg) = msg).
    { rewrite (app_assoc iv M1), (app_assoc (iv ++ M1) M2). apply skipn_len_app.
      rewrite !app_length, Hiv, L1, L2. reflexivity. }
    rewrite S2. reflexivity.
  Qed.

End Mask.

Section Crypto.
  Variable ks : bytes -> bytes -> nat -> N.
  Variable seal : bytes -> bytes -> bytes -> bytes -> bytes.
  Variable open : bytes -> bytes -> bytes -> bytes -> option bytes.
  Variable Hsha : bytes -> bytes.
  Variable pub_of : bytes -> bytes.
  Variable sign : bytes -> bytes -> bytes.
  Variable sig_verify : bytes -> bytes -> bytes -> bool.
  Variable pub_valid : bytes -> bool.
  Variable ecdh : bytes -> bytes -> bytes.
  Variable kdf : bytes -> bytes -> bytes -> bytes * bytes.
  Variable rec_seq : bytes -> option N.
  Variable rec_node : bytes -> option node.
  Variable msg_ok : bytes -> bool.

  Notation xor_from := (xor_from ks).
  Notation encode_raw := (encode_raw ks).
  Notation parse_packet := (parse_packet ks).
  Notation decode := (decode ks open Hsha sig_verify pub_valid ecdh kdf rec_seq rec_node msg_ok).
  Notation decode_message := (decode_message open msg_ok).
  Notation decode_handshake := (decode_handshake open Hsha sig_verify pub_valid ecdh kdf rec_seq rec_node msg_ok).
  Notation encode_message := (encode_message ks seal).
  Notation encode_handshake := (encode_handshake ks seal Hsha pub_of sign ecdh kdf).
  Notation encode_whoareyou := (encode_whoareyou ks).

  (* ---------- WHOAREYOU ---------- *)

  Theorem whoareyou_roundtrip cB cA dest addrA addrB w iv cB' P w' :
    length iv = 16%nat -> length (w_nonce w) = 12%nat -> length (w_idnonce w) = 16%nat ->
    w_seq w < 2 ^ 64 -> length (c_proto cB) = 6%nat -> c_proto cA = c_proto cB -> c_id cA = dest ->
    encode_whoareyou cB dest addrA w iv = Some (cB', P, w') ->
    (* the challenge is stored under (dest, addr) with the unmasked header as challenge data *)
    lookup (dest, addrA) (c_handshakes cB') = Some w' /\ c_sessions cB' = c_sessions cB /\
    w_cdata w' = firstn (length P) (iv ++ skipn 16 (w_cdata w')) /\
    (* and the recipient decodes exactly this challenge (Node is filled in by the caller) *)
    decode cA P addrB =
      (cA, DWhoareyou (mkChal (w_nonce w) (w_idnonce w) (w_seq w) None (w_cdata w'))).
  Proof.
    clear seal pub_of sign.
    intros Hiv Hn Hid Hseq Hp Hpe Hdest. subst dest. unfold V5wire.encode_whoareyou.
    destruct ((0 <? w_seq w) && _); [discriminate|].
    unfold make_header, sizeofWhoareyouAuthData. change (65535 <? 24) with false. cbn iota.
    set (h := mkSH (c_proto cB) version flagWhoareyou (w_nonce w) 24).
    set (auth := w_idnonce w ++ be_fixed 8 (w_seq w)).
    intros E; inversion E; subst cB' P w'; clear E.
    assert (Hwf : wf_sheader h).
    { unfold wf_sheader, h. cbn. unfold version. repeat split; try assumption; lia. }
    assert (La : length auth = 24%nat).
    { unfold auth. rewrite app_length, be_fixed_len, Hid. reflexivity. }
    assert (LaN : lenN auth = 24) by (apply (lenN_len auth 24 La)).
    split; [cbn; apply lookup_put_same|]. split; [reflexivity|].
    split.
    { cbn [w_cdata]. rewrite (skipn_len_app 16 iv _ Hiv).
      symmetry. apply firstn_all2. unfold V5wire.encode_raw.
      rewrite !app_length, xor_from_len, !app_length. cbn [length]. lia. }
    unfold V5wire.decode. rewrite Hpe.
    assert (HR : parse_packet (c_id cA) (c_proto cB) (encode_raw (c_id cA) iv h auth []) =
                 inr (iv, enc_static h, h, auth, [])).
    { apply header_roundtrip;
        [exact Hwf|exact Hiv|reflexivity|unfold minVersion, h, version; cbn; lia
        |cbn [h_authsize h]; symmetry; exact LaN|left; reflexivity
        |rewrite LaN; cbn; unfold minPacketSize; lia]. }
    rewrite HR.
    cbn [h_flag h]. change (flagWhoareyou =? flagWhoareyou) with true. cbn iota.
    unfold decode_whoareyou. rewrite LaN. change (negb (24 =? sizeofWhoareyouAuthData)) with false.
    cbn iota. cbn [h_nonce h]. unfold auth.
    rewrite (firstn_len_app 16 _ _ Hid), (skipn_len_app 16 _ _ Hid).
    rewrite be_fixed_decode by (cbn; lia). reflexivity.
  Qed.

  (* ---------- ordinary messages ---------- *)

  Hypothesis open_seal : forall k n p a, open k n (seal k n p a) a = Some p.
  (* the GCM tag: ciphertexts are at least 16 bytes *)
  Hypothesis seal_len : forall k n p a, 16 <= lenN (seal k n p a).

  Lemma next_ctr_bound c : next_ctr c < 4294967296.
  Proof.
    unfold next_ctr. destruct (N.ltb_spec (c + 1) 4294967296); [assumption|].
    apply N.mod_lt. lia.
  Qed.

  Theorem message_roundtrip cA cB idB addrA addrB sA sB rnd8 rnd12 iv pt junk :
    lookup (idB, addrB) (c_sessions cA) = Some sA ->
    lookup (c_id cA, addrA) (c_sessions cB) = Some sB ->
    s_read sB = s_write sA ->
    c_id cB = idB -> c_proto cA = c_proto cB -> length (c_proto cA) = 6%nat ->
    length (c_id cA) = 32%nat -> length iv = 16%nat -> length rnd8 = 8%nat ->
    pt <> [] -> msg_ok pt = true ->
    exists cA' P,
      encode_message cA idB addrB rnd8 rnd12 iv pt junk = Some (cA', P) /\
      (* sender: same keys, nonce counter advanced *)
      (exists sA', lookup (idB, addrB) (c_sessions cA') = Some sA' /\
                   s_write sA' = s_write sA /\ s_read sA' = s_read sA /\
                   s_ctr sA' = next_ctr (s_ctr sA)) /\
      (* receiver: decodes the message, state unchanged *)
      decode cB P addrA = (cB, DMsg (c_id cA) None pt).
  Proof.
    clear pub_of sign.
    intros LA LB Hkey HidB Hproto Hpl Hidl Hiv Hr8 Hpt Hok.
    unfold V5wire.encode_message. rewrite LA.
    unfold make_header, sizeofMessageAuthData. change (65535 <? 32) with false. cbn iota.
    set (nonce := mk_nonce (next_ctr (s_ctr sA)) rnd8).
    set (h := mkSH (c_proto cA) version flagMessage nonce 32).
    set (hd := iv ++ enc_static h ++ c_id cA).
    set (ct := seal (s_write sA) nonce pt hd).
    eexists. eexists. split; [reflexivity|]. split.
    { eexists. split; [cbn; apply lookup_put_same|]. cbn. auto. }
    assert (Hwf : wf_sheader h).
    { assert (Ln : length nonce = 12%nat)
        by (unfold nonce, mk_nonce; rewrite app_length, be_fixed_len, Hr8; reflexivity).
      unfold wf_sheader, h. cbn [h_proto h_version h_nonce h_authsize]. unfold version.
      split; [exact Hpl|]. split; [lia|]. split; [exact Ln|lia]. }
    assert (LaN : lenN (c_id cA) = 32) by (apply (lenN_len _ 32 Hidl)).
    unfold V5wire.decode. rewrite <- HidB, <- Hproto.
    pose proof (seal_len (s_write sA) nonce pt hd) as Hsl. fold ct in Hsl.
    assert (HR : parse_packet (c_id cB) (c_proto cA) (encode_raw (c_id cB) iv h (c_id cA) ct) =
                 inr (iv, enc_static h, h, c_id cA, ct)).
    { apply header_roundtrip;
        [exact Hwf|exact Hiv|reflexivity|unfold minVersion, h, version; cbn; lia
        |cbn [h_authsize h]; symmetry; exact LaN|right; unfold minMessageSize; lia
        |unfold minPacketSize; lia]. }
    rewrite HR.
    cbn [h_flag h]. change (flagMessage =? flagWhoareyou) with false.
    change (flagMessage =? flagHandshake) with false. change (flagMessage =? flagMessage) with true.
    cbn iota. unfold V5wire.decode_message. rewrite LaN.
    change (negb (32 =? sizeofMessageAuthData)) with false. cbn iota.
    rewrite LB. unfold decrypt_message. rewrite Hkey. cbn [h_nonce h].
    fold hd. unfold ct. rewrite open_seal.
    destruct pt as [|p0 pt']; [contradiction|]. rewrite Hok. reflexivity.
  Qed.


  (* ---------- handshake ---------- *)

  Lemma lookup_remove_same {A} k (m : list (skey * A)) : lookup k (remove k m) = None.
  Proof.
    induction m as [|[k' v] m IH]; cbn; [reflexivity|].
    destruct (skey_eqb k k') eqn:E; [exact IH|]. cbn. rewrite E. exact IH.
  Qed.

  Lemma hs_auth_roundtrip src sig pub rec :
    length src = 32%nat -> lenN sig <= 255 -> lenN pub <= 255 ->
    dec_hs_auth (src ++ [lenN sig; lenN pub] ++ sig ++ pub ++ rec) = inr (src, sig, pub, rec).
  Proof.
    intros Hs Hsig Hpub. unfold dec_hs_auth, sizeofHandshakeAuthData.
    assert (HL : lenN (src ++ [lenN sig; lenN pub] ++ sig ++ pub ++ rec) =
                 34 + lenN sig + lenN pub + lenN rec).
    { rewrite !lenN_app. rewrite (lenN_len src 32 Hs). rewrite !lenN_cons, lenN_nil. lia. }
    rewrite HL. destruct (N.ltb_spec (34 + lenN sig + lenN pub + lenN rec) 34); [lia|].
    rewrite (firstn_len_app 32 src _ Hs), (skipn_len_app 32 src _ Hs). cbn [app].
    rewrite !lenN_app. destruct (N.ltb_spec (lenN sig + (lenN pub + lenN rec)) (lenN sig + lenN pub)); [lia|].
    assert (N1 : N.to_nat (lenN sig) = length sig) by (unfold lenN; apply Nat2N.id).
    assert (N2 : N.to_nat (lenN pub) = length pub) by (unfold lenN; apply Nat2N.id).
    rewrite N1, N2.
    rewrite (firstn_len_app (length sig) sig _ eq_refl), (skipn_len_app (length sig) sig _ eq_refl).
    rewrite (firstn_len_app (length pub) pub _ eq_refl).
    rewrite app_assoc. rewrite (skipn_len_app (length sig + length pub) (sig ++ pub) rec).
    - reflexivity.
    - apply app_length.
  Qed.

  Hypothesis ecdh_comm : forall a b, ecdh a (pub_of b) = ecdh b (pub_of a).
  Hypothesis verify_sign : forall k h, sig_verify (pub_of k) h (sign k h) = true.
  Hypothesis pub_valid_pub : forall k, pub_valid (pub_of k) = true.
  Hypothesis sign_len : forall k h, lenN (sign k h) <= 255.
  Hypothesis pub_len : forall k, lenN (pub_of k) <= 255.

  Theorem handshake_roundtrip cA cB addrA addrB w nodeA nodeB eph rnd8 iv pt :
    lookup (c_id cA, addrA) (c_handshakes cB) = Some w ->
    n_pub nodeB = pub_of (c_priv cB) -> n_id nodeB = c_id cB ->
    decode_handshake_record rec_seq rec_node (w_node w) (c_id cA)
      (if w_seq w <? n_seq (c_node cA) then n_rec (c_node cA) else []) = inr nodeA ->
    n_pub nodeA = pub_of (c_priv cA) ->
    lenN (n_rec (c_node cA)) <= 300 ->
    c_proto cA = c_proto cB -> length (c_proto cA) = 6%nat -> length (c_id cA) = 32%nat ->
    length iv = 16%nat -> length rnd8 = 8%nat -> pt <> [] -> msg_ok pt = true ->
    exists cA' P cB' sA sB,
      encode_handshake cA (c_id cB) addrB
        (mkChal (w_nonce w) (w_idnonce w) (w_seq w) (Some nodeB) (w_cdata w)) eph rnd8 iv pt
        = Some (cA', P) /\
      decode cB P addrA = (cB', DMsg (c_id cA) (Some nodeA) pt) /\
      lookup (c_id cB, addrB) (c_sessions cA') = Some sA /\
      lookup (c_id cA, addrA) (c_sessions cB') = Some sB /\
      s_read sB = s_write sA /\ s_write sB = s_read sA /\
      lookup (c_id cA, addrA) (c_handshakes cB') = None.
  Proof.
    intros LW HpubB HidB Hrec HpubA Hrl Hproto Hpl Hidl Hiv Hr8 Hpt Hok.
    unfold V5wire.encode_handshake. cbn [w_node w_cdata w_seq].
    set (cdata := w_cdata w). set (ephpub := pub_of eph).
    set (idsig := sign (c_priv cA) (id_nonce_hash Hsha cdata ephpub (c_id cB))).
    set (record := if w_seq w <? n_seq (c_node cA) then n_rec (c_node cA) else []) in *.
    rewrite HpubB, HidB.
    destruct (derive_keys ecdh kdf eph (pub_of (c_priv cB)) (c_id cA) (c_id cB) cdata) as [wk rk] eqn:EK.
    set (nonce := mk_nonce (next_ctr 0) rnd8).
    set (auth := c_id cA ++ [lenN idsig; lenN ephpub] ++ idsig ++ ephpub ++ record).
    pose proof (sign_len (c_priv cA) (id_nonce_hash Hsha cdata ephpub (c_id cB))) as Ls. fold idsig in Ls.
    pose proof (pub_len eph) as Lp. fold ephpub in Lp.
    destruct (N.ltb_spec 255 (lenN idsig)); [lia|]. destruct (N.ltb_spec 255 (lenN ephpub)); [lia|].
    cbn [orb].
    assert (Lrec : lenN record <= 300).
    { unfold record. destruct (w_seq w <? n_seq (c_node cA)); [exact Hrl|cbn; lia]. }
    assert (La : lenN auth = 34 + lenN idsig + lenN ephpub + lenN record).
    { unfold auth. rewrite !lenN_app. rewrite (lenN_len (c_id cA) 32 Hidl). rewrite !lenN_cons, lenN_nil. lia. }
    unfold make_header. destruct (N.ltb_spec 65535 (lenN auth)); [lia|].
    set (h := mkSH (c_proto cA) version flagHandshake nonce (lenN auth)).
    set (hd := iv ++ enc_static h ++ auth).
    set (ct := seal wk nonce pt hd).
    set (sA := mkSess wk rk (next_ctr 0) nodeB).
    eexists. eexists. eexists. exists sA. eexists.
    split; [reflexivity|].
    assert (Hwf : wf_sheader h).
    { assert (Ln : length nonce = 12%nat)
        by (unfold nonce, mk_nonce; rewrite app_length, be_fixed_len, Hr8; reflexivity).
      unfold wf_sheader, h. cbn [h_proto h_version h_nonce h_authsize]. unfold version.
      split; [exact Hpl|]. split; [lia|]. split; [exact Ln|lia]. }
    pose proof (seal_len wk nonce pt hd) as Hsl. fold ct in Hsl.
    assert (HR : parse_packet (c_id cB) (c_proto cB) (encode_raw (c_id cB) iv h auth ct) =
                 inr (iv, enc_static h, h, auth, ct)).
    { apply header_roundtrip;
        [exact Hwf|exact Hiv|exact Hproto|unfold minVersion, h, version; cbn; lia
        |reflexivity|right; unfold minMessageSize; lia|unfold minPacketSize; lia]. }
    assert (HD : dec_hs_auth auth = inr (c_id cA, idsig, ephpub, record))
      by (apply hs_auth_roundtrip; assumption).
    (* B derives the same keys *)
    assert (EKB : derive_keys ecdh kdf (c_priv cB) ephpub (c_id cA) (c_id cB) cdata = (wk, rk)).
    { rewrite <- EK. unfold derive_keys, ephpub. rewrite ecdh_comm. reflexivity. }
    split.
    { unfold V5wire.decode. rewrite HR. cbn [h_flag h].
      change (flagHandshake =? flagWhoareyou) with false.
      change (flagHandshake =? flagHandshake) with true. cbn iota.
      unfold V5wire.decode_handshake. rewrite HD, LW. fold cdata. fold record in Hrec. rewrite Hrec.
      rewrite HpubA. unfold idsig. rewrite verify_sign. cbn [negb].
      unfold ephpub at 1. rewrite pub_valid_pub. cbn [negb].
      rewrite EKB. cbn [s_read h_nonce h]. unfold decrypt_message. fold hd. unfold ct.
      rewrite open_seal. destruct pt as [|p0 pt']; [contradiction|]. rewrite Hok. reflexivity. }
    split; [cbn; apply lookup_put_same|].
    split; [cbn [c_sessions]; apply lookup_put_same|].
    split; [reflexivity|]. split; [reflexivity|].
    cbn [c_handshakes]. apply lookup_remove_same.
  Qed.

  (* ---------- authenticity ---------- *)

  (* anything decode_message accepts opened under the read key of the session
     stored for (claimed source, address) with exactly the header data seen *)
  Lemma decode_message_accepts c addr h auth hd msg src n pt :
    decode_message c addr h auth hd msg = DMsg src n pt ->
    n = None /\ src = auth /\
    exists s, lookup (src, addr) (c_sessions c) = Some s /\
              open (s_read s) (h_nonce h) msg hd = Some pt.
  Proof.
    unfold V5wire.decode_message. destruct (negb _); [discriminate|].
    destruct (lookup (auth, addr) (c_sessions c)) as [s|] eqn:L; [|discriminate].
    unfold decrypt_message. destruct (open (s_read s) (h_nonce h) msg hd) as [p|] eqn:O; [|discriminate].
    destruct p as [|p0 p']; [discriminate|]. destruct (msg_ok (p0 :: p')); [|discriminate].
    intros E; inversion E; subst. split; [reflexivity|]. split; [reflexivity|].
    exists s. split; [exact L|exact O].
  Qed.

  (* AEAD integrity, idealised: the only ciphertexts that open are honest
     seals; and seal is injective in key, nonce, plaintext and associated data
     (key separation) *)
  Hypothesis aead_integrity : forall k n c a p, open k n c a = Some p -> c = seal k n p a.
  Hypothesis seal_inj : forall k n p a k' n' p' a',
    seal k n p a = seal k' n' p' a' -> k = k' /\ n = n' /\ p = p' /\ a = a'.

  Theorem accepts_only_sealed c addr h auth hd msg src n pt :
    decode_message c addr h auth hd msg = DMsg src n pt ->
    exists s, lookup (src, addr) (c_sessions c) = Some s /\
              msg = seal (s_read s) (h_nonce h) pt hd.
  Proof.
    intros E. apply decode_message_accepts in E as (_ & _ & s & L & O).
    exists s. split; [exact L|]. apply aead_integrity. exact O.
  Qed.

  (* a ciphertext sealed over header data hd0 with nonce n0 is rejected under
     any other header data or nonce: every byte of masking IV, static header
     (incl. nonce) and authdata is authenticated *)
  Theorem rejects_tampered_header c addr h auth hd k n0 pt0 hd0 src n pt :
    (hd <> hd0 \/ h_nonce h <> n0) ->
    decode_message c addr h auth hd (seal k n0 pt0 hd0) <> DMsg src n pt.
  Proof.
    intros Hne E. apply accepts_only_sealed in E as (s & _ & Es).
    apply seal_inj in Es as (_ & En & _ & Ea). destruct Hne as [Hne|Hne]; congruence.
  Qed.

  (* a ciphertext sealed under another session's key is rejected, whatever the
     header says: replay across sessions, packets meant for another node *)
  Theorem rejects_cross_session c addr h auth hd k0 n0 pt0 hd0 src n pt :
    (forall s, lookup (auth, addr) (c_sessions c) = Some s -> s_read s <> k0) ->
    decode_message c addr h auth hd (seal k0 n0 pt0 hd0) <> DMsg src n pt.
  Proof.
    intros Hsep E. pose proof E as E'. apply decode_message_accepts in E' as (_ & -> & _).
    apply accepts_only_sealed in E as (s & L & Es).
    apply seal_inj in Es as (Ek & _). apply (Hsep s L). congruence.
  Qed.

  (* the same at the level of Decode: whatever bytes arrive, if Decode yields an
     ordinary message then the message part is an honest seal under the read
     key of the local session with the claimed source, over exactly the header
     bytes as unmasked with the LOCAL node id *)
  Theorem decode_authentic c input addr c' src n pt :
    decode c input addr = (c', DMsg src n pt) ->
    exists iv static h auth msg,
      parse_packet (c_id c) (c_proto c) input = inr (iv, static, h, auth, msg) /\
      (h_flag h = flagMessage ->
         exists s, lookup (src, addr) (c_sessions c) = Some s /\
                   msg = seal (s_read s) (h_nonce h) pt (iv ++ static ++ auth)) /\
      (h_flag h = flagMessage \/ h_flag h = flagHandshake).
  Proof.
    unfold V5wire.decode.
    destruct (parse_packet (c_id c) (c_proto c) input) as [e|[[[[iv static] h] auth] msg]] eqn:P;
      [discriminate|].
    intros E. exists iv, static, h, auth, msg. split; [reflexivity|].
    destruct (N.eqb_spec (h_flag h) flagWhoareyou) as [Hw|Hw].
    { unfold decode_whoareyou in E. destruct (negb _) in E; inversion E. }
    destruct (N.eqb_spec (h_flag h) flagHandshake) as [Hh|Hh].
    { split; [|right; exact Hh]. intros Hm. rewrite Hm in Hh. discriminate. }
    destruct (N.eqb_spec (h_flag h) flagMessage) as [Hm|Hm]; [|inversion E].
    split; [|left; exact Hm]. intros _. inversion E as [[Ec Ed]].
    apply accepts_only_sealed in Ed. exact Ed.
  Qed.

  (* packet built for node B, delivered to another codec C: if C's unmasking
     leaves the message part intact and C's session with the claimed source
     does not share the sender's key, C does not accept it *)
  Theorem rejects_wrong_destination c input addr c' src n pt k0 n0 pt0 hd0 iv static h auth :
    parse_packet (c_id c) (c_proto c) input = inr (iv, static, h, auth, seal k0 n0 pt0 hd0) ->
    h_flag h = flagMessage ->
    (forall s, lookup (auth, addr) (c_sessions c) = Some s -> s_read s <> k0) ->
    decode c input addr <> (c', DMsg src n pt).
  Proof.
    intros P Hm Hsep E. unfold V5wire.decode in E. rewrite P, Hm in E.
    change (flagMessage =? flagWhoareyou) with false in E.
    change (flagMessage =? flagHandshake) with false in E.
    change (flagMessage =? flagMessage) with true in E. cbn iota in E.
    injection E as Ec Ed. revert Ed. apply rejects_cross_session. exact Hsep.
  Qed.
End Crypto.

(* ---------- a concrete run (non-vacuity of the round-trip premises) ----------
   A toy instantiation of the abstract primitives (NOT cryptography: constant
   keystream, checksum tag) and one complete exchange: WHOAREYOU, handshake,
   reply over the new session, a tampered copy and a misdelivered copy. *)
Module Toy.
  Definition ks (_ _ : bytes) (_ : nat) : N := 7.
  Definition sum (l : bytes) : N := fold_left N.add l 0.
  Definition tag (k n p a : bytes) : bytes :=
    repeat ((sum k + 3 * sum n + 5 * sum p + 7 * sum a + lenN p) mod 256) 16.
  Definition seal (k n p a : bytes) : bytes := p ++ tag k n p a.
  Definition open (k n c a : bytes) : option bytes :=
    if lenN c <? 16 then None else
    let m := (length c - 16)%nat in
    if beq (skipn m c) (tag k n (firstn m c) a) then Some (firstn m c) else None.
  Definition Hsha (x : bytes) : bytes := firstn 32 x.
  Definition pub_of (k : bytes) : bytes := 2 :: k.
  Definition sign (k h : bytes) : bytes := k ++ h.
  Definition sig_verify (pub h sig : bytes) : bool := beq sig (tl pub ++ h).
  Definition pub_valid (p : bytes) : bool := lenN p =? 33.
  Fixpoint xor2 (a b : bytes) : bytes :=
    match a, b with x :: a', y :: b' => N.lxor x y :: xor2 a' b' | _, _ => [] end.
  Definition ecdh (a B : bytes) : bytes := xor2 a (tl B).
  Definition kdf (s salt info : bytes) : bytes * bytes :=
    (firstn 16 (s ++ info), firstn 16 (map (N.add 1) (s ++ info))).
  Definition rec_seq (_ : bytes) : option N := None.
  Definition rec_node (_ : bytes) : option node := None.
  Definition msg_ok (_ : bytes) : bool := true.

  Definition dec := decode ks open Hsha sig_verify pub_valid ecdh kdf rec_seq rec_node msg_ok.

  Definition idA := repeat 17 32.  Definition idB := repeat 34 32.
  Definition privA := repeat 5 32. Definition privB := repeat 9 32.
  Definition nodeA := mkNode idA (pub_of privA) 3 [1; 2; 3].
  Definition nodeB := mkNode idB (pub_of privB) 4 [4; 5; 6].
  Definition proto : bytes := [100; 105; 115; 99; 118; 53].
  Definition cA0 := mkCodec nodeA privA proto [] [].
  Definition cB0 := mkCodec nodeB privB proto [] [].
  Definition addrA : bytes := [65].  Definition addrB : bytes := [66].
  Definition iv1 := repeat 1 16. Definition iv2 := repeat 2 16. Definition iv3 := repeat 3 16.
  Definition ping : bytes := [1; 194; 1; 1].  Definition pong : bytes := [2; 195; 1; 1; 128].

  Definition is_msg (d : dres) (src pt : bytes) : bool :=
    match d with DMsg s _ p => beq s src && beq p pt | _ => false end.
  Definition not_msg (d : dres) : bool := match d with DMsg _ _ _ => false | _ => true end.

  Definition scenario_ok : bool :=
    let w := mkChal (repeat 8 12) (repeat 6 16) 3 (Some nodeA) [] in
    match encode_whoareyou ks cB0 idA addrA w iv1 with
    | None => false
    | Some (cB1, P2, _) =>
        match dec cA0 P2 addrB with
        | (_, DWhoareyou wA) =>
            let wA' := mkChal (w_nonce wA) (w_idnonce wA) (w_seq wA) (Some nodeB) (w_cdata wA) in
            match encode_handshake ks seal Hsha pub_of sign ecdh kdf cA0 idB addrB wA'
                                   (repeat 11 32) (repeat 12 8) iv2 ping with
            | None => false
            | Some (cA1, P3) =>
                let (cB2, d3) := dec cB1 P3 addrA in
                match encode_message ks seal cB2 idA addrA (repeat 13 8) (repeat 14 12) iv3 pong
                                     (repeat 15 20) with
                | None => false
                | Some (_, P4) =>
                    let P4t := firstn 80 P4 ++ match skipn 80 P4 with x :: t => N.lxor x 1 :: t | [] => [] end in
                    is_msg d3 idA ping &&
                    is_msg (snd (dec cA1 P4 addrB)) idB pong &&
                    not_msg (snd (dec cA1 P4t addrB)) &&
                    not_msg (snd (dec cB2 P4 addrB)) &&
                    not_msg (snd (dec cA0 P4 addrB))
                end
            end
        | _ => false
        end
    end.
End Toy.
