(* Net/Aes.v — AES (FIPS-197) block encryption and the CTR keystream, as plain
   executable Gallina over bytes-as-N.  This file is NOT a model of code under
   verification: crypto/aes and crypto/cipher are Go standard-library code.  It is
   the EXECUTABLE INSTANCE handed to the Section variables of Net/Rlpx.v (the block
   cipher of the RLPx MAC and the AES-CTR stream) by Run/C44.v so that the model
   computes real wire bytes from the session secrets alone.  No C44 theorem mentions
   it (they are parametric in the cipher).  Checked against the FIPS-197 appendix C
   vectors in Net/RlpxProofs.v and, on every run, against Go's AES through the wire
   bytes compared by the C44 correspondence. *)
From Coq Require Import List NArith Bool Arith.
Import ListNotations.
Local Open Scope N_scope.

Definition sbox_rows : list (list N) :=
 [[99; 124; 119; 123; 242; 107; 111; 197; 48; 1; 103; 43; 254; 215; 171; 118];
  [202; 130; 201; 125; 250; 89; 71; 240; 173; 212; 162; 175; 156; 164; 114; 192];
  [183; 253; 147; 38; 54; 63; 247; 204; 52; 165; 229; 241; 113; 216; 49; 21];
  [4; 199; 35; 195; 24; 150; 5; 154; 7; 18; 128; 226; 235; 39; 178; 117];
  [9; 131; 44; 26; 27; 110; 90; 160; 82; 59; 214; 179; 41; 227; 47; 132];
  [83; 209; 0; 237; 32; 252; 177; 91; 106; 203; 190; 57; 74; 76; 88; 207];
  [208; 239; 170; 251; 67; 77; 51; 133; 69; 249; 2; 127; 80; 60; 159; 168];
  [81; 163; 64; 143; 146; 157; 56; 245; 188; 182; 218; 33; 16; 255; 243; 210];
  [205; 12; 19; 236; 95; 151; 68; 23; 196; 167; 126; 61; 100; 93; 25; 115];
  [96; 129; 79; 220; 34; 42; 144; 136; 70; 238; 184; 20; 222; 94; 11; 219];
  [224; 50; 58; 10; 73; 6; 36; 92; 194; 211; 172; 98; 145; 149; 228; 121];
  [231; 200; 55; 109; 141; 213; 78; 169; 108; 86; 244; 234; 101; 122; 174; 8];
  [186; 120; 37; 46; 28; 166; 180; 198; 232; 221; 116; 31; 75; 189; 139; 138];
  [112; 62; 181; 102; 72; 3; 246; 14; 97; 53; 87; 185; 134; 193; 29; 158];
  [225; 248; 152; 17; 105; 217; 142; 148; 155; 30; 135; 233; 206; 85; 40; 223];
  [140; 161; 137; 13; 191; 230; 66; 104; 65; 153; 45; 15; 176; 84; 187; 22]].

Definition sbox (b : N) : N :=
  nth (N.to_nat (b mod 16)) (nth (N.to_nat (b / 16)) sbox_rows []) 0.

(* multiplication by x in GF(2^8) mod x^8+x^4+x^3+x+1 *)
Definition xtime (a : N) : N :=
  let d := 2 * a in if d <? 256 then d else N.lxor (d - 256) 27.

Fixpoint zipxor (a b : list N) : list N :=
  match a, b with
  | x :: a', y :: b' => N.lxor x y :: zipxor a' b'
  | _, _ => []
  end.

Definition rot_word (w : list N) : list N :=
  match w with a :: r => r ++ [a] | [] => [] end.
Definition sub_word (w : list N) : list N := map sbox w.

(* FIPS-197 5.2 KeyExpansion; words kept most-recent-first while expanding *)
Fixpoint expand (fuel i nk : nat) (rcon : N) (rev_ws : list (list N)) : list (list N) :=
  match fuel with
  | O => rev rev_ws
  | S f =>
      let prev := hd [] rev_ws in
      let old := nth (nk - 1) rev_ws [] in
      let '(temp, rcon') :=
        if (i mod nk =? 0)%nat
        then (zipxor (sub_word (rot_word prev)) [rcon; 0; 0; 0], xtime rcon)
        else if (6 <? nk)%nat && (i mod nk =? 4)%nat then (sub_word prev, rcon)
        else (prev, rcon) in
      expand f (S i) nk rcon' (zipxor old temp :: rev_ws)
  end.

Fixpoint chunks (fuel n : nat) (l : list N) : list (list N) :=
  match fuel with
  | O => []
  | S f => match l with [] => [] | _ => firstn n l :: chunks f n (skipn n l) end
  end.

(* round keys (16 bytes each) of a 16/24/32-byte key; [] for any other key length
   (aes.NewCipher returns KeySizeError there) *)
Definition round_keys (key : list N) : list (list N) :=
  let nk := (length key / 4)%nat in
  if negb ((length key =? 16) || (length key =? 24) || (length key =? 32))%nat then [] else
  let ws := expand (4 * (nk + 7) - nk) nk nk 1 (rev (chunks nk 4 key)) in
  chunks (nk + 7) 16 (concat ws).

Definition shift_idx : list nat := [0; 5; 10; 15; 4; 9; 14; 3; 8; 13; 2; 7; 12; 1; 6; 11]%nat.
Definition shift_rows (s : list N) : list N := map (fun j => nth j s 0) shift_idx.

Definition mix_col (c : list N) : list N :=
  match c with
  | [a0; a1; a2; a3] =>
      let x := N.lxor in
      let m2 := xtime in
      let m3 a := N.lxor (xtime a) a in
      [ x (x (m2 a0) (m3 a1)) (x a2 a3);
        x (x a0 (m2 a1)) (x (m3 a2) a3);
        x (x a0 a1) (x (m2 a2) (m3 a3));
        x (x (m3 a0) a1) (x a2 (m2 a3)) ]
  | _ => c
  end.
Definition mix_columns (s : list N) : list N := concat (map mix_col (chunks 4 4 s)).

Fixpoint rounds (rks : list (list N)) (s : list N) : list N :=
  match rks with
  | [] => s
  | [rk] => zipxor (shift_rows (map sbox s)) rk
  | rk :: more => rounds more (zipxor (mix_columns (shift_rows (map sbox s))) rk)
  end.

(* cipher.Block.Encrypt(dst, src) on src[:16] *)
Definition enc_block (rks : list (list N)) (blk : list N) : list N :=
  match rks with
  | [] => []
  | rk0 :: rest => rounds rest (zipxor (firstn 16 blk) rk0)
  end.

(* 16-byte big-endian counter block *)
Fixpoint be_fixed (k : nat) (n : N) (acc : list N) : list N :=
  match k with O => acc | S k' => be_fixed k' (n / 256) (n mod 256 :: acc) end.

(* cipher.NewCTR(block, iv = 0^16): state = (next counter value, unused keystream
   bytes of the current block); one step yields one keystream byte *)
Definition ctr_state : Type := N * list N.
Definition ctr_init : ctr_state := (0, []).
Definition ctr_next (rks : list (list N)) (c : ctr_state) : N * ctr_state :=
  match snd c with
  | b :: r => (b, (fst c, r))
  | [] =>
      match enc_block rks (be_fixed 16 (fst c) []) with
      | b :: r => (b, (fst c + 1, r))
      | [] => (0, c)
      end
  end.
