(* Net/Table.v — executable model of the discovery node table
   (/repo/p2p/discover/table.go, table_reval.go, node.go; /repo/p2p/netutil/net.go
   DistinctNetSet/AddrIsLAN; /repo/p2p/enode LogDist/DistCmp).  Transcribed from the
   Go code; no proofs here (see Net/TableProofs.v).

   Representation choices
   * enode.ID is the 256-bit big-endian number [N] (guard: < 2^256, enforced by the Go type).
   * netip.Addr is [ip]: the zero Addr, a 4-byte address, or a 16-byte address
     (IPv4-mapped addresses stay in 16-byte form, exactly as enode.Node stores them).
   * *tableNode pointer identity is a token [n_tok] supplied by the caller at allocation
     (fresh per allocation); revalidation responses refer to the object by token, so a
     response for an object that has left the table is distinguishable from a response
     for a newer object with the same node ID.
   * revalList (nil / &fast / &slow) is the tag [n_rl] = 0 / 1 / 2.  The contents of the
     two revalidation lists, timers and activeReq are not modelled.
   * tab.rand.Intn(len) in deleteInBucket is the op parameter [rnd] (index = rnd mod len).
   * a Go panic (index out of range, nodeRemoved on a nil revalList) is [None]. *)
From Coq Require Import List NArith Bool.
Import ListNotations.
Local Open Scope N_scope.

(* ---------- netip.Addr and the predicates used by the table ---------- *)

Inductive ip := IPnone | IP4 (a : N) | IP6 (a : N).

(* netip.Addr == *)
Definition ip_eqb (x y : ip) : bool :=
  match x, y with
  | IPnone, IPnone => true
  | IP4 a, IP4 b => a =? b
  | IP6 a, IP6 b => a =? b
  | _, _ => false
  end.

(* Addr.IsValid *)
Definition ip_valid (x : ip) : bool := match x with IPnone => false | _ => true end.
(* Addr.Is4In6: in ::ffff:0:0/96 *)
Definition is4in6 (x : ip) : bool :=
  match x with IP6 a => N.shiftr a 32 =? 65535 | _ => false end.
(* Addr.Unmap *)
Definition unmap (x : ip) : ip :=
  match x with IP6 a => if is4in6 x then IP4 (a mod 4294967296) else x | _ => x end.
Definition oct0 (a : N) : N := N.shiftr a 24.
Definition oct1 (a : N) : N := (N.shiftr a 16) mod 256.
(* Addr.IsLoopback *)
Definition is_loopback (x : ip) : bool :=
  match unmap x with IP4 a => oct0 a =? 127 | IP6 a => a =? 1 | IPnone => false end.
(* Addr.IsPrivate *)
Definition is_private (x : ip) : bool :=
  match unmap x with
  | IP4 a => (oct0 a =? 10) || ((oct0 a =? 172) && (N.land (oct1 a) 240 =? 16))
             || ((oct0 a =? 192) && (oct1 a =? 168))
  | IP6 a => N.land (N.shiftr a 120) 254 =? 252
  | IPnone => false
  end.
(* Addr.IsLinkLocalUnicast *)
Definition is_link_local (x : ip) : bool :=
  match unmap x with
  | IP4 a => (oct0 a =? 169) && (oct1 a =? 254)
  | IP6 a => N.land (N.shiftr a 112) 65472 =? 65152
  | IPnone => false
  end.
(* Addr.IsMulticast *)
Definition is_multicast (x : ip) : bool :=
  match unmap x with
  | IP4 a => N.land (oct0 a) 240 =? 224
  | IP6 a => N.shiftr a 120 =? 255
  | IPnone => false
  end.
(* Addr.IsUnspecified: 0.0.0.0 or :: *)
Definition is_unspecified (x : ip) : bool :=
  match x with IP4 a => a =? 0 | IP6 a => a =? 0 | IPnone => false end.

(* netutil.AddrIsLAN *)
Definition addr_is_lan (x : ip) : bool :=
  let y := if is4in6 x then unmap x else x in
  if is_loopback y then true else is_private y || is_link_local y.

(* DistinctNetSet.key with Subnet = 24: ip.Unmap().Prefix(24), as a number.  The zero Addr
   gives the zero Prefix (0); a 4-byte address and an IPv4-mapped 16-byte address the top 24
   of the 32 bits of the IPv4 address; any other 16-byte address its top 24 of 128 bits. *)
Definition net_key (x : ip) : N :=
  match unmap x with
  | IPnone => 0
  | IP4 a => 16777216 + N.shiftr a 8
  | IP6 a => 33554432 + N.shiftr a 104
  end.

(* the key before the repair "p2p/netutil: count IPv4-mapped IPv6 addresses in their IPv4
   subnet": ip.Prefix(24) of the address as stored, so that every IPv4-mapped address had the
   key ::/24.  Kept only for the documentation theorem C46_stored_form_keying_refuted. *)
Definition net_key_stored (x : ip) : N :=
  match x with
  | IPnone => 0
  | IP4 a => 16777216 + N.shiftr a 8
  | IP6 a => 33554432 + N.shiftr a 104
  end.

(* the table operations are written against the key function in force *)
Class KeyFn := key_of : ip -> N.

(* enode.newNodeWithID restricted to records carrying one address: validIP *)
Definition enode_ip (raw : ip) : ip :=
  if ip_valid raw && negb (is_multicast raw) then raw else IPnone.

(* ---------- netutil.DistinctNetSet ---------- *)

Definition netset := list (N * N).   (* members: key -> count *)

Fixpoint ns_lookup (k : N) (m : netset) : option N :=
  match m with
  | [] => None
  | (k', v) :: r => if k' =? k then Some v else ns_lookup k r
  end.
Definition ns_del (k : N) (m : netset) : netset :=
  filter (fun p => negb (fst p =? k)) m.
Definition ns_set (k v : N) (m : netset) : netset := (k, v) :: ns_del k m.
Definition ns_get (k : N) (m : netset) : N :=
  match ns_lookup k m with Some v => v | None => 0 end.

(* DistinctNetSet.AddAddr *)
Definition ns_add (limit k : N) (m : netset) : netset * bool :=
  let n := ns_get k m in
  if n <? limit then (ns_set k (n + 1) m, true) else (m, false).

(* DistinctNetSet.RemoveAddr; n - 1 is uint arithmetic *)
Definition ns_remove (k : N) (m : netset) : netset :=
  match ns_lookup k m with
  | Some n => if n =? 1 then ns_del k m
              else ns_set k ((n + 18446744073709551616 - 1) mod 18446744073709551616) m
  | None => m
  end.

(* ---------- nodes, buckets, table ---------- *)

Record rec := mkRec { r_id : N; r_ip : ip; r_udp : N; r_seq : N }.   (* *enode.Node *)

Record tnode := mkT {          (* *tableNode *)
  n_rec : rec;
  n_tok : N;                   (* pointer identity *)
  n_rl : N;                    (* revalList: 0 nil, 1 fast, 2 slow *)
  n_checks : N;                (* livenessChecks (uint) *)
  n_live : bool                (* isValidatedLive *)
}.
Definition n_id (n : tnode) : N := r_id (n_rec n).
Definition n_ip (n : tnode) : ip := r_ip (n_rec n).

Record bucket := mkB { entries : list tnode; repl : list tnode; bips : netset }.
Record table := mkTab { self : N; buckets : list bucket; tips : netset; init_done : bool }.

Definition bucket_size : nat := 16.
Definition max_replacements : nat := 10.
Definition n_buckets : nat := 17.
Definition bucket_ip_limit : N := 2.
Definition table_ip_limit : N := 10.

Definition empty_bucket : bucket := mkB [] [] [].
(* newTable *)
Definition new_table (self_id : N) : table :=
  mkTab self_id (repeat empty_bucket n_buckets) [] false.

(* enode.LogDist *)
Definition logdist (a b : N) : N := N.size (N.lxor a b).
(* enode.DistCmp(target, a, b) > 0 *)
Definition dist_gt (target a b : N) : bool := N.lxor target b <? N.lxor target a.

(* Table.bucketAtDistance: index into tab.buckets; bucketMinDistance = 239 *)
Definition bucket_index (d : N) : nat :=
  if d <=? 239 then O else N.to_nat (d - 239 - 1).

(* the state one operation works on: one bucket plus the table-wide IP set *)
Record lst := mkL { lb : bucket; lt : netset }.

Definition set_entries (L : lst) (e : list tnode) : lst :=
  mkL (mkB e (repl (lb L)) (bips (lb L))) (lt L).
Definition set_repl (L : lst) (r : list tnode) : lst :=
  mkL (mkB (entries (lb L)) r (bips (lb L))) (lt L).

Section Keyed.
Context {K : KeyFn}.

(* Table.addIP *)
Definition add_ip (L : lst) (a : ip) : lst * bool :=
  if negb (ip_valid a) || is_unspecified a then (L, false)
  else if addr_is_lan a then (L, true)
  else
    let '(t1, ok) := ns_add table_ip_limit (key_of a) (lt L) in
    if negb ok then (L, false)
    else
      let '(b1, ok2) := ns_add bucket_ip_limit (key_of a) (bips (lb L)) in
      if negb ok2 then (mkL (lb L) (ns_remove (key_of a) t1), false)
      else (mkL (mkB (entries (lb L)) (repl (lb L)) b1) t1, true).

(* Table.removeIP *)
Definition remove_ip (L : lst) (a : ip) : lst :=
  if addr_is_lan a then L
  else mkL (mkB (entries (lb L)) (repl (lb L)) (ns_remove (key_of a) (bips (lb L))))
           (ns_remove (key_of a) (lt L)).

(* slices.IndexFunc + element access *)
Fixpoint find_first {A} (p : A -> bool) (l : list A) : option A :=
  match l with [] => None | x :: r => if p x then Some x else find_first p r end.
(* in-place update of the first element satisfying p (mutation through the pointer) *)
Fixpoint map_first {A} (p : A -> bool) (f : A -> A) (l : list A) : list A :=
  match l with [] => [] | x :: r => if p x then f x :: r else x :: map_first p f r end.
(* slices.Delete(l, i, i+1) for the first index satisfying p *)
Fixpoint remove_first {A} (p : A -> bool) (l : list A) : list A :=
  match l with [] => [] | x :: r => if p x then r else x :: remove_first p r end.

Definition has_id (id : N) (n : tnode) : bool := n_id n =? id.
Definition has_tok (tok : N) (n : tnode) : bool := n_tok n =? tok.

(* containsID *)
Definition contains_id (l : list tnode) (id : N) : bool := existsb (has_id id) l.
(* deleteNode (slices.DeleteFunc) *)
Definition delete_node (l : list tnode) (id : N) : list tnode :=
  filter (fun n => negb (has_id id n)) l.

Fixpoint last_opt {A} (l : list A) : option A :=
  match l with [] => None | [x] => Some x | _ :: r => last_opt r end.

(* pushNode(list, n, maxReplacements) *)
Definition push_node (l : list tnode) (n : tnode) : list tnode * option tnode :=
  if Nat.ltb (length l) max_replacements then (n :: l, None)
  else (n :: removelast l, last_opt l).

Definition set_rl (v : N) (n : tnode) : tnode :=
  mkT (n_rec n) (n_tok n) v (n_checks n) (n_live n).

(* Table.bumpInBucket.  Returns (state, found in bucket, endpointChanged). *)
Definition bump_in_bucket (L : lst) (nr : rec) (inbound : bool) : lst * bool * bool :=
  match find_first (has_id (r_id nr)) (entries (lb L)) with
  | None => (L, false, false)
  | Some n =>
      if (r_seq nr <=? r_seq (n_rec n)) && negb inbound then (L, true, false)
      else
        let ipchanged := negb (ip_eqb (r_ip nr) (n_ip n)) in
        let portchanged := negb (r_udp nr =? r_udp (n_rec n)) in
        let '(L1, fits) :=
          if ipchanged then
            let La := remove_ip L (n_ip n) in
            let '(Lb, ok) := add_ip La (r_ip nr) in
            if ok then (Lb, true) else (fst (add_ip Lb (n_ip n)), false)
          else (L, true) in
        if negb fits then (L1, true, false)
        else if ipchanged || portchanged then
          (* n.Node = newRecord; nodeEndpointChanged: isValidatedLive = false, moveToList(fast) *)
          (set_entries L1 (map_first (has_id (r_id nr))
             (fun n => mkT nr (n_tok n) 1 (n_checks n) false) (entries (lb L1))), true, true)
        else
          (set_entries L1 (map_first (has_id (r_id nr))
             (fun n => mkT nr (n_tok n) (n_rl n) (n_checks n) (n_live n)) (entries (lb L1))), true, false)
  end.

(* Table.addReplacement *)
Definition add_replacement (L : lst) (r : rec) (tok : N) : lst :=
  if contains_id (repl (lb L)) (r_id r) then L
  else
    let '(L1, ok) := add_ip L (r_ip r) in
    if negb ok then L1
    else
      let wn := mkT r tok 0 0 false in
      let '(l', removed) := push_node (repl (lb L1)) wn in
      let L2 := set_repl L1 l' in
      match removed with
      | Some x => remove_ip L2 (n_ip x)
      | None => L2
      end.

(* Table.handleAddNode after the bucket has been selected *)
Definition handle_add_node_l (self_id : N) (initd : bool) (L : lst)
    (r : rec) (tok : N) (inbound force_live : bool) : lst * bool :=
  if r_id r =? self_id then (L, false)
  else if inbound && negb initd then (L, false)
  else
    let '(L1, found, _) := bump_in_bucket L r inbound in
    if found then (L1, false)
    else if Nat.leb bucket_size (length (entries (lb L1))) then (add_replacement L1 r tok, false)
    else
      let '(L2, ok) := add_ip L1 (r_ip r) in
      if negb ok then (L2, false)
      else
        (* wn := &tableNode{Node: req.node}; nodeAdded: revalidation.fast.push *)
        let wn := mkT r tok 1 (if force_live then 1 else 0) force_live in
        let b := lb L2 in
        (mkL (mkB (entries b ++ [wn]) (delete_node (repl b) (r_id r)) (bips b)) (lt L2), true).

(* b.replacements[rindex] and slices.Delete(b.replacements, rindex, rindex+1) *)
Fixpoint take_nth {A} (i : nat) (l : list A) {struct l} : option (A * list A) :=
  match l, i with
  | [], _ => None
  | x :: r, O => Some (x, r)
  | x :: r, S j => match take_nth j r with Some (y, r') => Some (y, x :: r') | None => None end
  end.

(* Table.deleteInBucket; returns the promoted replacement *)
Definition delete_in_bucket (L : lst) (id rnd : N) : option (lst * option tnode) :=
  match find_first (has_id id) (entries (lb L)) with
  | None => Some (L, None)
  | Some n =>
      let L1 := remove_ip (set_entries L (remove_first (has_id id) (entries (lb L)))) (n_ip n) in
      (* nodeRemoved: panics when n.revalList == nil *)
      if n_rl n =? 0 then None
      else
        match repl (lb L1) with
        | [] => Some (L1, None)
        | _ :: _ =>
            let rindex := N.to_nat (rnd mod N.of_nat (length (repl (lb L1)))) in
            match take_nth rindex (repl (lb L1)) with
            | None => None
            | Some (rp, rest) =>
                let rp' := set_rl 1 rp in    (* nodeAdded: fast.push *)
                let b := lb L1 in
                Some (mkL (mkB (entries b ++ [rp']) rest (bips b)) (lt L1), Some rp')
            end
        end
  end.

(* tableRevalidation.handleResponse for the object with token tok, which is an entry of
   this bucket with a non-nil revalList (the caller has checked that) *)
Definition handle_response_l (L : lst) (n : tnode) (responded : bool)
    (newrec : option rec) (rnd : N) : option lst :=
  let tok := n_tok n in
  if negb responded then
    let c := n_checks n / 3 in
    let L1 := set_entries L (map_first (has_tok tok)
                (fun n => mkT (n_rec n) (n_tok n) (n_rl n) c (n_live n)) (entries (lb L))) in
    if c <=? 0 then
      match delete_in_bucket L1 (n_id n) rnd with
      | Some (L2, _) => Some L2
      | None => None
      end
    else
      Some (set_entries L1 (map_first (has_tok tok) (set_rl 1) (entries (lb L1))))
  else
    let c := (n_checks n + 1) mod 18446744073709551616 in
    let L1 := set_entries L (map_first (has_tok tok)
                (fun n => mkT (n_rec n) (n_tok n) (n_rl n) c true) (entries (lb L))) in
    let '(L2, changed) :=
      match newrec with
      | Some nr => let '(L2, _, ch) := bump_in_bucket L1 nr false in (L2, ch)
      | None => (L1, false)
      end in
    if changed then Some L2
    else Some (set_entries L2 (map_first (has_tok tok) (set_rl 2) (entries (lb L2)))).

(* ---------- whole-table wrappers ---------- *)

Fixpoint set_nth {A} (i : nat) (x : A) (l : list A) {struct l} : list A :=
  match l, i with
  | [], _ => []
  | _ :: r, O => x :: r
  | y :: r, S j => y :: set_nth j x r
  end.

(* Table.bucket(id): index of the bucket; tab.buckets[i] out of range = panic *)
Definition bucket_of (t : table) (id : N) : nat := bucket_index (logdist (self t) id).

Definition with_bucket {R} (t : table) (id : N) (f : lst -> option (lst * R)) : option (table * R) :=
  let i := bucket_of t id in
  match nth_error (buckets t) i with
  | None => None
  | Some b =>
      match f (mkL b (tips t)) with
      | None => None
      | Some (L', r) => Some (mkTab (self t) (set_nth i (lb L') (buckets t)) (lt L') (init_done t), r)
      end
  end.

(* Table.handleAddNode *)
Definition handle_add_node (t : table) (r : rec) (tok : N) (inbound force_live : bool)
  : option (table * bool) :=
  (* the self check precedes tab.bucket(); the bucket lookup of self's own id is index 0 *)
  with_bucket t (r_id r) (fun L => Some (handle_add_node_l (self t) (init_done t) L r tok inbound force_live)).

(* Table.deleteNode *)
Definition delete_node_op (t : table) (id rnd : N) : option (table * option tnode) :=
  with_bucket t id (fun L => delete_in_bucket L id rnd).

(* the object behind a *tableNode, wherever it is in the table *)
Definition find_tok (t : table) (tok : N) : option tnode :=
  find_first (has_tok tok) (flat_map (fun b => entries b ++ repl b) (buckets t)).

(* tableRevalidation.handleResponse *)
Definition handle_response (t : table) (tok : N) (responded : bool) (newrec : option rec) (rnd : N)
  : option table :=
  match find_tok t tok with
  | None => Some t                       (* object no longer in the table: revalList == nil *)
  | Some n =>
      if n_rl n =? 0 then Some t         (* a replacement: revalList == nil *)
      else
        match with_bucket t (n_id n)
                (fun L => match handle_response_l L n responded newrec rnd with
                          | Some L' => Some (L', tt) | None => None end) with
        | Some (t', _) => Some t'
        | None => None
        end
  end.

Fixpoint add_found (t : table) (found : list (rec * N)) : option table :=
  match found with
  | [] => Some t
  | (r, tok) :: rest =>
      match handle_add_node t r tok false false with
      | Some (t', _) => add_found t' rest
      | None => None
      end
  end.

(* Table.handleTrackRequest; prior = db.FindFails before the call; maxFindnodeFailures = 5 *)
Definition handle_track_request (t : table) (id : N) (success : bool) (prior : N)
    (found : list (rec * N)) (rnd : N) : option table :=
  let fails := if success then 0 else prior + 1 in
  match with_bucket t id (fun L =>
          if (5 <=? fails) && Nat.leb (Nat.div bucket_size 4) (length (entries (lb L)))
          then delete_in_bucket L id rnd else Some (L, None)) with
  | None => None
  | Some (t1, _) => add_found t1 found
  end.

Inductive op :=
| OInitDone
| OAdd (r : rec) (tok : N) (inbound force_live : bool)
| ODelete (id rnd : N)
| OReval (tok : N) (responded : bool) (newrec : option rec) (rnd : N)
| OTrack (id : N) (success : bool) (prior : N) (found : list (rec * N)) (rnd : N).

Definition step (t : table) (o : op) : option table :=
  match o with
  | OInitDone => Some (mkTab (self t) (buckets t) (tips t) true)
  | OAdd r tok inb fl => option_map fst (handle_add_node t r tok inb fl)
  | ODelete id rnd => option_map fst (delete_node_op t id rnd)
  | OReval tok resp nr rnd => handle_response t tok resp nr rnd
  | OTrack id s p f rnd => handle_track_request t id s p f rnd
  end.

Fixpoint run (t : table) (ops : list op) : option table :=
  match ops with
  | [] => Some t
  | o :: r => match step t o with Some t' => run t' r | None => None end
  end.

End Keyed.

(* the key function of the current code *)
#[global] Instance table_key : KeyFn := net_key.

(* ---------- findnodeByID ---------- *)

(* sort.Search(len, pred): smallest index with pred true, given that pred is monotone on
   the list (it is: the list is kept sorted by distance; proved in TableProofs) *)
Fixpoint search_first {A} (p : A -> bool) (l : list A) : nat :=
  match l with [] => O | x :: r => if p x then O else S (search_first p r) end.

Fixpoint insert_at {A} (i : nat) (x : A) (l : list A) : list A :=
  match i, l with
  | O, _ => x :: l
  | S j, y :: r => y :: insert_at j x r
  | S _, [] => [x]
  end.

(* nodesByDistance.push: the list keeps at most maxElems items.
   ix < end: insert at ix, dropping the last item if the list was already full;
   ix = end: append if not full, else drop n. *)
Definition nbd_push (target : N) (l : list rec) (n : rec) (max_elems : nat) : list rec :=
  let ix := search_first (fun e => dist_gt target (r_id e) (r_id n)) l in
  let e := length l in
  if Nat.ltb ix e then
    if Nat.ltb e max_elems then insert_at ix n l else insert_at ix n (removelast l)
  else
    if Nat.ltb e max_elems then l ++ [n] else l.

Definition all_entries (t : table) : list tnode := flat_map entries (buckets t).

(* Table.findnodeByID *)
Definition findnode (t : table) (target : N) (nresults : nat) (prefer_live : bool) : list rec :=
  let push_all := fold_left (fun acc n => nbd_push target acc (n_rec n) nresults) in
  let live := if prefer_live then push_all (filter n_live (all_entries t)) [] else [] in
  match live with
  | _ :: _ => live
  | [] => push_all (all_entries t) []
  end.
