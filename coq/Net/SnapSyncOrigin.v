(* Net/SnapSyncOrigin.v — the origin recorded in an outstanding account-range request IS the Next marker
   of the task it fills, at every moment of every sound history (model Net/SnapSync.v): Next moves only
   in forwardAccountTask, which needs a held response, and a task with an outstanding request holds none.
   Consequently the verifier's contract may be stated against the request's own origin
   ([trace_sound_o]) and implies the form used by Net/SnapSyncRanges.v ([trace_sound]). *)
From GV Require Import Lib.Tactics Net.SnapSync Net.SnapSyncProofs Net.SnapSyncRanges.
Local Open Scope N_scope.

Definition kacc (q : req) : bool := match q_kind q with KAcc => true | _ => false end.
Definition atasks (l : list req) : list N := map q_task (filter kacc l).

(* U2: an outstanding account request pins its task; U3: at most one per task *)
Definition U2 (reqs : list req) (ts : list atask) : Prop :=
  forall q, In q reqs -> kacc q = true -> forall t, In t ts -> t_last t = q_task q ->
    t_req t = true /\ t_res t = None /\ t_next t = q_origin q.
Definition U (s : syncer) : Prop := U2 (s_reqs s) (s_tasks s) /\ NoDup (atasks (s_reqs s)).

(* ---------------------------------------------------------------- a task that holds no response *)
Definition keeps (t t' : atask) : Prop :=
  t_last t' = t_last t /\
  (t_res t = None -> t_req t' = t_req t /\ t_res t' = None /\ t_next t' = t_next t).

Lemma keeps_refl t : keeps t t.
Proof. split; auto. Qed.
Lemma keeps_trans a b c : keeps a b -> keeps b c -> keeps a c.
Proof.
  intros [A1 A2] [B1 B2]. split; [congruence|]. intros H. destruct (A2 H) as (X1 & X2 & X3).
  destruct (B2 X2) as (Y1 & Y2 & Y3). repeat split; congruence.
Qed.
Lemma keeps_aux t subs cp pend nc ns ct stt : keeps t (set_aux t subs cp (t_req t) pend nc ns ct stt).
Proof. split; cbn [set_aux t_last t_req t_res t_next]; auto. Qed.

Lemma forward_keeps t db t' db' p : forward t db = (t', db', p) -> keeps t t'.
Proof.
  intros H. split.
  - destruct (forward_next _ _ _ _ _ H) as [E _]. exact E.
  - intros EN. unfold forward in H. rewrite EN in H. inversion H. subst. auto.
Qed.

Lemma revert_keeps q t db t' db' p : kacc q = false -> revert q t db = (t', db', p) -> keeps t t'.
Proof.
  unfold kacc, revert. destruct (q_kind q); [discriminate| |]; intros _ H.
  - inversion H. subst. apply keeps_aux.
  - destruct (q_sub q) as [[sa sl]|]; inversion H; subst; apply keeps_aux.
Qed.

Lemma revert_last q t db t' db' p : revert q t db = (t', db', p) -> t_last t' = t_last t.
Proof.
  unfold revert. destruct (q_kind q); [| |destruct (q_sub q) as [[sa sl]|]]; intros H; inversion H; reflexivity.
Qed.

Lemma process_bytecode_keeps t hashes codes db t' db' p :
  process_bytecode t hashes codes db = (t', db', p) -> keeps t t'.
Proof.
  unfold process_bytecode. destruct (t_res t) as [res|] eqn:ER.
  - destruct (process_codes _ _ _ _ _ _ _) as [[[nc pend] ct] d1].
    match goal with |- context [set_aux ?a ?b ?c ?d ?e ?f ?g ?h ?i] => set (t1 := set_aux a b c d e f g h i) end.
    assert (K1 : keeps t t1) by apply keeps_aux.
    destruct (pend =? 0)%Z; intros H.
    + eapply keeps_trans; [exact K1|eapply forward_keeps; exact H].
    + inversion H. subst. exact K1.
  - destruct (existsb _ codes); intros H; inversion H; subst; [apply keeps_refl|apply keeps_aux].
Qed.

Lemma storage_one_keeps c n i account root set s : keeps (sp_t s) (sp_t (storage_one c n i account root set s)).
Proof.
  unfold storage_one. destruct set as [slots|]; [|cbn [sp_t]; apply keeps_aux].
  destruct (t_res (sp_t s)) as [res|] eqn:ER; [|apply keeps_refl].
  (* a held response: nothing to keep beyond Last *)
  split; [|intros Q; congruence].
  destruct (find_idx account (r_items res) 0) as [[j acc]|]; [|reflexivity].
  destruct (nth_error (t_needState (sp_t s)) j) as [nsj|]; [|reflexivity].
  cbv zeta.
  assert (LA : forall sub b1 b2 b3 a0 j0, t_last (storage_A (sp_t s) sub b1 b2 b3 a0 j0) = t_last (sp_t s)).
  { intros. unfold storage_A. destruct (_ && _ && _); reflexivity. }
  destruct (storage_C _ _ _ _ _ _ _ _) as [[t2 sub2] p2] eqn:EC.
  assert (L2 : t_last t2 = t_last (sp_t s)).
  { unfold storage_C in EC. destruct (sp_sub s) as [sb|]; [inversion EC; subst; apply LA|].
    destruct (_ && _); [|inversion EC; subst; apply LA].
    destruct (get account _); [inversion EC; subst; apply LA|].
    destruct (make_chunks _ _ _); inversion EC; subst; cbn [set_aux t_last]; apply LA. }
  unfold storage_D. destruct sub2 as [[sa sl]|]; [|exact L2].
  cbv zeta. match goal with |- context [let '(f, p3) := ?X in _] => destruct X as [f p3] end.
  cbn [sp_t set_aux t_last]. exact L2.
Qed.

Lemma storage_loop_keeps c n : forall accounts sets i s, keeps (sp_t s) (sp_t (storage_loop c n i accounts sets s)).
Proof.
  induction accounts as [|[a r] ar IH]; intros sets i s; cbn [storage_loop]; [apply keeps_refl|].
  destruct sets as [|x sr]; (eapply keeps_trans; [apply storage_one_keeps|apply IH]).
Qed.

Lemma process_storage_keeps c t accounts sub sets cont db t' db' p :
  process_storage c t accounts sub sets cont db = (t', db', p) -> keeps t t'.
Proof.
  unfold process_storage.
  set (t0 := match sub with Some _ => _ | None => t end).
  assert (K0 : keeps t t0) by (unfold t0; destruct sub as [[sa sl]|]; [apply keeps_aux|apply keeps_refl]).
  set (s := storage_loop _ _ _ _ _ _).
  assert (K1 : keeps t (sp_t s)).
  { eapply keeps_trans; [exact K0|]. unfold s.
    match goal with |- keeps _ (sp_t (storage_loop ?cc ?n ?i ?a ?ss ?s0)) => exact (storage_loop_keeps cc n a ss i s0) end. }
  destruct (t_pend (sp_t s) =? 0)%Z.
  - destruct (forward (sp_t s) (sp_db s)) as [[t2 db2] p2] eqn:F. intros H. inversion H. subst.
    eapply keeps_trans; [exact K1|eapply forward_keeps; exact F].
  - intros H. inversion H. subst. exact K1.
Qed.

Lemma clean_subs_keeps subs : forall t db panic t' db' p, clean_subs subs t db panic = (t', db', p) -> keeps t t'.
Proof.
  induction subs as [|[account l] r IH]; intros t db panic t' db' p H; cbn [clean_subs] in H.
  - inversion H. subst. apply keeps_refl.
  - destruct (filter _ l) as [|x l'].
    + destruct (t_res t) as [res|] eqn:ER; [|eapply IH; exact H].
      match type of H with context [set_aux ?a ?b ?c ?d ?e ?f ?g ?h ?i] => set (t1 := set_aux a b c d e f g h i) in H end.
      assert (K1 : keeps t t1) by apply keeps_aux.
      destruct (t_pend t1 =? 0)%Z.
      * destruct (forward t1 db) as [[t2 db2] p2] eqn:F.
        eapply keeps_trans; [exact K1|]. eapply keeps_trans; [eapply forward_keeps; exact F|eapply IH; exact H].
      * eapply keeps_trans; [exact K1|eapply IH; exact H].
    + eapply keeps_trans; [|eapply IH; exact H]. apply keeps_aux.
Qed.

Lemma process_account_last t items cont db t' db' p : process_account t items cont db = (t', db', p) -> t_last t' = t_last t.
Proof.
  unfold process_account. destruct (cut_acc _ _ _) as [items' cont'].
  match goal with |- context [set_core ?x ?n ?r ?cp ?dn] => set (t1 := set_core x n r cp dn) end.
  destruct (_ =? 0)%Z.
  - destruct (forward t1 db) as [[t2 db2] p2] eqn:F. intros H. inversion H. subst.
    destruct (forward_next _ _ _ _ _ F) as [E _]. rewrite E. reflexivity.
  - intros H. inversion H. subst. reflexivity.
Qed.

(* ---------------------------------------------------------------- lists *)
(* the pointwise relation needed to carry U2 across an operation *)
Definition R2 (reqs' : list req) (t t' : atask) : Prop :=
  t_last t' = t_last t /\
  ((exists q, In q reqs' /\ kacc q = true /\ q_task q = t_last t) -> t_res t = None ->
   t_req t' = t_req t /\ t_res t' = None /\ t_next t' = t_next t).

Lemma keeps_R2 reqs' t t' : keeps t t' -> R2 reqs' t t'.
Proof. intros [A B]. split; [exact A|]. intros _. exact B. Qed.

Lemma U2_step reqs reqs' ts ts' :
  (forall q, In q reqs' -> kacc q = true -> In q reqs) ->
  Forall2 (R2 reqs') ts ts' -> U2 reqs ts -> U2 reqs' ts'.
Proof.
  intros HS F HU q Hq Kq t' Ht' EL.
  assert (EX : exists t, In t ts /\ R2 reqs' t t').
  { clear - F Ht'. induction F as [|x y l l' Rxy F IH]; [destruct Ht'|].
    destruct Ht' as [<-|Ht']; [exists x; split; [left; reflexivity|exact Rxy]|].
    destruct (IH Ht') as (t & I1 & I2). exists t. split; [right; exact I1|exact I2]. }
  destruct EX as (t & Ht & [RL RK]). rewrite RL in EL.
  destruct (HU q (HS q Hq Kq) Kq t Ht EL) as (A & B & C).
  destruct RK as (X1 & X2 & X3); [exists q; auto|exact B|]. repeat split; congruence.
Qed.

Lemma on_task_F2 (R : atask -> atask -> Prop) last f : (forall t, R t t) ->
  forall ts db ts' db' p,
  (forall t, In t ts -> t_last t = last -> forall d t' d' p0, f t d = (t', d', p0) -> R t t') ->
  on_task last f ts db = (ts', db', p) -> Forall2 R ts ts'.
Proof.
  intros RR. induction ts as [|t r IH]; intros db ts' db' p Hf H; cbn [on_task] in H.
  - inversion H. constructor.
  - destruct (t_last t =? last) eqn:EL.
    + apply N.eqb_eq in EL. destruct (f t db) as [[t1 d1] p1] eqn:F. inversion H. subst ts' db' p.
      constructor; [eapply (Hf t); eauto; left; reflexivity|]. clear - RR. induction r; constructor; auto.
    + destruct (on_task last f r db) as [[r1 d1] p1] eqn:M. inversion H. subst.
      constructor; [apply RR|]. eapply IH; [|exact M]. intros u Hu. apply Hf. right. exact Hu.
Qed.

Lemma map_tasks_F2 (R : atask -> atask -> Prop) f :
  (forall t db t' db' p, f t db = (t', db', p) -> R t t') ->
  forall ts db ts' db' p, map_tasks f ts db = (ts', db', p) -> Forall2 R ts ts'.
Proof.
  intros Hf. induction ts as [|t r IH]; intros db ts' db' p H; cbn [map_tasks] in H.
  - inversion H. constructor.
  - destruct (f t db) as [[t1 d1] p1] eqn:F. destruct (map_tasks f r d1) as [[r1 d2] p2] eqn:M.
    inversion H. subst. constructor; [eapply Hf; exact F|eapply IH; exact M].
Qed.

Lemma take_req_split id : forall l q rest, take_req id l = Some (q, rest) ->
  exists l1 l2, l = l1 ++ q :: l2 /\ rest = l1 ++ l2.
Proof.
  induction l as [|x r IH]; intros q rest H; cbn [take_req] in H; [discriminate|].
  destruct (q_id x =? id).
  - inversion H. subst. exists [], rest. auto.
  - destruct (take_req id r) as [[y r']|] eqn:E; [|discriminate]. inversion H. subst.
    destruct (IH _ _ eq_refl) as (l1 & l2 & -> & ->). exists (x :: l1), l2. auto.
Qed.

Lemma atasks_app a b : atasks (a ++ b) = atasks a ++ atasks b.
Proof. unfold atasks. rewrite filter_app, map_app. reflexivity. Qed.

Lemma NoDup_app_inv {A} (l1 l2 : list A) : NoDup (l1 ++ l2) ->
  NoDup l1 /\ NoDup l2 /\ forall x, In x l1 -> In x l2 -> False.
Proof.
  induction l1 as [|a r IH]; cbn [app]; intros H; [repeat split; [constructor|exact H|intros x []]|].
  inversion H as [|? ? N1 N2]. subst. destruct (IH N2) as (A1 & A2 & A3). repeat split; auto.
  - constructor; [intros Q; apply N1; apply in_or_app; left; exact Q|exact A1].
  - intros x [<-|Hx] Hx2; [apply N1; apply in_or_app; right; exact Hx2|eapply A3; eauto].
Qed.

Lemma NoDup_app_intro {A} (l1 l2 : list A) : NoDup l1 -> NoDup l2 -> (forall x, In x l1 -> In x l2 -> False) -> NoDup (l1 ++ l2).
Proof.
  induction l1 as [|a r IH]; cbn [app]; intros H1 H2 H3; [exact H2|].
  inversion H1 as [|? ? N1 N2]. subst. constructor.
  - intros Q. apply in_app_or in Q. destruct Q as [Q|Q]; [exact (N1 Q)|apply (H3 a); [left; reflexivity|exact Q]].
  - apply IH; auto. intros x Hx. apply H3. right. exact Hx.
Qed.

(* removing the delivered request *)
Lemma take_req_U id reqs q rest : take_req id reqs = Some (q, rest) -> NoDup (atasks reqs) ->
  (forall q', In q' rest -> In q' reqs) /\ NoDup (atasks rest) /\
  (kacc q = true -> forall q', In q' rest -> kacc q' = true -> q_task q' <> q_task q) /\ In q reqs.
Proof.
  intros H ND. destruct (take_req_split _ _ _ _ H) as (l1 & l2 & -> & ->).
  rewrite atasks_app in ND. unfold atasks at 2 in ND. cbn [filter] in ND.
  split; [intros q' Hq; apply in_app_or in Hq; apply in_or_app; destruct Hq; [left|right; right]; assumption|].
  split; [|split; [|apply in_or_app; right; left; reflexivity]].
  - rewrite atasks_app. destruct (kacc q); cbn [map] in ND.
    + destruct (NoDup_app_inv _ _ ND) as (A1 & A2 & A3). inversion A2. subst.
      apply NoDup_app_intro; auto. intros x Hx1 Hx2. apply (A3 x Hx1). right. exact Hx2.
    + exact ND.
  - intros K q' Hq K' E. rewrite K in ND. cbn [map] in ND.
    destruct (NoDup_app_inv _ _ ND) as (A1 & A2 & A3). inversion A2 as [|? ? N1 N2]. subst.
    apply in_app_or in Hq. destruct Hq as [Hq|Hq].
    + apply (A3 (q_task q)); [|left; reflexivity]. rewrite <- E. unfold atasks. apply in_map. apply filter_In. auto.
    + apply N1. rewrite <- E. apply in_map. apply filter_In. auto.
Qed.

Lemma handle_U c s e : U s -> U (handle c s e).
Proof.
  intros [HU HN]. unfold handle.
  (* one lemma for every branch that consumes request q and applies f to its task *)
  assert (GEN : forall id q rest f,
    take_req id (s_reqs s) = Some (q, rest) ->
    (forall t d t' d' p0, f t d = (t', d', p0) -> t_last t' = t_last t) ->
    (kacc q = false -> forall t d t' d' p0, f t d = (t', d', p0) -> keeps t t') ->
    U (with_tasks s rest (on_task (q_task q) f (s_tasks s) (s_db s)))).
  { intros id q rest f TR FL FK. destruct (take_req_U _ _ _ _ TR HN) as (S1 & S2 & S3 & S4).
    destruct (on_task _ _ _ _) as [[ts db] p] eqn:E. split; cbn [with_tasks s_reqs s_tasks]; [|exact S2].
    eapply U2_step; [| |exact HU]; [intros q' Hq _; apply S1; exact Hq|].
    eapply (on_task_F2 (R2 rest)); [intros t; apply keeps_R2; apply keeps_refl| |exact E].
    intros t Hin EL d t' d' p0 F. destruct (kacc q) eqn:K.
    - split; [eapply FL; exact F|]. intros (q' & Hq' & K' & E') _. exfalso. apply (S3 eq_refl q' Hq' K'). congruence.
    - apply keeps_R2. eapply FK; [reflexivity|exact F]. }
  assert (REV : forall id q rest, take_req id (s_reqs s) = Some (q, rest) ->
    U (with_tasks s rest (on_task (q_task q) (revert q) (s_tasks s) (s_db s)))).
  { intros id q rest TR. eapply GEN; [exact TR| |].
    - intros t d t' d' p0 F. eapply revert_last; exact F.
    - intros K t d t' d' p0 F. eapply revert_keeps; eauto. }
  destruct e as [id items hp ok more|id sets hp lm ok more|id codes|id|root| |]; try (split; assumption).
  - destruct (take_req id (s_reqs s)) as [[q rest]|] eqn:TR; [|split; assumption].
    destruct (q_kind q) eqn:EK; try (split; assumption).
    destruct (_ || negb ok); [eapply REV; exact TR|].
    eapply GEN; [exact TR| |].
    + intros t d t' d' p0 F. eapply process_account_last; exact F.
    + unfold kacc. rewrite EK. discriminate.
  - destruct (take_req id (s_reqs s)) as [[q rest]|] eqn:TR; [|split; assumption].
    destruct (q_kind q) eqn:EK; try (split; assumption).
    destruct (_ || negb ok); [eapply REV; exact TR|].
    eapply GEN; [exact TR| |].
    + intros t d t' d' p0 F. apply (proj1 (process_storage_keeps _ _ _ _ _ _ _ _ _ _ F)).
    + intros _ t d t' d' p0 F. eapply process_storage_keeps; exact F.
  - destruct (take_req id (s_reqs s)) as [[q rest]|] eqn:TR; [|split; assumption].
    destruct (q_kind q) eqn:EK; try (split; assumption).
    destruct codes as [|x l]; [eapply REV; exact TR|].
    destruct (match_codes (q_hashes q) (x :: l)) as [cs|]; [|eapply REV; exact TR].
    eapply GEN; [exact TR| |].
    + intros t d t' d' p0 F. apply (proj1 (process_bytecode_keeps _ _ _ _ _ _ _ F)).
    + intros _ t d t' d' p0 F. eapply process_bytecode_keeps; exact F.
  - destruct (take_req id (s_reqs s)) as [[q rest]|] eqn:TR; [eapply REV; exact TR|split; assumption].
Qed.

(* ---------------------------------------------------------------- the top of the run loop *)
Definition L (ts : list atask) : Prop := NoDup (map t_last ts).

Lemma F2_lasts (R : atask -> atask -> Prop) ts ts' :
  (forall t t', R t t' -> t_last t' = t_last t) -> Forall2 R ts ts' -> map t_last ts' = map t_last ts.
Proof. intros HR F. induction F as [|x y l l' Rxy F IH]; cbn [map]; [reflexivity|]. rewrite (HR _ _ Rxy), IH. reflexivity. Qed.

Lemma NoDup_map_filter {A} (g : A -> N) (f : A -> bool) l : NoDup (map g l) -> NoDup (map g (filter f l)).
Proof.
  induction l as [|x r IH]; cbn [map filter]; intros H; [constructor|]. inversion H as [|? ? N1 N2]. subst.
  destruct (f x); [|apply IH; exact N2]. cbn [map]. constructor; [|apply IH; exact N2].
  intros Q. apply N1. apply in_map_iff in Q. destruct Q as (y & E & Hy). apply filter_In in Hy.
  apply in_map_iff. exists y. tauto.
Qed.

Lemma last_inj ts : L ts -> forall a b, In a ts -> In b ts -> t_last a = t_last b -> a = b.
Proof.
  unfold L. induction ts as [|x r IH]; intros H a b Ha Hb E; [destruct Ha|]. cbn [map] in H.
  inversion H as [|? ? N1 N2]. subst. destruct Ha as [<-|Ha]; destruct Hb as [<-|Hb]; auto.
  - exfalso. apply N1. rewrite E. apply in_map. exact Hb.
  - exfalso. apply N1. rewrite <- E. apply in_map. exact Ha.
Qed.

Lemma U2_sub reqs ts ts' : (forall t, In t ts' -> In t ts) -> U2 reqs ts -> U2 reqs ts'.
Proof. intros HS HU q Hq K t Ht E. apply (HU q Hq K t (HS t Ht) E). Qed.

Definition acond (t : atask) : bool := negb (t_req t) && match t_res t with None => true | Some _ => false end.
Definition aset (t : atask) : atask :=
  if acond t then set_aux t (t_subs t) (t_completed t) true (t_pend t) (t_needCode t) (t_needState t) (t_codeTasks t) (t_stateTasks t)
  else t.

Lemma assign_acc_spec : forall ts id ts' qs id', assign_acc ts id = (ts', qs, id') ->
  ts' = map aset ts /\
  (forall q, In q qs -> kacc q = true /\ exists t, In t ts /\ acond t = true /\ q_task q = t_last t /\ q_origin q = t_next t) /\
  map q_task qs = map t_last (filter acond ts).
Proof.
  induction ts as [|t r IH]; intros id ts' qs id' H; cbn [assign_acc] in H.
  - inversion H. subst. split; [reflexivity|]. split; [intros q []|reflexivity].
  - cbn [map filter]. fold (acond t) in H. destruct (acond t) eqn:EC.
    + destruct (assign_acc r (id + 1)) as [[r1 q1] i1] eqn:E. inversion H. subst.
      destruct (IH _ _ _ _ E) as (A & B & C). split; [unfold aset at 1; rewrite EC; rewrite A; reflexivity|]. split.
      * intros q [<-|Hq].
        -- split; [reflexivity|]. exists t. cbn [mk_req q_task q_origin]. repeat split; auto. left. reflexivity.
        -- destruct (B q Hq) as (K & t0 & I0 & X). split; [exact K|]. exists t0. split; [right; exact I0|exact X].
      * cbn [map mk_req q_task]. rewrite C. reflexivity.
    + destruct (assign_acc r id) as [[r1 q1] i1] eqn:E. inversion H. subst.
      destruct (IH _ _ _ _ E) as (A & B & C). split; [unfold aset at 1; rewrite EC; rewrite A; reflexivity|]. split; [|exact C].
      intros q Hq. destruct (B q Hq) as (K & t0 & I0 & X). split; [exact K|]. exists t0. split; [right; exact I0|exact X].
Qed.

Lemma aset_last t : t_last (aset t) = t_last t.
Proof. unfold aset. destruct (acond t); reflexivity. Qed.

Lemma filter_all {A} (f : A -> bool) l : (forall x, In x l -> f x = true) -> filter f l = l.
Proof.
  induction l as [|x r IH]; intros H; cbn [filter]; [reflexivity|]. rewrite (H x (or_introl eq_refl)).
  rewrite IH; [reflexivity|]. intros y Hy. apply H. right. exact Hy.
Qed.
Lemma filter_none {A} (f : A -> bool) l : (forall x, In x l -> f x = false) -> filter f l = [].
Proof.
  induction l as [|x r IH]; intros H; cbn [filter]; [reflexivity|]. rewrite (H x (or_introl eq_refl)).
  apply IH. intros y Hy. apply H. right. exact Hy.
Qed.

Lemma assign_acc_U reqs ts id ts' qs id' :
  assign_acc ts id = (ts', qs, id') -> U2 reqs ts -> NoDup (atasks reqs) -> L ts ->
  U2 (reqs ++ qs) ts' /\ NoDup (atasks (reqs ++ qs)) /\ map t_last ts' = map t_last ts.
Proof.
  intros H HU HN HL. destruct (assign_acc_spec _ _ _ _ _ H) as (-> & QS & QM).
  split; [|split].
  - intros q Hq K t' Ht' EL. apply in_map_iff in Ht'. destruct Ht' as (t & <- & Ht). rewrite aset_last in EL.
    apply in_app_or in Hq. destruct Hq as [Hq|Hq].
    + destruct (HU q Hq K t Ht EL) as (A & B & C). unfold aset, acond. rewrite A. cbn [negb andb]. auto.
    + destruct (QS q Hq) as (_ & t0 & I0 & C0 & E1 & E2).
      assert (t = t0) by (apply (last_inj ts HL); auto; congruence). subst t0.
      unfold aset. rewrite C0. cbn [set_aux t_req t_res t_next]. split; [reflexivity|]. split; [|congruence].
      unfold acond in C0. apply andb_true_iff in C0. destruct C0 as [_ C0]. destruct (t_res t); [discriminate|reflexivity].
  - rewrite atasks_app. apply NoDup_app_intro; [exact HN| |].
    + unfold atasks. rewrite (filter_all kacc qs) by (intros q Hq; apply (QS q Hq)). rewrite QM.
      apply NoDup_map_filter. exact HL.
    + intros x H1 H2. unfold atasks in H1, H2. rewrite (filter_all kacc qs) in H2 by (intros q Hq; apply (QS q Hq)).
      rewrite QM in H2. apply in_map_iff in H1. destruct H1 as (q & <- & Hq). apply filter_In in Hq. destruct Hq as [Hq K].
      apply in_map_iff in H2. destruct H2 as (t & E & Ht). apply filter_In in Ht. destruct Ht as [Ht C0].
      destruct (HU q Hq K t Ht E) as (A & _). unfold acond in C0. rewrite A in C0. discriminate.
  - rewrite map_map. apply map_ext. intros t. apply aset_last.
Qed.

Lemma assign_code_keeps : forall ts id ts' qs id', assign_code ts id = (ts', qs, id') ->
  Forall2 keeps ts ts' /\ (forall q, In q qs -> kacc q = false).
Proof.
  induction ts as [|t r IH]; intros id ts' qs id' H; cbn [assign_code] in H.
  - inversion H. split; [constructor|intros q []].
  - destruct (t_res t) as [res|].
    + destruct (t_codeTasks t) as [|x l].
      * destruct (assign_code r id) as [[r1 q1] i1] eqn:E. inversion H. subst. destruct (IH _ _ _ _ E) as [A B].
        split; [constructor; [apply keeps_refl|exact A]|exact B].
      * destruct (assign_code r (id + 1)) as [[r1 q1] i1] eqn:E. inversion H. subst. destruct (IH _ _ _ _ E) as [A B].
        split; [constructor; [apply keeps_aux|exact A]|]. intros q [<-|Hq]; [reflexivity|apply B; exact Hq].
    + destruct (assign_code r id) as [[r1 q1] i1] eqn:E. inversion H. subst. destruct (IH _ _ _ _ E) as [A B].
      split; [constructor; [apply keeps_refl|exact A]|exact B].
Qed.

Lemma assign_chunks_kinds task account : forall l id l' q id', assign_chunks task account l id = (l', q, id') ->
  forall x, In x q -> kacc x = false.
Proof.
  induction l as [|st r IH]; intros id l' q id' H x Hx; cbn [assign_chunks] in H.
  - inversion H. subst. destruct Hx.
  - destruct (st_req st).
    + destruct (assign_chunks task account r id) as [[r1 q1] i1] eqn:E. inversion H. subst. eapply IH; eauto.
    + destruct (assign_chunks task account r (id + 1)) as [[r1 q1] i1] eqn:E. inversion H. subst.
      destruct Hx as [<-|Hx]; [reflexivity|eapply IH; eauto].
Qed.

Lemma assign_subs_kinds task active : forall subs id subs' q id', assign_subs task active subs id = (subs', q, id') ->
  forall x, In x q -> kacc x = false.
Proof.
  induction subs as [|[a l] r IH]; intros id subs' q id' H x Hx; cbn [assign_subs] in H.
  - inversion H. subst. destruct Hx.
  - destruct (active a).
    + destruct (assign_chunks task a l id) as [[l1 q1] id1] eqn:E1.
      destruct (assign_subs task active r id1) as [[r1 q2] id2] eqn:E2. inversion H. subst.
      apply in_app_or in Hx. destruct Hx as [Hx|Hx]; [eapply assign_chunks_kinds; eauto|eapply IH; eauto].
    + destruct (assign_subs task active r id) as [[r1 q2] id2] eqn:E2. inversion H. subst. eapply IH; eauto.
Qed.

Lemma assign_sto_keeps : forall ts id ts' qs id', assign_sto ts id = (ts', qs, id') ->
  Forall2 keeps ts ts' /\ (forall q, In q qs -> kacc q = false).
Proof.
  induction ts as [|t r IH]; intros id ts' qs id' H; cbn [assign_sto] in H.
  - inversion H. split; [constructor|intros q []].
  - destruct (t_res t) as [res|].
    + destruct (assign_subs _ _ _ _) as [[subs' q1] id1] eqn:ES.
      destruct (match t_stateTasks t with [] => _ | _ => _ end) as [[stt q2] id2] eqn:EQ.
      destruct (assign_sto r id2) as [[r1 q3] i3] eqn:E. inversion H. subst. destruct (IH _ _ _ _ E) as [A B].
      split; [constructor; [apply keeps_aux|exact A]|].
      intros q Hq. apply in_app_or in Hq. destruct Hq as [Hq|Hq]; [eapply assign_subs_kinds; eauto|].
      apply in_app_or in Hq. destruct Hq as [Hq|Hq]; [|apply B; exact Hq].
      destruct (t_stateTasks t); inversion EQ; subst; [destruct Hq|]. destruct Hq as [<-|[]]. reflexivity.
    + destruct (assign_sto r id) as [[r1 q1] i1] eqn:E. inversion H. subst. destruct (IH _ _ _ _ E) as [A B].
      split; [constructor; [apply keeps_refl|exact A]|exact B].
Qed.

Definition UL (s : syncer) : Prop := U s /\ L (s_tasks s).

Lemma keeps_F2_U reqs qs ts ts' :
  Forall2 keeps ts ts' -> (forall q, In q qs -> kacc q = false) ->
  U2 reqs ts -> NoDup (atasks reqs) -> L ts ->
  U2 (reqs ++ qs) ts' /\ NoDup (atasks (reqs ++ qs)) /\ L ts'.
Proof.
  intros F HQ HU HN HL. split; [|split].
  - eapply U2_step; [| |exact HU].
    + intros q Hq K. apply in_app_or in Hq. destruct Hq as [Hq|Hq]; [exact Hq|]. rewrite (HQ q Hq) in K. discriminate.
    + clear - F. induction F; constructor; auto. apply keeps_R2. assumption.
  - rewrite atasks_app. unfold atasks at 2. rewrite (filter_none kacc qs HQ). cbn [map]. rewrite app_nil_r. exact HN.
  - unfold L. rewrite (F2_lasts keeps ts ts'); [exact HL| |exact F]. intros t t' [E _]. exact E.
Qed.

Lemma assign_UL s : UL s -> UL (assign s).
Proof.
  intros [[HU HN] HL]. unfold assign.
  destruct (assign_acc (s_tasks s) (s_nextid s)) as [[ts1 q1] id1] eqn:E1.
  destruct (assign_code ts1 id1) as [[ts2 q2] id2] eqn:E2.
  destruct (assign_sto ts2 id2) as [[ts3 q3] id3] eqn:E3.
  destruct (assign_acc_U _ _ _ _ _ _ E1 HU HN HL) as (U1 & N1 & M1).
  assert (L1 : L ts1) by (unfold L; rewrite M1; exact HL).
  destruct (assign_code_keeps _ _ _ _ _ E2) as [F2 K2].
  destruct (keeps_F2_U _ _ _ _ F2 K2 U1 N1 L1) as (U2' & N2 & L2).
  destruct (assign_sto_keeps _ _ _ _ _ E3) as [F3 K3].
  destruct (keeps_F2_U _ _ _ _ F3 K3 U2' N2 L2) as (U3 & N3 & L3).
  split; [split|]; cbn [s_reqs s_tasks]; rewrite ?app_assoc in *; assumption.
Qed.

Lemma post_UL s : UL s -> UL (post s).
Proof.
  intros [[HU HN] HL]. unfold post. destruct (clean_storage (s_tasks s) (s_db s)) as [[ts db] p] eqn:E.
  apply assign_UL.
  match goal with |- UL (clean_accounts ?x) => set (s1 := x) end.
  destruct (clean_accounts_fields s1) as [F1 _].
  assert (F : Forall2 keeps (s_tasks s) ts).
  { unfold clean_storage in E. eapply (map_tasks_F2 keeps); [|exact E]. intros t d t' d' p0 H. eapply clean_subs_keeps; exact H. }
  destruct (keeps_F2_U (s_reqs s) [] _ _ F (fun q (Hq : In q []) => match Hq with end) HU HN HL) as (U1 & N1 & L1).
  rewrite app_nil_r in U1, N1.
  assert (RQ : s_reqs (clean_accounts s1) = s_reqs s).
  { unfold clean_accounts. destruct (s_tasks s1); reflexivity. }
  split; [split|]; rewrite ?RQ, ?F1; cbn [s1 s_tasks].
  - eapply U2_sub; [|exact U1]. intros t Ht. apply filter_In in Ht. tauto.
  - exact N1.
  - unfold L. apply NoDup_map_filter. exact L1.
Qed.

Lemma handle_UL c s e : UL s -> UL (handle c s e).
Proof.
  intros [HU HL]. split; [apply handle_U; exact HU|].
  (* the handlers never change a Last *)
  unfold handle.
  assert (GEN : forall q rest f,
    (forall t d t' d' p0, f t d = (t', d', p0) -> t_last t' = t_last t) ->
    L (s_tasks (with_tasks s rest (on_task (q_task q) f (s_tasks s) (s_db s))))).
  { intros q rest f FL. destruct (on_task _ _ _ _) as [[ts db] p] eqn:E. cbn [with_tasks s_tasks].
    unfold L. rewrite (F2_lasts (fun t t' => t_last t' = t_last t) (s_tasks s) ts); [exact HL|auto|].
    eapply on_task_F2; [reflexivity| |exact E]. intros t _ _ d t' d' p0 F. eapply FL; exact F. }
  assert (REV : forall q rest, L (s_tasks (with_tasks s rest (on_task (q_task q) (revert q) (s_tasks s) (s_db s)))))
    by (intros q rest; apply GEN; intros t d t' d' p0 F; eapply revert_last; exact F).
  destruct e as [id items hp ok more|id sets hp lm ok more|id codes|id|root| |]; try exact HL.
  - destruct (take_req id (s_reqs s)) as [[q rest]|]; [|exact HL]. destruct (q_kind q); try exact HL.
    destruct (_ || negb ok); [apply REV|]. apply GEN. intros t d t' d' p0 F. eapply process_account_last; exact F.
  - destruct (take_req id (s_reqs s)) as [[q rest]|]; [|exact HL]. destruct (q_kind q); try exact HL.
    destruct (_ || negb ok); [apply REV|]. apply GEN. intros t d t' d' p0 F. apply (proj1 (process_storage_keeps _ _ _ _ _ _ _ _ _ _ F)).
  - destruct (take_req id (s_reqs s)) as [[q rest]|]; [|exact HL]. destruct (q_kind q); try exact HL.
    destruct codes as [|x l]; [apply REV|]. destruct (match_codes (q_hashes q) (x :: l)) as [cs|]; [|apply REV].
    apply GEN. intros t d t' d' p0 F. apply (proj1 (process_bytecode_keeps _ _ _ _ _ _ _ F)).
  - destruct (take_req id (s_reqs s)) as [[q rest]|]; [apply REV|exact HL].
Qed.

(* shutdown forgets every request; what it saves keeps the Lasts *)
Lemma shutdown_L s : L (s_tasks s) -> L (s_tasks (shutdown s)) /\ s_reqs (shutdown s) = [] /\
  s_saved (shutdown s) = Some (map save_task (s_tasks (shutdown s))).
Proof.
  intros HL. unfold shutdown. destruct (map_tasks forward (s_tasks s) (s_db s)) as [[ts db] p] eqn:E.
  match goal with |- context [clean_accounts ?x] => set (s1 := x) end.
  destruct (clean_accounts_fields s1) as [F1 _]. cbn [s_tasks s_reqs s_saved]. split; [|auto].
  rewrite F1. cbn [s1 s_tasks]. unfold L. apply NoDup_map_filter.
  rewrite (F2_lasts keeps (s_tasks s) ts); [exact HL|intros t t' [X _]; exact X|].
  eapply (map_tasks_F2 keeps); [|exact E]. intros t d t' d' p0 H. eapply forward_keeps; exact H.
Qed.

Lemma start_UL c s root :
  (match s_saved s with Some ps => NoDup (map p_last ps) | None => L (init_tasks c) end) -> UL (start c s root).
Proof.
  intros H. unfold start. apply post_UL. split; [split|]; cbn [s_reqs s_tasks].
  - intros q [].
  - constructor.
  - destruct (s_saved s) as [ps|]; [|exact H]. unfold L. rewrite map_map. cbn [load_task t_last]. exact H.
Qed.

Lemma step_UL c s e : L (init_tasks c) -> UL s -> UL (step c s e).
Proof.
  intros LI H. unfold step. destruct e; try (apply post_UL; apply handle_UL; exact H).
  - destruct (shutdown_L s (proj2 H)) as (L1 & _ & S3). apply start_UL. rewrite S3.
    rewrite map_map. cbn [save_task p_last]. exact L1.
  - destruct (shutdown_L s (proj2 H)) as (L1 & R1 & _). split; [split|exact L1]; rewrite R1; [intros q []|constructor].
  - exact H.
Qed.

(* the initial chunks have distinct Lasts *)
Lemma ranges_nodup (tg : list (N * acct)) : forall ts lo, ranges_from lo ts -> Forall (W tg) ts -> all_live ts ->
  (forall t, In t ts -> lo <= t_last t) /\ NoDup (map t_last ts).
Proof.
  induction ts as [|t r IH]; intros lo HR HW AL; [split; [intros t []|constructor]|].
  cbn [ranges_from] in HR. destruct HR as (R1 & R2 & R3). inversion HW as [|? ? Wt Wr]. inversion AL as [|? ? Lt Lr]. subst.
  destruct (IH _ R3 Wr Lr) as [A B]. pose proof (w_live _ _ Wt Lt). specialize (R1 Lt). split.
  - intros u [<-|Hu]; [lia|]. pose proof (A u Hu). lia.
  - cbn [map]. constructor; [|exact B]. intros Q. apply in_map_iff in Q. destruct Q as (u & E & Hu).
    pose proof (A u Hu). lia.
Qed.

Lemma init_L c : 1 <= c_acc c <= HSPACE -> L (init_tasks c).
Proof.
  intros CO. destruct (init_ok [] (fun k a a' (H : In (k, a) []) => match H with end) c
                        (fun k a (H : In (k, a) []) => match H with end) CO) as (I1 & I2 & I3 & _).
  apply (proj2 (ranges_nodup [] _ _ I2 I1 I3)).
Qed.

(* q_origin = t_next at delivery, and more: over ALL histories (no hypothesis on the responses), every
   outstanding account-range request pins the task it fills - the task is marked as requested, holds no
   response, and its Next marker equals the request's origin; and no task has two outstanding account requests *)
Theorem origin_is_next c root evs :
  1 <= c_acc c <= HSPACE ->
  let s := run c root evs in
  (forall q, In q (s_reqs s) -> q_kind q = KAcc -> forall t, In t (s_tasks s) -> t_last t = q_task q ->
     t_req t = true /\ t_res t = None /\ t_next t = q_origin q) /\
  NoDup (map q_task (filter kacc (s_reqs s))).
Proof.
  intros CO. cbv zeta. unfold run.
  assert (G : forall evs0 s, UL s -> UL (fold_left (step c) evs0 s)).
  { induction evs0 as [|e r IH]; intros s H; cbn [fold_left]; [exact H|]. apply IH. apply step_UL; [apply init_L; exact CO|exact H]. }
  assert (U0 : UL (start c fresh root)) by (apply start_UL; cbn [fresh s_saved]; apply init_L; exact CO).
  destruct (G evs _ U0) as [[HU HN] _]. split; [|exact HN].
  intros q Hq K t Ht E. apply (HU q Hq); auto. unfold kacc. rewrite K. reflexivity.
Qed.

(* ---------------------------------------------------------------- the contract against the request's own origin *)
Definition ev_sound_o (tg : list (N * acct)) (s : syncer) (e : event) : Prop :=
  match e with
  | EAcc id items hp true more =>
      forall q rest, take_req id (s_reqs s) = Some (q, rest) -> q_kind q = KAcc ->
        acc_sound tg (q_origin q) items more
  | _ => True
  end.

Fixpoint trace_sound_o (tg : list (N * acct)) (c : config) (s : syncer) (evs : list event) : Prop :=
  match evs with
  | [] => True
  | e :: r => ev_sound_o tg s e /\ trace_sound_o tg c (step c s e) r
  end.

Lemma ev_sound_from_o tg s e : UL s -> ev_sound_o tg s e -> ev_sound tg s e.
Proof.
  intros [[HU _] _] H. destruct e as [id items hp ok more| | | | | |]; try exact I.
  destruct ok; [|exact I]. cbn [ev_sound ev_sound_o] in *.
  intros q rest t TR EK Hin EL. specialize (H q rest TR EK).
  destruct (take_req_split _ _ _ _ TR) as (l1 & l2 & E & _).
  assert (Hq : In q (s_reqs s)) by (rewrite E; apply in_or_app; right; left; reflexivity).
  assert (K : kacc q = true) by (unfold kacc; rewrite EK; reflexivity).
  destruct (HU q Hq K t Hin EL) as (_ & _ & EN). rewrite EN. exact H.
Qed.

(* the verifier's contract stated against the ORIGIN RECORDED IN THE REQUEST implies the form the range
   theorems use (against the task's Next marker), along every history *)
Theorem trace_sound_from_origin tg c root evs :
  1 <= c_acc c <= HSPACE ->
  trace_sound_o tg c (start c fresh root) evs -> trace_sound tg c (start c fresh root) evs.
Proof.
  intros CO.
  assert (G : forall evs0 s, UL s -> trace_sound_o tg c s evs0 -> trace_sound tg c s evs0).
  { induction evs0 as [|e r IH]; intros s H HT; cbn [trace_sound trace_sound_o] in *; [exact I|].
    destruct HT as [H1 H2]. split; [apply ev_sound_from_o; assumption|].
    apply IH; [apply step_UL; [apply init_L; exact CO|exact H]|exact H2]. }
  apply G. apply start_UL. cbn [fresh s_saved]. apply init_L. exact CO.
Qed.
