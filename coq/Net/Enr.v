(* Net/Enr.v — node records (EIP-778) as decoded and verified by
   /repo/p2p/enr/enr.go and /repo/p2p/enode/idscheme.go, on the C01 stream
   model (Rlp/Stream.v).  Definitions only; proofs are in Net/EnrProofs.v.

   What is modelled:  rlp.DecodeBytes(b, &enr.Record)  (Record.DecodeRLP ->
   decodeRecord), Record.EncodeRLP / Record.encode, Record.Load for entries of
   type string / []byte, Record.IdentityScheme, SchemeMap.Verify, V4ID.Verify,
   and the signature check of enode.New(enode.ValidSchemes, &r).
   Not modelled: the node-ID derivation of enode.New (V4ID.NodeAddr; it cannot
   fail after a successful V4ID.Verify because VerifySignature already
   decompressed the key), endpoint selection in newNodeWithID.

   Values of key/value pairs are rlp.RawValue: Stream.Raw() frames them
   (header + declared number of content bytes) WITHOUT validating the content,
   and without the "single byte < 0x80 must be encoded as itself" check that
   Stream.Bytes() performs — so e.g. the value bytes 81 05 are accepted. *)
From GV Require Import Lib.Bytes Rlp.Item Rlp.Raw Rlp.Codec Rlp.Stream.
Local Open Scope N_scope.

(* error classes: the rlp error (class of Rlp/Item.err) or one of enr.go's /
   idscheme.go's own errors *)
Inductive eerr : Type :=
| ERlp (e : err)
| ETooBig            (* enr.errTooBig *)
| EIncompleteList    (* enr.errIncompleteList *)
| EIncompletePair    (* enr.errIncompletePair *)
| EDuplicateKey      (* enr.errDuplicateKey *)
| ENotSorted         (* enr.errNotSorted *)
| EInvalidSig        (* enr.ErrInvalidSig (also: unknown identity scheme) *)
| EKey               (* *enr.KeyError from Record.Load (missing key or undecodable value) *)
| EInvalidPubkey     (* idscheme.go "invalid public key" (len != 33) *)
| EFuel.             (* model fuel exhausted; never a Go behaviour (EnrProofs.decode_no_fuel) *)

Definition eerr_code (e : eerr) : N :=
  match e with
  | ERlp e => err_code e
  | ETooBig => 101 | EIncompleteList => 102 | EIncompletePair => 103
  | EDuplicateKey => 104 | ENotSorted => 105 | EInvalidSig => 106
  | EKey => 107 | EInvalidPubkey => 108 | EFuel => 199
  end.

Inductive eres (A : Type) : Type :=
| EOk (a : A)
| EErr (e : eerr).
Arguments EOk {A} a.
Arguments EErr {A} e.

(* Go string comparison (bytewise lexicographic) *)
Fixpoint bytes_cmp (a b : list N) : comparison :=
  match a, b with
  | [], [] => Eq
  | [], _ :: _ => Lt
  | _ :: _, [] => Gt
  | x :: a', y :: b' => match x ?= y with Eq => bytes_cmp a' b' | c => c end
  end.
Definition bytes_eqb (a b : list N) : bool :=
  match bytes_cmp a b with Eq => true | _ => false end.
Definition bytes_ltb (a b : list N) : bool :=
  match bytes_cmp a b with Lt => true | _ => false end.

(* enr.Record: seq, signature, raw, pairs (k string, v rlp.RawValue) *)
Record record : Type := mkRec {
  r_sig : list N;
  r_seq : N;
  r_pairs : list (list N * list N);
  r_raw : list N
}.
Definition keys (r : record) : list (list N) := map fst (r_pairs r).

Definition SizeLimit : N := 300.

(* rlp/decode.go:689 Stream.Raw(): Kind(), then for a Byte the value itself,
   otherwise readFull of `size` content bytes with a fresh canonical header
   (puthead) put in front. *)
Definition raw_ (s : st) : result (list N * st) :=
  match kind_ s with
  | Err e => Err e
  | Ok (k, size, bv, s1) =>
      match k with
      | KByte => Ok ([bv], s1)
      | KString =>
          match read_full size s1 with
          | Err e => Err e
          | Ok (c, s2) => Ok (enc_head 128 183 size ++ c, s2)
          end
      | KList =>
          match read_full size s1 with
          | Err e => Err e
          | Ok (c, s2) => Ok (enc_head 192 247 size ++ c, s2)
          end
      end
  end.

(* enr.go:204-233, the loop over key/value pairs.  [prev] = None in the first
   iteration (i = 0), Some prevkey afterwards — the Go test is `i > 0`, so an
   EMPTY previous key is [Some []], not [None], and is compared like any other
   key.  The loop ends at rlp.EOL when
   reading a key.  Every iteration consumes at least two input bytes; fuel =
   length of the record + 1 is never exhausted. *)
Fixpoint pairs_ (fuel : nat) (prev : option (list N)) (s : st)
  : eres (list (list N * list N) * st) :=
  match fuel with
  | O => EErr EFuel
  | S f =>
      match byteslice_ s with                      (* s.Decode(&kv.k), k string *)
      | Err EOL => EOk ([], s)                     (* break *)
      | Err e => EErr (ERlp e)
      | Ok (k, s1) =>
          match raw_ s1 with                       (* s.Decode(&kv.v), v rlp.RawValue *)
          | Err EOL => EErr EIncompletePair
          | Err e => EErr (ERlp e)
          | Ok (v, s2) =>
              let continue :=
                match pairs_ f (Some k) s2 with
                | EErr e => EErr e
                | EOk (l, s3) => EOk ((k, v) :: l, s3)
                end in
              match prev with
              | None => continue
              | Some pk =>
                  if bytes_eqb k pk then EErr EDuplicateKey
                  else if bytes_ltb k pk then EErr ENotSorted
                  else continue
              end
          end
      end
  end.

(* enr.go:177 decodeRecord(s), followed by DecodeRLP's  r.raw = raw *)
Definition decode_record (s : st) : eres (record * st) :=
  match raw_ s with                                           (* raw, err = s.Raw() *)
  | Err e => EErr (ERlp e)
  | Ok (raw, s') =>
      if SizeLimit <? lenN raw then EErr ETooBig else
      (* s = rlp.NewStream(bytes.NewReader(raw), 0) *)
      match kind_ (init raw) with                             (* s.List() *)
      | Err e => EErr (ERlp e)
      | Ok (k, size, _, i1) =>
          match k with
          | KList =>
              let i2 := list_ size i1 in
              match byteslice_ i2 with                        (* s.Decode(&dec.signature) *)
              | Err EOL => EErr EIncompleteList
              | Err e => EErr (ERlp e)
              | Ok (sig, i3) =>
                  match uint_ 64 i3 with                      (* s.Decode(&dec.seq) *)
                  | Err EOL => EErr EIncompleteList
                  | Err e => EErr (ERlp e)
                  | Ok (seq, i4) =>
                      match pairs_ (S (length raw)) None i4 with
                      | EErr e => EErr e
                      | EOk (ps, i5) =>
                          match list_end i5 with              (* return ..., s.ListEnd() *)
                          | Err e => EErr (ERlp e)
                          | Ok _ => EOk (mkRec sig seq ps raw, s')
                          end
                      end
                  end
              end
          | _ => EErr (ERlp ErrExpectedList)
          end
      end
  end.

(* rlp.DecodeBytes(b, &record): decode one value, reject trailing bytes *)
Definition decode (b : list N) : eres record :=
  match decode_record (init b) with
  | EErr e => EErr e
  | EOk (r, s) =>
      match inp s with [] => EOk r | _ :: _ => EErr (ERlp ErrMoreThanOneValue) end
  end.

(* enr.go:140 Record.EncodeRLP: writes r.raw (signature present) *)
Definition encode_rlp (r : record) : list N := r_raw r.

(* the record's elements after the signature: seq, k1, v1, k2, v2, ...
   (Record.AppendElements; values are written verbatim as rlp.RawValue) *)
Definition content_enc (seq : N) (ps : list (list N * list N)) : list N :=
  enc_uint seq ++ flat_map (fun kv => enc_str (fst kv) ++ snd kv) ps.

(* enr.go:300 Record.encode(sig): rlp.EncodeToBytes([sig, seq, k, v, ...]) —
   the canonical encoding computed from the fields (the size check against
   SizeLimit is the caller-visible error errTooBig) *)
Definition encode_fields (sig : list N) (seq : N) (ps : list (list N * list N)) : list N :=
  let c := enc_str sig ++ content_enc seq ps in
  enc_head 192 247 (lenN c) ++ c.
Definition encode (r : record) : list N := encode_fields (r_sig r) (r_seq r) (r_pairs r).

(* what the v4 scheme signs: rlp.Encode(h, r.AppendElements(nil)) *)
Definition signed_content (r : record) : list N :=
  let c := content_enc (r_seq r) (r_pairs r) in
  enc_head 192 247 (lenN c) ++ c.

(* enr.go:104 Record.Load(e) for an entry whose Go type is string or []byte:
   sort.Search for the first pair with k >= key (on the sorted pair list this
   is the first such pair in order), key equality, then rlp.DecodeBytes(v, e).
   Both failure kinds are a *KeyError. *)
Fixpoint search (key : list N) (ps : list (list N * list N)) : option (list N * list N) :=
  match ps with
  | [] => None
  | (k, v) :: tl => if bytes_ltb k key then search key tl else Some (k, v)
  end.
Definition load_bytes (key : list N) (r : record) : eres (list N) :=
  match search key (r_pairs r) with
  | None => EErr EKey
  | Some (k, v) =>
      if bytes_eqb k key then
        match decode_bytes_with byteslice_ v with
        | Ok b => EOk b
        | Err _ => EErr EKey
        end
      else EErr EKey
  end.

Definition key_id : list N := [105; 100].                                  (* "id" *)
Definition key_secp256k1 : list N := [115; 101; 99; 112; 50; 53; 54; 107; 49].  (* "secp256k1" *)
Definition scheme_v4 : list N := [118; 52].                                (* "v4" *)

(* enr.go:237 Record.IdentityScheme: Load error ignored, "" then *)
Definition identity_scheme (r : record) : list N :=
  match load_bytes key_id r with EOk b => b | EErr _ => [] end.

Section Scheme.
  (* Keccak-256 and crypto.VerifySignature(pubkey, hash, sig): abstract *)
  Variable H : list N -> list N.
  Variable verify : list N -> list N -> list N -> bool.

  (* idscheme.go:68 V4ID.Verify(r, sig) *)
  Definition v4_verify (r : record) (sig : list N) : eres unit :=
    match load_bytes key_secp256k1 r with
    | EErr e => EErr e
    | EOk pk =>
        if lenN pk =? 33 then
          if verify pk (H (signed_content r)) sig then EOk tt else EErr EInvalidSig
        else EErr EInvalidPubkey
    end.

  (* enr.go:60 SchemeMap.Verify with enode.ValidSchemes = {"v4": V4ID{}} *)
  Definition scheme_verify (r : record) (sig : list N) : eres unit :=
    if bytes_eqb (identity_scheme r) scheme_v4 then v4_verify r sig else EErr EInvalidSig.

  (* enode/node.go:53 New(validSchemes, r), up to r.VerifySignature *)
  Definition new_node (r : record) : eres unit := scheme_verify r (r_sig r).

  (* a record is accepted: rlp.DecodeBytes succeeded and enode.New verified it *)
  Definition accept (b : list N) : eres record :=
    match decode b with
    | EErr e => EErr e
    | EOk r => match new_node r with EOk _ => EOk r | EErr e => EErr e end
    end.
End Scheme.

(* ---- specification vocabulary (used by the theorems; executable) ---- *)

(* keys strictly increasing (hence unique) in Go string order *)
Fixpoint sortedb (ks : list (list N)) : bool :=
  match ks with
  | k1 :: ((k2 :: _) as tl) => bytes_ltb k1 k2 && sortedb tl
  | _ => true
  end.

(* one framed RLP value, as Stream.Raw() delivers it: a single byte < 0x80, or
   a canonical string / list header followed by exactly the declared number
   of content bytes (the content itself is not inspected) *)
Definition raw_value (v : list N) : Prop :=
  (exists x, v = [x] /\ x < 128) \/
  (exists c, lenN c < 2 ^ 64 /\
             (v = enc_head 128 183 (lenN c) ++ c \/ v = enc_head 192 247 (lenN c) ++ c)).

(* field constraints of a record: seq is a uint64, every value is one framed
   RLP value *)
Definition rec_ok (r : record) : Prop :=
  r_seq r < 2 ^ 64 /\ Forall (fun kv => raw_value (snd kv)) (r_pairs r).
