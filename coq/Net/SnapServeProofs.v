(* Net/SnapServeProofs.v — lemmas about the snap serving model Net/SnapServe.v. *)
From GV Require Import Lib.Tactics Lib.Bytes Net.SnapServe.
From Coq Require Import Sorting.Sorted.
Local Open Scope N_scope.

(* ---------- well-formed flat state: keys strictly increasing, 32-byte hashes *)
Definition keys_sorted (l : list item) : Prop := StronglySorted N.lt (map fst l).
Definition keys_bounded (l : list item) : Prop := Forall (fun it => fst it <= max_hash) l.

Definition state_wf (st : state) : Prop :=
  keys_sorted (account_items st) /\
  forall a, In a (s_accounts st) -> keys_sorted (a_slots a) /\ keys_bounded (a_slots a).

(* ---------- generic list facts *)
Lemma total_size_app l1 l2 : total_size (l1 ++ l2) = total_size l1 + total_size l2.
Proof. induction l1 as [|x l1 IH]; unfold total_size in *; cbn [fold_right app] in *; lia. Qed.

Lemma total_size_cons x l : total_size (x :: l) = item_size x + total_size l.
Proof. reflexivity. Qed.

Lemma last_key_cons x y l : last_key (x :: y :: l) = last_key (y :: l).
Proof. reflexivity. Qed.

Lemma last_key_single x : last_key [x] = fst x.
Proof. reflexivity. Qed.

Lemma last_key_app_single l x : last_key (l ++ [x]) = fst x.
Proof.
  unfold last_key. rewrite map_app. cbn [map]. apply last_last.
Qed.

Lemma removelast_cons2 {A} (x y : A) l : removelast (x :: y :: l) = x :: removelast (y :: l).
Proof. reflexivity. Qed.

Lemma sorted_tail l x : keys_sorted (x :: l) -> keys_sorted l.
Proof. unfold keys_sorted. cbn [map]. intros H. inversion H; assumption. Qed.

Lemma sorted_head_lt l x : keys_sorted (x :: l) -> Forall (fun it => fst x < fst it) l.
Proof.
  unfold keys_sorted. cbn [map]. intros H. inversion H as [|? ? _ HF]; subst.
  rewrite Forall_map in HF. exact HF.
Qed.

Lemma sorted_app_r l1 l2 : keys_sorted (l1 ++ l2) -> keys_sorted l2.
Proof. induction l1 as [|x l1 IH]; [auto|]. intros H. apply IH. eapply sorted_tail. exact H. Qed.

Lemma sorted_app_l l1 l2 : keys_sorted (l1 ++ l2) -> keys_sorted l1.
Proof.
  induction l1 as [|x l1 IH]; intros H; [constructor|].
  pose proof (sorted_head_lt _ _ H) as HF. pose proof (sorted_tail _ _ H) as HT.
  unfold keys_sorted. cbn [map]. constructor; [apply IH; exact HT|].
  rewrite Forall_map. rewrite Forall_app in HF. tauto.
Qed.

Lemma sorted_app_lt l1 l2 :
  keys_sorted (l1 ++ l2) -> forall a b, In a l1 -> In b l2 -> fst a < fst b.
Proof.
  induction l1 as [|x l1 IH]; intros H a b Ha Hb; [destruct Ha|].
  destruct Ha as [->|Ha].
  - pose proof (sorted_head_lt _ _ H) as HF. rewrite Forall_forall in HF.
    apply HF. apply in_or_app. right. exact Hb.
  - eapply IH; eauto. eapply sorted_tail. exact H.
Qed.

(* in a sorted, bounded list only the last key can reach the bound *)
Lemma sorted_bounded_removelast l M :
  keys_sorted l -> Forall (fun it => fst it <= M) l ->
  Forall (fun it => fst it < M) (removelast l).
Proof.
  induction l as [|x l IH]; intros Hs Hb; [constructor|].
  destruct l as [|y l]; [constructor|].
  rewrite removelast_cons2. constructor.
  - pose proof (sorted_head_lt _ _ Hs) as HF. inversion HF as [|? ? Hxy _]; subst.
    inversion Hb as [|? ? _ Hb']; subst. inversion Hb' as [|? ? Hy _]; subst. lia.
  - apply IH; [eapply sorted_tail; eauto|]. inversion Hb; assumption.
Qed.

(* ---------- seek *)
Lemma seek_split origin l :
  exists pre, l = pre ++ seek origin l /\ Forall (fun it => fst it < origin) pre.
Proof.
  induction l as [|[k v] l IH].
  - exists []. split; [reflexivity|constructor].
  - cbn [seek]. destruct (k <? origin) eqn:E.
    + destruct IH as [pre [H1 H2]]. exists ((k, v) :: pre). split.
      * cbn [app]. f_equal. exact H1.
      * constructor; [cbn [fst]; lia|exact H2].
    + exists []. split; [reflexivity|constructor].
Qed.

Lemma seek_head origin l x r : seek origin l = x :: r -> origin <= fst x.
Proof.
  induction l as [|[k v] l IH]; cbn [seek]; [discriminate|].
  destruct (k <? origin) eqn:E; [exact IH|].
  intros H. inversion H; subst. cbn [fst]. lia.
Qed.

Lemma seek_sorted_ge origin l :
  keys_sorted l -> Forall (fun it => origin <= fst it) (seek origin l).
Proof.
  intros Hs. destruct (seek_split origin l) as [pre [H1 _]].
  destruct (seek origin l) as [|x r] eqn:E; [constructor|].
  pose proof (seek_head _ _ _ _ E) as Hx.
  rewrite H1 in Hs. apply sorted_app_r in Hs.
  constructor; [exact Hx|].
  pose proof (sorted_head_lt _ _ Hs) as HF.
  eapply Forall_impl; [|exact HF]. cbv beta. intros a Ha. lia.
Qed.

Lemma seek_zero l : seek 0 l = l.
Proof. destruct l as [|[k v] l]; [reflexivity|]. cbn [seek]. destruct (k <? 0) eqn:E; [lia|reflexivity]. Qed.

(* ---------- account_loop *)
Lemma account_loop_spec limit bytes its : forall size,
  exists rest,
    its = account_loop limit bytes size its ++ rest /\
    (its <> [] -> account_loop limit bytes size its <> []) /\
    (rest = [] \/
     limit <= last_key (account_loop limit bytes size its) \/
     bytes < size + total_size (account_loop limit bytes size its)) /\
    Forall (fun it => fst it < limit) (removelast (account_loop limit bytes size its)) /\
    (size <= bytes -> size + total_size (removelast (account_loop limit bytes size its)) <= bytes).
Proof.
  induction its as [|it rest IH]; intros size.
  - exists []. cbn [account_loop removelast total_size fold_right]. repeat split; auto; try lia; try congruence.
  - cbn [account_loop]. destruct (limit <=? fst it) eqn:E1.
    + exists rest. cbn [removelast total_size fold_right app]. repeat split; auto; try lia; try congruence.
      right. left. rewrite last_key_single. lia.
    + destruct (bytes <? size + item_size it) eqn:E2.
      * exists rest. cbn [removelast total_size fold_right app]. repeat split; auto; try lia; try congruence.
      * destruct (IH (size + item_size it)) as [r [H1 [H2 [H3 [H4 H5]]]]].
        exists r. set (out := account_loop limit bytes (size + item_size it) rest) in *.
        split; [cbn [app]; f_equal; exact H1|].
        split; [congruence|].
        destruct out as [|o1 out'] eqn:Eo.
        { (* rest was empty *)
          destruct rest as [|y rest'].
          - cbn [removelast total_size fold_right]. repeat split; auto; try lia.
          - exfalso. apply H2; [congruence|reflexivity]. }
        split.
        { destruct H3 as [H3|[H3|H3]]; [left; exact H3|right; left|right; right].
          - rewrite last_key_cons. exact H3.
          - rewrite total_size_cons. lia. }
        rewrite removelast_cons2. split.
        { constructor; [lia|exact H4]. }
        intros Hsz. rewrite total_size_cons. specialize (H5 ltac:(lia)). lia.
Qed.

(* key in [lo, hi] *)
Definition in_range (lo hi : N) (it : item) : bool := (lo <=? fst it) && (fst it <=? hi).

(* the served accounts are exactly the state's accounts with key in [origin, last] *)
Lemma segment_is_filter (before items after : list item) origin :
  keys_sorted (before ++ items ++ after) ->
  Forall (fun it => fst it < origin) before ->
  Forall (fun it => origin <= fst it) items ->
  items <> [] ->
  filter (in_range origin (last_key items)) (before ++ items ++ after) = items.
Proof.
  intros Hs Hb Hi Hne.
  rewrite filter_app.
  assert (H1 : filter (in_range origin (last_key items)) before = []).
  { clear Hs. induction before as [|x b IH]; [reflexivity|]. inversion Hb; subst.
    cbn [filter]. unfold in_range at 1. destruct (origin <=? fst x) eqn:E; [lia|]. cbn [andb]. apply IH. assumption. }
  rewrite H1. cbn [app]. apply sorted_app_r in Hs.
  destruct (exists_last Hne) as [pre [lst Hpl]]. subst items.
  rewrite last_key_app_single. rewrite filter_app.
  assert (H2 : filter (in_range origin (fst lst)) after = []).
  { assert (HA : forall b, In b after -> fst lst < fst b).
    { intros b Hb'. eapply sorted_app_lt; [exact Hs| |exact Hb']. apply in_or_app. right. left. reflexivity. }
    clear - HA. induction after as [|x a IH]; [reflexivity|].
    cbn [filter]. pose proof (HA x (or_introl eq_refl)). unfold in_range at 1.
    destruct (fst x <=? fst lst) eqn:E; [lia|]. rewrite andb_false_r. apply IH. intros b Hb. apply HA. right. exact Hb. }
  rewrite H2, app_nil_r.
  assert (HP : forall b, In b (pre ++ [lst]) -> origin <= fst b /\ fst b <= fst lst).
  { intros b Hb'. split.
    - rewrite Forall_forall in Hi. apply Hi. exact Hb'.
    - apply in_app_or in Hb'. destruct Hb' as [Hb'|[->|[]]]; [|lia].
      assert (Hs' : keys_sorted (pre ++ [lst])) by (eapply sorted_app_l; exact Hs).
      pose proof (sorted_app_lt _ _ Hs' b lst Hb' (or_introl eq_refl)). lia. }
  clear - HP. induction (pre ++ [lst]) as [|x l IH]; [reflexivity|].
  cbn [filter]. destruct (HP x (or_introl eq_refl)) as [Ha Hb]. unfold in_range at 1.
  destruct (origin <=? fst x) eqn:E1; [|lia]. destruct (fst x <=? fst lst) eqn:E2; [|lia].
  cbn [andb]. f_equal. apply IH. intros b Hb'. apply HP. right. exact Hb'.
Qed.

Theorem served_is_contiguous_prefix : forall st origin limit bytes items pk,
  keys_sorted (account_items st) ->
  serve_account_range st (s_root st) origin limit bytes = (items, pk) ->
  exists before after,
    account_items st = before ++ items ++ after /\
    Forall (fun it => fst it < origin) before /\
    Forall (fun it => origin <= fst it) items /\
    (items <> [] ->
     items = filter (in_range origin (last_key items)) (account_items st)) /\
    (items = [] -> forall it, In it (account_items st) -> fst it < origin) /\
    (after = [] \/ limit <= last_key items \/ cap_bytes bytes < total_size items) /\
    Forall (fun it => fst it < limit) (removelast items).
Proof.
  intros st origin limit bytes items pk Hs H.
  unfold serve_account_range in H. rewrite N.eqb_refl in H. cbn [negb] in H.
  inversion H; subst; clear H.
  destruct (seek_split origin (account_items st)) as [pre [Hp1 Hp2]].
  destruct (account_loop_spec limit (cap_bytes bytes) (seek origin (account_items st)) 0)
    as [rest [H1 [H2 [H3 [H4 _]]]]].
  set (items := account_loop limit (cap_bytes bytes) 0 (seek origin (account_items st))) in *.
  pose proof (seek_sorted_ge origin _ Hs) as Hge.
  assert (Hgi : Forall (fun it => origin <= fst it) items).
  { rewrite H1 in Hge. rewrite Forall_app in Hge. tauto. }
  exists pre, rest.
  assert (Hdec : account_items st = pre ++ items ++ rest).
  { rewrite Hp1 at 1. f_equal. exact H1. }
  split; [exact Hdec|]. split; [exact Hp2|]. split; [exact Hgi|].
  split.
  { intros Hne. symmetry. pose proof Hs as Hs2. rewrite Hdec in Hs2. rewrite Hdec. apply segment_is_filter; auto. }
  split.
  { intros He it Hin.
    assert (Hsk : seek origin (account_items st) = []).
    { destruct (seek origin (account_items st)); [reflexivity|]. exfalso. apply H2; [congruence|exact He]. }
    rewrite Hsk, app_nil_r in Hp1. rewrite Forall_forall in Hp2. apply Hp2. rewrite <- Hp1. exact Hin. }
  split; [|exact H4].
  destruct H3 as [H3|[H3|H3]]; [left; exact H3|right; left; exact H3|right; right; lia].
Qed.

Theorem account_budget_respected_beyond_first : forall st root origin limit bytes items pk,
  serve_account_range st root origin limit bytes = (items, pk) ->
  total_size (removelast items) <= cap_bytes bytes.
Proof.
  intros st root origin limit bytes items pk H. unfold serve_account_range in H.
  destruct (negb (root =? s_root st)).
  - inversion H; subst. cbn. lia.
  - inversion H; subst; clear H.
    destruct (account_loop_spec limit (cap_bytes bytes) (seek origin (account_items st)) 0)
      as [rest [_ [_ [_ [_ H5]]]]]. specialize (H5 ltac:(lia)). lia.
Qed.

(* the account handler always attaches the edge proofs: for the origin and for
   the last returned key (one Prove call when the last key is common.Hash{}) *)
Theorem account_proof_always : forall st origin limit bytes items pk,
  serve_account_range st (s_root st) origin limit bytes = (items, pk) ->
  pk = proof_keys origin items /\ pk <> [] /\
  (items <> [] -> last_key items <> 0 -> pk = [origin; last_key items]).
Proof.
  intros st origin limit bytes items pk H. unfold serve_account_range in H.
  rewrite N.eqb_refl in H. cbn [negb] in H. inversion H; subst; clear H.
  split; [reflexivity|]. split; [unfold proof_keys; congruence|].
  intros _ Hl. unfold proof_keys. destruct (last_key _ =? 0) eqn:E; [lia|reflexivity].
Qed.

(* ---------- slot_loop *)
Lemma slot_loop_spec legacy limit hard its : forall size r s a,
  slot_loop legacy limit hard size its = (r, s, a) ->
  exists rest,
    its = r ++ rest /\ s = size + total_size r /\
    (a = true -> rest <> [] /\ (r = [] -> hard <= size)) /\
    (a = false -> rest = [] \/ (legacy = true /\ r <> [] /\ limit <= last_key r)) /\
    Forall (fun it => fst it < limit) (removelast r) /\
    (forall pre x post, r = pre ++ x :: post -> size + total_size pre < hard).
Proof.
  induction its as [|it rest IH]; intros size r s a H.
  - cbn [slot_loop] in H. inversion H; subst. exists []. cbn. repeat split; auto; try lia; try discriminate.
    intros pre x post Hp. destruct pre; discriminate.
  - cbn [slot_loop] in H. destruct (hard <=? size) eqn:E0.
    + inversion H; subst. exists (it :: rest). cbn [app total_size fold_right removelast].
      repeat split; auto; try lia; try discriminate.
      intros pre x post Hp. destruct pre; discriminate.
    + destruct (limit <=? fst it) eqn:E1.
      * inversion H; subst. exists rest. cbn [app removelast].
        split; [reflexivity|]. split; [unfold total_size; cbn [fold_right]; lia|].
        split.
        { intros Ha. split; [|discriminate]. destruct legacy; [discriminate|]. destruct rest; [discriminate|discriminate]. }
        split.
        { intros Ha. destruct legacy.
          - right. split; [reflexivity|]. split; [discriminate|]. rewrite last_key_single. lia.
          - left. destruct rest; [reflexivity|discriminate]. }
        split; [constructor|].
        intros pre x post Hp. destruct pre as [|p pre].
        { cbn [total_size fold_right]. lia. }
        { inversion Hp. destruct pre; discriminate. }
      * destruct (slot_loop legacy limit hard (size + item_size it) rest) as [[r' s'] a'] eqn:ER.
        inversion H; subst. destruct (IH _ _ _ _ ER) as [rs [H1 [H2 [H3 [H4 [H5 H6]]]]]].
        exists rs. split; [cbn [app]; f_equal; exact H1|].
        split; [rewrite total_size_cons; lia|].
        split.
        { intros Ha. destruct (H3 Ha) as [Hr _]. split; [exact Hr|discriminate]. }
        split.
        { intros Ha. destruct (H4 Ha) as [Hr|[Hl [Hr1 Hr2]]]; [left; exact Hr|].
          right. split; [exact Hl|]. split; [discriminate|]. destruct r' as [|y r'']; [congruence|]. rewrite last_key_cons. exact Hr2. }
        split.
        { destruct r' as [|y r'']; [constructor|]. rewrite removelast_cons2. constructor; [lia|exact H5]. }
        intros pre x post Hp. destruct pre as [|p pre].
        { cbn [total_size fold_right]. lia. }
        { inversion Hp; subst. rewrite total_size_cons. specialize (H6 _ _ _ eq_refl). lia. }
Qed.

(* current code: not aborted => the whole remaining storage was returned *)
Lemma slot_loop_complete limit hard its size r s :
  slot_loop false limit hard size its = (r, s, false) -> r = its.
Proof.
  intros H. destruct (slot_loop_spec _ _ _ _ _ _ _ _ H) as [rest [H1 [_ [_ [H4 _]]]]].
  destruct (H4 eq_refl) as [->|[Hl _]]; [|discriminate]. rewrite app_nil_r in H1. auto.
Qed.

(* ---------- storage_loop: shape of the response *)
Definition req_origin (ob : list N) : N := if nonempty ob then bytes_to_hash ob else 0.
Definition req_limit (lb : list N) : N := if nonempty lb then bytes_to_hash lb else max_hash.

(* the non-empty complete storages of a list of accounts *)
Definition full_lists (st : state) (accts : list N) : list (list item) :=
  filter nonempty (map (storage_items st) accts).

Definition opt_list (l : list item) : list (list item) := if nonempty l then [l] else [].

Definition storage_wf (st : state) : Prop :=
  forall a, keys_sorted (storage_items st a) /\ keys_bounded (storage_items st a).

Lemma state_wf_storage st : state_wf st -> storage_wf st.
Proof.
  intros [_ H] a. unfold storage_items.
  assert (HF : forall l, (forall x, In x l -> In x (s_accounts st)) ->
               match find_account l a with
               | Some x => In x (s_accounts st)
               | None => True
               end).
  { induction l as [|x l IH]; intros Hl; cbn [find_account]; [exact I|].
    destruct (a_hash x =? a); [apply Hl; left; reflexivity|apply IH; intros y Hy; apply Hl; right; exact Hy]. }
  specialize (HF (s_accounts st) (fun x Hx => Hx)).
  destruct (find_account (s_accounts st) a) as [x|]; [apply H; exact HF|].
  split; constructor.
Qed.

(* what the response looks like *)
Definition shape_of (st : state) (accounts : list N) (o : N)
    (new : list (list item)) (pr : option (N * list N)) : Prop :=
  exists done tail, accounts = done ++ tail /\
    match pr with
    | None => new = full_lists st done
    | Some (a, ks) =>
        exists pre part rest,
          done = pre ++ [a] /\
          new = full_lists st pre ++ opt_list part /\
          let o' := match pre with [] => o | _ => 0 end in
          seek o' (storage_items st a) = part ++ rest /\
          ks = proof_keys o' part /\
          (o' <> 0 \/ rest <> []) /\
          find_account (s_accounts st) a <> None
    end.

Lemma storage_loop_shape st :
  forall accounts ob lb bytes hard size acc slots pr,
    bytes <= hard ->
    storage_loop false st (s_root st) accounts ob lb bytes hard size acc = (slots, pr) ->
    (slots = [] /\ pr = None) \/
    exists new, slots = acc ++ new /\ shape_of st accounts (req_origin ob) new pr.
Proof.
  induction accounts as [|a rest IH]; intros ob lb bytes hard size acc slots pr Hhard H.
  - cbn [storage_loop] in H. inversion H; subst. right. exists []. split; [symmetry; apply app_nil_r|].
    exists [], []. split; reflexivity.
  - cbn [storage_loop] in H. destruct (bytes <=? size) eqn:Eb.
    { inversion H; subst. right. exists []. split; [symmetry; apply app_nil_r|].
      exists [], (a :: rest). split; reflexivity. }
    rewrite N.eqb_refl in H. cbn [negb] in H.
    fold (req_origin ob) in H. fold (req_limit lb) in H.
    set (o := req_origin ob) in *. set (lim := req_limit lb) in *.
    destruct (slot_loop false lim hard size (seek o (storage_items st a))) as [[storage size'] abort] eqn:ES.
    destruct (slot_loop_spec _ _ _ _ _ _ _ _ ES) as [rs [S1 [S2 [S3 [S4 [S5 S6]]]]]].
    fold (opt_list storage) in H.
    assert (Hacc' : (if nonempty storage then acc ++ [storage] else acc) = acc ++ opt_list storage).
    { unfold opt_list. destruct (nonempty storage); [reflexivity|symmetry; apply app_nil_r]. }
    rewrite Hacc' in H. clear Hacc'.
    destruct (negb (o =? 0) || (abort && nonempty storage)) eqn:EC.
    + destruct (find_account (s_accounts st) a) as [ac|] eqn:EF.
      * inversion H; subst. right. exists (opt_list storage). split; [reflexivity|].
        exists [a], rest. split; [reflexivity|].
        exists [], storage, rs. cbn [app full_lists map filter].
        split; [reflexivity|]. split; [reflexivity|]. split; [exact S1|]. split; [reflexivity|].
        split; [|congruence].
        destruct (o =? 0) eqn:Eo; [|left; lia].
        cbn [negb orb] in EC. destruct abort; [|discriminate]. right. apply S3. reflexivity.
      * inversion H; subst. left. split; reflexivity.
    + (* origin zero, not aborted with data: complete storage, continue *)
      apply orb_false_iff in EC. destruct EC as [Eo Ea].
      assert (Ho : o = 0) by (destruct (o =? 0) eqn:E; [lia|discriminate]).
      assert (Hab : abort = false).
      { destruct abort; [|reflexivity]. cbn [andb] in Ea.
        destruct storage; [|discriminate]. destruct (S3 eq_refl) as [_ Hh]. specialize (Hh eq_refl). lia. }
      subst abort.
      assert (Hfull : storage = storage_items st a).
      { rewrite Ho, seek_zero in ES. eapply slot_loop_complete. exact ES. }
      destruct (IH [] [] bytes hard size' (acc ++ opt_list storage) slots pr Hhard H)
        as [Hd|[new [Hn1 [done [tail [Hn2 Hn3]]]]]]; [left; exact Hd|].
      right. exists (opt_list storage ++ new). split; [rewrite Hn1; symmetry; apply app_assoc|].
      exists (a :: done), tail. split; [cbn [app]; f_equal; exact Hn2|].
      destruct pr as [[pa ks]|].
      * destruct Hn3 as [pre [part [rst [P1 [P2 [P3 [P4 [P5 P6]]]]]]]].
        exists (a :: pre), part, rst. split; [cbn [app]; f_equal; exact P1|].
        split.
        { rewrite P2. unfold full_lists. cbn [map filter]. rewrite <- Hfull. unfold opt_list.
          destruct (nonempty storage); reflexivity. }
        cbv zeta. cbv zeta in P3, P4, P5.
        assert (Hz : match pre with [] => req_origin [] | _ => 0 end = 0) by (destruct pre; reflexivity).
        rewrite Hz in P3, P4, P5. repeat split; assumption.
      * rewrite Hn3. unfold full_lists. cbn [map filter]. rewrite <- Hfull. unfold opt_list.
        destruct (nonempty storage); reflexivity.
Qed.

(* ---------- storage_loop: byte budget *)
Lemma app_split_mid {A} (l1 l2 pre post : list A) x :
  l1 ++ l2 = pre ++ x :: post ->
  (exists post1, l1 = pre ++ x :: post1) \/
  (exists pre2, pre = l1 ++ pre2 /\ l2 = pre2 ++ x :: post).
Proof.
  revert pre. induction l1 as [|y l1 IH]; intros pre H.
  - right. exists pre. split; [reflexivity|exact H].
  - destruct pre as [|p pre].
    + left. cbn [app] in H. inversion H; subst. exists l1. reflexivity.
    + cbn [app] in H. inversion H; subst. destruct (IH _ H2) as [[post1 E]|[pre2 [E1 E2]]].
      * left. exists post1. cbn [app]. f_equal. exact E.
      * right. exists pre2. split; [cbn [app]; f_equal; exact E1|exact E2].
Qed.

(* every served slot was appended while the running size was below the hard
   limit, and every account was opened while it was below the soft limit *)
Definition budget_ok (bytes hard size : N) (new : list (list item)) : Prop :=
  (forall pre x post, concat new = pre ++ x :: post -> size + total_size pre < hard) /\
  (forall l1 l l2, new = l1 ++ l :: l2 -> size + total_size (concat l1) < bytes).

Lemma storage_loop_budget legacy st root :
  forall accounts ob lb bytes hard size acc slots pr,
    storage_loop legacy st root accounts ob lb bytes hard size acc = (slots, pr) ->
    (slots = [] /\ pr = None) \/
    exists new, slots = acc ++ new /\ budget_ok bytes hard size new.
Proof.
  assert (Hnil : forall bytes hard size, budget_ok bytes hard size []).
  { intros. split; intros; [destruct pre|destruct l1]; discriminate. }
  induction accounts as [|a rest IH]; intros ob lb bytes hard size acc slots pr H.
  - cbn [storage_loop] in H. inversion H; subst. right. exists []. split; [symmetry; apply app_nil_r|apply Hnil].
  - cbn [storage_loop] in H. destruct (bytes <=? size) eqn:Eb.
    { inversion H; subst. right. exists []. split; [symmetry; apply app_nil_r|apply Hnil]. }
    destruct (negb (root =? s_root st)); [inversion H; subst; left; split; reflexivity|].
    set (o := if nonempty ob then bytes_to_hash ob else 0) in *.
    set (lim := if nonempty lb then bytes_to_hash lb else max_hash) in *.
    destruct (slot_loop legacy lim hard size (seek o (storage_items st a))) as [[storage size'] abort] eqn:ES.
    destruct (slot_loop_spec _ _ _ _ _ _ _ _ ES) as [rs [S1 [S2 [S3 [S4 [S5 S6]]]]]].
    fold (opt_list storage) in H.
    assert (Hacc' : (if nonempty storage then acc ++ [storage] else acc) = acc ++ opt_list storage).
    { unfold opt_list. destruct (nonempty storage); [reflexivity|symmetry; apply app_nil_r]. }
    rewrite Hacc' in H. clear Hacc'.
    assert (Hone : budget_ok bytes hard size (opt_list storage)).
    { unfold opt_list. destruct storage as [|s0 storage']; [apply Hnil|]. cbn [nonempty]. split.
      - cbn [concat]. rewrite app_nil_r. exact S6.
      - intros l1 l l2 E. destruct l1 as [|? l1]; [cbn [concat total_size fold_right]; lia|].
        inversion E. destruct l1; discriminate. }
    destruct (negb (o =? 0) || (abort && nonempty storage)).
    + destruct (find_account (s_accounts st) a).
      * inversion H; subst. right. exists (opt_list storage). split; [reflexivity|exact Hone].
      * inversion H; subst. left. split; reflexivity.
    + destruct (IH _ _ _ _ _ _ _ _ H) as [Hd|[new [Hn1 [Hb1 Hb2]]]]; [left; exact Hd|].
      right. exists (opt_list storage ++ new). split; [rewrite Hn1; symmetry; apply app_assoc|].
      assert (Hc : concat (opt_list storage) = storage).
      { unfold opt_list. destruct storage; [reflexivity|]. cbn [nonempty concat]. apply app_nil_r. }
      split.
      * intros pre x post E. rewrite concat_app, Hc in E.
        destruct (app_split_mid _ _ _ _ _ E) as [[post1 E1]|[pre2 [E1 E2]]].
        { eapply S6. exact E1. }
        { subst pre. rewrite total_size_app. specialize (Hb1 _ _ _ E2). lia. }
      * intros l1 l l2 E. unfold opt_list in E. destruct storage as [|s0 storage'].
        { cbn [nonempty app] in E. specialize (Hb2 _ _ _ E).
          cbn [total_size fold_right] in S2. lia. }
        { cbn [nonempty app] in E. destruct l1 as [|l0 l1].
          - cbn [concat total_size fold_right]. lia.
          - cbn [app] in E. inversion E; subst. specialize (Hb2 _ _ _ eq_refl).
            cbn [concat]. rewrite total_size_app. lia. }
Qed.

(* ---------- hardLimit >= req.Bytes (the float product never rounds below) *)
Lemma hard_limit_ge b : b <= soft_response_limit -> b <= hard_limit b.
Proof.
  intros Hb. unfold hard_limit, f64_1_1_mant.
  set (m := 4953959590107546). set (p := b * m).
  destruct (N.size p <=? 53) eqn:Ek.
  - rewrite N.shiftr_div_pow2. apply N.div_le_lower_bound; [discriminate|].
    change (2 ^ 52) with 4503599627370496. subst p m. lia.
  - set (s := N.size p - 53).
    assert (Hk : N.size p = s + 53) by (subst s; lia).
    pose proof (N.size_le p) as Hle. rewrite Hk, N.pow_add_r in Hle.
    rewrite N.succ_double_spec in Hle.
    change (2 ^ 53) with 9007199254740992 in Hle.
    set (S := 2 ^ s) in *.
    assert (HS : 0 < S) by (subst S; apply N.neq_0_lt_0, N.pow_nonzero; discriminate).
    rewrite !N.shiftr_div_pow2, !N.shiftl_mul_pow2. fold S.
    pose proof (N.div_mod p S ltac:(lia)) as Hdm.
    pose proof (N.mod_lt p S ltac:(lia)) as Hml.
    set (q := p / S) in *. set (r := p mod S) in *.
    set (QS := S * q) in *.
    assert (Hb1 : 1 <= b).
    { destruct (N.eq_dec b 0) as [->|]; [|lia]. subst p. cbn in Ek. discriminate. }
    assert (HS2 : S <= 2 * b) by (subst p m; lia).
    apply N.div_le_lower_bound; [discriminate|]. change (2 ^ 52) with 4503599627370496.
    match goal with |- context [if ?c then q + 1 else q] => set (q' := if c then q + 1 else q) end.
    assert (Hq' : QS <= q' * S).
    { subst q'. match goal with |- context [if ?c then _ else _] => destruct c end; subst QS; nia. }
    clearbody q'. subst p m. lia.
Qed.

Lemma cap_bytes_le b : cap_bytes b <= soft_response_limit.
Proof. unfold cap_bytes. destruct (soft_response_limit <? b) eqn:E; lia. Qed.

(* ---------- byte codes *)
Definition availb (codes : list (N * N)) (h : N) : bool :=
  (h =? empty_code_hash) ||
  match lookup_code codes h with Some len => 0 <? len | None => false end.

Definition sum_len (l : list (N * N)) : N := fold_right (fun e s => snd e + s) 0 l.

Lemma sum_len_app l1 l2 : sum_len (l1 ++ l2) = sum_len l1 + sum_len l2.
Proof. induction l1 as [|x l1 IH]; unfold sum_len in *; cbn [fold_right app] in *; lia. Qed.

(* the codes served are exactly the available ones among a prefix of the
   request, in request order; the prefix is the whole request unless the byte
   budget was exceeded *)
Lemma codes_loop_spec codes bytes : forall hashes total,
  exists n : nat,
    map fst (codes_loop codes hashes bytes total) = filter (availb codes) (firstn n hashes) /\
    (n = length hashes \/ bytes < total + sum_len (codes_loop codes hashes bytes total)).
Proof.
  induction hashes as [|h r IH]; intros total.
  - exists O. split; [reflexivity|left; reflexivity].
  - cbn [codes_loop].
    set (o := if h =? empty_code_hash then ([(h, 0)], total)
              else match lookup_code codes h with
                   | Some len => if 0 <? len then ([(h, len)], total + len) else ([], total)
                   | None => ([], total)
                   end).
    assert (Ho : map fst (fst o) = filter (availb codes) [h] /\ snd o = total + sum_len (fst o)).
    { subst o. unfold availb. cbn [filter]. destruct (h =? empty_code_hash) eqn:E1.
      - cbn. split; [reflexivity|lia].
      - cbn [orb]. destruct (lookup_code codes h) as [len|]; [|cbn; split; [reflexivity|lia]].
        destruct (0 <? len); cbn; split; try reflexivity; lia. }
    destruct o as [out total']. cbn [fst snd] in Ho. destruct Ho as [Ho1 Ho2].
    destruct (bytes <? total') eqn:Eb.
    + exists 1%nat. rewrite app_nil_r. split; [cbn [firstn]; exact Ho1|right; lia].
    + destruct (IH total') as [n [Hn1 Hn2]]. exists (S n). split.
      * rewrite map_app, Ho1, Hn1. cbn [firstn filter]. destruct (availb codes h); reflexivity.
      * destruct Hn2 as [Hn2|Hn2]; [left; cbn [length]; lia|right]. rewrite sum_len_app. lia.
Qed.

Lemma codes_loop_budget codes bytes : forall hashes total pre x post,
  total <= bytes ->
  codes_loop codes hashes bytes total = pre ++ x :: post ->
  total + sum_len pre <= bytes.
Proof.
  induction hashes as [|h r IH]; intros total pre x post Ht H.
  - cbn in H. destruct pre; discriminate.
  - cbn [codes_loop] in H.
    set (o := if h =? empty_code_hash then ([(h, 0)], total)
              else match lookup_code codes h with
                   | Some len => if 0 <? len then ([(h, len)], total + len) else ([], total)
                   | None => ([], total)
                   end) in H.
    assert (Ho : (fst o = [] /\ snd o = total) \/ exists e, fst o = [e] /\ snd o = total + snd e).
    { subst o. destruct (h =? empty_code_hash); [right; exists (h, 0); cbn; split; [reflexivity|lia]|].
      destruct (lookup_code codes h) as [len|]; [|left; split; reflexivity].
      destruct (0 <? len); [right; exists (h, len); split; reflexivity|left; split; reflexivity]. }
    destruct o as [out total']. cbn [fst snd] in Ho.
    destruct Ho as [[-> ->]|[e [-> ->]]].
    + cbn [app] in H. destruct (bytes <? total) eqn:Eb; [destruct pre; discriminate|].
      eapply IH; eauto.
    + cbn [app] in H. destruct pre as [|p pre].
      * cbn [sum_len fold_right]. lia.
      * cbn [app] in H. inversion H; subst. destruct (bytes <? total + snd p) eqn:Eb; [destruct pre; discriminate|].
        unfold sum_len. cbn [fold_right]. fold (sum_len pre).
        specialize (IH (total + snd p) pre x post ltac:(lia) H2). lia.
Qed.

(* ---------- trie nodes *)
Definition sum_blob (l : list blob) : N := fold_right (fun b s => blob_len b + s) 0 l.

Lemma sum_blob_app l1 l2 : sum_blob (l1 ++ l2) = sum_blob l1 + sum_blob l2.
Proof. induction l1 as [|x l1 IH]; unfold sum_blob in *; cbn [fold_right app] in *; lia. Qed.

Lemma app_snoc_inv {A} (l1 l2 pre : list A) x :
  l1 ++ l2 = pre ++ [x] ->
  (l2 = [] /\ l1 = pre ++ [x]) \/ exists pre2, l2 = pre2 ++ [x] /\ pre = l1 ++ pre2.
Proof.
  intros H. destruct l2 as [|y l2] using rev_ind.
  - left. rewrite app_nil_r in H. auto.
  - right. clear IHl2. rewrite app_assoc in H. apply app_inj_tail in H. destruct H as [H1 H2]. subst.
    exists l2. auto.
Qed.

(* every blob but the last was appended while the running size was within the
   budget: "budget respected beyond the last item" *)
Definition within (bytes nb : N) (new : list blob) : Prop :=
  forall pre x, new = pre ++ [x] -> nb + sum_blob pre <= bytes.

Lemma within_nil bytes nb : within bytes nb [].
Proof. intros pre x H. destruct pre; discriminate. Qed.

Lemma within_app bytes nb l1 l2 :
  within bytes nb l1 -> (l2 <> [] -> nb + sum_blob l1 <= bytes) ->
  within bytes (nb + sum_blob l1) l2 -> within bytes nb (l1 ++ l2).
Proof.
  intros H1 Hm H2 pre x E. destruct (app_snoc_inv _ _ _ _ E) as [[-> E1]|[pre2 [E1 ->]]].
  - eapply H1; eauto.
  - rewrite sum_blob_app. specialize (H2 _ _ E1). lia.
Qed.

Lemma within_single bytes nb b : nb <= bytes -> within bytes nb [b].
Proof.
  intros H pre x E. destruct pre as [|p pre]; [cbn; lia|]. inversion E. destruct pre; discriminate.
Qed.

Section TrieNodesProofs.
  Context {C : Type} (env : tn_env C).

  Lemma over_false bytes nb loads : over bytes nb loads = false -> nb <= bytes.
  Proof. unfold over. intros H. apply orb_false_iff in H. destruct H. lia. Qed.

  Lemma st_paths_loop_budget a bytes : forall paths c nodes nb loads out nb' loads',
    nb <= bytes ->
    st_paths_loop env a bytes paths c nodes nb loads = Some (out, nb', loads') ->
    exists new, out = nodes ++ new /\ nb' = nb + sum_blob new /\ within bytes nb new.
  Proof.
    induction paths as [|p r IH]; intros c nodes nb loads out nb' loads' Hnb H.
    - cbn in H. inversion H; subst. exists []. rewrite app_nil_r. cbn. split; [reflexivity|]. split; [lia|apply within_nil].
    - cbn [st_paths_loop] in H. destruct p as [pb|pl]; [|discriminate].
      destruct (te_st_get env a c pb) as [[res resolved] c'].
      assert (Hgen : forall b, 
        (if over bytes (nb + blob_len b) (loads + resolved)
         then Some (nodes ++ [b], nb + blob_len b, loads + resolved)
         else st_paths_loop env a bytes r c' (nodes ++ [b]) (nb + blob_len b) (loads + resolved))
          = Some (out, nb', loads') ->
        exists new, out = nodes ++ new /\ nb' = nb + sum_blob new /\ within bytes nb new).
      { intros b Hb. destruct (over bytes (nb + blob_len b) (loads + resolved)) eqn:Eo.
        - inversion Hb; subst. exists [b]. split; [reflexivity|]. split; [cbn; lia|apply within_single; exact Hnb].
        - apply over_false in Eo. destruct (IH _ _ _ _ _ _ _ Eo Hb) as [new [E1 [E2 E3]]].
          exists ([b] ++ new). split; [rewrite E1, <- app_assoc; reflexivity|].
          split; [rewrite sum_blob_app; cbn; lia|].
          apply within_app; [apply within_single; exact Hnb|cbn; lia|].
          replace (nb + sum_blob [b]) with (nb + blob_len b) by (cbn; lia). exact E3. }
      destruct res as [h len| |].
      + apply (Hgen (Some (h, len))). exact H.
      + apply (Hgen None). exact H.
      + inversion H; subst. exists []. rewrite app_nil_r. cbn. split; [reflexivity|]. split; [lia|apply within_nil].
  Qed.

  Lemma pathsets_loop_budget bytes : forall sets c nodes nb loads out err,
    nb <= bytes ->
    pathsets_loop env bytes sets c nodes nb loads = (out, err) ->
    out = [] \/ exists new, out = nodes ++ new /\ within bytes nb new.
  Proof.
    induction sets as [|s rest IH]; intros c nodes nb loads out err Hnb H.
    - cbn in H. inversion H; subst. right. exists []. rewrite app_nil_r. split; [reflexivity|apply within_nil].
    - assert (Hstay : forall c' loads', 
         (if over bytes nb loads' then (nodes, false) else pathsets_loop env bytes rest c' nodes nb loads') = (out, err) ->
         out = [] \/ exists new, out = nodes ++ new /\ within bytes nb new).
      { intros c' loads' Hs. destruct (over bytes nb loads').
        - inversion Hs; subst. right. exists []. rewrite app_nil_r. split; [reflexivity|apply within_nil].
        - eapply IH; eauto. }
      assert (Hret : (nodes, true) = (out, err) -> out = [] \/ exists new, out = nodes ++ new /\ within bytes nb new).
      { intros Hs. inversion Hs; subst. right. exists []. rewrite app_nil_r. split; [reflexivity|apply within_nil]. }
      destruct s as [b|[|[k|kl] [|p ps]]]; cbn [pathsets_loop] in H.
      + apply Hret. exact H.
      + inversion H; subst. left. reflexivity.
      + (* account trie node *)
        destruct (te_acc_get env c k) as [[res resolved] c'].
        assert (Hgen : forall b,
          (if over bytes (nb + blob_len b) (loads + resolved) then (nodes ++ [b], false)
           else pathsets_loop env bytes rest c' (nodes ++ [b]) (nb + blob_len b) (loads + resolved)) = (out, err) ->
          out = [] \/ exists new, out = nodes ++ new /\ within bytes nb new).
        { intros b Hb. destruct (over bytes (nb + blob_len b) (loads + resolved)) eqn:Eo.
          - inversion Hb; subst. right. exists [b]. split; [reflexivity|apply within_single; exact Hnb].
          - apply over_false in Eo. destruct (IH _ _ _ _ _ _ Eo Hb) as [E|[new [E1 E2]]]; [left; exact E|].
            right. exists ([b] ++ new). split; [rewrite E1, <- app_assoc; reflexivity|].
            apply within_app; [apply within_single; exact Hnb|cbn; lia|].
            replace (nb + sum_blob [b]) with (nb + blob_len b) by (cbn; lia). exact E2. }
        destruct res as [h len| |].
        * apply (Hgen (Some (h, len))). exact H.
        * apply (Hgen None). exact H.
        * eapply Hstay. exact H.
      + (* storage trie nodes *)
        destruct (te_account env (bytes_to_hash k)) as [sc|]; [|eapply Hstay; exact H].
        destruct (st_paths_loop env (bytes_to_hash k) bytes (p :: ps) sc nodes nb
                    (loads + te_acct_cost env + 1)) as [[[nodes' nb'] loads']|] eqn:ESt.
        * destruct (st_paths_loop_budget _ _ _ _ _ _ _ _ _ _ Hnb ESt) as [new1 [E1 [E2 E3]]].
          destruct (over bytes nb' loads') eqn:Eo.
          { inversion H; subst. right. exists new1. split; [reflexivity|exact E3]. }
          apply over_false in Eo. destruct (IH _ _ _ _ _ _ Eo H) as [E|[new2 [F1 F2]]]; [left; exact E|].
          right. exists (new1 ++ new2). split; [rewrite F1, E1, app_assoc; reflexivity|].
          apply within_app; [exact E3|intros _; lia|]. rewrite <- E2. exact F2.
        * inversion H; subst. left. reflexivity.
      + apply Hret. exact H.
      + apply Hret. exact H.
  Qed.

  (* well-formed path sets: a list whose first element is a string (the account
     key / account trie path) followed by strings *)
  Definition wf_path (p : ritem) : bool := match p with RStr _ => true | RList _ => false end.
  Definition wf_pathset (s : ritem) : bool :=
    match s with RList (RStr _ :: ps) => forallb wf_path ps | _ => false end.

  Lemma st_paths_loop_wf a bytes : forall paths c nodes nb loads,
    forallb wf_path paths = true ->
    st_paths_loop env a bytes paths c nodes nb loads <> None.
  Proof.
    induction paths as [|p r IH]; intros c nodes nb loads Hwf; [discriminate|].
    cbn [forallb] in Hwf. apply andb_prop in Hwf. destruct Hwf as [Hp Hr].
    destruct p as [pb|]; [|discriminate]. cbn [st_paths_loop].
    destruct (te_st_get env a c pb) as [[res resolved] c'].
    destruct res; try discriminate;
      (match goal with |- context [if ?c then _ else _] => destruct c end; [discriminate|apply IH; exact Hr]).
  Qed.

  Lemma pathsets_loop_wf bytes : forall sets c nodes nb loads,
    forallb wf_pathset sets = true ->
    snd (pathsets_loop env bytes sets c nodes nb loads) = false.
  Proof.
    induction sets as [|s rest IH]; intros c nodes nb loads Hwf; [reflexivity|].
    cbn [forallb] in Hwf. apply andb_prop in Hwf. destruct Hwf as [Hs Hr].
    destruct s as [b|[|[k|kl] [|p ps]]]; try discriminate; cbn [pathsets_loop].
    - destruct (te_acc_get env c k) as [[res resolved] c'].
      destruct res; match goal with |- context [if ?c then _ else _] => destruct c end;
        try reflexivity; apply IH; exact Hr.
    - cbn [wf_pathset] in Hs.
      destruct (te_account env (bytes_to_hash k)) as [sc|].
      + pose proof (st_paths_loop_wf (bytes_to_hash k) bytes (p :: ps) sc nodes nb
                      (loads + te_acct_cost env + 1) Hs) as Hne.
        destruct (st_paths_loop env (bytes_to_hash k) bytes (p :: ps) sc nodes nb
                    (loads + te_acct_cost env + 1)) as [[[nodes' nb'] loads']|]; [|congruence].
        destruct (over bytes nb' loads'); [reflexivity|apply IH; exact Hr].
      + destruct (over bytes nb (loads + te_acct_cost env)); [reflexivity|apply IH; exact Hr].
  Qed.
End TrieNodesProofs.

(* ---------- top-level statements *)

Theorem storage_budget : forall legacy st root accounts ob lb bytes slots pr,
  serve_storage_ranges_gen legacy st root accounts ob lb bytes = (slots, pr) ->
  budget_ok (cap_bytes bytes) (hard_limit (cap_bytes bytes)) 0 slots.
Proof.
  intros legacy st root accounts ob lb bytes slots pr H. unfold serve_storage_ranges_gen in H.
  destruct (storage_loop_budget _ _ _ _ _ _ _ _ _ _ _ _ H) as [[-> _]|[new [-> Hb]]].
  - split; intros; [destruct pre|destruct l1]; discriminate.
  - exact Hb.
Qed.

Theorem codes_budget : forall st hashes bytes pre x post,
  serve_byte_codes st hashes bytes = pre ++ x :: post ->
  sum_len pre <= cap_bytes bytes.
Proof.
  intros st hashes bytes pre x post H. unfold serve_byte_codes in H.
  pose proof (codes_loop_budget _ _ _ 0 _ _ _ (N.le_0_l _) H). lia.
Qed.

Theorem codes_exact : forall st hashes bytes,
  exists n : nat,
    map fst (serve_byte_codes st hashes bytes) =
      filter (availb (s_codes st)) (firstn n (firstn max_code_lookups hashes)) /\
    (n = length (firstn max_code_lookups hashes) \/
     cap_bytes bytes < sum_len (serve_byte_codes st hashes bytes)).
Proof.
  intros st hashes bytes. unfold serve_byte_codes.
  destruct (codes_loop_spec (s_codes st) (cap_bytes bytes) (firstn max_code_lookups hashes) 0) as [n [H1 H2]].
  exists n. split; [exact H1|]. destruct H2; [left; assumption|right; lia].
Qed.

Theorem trie_nodes_budget : forall C (env : tn_env C) rk sets bytes nodes err,
  serve_trie_nodes env rk sets bytes = (nodes, err) ->
  within (cap_bytes bytes) 0 nodes.
Proof.
  intros C env rk sets bytes nodes err H. unfold serve_trie_nodes in H. destruct rk.
  - destruct (pathsets_loop_budget env _ _ _ _ _ _ _ _ (N.le_0_l _) H) as [->|[new [-> Hw]]];
      [apply within_nil|exact Hw].
  - destruct (pathsets_loop_budget (empty_env (te_acc0 env)) _ _ _ _ _ _ _ _ (N.le_0_l _) H) as [->|[new [-> Hw]]];
      [apply within_nil|exact Hw].
  - inversion H. apply within_nil.
Qed.

Theorem trie_nodes_wf_no_error : forall C (env : tn_env C) rk sets bytes,
  forallb wf_pathset sets = true ->
  snd (serve_trie_nodes env rk sets bytes) = false.
Proof.
  intros C env rk sets bytes H. unfold serve_trie_nodes. destruct rk; [| |reflexivity]; apply pathsets_loop_wf; exact H.
Qed.

(* storage ranges: the shape of the response (current code) *)
Theorem storage_ranges_shape : forall st accounts ob lb bytes slots pr,
  serve_storage_ranges st (s_root st) accounts ob lb bytes = (slots, pr) ->
  (slots = [] /\ pr = None) \/ shape_of st accounts (req_origin ob) slots pr.
Proof.
  intros st accounts ob lb bytes slots pr H. unfold serve_storage_ranges, serve_storage_ranges_gen in H.
  destruct (storage_loop_shape st _ _ _ _ _ _ _ _ _
              (hard_limit_ge _ (cap_bytes_le bytes)) H) as [Hd|[new [-> Hs]]]; [left; exact Hd|right; exact Hs].
Qed.

Lemma full_lists_complete st accts l :
  In l (full_lists st accts) -> exists a, In a accts /\ l = storage_items st a /\ l <> [].
Proof.
  unfold full_lists. intros H. apply filter_In in H. destruct H as [H1 H2].
  apply in_map_iff in H1. destruct H1 as [a [E Ha]]. exists a. split; [exact Ha|]. split; [auto|].
  destruct l; [discriminate|discriminate].
Qed.

(* proof attached <=> the response may be incomplete, as the code defines it *)
Theorem storage_more_flag_exact : forall st accounts ob lb bytes slots pr,
  serve_storage_ranges st (s_root st) accounts ob lb bytes = (slots, pr) ->
  match pr with
  | None => forall l, In l slots -> exists a, In a accounts /\ l = storage_items st a
  | Some (a, ks) =>
      In a accounts /\
      exists o' part rest,
        seek o' (storage_items st a) = part ++ rest /\ ks = proof_keys o' part /\
        (o' <> 0 \/ rest <> []) /\
        (forall l, In l (removelast slots) -> exists b, In b accounts /\ l = storage_items st b) /\
        (part <> [] -> last slots [] = part)
  end.
Proof.
  intros st accounts ob lb bytes slots pr H.
  destruct (storage_ranges_shape _ _ _ _ _ _ _ H) as [[-> ->]|[done [tail [Hacc Hs]]]].
  - intros l [].
  - destruct pr as [[a ks]|].
    + destruct Hs as [pre [part [rest [P1 [P2 [P3 [P4 [P5 P6]]]]]]]].
      split; [subst; apply in_or_app; left; apply in_or_app; right; left; reflexivity|].
      eexists _, part, rest. split; [exact P3|]. split; [exact P4|]. split; [exact P5|].
      assert (Hpre : forall l, In l (full_lists st pre) -> exists b, In b accounts /\ l = storage_items st b).
      { intros l Hl. destruct (full_lists_complete _ _ _ Hl) as [b [Hb [E _]]]. exists b. split; [|exact E].
        subst. apply in_or_app. left. apply in_or_app. left. exact Hb. }
      split.
      * intros l Hl. apply Hpre. rewrite P2 in Hl. unfold opt_list in Hl.
        destruct (nonempty part); [rewrite removelast_last in Hl; exact Hl|].
        rewrite app_nil_r in Hl.
        destruct (full_lists st pre) as [|x0 xs] using rev_ind; [destruct Hl|].
        rewrite removelast_last in Hl. apply in_or_app. left. exact Hl.
      * intros Hne. rewrite P2. unfold opt_list. destruct part; [congruence|]. cbn [nonempty]. apply last_last.
    + intros l Hl. subst slots. destruct (full_lists_complete _ _ _ Hl) as [b [Hb [E _]]]. exists b. split; [|exact E].
      subst. apply in_or_app. left. exact Hb.
Qed.

(* ---------- the code before /repo 1d1b984ea0 ([legacy = true]) violated both
   statements: origin zero, iteration stopped at req.Limit, no proof, and the
   handler went on to the next account *)
Definition refute_state : state :=
  {| s_root := 7;
     s_accounts := [ {| a_hash := 5; a_body := [1]; a_slots := [(1, [1]); (2, [2])] |};
                     {| a_hash := 6; a_body := [2]; a_slots := [(3, [3])] |} ];
     s_codes := [] |}.

Lemma refute_state_wf : state_wf refute_state.
Proof.
  split.
  - unfold keys_sorted. cbn. repeat constructor.
  - intros a [<-|[<-|[]]]; split; unfold keys_sorted, keys_bounded; cbn; repeat constructor;
      try (apply N.leb_le; vm_compute; reflexivity).
Qed.

Theorem storage_more_flag_legacy_refuted :
  exists st accounts ob lb bytes slots,
    state_wf st /\
    serve_storage_ranges_gen true st (s_root st) accounts ob lb bytes = (slots, None) /\
    exists l, In l slots /\ forall a, In a accounts -> l <> storage_items st a.
Proof.
  exists refute_state, [5], [], [0], 1000, [[(1, [1])]].
  split; [exact refute_state_wf|]. split; [vm_compute; reflexivity|].
  exists [(1, [1])]. split; [left; reflexivity|].
  intros a [<-|[]]. vm_compute. discriminate.
Qed.

Theorem storage_shape_legacy_refuted :
  exists st accounts ob lb bytes slots pr,
    state_wf st /\
    serve_storage_ranges_gen true st (s_root st) accounts ob lb bytes = (slots, pr) /\
    exists l, In l (removelast slots) /\ forall a, In a accounts -> l <> storage_items st a.
Proof.
  exists refute_state, [5; 6], [], [0], 1000, [[(1, [1])]; [(3, [3])]], None.
  split; [exact refute_state_wf|]. split; [vm_compute; reflexivity|].
  exists [(1, [1])]. split; [left; reflexivity|].
  intros a [<-|[<-|[]]]; vm_compute; discriminate.
Qed.

(* ---------- adversarial requests *)
Theorem account_unknown_root : forall st root origin limit bytes,
  root <> s_root st -> serve_account_range st root origin limit bytes = ([], []).
Proof.
  intros st root origin limit bytes H. unfold serve_account_range.
  destruct (root =? s_root st) eqn:E; [lia|reflexivity].
Qed.

Theorem storage_unknown_root : forall st root accounts ob lb bytes,
  root <> s_root st -> serve_storage_ranges st root accounts ob lb bytes = ([], None).
Proof.
  intros st root accounts ob lb bytes H. unfold serve_storage_ranges, serve_storage_ranges_gen.
  destruct accounts as [|a r]; [reflexivity|]. cbn [storage_loop].
  destruct (cap_bytes bytes <=? 0); [reflexivity|].
  destruct (root =? s_root st) eqn:E; [lia|reflexivity].
Qed.

Lemma account_loop_inverted limit bytes size its :
  match its with [] => True | x :: _ => limit <= fst x end ->
  (length (account_loop limit bytes size its) <= 1)%nat.
Proof.
  destruct its as [|x r]; intros H; cbn [account_loop length]; [lia|].
  destruct (limit <=? fst x) eqn:E; [cbn; lia|lia].
Qed.

Theorem account_inverted_range : forall st root origin limit bytes items pk,
  limit <= origin ->
  serve_account_range st root origin limit bytes = (items, pk) ->
  (length items <= 1)%nat.
Proof.
  intros st root origin limit bytes items pk Hinv H. unfold serve_account_range in H.
  destruct (negb (root =? s_root st)); inversion H; subst; [cbn; lia|].
  apply account_loop_inverted.
  destruct (seek origin (account_items st)) as [|x r] eqn:E; [exact I|].
  pose proof (seek_head _ _ _ _ E). lia.
Qed.

Lemma slot_loop_inverted legacy limit hard size its r s a :
  match its with [] => True | x :: _ => limit <= fst x end ->
  slot_loop legacy limit hard size its = (r, s, a) -> (length r <= 1)%nat.
Proof.
  destruct its as [|x rest]; intros H E; cbn [slot_loop] in E; [inversion E; cbn; lia|].
  destruct (hard <=? size); [inversion E; cbn; lia|].
  destruct (limit <=? fst x) eqn:E1; [inversion E; cbn; lia|lia].
Qed.

Theorem storage_inverted_range : forall st root a ob lb bytes slots pr,
  req_limit lb <= req_origin ob ->
  serve_storage_ranges st root [a] ob lb bytes = (slots, pr) ->
  Forall (fun l => length l <= 1)%nat slots.
Proof.
  intros st root a ob lb bytes slots pr Hinv H. unfold serve_storage_ranges, serve_storage_ranges_gen in H. cbn [storage_loop] in H.
  destruct (cap_bytes bytes <=? 0); [inversion H; constructor|].
  destruct (negb (root =? s_root st)); [inversion H; constructor|].
  fold (req_origin ob) in H. fold (req_limit lb) in H.
  destruct (slot_loop false (req_limit lb) (hard_limit (cap_bytes bytes)) 0
              (seek (req_origin ob) (storage_items st a))) as [[storage size'] abort] eqn:ES.
  assert (Hl : (length storage <= 1)%nat).
  { eapply slot_loop_inverted; [|exact ES].
    destruct (seek (req_origin ob) (storage_items st a)) as [|x r] eqn:E; [exact I|].
    pose proof (seek_head _ _ _ _ E). lia. }
  assert (HF : Forall (fun l => length l <= 1)%nat (if nonempty storage then [] ++ [storage] else [])).
  { destruct (nonempty storage); [cbn [app]; constructor; [exact Hl|constructor]|constructor]. }
  destruct (negb (req_origin ob =? 0) || (abort && nonempty storage)).
  - destruct (find_account (s_accounts st) a); inversion H; subst; [exact HF|constructor].
  - inversion H; subst. exact HF.
Qed.

Theorem storage_empty_account : forall st a ob lb bytes slots pr,
  storage_items st a = [] ->
  serve_storage_ranges st (s_root st) [a] ob lb bytes = (slots, pr) ->
  slots = [] /\
  (pr <> None -> req_origin ob <> 0 /\ find_account (s_accounts st) a <> None /\
                 pr = Some (a, [req_origin ob])).
Proof.
  intros st a ob lb bytes slots pr He H. unfold serve_storage_ranges, serve_storage_ranges_gen in H. cbn [storage_loop] in H.
  destruct (cap_bytes bytes <=? 0); [inversion H; split; [reflexivity|congruence]|].
  rewrite N.eqb_refl in H. cbn [negb] in H. rewrite He in H.
  fold (req_origin ob) in H. cbn [seek slot_loop nonempty andb] in H. rewrite orb_false_r in H.
  destruct (req_origin ob =? 0) eqn:Eo; cbn [negb] in H.
  - inversion H; split; [reflexivity|congruence].
  - destruct (find_account (s_accounts st) a) eqn:EF; inversion H; subst; (split; [reflexivity|]); [|congruence].
    intros _. split; [lia|]. split; [congruence|]. reflexivity.
Qed.

(* ---------- non-vacuity: a concrete state and concrete requests *)
Definition nv_state : state :=
  {| s_root := 9;
     s_accounts := [ {| a_hash := 10; a_body := [1; 2; 3]; a_slots := [(4, [1]); (8, [2]); (12, [3])] |};
                     {| a_hash := 20; a_body := [4]; a_slots := [] |};
                     {| a_hash := 30; a_body := [5; 6]; a_slots := [(7, [9])] |} ];
     s_codes := [(77, 5); (78, 100)] |}.

Definition items_eqb (a b : list item) : bool :=
  (length a =? length b)%nat &&
  forallb (fun p => (fst (fst p) =? fst (snd p)) && path_eqb (snd (fst p)) (snd (snd p))) (combine a b).

Definition nv_check : bool :=
  (* account range cut by the byte budget after two accounts, both edge keys proven *)
  (let '(items, pk) := serve_account_range nv_state 9 5 max_hash 40 in
   items_eqb items [(10, [1; 2; 3]); (20, [4])] && path_eqb pk [5; 20]) &&
  (* storage: first account complete without proof, second (empty) skipped, third complete *)
  (let '(slots, pr) := serve_storage_ranges nv_state 9 [10; 20; 30] [] [] 1000 in
   (length slots =? 2)%nat && match pr with None => true | _ => false end) &&
  (* storage from a non-zero origin: partial range with proof *)
  (let '(slots, pr) := serve_storage_ranges nv_state 9 [10; 30] [5] [] 1000 in
   (length slots =? 1)%nat && match pr with Some (10, [5; 12]) => true | _ => false end) &&
  (* storage from origin zero stopped at req.Limit with more slots following: proven (current code) ... *)
  (let '(slots, pr) := serve_storage_ranges nv_state 9 [10; 30] [] [4] 1000 in
   (length slots =? 1)%nat && match pr with Some (10, [0; 4]) => true | _ => false end) &&
  (* ... while the code before the repair returned it without proof and went on *)
  (let '(slots, pr) := serve_storage_ranges_gen true nv_state 9 [10; 30] [] [4] 1000 in
   (length slots =? 2)%nat && match pr with None => true | _ => false end) &&
  (* byte codes: unknown hash skipped, budget stops after the second code *)
  (path_eqb (map fst (serve_byte_codes nv_state [77; 1; 78; 77] 50)) [77; 78]).
