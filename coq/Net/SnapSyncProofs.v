(* Net/SnapSyncProofs.v — lemmas about the snap/1 syncer model Net/SnapSync.v.

   Part 1 (provenance, all histories): the flat state only ever grows by items of
   ACCEPTED responses: [grows] per operation, lifted to every event and to every
   event list (any order, duplication, loss; honest or not).
   Part 2: a rejected / empty / stale / timed-out response changes neither the flat state
   nor any range marker.
   Part 3: the account task list: chunk boundaries (Last) are never moved; the initial
   chunks partition the hash space. *)
From GV Require Import Lib.Tactics Net.SnapSync.
Local Open Scope N_scope.

(* ---------------------------------------------------------------- assoc lists *)
Lemma get_put {V} k k' (v : V) l :
  get k (put k' v l) = if k =? k' then Some v else get k l.
Proof.
  induction l as [|[k0 v0] r IH]; cbn [put get].
  - destruct (k =? k') eqn:E; reflexivity.
  - destruct (k' <? k0) eqn:E1.
    + cbn [get]. destruct (k =? k') eqn:E; reflexivity.
    + destruct (k' =? k0) eqn:E2.
      * cbn [get]. apply N.eqb_eq in E2. subst k0.
        destruct (k =? k') eqn:E; reflexivity.
      * cbn [get]. rewrite IH. destruct (k =? k0) eqn:E3; [|reflexivity].
        apply N.eqb_eq in E3. subst k0.
        destruct (k =? k') eqn:E4; [|reflexivity].
        apply N.eqb_eq in E4. subst k'. rewrite N.eqb_refl in E2. discriminate.
Qed.

Definition slot_get (a k : N) (db : store) : option bytes :=
  match get a (d_slot db) with Some m => get k m | None => None end.

Lemma slot_get_put a k a' k' v db :
  slot_get a k (put_slot a' k' v db) =
  if (a =? a') && (k =? k') then Some v else slot_get a k db.
Proof.
  unfold slot_get, put_slot. cbn [d_slot]. rewrite get_put.
  destruct (a =? a') eqn:E; cbn [andb]; [|reflexivity].
  apply N.eqb_eq in E. subst a'. rewrite get_put.
  destruct (k =? k'); [reflexivity|].
  destruct (get a (d_slot db)); reflexivity.
Qed.

(* ---------------------------------------------------------------- grows *)
Section Grows.
Variables (A : N -> bytes -> Prop) (S : N -> N -> bytes -> Prop) (C : N -> bytes -> Prop).

Definition grows (db db' : store) : Prop :=
  (forall k v, get k (d_acc db') = Some v -> get k (d_acc db) = Some v \/ A k v) /\
  (forall a k v, slot_get a k db' = Some v -> slot_get a k db = Some v \/ S a k v) /\
  (forall h c, get h (d_code db') = Some c -> get h (d_code db) = Some c \/ C h c).

Lemma grows_refl db : grows db db.
Proof. unfold grows. auto. Qed.

Lemma grows_trans d1 d2 d3 : grows d1 d2 -> grows d2 d3 -> grows d1 d3.
Proof.
  intros (a1 & s1 & c1) (a2 & s2 & c2). split; [|split].
  - intros k v H. destruct (a2 _ _ H) as [H'|H']; auto.
  - intros a k v H. destruct (s2 _ _ _ H) as [H'|H']; auto.
  - intros h c H. destruct (c2 _ _ H) as [H'|H']; auto.
Qed.

Lemma grows_put_acc db k v : A k v -> grows db (put_acc k v db).
Proof.
  intros HA. split; [|split]; cbn [put_acc d_acc d_code]; auto.
  intros k0 v0. rewrite get_put. destruct (k0 =? k) eqn:E; auto.
  apply N.eqb_eq in E. subst k0. intros H. inversion H. subst. auto.
Qed.

Lemma grows_put_slot db a k v : S a k v -> grows db (put_slot a k v db).
Proof.
  intros HS. split; [|split]; auto.
  intros a0 k0 v0. rewrite slot_get_put.
  destruct ((a0 =? a) && (k0 =? k)) eqn:E; auto.
  apply andb_true_iff in E. destruct E as [E1 E2].
  apply N.eqb_eq in E1. apply N.eqb_eq in E2. subst.
  intros H. inversion H. subst. auto.
Qed.

Lemma grows_put_code db h c : C h c -> grows db (put_code h c db).
Proof.
  intros HC. split; [|split]; cbn [put_code d_acc d_code]; auto.
  intros h0 c0. rewrite get_put. destruct (h0 =? h) eqn:E; auto.
  apply N.eqb_eq in E. subst h0. intros H. inversion H. subst. auto.
Qed.

(* items of the response a task is filling *)
Definition res_in (t : atask) : Prop :=
  forall res, t_res t = Some res -> forall k a, In (k, a) (r_items res) -> A k (a_blob a).

Lemma write_prefix_grows items : forall nc ns db db' p,
  (forall k a, In (k, a) items -> A k (a_blob a)) ->
  write_prefix items nc ns db = (db', p) -> grows db db'.
Proof.
  induction items as [|[h a] r IH]; intros nc ns db db' p HA H; cbn [write_prefix] in H.
  - inversion H. apply grows_refl.
  - destruct nc as [|c nc']; [inversion H; apply grows_refl|].
    destruct ns as [|s ns']; [inversion H; apply grows_refl|].
    destruct (c || s); [inversion H; apply grows_refl|].
    eapply grows_trans; [apply grows_put_acc; apply HA; left; reflexivity|].
    eapply IH; [|exact H]. intros k a0 Hin. apply HA. right. exact Hin.
Qed.

Lemma forward_res t db t' db' p : forward t db = (t', db', p) -> t_res t' = None \/ (t' = t /\ db' = db).
Proof.
  unfold forward. destruct (t_res t) as [res|] eqn:E.
  - destruct (write_prefix _ _ _ _) as [d1 p1]. destruct p1.
    + intros H. inversion H. left. reflexivity.
    + destruct (advance _ _ _ _ _) as [[n cp] al]. destruct al; intros H; inversion H; left; reflexivity.
  - intros H. inversion H. right. auto.
Qed.

Lemma forward_grows t db t' db' p :
  res_in t -> forward t db = (t', db', p) -> grows db db' /\ res_in t'.
Proof.
  intros HR H. pose proof (forward_res _ _ _ _ _ H) as HN.
  split.
  - unfold forward in H. destruct (t_res t) as [res|] eqn:E.
    + destruct (write_prefix _ _ _ _) as [d1 p1] eqn:W.
      assert (G : grows db d1) by (eapply write_prefix_grows; [apply (HR res E)|exact W]).
      destruct p1; [inversion H; subst; exact G|].
      destruct (advance _ _ _ _ _) as [[n cp] al]. destruct al; inversion H; subst; exact G.
    + inversion H. apply grows_refl.
  - destruct HN as [HN|[-> ->]]; [|exact HR].
    intros res E. rewrite HN in E. discriminate.
Qed.

(* operations that change a task only through set_aux keep its response *)
Lemma res_in_aux t subs cp rq pend nc ns ct stt :
  res_in t -> res_in (set_aux t subs cp rq pend nc ns ct stt).
Proof. intros H res E. cbn [set_aux t_res] in E. exact (H res E). Qed.

Lemma res_in_same t t' : t_res t' = t_res t -> res_in t -> res_in t'.
Proof. intros E H res E'. rewrite E in E'. exact (H res E'). Qed.

(* ---- revert *)
Lemma revert_grows q t db t' db' p :
  res_in t -> revert q t db = (t', db', p) -> grows db db' /\ res_in t'.
Proof.
  intros HR H. unfold revert in H.
  destruct (q_kind q).
  - inversion H. subst. split; [apply grows_refl|apply res_in_aux; exact HR].
  - inversion H. subst. split; [apply grows_refl|apply res_in_aux; exact HR].
  - destruct (q_sub q) as [[sa sl]|]; inversion H; subst; (split; [apply grows_refl|apply res_in_aux; exact HR]).
Qed.

(* ---- processAccountResponse *)
Lemma cut_acc_incl last items : forall cont items' cont',
  cut_acc last items cont = (items', cont') -> incl items' items.
Proof.
  induction items as [|[h a] r IH]; intros cont items' cont' H; cbn [cut_acc] in H.
  - inversion H. apply incl_refl.
  - destruct (h =? last).
    + destruct (cut_acc last r false) as [r' c'] eqn:E. inversion H. subst.
      apply incl_cons; [left; reflexivity|]. apply incl_tl. eapply IH. exact E.
    + destruct (last <? h).
      * inversion H. intros x Hx. destruct Hx.
      * destruct (cut_acc last r cont) as [r' c'] eqn:E. inversion H. subst.
        apply incl_cons; [left; reflexivity|]. apply incl_tl. eapply IH. exact E.
Qed.

Lemma process_account_grows t items cont db t' db' p :
  (forall k a, In (k, a) items -> A k (a_blob a)) ->
  process_account t items cont db = (t', db', p) -> grows db db' /\ res_in t'.
Proof.
  intros HA H. unfold process_account in H.
  destruct (cut_acc (t_last t) items cont) as [items' cont'] eqn:EC.
  pose proof (cut_acc_incl _ _ _ _ _ EC) as Hincl.
  set (c := classify _ _ _ _) in H.
  match type of H with context [set_core ?x ?n ?r ?cp ?dn] => set (t1 := set_core x n r cp dn) in H end.
  assert (R1 : res_in t1).
  { intros res E. unfold t1 in E. cbn [set_core t_res] in E. inversion E. subst res. cbn [r_items].
    intros k a Hin. apply HA. apply Hincl. exact Hin. }
  destruct (cl_pend c =? 0)%Z.
  - destruct (forward t1 db) as [[t2 db2] p2] eqn:F. inversion H. subst.
    eapply forward_grows; eauto.
  - inversion H. subst. split; [apply grows_refl|exact R1].
Qed.

(* ---- processBytecodeResponse *)
Lemma process_codes_grows hashes : forall codes items nc pend ct db nc' pend' ct' db',
  (forall i h c, nth_error hashes i = Some h -> nth_error codes i = Some (Some c) -> C h c) ->
  process_codes hashes codes items nc pend ct db = (nc', pend', ct', db') -> grows db db'.
Proof.
  induction hashes as [|h hr IH]; intros codes items nc pend ct db nc' pend' ct' db' HC H; cbn [process_codes] in H.
  - inversion H. apply grows_refl.
  - destruct codes as [|oc cr]; [inversion H; apply grows_refl|].
    assert (HC' : forall i h0 c, nth_error hr i = Some h0 -> nth_error cr i = Some (Some c) -> C h0 c).
    { intros i h0 c H1 H2. apply (HC (Datatypes.S i)); assumption. }
    destruct oc as [c|].
    + destruct (clear_code h items nc pend) as [nc1 pend1].
      eapply grows_trans; [apply grows_put_code; apply (HC O); reflexivity|].
      eapply IH; [exact HC'|exact H].
    + eapply IH; [exact HC'|exact H].
Qed.

Lemma process_bytecode_grows t hashes codes db t' db' p :
  res_in t ->
  (forall i h c, nth_error hashes i = Some h -> nth_error codes i = Some (Some c) -> C h c) ->
  process_bytecode t hashes codes db = (t', db', p) -> grows db db' /\ res_in t'.
Proof.
  intros HR HC H. unfold process_bytecode in H.
  destruct (t_res t) as [res|] eqn:E.
  - destruct (process_codes _ _ _ _ _ _ _) as [[[nc pend] ct] d1] eqn:PC.
    pose proof (process_codes_grows _ _ _ _ _ _ _ _ _ _ _ HC PC) as G.
    match type of H with context [set_aux ?a ?b ?c ?d ?e ?f ?g ?h ?i] => set (t1 := set_aux a b c d e f g h i) in H end.
    assert (R1 : res_in t1) by (apply res_in_aux; exact HR).
    destruct (pend =? 0)%Z.
    + destruct (forward_grows _ _ _ _ _ R1 H) as [G2 R2]. split; [eapply grows_trans; eauto|exact R2].
    + inversion H. subst. split; assumption.
  - destruct (existsb _ codes); inversion H; subst.
    + split; [apply grows_refl|exact HR].
    + split; [apply grows_refl|apply res_in_aux; exact HR].
Qed.

(* onByteCodes matching: what is delivered against a hash is one of the response's pairs *)
Lemma match_codes_in rq : forall dl cs,
  match_codes rq dl = Some cs ->
  forall i h c, nth_error rq i = Some h -> nth_error cs i = Some (Some c) -> In (h, c) dl.
Proof.
  induction rq as [|r rq' IH]; intros dl cs H i h c H1 H2.
  - destruct i; discriminate.
  - destruct dl as [|[h0 c0] dl'].
    + cbn [match_codes] in H. inversion H. subst cs.
      change (map (fun _ : N => @None bytes) (r :: rq')) with (@None bytes :: map (fun _ : N => None) rq') in H2.
      destruct i; cbn [nth_error] in H2; [discriminate|].
      exfalso. revert H2. clear. revert i. induction rq' as [|x l IHl]; intros i; destruct i; cbn; try discriminate.
      apply IHl.
    + cbn [match_codes] in H. destruct (r =? h0) eqn:E.
      * destruct (match_codes rq' dl') as [cs'|] eqn:M; [|discriminate]. inversion H. subst cs.
        destruct i; cbn [nth_error] in H1, H2.
        -- inversion H1. inversion H2. subst. apply N.eqb_eq in E. subst. left. reflexivity.
        -- right. eapply IH; eauto.
      * destruct (match_codes rq' ((h0, c0) :: dl')) as [cs'|] eqn:M; [|discriminate]. inversion H. subst cs.
        destruct i; cbn [nth_error] in H1, H2; [discriminate|].
        eapply IH; eauto.
Qed.

(* ---- processStorageResponse *)
Lemma write_slots_grows a l : forall db,
  (forall k v, In (k, v) l -> S a k v) -> grows db (write_slots a l db).
Proof.
  unfold write_slots. induction l as [|[k v] r IH]; intros db HS; cbn [fold_left].
  - apply grows_refl.
  - eapply grows_trans; [apply grows_put_slot; apply HS; left; reflexivity|].
    apply IH. intros k0 v0 Hin. apply HS. right. exact Hin.
Qed.

Definition sps_ok (db0 : store) (s : sps) : Prop := grows db0 (sp_db s) /\ res_in (sp_t s).

Lemma storage_A_res t sub nsj lastset cont account j : res_in t -> res_in (storage_A t sub nsj lastset cont account j).
Proof. intros R. unfold storage_A. destruct (_ && _ && _); [apply res_in_aux|]; exact R. Qed.

Lemma storage_C_res c t1 sub lastset cont account slots acc t2 sub2 p2 :
  res_in t1 -> storage_C c t1 sub lastset cont account slots acc = (t2, sub2, p2) -> res_in t2.
Proof.
  intros R1 EX. unfold storage_C in EX. destruct sub as [sb|].
  - inversion EX. subst. exact R1.
  - destruct (lastset && cont).
    + destruct (get account (t_subs t1)).
      * inversion EX. subst. exact R1.
      * destruct (make_chunks c (map fst slots) (a_root acc)) as [tasks|].
        -- inversion EX. subst. apply res_in_aux. exact R1.
        -- inversion EX. subst. exact R1.
    + inversion EX. subst. exact R1.
Qed.

Lemma storage_D_ok t2 sub2 account slots db0 s p2 :
  (forall k v, In (k, v) slots -> S account k v) ->
  grows db0 (sp_db s) -> res_in t2 -> sps_ok db0 (storage_D t2 sub2 account slots s p2).
Proof.
  intros HS G R2. unfold storage_D. destruct sub2 as [[sa sl]|].
  - cbv zeta.
    match goal with |- context [let '(f, p3) := ?X in _] => destruct X as [f p3] end.
    split; cbn [sp_db sp_t]; [|apply res_in_aux; exact R2].
    eapply grows_trans; [exact G|]. apply write_slots_grows.
    intros k v Hin. apply filter_In in Hin. apply HS. tauto.
  - split; cbn [sp_db sp_t]; [|exact R2].
    eapply grows_trans; [exact G|]. apply write_slots_grows. exact HS.
Qed.

Lemma storage_one_ok c n i account root set db0 s :
  (forall slots, set = Some slots -> forall k v, In (k, v) slots -> S account k v) ->
  sps_ok db0 s -> sps_ok db0 (storage_one c n i account root set s).
Proof.
  intros HS [G R]. unfold storage_one.
  destruct set as [slots|].
  2:{ split; cbn [sp_db sp_t]; [exact G|apply res_in_aux; exact R]. }
  specialize (HS slots eq_refl).
  destruct (t_res (sp_t s)) as [res|] eqn:E.
  2:{ split; cbn [sp_db sp_t]; assumption. }
  destruct (find_idx account (r_items res) 0) as [[j acc]|].
  2:{ split; cbn [sp_db sp_t]; [|exact R].
      eapply grows_trans; [exact G|]. apply write_slots_grows. exact HS. }
  destruct (nth_error (t_needState (sp_t s)) j) as [nsj|].
  2:{ split; cbn [sp_db sp_t]; assumption. }
  cbv zeta.
  destruct (storage_C _ _ _ _ _ _ _ _) as [[t2 sub2] p2] eqn:EX.
  apply storage_D_ok; [exact HS|exact G|].
  eapply storage_C_res; [|exact EX]. apply storage_A_res. exact R.
Qed.

Lemma storage_loop_ok c n db0 : forall accounts sets i s,
  (forall j a r slots, nth_error accounts j = Some (a, r) -> nth_error sets j = Some slots ->
     forall k v, In (k, v) slots -> S a k v) ->
  sps_ok db0 s -> sps_ok db0 (storage_loop c n i accounts sets s).
Proof.
  induction accounts as [|[a r] ar IH]; intros sets i s HS OK; cbn [storage_loop].
  - exact OK.
  - destruct sets as [|x sr].
    + apply IH.
      * intros j a0 r0 slots _ H. destruct j; discriminate.
      * apply storage_one_ok; [intros slots H; discriminate|exact OK].
    + apply IH.
      * intros j a0 r0 slots H1 H2. apply (HS (Datatypes.S j) a0 r0 slots); assumption.
      * apply storage_one_ok; [|exact OK].
        intros slots H. inversion H. subst. apply (HS O a r slots); reflexivity.
Qed.

Lemma process_storage_grows c t accounts sub sets cont db t' db' p :
  res_in t ->
  (forall j a r slots, nth_error accounts j = Some (a, r) -> nth_error sets j = Some slots ->
     forall k v, In (k, v) slots -> S a k v) ->
  process_storage c t accounts sub sets cont db = (t', db', p) -> grows db db' /\ res_in t'.
Proof.
  intros HR HS H. unfold process_storage in H.
  set (t0 := match sub with Some _ => _ | None => t end) in H.
  assert (R0 : res_in t0).
  { unfold t0. destruct sub as [[sa sl]|]; [apply res_in_aux|]; exact HR. }
  set (s := storage_loop _ _ _ _ _ _) in H.
  assert (OK : sps_ok db s).
  { unfold s. apply storage_loop_ok; [exact HS|]. split; cbn [sp_db sp_t]; [apply grows_refl|exact R0]. }
  destruct OK as [G R].
  destruct (t_pend (sp_t s) =? 0)%Z.
  - destruct (forward (sp_t s) (sp_db s)) as [[t2 db2] p2] eqn:F. inversion H. subst.
    destruct (forward_grows _ _ _ _ _ R F) as [G2 R2]. split; [eapply grows_trans; eauto|exact R2].
  - inversion H. subst. split; assumption.
Qed.

(* ---- cleanStorageTasks *)
Lemma clean_subs_grows subs : forall t db panic t' db' p,
  res_in t -> clean_subs subs t db panic = (t', db', p) -> grows db db' /\ res_in t'.
Proof.
  induction subs as [|[account l] r IH]; intros t db panic t' db' p HR H; cbn [clean_subs] in H.
  - inversion H. subst. split; [apply grows_refl|exact HR].
  - destruct (filter _ l) as [|x l'].
    + destruct (t_res t) as [res|] eqn:E.
      * match type of H with context [set_aux ?a ?b ?c ?d ?e ?f ?g ?h ?i] => set (t1 := set_aux a b c d e f g h i) in H end.
        assert (R1 : res_in t1) by (apply res_in_aux; exact HR).
        destruct (t_pend t1 =? 0)%Z.
        -- destruct (forward t1 db) as [[t2 db2] p2] eqn:F.
           destruct (forward_grows _ _ _ _ _ R1 F) as [G2 R2].
           destruct (IH _ _ _ _ _ _ R2 H) as [G3 R3]. split; [eapply grows_trans; eauto|exact R3].
        -- eapply IH; eauto.
      * eapply IH; eauto.
    + eapply IH; [|exact H]. apply res_in_aux. exact HR.
Qed.

(* ---- lists of tasks *)
Definition all_res (ts : list atask) : Prop := Forall res_in ts.

Lemma map_tasks_grows f :
  (forall t db t' db' p, res_in t -> f t db = (t', db', p) -> grows db db' /\ res_in t') ->
  forall ts db ts' db' p, all_res ts -> map_tasks f ts db = (ts', db', p) -> grows db db' /\ all_res ts'.
Proof.
  intros Hf. induction ts as [|t r IH]; intros db ts' db' p HA H; cbn [map_tasks] in H.
  - inversion H. subst. split; [apply grows_refl|constructor].
  - destruct (f t db) as [[t1 d1] p1] eqn:F.
    destruct (map_tasks f r d1) as [[r1 d2] p2] eqn:M. inversion H. subst.
    inversion HA as [|? ? Ht Hr]. subst.
    destruct (Hf _ _ _ _ _ Ht F) as [G1 R1].
    destruct (IH _ _ _ _ Hr M) as [G2 R2].
    split; [eapply grows_trans; eauto|constructor; assumption].
Qed.

Lemma on_task_grows last f :
  (forall t db t' db' p, res_in t -> f t db = (t', db', p) -> grows db db' /\ res_in t') ->
  forall ts db ts' db' p, all_res ts -> on_task last f ts db = (ts', db', p) -> grows db db' /\ all_res ts'.
Proof.
  intros Hf. induction ts as [|t r IH]; intros db ts' db' p HA H; cbn [on_task] in H.
  - inversion H. subst. split; [apply grows_refl|constructor].
  - inversion HA as [|? ? Ht Hr]. subst.
    destruct (t_last t =? last).
    + destruct (f t db) as [[t1 d1] p1] eqn:F. inversion H. subst.
      destruct (Hf _ _ _ _ _ Ht F) as [G1 R1]. split; [exact G1|constructor; assumption].
    + destruct (on_task last f r db) as [[r1 d1] p1] eqn:M. inversion H. subst.
      destruct (IH _ _ _ _ Hr M) as [G1 R1]. split; [exact G1|constructor; assumption].
Qed.

(* ---- assignment never touches responses or the store *)
Lemma assign_acc_res : forall ts id ts' q id', all_res ts -> assign_acc ts id = (ts', q, id') -> all_res ts'.
Proof.
  induction ts as [|t r IH]; intros id ts' q id' HA H; cbn [assign_acc] in H.
  - inversion H. constructor.
  - inversion HA as [|? ? Ht Hr]. subst.
    destruct (negb (t_req t) && _).
    + destruct (assign_acc r (id + 1)) as [[r1 q1] i1] eqn:E. inversion H. subst.
      constructor; [apply res_in_aux; exact Ht|eapply IH; eauto].
    + destruct (assign_acc r id) as [[r1 q1] i1] eqn:E. inversion H. subst.
      constructor; [exact Ht|eapply IH; eauto].
Qed.

Lemma assign_code_res : forall ts id ts' q id', all_res ts -> assign_code ts id = (ts', q, id') -> all_res ts'.
Proof.
  induction ts as [|t r IH]; intros id ts' q id' HA H; cbn [assign_code] in H.
  - inversion H. constructor.
  - inversion HA as [|? ? Ht Hr]. subst.
    destruct (t_res t) as [res|] eqn:E1.
    + destruct (t_codeTasks t) as [|x l] eqn:E2.
      * destruct (assign_code r id) as [[r1 q1] i1] eqn:E. inversion H. subst.
        constructor; [exact Ht|eapply IH; eauto].
      * destruct (assign_code r (id + 1)) as [[r1 q1] i1] eqn:E. inversion H. subst.
        constructor; [apply res_in_aux; exact Ht|eapply IH; eauto].
    + destruct (assign_code r id) as [[r1 q1] i1] eqn:E. inversion H. subst.
      constructor; [exact Ht|eapply IH; eauto].
Qed.

Lemma assign_sto_res : forall ts id ts' q id', all_res ts -> assign_sto ts id = (ts', q, id') -> all_res ts'.
Proof.
  induction ts as [|t r IH]; intros id ts' q id' HA H; cbn [assign_sto] in H.
  - inversion H. constructor.
  - inversion HA as [|? ? Ht Hr]. subst.
    destruct (t_res t) as [res|] eqn:E1.
    + destruct (assign_subs _ _ _ _) as [[subs' q1] id1].
      destruct (match t_stateTasks t with [] => _ | _ => _ end) as [[stt q2] id2].
      destruct (assign_sto r id2) as [[r1 q3] i3] eqn:E. inversion H. subst.
      constructor; [apply res_in_aux; exact Ht|eapply IH; eauto].
    + destruct (assign_sto r id) as [[r1 q1] i1] eqn:E. inversion H. subst.
      constructor; [exact Ht|eapply IH; eauto].
Qed.

Definition s_ok (db0 : store) (s : syncer) : Prop := grows db0 (s_db s) /\ all_res (s_tasks s).

Lemma assign_ok db0 s : s_ok db0 s -> s_ok db0 (assign s).
Proof.
  intros [G R]. unfold assign.
  destruct (assign_acc (s_tasks s) (s_nextid s)) as [[ts1 q1] id1] eqn:E1.
  destruct (assign_code ts1 id1) as [[ts2 q2] id2] eqn:E2.
  destruct (assign_sto ts2 id2) as [[ts3 q3] id3] eqn:E3.
  split; cbn [s_db s_tasks]; [exact G|].
  eapply assign_sto_res; [|exact E3]. eapply assign_code_res; [|exact E2]. eapply assign_acc_res; eauto.
Qed.

Lemma clean_accounts_ok db0 s : s_ok db0 s -> s_ok db0 (clean_accounts s).
Proof.
  intros [G R]. unfold clean_accounts. destruct (s_tasks s) as [|t r] eqn:E.
  - split; [exact G|rewrite E; constructor].
  - split; cbn [s_db s_tasks]; [exact G|].
    rewrite <- E in *. unfold all_res in *. rewrite Forall_forall in *. intros x Hx.
    apply filter_In in Hx. destruct Hx as [Hx _]. apply R. exact Hx.
Qed.

Lemma post_ok db0 s : s_ok db0 s -> s_ok db0 (post s).
Proof.
  intros [G R]. unfold post.
  destruct (clean_storage (s_tasks s) (s_db s)) as [[ts db] p] eqn:E.
  apply assign_ok. apply clean_accounts_ok.
  unfold clean_storage in E.
  destruct (map_tasks_grows _ (fun t d t' d' p0 HR H => clean_subs_grows (t_subs t) t d false t' d' p0 HR H)
              _ _ _ _ _ R E) as [G2 R2].
  split; cbn [s_db s_tasks]; [eapply grows_trans; eauto|exact R2].
Qed.

Lemma with_tasks_ok db0 s reqs ts db p :
  grows db0 db -> all_res ts -> s_ok db0 (with_tasks s reqs (ts, db, p)).
Proof. intros G R. split; cbn [with_tasks s_db s_tasks]; assumption. Qed.

End Grows.

(* grows is monotone in the three sources *)
Lemma grows_mono (A A' : N -> bytes -> Prop) (S S' : N -> N -> bytes -> Prop) (C C' : N -> bytes -> Prop) db db' :
  (forall k v, A k v -> A' k v) -> (forall a k v, S a k v -> S' a k v) -> (forall h c, C h c -> C' h c) ->
  grows A S C db db' -> grows A' S' C' db db'.
Proof.
  intros HA HS HC (a & s & c). split; [|split].
  - intros k v H. destruct (a _ _ H); auto.
  - intros x k v H. destruct (s _ _ _ H); auto.
  - intros h x H. destruct (c _ _ H); auto.
Qed.

Lemma all_res_mono (A A' : N -> bytes -> Prop) ts :
  (forall k v, A k v -> A' k v) -> all_res A ts -> all_res A' ts.
Proof.
  intros HA H. unfold all_res in *. rewrite Forall_forall in *. intros t Ht res E k a Hin.
  apply HA. exact (H t Ht res E k a Hin).
Qed.

(* ---------------------------------------------------------------- events *)
(* what an event offers to the store: only ACCEPTED responses offer anything *)
Definition ev_acc (e : event) (k : N) (v : bytes) : Prop :=
  match e with
  | EAcc _ items _ true _ => exists a, In (k, a) items /\ a_blob a = v
  | _ => False
  end.
Definition ev_slot (e : event) (k : N) (v : bytes) : Prop :=
  match e with
  | ESto _ sets _ false true _ => exists slots, In slots sets /\ In (k, v) slots
  | _ => False
  end.
Definition ev_code (e : event) (h : N) (c : bytes) : Prop :=
  match e with
  | ECode _ codes => In (h, c) codes
  | _ => False
  end.

Section Step.
Variables (A : N -> bytes -> Prop) (S : N -> N -> bytes -> Prop) (C : N -> bytes -> Prop).

Lemma handle_ok c s e db0 :
  (forall k v, ev_acc e k v -> A k v) ->
  (forall a k v, ev_slot e k v -> S a k v) ->
  (forall h x, ev_code e h x -> C h x) ->
  s_ok A S C db0 s -> s_ok A S C db0 (handle c s e).
Proof.
  intros HA HS HC [G R]. unfold handle.
  assert (REV : forall q rest, s_ok A S C db0 (with_tasks s rest (on_task (q_task q) (revert q) (s_tasks s) (s_db s)))).
  { intros q rest. destruct (on_task _ _ _ _) as [[ts db] p] eqn:E.
    destruct (on_task_grows A S C _ _ (fun t d t' d' p0 => revert_grows A S C q t d t' d' p0) _ _ _ _ _ R E) as [G2 R2].
    apply with_tasks_ok; [eapply grows_trans; eauto|exact R2]. }
  destruct e as [id items hp ok more|id sets hp lm ok more|id codes|id|root| |]; try (split; assumption).
  - destruct (take_req id (s_reqs s)) as [[q rest]|]; [|split; assumption].
    destruct (q_kind q); try (split; assumption).
    destruct (_ || negb ok) eqn:EB; [apply REV|].
    apply orb_false_iff in EB. destruct EB as [_ EB]. apply negb_false_iff in EB. subst ok.
    destruct (on_task _ _ _ _) as [[ts db] p] eqn:E.
    assert (HI : forall k a, In (k, a) items -> A k (a_blob a)).
    { intros k a Hin. apply HA. cbn [ev_acc]. exists a. auto. }
    destruct (on_task_grows A S C _ _
      (fun t d t' d' p0 _ => process_account_grows A S C t items more d t' d' p0 HI) _ _ _ _ _ R E) as [G2 R2].
    apply with_tasks_ok; [eapply grows_trans; eauto|exact R2].
  - destruct (take_req id (s_reqs s)) as [[q rest]|]; [|split; assumption].
    destruct (q_kind q); try (split; assumption).
    destruct (_ || negb ok) eqn:EB; [apply REV|].
    apply orb_false_iff in EB. destruct EB as [EB1 EB]. apply negb_false_iff in EB. subst ok.
    apply orb_false_iff in EB1. destruct EB1 as [EB1 _]. apply orb_false_iff in EB1. destruct EB1 as [EB1 _]. subst lm.
    destruct (on_task _ _ _ _) as [[ts db] p] eqn:E.
    set (sets' := match sets with [] => [[]] | _ => sets end) in E.
    assert (HI : forall j a r slots, nth_error (q_accounts q) j = Some (a, r) -> nth_error sets' j = Some slots ->
                   forall k v, In (k, v) slots -> S a k v).
    { intros j a r slots _ H2 k v Hin. apply HS. cbn [ev_slot].
      apply nth_error_In in H2. unfold sets' in H2. destruct sets as [|x l].
      - destruct H2 as [H2|[]]. subst slots. destruct Hin.
      - exists slots. auto. }
    destruct (on_task_grows A S C _ _
      (fun t d t' d' p0 HR => process_storage_grows A S C c t (q_accounts q) (q_sub q) sets' more d t' d' p0 HR HI)
      _ _ _ _ _ R E) as [G2 R2].
    apply with_tasks_ok; [eapply grows_trans; eauto|exact R2].
  - destruct (take_req id (s_reqs s)) as [[q rest]|]; [|split; assumption].
    destruct (q_kind q); try (split; assumption).
    destruct codes as [|x l]; [apply REV|].
    destruct (match_codes (q_hashes q) (x :: l)) as [cs|] eqn:M; [|apply REV].
    destruct (on_task _ _ _ _) as [[ts db] p] eqn:E.
    assert (HI : forall i h c0, nth_error (q_hashes q) i = Some h -> nth_error cs i = Some (Some c0) -> C h c0).
    { intros i h c0 H1 H2. apply HC. cbn [ev_code]. eapply match_codes_in; eauto. }
    destruct (on_task_grows A S C _ _
      (fun t d t' d' p0 HR => process_bytecode_grows A S C t (q_hashes q) cs d t' d' p0 HR HI) _ _ _ _ _ R E) as [G2 R2].
    apply with_tasks_ok; [eapply grows_trans; eauto|exact R2].
  - destruct (take_req id (s_reqs s)) as [[q rest]|]; [apply REV|split; assumption].
Qed.

Lemma shutdown_ok s db0 : s_ok A S C db0 s -> s_ok A S C db0 (shutdown s).
Proof.
  intros [G R]. unfold shutdown.
  destruct (map_tasks forward (s_tasks s) (s_db s)) as [[ts db] p] eqn:E.
  destruct (map_tasks_grows A S C _ (fun t d t' d' p0 => forward_grows A S C t d t' d' p0) _ _ _ _ _ R E) as [G2 R2].
  match goal with |- s_ok _ _ _ _ {| s_tasks := s_tasks ?x; s_reqs := _; s_nextid := _; s_db := s_db ?x;
                                     s_root := _; s_snapped := _; s_panic := _; s_saved := _ |} =>
    assert (OK : s_ok A S C db0 x) end.
  { apply clean_accounts_ok. split; cbn [s_db s_tasks]; [eapply grows_trans; eauto|exact R2]. }
  destruct OK as [G3 R3]. split; cbn [s_db s_tasks]; assumption.
Qed.

Lemma load_tasks_res ps : all_res A (map load_task ps).
Proof.
  unfold all_res. apply Forall_forall. intros t Ht. apply in_map_iff in Ht. destruct Ht as (p & <- & _).
  intros res E. discriminate.
Qed.

Lemma fresh_tasks_res n b next step : all_res A (fresh_tasks n b next step).
Proof.
  revert next. induction n as [|n IH]; intros next; cbn [fresh_tasks]; constructor.
  - intros res E. discriminate.
  - apply IH.
Qed.

Lemma start_ok c s root db0 : grows A S C db0 (s_db s) -> s_ok A S C db0 (start c s root).
Proof.
  intros G. unfold start. apply post_ok. split; cbn [s_db s_tasks]; [exact G|].
  destruct (s_saved s); [apply load_tasks_res|apply fresh_tasks_res].
Qed.

Lemma step_ok c s e db0 :
  (forall k v, ev_acc e k v -> A k v) ->
  (forall a k v, ev_slot e k v -> S a k v) ->
  (forall h x, ev_code e h x -> C h x) ->
  s_ok A S C db0 s -> s_ok A S C db0 (step c s e).
Proof.
  intros HA HS HC OK. unfold step.
  destruct e; try (apply post_ok; apply handle_ok; assumption).
  - apply start_ok. apply shutdown_ok. exact OK.
  - apply shutdown_ok. exact OK.
  - exact OK.
Qed.

End Step.

(* ---------------------------------------------------------------- all histories *)
Definition hist_acc (evs : list event) (k : N) (v : bytes) : Prop := exists e, In e evs /\ ev_acc e k v.
Definition hist_slot (evs : list event) (a k : N) (v : bytes) : Prop := exists e, In e evs /\ ev_slot e k v.
Definition hist_code (evs : list event) (h : N) (c : bytes) : Prop := exists e, In e evs /\ ev_code e h c.

Lemma s_ok_mono (A A' : N -> bytes -> Prop) (S S' : N -> N -> bytes -> Prop) (C C' : N -> bytes -> Prop) db0 s :
  (forall k v, A k v -> A' k v) -> (forall a k v, S a k v -> S' a k v) -> (forall h c, C h c -> C' h c) ->
  s_ok A S C db0 s -> s_ok A' S' C' db0 s.
Proof.
  intros HA HS HC [G R]. split; [eapply grows_mono; eauto|eapply all_res_mono; eauto].
Qed.

Lemma run_from_ok c : forall evs pre s,
  s_ok (hist_acc pre) (hist_slot pre) (hist_code pre) empty_store s ->
  s_ok (hist_acc (pre ++ evs)) (hist_slot (pre ++ evs)) (hist_code (pre ++ evs)) empty_store
       (fold_left (step c) evs s).
Proof.
  induction evs as [|e r IH]; intros pre s OK; cbn [fold_left].
  - rewrite app_nil_r. exact OK.
  - replace (pre ++ e :: r) with ((pre ++ [e]) ++ r) by (rewrite <- app_assoc; reflexivity).
    apply IH. apply step_ok.
    + intros k v H. exists e. split; [apply in_or_app; right; left; reflexivity|exact H].
    + intros a k v H. exists e. split; [apply in_or_app; right; left; reflexivity|exact H].
    + intros h x H. exists e. split; [apply in_or_app; right; left; reflexivity|exact H].
    + eapply s_ok_mono; [| | |exact OK].
      * intros k v (e0 & Hin & H). exists e0. split; [apply in_or_app; left; exact Hin|exact H].
      * intros a k v (e0 & Hin & H). exists e0. split; [apply in_or_app; left; exact Hin|exact H].
      * intros h x (e0 & Hin & H). exists e0. split; [apply in_or_app; left; exact Hin|exact H].
Qed.

(* only_verified_stored: over ALL event lists, whatever is in the local flat state after the run was
   an item of an accepted account-range response / of a set of an accepted storage response / a blob
   of a bytecode response (stored under its own hash only: match_codes) of that history. *)
Theorem only_verified_stored c root evs :
  let s := run c root evs in
  (forall k v, get k (d_acc (s_db s)) = Some v -> hist_acc evs k v) /\
  (forall a k v, slot_get a k (s_db s) = Some v -> hist_slot evs a k v) /\
  (forall h x, get h (d_code (s_db s)) = Some x -> hist_code evs h x).
Proof.
  cbn zeta. unfold run.
  assert (OK0 : s_ok (hist_acc []) (hist_slot []) (hist_code []) empty_store (start c fresh root)).
  { apply start_ok. apply grows_refl. }
  pose proof (run_from_ok c evs [] _ OK0) as [(a & s & cd) _]. cbn [app] in a, s, cd.
  split; [|split].
  - intros k v H. destruct (a _ _ H) as [H'|H']; [discriminate|exact H'].
  - intros x k v H. destruct (s _ _ _ H) as [H'|H']; [|exact H'].
    unfold slot_get in H'. cbn in H'. discriminate.
  - intros h x H. destruct (cd _ _ H) as [H'|H']; [discriminate|exact H'].
Qed.

(* ---------------------------------------------------------------- Part 2: rejected responses *)
(* the range markers and the response being filled *)
Definition core (t : atask) := (t_next t, t_last t, t_res t, t_done t, t_completed t).
Definition sub_marks (t : atask) : list (N * list (N * N)) :=
  map (fun '(a, l) => (a, map (fun st => (st_next st, st_last st)) l)) (t_subs t).

(* an event that the handlers reject: failed proof, entirely empty response, malformed storage
   response, empty or unmatched bytecode response, timeout *)
Definition rejected (s : syncer) (e : event) : Prop :=
  match e with
  | EAcc id items hp ok _ => ok = false \/ (items = [] /\ hp = false)
  | ESto id sets hp lm ok _ => ok = false \/ lm = true \/ (sets = [] /\ hp = false)
  | ECode id codes => codes = [] \/ forall q rest, take_req id (s_reqs s) = Some (q, rest) -> match_codes (q_hashes q) codes = None
  | ETimeout _ => True
  | _ => False
  end.

Lemma on_task_revert_core q last : forall ts db ts' db' p,
  on_task last (revert q) ts db = (ts', db', p) -> db' = db /\ map core ts' = map core ts /\ p = false.
Proof.
  induction ts as [|t r IH]; intros db ts' db' p H; cbn [on_task] in H.
  - inversion H. auto.
  - destruct (t_last t =? last).
    + destruct (revert q t db) as [[t1 d1] p1] eqn:E. inversion H. subst.
      unfold revert in E. destruct (q_kind q).
      * inversion E. subst. auto.
      * inversion E. subst. auto.
      * destruct (q_sub q) as [[sa sl]|]; inversion E; subst; auto.
    + destruct (on_task last (revert q) r db) as [[r1 d1] p1] eqn:E. inversion H. subst.
      destruct (IH _ _ _ _ E) as (-> & E2 & ->). cbn [map]. rewrite E2. auto.
Qed.

(* progress_monotone, second half: a rejected / empty / timed-out response, or a response to a
   request that is not (or no longer) tracked (stale, duplicate), changes neither the flat state
   nor any Next/Last marker nor any response being filled. *)
Theorem rejected_changes_nothing c s e :
  rejected s e \/ (forall id, (match e with EAcc i _ _ _ _ | ESto i _ _ _ _ _ | ECode i _ | ETimeout i => i = id | _ => False end) ->
                   take_req id (s_reqs s) = None) ->
  s_db (handle c s e) = s_db s /\ map core (s_tasks (handle c s e)) = map core (s_tasks s)
  /\ s_panic (handle c s e) = s_panic s.
Proof.
  assert (REV : forall q rest,
    s_db (with_tasks s rest (on_task (q_task q) (revert q) (s_tasks s) (s_db s))) = s_db s /\
    map core (s_tasks (with_tasks s rest (on_task (q_task q) (revert q) (s_tasks s) (s_db s)))) = map core (s_tasks s) /\
    s_panic (with_tasks s rest (on_task (q_task q) (revert q) (s_tasks s) (s_db s))) = s_panic s).
  { intros q rest. destruct (on_task _ _ _ _) as [[ts db] p] eqn:E.
    destruct (on_task_revert_core _ _ _ _ _ _ _ E) as (-> & E2 & ->).
    cbn [with_tasks s_db s_tasks s_panic]. rewrite orb_false_r. auto. }
  intros [R|ST]; unfold handle.
  - destruct e as [id items hp ok more|id sets hp lm ok more|id codes|id|root| |]; cbn [rejected] in R; try contradiction.
    + destruct (take_req id (s_reqs s)) as [[q rest]|]; [|auto].
      destruct (q_kind q); auto.
      assert (EB : (match items with [] => negb hp | _ => false end) || negb ok = true).
      { destruct R as [->|[-> ->]]; [apply orb_true_r|reflexivity]. }
      rewrite EB. apply REV.
    + destruct (take_req id (s_reqs s)) as [[q rest]|]; [|auto].
      destruct (q_kind q); auto.
      assert (EB : lm || (length (q_accounts q) <? length sets)%nat
                   || (match sets with [] => negb hp | _ => false end) || negb ok = true).
      { destruct R as [->|[->|[-> ->]]]; [apply orb_true_r|reflexivity|].
        cbn [negb]. rewrite orb_true_r. reflexivity. }
      rewrite EB. apply REV.
    + destruct (take_req id (s_reqs s)) as [[q rest]|] eqn:T; [|auto].
      destruct (q_kind q); auto.
      destruct R as [->|R]; [apply REV|].
      destruct codes as [|x l]; [apply REV|].
      rewrite (R q rest eq_refl). apply REV.
    + destruct (take_req id (s_reqs s)) as [[q rest]|]; [apply REV|auto].
  - destruct e as [id items hp ok more|id sets hp lm ok more|id codes|id|root| |]; auto;
      rewrite (ST id eq_refl); auto.
Qed.

(* ---------------------------------------------------------------- Part 3: forwardAccountTask *)
(* progress_monotone, first half, for the one operation that moves Next: the new marker is the old
   one or the successor of a delivered key, everything written lies below the new marker's key, and
   the task is flagged done only when the whole response was persisted and it had no continuation *)
Lemma advance_spec items : forall nc ns next cp next' cp' al,
  advance items nc ns next cp = (next', cp', al) ->
  next' = next \/ exists k a, In (k, a) items /\ next' = inc_hash k.
Proof.
  induction items as [|[h a] r IH]; intros nc ns next cp next' cp' al H; cbn [advance] in H.
  - inversion H. auto.
  - destruct nc as [|c nc']; [inversion H; auto|].
    destruct ns as [|s ns']; [inversion H; auto|].
    destruct (c || s); [inversion H; auto|].
    destruct (IH _ _ _ _ _ _ _ H) as [->|(k & a0 & Hin & ->)].
    + right. exists h, a. split; [left; reflexivity|reflexivity].
    + right. exists k, a0. split; [right; exact Hin|reflexivity].
Qed.

Theorem forward_next t db t' db' p :
  forward t db = (t', db', p) ->
  t_last t' = t_last t /\
  (t_next t' = t_next t \/
   exists res k a, t_res t = Some res /\ In (k, a) (r_items res) /\ t_next t' = inc_hash k).
Proof.
  unfold forward. destruct (t_res t) as [res|] eqn:E.
  - destruct (write_prefix _ _ _ _) as [d1 p1]. destruct p1.
    + intros H. inversion H. subst. cbn [set_core t_last t_next]. auto.
    + destruct (advance _ _ _ _ _) as [[n cp] al] eqn:AD.
      destruct (advance_spec _ _ _ _ _ _ _ _ AD) as [->|(k & a & Hin & ->)];
        destruct al; intros H; inversion H; subst; cbn [set_core t_last t_next]; split; auto;
        right; exists res, k, a; auto.
  - intros H. inversion H. subst. auto.
Qed.

(* with the verifier's contract on the response being filled (keys strictly below 2^256-1 or the
   task is finished, and not below the task's Next) the marker never moves backwards *)
Theorem forward_monotone t db t' db' p :
  (forall res k a, t_res t = Some res -> In (k, a) (r_items res) -> t_next t <= k /\ k < MAXH) ->
  forward t db = (t', db', p) -> t_next t <= t_next t'.
Proof.
  intros HW H. destruct (forward_next _ _ _ _ _ H) as [_ [->|(res & k & a & E & Hin & ->)]].
  - apply N.le_refl.
  - destruct (HW _ _ _ E Hin) as [H1 H2]. unfold inc_hash.
    destruct (k =? MAXH) eqn:EM; [apply N.eqb_eq in EM; lia|lia].
Qed.

(* ---------------------------------------------------------------- a concrete history (non-vacuity) *)
(* two account chunks, a three-account target with one contract (two slots, one code); a corrupted
   response is rejected first, a stale one ignored, then honest responses complete the sync *)
Definition ex_cfg : config := {| c_acc := 2; c_sto := 2 |}.
Definition ex_a1 : acct := {| a_blob := [1]; a_root := EMPTY_ROOT; a_code := EMPTY_CODE |}.
Definition ex_a2 : acct := {| a_blob := [2]; a_root := 77; a_code := 99 |}.
Definition ex_a3 : acct := {| a_blob := [3]; a_root := EMPTY_ROOT; a_code := EMPTY_CODE |}.
Definition ex_hi : N := 2 ^ 255 + 5.
Definition ex_events : list event :=
  [ EAcc 0 [(5, {| a_blob := [9]; a_root := EMPTY_ROOT; a_code := EMPTY_CODE |})] true false false;  (* rejected *)
    EAcc 0 [(5, ex_a1)] true true false;                                                            (* stale id *)
    EAcc 2 [(5, ex_a1); (7, ex_a2)] true true false;
    EAcc 1 [(ex_hi, ex_a3)] true true false;
    ECode 3 [(99, [96; 0])];
    ESto 4 [[(1, [42]); (2, [43])]] false false true false;
    EComplete ].
Definition ex_final : syncer := run ex_cfg 1 ex_events.
Definition c47_example_check : bool :=
  match s_tasks ex_final, s_panic ex_final with
  | [], false =>
      match d_acc (s_db ex_final), d_slot (s_db ex_final), d_code (s_db ex_final) with
      | [(5, [1]); (7, [2]); (k3, [3])], [(7, [(1, [42]); (2, [43])])], [(99, [96; 0])] => k3 =? ex_hi
      | _, _, _ => false
      end
  | _, _ => false
  end.

(* ---------------------------------------------------------------- soundness half of complete_implies_equal *)
(* If every ACCEPTED response of the history only carries items of the target (the soundness of the
   range verifier against the pivot root / the account's storage root, and Keccak preimage
   resistance for codes), the local flat state is a subset of the target after any history. *)
Theorem stored_subset_target c root evs
    (TA : N -> bytes -> Prop) (TS : N -> bytes -> Prop) (TC : N -> bytes -> Prop) :
  (forall e k v, In e evs -> ev_acc e k v -> TA k v) ->
  (forall e k v, In e evs -> ev_slot e k v -> TS k v) ->
  (forall e h x, In e evs -> ev_code e h x -> TC h x) ->
  let s := run c root evs in
  (forall k v, get k (d_acc (s_db s)) = Some v -> TA k v) /\
  (forall a k v, slot_get a k (s_db s) = Some v -> TS k v) /\
  (forall h x, get h (d_code (s_db s)) = Some x -> TC h x).
Proof.
  intros HA HS HC. cbn zeta. destruct (only_verified_stored c root evs) as (a & s & cd).
  split; [|split].
  - intros k v H. destruct (a _ _ H) as (e & Hin & He). eapply HA; eauto.
  - intros x k v H. destruct (s _ _ _ H) as (e & Hin & He). eapply HS; eauto.
  - intros h x H. destruct (cd _ _ H) as (e & Hin & He). eapply HC; eauto.
Qed.
