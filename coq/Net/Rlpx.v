(* Net/Rlpx.v — executable model of the RLPx transport, transcribed from
   /repo/p2p/rlpx/rlpx.go and /repo/p2p/rlpx/buffer.go.  Definitions only
   (proofs: Net/RlpxProofs.v).

   Part 1 (FULL model): framing.  Conn.Write / sessionState.writeFrame,
   Conn.Read / sessionState.readFrame, hashMAC.computeHeader / computeFrame /
   compute, readBuffer.reset / read / grow with io.ReadAtLeast over a connection
   that delivers the byte stream in arbitrary fragments, readUint24 / putUint24.
   The cryptographic primitives are Section variables:
     cst, cnext      the AES-CTR cipher.Stream: a state and "next keystream byte"
                     (enc of one side and dec of the other start from the same state:
                      same key, zero IV, InitWithSecrets)
     hst, hwrite,    the legacy-Keccak256 hash.Hash inside hashMAC: Write and Sum
     hsum            (Sum does not change the state)
     blk             cipher.Block.Encrypt of the MAC-secret AES, on the first 16 bytes
     snappy_*        github.com/golang/snappy Encode / DecodedLen / Decode
     newcap          capacity chosen by Go's append when readBuffer.grow reallocates
   Run/C44.v instantiates them with the Coq Keccak sponge (Keccak/Sponge.v), the Coq
   AES of Net/Aes.v, and a snappy table supplied by the harness.

   Part 2 (SYMBOLIC model): the EIP-8 handshake (runInitiator, runRecipient,
   makeAuthMsg, handleAuthMsg, makeAuthResp, handleAuthResp, sealEIP8, readMsg,
   secrets) over abstract ECIES / ECDH / ECDSA-recover / Keccak / RLP-struct codecs. *)
From Coq Require Import Arith.
From GV Require Import Lib.Bytes Rlp.Item Rlp.Raw Rlp.Codec.
Local Open Scope N_scope.

(* error classes of this family (also the observable classes of the harness) *)
Inductive rerr : Type :=
| EConnEOF            (* io.EOF from the connection: nothing read in this ReadAtLeast *)
| EConnUnexpectedEOF  (* io.ErrUnexpectedEOF: connection ended inside a read *)
| EShortBuffer        (* io.ErrShortBuffer; model-internal impossibilities (proved unreachable) *)
| EBadHeaderMAC       (* "bad header MAC" *)
| EBadFrameMAC        (* "bad frame MAC" *)
| EBadCode            (* "invalid message code: ..." *)
| ETooLarge           (* errPlainMessageTooLarge *)
| ESnappy             (* snappy.DecodedLen / snappy.Decode error *)
| EHsTooBig           (* handshake: "message too big" *)
| EHsDecrypt          (* handshake: ecies Decrypt error *)
| EHsDecode           (* handshake: rlp decode error *)
| EHsInvalidPub       (* handshake: importPublicKey error (wrong length / not on curve) *)
| EHsRecover.         (* handshake: crypto.Ecrecover error *)

Definition rerr_code (e : rerr) : N :=
  match e with
  | EConnEOF => 1 | EConnUnexpectedEOF => 2 | EShortBuffer => 3 | EBadHeaderMAC => 4
  | EBadFrameMAC => 5 | EBadCode => 6 | ETooLarge => 7 | ESnappy => 8 | EHsTooBig => 9
  | EHsDecrypt => 10 | EHsDecode => 11 | EHsInvalidPub => 12 | EHsRecover => 13
  end.

Inductive rres (A : Type) : Type :=
| Good (a : A)
| Bad (e : rerr).
Arguments Good {A} a.
Arguments Bad {A} e.

(* buffer.go: const maxUint24 = int(^uint32(0) >> 8) *)
Definition max_uint24 : N := 16777215.

(* buffer.go putUint24(v uint32, b): b[0]=byte(v>>16); b[1]=byte(v>>8); b[2]=byte(v) *)
Definition put_uint24 (v : N) : list N :=
  [ (v / 65536) mod 256; (v / 256) mod 256; v mod 256 ].

(* buffer.go readUint24(b): uint32(b[2]) | uint32(b[1])<<8 | uint32(b[0])<<16;
   None = index out of range panic (b shorter than 3) *)
Definition read_uint24 (b : list N) : option N :=
  match b with
  | b0 :: b1 :: b2 :: _ => Some (b2 + b1 * 256 + b0 * 65536)
  | _ => None
  end.

(* rlpx.go: zeroHeader = []byte{0xC2, 0x80, 0x80} *)
Definition zero_header : list N := [194; 128; 128].

(* rlp/encode.go IntSize(x uint64): 1 if x < 0x80 else 1 + intsize(x) *)
Definition int_size (x : N) : N := if x <? 128 then 1 else 1 + lenN (be_bytes x).

(* "if padding := fsize % 16; padding > 0 { ... 16 - padding }" *)
Definition pad16 (fsize : N) : N := if fsize mod 16 =? 0 then 0 else 16 - fsize mod 16.

(* hmac.Equal = subtle.ConstantTimeCompare == 1: same length and same bytes *)
Definition bytes_eqb (a b : list N) : bool := list_eqb N.eqb a b.

(* dst[i] = a[i] ^ b[i] over the shorter operand *)
Fixpoint xor_bytes (a b : list N) : list N :=
  match a, b with
  | x :: a', y :: b' => N.lxor x y :: xor_bytes a' b'
  | _, _ => []
  end.

(* ------------------------------------------------------------------------- *)
(* The connection as the reader sees it: the byte stream cut into fragments;   *)
(* one conn.Read(buf) returns min(len(buf), len(fragment)) bytes of the first  *)
(* fragment (net.Pipe semantics: one Write = one fragment, never coalesced).   *)
Definition conn : Type := list (list N).

(* io.ReadAtLeast(r, buf, min) with len(buf) = space, min = need; [first] = "n == 0
   so far".  Returns the bytes stored in buf[:n] and the remaining connection.
     for n < min && err == nil { nn, err = r.Read(buf[n:]); n += nn }
     if n >= min { err = nil } else if n > 0 && err == EOF { err = ErrUnexpectedEOF } *)
Fixpoint ral (fr : conn) (space need : nat) (first : bool) : rres (list N * conn) :=
  match need with
  | O => Good ([], fr)
  | S _ =>
      match fr with
      | [] => Bad (if first then EConnEOF else EConnUnexpectedEOF)
      | f :: r =>
          if (length f <=? space)%nat then
            match ral r (space - length f) (need - length f)
                      (first && (length f =? 0)%nat) with
            | Good (got, fr') => Good (f ++ got, fr')
            | Bad e => Bad e
            end
          else Good (firstn space f, skipn space f :: r)
      end
  end.

Definition read_at_least (fr : conn) (space need : nat) : rres (list N * conn) :=
  if (space <? need)%nat then Bad EShortBuffer   (* io.ErrShortBuffer *)
  else ral fr space need true.

Section Framing.
Variable cst : Type.
Variable cnext : cst -> N * cst.
Variable hst : Type.
Variable hwrite : hst -> list N -> hst.
Variable hsum : hst -> list N.
Variable blk : list N -> list N.
Variable snappy_enc : list N -> list N.
Variable snappy_declen : list N -> option N.
Variable snappy_dec : list N -> option (list N).
Variable newcap : nat -> nat -> nat.

(* cipher.Stream.XORKeyStream(d, d): returns the output and the advanced stream *)
Fixpoint xor_ks (c : cst) (d : list N) : list N * cst :=
  match d with
  | [] => ([], c)
  | b :: r =>
      let '(k, c1) := cnext c in
      let '(out, c2) := xor_ks c1 r in
      (N.lxor b k :: out, c2)
  end.

(* ---- hashMAC (the cipher.Block is fixed; the scratch buffers carry no state) ---- *)

(* rlpx.go hashMAC.compute(sum1, seed):
     m.cipher.Encrypt(m.aesBuffer[:], sum1); aesBuffer[i] ^= seed[i];
     m.hash.Write(m.aesBuffer[:]); sum2 := m.hash.Sum(..); return sum2[:16]
   (len(seed) = 16 and len(sum1) = 32 by the Go array types) *)
Definition mac_compute (m : hst) (sum1 seed : list N) : hst * list N :=
  let aesbuf := xor_bytes (blk (firstn 16 sum1)) seed in
  let m' := hwrite m aesbuf in
  (m', firstn 16 (hsum m')).

(* rlpx.go hashMAC.computeHeader(header) *)
Definition compute_header (m : hst) (header : list N) : hst * list N :=
  mac_compute m (hsum m) header.

(* rlpx.go hashMAC.computeFrame(framedata) *)
Definition compute_frame (m : hst) (framedata : list N) : hst * list N :=
  let m1 := hwrite m framedata in
  let seed := hsum m1 in
  mac_compute m1 seed (firstn 16 seed).

(* ---- writing ---- *)
Record wstate : Type := mkw { w_enc : cst; w_mac : hst }.

(* rlpx.go sessionState.writeFrame(conn, code, data): the bytes handed to conn.Write *)
Definition write_frame (w : wstate) (code : N) (data : list N) : rres (wstate * list N) :=
  let fsize := int_size code + lenN data in
  if max_uint24 <? fsize then Bad ETooLarge else
  let header := put_uint24 fsize ++ zero_header ++ repeat 0 10 in
  let '(hc, c1) := xor_ks (w_enc w) header in
  let '(m1, hm) := compute_header (w_mac w) hc in
  let fd := enc_uint code ++ data ++ repeat 0 (N.to_nat (pad16 fsize)) in
  let '(fc, c2) := xor_ks c1 fd in
  let '(m2, fm) := compute_frame m1 fc in
  Good (mkw c2 m2, hc ++ hm ++ fc ++ fm).

(* rlpx.go Conn.Write(code, data) -> (wire bytes, wireSize) *)
Definition conn_write (snappy : bool) (w : wstate) (code : N) (data : list N)
  : rres (wstate * list N * N) :=
  if max_uint24 <? lenN data then Bad ETooLarge else
  let data' := if snappy then snappy_enc data else data in
  match write_frame w code data' with
  | Good (w', wire) => Good (w', wire, lenN data')
  | Bad e => Bad e
  end.

(* ---- readBuffer ---- *)
(* rb_buf = b.data[0:b.end] (everything received and not yet discarded),
   rb_dlen = len(b.data) (the processed prefix), rb_cap = cap(b.data) *)
Record rbuf : Type := mkrb { rb_buf : list N; rb_dlen : nat; rb_cap : nat }.

Definition rb_empty : rbuf := mkrb [] 0 0.

(* buffer.go readBuffer.reset *)
Definition rb_reset (b : rbuf) : rbuf :=
  mkrb (skipn (rb_dlen b) (rb_buf b)) 0 (rb_cap b).

(* buffer.go readBuffer.grow(n) *)
Definition rb_grow (b : rbuf) (n : nat) : rbuf :=
  let e := length (rb_buf b) in
  if (n <=? rb_cap b - e)%nat then b
  else mkrb (rb_buf b) (rb_dlen b) (newcap (rb_cap b) (n - (rb_cap b - e))).

(* buffer.go readBuffer.read(r, n) *)
Definition rb_read (b : rbuf) (fr : conn) (n : nat) : rres (list N * rbuf * conn) :=
  let offset := rb_dlen b in
  let have := (length (rb_buf b) - rb_dlen b)%nat in
  if (n <=? have)%nat then
    Good (firstn n (skipn offset (rb_buf b)), mkrb (rb_buf b) (offset + n) (rb_cap b), fr)
  else
    let need := (n - have)%nat in
    let b1 := rb_grow b need in
    match read_at_least fr (rb_cap b1 - length (rb_buf b1)) need with
    | Bad e => Bad e
    | Good (got, fr') =>
        let buf' := rb_buf b1 ++ got in
        Good (firstn n (skipn offset buf'), mkrb buf' (offset + n) (rb_cap b1), fr')
    end.

(* ---- reading ---- *)
Record rstate : Type := mkr { r_dec : cst; r_mac : hst; r_buf : rbuf }.

(* rlpx.go sessionState.readFrame(conn) *)
Definition read_frame (r : rstate) (fr : conn) : rres (list N * rstate * conn) :=
  let b0 := rb_reset (r_buf r) in
  match rb_read b0 fr 32 with
  | Bad e => Bad e
  | Good (header, b1, fr1) =>
  let hc := firstn 16 header in
  let '(m1, want) := compute_header (r_mac r) hc in
  if negb (bytes_eqb want (skipn 16 header)) then Bad EBadHeaderMAC else
  let '(hp, c1) := xor_ks (r_dec r) hc in
  match read_uint24 hp with
  | None => Bad EShortBuffer
  | Some fsize =>
  let rsize := fsize + pad16 fsize in
  match rb_read b1 fr1 (N.to_nat rsize) with
  | Bad e => Bad e
  | Good (fc, b2, fr2) =>
  match rb_read b2 fr2 16 with
  | Bad e => Bad e
  | Good (fm, b3, fr3) =>
  let '(m2, wantf) := compute_frame m1 fc in
  if negb (bytes_eqb wantf fm) then Bad EBadFrameMAC else
  let '(fp, c2) := xor_ks c1 fc in
  Good (firstn (N.to_nat fsize) fp, mkr c2 m2 b3, fr3)
  end end end end.

(* a delivered message: (code, data, wireSize) *)
Definition msg : Type := (N * list N * N)%type.

(* rlpx.go Conn.Read *)
Definition conn_read (snappy : bool) (r : rstate) (fr : conn) : rres (msg * rstate * conn) :=
  match read_frame r fr with
  | Bad e => Bad e
  | Good (frame, r', fr') =>
  match split_uint64 frame with
  | Err _ => Bad EBadCode
  | Ok (code, data) =>
      let wsz := lenN data in
      if snappy then
        match snappy_declen data with
        | None => Bad ESnappy
        | Some n =>
            if max_uint24 <? n then Bad ETooLarge else
            match snappy_dec data with
            | None => Bad ESnappy
            | Some d => Good ((code, d, wsz), r', fr')
            end
        end
      else Good ((code, data, wsz), r', fr')
  end end.

(* ---- sessions: a writer sending a list of messages, a reader reading until the
   first error (the p2p layer closes the connection on any Read error) ---- *)

(* all messages must be accepted; the concatenated wire *)
Fixpoint write_msgs (snappy : bool) (w : wstate) (ms : list (N * list N))
  : rres (wstate * list N * list N) :=
  match ms with
  | [] => Good (w, [], [])
  | (code, data) :: r =>
      match conn_write snappy w code data with
      | Bad e => Bad e
      | Good (w1, wire, wsz) =>
          match write_msgs snappy w1 r with
          | Bad e => Bad e
          | Good (w2, wires, wszs) => Good (w2, wire ++ wires, wsz :: wszs)
          end
      end
  end.

(* per-message results; a rejected message leaves the writer state unchanged *)
Fixpoint write_each (snappy : bool) (w : wstate) (ms : list (N * list N))
  : list (rres (list N * N)) :=
  match ms with
  | [] => []
  | (code, data) :: r =>
      match conn_write snappy w code data with
      | Bad e => Bad e :: write_each snappy w r
      | Good (w1, wire, wsz) => Good (wire, wsz) :: write_each snappy w1 r
      end
  end.

(* read until the first error; [None] = the read budget k ran out first *)
Fixpoint read_until (k : nat) (snappy : bool) (r : rstate) (fr : conn)
  : list msg * option rerr :=
  match k with
  | O => ([], None)
  | S k' =>
      match conn_read snappy r fr with
      | Bad e => ([], Some e)
      | Good (m, r', fr') =>
          let '(ms, e) := read_until k' snappy r' fr' in (m :: ms, e)
      end
  end.

(* ---- the same reader on the unfragmented stream (specification of what the
   chunked reader computes; RlpxProofs.read_until_stream) ---- *)
Definition take_s (n : nat) (s : list N) : option (list N * list N) :=
  if (n <=? length s)%nat then Some (firstn n s, skipn n s) else None.

Record sstate : Type := mks { s_dec : cst; s_mac : hst }.

(* a short stream is reported as EConnEOF here; the chunked reader reports
   EConnEOF or EConnUnexpectedEOF depending on the fragmentation (see norm_err) *)
Definition read_frame_s (r : sstate) (s : list N) : rres (list N * sstate * list N) :=
  match take_s 32 s with
  | None => Bad EConnEOF
  | Some (header, s1) =>
  let hc := firstn 16 header in
  let '(m1, want) := compute_header (s_mac r) hc in
  if negb (bytes_eqb want (skipn 16 header)) then Bad EBadHeaderMAC else
  let '(hp, c1) := xor_ks (s_dec r) hc in
  match read_uint24 hp with
  | None => Bad EShortBuffer
  | Some fsize =>
  let rsize := fsize + pad16 fsize in
  match take_s (N.to_nat rsize) s1 with
  | None => Bad EConnEOF
  | Some (fc, s2) =>
  match take_s 16 s2 with
  | None => Bad EConnEOF
  | Some (fm, s3) =>
  let '(m2, wantf) := compute_frame m1 fc in
  if negb (bytes_eqb wantf fm) then Bad EBadFrameMAC else
  let '(fp, c2) := xor_ks c1 fc in
  Good (firstn (N.to_nat fsize) fp, mks c2 m2, s3)
  end end end end.

Definition conn_read_s (snappy : bool) (r : sstate) (s : list N) : rres (msg * sstate * list N) :=
  match read_frame_s r s with
  | Bad e => Bad e
  | Good (frame, r', s') =>
  match split_uint64 frame with
  | Err _ => Bad EBadCode
  | Ok (code, data) =>
      let wsz := lenN data in
      if snappy then
        match snappy_declen data with
        | None => Bad ESnappy
        | Some n =>
            if max_uint24 <? n then Bad ETooLarge else
            match snappy_dec data with
            | None => Bad ESnappy
            | Some d => Good ((code, d, wsz), r', s')
            end
        end
      else Good ((code, data, wsz), r', s')
  end end.

Fixpoint read_until_s (k : nat) (snappy : bool) (r : sstate) (s : list N)
  : list msg * option rerr :=
  match k with
  | O => ([], None)
  | S k' =>
      match conn_read_s snappy r s with
      | Bad e => ([], Some e)
      | Good (m, r', s') =>
          let '(ms, e) := read_until_s k' snappy r' s' in (m :: ms, e)
      end
  end.

End Framing.

(* io.EOF and io.ErrUnexpectedEOF are one class once the fragmentation is forgotten *)
Definition norm_err (e : rerr) : rerr :=
  match e with EConnUnexpectedEOF => EConnEOF | _ => e end.
Definition norm_res (x : list msg * option rerr) : list msg * option rerr :=
  (fst x, option_map norm_err (snd x)).

(* the bytes still to be consumed by a reader: buffered-unprocessed ++ in flight *)
Definition rb_rem (b : rbuf) (fr : conn) : list N := skipn (rb_dlen b) (rb_buf b) ++ concat fr.

(* wire length of a frame carrying fsize bytes: header+MAC, padded data, MAC *)
Definition frame_wire_len (fsize : N) : N := 32 + (fsize + pad16 fsize) + 16.

(* which part of a frame a wire offset falls into, and the error the reader reports
   when a byte there is modified (RlpxProofs, tamper lemmas) *)
Definition tamper_class (fsize off : N) : rerr :=
  if off <? 32 then EBadHeaderMAC else EBadFrameMAC.

(* locate a stream offset in a sequence of frames given their fsizes:
   (index of the frame, offset inside it); None = beyond the last frame *)
Fixpoint locate (fsizes : list N) (off : N) (idx : N) : option (N * N * N) :=
  match fsizes with
  | [] => None
  | f :: r =>
      let l := frame_wire_len f in
      if off <? l then Some (idx, off, f) else locate r (off - l) (idx + 1)
  end.

(* ========================================================================= *)
(* Part 2: the handshake as a symbolic protocol.                               *)
Section Handshake.
Variable key : Type.                 (* private keys (static and ephemeral) *)
Variable point : Type.               (* valid curve points = public keys *)
Variable pub_of : key -> point.
(* exportPubkey / crypto.FromECDSAPub(..)[1:]: the 64-byte form *)
Variable export_pub : point -> list N.
(* importPublicKey: None = wrong length or crypto.UnmarshalPubkey error (not on the curve) *)
Variable import_pub : list N -> option point.
(* ecies PrivateKey.GenerateShared(pub, 16, 16) *)
Variable ecdh : key -> point -> list N.
(* crypto.Sign(hash, prv) and crypto.Ecrecover followed by importPublicKey *)
Variable sign : key -> list N -> list N.
Variable ecrecover : list N -> list N -> option point.
(* ecies.Encrypt(rand, pub, m, nil, s2) / PrivateKey.Decrypt(c, nil, s2) *)
Variable ecies_enc : point -> list N -> list N -> list N -> list N.
Variable ecies_dec : key -> list N -> list N -> option (list N).
(* crypto.Keccak256 of the concatenation *)
Variable kec : list N -> list N.
(* rlp.Encode of authMsgV4{Signature, InitiatorPubkey, Nonce, Version=4} and the
   stream decoder used by readMsg (trailing bytes after the list are ignored) *)
Variable enc_auth : list N -> list N -> list N -> list N.
Variable dec_auth : list N -> option (list N * list N * list N).
(* authRespV4{RandomPubkey, Nonce, Version=4} *)
Variable enc_resp : list N -> list N -> list N.
Variable dec_resp : list N -> option (list N * list N).

(* rlpx.go: eciesOverhead = 65 + 16 + 32 *)
Definition ecies_overhead : N := 113.

(* binary.BigEndian.PutUint16(prefix, uint16(n)) *)
Definition put_uint16 (n : N) : list N := [ (n / 256) mod 256; n mod 256 ].

(* rlpx.go sealEIP8: plaintext = rlp(msg) ++ zero padding (100..199 bytes);
   prefix = uint16(len + eciesOverhead); packet = prefix ++ ecies(prefix as shared MAC data) *)
Definition seal_eip8 (remote : point) (rnd plain : list N) (padlen : nat) : list N :=
  let body := plain ++ repeat 0 padlen in
  let prefix := put_uint16 (lenN body + ecies_overhead) in
  prefix ++ ecies_enc remote rnd body prefix.

(* rlpx.go readMsg on a complete packet: size prefix, limit 2048, ECIES decryption with
   the prefix as authenticated data.  (Reading from the connection goes through the
   readBuffer of part 1; here the packet is given whole.) *)
Definition read_msg (prv : key) (packet : list N) : rres (list N * list N) :=
  match packet with
  | p0 :: p1 :: body =>
      let size := p0 * 256 + p1 in
      if 2048 <? size then Bad EHsTooBig else
      if lenN body <? size then Bad EConnEOF else
      let ct := firstn (N.to_nat size) body in
      match ecies_dec prv ct [p0; p1] with
      | None => Bad EHsDecrypt
      | Some plain => Good (plain, p0 :: p1 :: ct)   (* h.rbuf.data[:len(prefix)+len(packet)] *)
      end
  | _ => Bad EConnEOF
  end.

Record secrets : Type := mksec {
  sec_remote : point;        (* the peer's static public key, returned by Handshake *)
  sec_aes : list N;
  sec_mac : list N;
  sec_egress : list N;       (* bytes absorbed by the egress MAC hash so far *)
  sec_ingress : list N }.

(* rlpx.go handshakeState.secrets(auth, authResp) *)
Definition derive (initiator : bool) (remote : point) (eph : key) (remote_eph : point)
    (init_nonce resp_nonce auth auth_resp : list N) : secrets :=
  let ecdhe := ecdh eph remote_eph in
  let shared := kec (ecdhe ++ kec (resp_nonce ++ init_nonce)) in
  let aes := kec (ecdhe ++ shared) in
  let mac := kec (ecdhe ++ aes) in
  let mac1 := xor_bytes mac resp_nonce ++ auth in
  let mac2 := xor_bytes mac init_nonce ++ auth_resp in
  if initiator then mksec remote aes mac mac1 mac2 else mksec remote aes mac mac2 mac1.

(* rlpx.go runInitiator, first half: makeAuthMsg + sealEIP8 *)
Definition initiator_auth (prv : key) (remote : point) (nonce : list N) (eph : key)
    (rnd : list N) (padlen : nat) : list N :=
  let token := ecdh prv remote in
  let signed := xor_bytes token nonce in
  let sg := sign eph signed in
  seal_eip8 remote rnd (enc_auth sg (export_pub (pub_of prv)) nonce) padlen.

(* rlpx.go runRecipient: readMsg, handleAuthMsg, makeAuthResp, sealEIP8, secrets *)
Definition recipient_run (prv : key) (auth_packet : list N) (nonce : list N) (eph : key)
    (rnd : list N) (padlen : nat) : rres (list N * secrets) :=
  match read_msg prv auth_packet with
  | Bad e => Bad e
  | Good (plain, auth_exact) =>
  match dec_auth plain with
  | None => Bad EHsDecode
  | Some (sg, pubbytes, init_nonce) =>
  match import_pub pubbytes with
  | None => Bad EHsInvalidPub
  | Some rpub =>
  let token := ecdh prv rpub in
  let signed := xor_bytes token init_nonce in
  match ecrecover signed sg with
  | None => Bad EHsRecover
  | Some remote_eph =>
  let resp_packet := seal_eip8 rpub rnd (enc_resp (export_pub (pub_of eph)) nonce) padlen in
  Good (resp_packet, derive false rpub eph remote_eph init_nonce nonce auth_exact resp_packet)
  end end end end.

(* rlpx.go runInitiator, second half: readMsg, handleAuthResp, secrets *)
Definition initiator_finish (prv : key) (remote : point) (nonce : list N) (eph : key)
    (auth_packet resp_packet : list N) : rres secrets :=
  match read_msg prv resp_packet with
  | Bad e => Bad e
  | Good (plain, resp_exact) =>
  match dec_resp plain with
  | None => Bad EHsDecode
  | Some (ephbytes, resp_nonce) =>
  match import_pub ephbytes with
  | None => Bad EHsInvalidPub
  | Some remote_eph =>
  Good (derive true remote eph remote_eph nonce resp_nonce auth_packet resp_exact)
  end end end.

End Handshake.

(* crypto.UnmarshalPubkey behind importPublicKey, made concrete for secp256k1:
   64 bytes (or 65 with the 0x04 tag) x ‖ y, both < P, y^2 = x^3 + 7 (mod P)
   (crypto/secp256k1/curve.go BitCurve.Unmarshal + IsOnCurve).  This is the
   "invalid curve point = decode check" of the symbolic handshake, executable. *)
Definition secp_p : N := 2 ^ 256 - 2 ^ 32 - 977.
Definition import_pub_secp (b : list N) : option (N * N) :=
  let body := if lenN b =? 64 then Some b
              else if lenN b =? 65 then
                match b with t :: r => if t =? 4 then Some r else None | [] => None end
              else None in
  match body with
  | None => None
  | Some xy =>
      let x := be_decode (firstn 32 xy) in
      let y := be_decode (skipn 32 xy) in
      if (x <? secp_p) && (y <? secp_p) && ((y * y) mod secp_p =? (x * x * x + 7) mod secp_p)
      then Some (x, y) else None
  end.
