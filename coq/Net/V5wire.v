(* Net/V5wire.v — the discovery v5 wire codec of /repo/p2p/discover/v5wire
   (encoding.go Encode/EncodeRaw/Decode and helpers, session.go SessionCache,
   crypto.go) as an executable model over ABSTRACT cryptography.
   Definitions only; proofs are in Net/V5wireProofs.v.

   packet = masking-iv (16) || masked(static-header (23) || authdata) || message
   static-header = protocol-id (6) | version (2) | flag (1) | nonce (12) | authsize (2)

   Abstract (Section variables): the AES-CTR keystream used for header masking
   ([ks key iv i] = i-th keystream byte; masking is a byte-wise XOR and
   therefore an involution by construction), AES-GCM ([seal]/[open]), SHA-256
   of the id-signature input ([Hsha]), secp256k1 ([pub_of], [sign],
   [sig_verify], [pub_valid], [ecdh]), HKDF ([kdf]), decoding of a node record
   carried in a handshake ([rec_seq] = rlp.DecodeBytes succeeded and gave this
   seq, [rec_node] = enode.New accepted it — the path modelled in Net/Enr.v),
   well-formedness of a decrypted message body ([msg_ok] = DecodeMessage
   succeeds; the RLP layer is C01).
   Randomness (masking IV, nonce tail, ephemeral key, random-packet body) is an
   explicit argument of the encoders.

   Not modelled: LRU eviction of the session cache (1024 entries), handshake
   timeouts (handshakeGC; the clock of the correspondence run never advances),
   the Whoareyou resend path of Encode (len(ChallengeData) > 0), logging. *)
From GV Require Import Lib.Bytes Rlp.Item.
Local Open Scope N_scope.

Definition bytes := list N.
Definition beq (a b : bytes) : bool := list_eqb N.eqb a b.

(* fixed-width big-endian (encoding/binary.BigEndian) *)
Fixpoint be_fixed (w : nat) (n : N) : bytes :=
  match w with O => [] | S w' => be_fixed w' (n / 256) ++ [n mod 256] end.

(* ---- sizes (encoding.go:82-99, 116-123) ---- *)
Definition sizeofMaskingIV : N := 16.
Definition sizeofStaticHeader : N := 23.
Definition sizeofStaticPacketData : N := 39.
Definition sizeofWhoareyouAuthData : N := 24.
Definition sizeofHandshakeAuthData : N := 34.
Definition sizeofMessageAuthData : N := 32.
Definition minPacketSize : N := 63.
Definition minMessageSize : N := 48.
Definition flagMessage : N := 0.
Definition flagWhoareyou : N := 1.
Definition flagHandshake : N := 2.
Definition version : N := 1.
Definition minVersion : N := 1.

Inductive v5err : Type :=
| ETooShort | EInvalidHeader | EInvalidFlag | EMinVersion | EMsgTooShort | EAuthSize
| EUnexpectedHandshake | EInvalidAuthKey | ENoRecord | EInvalidNonceSig
| EMessageTooShort | EMessageDecrypt
| EAuthSizeKind        (* "invalid auth size %d for WHOAREYOU / message packet" *)
| EHandshakeAuthSize   (* "header authsize %d too low for handshake" *)
| ERecord              (* record in handshake undecodable / invalid / wrong ID *)
| EMsgDecode           (* DecodeMessage failed *)
| EInternal.           (* unreachable slice failure of the model; never a Go behaviour *)

Definition v5err_code (e : v5err) : N :=
  match e with
  | ETooShort => 1 | EInvalidHeader => 2 | EInvalidFlag => 3 | EMinVersion => 4
  | EMsgTooShort => 5 | EAuthSize => 6 | EUnexpectedHandshake => 7 | EInvalidAuthKey => 8
  | ENoRecord => 9 | EInvalidNonceSig => 10 | EMessageTooShort => 11 | EMessageDecrypt => 12
  | EAuthSizeKind => 13 | EHandshakeAuthSize => 14 | ERecord => 15 | EMsgDecode => 16
  | EInternal => 99
  end.

(* StaticHeader *)
Record sheader : Type := mkSH {
  h_proto : bytes; h_version : N; h_flag : N; h_nonce : bytes; h_authsize : N }.

(* binary.Write(&buf, BigEndian, &head.StaticHeader) *)
Definition enc_static (h : sheader) : bytes :=
  h_proto h ++ be_fixed 2 (h_version h) ++ [h_flag h] ++ h_nonce h ++ be_fixed 2 (h_authsize h).

(* binary.Read(&reader, BigEndian, &head.StaticHeader) on 23 bytes *)
Definition dec_static (b : bytes) : option sheader :=
  match take_drop 6 b with
  | Some (p, b1) =>
      match take_drop 2 b1 with
      | Some (v, f :: b3) =>
          match take_drop 12 b3 with
          | Some (n, b4) =>
              match take_drop 2 b4 with
              | Some (a, []) => Some (mkSH p (be_decode v) f n (be_decode a))
              | _ => None
              end
          | None => None
          end
      | _ => None
      end
  | None => None
  end.

(* encoding.go:671 StaticHeader.checkValid(packetLen, protocolID) *)
Definition check_valid (h : sheader) (packetLen : N) (proto : bytes) : option v5err :=
  if negb (beq (h_proto h) proto) then Some EInvalidHeader
  else if h_version h <? minVersion then Some EMinVersion
  else if negb (h_flag h =? flagWhoareyou) && (packetLen <? minMessageSize) then Some EMsgTooShort
  else if packetLen <? h_authsize h then Some EAuthSize
  else None.

(* enode.Node as far as the codec looks at it *)
Record node : Type := mkNode { n_id : bytes; n_pub : bytes; n_seq : N; n_rec : bytes }.

(* session.go session / Whoareyou (msg.go) *)
Record session : Type := mkSess { s_write : bytes; s_read : bytes; s_ctr : N; s_node : node }.
Record challenge : Type := mkChal {
  w_nonce : bytes; w_idnonce : bytes; w_seq : N; w_node : option node; w_cdata : bytes }.

Definition skey : Type := (bytes * bytes)%type.          (* sessionID{id, addr} *)
Definition skey_eqb (a b : skey) : bool := beq (fst a) (fst b) && beq (snd a) (snd b).

Fixpoint lookup {A} (k : skey) (m : list (skey * A)) : option A :=
  match m with
  | [] => None
  | (k', v) :: tl => if skey_eqb k k' then Some v else lookup k tl
  end.
Fixpoint remove {A} (k : skey) (m : list (skey * A)) : list (skey * A) :=
  match m with
  | [] => []
  | (k', v) :: tl => if skey_eqb k k' then remove k tl else (k', v) :: remove k tl
  end.
Definition put {A} (k : skey) (v : A) (m : list (skey * A)) : list (skey * A) :=
  (k, v) :: remove k m.

(* Codec + SessionCache *)
Record codec : Type := mkCodec {
  c_node : node;                 (* localnode: ID, current record and seq *)
  c_priv : bytes;                (* privkey *)
  c_proto : bytes;               (* protocolID *)
  c_sessions : list (skey * session);
  c_handshakes : list (skey * challenge)
}.
Definition c_id (c : codec) : bytes := n_id (c_node c).
Definition set_sessions (c : codec) (m : list (skey * session)) : codec :=
  mkCodec (c_node c) (c_priv c) (c_proto c) m (c_handshakes c).
Definition set_handshakes (c : codec) (m : list (skey * challenge)) : codec :=
  mkCodec (c_node c) (c_priv c) (c_proto c) (c_sessions c) m.

(* "discovery v5 identity proof" / "discovery v5 key agreement" *)
Definition id_proof_text : bytes :=
  [100;105;115;99;111;118;101;114;121;32;118;53;32;105;100;101;110;116;105;116;121;32;112;114;111;111;102].
Definition key_agreement_text : bytes :=
  [100;105;115;99;111;118;101;114;121;32;118;53;32;107;101;121;32;97;103;114;101;101;109;101;110;116].

(* what Decode returns: (src, node, packet, err) *)
Inductive dres : Type :=
| DErr (src : bytes) (e : v5err)
| DUnknown (src : bytes) (nonce : bytes)                       (* &Unknown{Nonce} *)
| DWhoareyou (w : challenge)                                   (* &Whoareyou{...}, Node = nil *)
| DMsg (src : bytes) (n : option node) (pt : bytes).           (* a decrypted, decoded message *)

Definition zero_id : bytes := repeat 0 32.

Section Crypto.
  Variable ks : bytes -> bytes -> nat -> N.
  Variable seal : bytes -> bytes -> bytes -> bytes -> bytes.            (* key nonce pt ad *)
  Variable open : bytes -> bytes -> bytes -> bytes -> option bytes.     (* key nonce ct ad *)
  Variable Hsha : bytes -> bytes.
  Variable pub_of : bytes -> bytes.
  Variable sign : bytes -> bytes -> bytes.                              (* priv hash *)
  Variable sig_verify : bytes -> bytes -> bytes -> bool.                (* pub hash sig *)
  Variable pub_valid : bytes -> bool.
  Variable ecdh : bytes -> bytes -> bytes.                              (* priv pub *)
  Variable kdf : bytes -> bytes -> bytes -> bytes * bytes.              (* secret salt info *)
  Variable rec_seq : bytes -> option N.
  Variable rec_node : bytes -> option node.
  Variable msg_ok : bytes -> bool.

  (* encoding.go:685 createMask / :694 applyMasking: AES-CTR keyed by destID[:16] *)
  Fixpoint xor_from (key iv : bytes) (off : nat) (d : bytes) : bytes :=
    match d with
    | [] => []
    | x :: t => N.lxor x (ks key iv off) :: xor_from key iv (S off) t
    end.
  Definition mask_key (id : bytes) : bytes := firstn 16 id.

  (* encoding.go:231 EncodeRaw: writeHeaders, applyMasking, append message *)
  Definition encode_raw (dest iv : bytes) (h : sheader) (auth msg : bytes) : bytes :=
    iv ++ xor_from (mask_key dest) iv 0 (enc_static h ++ auth) ++ msg.

  (* encoding.go:249 makeHeader; None = the "auth size overflows uint16" panic *)
  Definition make_header (proto : bytes) (flag : N) (nonce : bytes) (authsize : N) : option sheader :=
    if 65535 <? authsize then None else Some (mkSH proto version flag nonce authsize).

  (* the first half of Decode (encoding.go:446-470): length check, unmasking,
     checkValid, slicing.  Returns iv, the unmasked static header bytes, the
     parsed header, the unmasked authdata, the message data. *)
  Definition parse_packet (localid proto input : bytes)
    : v5err + (bytes * bytes * sheader * bytes * bytes) :=
    if lenN input <? minPacketSize then inl ETooShort else
    let iv := firstn 16 input in
    let key := mask_key localid in
    let static := xor_from key iv 0 (firstn 23 (skipn 16 input)) in
    match dec_static static with
    | None => inl EInternal
    | Some h =>
        let remaining := lenN input - sizeofStaticPacketData in
        match check_valid h remaining proto with
        | Some e => inl e
        | None =>
            let asz := N.to_nat (h_authsize h) in
            let auth := xor_from key iv 23 (firstn asz (skipn 39 input)) in
            inr (iv, static, h, auth, skipn (39 + asz) input)
        end
    end.

  (* crypto.go:68 idNonceHash *)
  Definition id_nonce_hash (cdata eph dest : bytes) : bytes :=
    Hsha (id_proof_text ++ cdata ++ eph ++ dest).

  (* crypto.go:120 deriveKeys(priv, pub, n1, n2, challenge) -> (writeKey, readKey) *)
  Definition derive_keys (priv pub n1 n2 cdata : bytes) : bytes * bytes :=
    kdf (ecdh priv pub) cdata (key_agreement_text ++ n1 ++ n2).

  (* session.go:90 nextNonce + generateNonce: uint32 counter, 8 random bytes *)
  Definition next_ctr (ctr : N) : N :=
    let v := ctr + 1 in if v <? 4294967296 then v else v mod 4294967296.
  Definition mk_nonce (ctr : N) (rnd8 : bytes) : bytes := be_fixed 4 ctr ++ rnd8.

  (* ---------------- Encode ---------------- *)

  (* encoding.go:297 encodeWhoareyou + the Whoareyou branch of Encode:
     ChallengeData := the unmasked header, challenge stored under (id, addr) *)
  Definition encode_whoareyou (c : codec) (dest addr : bytes) (w : challenge) (iv : bytes)
    : option (codec * bytes * challenge) :=
    let auth := w_idnonce w ++ be_fixed 8 (w_seq w) in
    (* "BUG: missing node in whoareyou with non-zero seq" panic *)
    if (0 <? w_seq w) && (match w_node w with None => true | Some _ => false end) then None else
    match make_header (c_proto c) flagWhoareyou (w_nonce w) sizeofWhoareyouAuthData with
    | None => None
    | Some h =>
        let cdata := iv ++ enc_static h ++ auth in
        let w' := mkChal (w_nonce w) (w_idnonce w) (w_seq w) (w_node w) cdata in
        Some (set_handshakes c (put (dest, addr) w' (c_handshakes c)),
              encode_raw dest iv h auth [], w')
    end.

  (* encoding.go:318 encodeHandshakeHeader + :355 makeHandshakeAuth + encryptMessage.
     None = a panic / error of the encoder (missing challenge.Node, oversize). *)
  Definition encode_handshake (c : codec) (dest addr : bytes) (w : challenge)
             (eph rnd8 iv pt : bytes) : option (codec * bytes) :=
    match w_node w with
    | None => None
    | Some rn =>
        let ephpub := pub_of eph in
        let cdata := w_cdata w in
        let idsig := sign (c_priv c) (id_nonce_hash cdata ephpub dest) in
        let record := if w_seq w <? n_seq (c_node c) then n_rec (c_node c) else [] in
        let (wk, rk) := derive_keys eph (n_pub rn) (c_id c) (n_id rn) cdata in
        let ctr := next_ctr 0 in
        let nonce := mk_nonce ctr rnd8 in
        let sess := mkSess wk rk ctr rn in
        let c' := set_sessions c (put (dest, addr) sess (c_sessions c)) in
        let auth := c_id c ++ [lenN idsig; lenN ephpub] ++ idsig ++ ephpub ++ record in
        if (255 <? lenN idsig) || (255 <? lenN ephpub) then None else
        match make_header (c_proto c) flagHandshake nonce (lenN auth) with
        | None => None
        | Some h =>
            let hd := iv ++ enc_static h ++ auth in
            Some (c', encode_raw dest iv h auth (seal wk nonce pt hd))
        end
    end.

  (* encoding.go:404 encodeMessageHeader + encryptMessage (session known), or
     :270 encodeRandom (no session: random nonce [rnd12], random body [junk]) *)
  Definition encode_message (c : codec) (dest addr : bytes) (rnd8 rnd12 iv pt junk : bytes)
    : option (codec * bytes) :=
    match lookup (dest, addr) (c_sessions c) with
    | Some s =>
        let ctr := next_ctr (s_ctr s) in
        let nonce := mk_nonce ctr rnd8 in
        let s' := mkSess (s_write s) (s_read s) ctr (s_node s) in
        let c' := set_sessions c (put (dest, addr) s' (c_sessions c)) in
        match make_header (c_proto c) flagMessage nonce sizeofMessageAuthData with
        | None => None
        | Some h =>
            let auth := c_id c in
            let hd := iv ++ enc_static h ++ auth in
            Some (c', encode_raw dest iv h auth (seal (s_write s) nonce pt hd))
        end
    | None =>
        match make_header (c_proto c) flagMessage rnd12 sizeofMessageAuthData with
        | None => None
        | Some h => Some (c, encode_raw dest iv h (c_id c) junk)
        end
    end.

  (* ---------------- Decode ---------------- *)

  (* encoding.go:655 decryptMessage *)
  Definition decrypt_message (msg nonce hd key : bytes) : v5err + bytes :=
    match open key nonce msg hd with
    | None => inl EMessageDecrypt
    | Some [] => inl EMessageTooShort
    | Some pt => if msg_ok pt then inr pt else inl EMsgDecode
    end.

  (* encoding.go:488 decodeWhoareyou *)
  Definition decode_whoareyou (h : sheader) (auth hd : bytes) : dres :=
    if negb (lenN auth =? sizeofWhoareyouAuthData) then DErr zero_id EAuthSizeKind else
    DWhoareyou (mkChal (h_nonce h) (firstn 16 auth) (be_decode (skipn 16 auth)) None hd).

  (* encoding.go:637 decodeMessage *)
  Definition decode_message (c : codec) (addr : bytes) (h : sheader) (auth hd msg : bytes) : dres :=
    if negb (lenN auth =? sizeofMessageAuthData) then DErr zero_id EAuthSizeKind else
    let src := auth in
    match lookup (src, addr) (c_sessions c) with
    | None => DUnknown src (h_nonce h)            (* nil key: decryptGCM fails *)
    | Some s =>
        match decrypt_message msg (h_nonce h) hd (s_read s) with
        | inl EMessageDecrypt => DUnknown src (h_nonce h)
        | inl e => DErr src e
        | inr pt => DMsg src None pt
        end
    end.

  (* encoding.go:608 decodeHandshakeRecord(local, wantID, remote) *)
  Definition decode_handshake_record (local : option node) (want remote : bytes) : v5err + node :=
    let fallback := match local with Some n => inr n | None => inl ENoRecord end in
    match remote with
    | [] => fallback
    | _ =>
        match rec_seq remote with
        | None => inl ERecord
        | Some seq =>
            let newer := match local with None => true | Some l => n_seq l <? seq end in
            if newer then
              match rec_node remote with
              | None => inl ERecord
              | Some n => if beq (n_id n) want then inr n else inl ERecord
              end
            else fallback
        end
    end.

  (* encoding.go:576 decodeHandshakeAuthData: (src, sig, pubkey, record) *)
  Definition dec_hs_auth (auth : bytes) : (bytes * v5err) + (bytes * bytes * bytes * bytes) :=
    if lenN auth <? sizeofHandshakeAuthData then inl (zero_id, EHandshakeAuthSize) else
    let src := firstn 32 auth in
    match skipn 32 auth with
    | sigsize :: pubsize :: vardata =>
        if lenN vardata <? sigsize + pubsize then inl (src, ETooShort) else
        inr (src, firstn (N.to_nat sigsize) vardata,
             firstn (N.to_nat pubsize) (skipn (N.to_nat sigsize) vardata),
             skipn (N.to_nat sigsize + N.to_nat pubsize) vardata)
    | _ => inl (src, EInternal)
    end.

  (* encoding.go:508 decodeHandshakeMessage + :530 decodeHandshake *)
  Definition decode_handshake (c : codec) (addr : bytes) (h : sheader) (auth hd msg : bytes)
    : codec * dres :=
    match dec_hs_auth auth with
    | inl (src, e) => (set_handshakes c (remove (src, addr) (c_handshakes c)), DErr src e)
    | inr (src, sig, ephpub, record) =>
        let fail e := (set_handshakes c (remove (src, addr) (c_handshakes c)), DErr src e) in
        match lookup (src, addr) (c_handshakes c) with
        | None => fail EUnexpectedHandshake
        | Some w =>
            match decode_handshake_record (w_node w) src record with
            | inl e => fail e
            | inr n =>
                let cdata := w_cdata w in
                if negb (sig_verify (n_pub n) (id_nonce_hash cdata ephpub (c_id c)) sig)
                then fail EInvalidNonceSig
                else if negb (pub_valid ephpub) then fail EInvalidAuthKey
                else
                  let (k1, k2) := derive_keys (c_priv c) ephpub src (c_id c) cdata in
                  (* keysFlipped: we read what the initiator writes *)
                  let sess := mkSess k2 k1 0 n in
                  match decrypt_message msg (h_nonce h) hd (s_read sess) with
                  | inl e => fail e
                  | inr pt =>
                      (mkCodec (c_node c) (c_priv c) (c_proto c)
                               (put (src, addr) sess (c_sessions c))
                               (remove (src, addr) (c_handshakes c)),
                       DMsg src (Some n) pt)
                  end
            end
        end
    end.

  (* encoding.go:443 Decode(inputData, addr) *)
  Definition decode (c : codec) (input addr : bytes) : codec * dres :=
    match parse_packet (c_id c) (c_proto c) input with
    | inl e => (c, DErr zero_id e)
    | inr (iv, static, h, auth, msg) =>
        let hd := iv ++ static ++ auth in
        if h_flag h =? flagWhoareyou then (c, decode_whoareyou h auth hd)
        else if h_flag h =? flagHandshake then decode_handshake c addr h auth hd msg
        else if h_flag h =? flagMessage then (c, decode_message c addr h auth hd msg)
        else (c, DErr zero_id EInvalidFlag)
    end.
End Crypto.
