(* Net/SnapServe.v — the SERVING side of the snap protocol, transcribed from
   /repo/eth/protocols/snap/handlers.go (ServiceGetAccountRangeQuery,
   ServiceGetStorageRangesQuery, ServiceGetByteCodesQuery,
   ServiceGetTrieNodesQuery) and the limits of handler.go.  Definitions only.

   What is abstract.  The state is the flat view the snapshot / pathdb iterators
   enumerate: accounts sorted by account hash (slim RLP body), per account the
   storage slots sorted by slot hash.  Hashes are numbers (the big-endian value
   of the 32 bytes; bytes.Compare on two hashes is the numeric order).  A Merkle
   proof is represented by the list of KEYS handed to trie.Prove, in call order
   ([] = no proof attached); the node lists themselves are produced by the real
   trie and judged by the real trie.VerifyRangeProof in the harness.  Trie node
   retrieval (Trie.GetNode) is a parameter of the trie-node service
   ([tn_env]); the executable instance used by the correspondence is the table
   instance at the end of the file.

   Not modelled: the wall-clock limit maxTrieNodeTimeSpent; the [reader == nil]
   branch of ServiceGetTrieNodesQuery (no flat state for the root) except for
   the empty trie (roots common.Hash{} / EmptyRootHash, [empty_env]); database
   read errors (the "Failed to prove" / missing-node returns); access lists. *)
From GV Require Import Lib.Bytes Trie.Hex.
Local Open Scope N_scope.

(* ---------- constants (handler.go:31-54, common.MaxHash, types.EmptyCodeHash) *)
Definition soft_response_limit : N := 2097152.        (* 2 * 1024 * 1024 *)
Definition max_code_lookups : nat := 1024.
Definition max_trie_node_lookups : N := 1024.
Definition max_hash : N := 2 ^ 256 - 1.
Definition empty_code_hash : N :=
  0xc5d2460186f7233c927e7db2dcc703c0e500b653ca82273b7bfad8045d85a470.
Definition empty_root_hash : N :=
  0x56e81f171bcc55a6ff8345e692c0f86e5b48e01b996cadc001622fb5e363b421.

(* if req.Bytes > softResponseLimit { req.Bytes = softResponseLimit } *)
Definition cap_bytes (b : N) : N :=
  if soft_response_limit <? b then soft_response_limit else b.

(* hardLimit := uint64(float64(req.Bytes) * (1 + stateLookupSlack))
   req.Bytes <= 2^21 converts exactly; the constant 1 + 0.1 is the double
   4953959590107546 * 2^-52; the product is rounded to nearest-even at 53
   significant bits; the conversion to uint64 truncates. *)
Definition f64_1_1_mant : N := 4953959590107546.
Definition hard_limit (b : N) : N :=
  let p := b * f64_1_1_mant in                 (* exact product, scaled by 2^52 *)
  let k := N.size p in
  if k <=? 53 then N.shiftr p 52
  else
    let s := k - 53 in
    let q := N.shiftr p s in
    let r := p - N.shiftl q s in
    let half := N.shiftl 1 (s - 1) in
    let q' := if (half <? r) || ((r =? half) && N.odd q) then q + 1 else q in
    N.shiftr (N.shiftl q' s) 52.

(* common.BytesToHash: keep the last 32 bytes, left-pad *)
Definition bytes_to_hash (b : list N) : N :=
  be_decode (skipn (length b - 32) b).

(* ---------- the flat state *)
Definition item := (N * list N)%type.          (* key hash, value bytes *)

Record account := {
  a_hash : N;
  a_body : list N;                             (* slim RLP *)
  a_slots : list item                          (* sorted by slot hash *)
}.

Record state := {
  s_root : N;                                  (* the only state root served *)
  s_accounts : list account;                   (* sorted by a_hash *)
  s_codes : list (N * N)                       (* code hash, len(code) *)
}.

Definition account_items (st : state) : list item :=
  map (fun a => (a_hash a, a_body a)) (s_accounts st).

Fixpoint find_account (l : list account) (h : N) : option account :=
  match l with
  | [] => None
  | a :: r => if a_hash a =? h then Some a else find_account r h
  end.

(* the slots a storage iterator of account [h] enumerates; an unknown account
   gives an empty iterator (no error) *)
Definition storage_items (st : state) (h : N) : list item :=
  match find_account (s_accounts st) h with
  | Some a => a_slots a
  | None => []
  end.

(* AccountIterator(root, origin) / StorageIterator(root, account, origin):
   positioned at the first key >= origin *)
Fixpoint seek (origin : N) (l : list item) : list item :=
  match l with
  | [] => []
  | (k, v) :: r => if k <? origin then seek origin r else l
  end.

Definition item_size (it : item) : N := 32 + lenN (snd it).   (* common.HashLength + len(body) *)
Definition total_size (l : list item) : N :=
  fold_right (fun it s => item_size it + s) 0 l.

(* [last]: hash of the last returned item, common.Hash{} if none *)
Definition last_key (l : list item) : N := last (map fst l) 0.

(* keys handed to Prove: origin, then last unless last == common.Hash{} *)
Definition proof_keys (origin : N) (items : list item) : list N :=
  origin :: (if last_key items =? 0 then [] else [last_key items]).

(* ---------- ServiceGetAccountRangeQuery, handlers.go:56-119 *)

(* the loop of lines 84-103: append, then stop at hash >= limit, then at
   size > bytes *)
Fixpoint account_loop (limit bytes size : N) (its : list item) : list item :=
  match its with
  | [] => []
  | it :: rest =>
      let size' := size + item_size it in
      it :: (if limit <=? fst it then []
             else if bytes <? size' then []
             else account_loop limit bytes size' rest)
  end.

(* result: (accounts, keys proven); ([], []) is Go's (nil, nil) *)
Definition serve_account_range (st : state) (root origin limit bytes : N)
  : list item * list N :=
  let bytes := cap_bytes bytes in
  if negb (root =? s_root st) then ([], [])          (* trie.New / iterator error *)
  else
    let items := account_loop limit bytes 0 (seek origin (account_items st)) in
    (items, proof_keys origin items).

(* ---------- ServiceGetStorageRangesQuery, handlers.go:172-291 *)

(* the loop of lines 227-252: (storage, size, abort).  [legacy = true] is the
   code before /repo commit 1d1b984ea0 ("prove a storage range that stops at
   the limit before the end of the trie"): it left abort = false when the
   iteration stopped at the limit; the current code sets abort when it.Next()
   shows that more slots follow. *)
Definition nonempty {A} (l : list A) : bool := match l with [] => false | _ => true end.

Fixpoint slot_loop (legacy : bool) (limit hard size : N) (its : list item)
  : list item * N * bool :=
  match its with
  | [] => ([], size, false)
  | it :: rest =>
      if hard <=? size then ([], size, true)
      else
        let size' := size + item_size it in
        if limit <=? fst it then ([it], size', if legacy then false else nonempty rest)
        else let '(r, s, a) := slot_loop legacy limit hard size' rest in (it :: r, s, a)
  end.

(* the loop over req.Accounts; [origin_b]/[limit_b] are req.Origin/req.Limit
   (set to nil once consumed); [acc] are the slot lists appended so far.
   Result: (slots, Some (account, keys proven) | None). *)
Fixpoint storage_loop (legacy : bool) (st : state) (root : N) (accounts : list N)
    (origin_b limit_b : list N) (bytes hard size : N) (acc : list (list item))
  : list (list item) * option (N * list N) :=
  match accounts with
  | [] => (acc, None)
  | a :: rest =>
      if bytes <=? size then (acc, None)                        (* line 192 *)
      else
        let origin := if nonempty origin_b then bytes_to_hash origin_b else 0 in
        let limit := if nonempty limit_b then bytes_to_hash limit_b else max_hash in
        if negb (root =? s_root st) then ([], None)             (* iterator error: nil, nil *)
        else
          let '(storage, size', abort) :=
            slot_loop legacy limit hard size (seek origin (storage_items st a)) in
          let acc' := if nonempty storage then acc ++ [storage] else acc in
          if negb (origin =? 0) || (abort && nonempty storage) then     (* line 256 *)
            match find_account (s_accounts st) a with
            | None => ([], None)                                (* acc == nil: nil, nil *)
            | Some _ => (acc', Some (a, proof_keys origin storage))
            end
          else storage_loop legacy st root rest [] [] bytes hard size' acc'
  end.

Definition serve_storage_ranges_gen (legacy : bool) (st : state) (root : N) (accounts : list N)
    (origin_b limit_b : list N) (bytes : N)
  : list (list item) * option (N * list N) :=
  let bytes := cap_bytes bytes in
  storage_loop legacy st root accounts origin_b limit_b bytes (hard_limit bytes) 0 [].

(* the current code *)
Definition serve_storage_ranges := serve_storage_ranges_gen false.

(* ---------- ServiceGetByteCodesQuery, handlers.go:347-373 *)

Fixpoint lookup_code (codes : list (N * N)) (h : N) : option N :=
  match codes with
  | [] => None
  | (k, len) :: r => if k =? h then Some len else lookup_code r h
  end.

(* result: (hash, length) of every blob appended, in order *)
Fixpoint codes_loop (codes : list (N * N)) (hashes : list N) (bytes total : N)
  : list (N * N) :=
  match hashes with
  | [] => []
  | h :: r =>
      let '(out, total') :=
        if h =? empty_code_hash then ([(h, 0)], total)
        else match lookup_code codes h with
             | Some len => if 0 <? len then ([(h, len)], total + len) else ([], total)
             | None => ([], total)
             end in
      out ++ (if bytes <? total' then [] else codes_loop codes r bytes total')
  end.

Definition serve_byte_codes (st : state) (hashes : list N) (bytes : N) : list (N * N) :=
  codes_loop (s_codes st) (firstn max_code_lookups hashes) (cap_bytes bytes) 0.

(* ---------- ServiceGetTrieNodesQuery, handlers.go:425-536 *)

(* req.Paths as an RLP tree *)
Inductive ritem : Type :=
| RStr (b : list N)
| RList (l : list ritem).

(* outcome of Trie.GetNode: a blob (its hash and length), nil without error,
   or an error *)
Inductive gres : Type :=
| GBlob (h len : N)
| GEmpty
| GErr.

Definition blob := option (N * N).             (* None = empty blob; Some (hash, len) *)
Definition blob_of (g : gres) : blob :=
  match g with GBlob h len => Some (h, len) | _ => None end.
Definition blob_len (b : blob) : N := match b with Some (_, len) => len | None => 0 end.

(* the trie objects the handler uses; [C] is the mutable part of a Trie (which
   hash nodes have been expanded), needed because [resolved] feeds [loads] *)
Record tn_env (C : Type) := {
  te_acc0 : C;                                     (* accTrie after trie.NewStateTrie *)
  te_acc_get : C -> list N -> gres * N * C;        (* accTrie.GetNode(path): result, resolved *)
  te_account : N -> option C;                      (* account lookup found => fresh storage trie *)
  te_st_get : N -> C -> list N -> gres * N * C;    (* stTrie.GetNode(path) of that account *)
  te_acct_cost : N                                 (* loads charged per account lookup: 1 via the flat
                                                      state reader, 8 via the trie when reader == nil *)
}.
Arguments te_acc0 {C}. Arguments te_acc_get {C}. Arguments te_account {C}. Arguments te_st_get {C}.
Arguments te_acct_cost {C}.

(* how trie.New / the flat-state lookups see the requested root: the head state,
   the empty trie (trie.New accepts common.Hash{} and EmptyRootHash without
   touching the database; no flat state exists for it), or unavailable *)
Inductive root_kind : Type := RootHead | RootEmpty | RootUnknown.

Section TrieNodes.
  Context {C : Type} (env : tn_env C).

  Definition over (bytes nb loads : N) : bool :=
    (bytes <? nb) || (max_trie_node_lookups <? loads).

  (* lines 511-528; None = "return nil, invalid storage key" *)
  Fixpoint st_paths_loop (a : N) (bytes : N) (paths : list ritem) (c : C)
      (nodes : list blob) (nb loads : N) : option (list blob * N * N) :=
    match paths with
    | [] => Some (nodes, nb, loads)
    | RList _ :: _ => None
    | RStr p :: r =>
        let '(res, resolved, c') := te_st_get env a c p in
        let loads := loads + resolved in
        match res with
        | GErr => Some (nodes, nb, loads)                       (* break *)
        | _ =>
            let nodes' := nodes ++ [blob_of res] in
            let nb' := nb + blob_len (blob_of res) in
            if over bytes nb' loads then Some (nodes', nb', loads)
            else st_paths_loop a bytes r c' nodes' nb' loads
        end
    end.

  (* lines 455-534; result (nodes, err) *)
  Fixpoint pathsets_loop (bytes : N) (sets : list ritem) (c : C)
      (nodes : list blob) (nb loads : N) : list blob * bool :=
    match sets with
    | [] => (nodes, false)
    | RStr _ :: _ => (nodes, true)                              (* NewListIterator error *)
    | RList [] :: _ => ([], true)                               (* zero-item pathset *)
    | RList [RList _] :: _ => (nodes, true)                     (* invalid account node request *)
    | RList [RStr p] :: rest =>
        let '(res, resolved, c') := te_acc_get env c p in
        let loads := loads + resolved in
        match res with
        | GErr => if over bytes nb loads then (nodes, false)
                  else pathsets_loop bytes rest c' nodes nb loads
        | _ =>
            let nodes' := nodes ++ [blob_of res] in
            let nb' := nb + blob_len (blob_of res) in
            if over bytes nb' loads then (nodes', false)
            else pathsets_loop bytes rest c' nodes' nb' loads
        end
    | RList (RList _ :: _) :: _ => (nodes, true)                (* invalid account storage request *)
    | RList (RStr k :: paths) :: rest =>
        let a := bytes_to_hash k in
        let loads := loads + te_acct_cost env in                (* reader.Account / GetAccountByHash *)
        match te_account env a with
        | None => if over bytes nb loads then (nodes, false)
                  else pathsets_loop bytes rest c nodes nb loads
        | Some sc =>
            let loads := loads + 1 in                           (* trie.NewStateTrie *)
            match st_paths_loop a bytes paths sc nodes nb loads with
            | None => ([], true)
            | Some (nodes', nb', loads') =>
                if over bytes nb' loads' then (nodes', false)
                else pathsets_loop bytes rest c nodes' nb' loads'
            end
        end
    end.

End TrieNodes.

(* the trie objects of an empty account trie without flat state *)
Definition empty_env {C} (c0 : C) : tn_env C :=
  {| te_acc0 := c0;
     te_acc_get := fun c _ => (GEmpty, 0, c);
     te_account := fun _ => None;
     te_st_get := fun _ c _ => (GEmpty, 0, c);
     te_acct_cost := 8 |}.

Definition serve_trie_nodes {C} (env : tn_env C) (rk : root_kind) (sets : list ritem) (bytes : N)
  : list blob * bool :=
  match rk with
  | RootUnknown => ([], false)                                  (* NewStateTrie error: nil, nil *)
  | RootEmpty => pathsets_loop (empty_env (te_acc0 env)) (cap_bytes bytes) sets (te_acc0 env) [] 0 0
  | RootHead => pathsets_loop env (cap_bytes bytes) sets (te_acc0 env) [] 0 0
  end.

Definition classify_root (st : state) (root : N) : root_kind :=
  if root =? s_root st then RootHead
  else if (root =? 0) || (root =? empty_root_hash) then RootEmpty
  else RootUnknown.

(* ---------- table instance of the trie objects (used by Run/C48.v) ----------
   A trie is described by the hex paths of its nodes: [KStored h len] for a
   node referenced by hash (stored on its own; the root always is), [KInline]
   for a node embedded in its parent or a value node.  Trie.GetNode(path)
   (trie/trie.go:286-358) then: walks compactToHex(path); every stored node at a
   non-empty proper prefix is a hashNode that gets resolved (+1 each) unless
   this Trie object expanded it earlier; at the end of the path a stored node
   yields its blob (+1), an embedded or value node the "non-consensus node"
   error, anything else nil; expansions are kept only when no error occurred. *)
Inductive nkind : Type := KStored (h len : N) | KInline.
Definition ntable := list (list N * nkind).

Fixpoint path_eqb (a b : list N) : bool :=
  match a, b with
  | [], [] => true
  | x :: a', y :: b' => (x =? y) && path_eqb a' b'
  | _, _ => false
  end.

Fixpoint proper_prefixb (p path : list N) : bool :=
  match p, path with
  | [], _ :: _ => true
  | x :: p', y :: path' => (x =? y) && proper_prefixb p' path'
  | _, _ => false
  end.

Fixpoint find_node (t : ntable) (path : list N) : option nkind :=
  match t with
  | [] => None
  | (p, k) :: r => if path_eqb p path then Some k else find_node r path
  end.

Definition is_stored (k : nkind) : bool := match k with KStored _ _ => true | KInline => false end.

Definition crossed (t : ntable) (cache : list (list N)) (path : list N) : list (list N) :=
  map fst (filter (fun e => is_stored (snd e) && nonempty (fst e) &&
                            proper_prefixb (fst e) path &&
                            negb (existsb (path_eqb (fst e)) cache)) t).

Definition table_get (t : ntable) (cache : list (list N)) (cpath : list N)
  : gres * N * list (list N) :=
  let path := compact_to_hex cpath in
  let cr := crossed t cache path in
  match find_node t path with
  | Some (KStored h len) => (GBlob h len, lenN cr + 1, cr ++ cache)
  | Some KInline => (GErr, lenN cr, cache)
  | None => (GEmpty, lenN cr, cr ++ cache)
  end.

(* account trie table + per-account storage tables (None = account not in the
   flat state) *)
Definition table_env (acct : ntable) (stor : list (N * ntable)) : tn_env (list (list N)) :=
  {| te_acc0 := [];
     te_acc_get := table_get acct;
     te_account := fun a =>
       match find (fun e => fst e =? a) stor with Some _ => Some [] | None => None end;
     te_st_get := fun a =>
       match find (fun e => fst e =? a) stor with
       | Some e => table_get (snd e)
       | None => fun c _ => (GEmpty, 0, c)
       end;
     te_acct_cost := 1 |}.
