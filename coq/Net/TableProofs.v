(* Net/TableProofs.v — invariants of the node-table model Net/Table.v. *)
From GV Require Import Lib.Tactics Net.Table.
From Coq Require Import Permutation.
Local Open Scope N_scope.

(* ================= DistinctNetSet ================= *)

Definition ns_ok (lim : N) (m : netset) : Prop :=
  forall k v, ns_lookup k m = Some v -> 1 <= v <= lim.

Lemma lookup_del k k' m :
  ns_lookup k' (ns_del k m) = if k' =? k then None else ns_lookup k' m.
Proof.
  induction m as [|[a v] m IH]; cbn [ns_del filter ns_lookup fst].
  - destruct (k' =? k); reflexivity.
  - destruct (a =? k) eqn:Eak; cbn [negb].
    + unfold ns_del in IH. rewrite IH. destruct (k' =? k) eqn:Ek; [reflexivity|].
      destruct (a =? k') eqn:Eak'; [|reflexivity]. exfalso. lia.
    + cbn [ns_lookup]. destruct (a =? k') eqn:Eak'.
      * destruct (k' =? k) eqn:Ek; [exfalso; lia|reflexivity].
      * unfold ns_del in IH. exact IH.
Qed.

Lemma lookup_set k v k' m :
  ns_lookup k' (ns_set k v m) = if k' =? k then Some v else ns_lookup k' m.
Proof.
  unfold ns_set. cbn [ns_lookup]. rewrite lookup_del.
  rewrite (N.eqb_sym k k'). destruct (k' =? k); reflexivity.
Qed.

Lemma get_set k v k' m : ns_get k' (ns_set k v m) = if k' =? k then v else ns_get k' m.
Proof. unfold ns_get. rewrite lookup_set. destruct (k' =? k); reflexivity. Qed.

Lemma get_del k k' m : ns_get k' (ns_del k m) = if k' =? k then 0 else ns_get k' m.
Proof. unfold ns_get. rewrite lookup_del. destruct (k' =? k); reflexivity. Qed.

Lemma ns_ok_get lim m k : ns_ok lim m -> ns_get k m <= lim.
Proof.
  intros H. unfold ns_get. destruct (ns_lookup k m) eqn:E; [|lia].
  apply H in E. lia.
Qed.

Lemma ns_ok_nil lim : ns_ok lim [].
Proof. intros k v H. discriminate. Qed.

Lemma ns_ok_set lim k v m : ns_ok lim m -> 1 <= v <= lim -> ns_ok lim (ns_set k v m).
Proof.
  intros H Hv k' v' E. rewrite lookup_set in E. destruct (k' =? k).
  - injection E as <-. exact Hv.
  - eapply H; eauto.
Qed.

Lemma ns_ok_del lim k m : ns_ok lim m -> ns_ok lim (ns_del k m).
Proof.
  intros H k' v' E. rewrite lookup_del in E. destruct (k' =? k); [discriminate|].
  eapply H; eauto.
Qed.

(* AddAddr: succeeds iff the counter is below the limit, then increments exactly it *)
Lemma ns_add_spec lim k m m' ok :
  ns_ok lim m -> ns_add lim k m = (m', ok) ->
  ns_ok lim m' /\
  (if ok then ns_get k m < lim /\ forall k', ns_get k' m' = ns_get k' m + (if k' =? k then 1 else 0)
   else lim <= ns_get k m /\ m' = m).
Proof.
  unfold ns_add. intros H E. destruct (ns_get k m <? lim) eqn:El; injection E as <- <-.
  - split.
    + apply ns_ok_set; [exact H|]. lia.
    + split; [lia|]. intros k'. rewrite get_set. destruct (k' =? k) eqn:Ek; [|lia].
      assert (k' = k) by lia. subst. lia.
  - split; [exact H|]. split; [lia|reflexivity].
Qed.

(* RemoveAddr: decrements the counter (nothing to do at zero) *)
Lemma ns_remove_spec lim k m :
  ns_ok lim m -> lim < 18446744073709551616 ->
  ns_ok lim (ns_remove k m) /\
  forall k', ns_get k' (ns_remove k m) = ns_get k' m - (if k' =? k then 1 else 0).
Proof.
  intros H Hl. unfold ns_remove. destruct (ns_lookup k m) as [n|] eqn:E.
  - pose proof (H _ _ E) as Hn. destruct (n =? 1) eqn:E1.
    + split; [apply ns_ok_del; exact H|]. intros k'. rewrite get_del.
      destruct (k' =? k) eqn:Ek; [|lia]. assert (k' = k) by lia. subst.
      unfold ns_get. rewrite E. lia.
    + assert (Hm : (n + 18446744073709551616 - 1) mod 18446744073709551616 = n - 1).
      { replace (n + 18446744073709551616 - 1) with ((n - 1) + 1 * 18446744073709551616) by lia.
        rewrite N.mod_add by lia. apply N.mod_small. lia. }
      rewrite Hm. split; [apply ns_ok_set; [exact H|lia]|].
      intros k'. rewrite get_set. destruct (k' =? k) eqn:Ek; [|lia].
      assert (k' = k) by lia. subst. unfold ns_get. rewrite E. reflexivity.
  - split; [exact H|]. intros k'. destruct (k' =? k) eqn:Ek; [|lia].
    assert (k' = k) by lia. subst. unfold ns_get. rewrite E. reflexivity.
Qed.

(* ================= counting tracked addresses ================= *)

(* weight of an address in the counter of subnet k: LAN addresses are never counted *)
Definition ipw (a : ip) (k : N) : N :=
  if negb (addr_is_lan a) && (net_key a =? k) then 1 else 0.

Fixpoint cntr (k : N) (l : list rec) : N :=
  match l with [] => 0 | r :: l' => ipw (r_ip r) k + cntr k l' end.

Lemma cntr_app k l1 l2 : cntr k (l1 ++ l2) = cntr k l1 + cntr k l2.
Proof. induction l1; cbn [cntr app]; lia. Qed.

Lemma cntr_perm k l1 l2 : Permutation l1 l2 -> cntr k l1 = cntr k l2.
Proof. induction 1; cbn [cntr]; lia. Qed.

Lemma ipw_le a k : ipw a k <= 1.
Proof. unfold ipw. destruct (_ && _); lia. Qed.

Lemma ipw_lan a k : addr_is_lan a = true -> ipw a k = 0.
Proof. unfold ipw. intros ->. reflexivity. Qed.

Lemma ipw_key a k : addr_is_lan a = false -> ipw a k = if k =? net_key a then 1 else 0.
Proof. unfold ipw. intros ->. cbn [negb andb]. rewrite N.eqb_sym. reflexivity. Qed.

(* ================= list helpers ================= *)

Lemma find_first_split {A} (p : A -> bool) l n :
  find_first p l = Some n ->
  exists l1 l2, l = l1 ++ n :: l2 /\ p n = true /\ forallb (fun x => negb (p x)) l1 = true /\
                remove_first p l = l1 ++ l2 /\
                forall f, map_first p f l = l1 ++ f n :: l2.
Proof.
  induction l as [|x l IH]; cbn [find_first]; [discriminate|].
  destruct (p x) eqn:Ep.
  - intros E. injection E as <-. exists [], l. cbn. rewrite Ep. repeat split; auto.
  - intros E. destruct (IH E) as (l1 & l2 & -> & Hp & Hn & Hr & Hm).
    exists (x :: l1), l2. cbn. rewrite Ep, Hn. cbn. repeat split; auto.
    + rewrite Hr. reflexivity.
    + intros f. rewrite Hm. reflexivity.
Qed.

Lemma find_first_none {A} (p : A -> bool) l :
  find_first p l = None -> forall x, In x l -> p x = false.
Proof.
  induction l as [|y l IH]; cbn [find_first]; intros E x Hx; [destruct Hx|].
  destruct (p y) eqn:Ep; [discriminate|]. destruct Hx as [<-|Hx]; auto.
Qed.

Lemma map_first_none {A} (p : A -> bool) f l :
  find_first p l = None -> map_first p f l = l.
Proof.
  induction l as [|y l IH]; cbn [find_first map_first]; [reflexivity|].
  destruct (p y); [discriminate|]. intros E. rewrite IH; auto.
Qed.

Lemma take_nth_split {A} i (l : list A) x r :
  take_nth i l = Some (x, r) -> exists l1 l2, l = l1 ++ x :: l2 /\ r = l1 ++ l2.
Proof.
  revert i x r. induction l as [|y l IH]; intros i x r; cbn [take_nth]; [discriminate|].
  destruct i as [|j].
  - intros E. injection E as <- <-. exists [], l. auto.
  - destruct (take_nth j l) as [[z r']|] eqn:E; [|discriminate].
    intros E'. injection E' as <- <-. destruct (IH _ _ _ E) as (l1 & l2 & -> & ->).
    exists (y :: l1), l2. auto.
Qed.

Lemma take_nth_some {A} i (l : list A) : (i < length l)%nat -> exists x r, take_nth i l = Some (x, r).
Proof.
  revert i. induction l as [|y l IH]; intros i Hi; cbn [length] in Hi; [lia|].
  destruct i as [|j]; cbn [take_nth]; [eauto|].
  destruct (IH j) as (x & r & ->); [lia|]. eauto.
Qed.

Lemma last_opt_split {A} (l : list A) x : last_opt l = Some x -> l = removelast l ++ [x].
Proof.
  induction l as [|y l IH]; [discriminate|]. destruct l as [|z l].
  - cbn. intros E. injection E as <-. reflexivity.
  - intros E. change (last_opt (y :: z :: l)) with (last_opt (z :: l)) in E.
    change (removelast (y :: z :: l)) with (y :: removelast (z :: l)).
    cbn [app]. f_equal. apply IH. exact E.
Qed.

Lemma last_opt_some {A} (l : list A) : l <> [] -> exists x, last_opt l = Some x.
Proof.
  induction l as [|y l IH]; [congruence|]. intros _. destruct l as [|z l]; [cbn; eauto|].
  change (last_opt (y :: z :: l)) with (last_opt (z :: l)). apply IH. discriminate.
Qed.

Lemma ip_eqb_eq x y : ip_eqb x y = true <-> x = y.
Proof.
  destruct x, y; cbn; split; intros H; try discriminate; try reflexivity;
    try (f_equal; lia); injection H as ->; lia.
Qed.

(* ================= addIP / removeIP ================= *)

Definition addable (a : ip) : bool := ip_valid a && negb (is_unspecified a).

(* counter state: the bucket set holds w, the table set holds rest + w *)
Definition CS (L : lst) (w rest : N -> N) : Prop :=
  ns_ok 2 (bips (lb L)) /\ ns_ok 10 (lt L) /\
  forall k, ns_get k (bips (lb L)) = w k /\ ns_get k (lt L) = rest k + w k.

Lemma CS_intro L w rest :
  ns_ok 2 (bips (lb L)) -> ns_ok 10 (lt L) ->
  (forall k, ns_get k (bips (lb L)) = w k /\ ns_get k (lt L) = rest k + w k) -> CS L w rest.
Proof. intros. split; [assumption|split; assumption]. Qed.

Lemma CS_ext L w w' rest : (forall k, w k = w' k) -> CS L w rest -> CS L w' rest.
Proof.
  intros He (Hb & Ht & Hg). apply CS_intro; [exact Hb|exact Ht|].
  intros k. rewrite <- He. apply Hg.
Qed.

Lemma add_ip_spec L a L' ok w rest :
  CS L w rest -> add_ip L a = (L', ok) ->
  entries (lb L') = entries (lb L) /\ repl (lb L') = repl (lb L) /\
  (if ok then addable a = true /\ CS L' (fun k => w k + ipw a k) rest else CS L' w rest).
Proof.
  intros HC E. pose proof HC as (Hb & Ht & Hg). unfold add_ip in E.
  destruct (negb (ip_valid a) || is_unspecified a) eqn:Ea.
  { injection E as <- <-. auto. }
  assert (Hadd : addable a = true).
  { unfold addable. destruct (ip_valid a), (is_unspecified a); cbn in *; congruence. }
  destruct (addr_is_lan a) eqn:Elan.
  { injection E as <- <-. split; [reflexivity|split; [reflexivity|split; [exact Hadd|]]].
    apply CS_intro; [exact Hb|exact Ht|]. intros k. rewrite ipw_lan by auto. destruct (Hg k). lia. }
  destruct (ns_add table_ip_limit (net_key a) (lt L)) as [t1 ok1] eqn:E1.
  destruct (ns_add_spec _ _ _ _ _ Ht E1) as [Ht1 Hs1].
  destruct ok1; cbn [negb] in E.
  2:{ injection E as <- <-. auto. }
  destruct Hs1 as [Hlt1 Hg1].
  destruct (ns_add bucket_ip_limit (net_key a) (bips (lb L))) as [b1 ok2] eqn:E2.
  destruct (ns_add_spec _ _ _ _ _ Hb E2) as [Hb1 Hs2].
  destruct ok2; cbn [negb] in E; injection E as <- <-; cbn [lb lt entries repl bips].
  - destruct Hs2 as [Hlt2 Hg2]. split; [reflexivity|split; [reflexivity|split; [exact Hadd|]]].
    apply CS_intro; [exact Hb1|exact Ht1|]. intros k. cbn [lb lt bips].
    rewrite Hg2, Hg1, ipw_key by auto. destruct (Hg k). lia.
  - destruct Hs2 as [_ ->].
    destruct (ns_remove_spec table_ip_limit (net_key a) t1 Ht1) as [Ht2 Hg2]; [reflexivity|].
    split; [reflexivity|split; [reflexivity|]].
    apply CS_intro; [exact Hb|exact Ht2|]. intros k. cbn [lb lt bips].
    rewrite Hg2, Hg1. destruct (Hg k). destruct (k =? net_key a); lia.
Qed.

Lemma add_ip_success L a w rest :
  CS L w rest -> addable a = true ->
  (addr_is_lan a = true \/ (w (net_key a) < 2 /\ rest (net_key a) + w (net_key a) < 10)) ->
  exists L', add_ip L a = (L', true).
Proof.
  intros (Hb & Ht & Hg) Ha Hc. unfold add_ip.
  assert (E : negb (ip_valid a) || is_unspecified a = false).
  { unfold addable in Ha. destruct (ip_valid a), (is_unspecified a); cbn in *; congruence. }
  rewrite E. destruct (addr_is_lan a) eqn:Elan; [eauto|].
  destruct Hc as [Hc|[Hc1 Hc2]]; [discriminate|].
  destruct (Hg (net_key a)) as [Hgb Hgt].
  unfold ns_add. replace (ns_get (net_key a) (lt L) <? table_ip_limit) with true
    by (unfold table_ip_limit; lia).
  cbn [negb]. replace (ns_get (net_key a) (bips (lb L)) <? bucket_ip_limit) with true
    by (unfold bucket_ip_limit; lia).
  cbn [negb]. eauto.
Qed.

Lemma remove_ip_spec L a w rest :
  CS L w rest -> (forall k, ipw a k <= w k) ->
  entries (lb (remove_ip L a)) = entries (lb L) /\ repl (lb (remove_ip L a)) = repl (lb L) /\
  CS (remove_ip L a) (fun k => w k - ipw a k) rest.
Proof.
  intros HC Hw. pose proof HC as (Hb & Ht & Hg). unfold remove_ip.
  destruct (addr_is_lan a) eqn:Elan.
  { split; [reflexivity|split; [reflexivity|]]. apply CS_intro; [exact Hb|exact Ht|].
    intros k. rewrite ipw_lan by auto. destruct (Hg k). lia. }
  cbn [lb lt entries repl bips].
  destruct (ns_remove_spec 2 (net_key a) _ Hb) as [Hb2 Hgb]; [reflexivity|].
  destruct (ns_remove_spec 10 (net_key a) _ Ht) as [Ht2 Hgt]; [reflexivity|].
  split; [reflexivity|split; [reflexivity|]]. apply CS_intro; [exact Hb2|exact Ht2|].
  intros k. cbn [lb lt bips]. rewrite Hgb, Hgt, ipw_key by auto. destruct (Hg k). specialize (Hw k).
  rewrite ipw_key in Hw by auto. destruct (k =? net_key a); lia.
Qed.
