(* Net/TableProofs.v — invariants of the node-table model Net/Table.v. *)
From GV Require Import Lib.Tactics Net.Table.
From Coq Require Import Permutation Sorted FinFun.
Local Open Scope N_scope.

(* ================= DistinctNetSet ================= *)

Definition ns_ok (lim : N) (m : netset) : Prop :=
  forall k v, ns_lookup k m = Some v -> 1 <= v <= lim.

Lemma lookup_del k k' m :
  ns_lookup k' (ns_del k m) = if k' =? k then None else ns_lookup k' m.
Proof.
  induction m as [|[a v] m IH]; cbn [ns_del filter ns_lookup fst].
  - destruct (k' =? k); reflexivity.
  - destruct (a =? k) eqn:Eak; cbn [negb].
    + unfold ns_del in IH. rewrite IH. destruct (k' =? k) eqn:Ek; [reflexivity|].
      destruct (a =? k') eqn:Eak'; [|reflexivity]. exfalso. lia.
    + cbn [ns_lookup]. destruct (a =? k') eqn:Eak'.
      * destruct (k' =? k) eqn:Ek; [exfalso; lia|reflexivity].
      * unfold ns_del in IH. exact IH.
Qed.

Lemma lookup_set k v k' m :
  ns_lookup k' (ns_set k v m) = if k' =? k then Some v else ns_lookup k' m.
Proof.
  unfold ns_set. cbn [ns_lookup]. rewrite lookup_del.
  rewrite (N.eqb_sym k k'). destruct (k' =? k); reflexivity.
Qed.

Lemma get_set k v k' m : ns_get k' (ns_set k v m) = if k' =? k then v else ns_get k' m.
Proof. unfold ns_get. rewrite lookup_set. destruct (k' =? k); reflexivity. Qed.

Lemma get_del k k' m : ns_get k' (ns_del k m) = if k' =? k then 0 else ns_get k' m.
Proof. unfold ns_get. rewrite lookup_del. destruct (k' =? k); reflexivity. Qed.

Lemma ns_ok_get lim m k : ns_ok lim m -> ns_get k m <= lim.
Proof.
  intros H. unfold ns_get. destruct (ns_lookup k m) eqn:E; [|lia].
  apply H in E. lia.
Qed.

Lemma ns_ok_nil lim : ns_ok lim [].
Proof. intros k v H. discriminate. Qed.

Lemma ns_ok_set lim k v m : ns_ok lim m -> 1 <= v <= lim -> ns_ok lim (ns_set k v m).
Proof.
  intros H Hv k' v' E. rewrite lookup_set in E. destruct (k' =? k).
  - injection E as <-. exact Hv.
  - eapply H; eauto.
Qed.

Lemma ns_ok_del lim k m : ns_ok lim m -> ns_ok lim (ns_del k m).
Proof.
  intros H k' v' E. rewrite lookup_del in E. destruct (k' =? k); [discriminate|].
  eapply H; eauto.
Qed.

(* AddAddr: succeeds iff the counter is below the limit, then increments exactly it *)
Lemma ns_add_spec lim k m m' ok :
  ns_ok lim m -> ns_add lim k m = (m', ok) ->
  ns_ok lim m' /\
  (if ok then ns_get k m < lim /\ forall k', ns_get k' m' = ns_get k' m + (if k' =? k then 1 else 0)
   else lim <= ns_get k m /\ m' = m).
Proof.
  unfold ns_add. intros H E. destruct (ns_get k m <? lim) eqn:El; injection E as <- <-.
  - split.
    + apply ns_ok_set; [exact H|]. lia.
    + split; [lia|]. intros k'. rewrite get_set. destruct (k' =? k) eqn:Ek; [|lia].
      assert (k' = k) by lia. subst. lia.
  - split; [exact H|]. split; [lia|reflexivity].
Qed.

(* RemoveAddr: decrements the counter (nothing to do at zero) *)
Lemma ns_remove_spec lim k m :
  ns_ok lim m -> lim < 18446744073709551616 ->
  ns_ok lim (ns_remove k m) /\
  forall k', ns_get k' (ns_remove k m) = ns_get k' m - (if k' =? k then 1 else 0).
Proof.
  intros H Hl. unfold ns_remove. destruct (ns_lookup k m) as [n|] eqn:E.
  - pose proof (H _ _ E) as Hn. destruct (n =? 1) eqn:E1.
    + split; [apply ns_ok_del; exact H|]. intros k'. rewrite get_del.
      destruct (k' =? k) eqn:Ek; [|lia]. assert (k' = k) by lia. subst.
      unfold ns_get. rewrite E. lia.
    + assert (Hm : (n + 18446744073709551616 - 1) mod 18446744073709551616 = n - 1).
      { replace (n + 18446744073709551616 - 1) with ((n - 1) + 1 * 18446744073709551616) by lia.
        rewrite N.mod_add by lia. apply N.mod_small. lia. }
      rewrite Hm. split; [apply ns_ok_set; [exact H|lia]|].
      intros k'. rewrite get_set. destruct (k' =? k) eqn:Ek; [|lia].
      assert (k' = k) by lia. subst. unfold ns_get. rewrite E. reflexivity.
  - split; [exact H|]. intros k'. destruct (k' =? k) eqn:Ek; [|lia].
    assert (k' = k) by lia. subst. unfold ns_get. rewrite E. reflexivity.
Qed.

(* ================= counting tracked addresses ================= *)

Section WithKey.
Context {K : KeyFn}.

(* weight of an address in the counter of subnet k: LAN addresses are never counted *)
Definition ipw (a : ip) (k : N) : N :=
  if negb (addr_is_lan a) && (key_of a =? k) then 1 else 0.

Fixpoint cntr (k : N) (l : list rec) : N :=
  match l with [] => 0 | r :: l' => ipw (r_ip r) k + cntr k l' end.

Lemma cntr_app k l1 l2 : cntr k (l1 ++ l2) = cntr k l1 + cntr k l2.
Proof. induction l1; cbn [cntr app]; lia. Qed.

Lemma cntr_perm k l1 l2 : Permutation l1 l2 -> cntr k l1 = cntr k l2.
Proof. induction 1; cbn [cntr]; lia. Qed.

Lemma ipw_le a k : ipw a k <= 1.
Proof. unfold ipw. destruct (_ && _); lia. Qed.

Lemma ipw_lan a k : addr_is_lan a = true -> ipw a k = 0.
Proof. unfold ipw. intros ->. reflexivity. Qed.

Lemma ipw_key a k : addr_is_lan a = false -> ipw a k = if k =? key_of a then 1 else 0.
Proof. unfold ipw. intros ->. cbn [negb andb]. rewrite N.eqb_sym. reflexivity. Qed.

(* ================= list helpers ================= *)

Lemma find_first_split {A} (p : A -> bool) l n :
  find_first p l = Some n ->
  exists l1 l2, l = l1 ++ n :: l2 /\ p n = true /\ forallb (fun x => negb (p x)) l1 = true /\
                remove_first p l = l1 ++ l2 /\
                forall f, map_first p f l = l1 ++ f n :: l2.
Proof.
  induction l as [|x l IH]; cbn [find_first]; [discriminate|].
  destruct (p x) eqn:Ep.
  - intros E. injection E as <-. exists [], l. cbn. rewrite Ep. repeat split; auto.
  - intros E. destruct (IH E) as (l1 & l2 & -> & Hp & Hn & Hr & Hm).
    exists (x :: l1), l2. cbn. rewrite Ep, Hn. cbn. repeat split; auto.
    + rewrite Hr. reflexivity.
    + intros f. rewrite Hm. reflexivity.
Qed.

Lemma find_first_none {A} (p : A -> bool) l :
  find_first p l = None -> forall x, In x l -> p x = false.
Proof.
  induction l as [|y l IH]; cbn [find_first]; intros E x Hx; [destruct Hx|].
  destruct (p y) eqn:Ep; [discriminate|]. destruct Hx as [<-|Hx]; auto.
Qed.

Lemma map_first_none {A} (p : A -> bool) f l :
  find_first p l = None -> map_first p f l = l.
Proof.
  induction l as [|y l IH]; cbn [find_first map_first]; [reflexivity|].
  destruct (p y); [discriminate|]. intros E. rewrite IH; auto.
Qed.

Lemma take_nth_split {A} i (l : list A) x r :
  take_nth i l = Some (x, r) -> exists l1 l2, l = l1 ++ x :: l2 /\ r = l1 ++ l2.
Proof.
  revert i x r. induction l as [|y l IH]; intros i x r; cbn [take_nth]; [discriminate|].
  destruct i as [|j].
  - intros E. injection E as <- <-. exists [], l. auto.
  - destruct (take_nth j l) as [[z r']|] eqn:E; [|discriminate].
    intros E'. injection E' as <- <-. destruct (IH _ _ _ E) as (l1 & l2 & -> & ->).
    exists (y :: l1), l2. auto.
Qed.

Lemma take_nth_some {A} i (l : list A) : (i < length l)%nat -> exists x r, take_nth i l = Some (x, r).
Proof.
  revert i. induction l as [|y l IH]; intros i Hi; cbn [length] in Hi; [lia|].
  destruct i as [|j]; cbn [take_nth]; [eauto|].
  destruct (IH j) as (x & r & ->); [lia|]. eauto.
Qed.

Lemma last_opt_split {A} (l : list A) x : last_opt l = Some x -> l = removelast l ++ [x].
Proof.
  induction l as [|y l IH]; [discriminate|]. destruct l as [|z l].
  - cbn. intros E. injection E as <-. reflexivity.
  - intros E. change (last_opt (y :: z :: l)) with (last_opt (z :: l)) in E.
    change (removelast (y :: z :: l)) with (y :: removelast (z :: l)).
    cbn [app]. f_equal. apply IH. exact E.
Qed.

Lemma last_opt_some {A} (l : list A) : l <> [] -> exists x, last_opt l = Some x.
Proof.
  induction l as [|y l IH]; [congruence|]. intros _. destruct l as [|z l]; [cbn; eauto|].
  change (last_opt (y :: z :: l)) with (last_opt (z :: l)). apply IH. discriminate.
Qed.

Lemma ip_eqb_eq x y : ip_eqb x y = true <-> x = y.
Proof.
  destruct x, y; cbn; split; intros H; try discriminate; try reflexivity;
    try (f_equal; lia); injection H as ->; lia.
Qed.

(* ================= addIP / removeIP ================= *)

Definition addable (a : ip) : bool := ip_valid a && negb (is_unspecified a).

(* counter state: the bucket set holds w, the table set holds rest + w *)
Definition CS (L : lst) (w rest : N -> N) : Prop :=
  ns_ok 2 (bips (lb L)) /\ ns_ok 10 (lt L) /\
  forall k, ns_get k (bips (lb L)) = w k /\ ns_get k (lt L) = rest k + w k.

Lemma CS_intro L w rest :
  ns_ok 2 (bips (lb L)) -> ns_ok 10 (lt L) ->
  (forall k, ns_get k (bips (lb L)) = w k /\ ns_get k (lt L) = rest k + w k) -> CS L w rest.
Proof. intros. split; [assumption|split; assumption]. Qed.

Lemma CS_ext L w w' rest : (forall k, w k = w' k) -> CS L w rest -> CS L w' rest.
Proof.
  intros He (Hb & Ht & Hg). apply CS_intro; [exact Hb|exact Ht|].
  intros k. rewrite <- He. apply Hg.
Qed.

Lemma add_ip_spec L a L' ok w rest :
  CS L w rest -> add_ip L a = (L', ok) ->
  entries (lb L') = entries (lb L) /\ repl (lb L') = repl (lb L) /\
  (if ok then addable a = true /\ CS L' (fun k => w k + ipw a k) rest else CS L' w rest).
Proof.
  intros HC E. pose proof HC as (Hb & Ht & Hg). unfold add_ip in E.
  destruct (negb (ip_valid a) || is_unspecified a) eqn:Ea.
  { injection E as <- <-. auto. }
  assert (Hadd : addable a = true).
  { unfold addable. destruct (ip_valid a), (is_unspecified a); cbn in *; congruence. }
  destruct (addr_is_lan a) eqn:Elan.
  { injection E as <- <-. split; [reflexivity|split; [reflexivity|split; [exact Hadd|]]].
    apply CS_intro; [exact Hb|exact Ht|]. intros k. rewrite ipw_lan by auto. destruct (Hg k). lia. }
  destruct (ns_add table_ip_limit (key_of a) (lt L)) as [t1 ok1] eqn:E1.
  destruct (ns_add_spec _ _ _ _ _ Ht E1) as [Ht1 Hs1].
  destruct ok1; cbn [negb] in E.
  2:{ injection E as <- <-. auto. }
  destruct Hs1 as [Hlt1 Hg1].
  destruct (ns_add bucket_ip_limit (key_of a) (bips (lb L))) as [b1 ok2] eqn:E2.
  destruct (ns_add_spec _ _ _ _ _ Hb E2) as [Hb1 Hs2].
  destruct ok2; cbn [negb] in E; injection E as <- <-; cbn [lb lt entries repl bips].
  - destruct Hs2 as [Hlt2 Hg2]. split; [reflexivity|split; [reflexivity|split; [exact Hadd|]]].
    apply CS_intro; [exact Hb1|exact Ht1|]. intros k. cbn [lb lt bips].
    rewrite Hg2, Hg1, ipw_key by auto. destruct (Hg k). lia.
  - destruct Hs2 as [_ ->].
    destruct (ns_remove_spec table_ip_limit (key_of a) t1 Ht1) as [Ht2 Hg2]; [reflexivity|].
    split; [reflexivity|split; [reflexivity|]].
    apply CS_intro; [exact Hb|exact Ht2|]. intros k. cbn [lb lt bips].
    rewrite Hg2, Hg1. destruct (Hg k). destruct (k =? key_of a); lia.
Qed.

Lemma add_ip_success L a w rest :
  CS L w rest -> addable a = true ->
  (addr_is_lan a = true \/ (w (key_of a) < 2 /\ rest (key_of a) + w (key_of a) < 10)) ->
  exists L', add_ip L a = (L', true).
Proof.
  intros (Hb & Ht & Hg) Ha Hc. unfold add_ip.
  assert (E : negb (ip_valid a) || is_unspecified a = false).
  { unfold addable in Ha. destruct (ip_valid a), (is_unspecified a); cbn in *; congruence. }
  rewrite E. destruct (addr_is_lan a) eqn:Elan; [eauto|].
  destruct Hc as [Hc|[Hc1 Hc2]]; [discriminate|].
  destruct (Hg (key_of a)) as [Hgb Hgt].
  unfold ns_add. replace (ns_get (key_of a) (lt L) <? table_ip_limit) with true
    by (unfold table_ip_limit; lia).
  cbn [negb]. replace (ns_get (key_of a) (bips (lb L)) <? bucket_ip_limit) with true
    by (unfold bucket_ip_limit; lia).
  cbn [negb]. eauto.
Qed.

Lemma remove_ip_spec L a w rest :
  CS L w rest -> (forall k, ipw a k <= w k) ->
  entries (lb (remove_ip L a)) = entries (lb L) /\ repl (lb (remove_ip L a)) = repl (lb L) /\
  CS (remove_ip L a) (fun k => w k - ipw a k) rest.
Proof.
  intros HC Hw. pose proof HC as (Hb & Ht & Hg). unfold remove_ip.
  destruct (addr_is_lan a) eqn:Elan.
  { split; [reflexivity|split; [reflexivity|]]. apply CS_intro; [exact Hb|exact Ht|].
    intros k. rewrite ipw_lan by auto. destruct (Hg k). lia. }
  cbn [lb lt entries repl bips].
  destruct (ns_remove_spec 2 (key_of a) _ Hb) as [Hb2 Hgb]; [reflexivity|].
  destruct (ns_remove_spec 10 (key_of a) _ Ht) as [Ht2 Hgt]; [reflexivity|].
  split; [reflexivity|split; [reflexivity|]]. apply CS_intro; [exact Hb2|exact Ht2|].
  intros k. cbn [lb lt bips]. rewrite Hgb, Hgt, ipw_key by auto. destruct (Hg k). specialize (Hw k).
  rewrite ipw_key in Hw by auto. destruct (k =? key_of a); lia.
Qed.

(* ================= the bag of tracked records of one bucket ================= *)

Definition bidx (self_id id : N) : nat := bucket_index (logdist self_id id).
Definition trecs (b : bucket) : list rec := map n_rec (entries b) ++ map n_rec (repl b).

Definition rec_ok (self_id : N) (i : nat) (r : rec) : Prop :=
  bidx self_id (r_id r) = i /\ r_id r <> self_id /\ addable (r_ip r) = true.

Definition Bag (self_id : N) (i : nat) (l : list rec) : Prop :=
  (forall r, In r l -> rec_ok self_id i r) /\ NoDup (map r_id l).

Lemma bag_perm s i l l' : Permutation l l' -> Bag s i l -> Bag s i l'.
Proof.
  intros Hp [H1 H2]. split.
  - intros r Hr. apply H1. eapply Permutation_in; [symmetry; exact Hp|exact Hr].
  - eapply Permutation_NoDup; [apply Permutation_map; exact Hp|exact H2].
Qed.

Lemma bag_delete s i o X :
  Bag s i (o :: X) -> Bag s i X /\ rec_ok s i o /\ ~ In (r_id o) (map r_id X).
Proof.
  intros [H1 H2]. cbn [map] in H2. inversion H2 as [|? ? Hn Hd]; subst.
  split; [split; [intros r Hr; apply H1; right; exact Hr|exact Hd]|].
  split; [apply H1; left; reflexivity|exact Hn].
Qed.

Lemma bag_insert s i nw X :
  Bag s i X -> rec_ok s i nw -> ~ In (r_id nw) (map r_id X) -> Bag s i (nw :: X).
Proof.
  intros [H1 H2] Hok Hn. split.
  - intros r [<-|Hr]; auto.
  - cbn [map]. constructor; assumption.
Qed.

Lemma cntr_in k r l : In r l -> ipw (r_ip r) k <= cntr k l.
Proof.
  induction l as [|x l IH]; [intros []|]. cbn [cntr]. intros [->|H]; [lia|].
  specialize (IH H). lia.
Qed.

Lemma perm_mid {A} (a b c : list A) x : Permutation ((a ++ x :: b) ++ c) (x :: (a ++ b) ++ c).
Proof.
  rewrite <- !app_assoc. cbn [app]. symmetry. apply Permutation_middle.
Qed.

Lemma perm_mid2 {A} (e a b : list A) x : Permutation (e ++ a ++ x :: b) (x :: e ++ a ++ b).
Proof.
  rewrite !app_assoc. symmetry. apply Permutation_middle.
Qed.

Lemma has_id_true id n : has_id id n = true <-> n_id n = id.
Proof. unfold has_id. apply N.eqb_eq. Qed.

Lemma not_in_ids id (l : list tnode) :
  (forall x, In x l -> has_id id x = false) -> ~ In id (map r_id (map n_rec l)).
Proof.
  intros H Hin. rewrite map_map in Hin. apply in_map_iff in Hin. destruct Hin as (x & Hx & Hi).
  specialize (H x Hi). unfold has_id, n_id in H. rewrite Hx in H. lia.
Qed.

Lemma contains_id_false l id :
  contains_id l id = false -> forall x, In x l -> has_id id x = false.
Proof.
  unfold contains_id. intros H x Hx. destruct (has_id id x) eqn:E; [|reflexivity].
  assert (existsb (has_id id) l = true) by (apply existsb_exists; eauto). congruence.
Qed.

(* structural invariant of one bucket *)
Record BS (self_id : N) (i : nat) (b : bucket) : Prop := {
  bs_len_e : (length (entries b) <= 16)%nat;
  bs_len_r : (length (repl b) <= 10)%nat;
  bs_bag : Bag self_id i (trecs b);
  bs_nonfull : (length (entries b) < 16)%nat -> repl b = [];
  bs_rl_e : forall n, In n (entries b) -> n_rl n <> 0;
  bs_rl_r : forall n, In n (repl b) -> n_rl n = 0
}.

Definition LInv (self_id : N) (i : nat) (rest : N -> N) (L : lst) : Prop :=
  BS self_id i (lb L) /\ CS L (fun k => cntr k (trecs (lb L))) rest.

Lemma LInv_bound s i rest L k :
  LInv s i rest L -> cntr k (trecs (lb L)) <= 2 /\ rest k + cntr k (trecs (lb L)) <= 10.
Proof.
  intros [_ (Hb & Ht & Hg)]. destruct (Hg k) as [<- <-].
  split; apply ns_ok_get; assumption.
Qed.

(* ================= bumpInBucket ================= *)

Lemma replace_entry s i b l1 n l2 n' r bips' :
  BS s i b -> entries b = l1 ++ n :: l2 -> r = repl b ->
  n_id n' = n_id n -> addable (n_ip n') = true -> n_rl n' <> 0 ->
  BS s i (mkB (l1 ++ n' :: l2) r bips') /\
  forall k, cntr k (trecs (mkB (l1 ++ n' :: l2) r bips')) + ipw (n_ip n) k
            = cntr k (trecs b) + ipw (n_ip n') k.
Proof.
  intros HS He -> Hid Hadd Hrl.
  set (X := (map n_rec l1 ++ map n_rec l2) ++ map n_rec (repl b)).
  assert (P1 : Permutation (trecs b) (n_rec n :: X)).
  { unfold trecs. rewrite He, map_app. cbn [map]. apply perm_mid. }
  assert (P2 : Permutation (trecs (mkB (l1 ++ n' :: l2) (repl b) bips')) (n_rec n' :: X)).
  { unfold trecs. cbn [entries repl]. rewrite map_app. cbn [map]. apply perm_mid. }
  destruct (bag_delete s i _ _ (bag_perm _ _ _ _ P1 (bs_bag _ _ _ HS))) as (HX & (Hi & Hs & _) & Hn).
  split.
  - constructor; cbn [entries repl].
    + pose proof (bs_len_e _ _ _ HS) as H. rewrite He in H. rewrite app_length in *. cbn [length] in *. lia.
    + apply (bs_len_r _ _ _ HS).
    + eapply bag_perm; [symmetry; exact P2|]. apply bag_insert; [exact HX| |].
      * unfold rec_ok. unfold n_id in Hid. rewrite Hid. auto.
      * unfold n_id in Hid. rewrite Hid. exact Hn.
    + intros H. apply (bs_nonfull _ _ _ HS). rewrite He. rewrite app_length in *. cbn [length] in *. lia.
    + intros x Hx. apply in_app_or in Hx. destruct Hx as [Hx|[<-|Hx]]; [|exact Hrl|];
        apply (bs_rl_e _ _ _ HS); rewrite He; apply in_or_app; [left|right; right]; exact Hx.
    + apply (bs_rl_r _ _ _ HS).
  - intros k. rewrite (cntr_perm k _ _ P1), (cntr_perm k _ _ P2). cbn [cntr]. unfold n_ip. lia.
Qed.

Lemma LInv_set_entries_CS L e w rest : CS L w rest -> CS (set_entries L e) w rest.
Proof. intros H. exact H. Qed.

Lemma bump_spec s i rest L nr inb L' found ch :
  LInv s i rest L -> bump_in_bucket L nr inb = (L', found, ch) ->
  LInv s i rest L' /\ length (entries (lb L')) = length (entries (lb L)) /\
  repl (lb L') = repl (lb L) /\
  (found = false -> L' = L /\ find_first (has_id (r_id nr)) (entries (lb L)) = None).
Proof.
  intros [HS HC] E. unfold bump_in_bucket in E.
  destruct (find_first (has_id (r_id nr)) (entries (lb L))) as [n|] eqn:Ef.
  2:{ injection E as <- <- <-. split; [split; assumption|]. auto. }
  destruct (find_first_split _ _ _ Ef) as (l1 & l2 & Hl & Hp & _ & _ & Hm).
  apply has_id_true in Hp.
  destruct ((r_seq nr <=? r_seq (n_rec n)) && negb inb).
  { injection E as <- <- <-. split; [split; assumption|]. split; [reflexivity|]. split; [reflexivity|discriminate]. }
  assert (Hin : In (n_rec n) (trecs (lb L))).
  { unfold trecs. apply in_or_app. left. apply in_map. rewrite Hl. apply in_or_app. right. left. reflexivity. }
  destruct (proj1 (bs_bag _ _ _ HS) _ Hin) as (_ & _ & Hadd_old).
  destruct (negb (ip_eqb (r_ip nr) (n_ip n))) eqn:Eip.
  - (* the address changed *)
    destruct (remove_ip_spec L (n_ip n) _ rest HC (fun k => cntr_in k _ _ Hin)) as (Hre & Hrr & HCa).
    destruct (add_ip (remove_ip L (n_ip n)) (r_ip nr)) as [Lb ok] eqn:Ea.
    destruct (add_ip_spec _ _ _ _ _ _ HCa Ea) as (Hbe & Hbr & Hok).
    destruct ok.
    + destruct Hok as [Hadd HCb]. cbn [negb orb] in E. injection E as <- <- <-.
      rewrite Hbe, Hre, Hm. cbn [set_entries lb entries repl].
      destruct (replace_entry s i (lb L) l1 n l2 (mkT nr (n_tok n) 1 (n_checks n) false)
                  (repl (lb Lb)) (bips (lb Lb)) HS Hl) as [HS' Hc];
        [congruence|unfold n_id; cbn [n_rec]; symmetry; exact Hp|exact Hadd|cbn; lia|].
      split; [split; [exact HS'|]|].
      * apply (LInv_set_entries_CS Lb). eapply CS_ext; [|exact HCb].
        intros k. cbn beta. unfold set_entries. cbn [lb]. specialize (Hc k). pose proof (cntr_in k _ _ Hin) as Hle.
        unfold n_ip in *. cbn [n_rec] in Hc. lia.
      * rewrite Hl, !app_length. cbn [length]. split; [reflexivity|].
        split; [congruence|discriminate].
    + (* the new address does not fit: the old one is put back *)
      cbn [negb] in E.
      destruct (add_ip_success Lb (n_ip n) _ rest Hok Hadd_old) as [Lc Ec].
      { destruct (addr_is_lan (n_ip n)) eqn:Elan; [left; reflexivity|right].
        destruct (LInv_bound s i rest L (key_of (n_ip n)) (conj HS HC)) as [B1 B2].
        pose proof (cntr_in (key_of (n_ip n)) _ _ Hin) as Hle. unfold n_ip in *.
        rewrite ipw_key in * by exact Elan. rewrite N.eqb_refl in *. lia. }
      rewrite Ec in E. cbn [fst] in E. injection E as <- <- <-.
      destruct (add_ip_spec _ _ _ _ _ _ Hok Ec) as (Hce & Hcr & _ & HCc).
      assert (He : entries (lb Lc) = entries (lb L)) by congruence.
      assert (Hr : repl (lb Lc) = repl (lb L)) by congruence.
      split; [split|].
      * destruct HS. constructor; rewrite ?He, ?Hr; auto.
        unfold trecs in *. rewrite He, Hr. assumption.
      * eapply CS_ext; [|exact HCc]. intros k. cbn beta.
        pose proof (cntr_in k _ _ Hin) as Hle. unfold n_ip in *.
        unfold trecs. rewrite He, Hr. fold (trecs (lb L)). lia.
      * rewrite He. split; [reflexivity|]. split; [exact Hr|discriminate].
  - (* same address *)
    assert (Hsame : r_ip nr = n_ip n).
    { apply ip_eqb_eq. destruct (ip_eqb (r_ip nr) (n_ip n)); [reflexivity|discriminate]. }
    cbn [negb orb] in E.
    destruct (negb (r_udp nr =? r_udp (n_rec n))); injection E as <- <- <-;
      rewrite Hm; cbn [set_entries lb entries repl].
    + destruct (replace_entry s i (lb L) l1 n l2 (mkT nr (n_tok n) 1 (n_checks n) false)
                  (repl (lb L)) (bips (lb L)) HS Hl) as [HS' Hc];
        [reflexivity|unfold n_id; cbn [n_rec]; symmetry; exact Hp
        |unfold n_ip; cbn [n_rec]; rewrite Hsame; exact Hadd_old|cbn; lia|].
      split; [split; [exact HS'|]|].
      * apply (LInv_set_entries_CS L). eapply CS_ext; [|exact HC].
        intros k. cbn beta. unfold set_entries. cbn [lb]. specialize (Hc k). unfold n_ip in *. cbn [n_rec] in Hc.
        rewrite Hsame in Hc. lia.
      * rewrite Hl, !app_length. cbn [length]. split; [reflexivity|]. split; [reflexivity|discriminate].
    + destruct (replace_entry s i (lb L) l1 n l2 (mkT nr (n_tok n) (n_rl n) (n_checks n) (n_live n))
                  (repl (lb L)) (bips (lb L)) HS Hl) as [HS' Hc];
        [reflexivity|unfold n_id; cbn [n_rec]; symmetry; exact Hp
        |unfold n_ip; cbn [n_rec]; rewrite Hsame; exact Hadd_old
        |cbn [n_rl]; apply (bs_rl_e _ _ _ HS); rewrite Hl; apply in_or_app; right; left; reflexivity|].
      split; [split; [exact HS'|]|].
      * apply (LInv_set_entries_CS L). eapply CS_ext; [|exact HC].
        intros k. cbn beta. unfold set_entries. cbn [lb]. specialize (Hc k). unfold n_ip in *. cbn [n_rec] in Hc.
        rewrite Hsame in Hc. lia.
      * rewrite Hl, !app_length. cbn [length]. split; [reflexivity|]. split; [reflexivity|discriminate].
Qed.

(* ================= touching fields that are not part of the record ================= *)

Lemma map_first_rec (p : tnode -> bool) (f : tnode -> tnode) l :
  (forall x, n_rec (f x) = n_rec x) -> map n_rec (map_first p f l) = map n_rec l.
Proof.
  intros H. induction l as [|x l IH]; [reflexivity|]. cbn [map_first].
  destruct (p x); cbn [map]; [rewrite H|rewrite IH]; reflexivity.
Qed.

Lemma map_first_in {A} (p : A -> bool) f l y :
  In y (map_first p f l) -> In y l \/ exists x, In x l /\ y = f x.
Proof.
  induction l as [|x l IH]; [intros []|]. cbn [map_first]. destruct (p x).
  - intros [<-|H]; [right; exists x; split; [left|]; reflexivity|left; right; exact H].
  - intros [<-|H]; [left; left; reflexivity|].
    destruct (IH H) as [H'|(z & Hz & ->)]; [left; right; exact H'|right; exists z; split; [right|]; auto].
Qed.

Lemma map_first_length {A} (p : A -> bool) f l : length (map_first p f l) = length l.
Proof.
  induction l as [|x l IH]; [reflexivity|]. cbn [map_first]. destruct (p x); cbn [length]; auto.
Qed.

Lemma BS_same s i b b' :
  entries b' = entries b -> repl b' = repl b -> BS s i b -> BS s i b'.
Proof.
  intros He Hr HS. destruct HS. constructor; unfold trecs in *; rewrite ?He, ?Hr; auto.
Qed.

Lemma LInv_touch s i rest L p f :
  LInv s i rest L -> (forall x, n_rec (f x) = n_rec x) -> (forall x, n_rl x <> 0 -> n_rl (f x) <> 0) ->
  LInv s i rest (set_entries L (map_first p f (entries (lb L)))).
Proof.
  intros [HS HC] Hrec Hrl.
  assert (HT : trecs (lb (set_entries L (map_first p f (entries (lb L))))) = trecs (lb L)).
  { unfold trecs, set_entries. cbn [lb entries repl]. rewrite map_first_rec by exact Hrec. reflexivity. }
  split.
  - destruct HS. constructor; rewrite ?HT; unfold set_entries; cbn [lb entries repl];
      rewrite ?map_first_length; auto.
    intros y Hy. destruct (map_first_in _ _ _ _ Hy) as [H|(x & Hx & ->)]; auto.
  - apply (LInv_set_entries_CS L). eapply CS_ext; [|exact HC]. intros k. rewrite HT. reflexivity.
Qed.

(* ================= addReplacement ================= *)

Lemma add_replacement_spec s i rest L r tok :
  LInv s i rest L -> bidx s (r_id r) = i -> r_id r <> s ->
  find_first (has_id (r_id r)) (entries (lb L)) = None ->
  (16 <= length (entries (lb L)))%nat ->
  LInv s i rest (add_replacement L r tok).
Proof.
  intros [HS HC] Hi Hs Hnf Hfull. unfold add_replacement.
  destruct (contains_id (repl (lb L)) (r_id r)) eqn:Ec; [split; assumption|].
  destruct (add_ip L (r_ip r)) as [L1 ok] eqn:Ea.
  destruct (add_ip_spec _ _ _ _ _ _ HC Ea) as (He & Hr & Hok).
  destruct ok; cbn [negb].
  2:{ split; [eapply BS_same; eauto|]. eapply CS_ext; [|exact Hok].
      intros k. unfold trecs. rewrite He, Hr. reflexivity. }
  destruct Hok as [Hadd HC1].
  set (wn := mkT r tok 0 0 false).
  assert (Hnotin : ~ In (r_id r) (map r_id (trecs (lb L)))).
  { unfold trecs. rewrite map_app. intros H. apply in_app_or in H. destruct H as [H|H]; revert H.
    - apply not_in_ids. apply find_first_none. exact Hnf.
    - apply not_in_ids. apply contains_id_false. exact Ec. }
  assert (Hok : rec_ok s i r) by (unfold rec_ok; auto).
  unfold push_node. rewrite Hr.
  destruct (Nat.ltb (length (repl (lb L))) max_replacements) eqn:Elen.
  - (* room in the replacement list *)
    unfold set_repl. cbn [lb].
    assert (P : Permutation (trecs (mkB (entries (lb L1)) (wn :: repl (lb L)) (bips (lb L1))))
                            (r :: trecs (lb L))).
    { unfold trecs. cbn [entries repl map]. rewrite He. symmetry. apply Permutation_middle. }
    split.
    + constructor; cbn [lb entries repl].
      * rewrite He. apply (bs_len_e _ _ _ HS).
      * cbn [length]. unfold max_replacements in Elen. apply Nat.ltb_lt in Elen. lia.
      * eapply bag_perm; [symmetry; exact P|]. apply bag_insert; [apply (bs_bag _ _ _ HS)|exact Hok|exact Hnotin].
      * rewrite He. intros H. lia.
      * rewrite He. apply (bs_rl_e _ _ _ HS).
      * intros x [<-|Hx]; [reflexivity|apply (bs_rl_r _ _ _ HS); exact Hx].
    + apply CS_intro; [apply HC1|apply HC1|]. intros k. cbn [lb lt bips].
      rewrite (cntr_perm k _ _ P). cbn [cntr]. destruct HC1 as (_ & _ & Hg). destruct (Hg k). lia.
  - (* the oldest replacement is evicted and its address released *)
    unfold max_replacements in Elen. apply Nat.ltb_ge in Elen.
    destruct (last_opt_some (repl (lb L))) as [x Hx]; [intros H; rewrite H in Elen; cbn in Elen; lia|].
    rewrite Hx. pose proof (last_opt_split _ _ Hx) as Hsplit.
    set (rl := removelast (repl (lb L))) in *.
    assert (Hlen : length (repl (lb L)) = S (length rl)).
    { rewrite Hsplit, app_length. cbn [length]. lia. }
    set (X := map n_rec (entries (lb L)) ++ map n_rec rl).
    assert (P1 : Permutation (trecs (lb L)) (n_rec x :: X)).
    { unfold trecs, X. rewrite Hsplit, map_app. cbn [map]. rewrite app_assoc.
      symmetry. apply Permutation_cons_append. }
    assert (P2 : Permutation (trecs (mkB (entries (lb L1)) (wn :: rl) (bips (lb L1)))) (r :: X)).
    { unfold trecs, X. cbn [entries repl map]. rewrite He. symmetry. apply Permutation_middle. }
    assert (Hxin : In (n_rec x) (trecs (lb L))).
    { eapply Permutation_in; [symmetry; exact P1|left; reflexivity]. }
    assert (HC2 : CS (set_repl L1 (wn :: rl)) (fun k => cntr k (trecs (lb L)) + ipw (r_ip r) k) rest) by exact HC1.
    destruct (remove_ip_spec _ (n_ip x) _ rest HC2) as (He3 & Hr3 & HC3).
    { intros k. pose proof (cntr_in k _ _ Hxin). unfold n_ip. lia. }
    cbn [set_repl lb entries repl] in He3, Hr3.
    assert (HT : trecs (lb (remove_ip (set_repl L1 (wn :: rl)) (n_ip x)))
                 = trecs (mkB (entries (lb L1)) (wn :: rl) (bips (lb L1)))).
    { unfold trecs. rewrite He3, Hr3. reflexivity. }
    destruct (bag_delete s i _ _ (bag_perm _ _ _ _ P1 (bs_bag _ _ _ HS))) as (HX & _ & _).
    split.
    + constructor; rewrite ?HT, ?He3, ?Hr3.
      * rewrite He. apply (bs_len_e _ _ _ HS).
      * cbn [length]. pose proof (bs_len_r _ _ _ HS). lia.
      * eapply bag_perm; [symmetry; exact P2|]. apply bag_insert; [exact HX|exact Hok|].
        intros H. apply Hnotin. eapply Permutation_in; [symmetry; apply Permutation_map; exact P1|].
        cbn [map]. right. exact H.
      * rewrite He. intros H. lia.
      * rewrite He. apply (bs_rl_e _ _ _ HS).
      * intros y [<-|Hy]; [reflexivity|]. apply (bs_rl_r _ _ _ HS). rewrite Hsplit.
        apply in_or_app. left. exact Hy.
    + eapply CS_ext; [|exact HC3]. intros k. cbn beta. rewrite HT.
      rewrite (cntr_perm k _ _ P2), (cntr_perm k _ _ P1). cbn [cntr]. unfold n_ip. lia.
Qed.

(* ================= handleAddNode ================= *)

Lemma handle_add_node_l_spec s i rest initd L r tok inb fl L' ok :
  LInv s i rest L -> bidx s (r_id r) = i ->
  handle_add_node_l s initd L r tok inb fl = (L', ok) -> LInv s i rest L'.
Proof.
  intros HI Hi E. unfold handle_add_node_l in E.
  destruct (r_id r =? s) eqn:Es; [injection E as <- <-; exact HI|].
  assert (Hs : r_id r <> s) by lia.
  destruct (inb && negb initd); [injection E as <- <-; exact HI|].
  destruct (bump_in_bucket L r inb) as [[L1 found] ch] eqn:Eb.
  destruct (bump_spec _ _ _ _ _ _ _ _ _ HI Eb) as (HI1 & _ & _ & Hnf).
  destruct found; [injection E as <- <-; exact HI1|].
  destruct (Hnf eq_refl) as [-> Hnone]. clear Hnf HI1.
  destruct (Nat.leb bucket_size (length (entries (lb L)))) eqn:Efull.
  { injection E as <- <-. apply add_replacement_spec; auto.
    unfold bucket_size in Efull. apply Nat.leb_le in Efull. exact Efull. }
  unfold bucket_size in Efull. apply Nat.leb_gt in Efull.
  destruct HI as [HS HC].
  pose proof (bs_nonfull _ _ _ HS Efull) as Hrepl.
  destruct (add_ip L (r_ip r)) as [L2 ok2] eqn:Ea.
  destruct (add_ip_spec _ _ _ _ _ _ HC Ea) as (He & Hr & Hok).
  destruct ok2; cbn [negb] in E; injection E as <- <-.
  2:{ split; [eapply BS_same; eauto|]. eapply CS_ext; [|exact Hok].
      intros k. unfold trecs. rewrite He, Hr. reflexivity. }
  destruct Hok as [Hadd HC2].
  set (wn := mkT r tok 1 (if fl then 1 else 0) fl).
  rewrite He, Hr, Hrepl. cbn [delete_node filter].
  assert (P : Permutation (trecs (mkB (entries (lb L) ++ [wn]) [] (bips (lb L2)))) (r :: trecs (lb L))).
  { unfold trecs. cbn [entries repl map]. rewrite Hrepl, map_app. cbn [map]. rewrite !app_nil_r.
    symmetry. apply Permutation_cons_append. }
  split.
  - constructor; cbn [lb entries repl].
    + rewrite app_length. cbn [length]. lia.
    + cbn [length]. lia.
    + eapply bag_perm; [symmetry; exact P|]. apply bag_insert; [apply (bs_bag _ _ _ HS)|unfold rec_ok; auto|].
      unfold trecs. rewrite Hrepl. cbn [map]. rewrite app_nil_r. apply not_in_ids.
      apply find_first_none. exact Hnone.
    + reflexivity.
    + intros x Hx. apply in_app_or in Hx. destruct Hx as [Hx|[<-|[]]]; [apply (bs_rl_e _ _ _ HS); exact Hx|cbn; lia].
    + intros x [].
  - apply CS_intro; [apply HC2|apply HC2|]. intros k. cbn [lb lt bips].
    rewrite (cntr_perm k _ _ P). cbn [cntr]. destruct HC2 as (_ & _ & Hg). destruct (Hg k). lia.
Qed.

(* ================= deleteInBucket ================= *)

Lemma delete_in_bucket_spec s i rest L id rnd :
  LInv s i rest L ->
  exists L' o, delete_in_bucket L id rnd = Some (L', o) /\ LInv s i rest L'.
Proof.
  intros [HS HC]. unfold delete_in_bucket.
  destruct (find_first (has_id id) (entries (lb L))) as [n|] eqn:Ef.
  2:{ eexists _, _. split; [reflexivity|split; assumption]. }
  destruct (find_first_split _ _ _ Ef) as (l1 & l2 & Hl & _ & _ & Hrm & _).
  rewrite Hrm.
  assert (Hnin : In n (entries (lb L))) by (rewrite Hl; apply in_or_app; right; left; reflexivity).
  assert (Hin : In (n_rec n) (trecs (lb L))).
  { unfold trecs. apply in_or_app. left. apply in_map. exact Hnin. }
  assert (HC0 : CS (set_entries L (l1 ++ l2)) (fun k => cntr k (trecs (lb L))) rest) by exact HC.
  destruct (remove_ip_spec _ (n_ip n) _ rest HC0 (fun k => cntr_in k _ _ Hin)) as (He & Hr & HC1).
  cbn [set_entries lb entries repl] in He, Hr.
  set (L1 := remove_ip (set_entries L (l1 ++ l2)) (n_ip n)) in *.
  pose proof (bs_rl_e _ _ _ HS n Hnin) as Hrl.
  replace (n_rl n =? 0) with false by lia.
  assert (P1 : Permutation (trecs (lb L)) (n_rec n :: map n_rec (l1 ++ l2) ++ map n_rec (repl (lb L)))).
  { unfold trecs. rewrite Hl, !map_app. cbn [map]. apply perm_mid. }
  destruct (bag_delete s i _ _ (bag_perm _ _ _ _ P1 (bs_bag _ _ _ HS))) as (HX & _ & _).
  assert (Hlen : length (entries (lb L)) = S (length (l1 ++ l2))).
  { rewrite Hl, !app_length. cbn [length]. lia. }
  rewrite Hr. destruct (repl (lb L)) as [|x xs] eqn:Erepl.
  - (* no replacement *)
    eexists _, _. split; [reflexivity|].
    assert (HT : trecs (lb L1) = map n_rec (l1 ++ l2) ++ map n_rec []).
    { unfold trecs. rewrite He, Hr. reflexivity. }
    split.
    + constructor; rewrite ?HT, ?He, ?Hr.
      * pose proof (bs_len_e _ _ _ HS). lia.
      * cbn [length]. lia.
      * exact HX.
      * reflexivity.
      * intros y Hy. apply (bs_rl_e _ _ _ HS). rewrite Hl. apply in_app_or in Hy.
        apply in_or_app. destruct Hy; [left|right; right]; assumption.
      * intros y [].
    + eapply CS_ext; [|exact HC1]. intros k. cbn beta. rewrite HT, (cntr_perm k _ _ P1).
      cbn [cntr]. unfold n_ip. lia.
  - (* a replacement is promoted *)
    set (R := x :: xs) in *.
    assert (Hne : length R <> O) by (cbn; lia).
    destruct (take_nth_some (N.to_nat (rnd mod N.of_nat (length R))) R) as (rp & rest' & Et).
    { pose proof (N.mod_lt rnd (N.of_nat (length R))). lia. }
    rewrite Et. eexists _, _. split; [reflexivity|].
    destruct (take_nth_split _ _ _ _ Et) as (a & b & Hab & ->).
    cbn [lb lt entries repl bips]. rewrite He.
    set (b' := mkB ((l1 ++ l2) ++ [set_rl 1 rp]) (a ++ b) (bips (lb L1))).
    assert (P2 : Permutation (map n_rec (l1 ++ l2) ++ map n_rec R) (trecs b')).
    { unfold trecs, b'. cbn [entries repl]. rewrite Hab, !map_app. cbn [map set_rl n_rec].
      rewrite <- !app_assoc. apply Permutation_app_head. apply Permutation_app_head. cbn [app].
      symmetry. apply Permutation_middle. }
    pose proof (bs_len_r _ _ _ HS) as HlenR. rewrite Erepl in HlenR.
    split.
    + constructor; unfold b'; cbn [lb entries repl].
      * rewrite app_length. cbn [length]. pose proof (bs_len_e _ _ _ HS). lia.
      * rewrite Hab, app_length in HlenR. cbn [length] in HlenR. rewrite app_length. lia.
      * eapply bag_perm; [exact P2|exact HX].
      * rewrite app_length. cbn [length]. intros H.
        assert (H16 : (length (entries (lb L)) < 16)%nat) by lia.
        apply (bs_nonfull _ _ _ HS) in H16. rewrite Erepl in H16. discriminate.
      * intros y Hy. apply in_app_or in Hy. destruct Hy as [Hy|[<-|[]]]; [|cbn; lia].
        apply (bs_rl_e _ _ _ HS). rewrite Hl. apply in_app_or in Hy.
        apply in_or_app. destruct Hy; [left|right; right]; assumption.
      * intros y Hy. apply (bs_rl_r _ _ _ HS). rewrite Erepl. fold R. rewrite Hab. apply in_app_or in Hy.
        apply in_or_app. destruct Hy; [left|right; right]; assumption.
    + apply CS_intro; [apply HC1|apply HC1|]. intros k. cbn [lb lt].
      replace (bips b') with (bips (lb L1)) by reflexivity. rewrite <- (cntr_perm k _ _ P2).
      destruct HC1 as (_ & _ & Hg). destruct (Hg k) as [G1 G2]. rewrite G1, G2.
      rewrite (cntr_perm k _ _ P1). cbn [cntr]. unfold n_ip. lia.
Qed.

(* ================= revalidation.handleResponse ================= *)

Lemma handle_response_l_spec s i rest L n resp nr rnd :
  LInv s i rest L ->
  exists L', handle_response_l L n resp nr rnd = Some L' /\ LInv s i rest L'.
Proof.
  intros HI. unfold handle_response_l. destruct resp; cbn [negb].
  - (* the node responded *)
    set (L1 := set_entries L _).
    assert (HI1 : LInv s i rest L1).
    { apply LInv_touch; [exact HI|reflexivity|intros x Hx; exact Hx]. }
    destruct nr as [nr|].
    + destruct (bump_in_bucket L1 nr false) as [[L2 f] ch] eqn:Eb.
      destruct (bump_spec _ _ _ _ _ _ _ _ _ HI1 Eb) as (HI2 & _).
      destruct ch; eexists; (split; [reflexivity|]); [exact HI2|].
      apply LInv_touch; [exact HI2|reflexivity|intros x _; cbn; lia].
    + eexists. split; [reflexivity|]. apply LInv_touch; [exact HI1|reflexivity|intros x _; cbn; lia].
  - (* no response *)
    set (L1 := set_entries L _).
    assert (HI1 : LInv s i rest L1).
    { apply LInv_touch; [exact HI|reflexivity|intros x Hx; exact Hx]. }
    destruct (n_checks n / 3 <=? 0).
    + destruct (delete_in_bucket_spec s i rest L1 (n_id n) rnd HI1) as (L2 & o & -> & HI2).
      eexists. split; [reflexivity|exact HI2].
    + eexists. split; [reflexivity|]. apply LInv_touch; [exact HI1|reflexivity|intros x _; cbn; lia].
Qed.

(* ================= the whole table ================= *)

Fixpoint total (k : N) (bs : list bucket) : N :=
  match bs with [] => 0 | b :: r => cntr k (trecs b) + total k r end.

Definition BInv (self_id : N) (i : nat) (b : bucket) : Prop :=
  BS self_id i b /\ ns_ok 2 (bips b) /\ forall k, ns_get k (bips b) = cntr k (trecs b).

Record TableInv (t : table) : Prop := {
  ti_len : length (buckets t) = 17%nat;
  ti_self : self t < 2 ^ 256;
  ti_bs : forall i b, nth_error (buckets t) i = Some b -> BInv (self t) i b;
  ti_ok : ns_ok 10 (tips t);
  ti_exact : forall k, ns_get k (tips t) = total k (buckets t)
}.

Lemma set_nth_length {A} i (x : A) l : length (set_nth i x l) = length l.
Proof.
  revert i. induction l as [|y l IH]; intros i; [reflexivity|]. destruct i; cbn [set_nth length]; auto.
Qed.

Lemma nth_error_set_nth {A} i (x : A) l j y :
  nth_error l i = Some y ->
  nth_error (set_nth i x l) j = if Nat.eqb j i then Some x else nth_error l j.
Proof.
  revert i j. induction l as [|z l IH]; intros i j H; [destruct i; discriminate|].
  destruct i as [|i]; destruct j as [|j]; cbn [set_nth nth_error Nat.eqb]; auto.
Qed.

Lemma total_split bs i b :
  nth_error bs i = Some b ->
  exists rest : N -> N, (forall k, total k bs = rest k + cntr k (trecs b)) /\
    forall b' k, total k (set_nth i b' bs) = rest k + cntr k (trecs b').
Proof.
  revert i. induction bs as [|x bs IH]; intros i H; [destruct i; discriminate|].
  destruct i as [|i]; cbn [nth_error] in H.
  - injection H as ->. exists (fun k => total k bs). split; intros; cbn [set_nth total]; lia.
  - destruct (IH i H) as (rest & H1 & H2).
    exists (fun k => cntr k (trecs x) + rest k). split; intros; cbn [set_nth total].
    + rewrite H1. lia.
    + rewrite H2. lia.
Qed.

Lemma lxor_lt_pow2 a b n : a < 2 ^ n -> b < 2 ^ n -> N.lxor a b < 2 ^ n.
Proof.
  intros Ha Hb. destruct (N.eq_dec (N.lxor a b) 0) as [->|Hx]; [apply N.neq_0_lt_0; apply N.pow_nonzero; lia|].
  assert (Hn : 0 < n).
  { destruct (N.eq_dec n 0) as [->|]; [|lia]. change (2 ^ 0) with 1 in *.
    assert (a = 0) by lia. assert (b = 0) by lia. subst. cbn in Hx. congruence. }
  apply N.log2_lt_pow2; [lia|].
  eapply N.le_lt_trans; [apply N.log2_lxor|].
  apply N.max_lub_lt.
  - destruct (N.eq_dec a 0) as [->|Ha0]; [cbn; exact Hn|apply N.log2_lt_pow2; lia].
  - destruct (N.eq_dec b 0) as [->|Hb0]; [cbn; exact Hn|apply N.log2_lt_pow2; lia].
Qed.

Lemma bidx_lt s id : s < 2 ^ 256 -> id < 2 ^ 256 -> (bidx s id < 17)%nat.
Proof.
  intros Hs Hid. unfold bidx, bucket_index, logdist.
  pose proof (lxor_lt_pow2 _ _ _ Hs Hid) as Hx.
  assert (Hsz : N.size (N.lxor s id) <= 256).
  { destruct (N.eq_dec (N.lxor s id) 0) as [->|Hn]; [cbn; lia|].
    rewrite N.size_log2 by exact Hn. apply N.log2_lt_pow2 in Hx; lia. }
  destruct (N.size (N.lxor s id) <=? 239) eqn:E; lia.
Qed.

Lemma with_bucket_spec {R} t id (f : lst -> option (lst * R)) :
  TableInv t -> (bidx (self t) id < 17)%nat ->
  (forall rest L, LInv (self t) (bidx (self t) id) rest L ->
     exists L' r, f L = Some (L', r) /\ LInv (self t) (bidx (self t) id) rest L') ->
  exists t' r, with_bucket t id f = Some (t', r) /\ TableInv t' /\ self t' = self t.
Proof.
  intros HT Hlt Hf. unfold with_bucket, bucket_of. fold (bidx (self t) id).
  set (i := bidx (self t) id) in *.
  destruct (nth_error (buckets t) i) as [b|] eqn:En.
  2:{ apply nth_error_None in En. rewrite (ti_len _ HT) in En. lia. }
  destruct (ti_bs _ HT _ _ En) as (HS & Hok & Hex).
  destruct (total_split _ _ _ En) as (rest & H1 & H2).
  destruct (Hf rest (mkL b (tips t))) as (L' & r & -> & HS' & HC').
  { split; [exact HS|]. apply CS_intro; [exact Hok|exact (ti_ok _ HT)|].
    intros k. cbn [lb lt]. split; [apply Hex|]. rewrite (ti_exact _ HT), H1. reflexivity. }
  eexists _, _. split; [reflexivity|]. split; [|reflexivity].
  destruct HC' as (Hb' & Ht' & Hg').
  constructor; cbn [self buckets tips init_done].
  - rewrite set_nth_length. apply (ti_len _ HT).
  - apply (ti_self _ HT).
  - intros j bj Hj. rewrite (nth_error_set_nth _ _ _ _ _ En) in Hj.
    destruct (Nat.eqb j i) eqn:Eji.
    + apply Nat.eqb_eq in Eji. subst j. injection Hj as <-.
      split; [exact HS'|]. split; [exact Hb'|]. intros k. apply Hg'.
    + apply (ti_bs _ HT). exact Hj.
  - exact Ht'.
  - intros k. rewrite H2. apply Hg'.
Qed.

Lemma handle_add_node_inv t r tok inb fl :
  TableInv t -> r_id r < 2 ^ 256 ->
  exists t' ok, handle_add_node t r tok inb fl = Some (t', ok) /\ TableInv t' /\ self t' = self t.
Proof.
  intros HT Hid. unfold handle_add_node. apply with_bucket_spec; [exact HT|apply bidx_lt; [apply (ti_self _ HT)|exact Hid]|].
  intros rest L HI.
  destruct (handle_add_node_l (self t) (init_done t) L r tok inb fl) as [L' ok] eqn:E.
  exists L', ok. split; [reflexivity|]. eapply handle_add_node_l_spec; eauto.
Qed.

Lemma delete_node_op_inv t id rnd :
  TableInv t -> id < 2 ^ 256 ->
  exists t' o, delete_node_op t id rnd = Some (t', o) /\ TableInv t' /\ self t' = self t.
Proof.
  intros HT Hid. unfold delete_node_op. apply with_bucket_spec; [exact HT|apply bidx_lt; [apply (ti_self _ HT)|exact Hid]|].
  intros rest L HI. apply delete_in_bucket_spec. exact HI.
Qed.

Lemma find_first_in {A} (p : A -> bool) l n : find_first p l = Some n -> In n l.
Proof.
  intros H. destruct (find_first_split _ _ _ H) as (l1 & l2 & -> & _).
  apply in_or_app. right. left. reflexivity.
Qed.

Lemma find_tok_bidx t tok n :
  TableInv t -> find_tok t tok = Some n -> (bidx (self t) (n_id n) < 17)%nat.
Proof.
  intros HT H. unfold find_tok in H. apply find_first_in in H. apply in_flat_map in H.
  destruct H as (b & Hb & Hn). apply In_nth_error in Hb. destruct Hb as [i Hi].
  destruct (ti_bs _ HT _ _ Hi) as (HS & _).
  assert (Hin : In (n_rec n) (trecs b)).
  { unfold trecs. rewrite <- map_app. apply in_map. exact Hn. }
  destruct (proj1 (bs_bag _ _ _ HS) _ Hin) as (Hidx & _). unfold n_id. rewrite Hidx.
  assert (i < length (buckets t))%nat by (apply nth_error_Some; congruence).
  rewrite (ti_len _ HT) in *. assumption.
Qed.

Lemma handle_response_inv t tok resp nr rnd :
  TableInv t ->
  exists t', handle_response t tok resp nr rnd = Some t' /\ TableInv t' /\ self t' = self t.
Proof.
  intros HT. unfold handle_response. destruct (find_tok t tok) as [n|] eqn:Ef; [|eauto].
  destruct (n_rl n =? 0); [eauto|].
  destruct (with_bucket_spec t (n_id n)
              (fun L => match handle_response_l L n resp nr rnd with
                        | Some L' => Some (L', tt) | None => None end) HT)
    as (t' & r & -> & HT' & Hs).
  - eapply find_tok_bidx; eauto.
  - intros rest L HI.
    destruct (handle_response_l_spec _ _ _ _ n resp nr rnd HI) as (L' & -> & HI').
    eauto.
  - eauto.
Qed.

Lemma add_found_inv found : forall t,
  TableInv t -> Forall (fun x => r_id (fst x) < 2 ^ 256) found ->
  exists t', add_found t found = Some t' /\ TableInv t' /\ self t' = self t.
Proof.
  induction found as [|[r tok] found IH]; intros t HT Hf; [cbn; eauto|].
  inversion Hf as [|? ? Hr Hrest]; subst. cbn [fst] in Hr. cbn [add_found].
  destruct (handle_add_node_inv t r tok false false HT Hr) as (t1 & ok & -> & HT1 & Hs1).
  destruct (IH t1 HT1 Hrest) as (t2 & -> & HT2 & Hs2). exists t2. split; [reflexivity|]. split; [exact HT2|congruence].
Qed.

Lemma handle_track_request_inv t id succ prior found rnd :
  TableInv t -> id < 2 ^ 256 -> Forall (fun x => r_id (fst x) < 2 ^ 256) found ->
  exists t', handle_track_request t id succ prior found rnd = Some t' /\ TableInv t' /\ self t' = self t.
Proof.
  intros HT Hid Hf. unfold handle_track_request.
  match goal with |- context [with_bucket t id ?f] =>
    destruct (with_bucket_spec t id f HT) as (t1 & r & -> & HT1 & Hs1) end.
  - apply bidx_lt; [apply (ti_self _ HT)|exact Hid].
  - intros rest L HI. destruct (_ && _); [apply delete_in_bucket_spec; exact HI|eauto].
  - destruct (add_found_inv found t1 HT1 Hf) as (t2 & -> & HT2 & Hs2). exists t2. split; [reflexivity|]. split; [exact HT2|congruence].
Qed.

(* guard on operations: node ids are 256-bit values (the Go type enode.ID) *)
Definition wf_op (o : op) : Prop :=
  match o with
  | OInitDone => True
  | OAdd r _ _ _ => r_id r < 2 ^ 256
  | ODelete id _ => id < 2 ^ 256
  | OReval _ _ _ _ => True
  | OTrack id _ _ found _ => id < 2 ^ 256 /\ Forall (fun x => r_id (fst x) < 2 ^ 256) found
  end.

(* no operation panics, and every operation preserves the invariant *)
Lemma step_inv t o :
  TableInv t -> wf_op o -> exists t', step t o = Some t' /\ TableInv t' /\ self t' = self t.
Proof.
  intros HT Hw. destruct o as [|r tok inb fl|id rnd|tok resp nr rnd|id succ prior found rnd]; cbn [step wf_op] in *.
  - eexists. split; [reflexivity|]. split; [|reflexivity]. destruct HT. constructor; auto.
  - destruct (handle_add_node_inv t r tok inb fl HT Hw) as (t' & ok & -> & H). exists t'. split; [reflexivity|exact H].
  - destruct (delete_node_op_inv t id rnd HT Hw) as (t' & o & -> & H). exists t'. split; [reflexivity|exact H].
  - apply handle_response_inv. exact HT.
  - destruct Hw. apply handle_track_request_inv; auto.
Qed.

Lemma new_table_inv s : s < 2 ^ 256 -> TableInv (new_table s).
Proof.
  intros Hs. constructor; cbn [new_table self buckets tips].
  - reflexivity.
  - exact Hs.
  - intros i b H. assert (b = empty_bucket).
    { apply nth_error_In in H. apply repeat_spec in H. exact H. }
    subst b. split; [|split; [apply ns_ok_nil|reflexivity]].
    constructor; cbn; try lia; auto; try (intros ? []).
    split; [intros ? []|constructor].
  - apply ns_ok_nil.
  - intros k. reflexivity.
Qed.

Lemma run_inv ops : forall t,
  TableInv t -> Forall wf_op ops -> exists t', run t ops = Some t' /\ TableInv t' /\ self t' = self t.
Proof.
  induction ops as [|o ops IH]; intros t HT Hw; [cbn; eauto|].
  inversion Hw; subst. cbn [run].
  destruct (step_inv t o HT) as (t1 & -> & HT1 & Hs1); [assumption|].
  destruct (IH t1 HT1) as (t2 & -> & HT2 & Hs2); [assumption|]. exists t2. split; [reflexivity|]. split; [exact HT2|congruence].
Qed.

(* ================= findnodeByID ================= *)

Section Closest.
Variable target : N.
Definition dist (r : rec) : N := N.lxor target (r_id r).
Definition closer (a b : rec) : Prop := dist a < dist b.

Lemma search_split (n : rec) l :
  StronglySorted closer l -> (forall y, In y l -> dist y <> dist n) ->
  exists l1 l2, l = l1 ++ l2 /\
    length l1 = search_first (fun e => dist_gt target (r_id e) (r_id n)) l /\
    (forall y, In y l1 -> dist y < dist n) /\ (forall y, In y l2 -> dist n < dist y).
Proof.
  induction l as [|x l IH]; intros Hs Hd.
  - exists [], []. cbn. repeat split; auto; intros ? [].
  - cbn [search_first]. unfold dist_gt at 1. fold (dist n) (dist x).
    inversion Hs as [|? ? Hs' Hx]; subst.
    destruct (dist n <? dist x) eqn:E.
    + exists [], (x :: l). cbn [app length]. repeat split; auto; [intros ? []|].
      intros y [<-|Hy]; [lia|]. rewrite Forall_forall in Hx. specialize (Hx y Hy). unfold closer in Hx. lia.
    + destruct IH as (l1 & l2 & -> & Hlen & H1 & H2); [exact Hs'|intros y Hy; apply Hd; right; exact Hy|].
      exists (x :: l1), l2. cbn [app length]. repeat split; auto.
      intros y [<-|Hy]; [|apply H1; exact Hy].
      assert (dist x <> dist n) by (apply Hd; left; reflexivity). lia.
Qed.

Lemma insert_at_app {A} (l1 l2 : list A) x : insert_at (length l1) x (l1 ++ l2) = l1 ++ x :: l2.
Proof. induction l1 as [|y l1 IH]; cbn [length insert_at app]; [destruct l2; reflexivity|rewrite IH; reflexivity]. Qed.

Lemma sorted_mid l1 l2 (n : rec) :
  StronglySorted closer (l1 ++ l2) ->
  (forall y, In y l1 -> dist y < dist n) -> (forall y, In y l2 -> dist n < dist y) ->
  StronglySorted closer (l1 ++ n :: l2).
Proof.
  induction l1 as [|x l1 IH]; cbn [app]; intros Hs H1 H2.
  - constructor; [exact Hs|]. apply Forall_forall. intros y Hy. apply H2. exact Hy.
  - inversion Hs as [|? ? Hs' Hx]; subst. constructor.
    + apply IH; auto. intros y Hy. apply H1. right. exact Hy.
    + rewrite Forall_forall in *. intros y Hy. apply in_app_or in Hy.
      destruct Hy as [Hy|[<-|Hy]]; [apply Hx; apply in_or_app; left; exact Hy
                                   |apply H1; left; reflexivity|apply Hx; apply in_or_app; right; exact Hy].
Qed.

Lemma sorted_app_l l1 l2 : StronglySorted closer (l1 ++ l2) -> StronglySorted closer l1.
Proof.
  induction l1 as [|x l1 IH]; cbn [app]; intros Hs; [constructor|].
  inversion Hs as [|? ? Hs' Hx]; subst. constructor; [apply IH; exact Hs'|].
  rewrite Forall_forall in *. intros y Hy. apply Hx. apply in_or_app. left. exact Hy.
Qed.

Lemma sorted_last_max l z : StronglySorted closer (l ++ [z]) -> forall y, In y l -> dist y < dist z.
Proof.
  induction l as [|x l IH]; cbn [app]; intros Hs y Hy; [destruct Hy|].
  inversion Hs as [|? ? Hs' Hx]; subst. destruct Hy as [<-|Hy]; [|apply IH; auto].
  rewrite Forall_forall in Hx. apply Hx. apply in_or_app. right. left. reflexivity.
Qed.

(* what has been pushed so far (S) and what is kept (R) *)
Record Top (m : nat) (S R : list rec) : Prop := {
  top_sorted : StronglySorted closer R;
  top_incl : incl R S;
  top_len : (length R <= m)%nat;
  top_all : (length R < m)%nat -> incl S R;
  top_far : forall x y, In x S -> ~ In x R -> In y R -> dist y < dist x
}.

Lemma top_nil m : Top m [] [].
Proof.
  constructor.
  - constructor.
  - intros ? [].
  - cbn. lia.
  - intros _ ? [].
  - intros ? ? [].
Qed.

Lemma top_push m S R n :
  Top m S R -> (forall y, In y S -> dist y <> dist n) ->
  Top m (n :: S) (nbd_push target R n m).
Proof.
  intros [Hs Hi Hl Ha Hf] Hd. unfold nbd_push.
  destruct (search_split n R Hs) as (l1 & l2 & HR & Hix & H1 & H2).
  { intros y Hy. apply Hd. apply Hi. exact Hy. }
  rewrite <- Hix. subst R. rewrite app_length in *.
  destruct (Nat.ltb (length l1) (length l1 + length l2)) eqn:Eix.
  - apply Nat.ltb_lt in Eix.
    destruct (Nat.ltb (length l1 + length l2) m) eqn:Em.
    + (* room: insert *)
      apply Nat.ltb_lt in Em. rewrite insert_at_app. specialize (Ha Em). constructor.
      * apply sorted_mid; auto.
      * intros y Hy. apply in_app_or in Hy. destruct Hy as [Hy|[<-|Hy]]; [right; apply Hi; apply in_or_app; left; exact Hy
          |left; reflexivity|right; apply Hi; apply in_or_app; right; exact Hy].
      * rewrite app_length. cbn [length]. lia.
      * intros _ y [<-|Hy]; [apply in_or_app; right; left; reflexivity|].
        apply Ha in Hy. apply in_app_or in Hy. apply in_or_app. destruct Hy; [left|right; right]; assumption.
      * intros x y [<-|Hx] Hnx Hy; [exfalso; apply Hnx; apply in_or_app; right; left; reflexivity|].
        exfalso. apply Hnx. apply Ha in Hx. apply in_app_or in Hx. apply in_or_app.
        destruct Hx; [left|right; right]; assumption.
    + (* full: insert and drop the last *)
      apply Nat.ltb_ge in Em.
      destruct (last_opt_some l2) as [z Hz]; [intros ->; cbn in Eix; lia|].
      pose proof (last_opt_split _ _ Hz) as Hsplit. set (l2' := removelast l2) in *.
      rewrite removelast_app by (intros ->; cbn in Eix; lia). fold l2'. rewrite insert_at_app.
      assert (Hs2 : StronglySorted closer (l1 ++ l2')).
      { apply (sorted_app_l _ [z]). rewrite <- app_assoc, <- Hsplit. exact Hs. }
      assert (Hzmax : forall y, In y (l1 ++ l2') -> dist y < dist z).
      { apply sorted_last_max. rewrite <- app_assoc, <- Hsplit. exact Hs. }
      assert (Hnz : dist n < dist z) by (apply H2; rewrite Hsplit; apply in_or_app; right; left; reflexivity).
      assert (Hlen2 : length l2 = Datatypes.S (length l2')) by (rewrite Hsplit, app_length; cbn; lia).
      constructor.
      * apply sorted_mid; auto. intros y Hy. apply H2. rewrite Hsplit. apply in_or_app. left. exact Hy.
      * intros y Hy. apply in_app_or in Hy. destruct Hy as [Hy|[<-|Hy]]; [right; apply Hi; apply in_or_app; left; exact Hy
          |left; reflexivity|right; apply Hi; apply in_or_app; right; rewrite Hsplit; apply in_or_app; left; exact Hy].
      * rewrite app_length. cbn [length]. lia.
      * rewrite app_length. cbn [length]. lia.
      * intros x y Hx Hnx Hy.
        assert (Hyz : dist y < dist z \/ False).
        { left. apply in_app_or in Hy. destruct Hy as [Hy|[<-|Hy]]; [apply Hzmax; apply in_or_app; left; exact Hy|exact Hnz
            |apply Hzmax; apply in_or_app; right; exact Hy]. }
        destruct Hyz as [Hyz|[]].
        destruct Hx as [<-|Hx]; [exfalso; apply Hnx; apply in_or_app; right; left; reflexivity|].
        (* x was pushed before: it is z, or it had been left out already *)
        destruct (N.eq_dec (dist x) (dist z)) as [Exz|Exz]; [lia|].
        assert (Hxo : ~ In x (l1 ++ l2)).
        { intros Hin. apply in_app_or in Hin. destruct Hin as [Hin|Hin]; [apply Hnx; apply in_or_app; left; exact Hin|].
          rewrite Hsplit in Hin. apply in_app_or in Hin. destruct Hin as [Hin|[<-|[]]]; [|congruence].
          apply Hnx. apply in_or_app. right. right. exact Hin. }
        specialize (Hf x z Hx Hxo). assert (dist z < dist x); [|lia].
        apply Hf. apply in_or_app. right. rewrite Hsplit. apply in_or_app. right. left. reflexivity.
  - (* n is farther than everything kept *)
    apply Nat.ltb_ge in Eix. assert (length l2 = O) by lia. destruct l2; [|cbn in *; lia].
    rewrite app_nil_r in *. cbn [length] in *. rewrite Nat.add_0_r in *.
    destruct (Nat.ltb (length l1) m) eqn:Em.
    + apply Nat.ltb_lt in Em. specialize (Ha Em). constructor.
      * rewrite <- (app_nil_r (l1 ++ [n])), <- app_assoc. apply sorted_mid; cbn [app]; rewrite ?app_nil_r; auto.
      * intros y Hy. apply in_app_or in Hy. destruct Hy as [Hy|[<-|[]]]; [right; apply Hi; exact Hy|left; reflexivity].
      * rewrite app_length. cbn [length]. lia.
      * intros _ y [<-|Hy]; apply in_or_app; [right; left; reflexivity|left; apply Ha; exact Hy].
      * intros x y [<-|Hx] Hnx Hy; exfalso; apply Hnx; apply in_or_app; [right; left; reflexivity|left; apply Ha; exact Hx].
    + apply Nat.ltb_ge in Em. constructor; auto.
      * intros y Hy. right. apply Hi. exact Hy.
      * intros Hlt. lia.
      * intros x y [<-|Hx] Hnx Hy; [apply H1; exact Hy|apply Hf; auto].
Qed.

Lemma top_fold m cands : forall S R,
  Top m S R -> NoDup (map dist (rev S ++ cands)) ->
  exists S', Permutation S' (S ++ cands) /\
             Top m S' (fold_left (fun acc n => nbd_push target acc n m) cands R).
Proof.
  induction cands as [|n cands IH]; intros S R HT Hnd.
  - exists S. rewrite app_nil_r. split; [reflexivity|exact HT].
  - cbn [fold_left].
    assert (Hd : forall y, In y S -> dist y <> dist n).
    { intros y Hy E. rewrite map_app in Hnd. cbn [map] in Hnd. apply NoDup_remove_2 in Hnd.
      apply Hnd. apply in_or_app. left. rewrite <- E. apply in_map. apply in_rev in Hy. exact Hy. }
    destruct (IH (n :: S) _ (top_push _ _ _ _ HT Hd)) as (S' & HP & HT').
    { cbn [rev]. rewrite <- app_assoc. exact Hnd. }
    exists S'. split; [|exact HT']. rewrite HP. cbn [app]. apply Permutation_middle.
Qed.
End Closest.


Lemma nodup_app {A} (a b : list A) :
  NoDup a -> NoDup b -> (forall x, In x a -> ~ In x b) -> NoDup (a ++ b).
Proof.
  induction a as [|x a IH]; intros Ha Hb Hd; [exact Hb|]. cbn [app].
  inversion Ha as [|? ? Hx Ha']; subst. constructor.
  - intros Hin. apply in_app_or in Hin. destruct Hin as [Hin|Hin]; [auto|]. apply (Hd x); [left; reflexivity|exact Hin].
  - apply IH; auto. intros y Hy. apply Hd. right. exact Hy.
Qed.

Lemma nodup_app_l {A} (a b : list A) : NoDup (a ++ b) -> NoDup a.
Proof.
  induction a as [|x a IH]; cbn [app]; intros H; [constructor|].
  inversion H as [|? ? Hx Ha]; subst. constructor; [|auto].
  intros Hin. apply Hx. apply in_or_app. left. exact Hin.
Qed.

Lemma all_ids_nodup s bs : forall off,
  (forall i b, nth_error bs i = Some b -> BInv s (off + i) b) ->
  NoDup (map n_id (flat_map entries bs)).
Proof.
  induction bs as [|b bs IH]; intros off H; [constructor|].
  cbn [flat_map]. rewrite map_app. apply nodup_app.
  - destruct (H O b eq_refl) as (HS & _). destruct (bs_bag _ _ _ HS) as [_ Hnd].
    unfold trecs in Hnd. rewrite map_app in Hnd. apply nodup_app_l in Hnd.
    rewrite map_map in Hnd. exact Hnd.
  - apply (IH (S off)). intros i b' Hi. rewrite Nat.add_succ_l, <- Nat.add_succ_r. apply H. exact Hi.
  - intros id Hin1 Hin2. apply in_map_iff in Hin1. destruct Hin1 as (n1 & <- & Hn1).
    apply in_map_iff in Hin2. destruct Hin2 as (n2 & Heq & Hn2).
    apply in_flat_map in Hn2. destruct Hn2 as (b2 & Hb2 & Hn2). apply In_nth_error in Hb2. destruct Hb2 as [j Hj].
    destruct (H O b eq_refl) as (HS1 & _). destruct (H (S j) b2 Hj) as (HS2 & _).
    assert (I1 : In (n_rec n1) (trecs b)) by (unfold trecs; apply in_or_app; left; apply in_map; exact Hn1).
    assert (I2 : In (n_rec n2) (trecs b2)) by (unfold trecs; apply in_or_app; left; apply in_map; exact Hn2).
    destruct (proj1 (bs_bag _ _ _ HS1) _ I1) as (E1 & _).
    destruct (proj1 (bs_bag _ _ _ HS2) _ I2) as (E2 & _).
    unfold n_id in Heq. rewrite Heq in E2. lia.
Qed.

Lemma lxor_inj t : Injective (N.lxor t).
Proof.
  intros a b H. rewrite <- (N.lxor_0_l a), <- (N.lxor_nilpotent t), N.lxor_assoc, H,
    <- N.lxor_assoc, N.lxor_nilpotent, N.lxor_0_l. reflexivity.
Qed.

Lemma nodup_map_filter {A B} (f : A -> B) p l : NoDup (map f l) -> NoDup (map f (filter p l)).
Proof.
  induction l as [|x l IH]; cbn [map filter]; intros H; [constructor|].
  inversion H as [|? ? Hx Hl]; subst. destruct (p x); [|auto]. cbn [map]. constructor; [|auto].
  intros Hin. apply Hx. apply in_map_iff in Hin. destruct Hin as (y & <- & Hy).
  apply in_map. apply filter_In in Hy. apply Hy.
Qed.

Lemma sorted_nodup target l : StronglySorted (closer target) l -> NoDup l.
Proof.
  induction 1 as [|x l Hs IH Hx]; constructor; [|exact IH].
  intros Hin. rewrite Forall_forall in Hx. specialize (Hx x Hin). unfold closer in Hx. lia.
Qed.

Record closest_spec (target : N) (nresults : nat) (cands R : list rec) : Prop := {
  cs_sorted : StronglySorted (closer target) R;
  cs_incl : incl R cands;
  cs_len : length R = Nat.min nresults (length cands);
  cs_far : forall x y, In x cands -> ~ In x R -> In y R -> dist target y < dist target x
}.

Lemma push_all_spec target m cands :
  NoDup (map r_id cands) ->
  closest_spec target m cands (fold_left (fun acc n => nbd_push target acc n m) cands []).
Proof.
  intros Hnd.
  assert (Hdd : NoDup (map (dist target) cands)).
  { replace (map (dist target) cands) with (map (N.lxor target) (map r_id cands))
      by (rewrite map_map; reflexivity).
    apply Injective_map_NoDup; [apply lxor_inj|exact Hnd]. }
  destruct (top_fold target m cands [] [] (top_nil target m) Hdd) as (S' & HP & HT).
  cbn [app] in HP. set (R := fold_left _ cands []) in *. destruct HT as [Hs Hi Hl Ha Hf].
  assert (HndR : NoDup R) by (eapply sorted_nodup; exact Hs).
  assert (HndC : NoDup cands) by (eapply NoDup_map_inv; exact Hnd).
  assert (HndS : NoDup S') by (eapply Permutation_NoDup; [symmetry; exact HP|exact HndC]).
  pose proof (Permutation_length HP) as HlenS.
  constructor.
  - exact Hs.
  - intros y Hy. eapply Permutation_in; [exact HP|apply Hi; exact Hy].
  - pose proof (NoDup_incl_length HndR Hi) as H1.
    destruct (Nat.ltb (length R) m) eqn:E.
    + apply Nat.ltb_lt in E. pose proof (NoDup_incl_length HndS (Ha E)). lia.
    + apply Nat.ltb_ge in E. lia.
  - intros x y Hx. apply Hf. eapply Permutation_in; [symmetry; exact HP|exact Hx].
Qed.

(* the candidates findnodeByID selects from *)
Definition find_cands (t : table) (nresults : nat) (prefer_live : bool) : list tnode :=
  let live := filter n_live (all_entries t) in
  if prefer_live && negb (Nat.eqb nresults 0) && negb (Nat.eqb (length live) 0)
  then live else all_entries t.

Lemma fold_left_map {A B C} (g : A -> B) (f : C -> B -> C) l acc :
  fold_left (fun a x => f a (g x)) l acc = fold_left f (map g l) acc.
Proof. revert acc. induction l as [|x l IH]; intros acc; cbn [fold_left map]; auto. Qed.

Lemma findnode_spec t target n pl :
  TableInv t ->
  closest_spec target n (map n_rec (find_cands t n pl)) (findnode t target n pl).
Proof.
  intros HT.
  assert (Hall : NoDup (map r_id (map n_rec (all_entries t)))).
  { rewrite map_map. apply (all_ids_nodup (self t) (buckets t) O). intros i b Hi. apply (ti_bs _ HT). exact Hi. }
  assert (Hlive : NoDup (map r_id (map n_rec (filter n_live (all_entries t))))).
  { rewrite map_map in *. apply nodup_map_filter. exact Hall. }
  unfold findnode, find_cands.
  rewrite !(fold_left_map n_rec (fun acc r => nbd_push target acc r n)).
  pose proof (push_all_spec target n _ Hall) as Sall.
  pose proof (push_all_spec target n _ Hlive) as Slive.
  destruct pl; cbn [andb]; [|exact Sall].
  set (Rl := fold_left _ (map n_rec (filter n_live (all_entries t))) []) in *.
  pose proof (cs_len _ _ _ _ Slive) as Hlen. rewrite map_length in Hlen.
  destruct Rl as [|r0 Rl'] eqn:ER.
  - cbn [length] in Hlen.
    replace (negb (Nat.eqb n 0) && negb (Nat.eqb (length (filter n_live (all_entries t))) 0)) with false; [exact Sall|].
    destruct n; [reflexivity|]. destruct (length (filter n_live (all_entries t))); [reflexivity|cbn in Hlen; lia].
  - cbn [length] in Hlen.
    replace (negb (Nat.eqb n 0) && negb (Nat.eqb (length (filter n_live (all_entries t))) 0)) with true; [exact Slive|].
    destruct n; [cbn in Hlen; lia|]. destruct (length (filter n_live (all_entries t))); [cbn in Hlen; lia|reflexivity].
Qed.

(* ================= the invariant in readable form, for every history ================= *)

Definition tracked (b : bucket) : list tnode := entries b ++ repl b.
Definition all_tracked (t : table) : list tnode := flat_map tracked (buckets t).

(* number of tracked non-LAN nodes whose address falls into subnet k *)
Definition subnet_count (k : N) (l : list tnode) : N :=
  N.of_nat (length (filter (fun n => negb (addr_is_lan (n_ip n)) && (key_of (n_ip n) =? k)) l)).

Lemma subnet_count_app k l1 l2 : subnet_count k (l1 ++ l2) = subnet_count k l1 + subnet_count k l2.
Proof. unfold subnet_count. rewrite filter_app, app_length. lia. Qed.

Lemma cntr_subnet_count k l : cntr k (map n_rec l) = subnet_count k l.
Proof.
  induction l as [|n l IH]; [reflexivity|]. cbn [map cntr]. rewrite IH.
  change (n :: l) with ([n] ++ l). rewrite subnet_count_app. f_equal.
  unfold subnet_count, ipw, n_ip. cbn [filter]. destruct (_ && _); reflexivity.
Qed.

Lemma trecs_tracked b : trecs b = map n_rec (tracked b).
Proof. unfold trecs, tracked. rewrite map_app. reflexivity. Qed.

Lemma total_all_tracked k bs : total k bs = subnet_count k (flat_map tracked bs).
Proof.
  induction bs as [|b bs IH]; [reflexivity|]. cbn [total flat_map].
  rewrite subnet_count_app, IH, trecs_tracked, cntr_subnet_count. reflexivity.
Qed.

Definition bucket_bounds (t : table) : Prop :=
  length (buckets t) = 17%nat /\
  forall b, In b (buckets t) -> (length (entries b) <= 16)%nat /\ (length (repl b) <= 10)%nat.
Definition bucket_distance_right (t : table) : Prop :=
  forall i b n, nth_error (buckets t) i = Some b -> In n (tracked b) ->
    bucket_index (logdist (self t) (n_id n)) = i.
Definition no_self (t : table) : Prop := forall n, In n (all_tracked t) -> n_id n <> self t.
Definition distinct_ids (t : table) : Prop :=
  forall b, In b (buckets t) -> NoDup (map n_id (tracked b)).
Definition subnet_limits_hold (t : table) : Prop :=
  (forall b k, In b (buckets t) -> subnet_count k (tracked b) <= bucket_ip_limit) /\
  (forall k, subnet_count k (all_tracked t) <= table_ip_limit).
Definition counters_exact (t : table) : Prop :=
  (forall b k, In b (buckets t) -> ns_get k (bips b) = subnet_count k (tracked b)) /\
  (forall k, ns_get k (tips t) = subnet_count k (all_tracked t)).
Definition nonfull_no_replacements (t : table) : Prop :=
  forall b, In b (buckets t) -> (length (entries b) < 16)%nat -> repl b = [].
Definition usable_addresses (t : table) : Prop :=
  forall n, In n (all_tracked t) -> ip_valid (n_ip n) = true /\ is_unspecified (n_ip n) = false.
Definition reval_lists_consistent (t : table) : Prop :=
  forall b, In b (buckets t) ->
    (forall n, In n (entries b) -> n_rl n <> 0) /\ (forall n, In n (repl b) -> n_rl n = 0).

Lemma inv_bucket_bounds t : TableInv t -> bucket_bounds t.
Proof.
  intros HT. split; [apply (ti_len _ HT)|]. intros b Hb. apply In_nth_error in Hb. destruct Hb as [i Hi].
  destruct (ti_bs _ HT _ _ Hi) as (HS & _). split; [apply (bs_len_e _ _ _ HS)|apply (bs_len_r _ _ _ HS)].
Qed.

Lemma inv_rec_ok t i b n :
  TableInv t -> nth_error (buckets t) i = Some b -> In n (tracked b) -> rec_ok (self t) i (n_rec n).
Proof.
  intros HT Hi Hn. destruct (ti_bs _ HT _ _ Hi) as (HS & _).
  apply (proj1 (bs_bag _ _ _ HS)). rewrite trecs_tracked. apply in_map. exact Hn.
Qed.

Lemma inv_distance_right t : TableInv t -> bucket_distance_right t.
Proof. intros HT i b n Hi Hn. apply (inv_rec_ok t i b n HT Hi Hn). Qed.

Lemma in_all_tracked t n :
  In n (all_tracked t) -> exists i b, nth_error (buckets t) i = Some b /\ In n (tracked b).
Proof.
  intros H. apply in_flat_map in H. destruct H as (b & Hb & Hn). apply In_nth_error in Hb.
  destruct Hb as [i Hi]. eauto.
Qed.

Lemma inv_no_self t : TableInv t -> no_self t.
Proof.
  intros HT n Hn. destruct (in_all_tracked _ _ Hn) as (i & b & Hi & Hb).
  apply (inv_rec_ok t i b n HT Hi Hb).
Qed.

Lemma inv_usable t : TableInv t -> usable_addresses t.
Proof.
  intros HT n Hn. destruct (in_all_tracked _ _ Hn) as (i & b & Hi & Hb).
  destruct (inv_rec_ok t i b n HT Hi Hb) as (_ & _ & Ha). unfold addable, n_ip in *.
  destruct (ip_valid _), (is_unspecified _); cbn in Ha; try discriminate; auto.
Qed.

Lemma inv_distinct_ids t : TableInv t -> distinct_ids t.
Proof.
  intros HT b Hb. apply In_nth_error in Hb. destruct Hb as [i Hi].
  destruct (ti_bs _ HT _ _ Hi) as (HS & _). destruct (bs_bag _ _ _ HS) as [_ H].
  rewrite trecs_tracked, map_map in H. exact H.
Qed.

Lemma inv_counters_exact t : TableInv t -> counters_exact t.
Proof.
  intros HT. split.
  - intros b k Hb. apply In_nth_error in Hb. destruct Hb as [i Hi].
    destruct (ti_bs _ HT _ _ Hi) as (_ & _ & He). rewrite He, trecs_tracked. apply cntr_subnet_count.
  - intros k. rewrite (ti_exact _ HT). apply total_all_tracked.
Qed.

Lemma inv_subnet_limits t : TableInv t -> subnet_limits_hold t.
Proof.
  intros HT. destruct (inv_counters_exact t HT) as [H1 H2]. split.
  - intros b k Hb. rewrite <- (H1 b k Hb). apply In_nth_error in Hb. destruct Hb as [i Hi].
    destruct (ti_bs _ HT _ _ Hi) as (_ & Hok & _). apply ns_ok_get. exact Hok.
  - intros k. rewrite <- H2. apply ns_ok_get. apply (ti_ok _ HT).
Qed.

Lemma inv_nonfull t : TableInv t -> nonfull_no_replacements t.
Proof.
  intros HT b Hb. apply In_nth_error in Hb. destruct Hb as [i Hi].
  destruct (ti_bs _ HT _ _ Hi) as (HS & _). apply (bs_nonfull _ _ _ HS).
Qed.

Lemma inv_reval t : TableInv t -> reval_lists_consistent t.
Proof.
  intros HT b Hb. apply In_nth_error in Hb. destruct Hb as [i Hi].
  destruct (ti_bs _ HT _ _ Hi) as (HS & _). split; [apply (bs_rl_e _ _ _ HS)|apply (bs_rl_r _ _ _ HS)].
Qed.

(* every table reachable from newTable by a history of guarded operations *)
Definition reachable (t : table) : Prop :=
  exists s ops, s < 2 ^ 256 /\ Forall wf_op ops /\ run (new_table s) ops = Some t.

Lemma reachable_inv t : reachable t -> TableInv t.
Proof.
  intros (s & ops & Hs & Hw & Hr).
  destruct (run_inv ops (new_table s) (new_table_inv s Hs) Hw) as (t' & Hr' & HT & _).
  congruence.
Qed.

Lemma history_never_panics s ops :
  s < 2 ^ 256 -> Forall wf_op ops -> exists t, run (new_table s) ops = Some t.
Proof.
  intros Hs Hw. destruct (run_inv ops (new_table s) (new_table_inv s Hs) Hw) as (t' & Hr' & _). eauto.
Qed.

Lemma reachable_step t o : reachable t -> wf_op o -> exists t', step t o = Some t' /\ reachable t'.
Proof.
  intros Hr Hw. destruct (step_inv t o (reachable_inv t Hr) Hw) as (t' & Hst & _).
  exists t'. split; [exact Hst|]. destruct Hr as (s & ops & Hs & Hws & Hrun).
  exists s, (ops ++ [o]). split; [exact Hs|]. split; [apply Forall_app; auto|].
  clear -Hrun Hst. revert Hrun. generalize (new_table s). induction ops as [|x ops IH]; intros t0; cbn [run app].
  - intros E. injection E as ->. rewrite Hst. reflexivity.
  - destruct (step t0 x); [apply IH|discriminate].
Qed.

End WithKey.

(* an IPv4-mapped address has the subnet key of the IPv4 address it stands for *)
Lemma net_key_mapped a : a < 2 ^ 32 -> net_key (IP6 (65535 * 2 ^ 32 + a)) = net_key (IP4 a).
Proof.
  intros Ha. change (2 ^ 32) with 4294967296 in *. unfold net_key, unmap, is4in6.
  rewrite N.shiftr_div_pow2. change (2 ^ 32) with 4294967296.
  replace ((65535 * 4294967296 + a) / 4294967296) with 65535 by lia.
  cbn [N.eqb Pos.eqb]. replace ((65535 * 4294967296 + a) mod 4294967296) with a by lia.
  reflexivity.
Qed.
