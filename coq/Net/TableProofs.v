(* Net/TableProofs.v — invariants of the node-table model Net/Table.v. *)
From GV Require Import Lib.Tactics Net.Table.
From Coq Require Import Permutation.
Local Open Scope N_scope.

(* ================= DistinctNetSet ================= *)

Definition ns_ok (lim : N) (m : netset) : Prop :=
  forall k v, ns_lookup k m = Some v -> 1 <= v <= lim.

Lemma lookup_del k k' m :
  ns_lookup k' (ns_del k m) = if k' =? k then None else ns_lookup k' m.
Proof.
  induction m as [|[a v] m IH]; cbn [ns_del filter ns_lookup fst].
  - destruct (k' =? k); reflexivity.
  - destruct (a =? k) eqn:Eak; cbn [negb].
    + unfold ns_del in IH. rewrite IH. destruct (k' =? k) eqn:Ek; [reflexivity|].
      destruct (a =? k') eqn:Eak'; [|reflexivity]. exfalso. lia.
    + cbn [ns_lookup]. destruct (a =? k') eqn:Eak'.
      * destruct (k' =? k) eqn:Ek; [exfalso; lia|reflexivity].
      * unfold ns_del in IH. exact IH.
Qed.

Lemma lookup_set k v k' m :
  ns_lookup k' (ns_set k v m) = if k' =? k then Some v else ns_lookup k' m.
Proof.
  unfold ns_set. cbn [ns_lookup]. rewrite lookup_del.
  rewrite (N.eqb_sym k k'). destruct (k' =? k); reflexivity.
Qed.

Lemma get_set k v k' m : ns_get k' (ns_set k v m) = if k' =? k then v else ns_get k' m.
Proof. unfold ns_get. rewrite lookup_set. destruct (k' =? k); reflexivity. Qed.

Lemma get_del k k' m : ns_get k' (ns_del k m) = if k' =? k then 0 else ns_get k' m.
Proof. unfold ns_get. rewrite lookup_del. destruct (k' =? k); reflexivity. Qed.

Lemma ns_ok_get lim m k : ns_ok lim m -> ns_get k m <= lim.
Proof.
  intros H. unfold ns_get. destruct (ns_lookup k m) eqn:E; [|lia].
  apply H in E. lia.
Qed.

Lemma ns_ok_nil lim : ns_ok lim [].
Proof. intros k v H. discriminate. Qed.

Lemma ns_ok_set lim k v m : ns_ok lim m -> 1 <= v <= lim -> ns_ok lim (ns_set k v m).
Proof.
  intros H Hv k' v' E. rewrite lookup_set in E. destruct (k' =? k).
  - injection E as <-. exact Hv.
  - eapply H; eauto.
Qed.

Lemma ns_ok_del lim k m : ns_ok lim m -> ns_ok lim (ns_del k m).
Proof.
  intros H k' v' E. rewrite lookup_del in E. destruct (k' =? k); [discriminate|].
  eapply H; eauto.
Qed.

(* AddAddr: succeeds iff the counter is below the limit, then increments exactly it *)
Lemma ns_add_spec lim k m m' ok :
  ns_ok lim m -> ns_add lim k m = (m', ok) ->
  ns_ok lim m' /\
  (if ok then ns_get k m < lim /\ forall k', ns_get k' m' = ns_get k' m + (if k' =? k then 1 else 0)
   else lim <= ns_get k m /\ m' = m).
Proof.
  unfold ns_add. intros H E. destruct (ns_get k m <? lim) eqn:El; injection E as <- <-.
  - split.
    + apply ns_ok_set; [exact H|]. lia.
    + split; [lia|]. intros k'. rewrite get_set. destruct (k' =? k) eqn:Ek; [|lia].
      assert (k' = k) by lia. subst. lia.
  - split; [exact H|]. split; [lia|reflexivity].
Qed.

(* RemoveAddr: decrements the counter (nothing to do at zero) *)
Lemma ns_remove_spec lim k m :
  ns_ok lim m -> lim < 18446744073709551616 ->
  ns_ok lim (ns_remove k m) /\
  forall k', ns_get k' (ns_remove k m) = ns_get k' m - (if k' =? k then 1 else 0).
Proof.
  intros H Hl. unfold ns_remove. destruct (ns_lookup k m) as [n|] eqn:E.
  - pose proof (H _ _ E) as Hn. destruct (n =? 1) eqn:E1.
    + split; [apply ns_ok_del; exact H|]. intros k'. rewrite get_del.
      destruct (k' =? k) eqn:Ek; [|lia]. assert (k' = k) by lia. subst.
      unfold ns_get. rewrite E. lia.
    + assert (Hm : (n + 18446744073709551616 - 1) mod 18446744073709551616 = n - 1).
      { replace (n + 18446744073709551616 - 1) with ((n - 1) + 1 * 18446744073709551616) by lia.
        rewrite N.mod_add by lia. apply N.mod_small. lia. }
      rewrite Hm. split; [apply ns_ok_set; [exact H|lia]|].
      intros k'. rewrite get_set. destruct (k' =? k) eqn:Ek; [|lia].
      assert (k' = k) by lia. subst. unfold ns_get. rewrite E. reflexivity.
  - split; [exact H|]. intros k'. destruct (k' =? k) eqn:Ek; [|lia].
    assert (k' = k) by lia. subst. unfold ns_get. rewrite E. reflexivity.
Qed.

(* ================= counting tracked addresses ================= *)

(* weight of an address in the counter of subnet k: LAN addresses are never counted *)
Definition ipw (a : ip) (k : N) : N :=
  if negb (addr_is_lan a) && (net_key a =? k) then 1 else 0.

Fixpoint cntr (k : N) (l : list rec) : N :=
  match l with [] => 0 | r :: l' => ipw (r_ip r) k + cntr k l' end.

Lemma cntr_app k l1 l2 : cntr k (l1 ++ l2) = cntr k l1 + cntr k l2.
Proof. induction l1; cbn [cntr app]; lia. Qed.

Lemma cntr_perm k l1 l2 : Permutation l1 l2 -> cntr k l1 = cntr k l2.
Proof. induction 1; cbn [cntr]; lia. Qed.

Lemma ipw_le a k : ipw a k <= 1.
Proof. unfold ipw. destruct (_ && _); lia. Qed.

Lemma ipw_lan a k : addr_is_lan a = true -> ipw a k = 0.
Proof. unfold ipw. intros ->. reflexivity. Qed.

Lemma ipw_key a k : addr_is_lan a = false -> ipw a k = if k =? net_key a then 1 else 0.
Proof. unfold ipw. intros ->. cbn [negb andb]. rewrite N.eqb_sym. reflexivity. Qed.

(* ================= list helpers ================= *)

Lemma find_first_split {A} (p : A -> bool) l n :
  find_first p l = Some n ->
  exists l1 l2, l = l1 ++ n :: l2 /\ p n = true /\ forallb (fun x => negb (p x)) l1 = true /\
                remove_first p l = l1 ++ l2 /\
                forall f, map_first p f l = l1 ++ f n :: l2.
Proof.
  induction l as [|x l IH]; cbn [find_first]; [discriminate|].
  destruct (p x) eqn:Ep.
  - intros E. injection E as <-. exists [], l. cbn. rewrite Ep. repeat split; auto.
  - intros E. destruct (IH E) as (l1 & l2 & -> & Hp & Hn & Hr & Hm).
    exists (x :: l1), l2. cbn. rewrite Ep, Hn. cbn. repeat split; auto.
    + rewrite Hr. reflexivity.
    + intros f. rewrite Hm. reflexivity.
Qed.

Lemma find_first_none {A} (p : A -> bool) l :
  find_first p l = None -> forall x, In x l -> p x = false.
Proof.
  induction l as [|y l IH]; cbn [find_first]; intros E x Hx; [destruct Hx|].
  destruct (p y) eqn:Ep; [discriminate|]. destruct Hx as [<-|Hx]; auto.
Qed.

Lemma map_first_none {A} (p : A -> bool) f l :
  find_first p l = None -> map_first p f l = l.
Proof.
  induction l as [|y l IH]; cbn [find_first map_first]; [reflexivity|].
  destruct (p y); [discriminate|]. intros E. rewrite IH; auto.
Qed.

Lemma take_nth_split {A} i (l : list A) x r :
  take_nth i l = Some (x, r) -> exists l1 l2, l = l1 ++ x :: l2 /\ r = l1 ++ l2.
Proof.
  revert i x r. induction l as [|y l IH]; intros i x r; cbn [take_nth]; [discriminate|].
  destruct i as [|j].
  - intros E. injection E as <- <-. exists [], l. auto.
  - destruct (take_nth j l) as [[z r']|] eqn:E; [|discriminate].
    intros E'. injection E' as <- <-. destruct (IH _ _ _ E) as (l1 & l2 & -> & ->).
    exists (y :: l1), l2. auto.
Qed.

Lemma take_nth_some {A} i (l : list A) : (i < length l)%nat -> exists x r, take_nth i l = Some (x, r).
Proof.
  revert i. induction l as [|y l IH]; intros i Hi; cbn [length] in Hi; [lia|].
  destruct i as [|j]; cbn [take_nth]; [eauto|].
  destruct (IH j) as (x & r & ->); [lia|]. eauto.
Qed.

Lemma last_opt_split {A} (l : list A) x : last_opt l = Some x -> l = removelast l ++ [x].
Proof.
  induction l as [|y l IH]; [discriminate|]. destruct l as [|z l].
  - cbn. intros E. injection E as <-. reflexivity.
  - intros E. change (last_opt (y :: z :: l)) with (last_opt (z :: l)) in E.
    change (removelast (y :: z :: l)) with (y :: removelast (z :: l)).
    cbn [app]. f_equal. apply IH. exact E.
Qed.

Lemma last_opt_some {A} (l : list A) : l <> [] -> exists x, last_opt l = Some x.
Proof.
  induction l as [|y l IH]; [congruence|]. intros _. destruct l as [|z l]; [cbn; eauto|].
  change (last_opt (y :: z :: l)) with (last_opt (z :: l)). apply IH. discriminate.
Qed.

Lemma ip_eqb_eq x y : ip_eqb x y = true <-> x = y.
Proof.
  destruct x, y; cbn; split; intros H; try discriminate; try reflexivity;
    try (f_equal; lia); injection H as ->; lia.
Qed.

(* ================= addIP / removeIP ================= *)

Definition addable (a : ip) : bool := ip_valid a && negb (is_unspecified a).

(* counter state: the bucket set holds w, the table set holds rest + w *)
Definition CS (L : lst) (w rest : N -> N) : Prop :=
  ns_ok 2 (bips (lb L)) /\ ns_ok 10 (lt L) /\
  forall k, ns_get k (bips (lb L)) = w k /\ ns_get k (lt L) = rest k + w k.

Lemma CS_intro L w rest :
  ns_ok 2 (bips (lb L)) -> ns_ok 10 (lt L) ->
  (forall k, ns_get k (bips (lb L)) = w k /\ ns_get k (lt L) = rest k + w k) -> CS L w rest.
Proof. intros. split; [assumption|split; assumption]. Qed.

Lemma CS_ext L w w' rest : (forall k, w k = w' k) -> CS L w rest -> CS L w' rest.
Proof.
  intros He (Hb & Ht & Hg). apply CS_intro; [exact Hb|exact Ht|].
  intros k. rewrite <- He. apply Hg.
Qed.

Lemma add_ip_spec L a L' ok w rest :
  CS L w rest -> add_ip L a = (L', ok) ->
  entries (lb L') = entries (lb L) /\ repl (lb L') = repl (lb L) /\
  (if ok then addable a = true /\ CS L' (fun k => w k + ipw a k) rest else CS L' w rest).
Proof.
  intros HC E. pose proof HC as (Hb & Ht & Hg). unfold add_ip in E.
  destruct (negb (ip_valid a) || is_unspecified a) eqn:Ea.
  { injection E as <- <-. auto. }
  assert (Hadd : addable a = true).
  { unfold addable. destruct (ip_valid a), (is_unspecified a); cbn in *; congruence. }
  destruct (addr_is_lan a) eqn:Elan.
  { injection E as <- <-. split; [reflexivity|split; [reflexivity|split; [exact Hadd|]]].
    apply CS_intro; [exact Hb|exact Ht|]. intros k. rewrite ipw_lan by auto. destruct (Hg k). lia. }
  destruct (ns_add table_ip_limit (net_key a) (lt L)) as [t1 ok1] eqn:E1.
  destruct (ns_add_spec _ _ _ _ _ Ht E1) as [Ht1 Hs1].
  destruct ok1; cbn [negb] in E.
  2:{ injection E as <- <-. auto. }
  destruct Hs1 as [Hlt1 Hg1].
  destruct (ns_add bucket_ip_limit (net_key a) (bips (lb L))) as [b1 ok2] eqn:E2.
  destruct (ns_add_spec _ _ _ _ _ Hb E2) as [Hb1 Hs2].
  destruct ok2; cbn [negb] in E; injection E as <- <-; cbn [lb lt entries repl bips].
  - destruct Hs2 as [Hlt2 Hg2]. split; [reflexivity|split; [reflexivity|split; [exact Hadd|]]].
    apply CS_intro; [exact Hb1|exact Ht1|]. intros k. cbn [lb lt bips].
    rewrite Hg2, Hg1, ipw_key by auto. destruct (Hg k). lia.
  - destruct Hs2 as [_ ->].
    destruct (ns_remove_spec table_ip_limit (net_key a) t1 Ht1) as [Ht2 Hg2]; [reflexivity|].
    split; [reflexivity|split; [reflexivity|]].
    apply CS_intro; [exact Hb|exact Ht2|]. intros k. cbn [lb lt bips].
    rewrite Hg2, Hg1. destruct (Hg k). destruct (k =? net_key a); lia.
Qed.

Lemma add_ip_success L a w rest :
  CS L w rest -> addable a = true ->
  (addr_is_lan a = true \/ (w (net_key a) < 2 /\ rest (net_key a) + w (net_key a) < 10)) ->
  exists L', add_ip L a = (L', true).
Proof.
  intros (Hb & Ht & Hg) Ha Hc. unfold add_ip.
  assert (E : negb (ip_valid a) || is_unspecified a = false).
  { unfold addable in Ha. destruct (ip_valid a), (is_unspecified a); cbn in *; congruence. }
  rewrite E. destruct (addr_is_lan a) eqn:Elan; [eauto|].
  destruct Hc as [Hc|[Hc1 Hc2]]; [discriminate|].
  destruct (Hg (net_key a)) as [Hgb Hgt].
  unfold ns_add. replace (ns_get (net_key a) (lt L) <? table_ip_limit) with true
    by (unfold table_ip_limit; lia).
  cbn [negb]. replace (ns_get (net_key a) (bips (lb L)) <? bucket_ip_limit) with true
    by (unfold bucket_ip_limit; lia).
  cbn [negb]. eauto.
Qed.

Lemma remove_ip_spec L a w rest :
  CS L w rest -> (forall k, ipw a k <= w k) ->
  entries (lb (remove_ip L a)) = entries (lb L) /\ repl (lb (remove_ip L a)) = repl (lb L) /\
  CS (remove_ip L a) (fun k => w k - ipw a k) rest.
Proof.
  intros HC Hw. pose proof HC as (Hb & Ht & Hg). unfold remove_ip.
  destruct (addr_is_lan a) eqn:Elan.
  { split; [reflexivity|split; [reflexivity|]]. apply CS_intro; [exact Hb|exact Ht|].
    intros k. rewrite ipw_lan by auto. destruct (Hg k). lia. }
  cbn [lb lt entries repl bips].
  destruct (ns_remove_spec 2 (net_key a) _ Hb) as [Hb2 Hgb]; [reflexivity|].
  destruct (ns_remove_spec 10 (net_key a) _ Ht) as [Ht2 Hgt]; [reflexivity|].
  split; [reflexivity|split; [reflexivity|]]. apply CS_intro; [exact Hb2|exact Ht2|].
  intros k. cbn [lb lt bips]. rewrite Hgb, Hgt, ipw_key by auto. destruct (Hg k). specialize (Hw k).
  rewrite ipw_key in Hw by auto. destruct (k =? net_key a); lia.
Qed.

(* ================= the bag of tracked records of one bucket ================= *)

Definition bidx (self_id id : N) : nat := bucket_index (logdist self_id id).
Definition trecs (b : bucket) : list rec := map n_rec (entries b) ++ map n_rec (repl b).

Definition rec_ok (self_id : N) (i : nat) (r : rec) : Prop :=
  bidx self_id (r_id r) = i /\ r_id r <> self_id /\ addable (r_ip r) = true.

Definition Bag (self_id : N) (i : nat) (l : list rec) : Prop :=
  (forall r, In r l -> rec_ok self_id i r) /\ NoDup (map r_id l).

Lemma bag_perm s i l l' : Permutation l l' -> Bag s i l -> Bag s i l'.
Proof.
  intros Hp [H1 H2]. split.
  - intros r Hr. apply H1. eapply Permutation_in; [symmetry; exact Hp|exact Hr].
  - eapply Permutation_NoDup; [apply Permutation_map; exact Hp|exact H2].
Qed.

Lemma bag_delete s i o X :
  Bag s i (o :: X) -> Bag s i X /\ rec_ok s i o /\ ~ In (r_id o) (map r_id X).
Proof.
  intros [H1 H2]. cbn [map] in H2. inversion H2 as [|? ? Hn Hd]; subst.
  split; [split; [intros r Hr; apply H1; right; exact Hr|exact Hd]|].
  split; [apply H1; left; reflexivity|exact Hn].
Qed.

Lemma bag_insert s i nw X :
  Bag s i X -> rec_ok s i nw -> ~ In (r_id nw) (map r_id X) -> Bag s i (nw :: X).
Proof.
  intros [H1 H2] Hok Hn. split.
  - intros r [<-|Hr]; auto.
  - cbn [map]. constructor; assumption.
Qed.

Lemma cntr_in k r l : In r l -> ipw (r_ip r) k <= cntr k l.
Proof.
  induction l as [|x l IH]; [intros []|]. cbn [cntr]. intros [->|H]; [lia|].
  specialize (IH H). lia.
Qed.

Lemma perm_mid {A} (a b c : list A) x : Permutation ((a ++ x :: b) ++ c) (x :: (a ++ b) ++ c).
Proof.
  rewrite <- !app_assoc. cbn [app]. symmetry. apply Permutation_middle.
Qed.

Lemma perm_mid2 {A} (e a b : list A) x : Permutation (e ++ a ++ x :: b) (x :: e ++ a ++ b).
Proof.
  rewrite !app_assoc. symmetry. apply Permutation_middle.
Qed.

Lemma has_id_true id n : has_id id n = true <-> n_id n = id.
Proof. unfold has_id. apply N.eqb_eq. Qed.

Lemma not_in_ids id (l : list tnode) :
  (forall x, In x l -> has_id id x = false) -> ~ In id (map r_id (map n_rec l)).
Proof.
  intros H Hin. rewrite map_map in Hin. apply in_map_iff in Hin. destruct Hin as (x & Hx & Hi).
  specialize (H x Hi). unfold has_id, n_id in H. rewrite Hx in H. lia.
Qed.

Lemma contains_id_false l id :
  contains_id l id = false -> forall x, In x l -> has_id id x = false.
Proof.
  unfold contains_id. intros H x Hx. destruct (has_id id x) eqn:E; [|reflexivity].
  assert (existsb (has_id id) l = true) by (apply existsb_exists; eauto). congruence.
Qed.

(* structural invariant of one bucket *)
Record BS (self_id : N) (i : nat) (b : bucket) : Prop := {
  bs_len_e : (length (entries b) <= 16)%nat;
  bs_len_r : (length (repl b) <= 10)%nat;
  bs_bag : Bag self_id i (trecs b);
  bs_nonfull : (length (entries b) < 16)%nat -> repl b = [];
  bs_rl_e : forall n, In n (entries b) -> n_rl n <> 0;
  bs_rl_r : forall n, In n (repl b) -> n_rl n = 0
}.

Definition LInv (self_id : N) (i : nat) (rest : N -> N) (L : lst) : Prop :=
  BS self_id i (lb L) /\ CS L (fun k => cntr k (trecs (lb L))) rest.

Lemma LInv_bound s i rest L k :
  LInv s i rest L -> cntr k (trecs (lb L)) <= 2 /\ rest k + cntr k (trecs (lb L)) <= 10.
Proof.
  intros [_ (Hb & Ht & Hg)]. destruct (Hg k) as [<- <-].
  split; apply ns_ok_get; assumption.
Qed.

(* ================= bumpInBucket ================= *)

Lemma replace_entry s i b l1 n l2 n' r bips' :
  BS s i b -> entries b = l1 ++ n :: l2 -> r = repl b ->
  n_id n' = n_id n -> addable (n_ip n') = true -> n_rl n' <> 0 ->
  BS s i (mkB (l1 ++ n' :: l2) r bips') /\
  forall k, cntr k (trecs (mkB (l1 ++ n' :: l2) r bips')) + ipw (n_ip n) k
            = cntr k (trecs b) + ipw (n_ip n') k.
Proof.
  intros HS He -> Hid Hadd Hrl.
  set (X := (map n_rec l1 ++ map n_rec l2) ++ map n_rec (repl b)).
  assert (P1 : Permutation (trecs b) (n_rec n :: X)).
  { unfold trecs. rewrite He, map_app. cbn [map]. apply perm_mid. }
  assert (P2 : Permutation (trecs (mkB (l1 ++ n' :: l2) (repl b) bips')) (n_rec n' :: X)).
  { unfold trecs. cbn [entries repl]. rewrite map_app. cbn [map]. apply perm_mid. }
  destruct (bag_delete s i _ _ (bag_perm _ _ _ _ P1 (bs_bag _ _ _ HS))) as (HX & (Hi & Hs & _) & Hn).
  split.
  - constructor; cbn [entries repl].
    + pose proof (bs_len_e _ _ _ HS) as H. rewrite He in H. rewrite app_length in *. cbn [length] in *. lia.
    + apply (bs_len_r _ _ _ HS).
    + eapply bag_perm; [symmetry; exact P2|]. apply bag_insert; [exact HX| |].
      * unfold rec_ok. unfold n_id in Hid. rewrite Hid. auto.
      * unfold n_id in Hid. rewrite Hid. exact Hn.
    + intros H. apply (bs_nonfull _ _ _ HS). rewrite He. rewrite app_length in *. cbn [length] in *. lia.
    + intros x Hx. apply in_app_or in Hx. destruct Hx as [Hx|[<-|Hx]]; [|exact Hrl|];
        apply (bs_rl_e _ _ _ HS); rewrite He; apply in_or_app; [left|right; right]; exact Hx.
    + apply (bs_rl_r _ _ _ HS).
  - intros k. rewrite (cntr_perm k _ _ P1), (cntr_perm k _ _ P2). cbn [cntr]. unfold n_ip. lia.
Qed.

Lemma LInv_set_entries_CS L e w rest : CS L w rest -> CS (set_entries L e) w rest.
Proof. intros H. exact H. Qed.

Lemma bump_spec s i rest L nr inb L' found ch :
  LInv s i rest L -> bump_in_bucket L nr inb = (L', found, ch) ->
  LInv s i rest L' /\ length (entries (lb L')) = length (entries (lb L)) /\
  repl (lb L') = repl (lb L) /\
  (found = false -> L' = L /\ find_first (has_id (r_id nr)) (entries (lb L)) = None).
Proof.
  intros [HS HC] E. unfold bump_in_bucket in E.
  destruct (find_first (has_id (r_id nr)) (entries (lb L))) as [n|] eqn:Ef.
  2:{ injection E as <- <- <-. split; [split; assumption|]. auto. }
  destruct (find_first_split _ _ _ Ef) as (l1 & l2 & Hl & Hp & _ & _ & Hm).
  apply has_id_true in Hp.
  destruct ((r_seq nr <=? r_seq (n_rec n)) && negb inb).
  { injection E as <- <- <-. split; [split; assumption|]. split; [reflexivity|]. split; [reflexivity|discriminate]. }
  assert (Hin : In (n_rec n) (trecs (lb L))).
  { unfold trecs. apply in_or_app. left. apply in_map. rewrite Hl. apply in_or_app. right. left. reflexivity. }
  destruct (proj1 (bs_bag _ _ _ HS) _ Hin) as (_ & _ & Hadd_old).
  destruct (negb (ip_eqb (r_ip nr) (n_ip n))) eqn:Eip.
  - (* the address changed *)
    destruct (remove_ip_spec L (n_ip n) _ rest HC (fun k => cntr_in k _ _ Hin)) as (Hre & Hrr & HCa).
    destruct (add_ip (remove_ip L (n_ip n)) (r_ip nr)) as [Lb ok] eqn:Ea.
    destruct (add_ip_spec _ _ _ _ _ _ HCa Ea) as (Hbe & Hbr & Hok).
    destruct ok.
    + destruct Hok as [Hadd HCb]. cbn [negb orb] in E. injection E as <- <- <-.
      rewrite Hbe, Hre, Hm. cbn [set_entries lb entries repl].
      destruct (replace_entry s i (lb L) l1 n l2 (mkT nr (n_tok n) 1 (n_checks n) false)
                  (repl (lb Lb)) (bips (lb Lb)) HS Hl) as [HS' Hc];
        [congruence|unfold n_id; cbn [n_rec]; symmetry; exact Hp|exact Hadd|cbn; lia|].
      split; [split; [exact HS'|]|].
      * apply (LInv_set_entries_CS Lb). eapply CS_ext; [|exact HCb].
        intros k. cbn beta. unfold set_entries. cbn [lb]. specialize (Hc k). pose proof (cntr_in k _ _ Hin) as Hle.
        unfold n_ip in *. cbn [n_rec] in Hc. lia.
      * rewrite Hl, !app_length. cbn [length]. split; [reflexivity|].
        split; [congruence|discriminate].
    + (* the new address does not fit: the old one is put back *)
      cbn [negb] in E.
      destruct (add_ip_success Lb (n_ip n) _ rest Hok Hadd_old) as [Lc Ec].
      { destruct (addr_is_lan (n_ip n)) eqn:Elan; [left; reflexivity|right].
        destruct (LInv_bound s i rest L (net_key (n_ip n)) (conj HS HC)) as [B1 B2].
        pose proof (cntr_in (net_key (n_ip n)) _ _ Hin) as Hle. unfold n_ip in *.
        rewrite ipw_key in * by exact Elan. rewrite N.eqb_refl in *. lia. }
      rewrite Ec in E. cbn [fst] in E. injection E as <- <- <-.
      destruct (add_ip_spec _ _ _ _ _ _ Hok Ec) as (Hce & Hcr & _ & HCc).
      assert (He : entries (lb Lc) = entries (lb L)) by congruence.
      assert (Hr : repl (lb Lc) = repl (lb L)) by congruence.
      split; [split|].
      * destruct HS. constructor; rewrite ?He, ?Hr; auto.
        unfold trecs in *. rewrite He, Hr. assumption.
      * eapply CS_ext; [|exact HCc]. intros k. cbn beta.
        pose proof (cntr_in k _ _ Hin) as Hle. unfold n_ip in *.
        unfold trecs. rewrite He, Hr. fold (trecs (lb L)). lia.
      * rewrite He. split; [reflexivity|]. split; [exact Hr|discriminate].
  - (* same address *)
    assert (Hsame : r_ip nr = n_ip n).
    { apply ip_eqb_eq. destruct (ip_eqb (r_ip nr) (n_ip n)); [reflexivity|discriminate]. }
    cbn [negb orb] in E.
    destruct (negb (r_udp nr =? r_udp (n_rec n))); injection E as <- <- <-;
      rewrite Hm; cbn [set_entries lb entries repl].
    + destruct (replace_entry s i (lb L) l1 n l2 (mkT nr (n_tok n) 1 (n_checks n) false)
                  (repl (lb L)) (bips (lb L)) HS Hl) as [HS' Hc];
        [reflexivity|unfold n_id; cbn [n_rec]; symmetry; exact Hp
        |unfold n_ip; cbn [n_rec]; rewrite Hsame; exact Hadd_old|cbn; lia|].
      split; [split; [exact HS'|]|].
      * apply (LInv_set_entries_CS L). eapply CS_ext; [|exact HC].
        intros k. cbn beta. unfold set_entries. cbn [lb]. specialize (Hc k). unfold n_ip in *. cbn [n_rec] in Hc.
        rewrite Hsame in Hc. lia.
      * rewrite Hl, !app_length. cbn [length]. split; [reflexivity|]. split; [reflexivity|discriminate].
    + destruct (replace_entry s i (lb L) l1 n l2 (mkT nr (n_tok n) (n_rl n) (n_checks n) (n_live n))
                  (repl (lb L)) (bips (lb L)) HS Hl) as [HS' Hc];
        [reflexivity|unfold n_id; cbn [n_rec]; symmetry; exact Hp
        |unfold n_ip; cbn [n_rec]; rewrite Hsame; exact Hadd_old
        |cbn [n_rl]; apply (bs_rl_e _ _ _ HS); rewrite Hl; apply in_or_app; right; left; reflexivity|].
      split; [split; [exact HS'|]|].
      * apply (LInv_set_entries_CS L). eapply CS_ext; [|exact HC].
        intros k. cbn beta. unfold set_entries. cbn [lb]. specialize (Hc k). unfold n_ip in *. cbn [n_rec] in Hc.
        rewrite Hsame in Hc. lia.
      * rewrite Hl, !app_length. cbn [length]. split; [reflexivity|]. split; [reflexivity|discriminate].
Qed.

(* ================= touching fields that are not part of the record ================= *)

Lemma map_first_rec (p : tnode -> bool) (f : tnode -> tnode) l :
  (forall x, n_rec (f x) = n_rec x) -> map n_rec (map_first p f l) = map n_rec l.
Proof.
  intros H. induction l as [|x l IH]; [reflexivity|]. cbn [map_first].
  destruct (p x); cbn [map]; [rewrite H|rewrite IH]; reflexivity.
Qed.

Lemma map_first_in {A} (p : A -> bool) f l y :
  In y (map_first p f l) -> In y l \/ exists x, In x l /\ y = f x.
Proof.
  induction l as [|x l IH]; [intros []|]. cbn [map_first]. destruct (p x).
  - intros [<-|H]; [right; exists x; split; [left|]; reflexivity|left; right; exact H].
  - intros [<-|H]; [left; left; reflexivity|].
    destruct (IH H) as [H'|(z & Hz & ->)]; [left; right; exact H'|right; exists z; split; [right|]; auto].
Qed.

Lemma map_first_length {A} (p : A -> bool) f l : length (map_first p f l) = length l.
Proof.
  induction l as [|x l IH]; [reflexivity|]. cbn [map_first]. destruct (p x); cbn [length]; auto.
Qed.

Lemma BS_same s i b b' :
  entries b' = entries b -> repl b' = repl b -> BS s i b -> BS s i b'.
Proof.
  intros He Hr HS. destruct HS. constructor; unfold trecs in *; rewrite ?He, ?Hr; auto.
Qed.

Lemma LInv_touch s i rest L p f :
  LInv s i rest L -> (forall x, n_rec (f x) = n_rec x) -> (forall x, n_rl x <> 0 -> n_rl (f x) <> 0) ->
  LInv s i rest (set_entries L (map_first p f (entries (lb L)))).
Proof.
  intros [HS HC] Hrec Hrl.
  assert (HT : trecs (lb (set_entries L (map_first p f (entries (lb L))))) = trecs (lb L)).
  { unfold trecs, set_entries. cbn [lb entries repl]. rewrite map_first_rec by exact Hrec. reflexivity. }
  split.
  - destruct HS. constructor; rewrite ?HT; unfold set_entries; cbn [lb entries repl];
      rewrite ?map_first_length; auto.
    intros y Hy. destruct (map_first_in _ _ _ _ Hy) as [H|(x & Hx & ->)]; auto.
  - apply (LInv_set_entries_CS L). eapply CS_ext; [|exact HC]. intros k. rewrite HT. reflexivity.
Qed.

(* ================= addReplacement ================= *)

Lemma add_replacement_spec s i rest L r tok :
  LInv s i rest L -> bidx s (r_id r) = i -> r_id r <> s ->
  find_first (has_id (r_id r)) (entries (lb L)) = None ->
  (16 <= length (entries (lb L)))%nat ->
  LInv s i rest (add_replacement L r tok).
Proof.
  intros [HS HC] Hi Hs Hnf Hfull. unfold add_replacement.
  destruct (contains_id (repl (lb L)) (r_id r)) eqn:Ec; [split; assumption|].
  destruct (add_ip L (r_ip r)) as [L1 ok] eqn:Ea.
  destruct (add_ip_spec _ _ _ _ _ _ HC Ea) as (He & Hr & Hok).
  destruct ok; cbn [negb].
  2:{ split; [eapply BS_same; eauto|]. eapply CS_ext; [|exact Hok].
      intros k. unfold trecs. rewrite He, Hr. reflexivity. }
  destruct Hok as [Hadd HC1].
  set (wn := mkT r tok 0 0 false).
  assert (Hnotin : ~ In (r_id r) (map r_id (trecs (lb L)))).
  { unfold trecs. rewrite map_app. intros H. apply in_app_or in H. destruct H as [H|H]; revert H.
    - apply not_in_ids. apply find_first_none. exact Hnf.
    - apply not_in_ids. apply contains_id_false. exact Ec. }
  assert (Hok : rec_ok s i r) by (unfold rec_ok; auto).
  unfold push_node. rewrite Hr.
  destruct (Nat.ltb (length (repl (lb L))) max_replacements) eqn:Elen.
  - (* room in the replacement list *)
    unfold set_repl. cbn [lb].
    assert (P : Permutation (trecs (mkB (entries (lb L1)) (wn :: repl (lb L)) (bips (lb L1))))
                            (r :: trecs (lb L))).
    { unfold trecs. cbn [entries repl map]. rewrite He. symmetry. apply Permutation_middle. }
    split.
    + constructor; cbn [lb entries repl].
      * rewrite He. apply (bs_len_e _ _ _ HS).
      * cbn [length]. unfold max_replacements in Elen. apply Nat.ltb_lt in Elen. lia.
      * eapply bag_perm; [symmetry; exact P|]. apply bag_insert; [apply (bs_bag _ _ _ HS)|exact Hok|exact Hnotin].
      * rewrite He. intros H. lia.
      * rewrite He. apply (bs_rl_e _ _ _ HS).
      * intros x [<-|Hx]; [reflexivity|apply (bs_rl_r _ _ _ HS); exact Hx].
    + apply CS_intro; [apply HC1|apply HC1|]. intros k. cbn [lb lt bips].
      rewrite (cntr_perm k _ _ P). cbn [cntr]. destruct HC1 as (_ & _ & Hg). destruct (Hg k). lia.
  - (* the oldest replacement is evicted and its address released *)
    unfold max_replacements in Elen. apply Nat.ltb_ge in Elen.
    destruct (last_opt_some (repl (lb L))) as [x Hx]; [intros H; rewrite H in Elen; cbn in Elen; lia|].
    rewrite Hx. pose proof (last_opt_split _ _ Hx) as Hsplit.
    set (rl := removelast (repl (lb L))) in *.
    assert (Hlen : length (repl (lb L)) = S (length rl)).
    { rewrite Hsplit, app_length. cbn [length]. lia. }
    set (X := map n_rec (entries (lb L)) ++ map n_rec rl).
    assert (P1 : Permutation (trecs (lb L)) (n_rec x :: X)).
    { unfold trecs, X. rewrite Hsplit, map_app. cbn [map]. rewrite app_assoc.
      symmetry. apply Permutation_cons_append. }
    assert (P2 : Permutation (trecs (mkB (entries (lb L1)) (wn :: rl) (bips (lb L1)))) (r :: X)).
    { unfold trecs, X. cbn [entries repl map]. rewrite He. symmetry. apply Permutation_middle. }
    assert (Hxin : In (n_rec x) (trecs (lb L))).
    { eapply Permutation_in; [symmetry; exact P1|left; reflexivity]. }
    assert (HC2 : CS (set_repl L1 (wn :: rl)) (fun k => cntr k (trecs (lb L)) + ipw (r_ip r) k) rest) by exact HC1.
    destruct (remove_ip_spec _ (n_ip x) _ rest HC2) as (He3 & Hr3 & HC3).
    { intros k. pose proof (cntr_in k _ _ Hxin). unfold n_ip. lia. }
    cbn [set_repl lb entries repl] in He3, Hr3.
    assert (HT : trecs (lb (remove_ip (set_repl L1 (wn :: rl)) (n_ip x)))
                 = trecs (mkB (entries (lb L1)) (wn :: rl) (bips (lb L1)))).
    { unfold trecs. rewrite He3, Hr3. reflexivity. }
    destruct (bag_delete s i _ _ (bag_perm _ _ _ _ P1 (bs_bag _ _ _ HS))) as (HX & _ & _).
    split.
    + constructor; rewrite ?HT, ?He3, ?Hr3.
      * rewrite He. apply (bs_len_e _ _ _ HS).
      * cbn [length]. pose proof (bs_len_r _ _ _ HS). lia.
      * eapply bag_perm; [symmetry; exact P2|]. apply bag_insert; [exact HX|exact Hok|].
        intros H. apply Hnotin. eapply Permutation_in; [symmetry; apply Permutation_map; exact P1|].
        cbn [map]. right. exact H.
      * rewrite He. intros H. lia.
      * rewrite He. apply (bs_rl_e _ _ _ HS).
      * intros y [<-|Hy]; [reflexivity|]. apply (bs_rl_r _ _ _ HS). rewrite Hsplit.
        apply in_or_app. left. exact Hy.
    + eapply CS_ext; [|exact HC3]. intros k. cbn beta. rewrite HT.
      rewrite (cntr_perm k _ _ P2), (cntr_perm k _ _ P1). cbn [cntr]. unfold n_ip. lia.
Qed.

(* ================= handleAddNode ================= *)

Lemma handle_add_node_l_spec s i rest initd L r tok inb fl L' ok :
  LInv s i rest L -> bidx s (r_id r) = i ->
  handle_add_node_l s initd L r tok inb fl = (L', ok) -> LInv s i rest L'.
Proof.
  intros HI Hi E. unfold handle_add_node_l in E.
  destruct (r_id r =? s) eqn:Es; [injection E as <- <-; exact HI|].
  assert (Hs : r_id r <> s) by lia.
  destruct (inb && negb initd); [injection E as <- <-; exact HI|].
  destruct (bump_in_bucket L r inb) as [[L1 found] ch] eqn:Eb.
  destruct (bump_spec _ _ _ _ _ _ _ _ _ HI Eb) as (HI1 & _ & _ & Hnf).
  destruct found; [injection E as <- <-; exact HI1|].
  destruct (Hnf eq_refl) as [-> Hnone]. clear Hnf HI1.
  destruct (Nat.leb bucket_size (length (entries (lb L)))) eqn:Efull.
  { injection E as <- <-. apply add_replacement_spec; auto.
    unfold bucket_size in Efull. apply Nat.leb_le in Efull. exact Efull. }
  unfold bucket_size in Efull. apply Nat.leb_gt in Efull.
  destruct HI as [HS HC].
  pose proof (bs_nonfull _ _ _ HS Efull) as Hrepl.
  destruct (add_ip L (r_ip r)) as [L2 ok2] eqn:Ea.
  destruct (add_ip_spec _ _ _ _ _ _ HC Ea) as (He & Hr & Hok).
  destruct ok2; cbn [negb] in E; injection E as <- <-.
  2:{ split; [eapply BS_same; eauto|]. eapply CS_ext; [|exact Hok].
      intros k. unfold trecs. rewrite He, Hr. reflexivity. }
  destruct Hok as [Hadd HC2].
  set (wn := mkT r tok 1 (if fl then 1 else 0) fl).
  rewrite He, Hr, Hrepl. cbn [delete_node filter].
  assert (P : Permutation (trecs (mkB (entries (lb L) ++ [wn]) [] (bips (lb L2)))) (r :: trecs (lb L))).
  { unfold trecs. cbn [entries repl map]. rewrite Hrepl, map_app. cbn [map]. rewrite !app_nil_r.
    symmetry. apply Permutation_cons_append. }
  split.
  - constructor; cbn [lb entries repl].
    + rewrite app_length. cbn [length]. lia.
    + cbn [length]. lia.
    + eapply bag_perm; [symmetry; exact P|]. apply bag_insert; [apply (bs_bag _ _ _ HS)|unfold rec_ok; auto|].
      unfold trecs. rewrite Hrepl. cbn [map]. rewrite app_nil_r. apply not_in_ids.
      apply find_first_none. exact Hnone.
    + reflexivity.
    + intros x Hx. apply in_app_or in Hx. destruct Hx as [Hx|[<-|[]]]; [apply (bs_rl_e _ _ _ HS); exact Hx|cbn; lia].
    + intros x [].
  - apply CS_intro; [apply HC2|apply HC2|]. intros k. cbn [lb lt bips].
    rewrite (cntr_perm k _ _ P). cbn [cntr]. destruct HC2 as (_ & _ & Hg). destruct (Hg k). lia.
Qed.

(* ================= deleteInBucket ================= *)

Lemma delete_in_bucket_spec s i rest L id rnd :
  LInv s i rest L ->
  exists L' o, delete_in_bucket L id rnd = Some (L', o) /\ LInv s i rest L'.
Proof.
  intros [HS HC]. unfold delete_in_bucket.
  destruct (find_first (has_id id) (entries (lb L))) as [n|] eqn:Ef.
  2:{ eexists _, _. split; [reflexivity|split; assumption]. }
  destruct (find_first_split _ _ _ Ef) as (l1 & l2 & Hl & _ & _ & Hrm & _).
  rewrite Hrm.
  assert (Hnin : In n (entries (lb L))) by (rewrite Hl; apply in_or_app; right; left; reflexivity).
  assert (Hin : In (n_rec n) (trecs (lb L))).
  { unfold trecs. apply in_or_app. left. apply in_map. exact Hnin. }
  assert (HC0 : CS (set_entries L (l1 ++ l2)) (fun k => cntr k (trecs (lb L))) rest) by exact HC.
  destruct (remove_ip_spec _ (n_ip n) _ rest HC0 (fun k => cntr_in k _ _ Hin)) as (He & Hr & HC1).
  cbn [set_entries lb entries repl] in He, Hr.
  set (L1 := remove_ip (set_entries L (l1 ++ l2)) (n_ip n)) in *.
  pose proof (bs_rl_e _ _ _ HS n Hnin) as Hrl.
  replace (n_rl n =? 0) with false by lia.
  assert (P1 : Permutation (trecs (lb L)) (n_rec n :: map n_rec (l1 ++ l2) ++ map n_rec (repl (lb L)))).
  { unfold trecs. rewrite Hl, !map_app. cbn [map]. apply perm_mid. }
  destruct (bag_delete s i _ _ (bag_perm _ _ _ _ P1 (bs_bag _ _ _ HS))) as (HX & _ & _).
  assert (Hlen : length (entries (lb L)) = S (length (l1 ++ l2))).
  { rewrite Hl, !app_length. cbn [length]. lia. }
  rewrite Hr. destruct (repl (lb L)) as [|x xs] eqn:Erepl.
  - (* no replacement *)
    eexists _, _. split; [reflexivity|].
    assert (HT : trecs (lb L1) = map n_rec (l1 ++ l2) ++ map n_rec []).
    { unfold trecs. rewrite He, Hr. reflexivity. }
    split.
    + constructor; rewrite ?HT, ?He, ?Hr.
      * pose proof (bs_len_e _ _ _ HS). lia.
      * cbn [length]. lia.
      * exact HX.
      * reflexivity.
      * intros y Hy. apply (bs_rl_e _ _ _ HS). rewrite Hl. apply in_app_or in Hy.
        apply in_or_app. destruct Hy; [left|right; right]; assumption.
      * intros y [].
    + eapply CS_ext; [|exact HC1]. intros k. cbn beta. rewrite HT, (cntr_perm k _ _ P1).
      cbn [cntr]. unfold n_ip. lia.
  - (* a replacement is promoted *)
    set (R := x :: xs) in *.
    assert (Hne : length R <> O) by (cbn; lia).
    destruct (take_nth_some (N.to_nat (rnd mod N.of_nat (length R))) R) as (rp & rest' & Et).
    { pose proof (N.mod_lt rnd (N.of_nat (length R))). lia. }
    rewrite Et. eexists _, _. split; [reflexivity|].
    destruct (take_nth_split _ _ _ _ Et) as (a & b & Hab & ->).
    cbn [lb lt entries repl bips]. rewrite He.
    set (b' := mkB ((l1 ++ l2) ++ [set_rl 1 rp]) (a ++ b) (bips (lb L1))).
    assert (P2 : Permutation (map n_rec (l1 ++ l2) ++ map n_rec R) (trecs b')).
    { unfold trecs, b'. cbn [entries repl]. rewrite Hab, !map_app. cbn [map set_rl n_rec].
      rewrite <- !app_assoc. apply Permutation_app_head. apply Permutation_app_head. cbn [app].
      symmetry. apply Permutation_middle. }
    pose proof (bs_len_r _ _ _ HS) as HlenR. rewrite Erepl in HlenR.
    split.
    + constructor; unfold b'; cbn [lb entries repl].
      * rewrite app_length. cbn [length]. pose proof (bs_len_e _ _ _ HS). lia.
      * rewrite Hab, app_length in HlenR. cbn [length] in HlenR. rewrite app_length. lia.
      * eapply bag_perm; [exact P2|exact HX].
      * rewrite app_length. cbn [length]. intros H.
        assert (H16 : (length (entries (lb L)) < 16)%nat) by lia.
        apply (bs_nonfull _ _ _ HS) in H16. rewrite Erepl in H16. discriminate.
      * intros y Hy. apply in_app_or in Hy. destruct Hy as [Hy|[<-|[]]]; [|cbn; lia].
        apply (bs_rl_e _ _ _ HS). rewrite Hl. apply in_app_or in Hy.
        apply in_or_app. destruct Hy; [left|right; right]; assumption.
      * intros y Hy. apply (bs_rl_r _ _ _ HS). rewrite Erepl. fold R. rewrite Hab. apply in_app_or in Hy.
        apply in_or_app. destruct Hy; [left|right; right]; assumption.
    + apply CS_intro; [apply HC1|apply HC1|]. intros k. cbn [lb lt bips].
      fold b'. rewrite <- (cntr_perm k _ _ P2).
      destruct HC1 as (_ & _ & Hg). destruct (Hg k) as [G1 G2]. rewrite G1, G2.
      rewrite (cntr_perm k _ _ P1). cbn [cntr]. unfold n_ip. lia.
Qed.
