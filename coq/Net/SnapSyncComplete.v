(* Net/SnapSyncComplete.v — the inclusion target <= store of complete_implies_equal for
   storage and code (model Net/SnapSync.v).  Key invariant [ADB]: an account body is in the flat
   account state only if its code (when it has one) and ALL its target storage slots are in the
   store ("forwardAccountTask persists an account only after its code and storage are complete").
   It rests on the per-task invariant [Z]: the needCode / needState flags of the response being
   filled are aligned with its items and a cleared flag means the code / the whole storage is
   stored; every account in stateCompleted has its whole storage stored; for every large
   contract the target slots outside the live chunk ranges are stored. *)
From GV Require Import Lib.Tactics Net.SnapSync Net.SnapSyncProofs Net.SnapSyncRanges Net.SnapSyncChunks.
Local Open Scope N_scope.

(* ---------------------------------------------------------------- assoc list facts *)
Lemma put_in {V} k (v : V) l : forall x w, In (x, w) (put k v l) -> (x, w) = (k, v) \/ In (x, w) l.
Proof.
  induction l as [|[k0 v0] r IH]; intros x w H; cbn [put] in H.
  - destruct H as [H|[]]. left. symmetry. exact H.
  - destruct (k <? k0).
    + destruct H as [H|H]; [left; symmetry; exact H|right; exact H].
    + destruct (k =? k0).
      * destruct H as [H|H]; [left; symmetry; exact H|right; right; exact H].
      * destruct H as [H|H]; [right; left; exact H|]. destruct (IH _ _ H); [left|right; right]; assumption.
Qed.

Lemma get_in {V} k (v : V) l : get k l = Some v -> In (k, v) l.
Proof.
  induction l as [|[k0 v0] r IH]; cbn [get]; [discriminate|].
  destruct (k =? k0) eqn:E; intros H.
  - apply N.eqb_eq in E. inversion H. subst. left. reflexivity.
  - right. apply IH. exact H.
Qed.

Lemma del_in {V} k (l : list (N * V)) : forall x w, In (x, w) (del k l) -> In (x, w) l.
Proof.
  induction l as [|[k0 v0] r IH]; intros x w H; cbn [del] in H; [exact H|].
  destruct (k =? k0); [right; exact H|]. destruct H as [H|H]; [left; exact H|right; apply IH; exact H].
Qed.

Lemma sadd_in k l : forall x, In x (sadd k l) -> x = k \/ In x l.
Proof.
  induction l as [|k0 r IH]; intros x H; cbn [sadd] in H.
  - destruct H as [H|[]]. left. symmetry. exact H.
  - destruct (k <? k0).
    + destruct H as [H|H]; [left; symmetry; exact H|right; exact H].
    + destruct (k =? k0); [right; exact H|].
      destruct H as [H|H]; [right; left; exact H|]. destruct (IH _ H); [left|right; right]; assumption.
Qed.

Lemma smem_in k l : smem k l = true -> In k l.
Proof.
  unfold smem. intros H. apply existsb_exists in H. destruct H as (x & Hin & E).
  apply N.eqb_eq in E. subst. exact Hin.
Qed.

Section Complete.
Variable tg : list (N * acct).
Hypothesis tg_fun : forall k a a', In (k, a) tg -> In (k, a') tg -> a = a'.
(* the target storage of an account (by account hash) *)
Variable ST : N -> list (N * bytes).
Hypothesis ST_fun : forall h k v v', In (k, v) (ST h) -> In (k, v') (ST h) -> v = v'.
Hypothesis ST_empty : forall h a, In (h, a) tg -> a_root a = EMPTY_ROOT -> ST h = [].
Hypothesis ST_bound : forall h k v, In (k, v) (ST h) -> k <= MAXH.

Definition code_ok (a : acct) (db : store) : Prop :=
  a_code a = EMPTY_CODE \/ has (a_code a) (d_code db) = true.
Definition sto_ok (h : N) (db : store) : Prop :=
  forall k v, In (k, v) (ST h) -> slot_get h k db = Some v.

(* the markers of a chunk list *)
Definition cmarks (l : list stask) : list (N * N * bool) := map (fun st => (st_next st, st_last st, st_done st)) l.
Definition cp3 (m : N * N * bool) (k : N) : bool :=
  let '(n, la, d) := m in negb d && (n <=? k) && (k <=? la).
(* the target slots outside the live chunk ranges are stored *)
Definition chunk_cov (a : N) (l : list stask) (db : store) : Prop :=
  forall k v, In (k, v) (ST a) -> (forall m, In m (cmarks l) -> cp3 m k = false) -> slot_get a k db = Some v.

Definition ext_mono (db db' : store) : Prop :=
  (forall h, has h (d_code db) = true -> has h (d_code db') = true) /\
  (forall a k v, In (k, v) (ST a) -> slot_get a k db = Some v -> slot_get a k db' = Some v).

Lemma ext_refl db : ext_mono db db.
Proof. split; auto. Qed.
Lemma ext_trans a b c : ext_mono a b -> ext_mono b c -> ext_mono a c.
Proof. intros [A1 A2] [B1 B2]. split; auto. Qed.

Lemma code_ok_mono a db db' : ext_mono db db' -> code_ok a db -> code_ok a db'.
Proof. intros [M _] [H|H]; [left; exact H|right; apply M; exact H]. Qed.
Lemma sto_ok_mono h db db' : ext_mono db db' -> sto_ok h db -> sto_ok h db'.
Proof. intros [_ M] H k v Hin. apply (M _ _ _ Hin). apply H. exact Hin. Qed.
Lemma chunk_cov_mono a l db db' : ext_mono db db' -> chunk_cov a l db -> chunk_cov a l db'.
Proof. intros [_ M] H k v Hin HP. apply (M _ _ _ Hin). apply H; assumption. Qed.
Lemma chunk_cov_marks a l l' db : cmarks l' = cmarks l -> chunk_cov a l db -> chunk_cov a l' db.
Proof. intros E H k v Hin HP. apply H; [exact Hin|]. rewrite <- E. exact HP. Qed.

Definition acct_ok (h : N) (a : acct) (db : store) : Prop := code_ok a db /\ sto_ok h db.

(* an account body is in the flat state only when its code and storage are *)
Definition ADB (db : store) : Prop :=
  forall k a, In (k, a) tg -> get k (d_acc db) = Some (a_blob a) -> acct_ok k a db.

Definition codeflag (db : store) (it : N * acct) (b : bool) : Prop := b = false -> code_ok (snd it) db.
Definition stoflag (db : store) (it : N * acct) (b : bool) : Prop := b = false -> sto_ok (fst it) db.

Record Z (t : atask) (db : store) : Prop := {
  z_comp : forall h, In h (t_completed t) -> sto_ok h db;
  z_subs : forall a l, In (a, l) (t_subs t) -> chunk_cov a l db;
  z_res : forall res, t_res t = Some res ->
          Forall (fun it => In it tg) (r_items res) /\
          Forall2 (codeflag db) (r_items res) (t_needCode t) /\
          Forall2 (stoflag db) (r_items res) (t_needState t) }.

Lemma Forall2_mono_l {A B} (P Q : A -> B -> Prop) l1 l2 :
  (forall a b, P a b -> Q a b) -> Forall2 P l1 l2 -> Forall2 Q l1 l2.
Proof. intros H F. induction F; constructor; auto. Qed.

Lemma Z_mono t db db' : ext_mono db db' -> Z t db -> Z t db'.
Proof.
  intros M [A B C]. split.
  - intros h Hin. eapply sto_ok_mono; eauto.
  - intros a l Hin. eapply chunk_cov_mono; eauto.
  - intros res E. destruct (C res E) as (C1 & C2 & C3). split; [exact C1|]. split.
    + eapply Forall2_mono_l; [|exact C2]. intros it b H Hb. eapply code_ok_mono; eauto.
    + eapply Forall2_mono_l; [|exact C3]. intros it b H Hb. eapply sto_ok_mono; eauto.
Qed.

Lemma ADB_ext db db' : d_acc db' = d_acc db -> ext_mono db db' -> ADB db -> ADB db'.
Proof.
  intros E M H k a Hin G. rewrite E in G. destruct (H k a Hin G) as [H1 H2].
  split; [eapply code_ok_mono|eapply sto_ok_mono]; eauto.
Qed.

(* ---------------------------------------------------------------- forwardAccountTask *)
Lemma put_acc_ext k v db : ext_mono db (put_acc k v db).
Proof. split; auto. Qed.

Lemma put_items_ext l : forall db, ext_mono db (put_items l db).
Proof.
  induction l as [|[h a] r IH]; intros db; cbn [put_items fold_left]; [apply ext_refl|].
  change (fold_left _ r ?d) with (put_items r d). eapply ext_trans; [apply put_acc_ext|apply IH].
Qed.

Lemma put_items_ADB : forall items nc ns db,
  Forall (fun it => In it tg) items -> Forall2 (codeflag db) items nc -> Forall2 (stoflag db) items ns ->
  ADB db -> ADB (put_items (pre_of items nc ns) db).
Proof.
  induction items as [|[h a] r IH]; intros nc ns db HT HC HS HA; cbn [pre_of]; [exact HA|].
  destruct nc as [|c nc']; [exact HA|]. destruct ns as [|s ns']; [exact HA|].
  destruct (c || s) eqn:ECS; [exact HA|]. apply orb_false_iff in ECS. destruct ECS as [-> ->].
  inversion HT as [|? ? T1 T2]. inversion HC as [|? ? ? ? C1 C2]. inversion HS as [|? ? ? ? S1 S2]. subst.
  cbn [put_items fold_left]. change (fold_left _ ?l ?d) with (put_items l d).
  assert (M : ext_mono db (put_acc h (a_blob a) db)) by apply put_acc_ext.
  apply IH; [exact T2| | |].
  - eapply Forall2_mono_l; [|exact C2]. intros it b H Hb. eapply code_ok_mono; eauto.
  - eapply Forall2_mono_l; [|exact S2]. intros it b H Hb. eapply sto_ok_mono; eauto.
  - intros k a0 Hin G. cbn [put_acc d_acc] in G. rewrite get_put in G.
    destruct (k =? h) eqn:E.
    + apply N.eqb_eq in E. subst k. rewrite (tg_fun _ _ _ Hin T1).
      split; [eapply code_ok_mono; [exact M|apply C1; reflexivity]|eapply sto_ok_mono; [exact M|apply S1; reflexivity]].
    + destruct (HA k a0 Hin G) as [H1 H2]. split; [eapply code_ok_mono|eapply sto_ok_mono]; eauto.
Qed.

Lemma advance_completed items : forall nc ns next cp next' cp' al,
  advance items nc ns next cp = (next', cp', al) -> forall h, In h cp' -> In h cp.
Proof.
  induction items as [|[h a] r IH]; intros nc ns next cp next' cp' al H x Hx; cbn [advance] in H.
  - inversion H. subst. exact Hx.
  - destruct nc as [|c nc']; [inversion H; subst; exact Hx|].
    destruct ns as [|s ns']; [inversion H; subst; exact Hx|].
    destruct (c || s); [inversion H; subst; exact Hx|].
    pose proof (IH _ _ _ _ _ _ _ H x Hx) as H1. unfold srem in H1. apply filter_In in H1. tauto.
Qed.

(* the shape of every per-task operation lemma *)
Definition op_ok (t : atask) (db : store) (t' : atask) (db' : store) : Prop :=
  Z t db -> ADB db -> Z t' db' /\ ADB db' /\ ext_mono db db'.

Lemma forward_op t db t' db' p : forward t db = (t', db', p) -> op_ok t db t' db'.
Proof.
  intros H HZ HA. unfold forward in H. destruct (t_res t) as [res|] eqn:ER.
  2:{ inversion H. subst. split; [exact HZ|]. split; [exact HA|apply ext_refl]. }
  destruct (z_res _ _ HZ res ER) as (R1 & R2 & R3).
  destruct (write_prefix _ _ _ _) as [d1 p1] eqn:WP.
  pose proof (write_prefix_db _ _ _ _ _ _ WP) as ED. subst d1.
  set (d1 := put_items _ db) in *.
  assert (M : ext_mono db d1) by apply put_items_ext.
  assert (A1 : ADB d1) by (apply put_items_ADB; assumption).
  assert (ZZ : forall n cp dn, (forall h, In h cp -> In h (t_completed t)) -> Z (set_core t n None cp dn) d1).
  { intros n cp dn HC. split; cbn [set_core t_completed t_subs t_res].
    - intros h Hin. eapply sto_ok_mono; [exact M|]. apply (z_comp _ _ HZ). apply HC. exact Hin.
    - intros a l Hin. eapply chunk_cov_mono; [exact M|]. apply (z_subs _ _ HZ). exact Hin.
    - discriminate. }
  destruct p1.
  - inversion H. subst. split; [apply ZZ; auto|]. split; assumption.
  - destruct (advance _ _ _ _ _) as [[n cp] al] eqn:AD.
    pose proof (advance_completed _ _ _ _ _ _ _ _ AD) as HC.
    destruct al; inversion H; subst; (split; [apply ZZ; exact HC|]; split; assumption).
Qed.

(* an operation that only changes fields Z does not look at *)
Lemma Z_aux t db subs cp rq pend nc ns ct stt :
  Z t db ->
  (forall h, In h cp -> In h (t_completed t)) ->
  (forall a l, In (a, l) subs -> exists l0, In (a, l0) (t_subs t) /\ cmarks l = cmarks l0) ->
  nc = t_needCode t -> ns = t_needState t ->
  Z (set_aux t subs cp rq pend nc ns ct stt) db.
Proof.
  intros [A B C] HC HS -> ->. split; cbn [set_aux t_completed t_subs t_res t_needCode t_needState].
  - intros h Hin. apply A. apply HC. exact Hin.
  - intros a l Hin. destruct (HS a l Hin) as (l0 & I0 & E). eapply chunk_cov_marks; [exact E|]. apply B. exact I0.
  - exact C.
Qed.

Lemma subs_same (subs : list (N * list stask)) : forall a l, In (a, l) subs -> exists l0 : list stask, In (a, l0) subs /\ cmarks l = cmarks l0.
Proof. intros a l H. exists l. auto. Qed.

(* upd_sub with a marker-preserving function *)
Lemma upd_sub_marks sa sl f subs :
  (forall st, (st_next (f st), st_last (f st), st_done (f st)) = (st_next st, st_last st, st_done st)) ->
  forall a l, In (a, l) (upd_sub sa sl f subs) -> exists l0, In (a, l0) subs /\ cmarks l = cmarks l0.
Proof.
  intros Hf a l H. unfold upd_sub in H. destruct (get sa subs) as [l1|] eqn:EG; [|exists l; auto].
  apply put_in in H. destruct H as [E|H]; [|exists l; auto].
  inversion E. subst. exists l1. split; [apply get_in; exact EG|].
  unfold cmarks. rewrite map_map. apply map_ext. intros st. destruct (st_last st =? sl); [apply Hf|reflexivity].
Qed.

Lemma revert_op q t db t' db' p : revert q t db = (t', db', p) -> op_ok t db t' db'.
Proof.
  intros H HZ HA. unfold revert in H.
  destruct (q_kind q); [| |destruct (q_sub q) as [[sa sl]|]]; inversion H; subst;
    (split; [|split; [exact HA|apply ext_refl]]); apply Z_aux; auto using subs_same.
  apply upd_sub_marks. intros st. reflexivity.
Qed.

(* ---------------------------------------------------------------- processAccountResponse *)
Definition subs_rel (s' s0 : list (N * list stask)) : Prop :=
  forall x l', In (x, l') s' -> exists l, In (x, l) s0 /\ cmarks l' = cmarks l.

Lemma subs_rel_refl s0 : subs_rel s0 s0.
Proof. intros x l H. exists l. auto. Qed.
Lemma subs_rel_trans a b c0 : subs_rel a b -> subs_rel b c0 -> subs_rel a c0.
Proof.
  intros A B x l H. destruct (A x l H) as (l1 & I1 & E1). destruct (B x l1 I1) as (l2 & I2 & E2).
  exists l2. split; [exact I2|congruence].
Qed.

Lemma needcode_flag db h a :
  codeflag db (h, a) (negb (a_code a =? EMPTY_CODE) && negb (has (a_code a) (d_code db))).
Proof.
  unfold codeflag, code_ok. cbn [snd]. destruct (a_code a =? EMPTY_CODE) eqn:E1.
  - intros _. left. apply N.eqb_eq. exact E1.
  - destruct (has (a_code a) (d_code db)) eqn:E2; cbn; [intros _; right; reflexivity|discriminate].
Qed.

Lemma set_roots_marks r l : cmarks (set_roots r l) = cmarks l.
Proof. unfold cmarks, set_roots. rewrite map_map. reflexivity. Qed.

Lemma classify_spec db cp : forall items c,
  (forall h, In h cp -> sto_ok h db) ->
  Forall (fun it => In it tg) items ->
  exists nc2 ns2,
    cl_nc (classify db cp items c) = cl_nc c ++ nc2 /\
    cl_ns (classify db cp items c) = cl_ns c ++ ns2 /\
    Forall2 (codeflag db) items nc2 /\ Forall2 (stoflag db) items ns2 /\
    subs_rel (cl_subs (classify db cp items c)) (cl_subs c).
Proof.
  induction items as [|[h a] r IH]; intros c HC HT; cbn [classify].
  - exists [], []. rewrite !app_nil_r. repeat split; try constructor. apply subs_rel_refl.
  - inversion HT as [|? ? T1 T2]. subst.
    pose proof (needcode_flag db h a) as NF.
    set (nC := negb (a_code a =? EMPTY_CODE) && negb (has (a_code a) (d_code db))) in *.
    assert (FIN : forall c1 b,
      cl_nc c1 = cl_nc c ++ [nC] -> cl_ns c1 = cl_ns c ++ [b] -> stoflag db (h, a) b ->
      subs_rel (cl_subs c1) (cl_subs c) ->
      exists nc2 ns2,
        cl_nc (classify db cp r c1) = cl_nc c ++ nc2 /\ cl_ns (classify db cp r c1) = cl_ns c ++ ns2 /\
        Forall2 (codeflag db) ((h, a) :: r) nc2 /\ Forall2 (stoflag db) ((h, a) :: r) ns2 /\
        subs_rel (cl_subs (classify db cp r c1)) (cl_subs c)).
    { intros c1 b E1 E2 SF SR. destruct (IH c1 HC T2) as (nc2 & ns2 & F1 & F2 & F3 & F4 & F5).
      exists (nC :: nc2), (b :: ns2). rewrite F1, F2, E1, E2, <- !app_assoc. cbn [app].
      repeat split; try (constructor; assumption). eapply subs_rel_trans; eauto. }
    destruct (a_root a =? EMPTY_ROOT) eqn:ER.
    + apply (FIN _ false); cbn [cl_nc cl_ns cl_subs]; auto; [|apply subs_rel_refl].
      intros _. cbn [fst]. apply N.eqb_eq in ER. intros k v Hin. rewrite (ST_empty h a T1 ER) in Hin. destruct Hin.
    + destruct (smem h cp) eqn:EM.
      * apply (FIN _ false); cbn [cl_nc cl_ns cl_subs]; auto; [|apply subs_rel_refl].
        intros _. cbn [fst]. apply HC. apply smem_in. exact EM.
      * destruct (get h (cl_subs c)) as [subs|] eqn:EG.
        -- apply (FIN _ true); cbn [cl_nc cl_ns cl_subs]; auto; [discriminate|].
           intros x l' Hin. apply put_in in Hin. destruct Hin as [E|Hin]; [|exists l'; auto].
           inversion E. subst. exists subs. split; [apply get_in; exact EG|apply set_roots_marks].
        -- apply (FIN _ true); cbn [cl_nc cl_ns cl_subs]; auto; [discriminate|apply subs_rel_refl].
Qed.

Lemma process_account_op t items cont db t' db' p :
  (forall k a, In (k, a) items -> In (k, a) tg) ->
  process_account t items cont db = (t', db', p) -> op_ok t db t' db'.
Proof.
  intros HT H HZ HA. unfold process_account in H.
  destruct (cut_acc (t_last t) items cont) as [items' cont'] eqn:EC.
  pose proof (cut_acc_incl _ _ _ _ _ EC) as Hincl.
  assert (T' : Forall (fun it => In it tg) items').
  { apply Forall_forall. intros [k a] Hin. apply HT. apply Hincl. exact Hin. }
  set (c0 := {| cl_nc := []; cl_ns := []; cl_subs := t_subs t; cl_ct := []; cl_st := [];
                cl_resumed := []; cl_pend := 0%Z; cl_panic := false |}) in H.
  destruct (classify_spec db (t_completed t) items' c0 (z_comp _ _ HZ) T') as (nc2 & ns2 & E1 & E2 & F1 & F2 & F3).
  set (c := classify db (t_completed t) items' c0) in *.
  match type of H with context [set_core ?x ?n ?r ?cp ?dn] => set (t1 := set_core x n r cp dn) in H end.
  assert (Z1 : Z t1 db).
  { split; unfold t1; cbn [set_core set_aux t_completed t_subs t_res t_needCode t_needState].
    - apply (z_comp _ _ HZ).
    - intros a l Hin.
      assert (Hin' : In (a, l) (cl_subs c)).
      { destruct (last_key items'); [apply filter_In in Hin; tauto|exact Hin]. }
      destruct (F3 a l Hin') as (l0 & I0 & EM). cbn [c0 cl_subs] in I0.
      eapply chunk_cov_marks; [exact EM|]. apply (z_subs _ _ HZ). exact I0.
    - intros res E. inversion E. subst res. cbn [r_items]. rewrite E1, E2. cbn [c0 cl_nc cl_ns app]. auto. }
  destruct (cl_pend c =? 0)%Z.
  - destruct (forward t1 db) as [[t2 db2] p2] eqn:F. inversion H. subst.
    apply (forward_op _ _ _ _ _ F Z1 HA).
  - inversion H. subst. split; [exact Z1|]. split; [exact HA|apply ext_refl].
Qed.

(* ---------------------------------------------------------------- processBytecodeResponse *)
Lemma put_code_ext h c db : ext_mono db (put_code h c db).
Proof.
  split; [|auto]. intros h0 H. unfold has in *. cbn [put_code d_code]. rewrite get_put.
  destruct (h0 =? h); [reflexivity|exact H].
Qed.

Lemma clear_code_flags h db db1 :
  ext_mono db db1 -> has h (d_code db1) = true ->
  forall items nc, Forall2 (codeflag db) items nc ->
  forall pend nc' pend', clear_code h items nc pend = (nc', pend') -> Forall2 (codeflag db1) items nc'.
Proof.
  intros M HH items nc F. induction F as [|[k a] c r nc0 H1 F IH]; intros pend nc' pend' H; cbn [clear_code] in H.
  - inversion H. constructor.
  - cbv zeta in H. destruct (clear_code h r nc0 _) as [nc2 pend2] eqn:EC. inversion H. subst.
    constructor; [|eapply IH; exact EC].
    unfold codeflag in *. cbn [snd] in *. destruct (c && (h =? a_code a)) eqn:EH.
    + intros _. apply andb_true_iff in EH. destruct EH as [_ EH]. apply N.eqb_eq in EH. subst h. right. exact HH.
    + intros Q. eapply code_ok_mono; [exact M|]. apply H1. exact Q.
Qed.

Lemma process_codes_flags hashes : forall codes items nc pend ct db nc' pend' ct' db',
  Forall2 (codeflag db) items nc ->
  process_codes hashes codes items nc pend ct db = (nc', pend', ct', db') ->
  Forall2 (codeflag db') items nc' /\ ext_mono db db' /\ d_acc db' = d_acc db.
Proof.
  induction hashes as [|h hr IH]; intros codes items nc pend ct db nc' pend' ct' db' F H; cbn [process_codes] in H.
  - inversion H. subst. split; [exact F|]. split; [apply ext_refl|reflexivity].
  - destruct codes as [|oc cr]; [inversion H; subst; split; [exact F|split; [apply ext_refl|reflexivity]]|].
    destruct oc as [c|].
    + destruct (clear_code h items nc pend) as [nc1 pend1] eqn:EC.
      assert (M1 : ext_mono db (put_code h c db)) by apply put_code_ext.
      assert (HH : has h (d_code (put_code h c db)) = true).
      { unfold has. cbn [put_code d_code]. rewrite get_put, N.eqb_refl. reflexivity. }
      pose proof (clear_code_flags h db _ M1 HH items nc F _ _ _ EC) as F1.
      destruct (IH _ _ _ _ _ _ _ _ _ _ F1 H) as (G1 & G2 & G3).
      split; [exact G1|]. split; [eapply ext_trans; eauto|rewrite G3; reflexivity].
    + eapply IH; eauto.
Qed.

Lemma process_bytecode_op t hashes codes db t' db' p :
  process_bytecode t hashes codes db = (t', db', p) -> op_ok t db t' db'.
Proof.
  intros H HZ HA. unfold process_bytecode in H. destruct (t_res t) as [res|] eqn:ER.
  - destruct (z_res _ _ HZ res ER) as (R1 & R2 & R3).
    destruct (process_codes _ _ _ _ _ _ _) as [[[nc pend] ct] d1] eqn:PC.
    destruct (process_codes_flags _ _ _ _ _ _ _ _ _ _ _ R2 PC) as (G1 & G2 & G3).
    match type of H with context [set_aux ?a ?b ?c ?d ?e ?f ?g ?h ?i] => set (t1 := set_aux a b c d e f g h i) in H end.
    assert (Z1 : Z t1 d1).
    { pose proof (Z_mono _ _ _ G2 HZ) as [A B C]. split; unfold t1; cbn [set_aux t_completed t_subs t_res t_needCode t_needState]; auto.
      intros res0 E. rewrite ER in E. inversion E. subst res0. split; [exact R1|]. split; [exact G1|].
      eapply Forall2_mono_l; [|exact R3]. intros it b Hb Q. eapply sto_ok_mono; eauto. }
    assert (A1 : ADB d1) by (eapply ADB_ext; eauto).
    destruct (pend =? 0)%Z.
    + destruct (forward_op _ _ _ _ _ H Z1 A1) as (Z2 & A2 & M2). split; [exact Z2|]. split; [exact A2|eapply ext_trans; eauto].
    + inversion H. subst. auto.
  - destruct (existsb _ codes); inversion H; subst.
    + split; [exact HZ|]. split; [exact HA|apply ext_refl].
    + split; [apply Z_aux; auto using subs_same|]. split; [exact HA|apply ext_refl].
Qed.

(* ---------------------------------------------------------------- cleanStorageTasks *)
Lemma find_idx_nth k : forall items j0 j a, find_idx k items j0 = Some (j, a) ->
  exists j', j = (j0 + j')%nat /\ nth_error items j' = Some (k, a).
Proof.
  induction items as [|[h b] r IH]; intros j0 j a H; cbn [find_idx] in H; [discriminate|].
  destruct (h =? k) eqn:E.
  - apply N.eqb_eq in E. inversion H. subst. exists O. split; [lia|reflexivity].
  - destruct (IH _ _ _ H) as (j' & E1 & E2). exists (S j'). split; [lia|exact E2].
Qed.

Lemma Forall2_set_nth {A} (R : A -> bool -> Prop) : forall items ns j x,
  Forall2 R items ns -> nth_error items j = Some x -> R x false -> Forall2 R items (set_nth_false j ns).
Proof.
  intros items ns j x F. revert j. induction F as [|y b r ns0 H1 F IH]; intros j E HR.
  - destruct j; discriminate.
  - destruct j; cbn [nth_error set_nth_false] in *.
    + inversion E. subst. constructor; assumption.
    + constructor; [exact H1|apply IH; assumption].
Qed.

Lemma chunk_cov_filter a l db : chunk_cov a l db -> chunk_cov a (filter (fun st => negb (st_done st)) l) db.
Proof.
  intros H k v Hin HP. apply H; [exact Hin|]. intros m Hm. unfold cmarks in Hm. apply in_map_iff in Hm.
  destruct Hm as (st & <- & Hst).
  assert (ED : st_done st = true \/ st_done st = false) by (destruct (st_done st); auto).
  destruct ED as [ED|ED].
  - unfold cp3. rewrite ED. reflexivity.
  - apply HP. unfold cmarks. apply in_map_iff. exists st. split; [reflexivity|].
    apply filter_In. split; [exact Hst|rewrite ED; reflexivity].
Qed.

Lemma clean_subs_op subs : forall t db panic t' db' p,
  (forall a l, In (a, l) subs -> chunk_cov a l db) ->
  clean_subs subs t db panic = (t', db', p) -> op_ok t db t' db'.
Proof.
  induction subs as [|[account l] r IH]; intros t db panic t' db' p HS H HZ HA; cbn [clean_subs] in H.
  - inversion H. subst. split; [exact HZ|]. split; [exact HA|apply ext_refl].
  - assert (HSr : forall a l0, In (a, l0) r -> chunk_cov a l0 db) by (intros; apply HS; right; assumption).
    pose proof (chunk_cov_filter _ _ _ (HS account l (or_introl eq_refl))) as CF.
    destruct (filter _ l) as [|x l'] eqn:EF.
    + destruct (t_res t) as [res|] eqn:ER.
      2:{ eapply IH; eauto. }
      assert (SO : sto_ok account db).
      { intros k v Hin. apply CF; [exact Hin|]. intros m []. }
      destruct (z_res _ _ HZ res ER) as (R1 & R2 & R3).
      match type of H with context [set_aux ?a ?b ?c ?d ?e ?f ?g ?h ?i] => set (t1 := set_aux a b c d e f g h i) in H end.
      assert (Z1 : Z t1 db).
      { split; unfold t1; cbn [set_aux t_completed t_subs t_res t_needCode t_needState].
        - intros h Hin. apply sadd_in in Hin. destruct Hin as [->|Hin]; [exact SO|apply (z_comp _ _ HZ); exact Hin].
        - intros a l0 Hin. apply del_in in Hin. apply (z_subs _ _ HZ). exact Hin.
        - intros res0 E. rewrite ER in E. inversion E. subst res0. split; [exact R1|]. split; [exact R2|].
          destruct (find_idx account (r_items res) 0) as [[j acc]|] eqn:FI; [|exact R3].
          destruct (find_idx_nth _ _ _ _ _ FI) as (j' & -> & EN). cbn [Nat.add].
          eapply Forall2_set_nth; [exact R3|exact EN|]. intros _. exact SO. }
      destruct (t_pend t1 =? 0)%Z.
      * destruct (forward t1 db) as [[t2 db2] p2] eqn:F.
        destruct (forward_op _ _ _ _ _ F Z1 HA) as (Z2 & A2 & M2).
        assert (HS2 : forall a l0, In (a, l0) r -> chunk_cov a l0 db2).
        { intros a l0 Hin. eapply chunk_cov_mono; [exact M2|apply HSr; exact Hin]. }
        destruct (IH _ _ _ _ _ _ HS2 H Z2 A2) as (Z3 & A3 & M3).
        split; [exact Z3|]. split; [exact A3|eapply ext_trans; eauto].
      * eapply IH; eauto.
    + match type of H with context [set_aux ?a ?b ?c ?d ?e ?f ?g ?h ?i] => set (t1 := set_aux a b c d e f g h i) in H end.
      assert (Z1 : Z t1 db).
      { pose proof HZ as [A B C]. split; unfold t1; cbn [set_aux t_completed t_subs t_res t_needCode t_needState]; auto.
        intros a l0 Hin. apply put_in in Hin. destruct Hin as [E|Hin]; [|apply B; exact Hin].
        inversion E. subst. exact CF. }
      eapply IH; eauto.
Qed.

(* ---------------------------------------------------------------- processStorageResponse *)
Definition set_in (a : N) (slots : list (N * bytes)) : Prop := forall k v, In (k, v) slots -> In (k, v) (ST a).
Definition set_range (a o : N) (slots : list (N * bytes)) : Prop :=
  forall k v, In (k, v) (ST a) -> o <= k -> (exists k' v', In (k', v') slots /\ k <= k') -> In (k, v) slots.
Definition set_full (a o : N) (slots : list (N * bytes)) : Prop :=
  forall k v, In (k, v) (ST a) -> o <= k -> In (k, v) slots.

Lemma put_slot_ext a k v db : In (k, v) (ST a) -> ext_mono db (put_slot a k v db).
Proof.
  intros Hin. split; [auto|]. intros a0 k0 v0 H0 G. rewrite slot_get_put.
  destruct ((a0 =? a) && (k0 =? k)) eqn:E; [|exact G].
  apply andb_true_iff in E. destruct E as [E1 E2]. apply N.eqb_eq in E1. apply N.eqb_eq in E2. subst.
  rewrite (ST_fun _ _ _ _ Hin H0). reflexivity.
Qed.

Lemma write_slots_ext a l : forall db, set_in a l -> ext_mono db (write_slots a l db).
Proof.
  unfold write_slots. induction l as [|[k v] r IH]; intros db HI; cbn [fold_left]; [apply ext_refl|].
  eapply ext_trans; [apply put_slot_ext; apply HI; left; reflexivity|].
  apply IH. intros k0 v0 H. apply HI. right. exact H.
Qed.

Lemma write_slots_has a l : forall db, set_in a l ->
  forall k v, In (k, v) l -> slot_get a k (write_slots a l db) = Some v.
Proof.
  unfold write_slots. induction l as [|[k0 v0] r IH]; intros db HI k v Hin; [destruct Hin|]. cbn [fold_left].
  assert (HIr : set_in a r) by (intros k1 v1 H; apply HI; right; exact H).
  destruct Hin as [E|Hin]; [|apply IH; assumption].
  inversion E. subst. destruct (write_slots_ext a r (put_slot a k v db) HIr) as [_ M].
  apply (M a k v); [apply HI; left; reflexivity|]. rewrite slot_get_put, !N.eqb_refl. reflexivity.
Qed.

Lemma last_key_in {V} (l : list (N * V)) lk : last_key l = Some lk -> exists v, In (lk, v) l.
Proof.
  unfold last_key. destruct (rev l) as [|[k v] r] eqn:E; [discriminate|]. intros H. inversion H. subst.
  exists v. apply in_rev. rewrite E. left. reflexivity.
Qed.

Lemma get_none_in {V} k (l : list (N * V)) : get k l = None -> forall v, ~ In (k, v) l.
Proof.
  induction l as [|[k0 v0] r IH]; cbn [get]; intros H v Hin; [destruct Hin|].
  destruct (k =? k0) eqn:E; [discriminate|]. destruct Hin as [Q|Q].
  - inversion Q. subst. rewrite N.eqb_refl in E. discriminate.
  - eapply IH; eauto.
Qed.

(* the created chunks are all live and their ranges cover the slot space *)
Lemma exact_ge : forall l lo, exact_from lo l -> forall st, In st l -> lo <= st_next st /\ st_next st <= st_last st.
Proof.
  induction l as [|x r IH]; intros lo H st Hin; [destruct Hin|]. cbn [exact_from] in H.
  destruct H as (H1 & H2 & H3 & H4). destruct Hin as [<-|Hin]; [lia|].
  destruct (IH _ H4 st Hin). lia.
Qed.

Lemma exact_cover : forall l lo, exact_from lo l -> forall k, lo <= k -> k <= MAXH ->
  exists st, In st l /\ st_next st <= k /\ k <= st_last st.
Proof.
  pose proof MAXH_succ as MS.
  induction l as [|x r IH]; intros lo H k L1 L2; cbn [exact_from] in H; [lia|].
  destruct H as (H1 & H2 & H3 & H4). destruct (N.le_gt_cases k (st_last x)) as [L|L].
  - exists x. split; [left; reflexivity|lia].
  - destruct (IH _ H4 k) as (st & I1 & I2); [lia|exact L2|]. exists st. split; [right; exact I1|exact I2].
Qed.

Lemma hr_rest_notdone : forall fuel cur step root l, hr_rest fuel cur step root = Some l ->
  Forall (fun st => st_done st = false) l.
Proof.
  induction fuel as [|f IH]; intros cur step root l H; cbn [hr_rest] in H.
  - destruct (HSPACE <=? cur + step); [inversion H; constructor|discriminate].
  - destruct (HSPACE <=? cur + step); [inversion H; constructor|].
    destruct (hr_rest f (cur + step) step root) as [l'|] eqn:R; [|discriminate].
    inversion H. subst. constructor; [reflexivity|eapply IH; exact R].
Qed.

Lemma make_chunks_notdone c keys root l : make_chunks c keys root = Some l -> Forall (fun st => st_done st = false) l.
Proof.
  unfold make_chunks. cbv zeta. destruct (hr_rest _ _ _ _) as [rest|] eqn:R; [|discriminate].
  intros H. inversion H. subst. constructor; [reflexivity|eapply hr_rest_notdone; exact R].
Qed.

(* (D) *)
Definition SQ (db0 : store) (s : sps) : Prop := Z (sp_t s) (sp_db s) /\ ADB (sp_db s) /\ ext_mono db0 (sp_db s).

Definition DH (t2 : atask) (sub2 : option (N * N)) (account : N) (slots : list (N * bytes)) (cont : bool) : Prop :=
  match sub2 with
  | None => True
  | Some (sa, sl) =>
      sa = account /\
      forall l st, In (sa, l) (t_subs t2) -> In st l -> st_last st = sl ->
        set_range account (st_next st) slots /\ (cont = false -> set_full account (st_next st) slots)
  end.

Lemma storage_D_op db0 t2 sub2 account slots s p2 :
  Z t2 (sp_db s) -> ADB (sp_db s) -> ext_mono db0 (sp_db s) ->
  set_in account slots -> DH t2 sub2 account slots (sp_cont s) ->
  SQ db0 (storage_D t2 sub2 account slots s p2).
Proof.
  intros Z2 HA M0 HI HD. unfold storage_D. destruct sub2 as [[sa sl]|].
  2:{ pose proof (write_slots_ext account slots (sp_db s) HI) as M.
      split; cbn [sp_t sp_db]; [eapply Z_mono; eauto|]. split; [|eapply ext_trans; eauto].
      eapply ADB_ext; [apply write_slots_acc|exact M|exact HA]. }
  destruct HD as [-> HD]. cbv zeta.
  set (cont' := if existsb _ slots then false else sp_cont s).
  set (slots' := filter _ slots).
  assert (HI' : set_in account slots').
  { intros k v Hin. unfold slots' in Hin. apply filter_In in Hin. apply HI. tauto. }
  pose proof (write_slots_ext account slots' (sp_db s) HI') as M.
  destruct (if cont' then _ else _) as [f p3] eqn:EF.
  split; cbn [sp_t sp_db]; [|split; [eapply ADB_ext; [apply write_slots_acc|exact M|exact HA]|eapply ext_trans; eauto]].
  pose proof (Z_mono _ _ _ M Z2) as [A B C].
  split; cbn [set_aux t_completed t_subs t_res t_needCode t_needState]; auto.
  intros a l' Hin. unfold upd_sub in Hin. destruct (get account (t_subs t2)) as [l|] eqn:EG; [|apply B; exact Hin].
  apply put_in in Hin. destruct Hin as [E|Hin]; [|apply B; exact Hin].
  inversion E. subst a l'. clear E.
  pose proof (get_in _ _ _ EG) as INL.
  intros k v HK HP.
  destruct (existsb (fun st => cp3 (st_next st, st_last st, st_done st) k) l) eqn:EX.
  2:{ (* not pending before either *)
      apply (proj2 M account k v HK). apply (z_subs _ _ Z2 account l INL k v HK).
      intros m Hm. unfold cmarks in Hm. apply in_map_iff in Hm. destruct Hm as (st & <- & Hst).
      destruct (cp3 (st_next st, st_last st, st_done st) k) eqn:EC; [|reflexivity].
      assert (existsb (fun st0 => cp3 (st_next st0, st_last st0, st_done st0) k) l = true)
        by (apply existsb_exists; exists st; auto). congruence. }
  apply existsb_exists in EX. destruct EX as (st & Hst & EC).
  set (g := fun st0 : stask => if st_last st0 =? sl then f st0 else st0) in *.
  assert (EG2 : cp3 (st_next (g st), st_last (g st), st_done (g st)) k = false).
  { apply HP. unfold cmarks. rewrite map_map. apply in_map_iff. exists st. auto. }
  unfold g in EG2. destruct (st_last st =? sl) eqn:EL; [|congruence].
  apply N.eqb_eq in EL. destruct (HD l st INL Hst EL) as [HR HF].
  unfold cp3 in EC. apply andb_true_iff in EC. destruct EC as [EC E3]. apply andb_true_iff in EC. destruct EC as [E1 E2].
  apply N.leb_le in E2. apply N.leb_le in E3.
  assert (INS : In (k, v) slots).
  { destruct cont' eqn:ECT.
    - destruct (last_key slots') as [lk|] eqn:LKE.
      + inversion EF. subst f p3. cbn [st_next st_last st_done] in EG2. unfold cp3 in EG2.
        rewrite E1 in EG2. cbn [andb] in EG2.
        assert (E3' : (k <=? st_last st) = true) by (apply N.leb_le; exact E3). rewrite E3', andb_true_r in EG2.
        apply N.leb_gt in EG2. destruct (last_key_in _ _ LKE) as [v' Hlk].
        unfold slots' in Hlk. apply filter_In in Hlk. destruct Hlk as [Hlk _].
        apply HR; [exact HK|exact E2|]. exists lk, v'. split; [exact Hlk|].
        unfold inc_hash in EG2. destruct (lk =? MAXH); lia.
      + inversion EF. subst f p3. unfold cp3 in EG2. rewrite E1 in EG2. cbn [andb] in EG2.
        assert (X1 : (st_next st <=? k) = true) by (apply N.leb_le; exact E2).
        assert (X2 : (k <=? st_last st) = true) by (apply N.leb_le; exact E3).
        rewrite X1, X2 in EG2. discriminate.
    - unfold cont' in ECT. destruct (existsb _ slots) eqn:EXS.
      + apply existsb_exists in EXS. destruct EXS as ([k0 v0] & Hk0 & L0). apply N.leb_le in L0.
        apply HR; [exact HK|exact E2|]. exists k0, v0. split; [exact Hk0|lia].
      + apply HF; [exact ECT|exact HK|exact E2]. }
  apply write_slots_has; [exact HI'|]. unfold slots'. apply filter_In. split; [exact INS|]. apply N.leb_le. lia.
Qed.

(* per-call hypothesis of one loop iteration *)
Definition orig (s : sps) (o : N) : Prop :=
  match sp_sub s with
  | None => o = 0
  | Some (sa, sl) => exists l st, In (sa, l) (t_subs (sp_t s)) /\ In st l /\ st_last st = sl /\ st_next st = o
  end.
Definition PH (s : sps) (account : N) (slots : list (N * bytes)) (lastset : bool) : Prop :=
  set_in account slots /\
  (match sp_sub s with Some (sa, _) => sa = account | None => True end) /\
  forall o, orig s o -> set_range account o slots /\
                        ((negb lastset || negb (sp_cont s)) = true -> set_full account o slots).

Lemma storage_one_op c n i account root set db0 s :
  SQ db0 s -> (forall slots, set = Some slots -> PH s account slots (Nat.eqb (S i) n)) ->
  SQ db0 (storage_one c n i account root set s).
Proof.
  intros (HZ & HA & M0) HP. unfold storage_one. destruct set as [slots|].
  2:{ split; cbn [sp_t sp_db]; [apply Z_aux; auto using subs_same|]. split; assumption. }
  destruct (HP slots eq_refl) as (HI & HSA & HO). clear HP.
  destruct (t_res (sp_t s)) as [res|] eqn:ER; [|split; [exact HZ|split; assumption]].
  assert (WR : SQ db0 {| sp_t := sp_t s; sp_db := write_slots account slots (sp_db s); sp_sub := sp_sub s;
                         sp_cont := sp_cont s; sp_panic := sp_panic s |}).
  { pose proof (write_slots_ext account slots (sp_db s) HI) as M.
    split; cbn [sp_t sp_db]; [eapply Z_mono; eauto|]. split; [|eapply ext_trans; eauto].
    eapply ADB_ext; [apply write_slots_acc|exact M|exact HA]. }
  destruct (find_idx account (r_items res) 0) as [[j acc]|] eqn:FI; [|exact WR].
  destruct (nth_error (t_needState (sp_t s)) j) as [nsj|]; [|split; [exact HZ|split; assumption]].
  cbv zeta. set (lastset := Nat.eqb (S i) n) in *.
  unfold storage_A.
  destruct ((match sp_sub s with None => true | Some _ => false end) && nsj && (negb lastset || negb (sp_cont s))) eqn:EA.
  - (* (A): a small contract delivered completely *)
    apply andb_true_iff in EA. destruct EA as [EA EA3]. apply andb_true_iff in EA. destruct EA as [EA1 EA2].
    destruct (sp_sub s) as [sb|] eqn:ES; [discriminate|].
    assert (ELC : lastset && sp_cont s = false).
    { destruct lastset; destruct (sp_cont s); cbn in *; try reflexivity; discriminate. }
    unfold storage_C. rewrite ELC. unfold storage_D.
    destruct (HO 0) as [_ HF]; [unfold orig; rewrite ES; reflexivity|]. specialize (HF EA3).
    pose proof (write_slots_ext account slots (sp_db s) HI) as M.
    assert (SO : sto_ok account (write_slots account slots (sp_db s))).
    { intros k v Hin. apply write_slots_has; [exact HI|]. apply HF; [exact Hin|lia]. }
    split; cbn [sp_t sp_db]; [|split; [eapply ADB_ext; [apply write_slots_acc|exact M|exact HA]|eapply ext_trans; eauto]].
    pose proof (Z_mono _ _ _ M HZ) as [A B C].
    split; cbn [set_aux t_completed t_subs t_res t_needCode t_needState]; auto.
    + intros h Hin. apply sadd_in in Hin. destruct Hin as [->|Hin]; [exact SO|apply A; exact Hin].
    + intros res0 E. destruct (C res0 E) as (C1 & C2 & C3). split; [exact C1|]. split; [exact C2|].
      rewrite ER in E. inversion E. subst res0.
      destruct (find_idx_nth _ _ _ _ _ FI) as (j' & -> & EN). cbn [Nat.add].
      eapply Forall2_set_nth; [exact C3|exact EN|]. intros _. exact SO.
  - (* (A) does not fire *)
    destruct (storage_C c (sp_t s) (sp_sub s) lastset (sp_cont s) account slots acc) as [[t2 sub2] p2] eqn:EC.
    unfold storage_C in EC. destruct (sp_sub s) as [[sa sl]|] eqn:ES.
    + inversion EC. subst t2 sub2 p2. apply storage_D_op; auto.
      split; [exact HSA|]. intros l st I1 I2 EL.
      destruct (HO (st_next st)) as [HR HF]; [unfold orig; rewrite ES; exists l, st; auto|].
      split; [exact HR|]. intros CF. apply HF. rewrite CF. apply orb_true_r.
    + destruct (lastset && sp_cont s) eqn:ELC.
      2:{ inversion EC. subst. apply storage_D_op; cbn [DH]; auto. }
      destruct (get account (t_subs (sp_t s))) as [lold|] eqn:EG.
      { inversion EC. subst. apply storage_D_op; cbn [DH]; auto. }
      destruct (make_chunks c (map fst slots) (a_root acc)) as [tasks|] eqn:MC.
      2:{ inversion EC. subst. apply storage_D_op; cbn [DH]; auto. }
      inversion EC. subst t2 sub2 p2. clear EC.
      assert (KB : forall k, In k (map fst slots) -> k <= MAXH).
      { intros k Hk. apply in_map_iff in Hk. destruct Hk as ([k0 v0] & <- & Hk). eapply ST_bound. apply HI. exact Hk. }
      pose proof (make_chunks_partition _ _ _ _ KB MC) as EXF.
      pose proof (make_chunks_notdone _ _ _ _ MC) as ND.
      destruct (HO 0) as [HR0 _]; [unfold orig; rewrite ES; reflexivity|].
      apply storage_D_op; auto.
      * (* Z with the new chunk list: everything is still pending *)
        pose proof HZ as [A B C].
        split; cbn [set_aux t_completed t_subs t_res t_needCode t_needState]; auto.
        intros a l Hin. apply put_in in Hin. destruct Hin as [E|Hin]; [|apply B; exact Hin].
        inversion E. subst a l. intros k v HK HPn. exfalso.
        destruct (exact_cover _ _ EXF k) as (st & I1 & I2 & I3); [lia|eapply ST_bound; exact HK|].
        rewrite Forall_forall in ND. specialize (ND st I1).
        assert (X : cp3 (st_next st, st_last st, st_done st) k = true).
        { unfold cp3. rewrite ND. cbn [negb andb]. apply andb_true_iff. split; apply N.leb_le; assumption. }
        rewrite HPn in X; [discriminate|]. unfold cmarks. apply in_map_iff. exists st. auto.
      * destruct tasks as [|st1 rest]; [exact I|]. cbn [DH]. split; [reflexivity|].
        intros l st I1 I2 EL. apply put_in in I1. destruct I1 as [E|I1].
        2:{ exfalso. eapply get_none_in; eauto. }
        inversion E. subst l. cbn [exact_from] in EXF. destruct EXF as (N0 & _ & _ & EXR).
        destruct I2 as [<-|I2].
        -- rewrite N0. split; [exact HR0|]. intros CF. apply andb_true_iff in ELC. destruct ELC as [_ ELC]. congruence.
        -- exfalso. destruct (exact_ge _ _ EXR st I2). lia.
Qed.

(* ---- the loop over the accounts of the request *)
Lemma storage_one_none c n i account root set s :
  sp_sub s = None -> Nat.eqb (S i) n = false ->
  sp_sub (storage_one c n i account root set s) = None /\ sp_cont (storage_one c n i account root set s) = sp_cont s.
Proof.
  intros ES EL. unfold storage_one. destruct set as [slots|]; [|auto].
  destruct (t_res (sp_t s)) as [res|]; [|auto].
  destruct (find_idx account (r_items res) 0) as [[j acc]|]; [|auto].
  destruct (nth_error (t_needState (sp_t s)) j) as [nsj|]; [|auto].
  cbv zeta. unfold storage_C. rewrite ES, EL. cbn [andb]. unfold storage_D. auto.
Qed.

Definition evorig (t : atask) (sub : option (N * N)) (o : N) : Prop :=
  match sub with
  | None => o = 0
  | Some (sa, sl) => exists l st, In (sa, l) (t_subs t) /\ In st l /\ st_last st = sl /\ st_next st = o
  end.

(* the contract of an accepted storage response against the request it answers ([t] = the account
   task at delivery): every set carries only target slots of its account; from the origin (0, or the
   Next of the addressed chunk) no target slot up to the last delivered key is missing; every set but
   the last, and the last one when more = false, is complete from the origin; a chunk request names
   exactly one account *)
Definition sto_sound (t : atask) (accounts : list (N * N)) (sub : option (N * N))
    (sets : list (list (N * bytes))) (more : bool) : Prop :=
  (match sub with Some (sa, _) => exists r, accounts = [(sa, r)] | None => True end) /\
  forall i a r slots, nth_error accounts i = Some (a, r) -> nth_error sets i = Some slots ->
    set_in a slots /\
    forall o, evorig t sub o -> set_range a o slots /\
      ((negb (Nat.eqb (S i) (length sets)) || negb more) = true -> set_full a o slots).

Lemma storage_loop_op c n t sub0 more db0 : forall accounts sets i s,
  (sets <> [] -> n = (i + length sets)%nat) ->
  (forall j a r slots, nth_error accounts j = Some (a, r) -> nth_error sets j = Some slots ->
     set_in a slots /\ (forall sa sl, sub0 = Some (sa, sl) -> sa = a) /\
     forall o, evorig t sub0 o -> set_range a o slots /\
       ((negb (Nat.eqb (S (i + j)) n) || negb more) = true -> set_full a o slots)) ->
  (sets <> [] -> sp_cont s = more /\ sp_sub s = sub0 /\ (forall o, orig s o -> evorig t sub0 o) /\
                 (sub0 = None \/ length sets = 1%nat)) ->
  SQ db0 s -> SQ db0 (storage_loop c n i accounts sets s).
Proof.
  induction accounts as [|[a r] ar IH]; intros sets i s EN HP HJ HS; cbn [storage_loop]; [exact HS|].
  destruct sets as [|x sr].
  - apply IH.
    + intros Q. contradiction.
    + intros j a0 r0 slots _ H. destruct j; discriminate.
    + intros Q. contradiction.
    + apply storage_one_op; [exact HS|]. intros slots Q. discriminate.
  - destruct (HJ ltac:(discriminate)) as (J1 & J2 & J3 & J4).
    specialize (EN ltac:(discriminate)). cbn [length] in EN.
    destruct (HP O a r x eq_refl eq_refl) as (P1 & P2 & P3). rewrite Nat.add_0_r in P3.
    assert (S1 : SQ db0 (storage_one c n i a r (Some x) s)).
    { apply storage_one_op; [exact HS|]. intros slots Q. inversion Q. subst slots.
      split; [exact P1|]. split.
      - rewrite J2. destruct sub0 as [[sa sl]|]; [apply (P2 sa sl eq_refl)|exact I].
      - intros o HO. rewrite J1. apply P3. apply J3. exact HO. }
    apply IH.
    + intros NE. lia.
    + intros j a0 r0 slots H1 H2. destruct (HP (S j) a0 r0 slots H1 H2) as (Q1 & Q2 & Q3).
      split; [exact Q1|]. split; [exact Q2|]. replace (S i + j)%nat with (i + S j)%nat by lia. exact Q3.
    + intros NE. destruct sr as [|y sr']; [contradiction|].
      destruct J4 as [J4|J4]; [|cbn [length] in J4; lia]. rewrite J4 in *.
      assert (EL : Nat.eqb (S i) n = false) by (apply Nat.eqb_neq; cbn [length] in EN; lia).
      destruct (storage_one_none c n i a r (Some x) s J2 EL) as [N1 N2].
      split; [rewrite N2; exact J1|]. split; [exact N1|]. split; [|left; reflexivity].
      intros o HO. unfold orig in HO. rewrite N1 in HO. exact HO.
    + exact S1.
Qed.

Lemma upd_sub_entry sa sl f subs a l' :
  In (a, l') (upd_sub sa sl f subs) ->
  In (a, l') subs \/ (a = sa /\ exists l, In (sa, l) subs /\ l' = map (fun st => if st_last st =? sl then f st else st) l).
Proof.
  unfold upd_sub. destruct (get sa subs) as [l|] eqn:EG; [|auto].
  intros H. apply put_in in H. destruct H as [E|H]; [|auto].
  inversion E. subst. right. split; [reflexivity|]. exists l. split; [apply get_in; exact EG|reflexivity].
Qed.

Lemma process_storage_op c t accounts sub sets cont db t' db' p :
  sto_sound t accounts sub sets cont ->
  (sub <> None -> (length sets <= 1)%nat) ->
  process_storage c t accounts sub sets cont db = (t', db', p) -> op_ok t db t' db'.
Proof.
  intros [SW SS] LB H HZ HA. unfold process_storage in H.
  set (t0 := match sub with Some _ => _ | None => t end) in H.
  assert (Z0 : Z t0 db).
  { unfold t0. destruct sub as [[sa sl]|]; [|exact HZ]. apply Z_aux; auto.
    apply upd_sub_marks. intros st. reflexivity. }
  set (s0 := {| sp_t := t0; sp_db := db; sp_sub := sub; sp_cont := cont; sp_panic := false |}) in H.
  assert (SQ0 : SQ db s0) by (split; [exact Z0|split; [exact HA|apply ext_refl]]).
  assert (LP : SQ db (storage_loop c (length sets) 0 accounts sets s0)).
  { apply (storage_loop_op c (length sets) t sub cont db); auto.
    - intros j a r slots H1 H2. destruct (SS j a r slots H1 H2) as [Q1 Q2]. split; [exact Q1|]. split.
      + intros sa sl E. subst sub. destruct SW as [r0 SW]. subst accounts.
        destruct j; cbn [nth_error] in H1; [inversion H1; reflexivity|destruct j; discriminate].
      + intros o HO. cbn [Nat.add]. apply Q2. exact HO.
    - intros NE. split; [reflexivity|]. split; [reflexivity|]. split.
      + intros o HO. unfold orig in HO. cbn [s0 sp_sub sp_t] in HO. destruct sub as [[sa sl]|]; [|exact HO].
        destruct HO as (l' & st' & I1 & I2 & E1 & E2). unfold t0 in I1. cbn [set_aux t_subs] in I1.
        apply upd_sub_entry in I1. destruct I1 as [I1|(_ & l & I1 & ->)].
        * exists l', st'. auto.
        * apply in_map_iff in I2. destruct I2 as (st & E & I2). exists l, st. split; [exact I1|]. split; [exact I2|].
          destruct (st_last st =? sl); subst st'; cbn [st_last st_next] in *; auto.
      + destruct sub as [[sa sl]|]; [|left; reflexivity]. right. destruct SW as [r0 ->].
        destruct sets as [|x [|y sr]]; [contradiction|reflexivity|].
        exfalso. assert (LB' : (length (x :: y :: sr) <= 1)%nat) by (apply LB; discriminate).
        cbn [length] in LB'. lia. }
  destruct LP as (ZL & AL & ML).
  destruct (t_pend _ =? 0)%Z.
  - destruct (forward _ _) as [[t2 db2] p2] eqn:F. inversion H. subst.
    destruct (forward_op _ _ _ _ _ F ZL AL) as (Z2 & A2 & M2). split; [exact Z2|]. split; [exact A2|eapply ext_trans; eauto].
  - inversion H. subst. auto.
Qed.

(* ---------------------------------------------------------------- task lists *)
Definition zlist (ts : list atask) (db : store) : Prop := Forall (fun t => Z t db) ts.

Lemma zlist_mono ts db db' : ext_mono db db' -> zlist ts db -> zlist ts db'.
Proof. intros M H. unfold zlist in *. rewrite Forall_forall in *. intros t Ht. eapply Z_mono; eauto. Qed.

Definition list_ok (ts : list atask) (db : store) (ts' : list atask) (db' : store) : Prop :=
  zlist ts db -> ADB db -> zlist ts' db' /\ ADB db' /\ ext_mono db db'.

Lemma map_tasks_z f :
  (forall t db t' db' p, f t db = (t', db', p) -> op_ok t db t' db') ->
  forall ts db ts' db' p, map_tasks f ts db = (ts', db', p) -> list_ok ts db ts' db'.
Proof.
  intros Hf. induction ts as [|t r IH]; intros db ts' db' p H HZ HA; cbn [map_tasks] in H.
  - inversion H. subst. split; [constructor|]. split; [exact HA|apply ext_refl].
  - destruct (f t db) as [[t1 d1] p1] eqn:F. destruct (map_tasks f r d1) as [[r1 d2] p2] eqn:M.
    inversion H. subst. inversion HZ as [|? ? Zt Zr]. subst.
    destruct (Hf _ _ _ _ _ F Zt HA) as (Z1 & A1 & M1).
    destruct (IH _ _ _ _ M (zlist_mono _ _ _ M1 Zr) A1) as (Z2 & A2 & M2).
    split; [constructor; [eapply Z_mono; eauto|exact Z2]|]. split; [exact A2|eapply ext_trans; eauto].
Qed.

Lemma on_task_z last f : forall ts db ts' db' p,
  (forall t, In t ts -> t_last t = last -> forall d t' d' p0, f t d = (t', d', p0) -> op_ok t d t' d') ->
  on_task last f ts db = (ts', db', p) -> list_ok ts db ts' db'.
Proof.
  induction ts as [|t r IH]; intros db ts' db' p Hf H HZ HA; cbn [on_task] in H.
  - inversion H. subst. split; [constructor|]. split; [exact HA|apply ext_refl].
  - inversion HZ as [|? ? Zt Zr]. subst. destruct (t_last t =? last) eqn:EL.
    + apply N.eqb_eq in EL. destruct (f t db) as [[t1 d1] p1] eqn:F. inversion H. subst ts' db' p.
      destruct (Hf t (or_introl eq_refl) EL _ _ _ _ F Zt HA) as (Z1 & A1 & M1).
      split; [constructor; [exact Z1|eapply zlist_mono; eauto]|]. split; assumption.
    + destruct (on_task last f r db) as [[r1 d1] p1] eqn:M. inversion H. subst.
      destruct (IH _ _ _ _ (fun u Hu => Hf u (or_intror Hu)) M Zr HA) as (Z2 & A2 & M2).
      split; [constructor; [eapply Z_mono; eauto|exact Z2]|]. split; assumption.
Qed.

(* ---- assignment *)
Lemma assign_chunks_marks task account : forall l id l' q id',
  assign_chunks task account l id = (l', q, id') -> cmarks l' = cmarks l.
Proof.
  induction l as [|st r IH]; intros id l' q id' H; cbn [assign_chunks] in H.
  - inversion H. reflexivity.
  - destruct (st_req st).
    + destruct (assign_chunks task account r id) as [[r1 q1] i1] eqn:E. inversion H. subst.
      cbn [cmarks map]. f_equal. eapply IH; eauto.
    + destruct (assign_chunks task account r (id + 1)) as [[r1 q1] i1] eqn:E. inversion H. subst.
      cbn [cmarks map st_next st_last st_done]. f_equal. eapply IH; eauto.
Qed.

Lemma assign_subs_rel task active : forall subs id subs' q id',
  assign_subs task active subs id = (subs', q, id') -> subs_rel subs' subs.
Proof.
  induction subs as [|[a l] r IH]; intros id subs' q id' H; cbn [assign_subs] in H.
  - inversion H. apply subs_rel_refl.
  - destruct (active a).
    + destruct (assign_chunks task a l id) as [[l1 q1] id1] eqn:E1.
      destruct (assign_subs task active r id1) as [[r1 q2] id2] eqn:E2. inversion H. subst.
      intros x l' [E|Hin].
      * inversion E. subst. exists l. split; [left; reflexivity|eapply assign_chunks_marks; eauto].
      * destruct (IH _ _ _ _ E2 x l' Hin) as (l0 & I0 & EM). exists l0. split; [right; exact I0|exact EM].
    + destruct (assign_subs task active r id) as [[r1 q2] id2] eqn:E2. inversion H. subst.
      intros x l' [E|Hin].
      * inversion E. subst. exists l'. split; [left; reflexivity|reflexivity].
      * destruct (IH _ _ _ _ E2 x l' Hin) as (l0 & I0 & EM). exists l0. split; [right; exact I0|exact EM].
Qed.

Lemma assign_acc_z db : forall ts id ts' q id', assign_acc ts id = (ts', q, id') -> zlist ts db -> zlist ts' db.
Proof.
  induction ts as [|t r IH]; intros id ts' q id' H HZ; cbn [assign_acc] in H.
  - inversion H. constructor.
  - inversion HZ as [|? ? Zt Zr]. subst. destruct (negb (t_req t) && _).
    + destruct (assign_acc r (id + 1)) as [[r1 q1] i1] eqn:E. inversion H. subst.
      constructor; [apply Z_aux; auto using subs_same|eapply IH; eauto].
    + destruct (assign_acc r id) as [[r1 q1] i1] eqn:E. inversion H. subst.
      constructor; [exact Zt|eapply IH; eauto].
Qed.

Lemma assign_code_z db : forall ts id ts' q id', assign_code ts id = (ts', q, id') -> zlist ts db -> zlist ts' db.
Proof.
  induction ts as [|t r IH]; intros id ts' q id' H HZ; cbn [assign_code] in H.
  - inversion H. constructor.
  - inversion HZ as [|? ? Zt Zr]. subst. destruct (t_res t) as [res|].
    + destruct (t_codeTasks t) as [|x l].
      * destruct (assign_code r id) as [[r1 q1] i1] eqn:E. inversion H. subst.
        constructor; [exact Zt|eapply IH; eauto].
      * destruct (assign_code r (id + 1)) as [[r1 q1] i1] eqn:E. inversion H. subst.
        constructor; [apply Z_aux; auto using subs_same|eapply IH; eauto].
    + destruct (assign_code r id) as [[r1 q1] i1] eqn:E. inversion H. subst.
      constructor; [exact Zt|eapply IH; eauto].
Qed.

Lemma assign_sto_z db : forall ts id ts' q id', assign_sto ts id = (ts', q, id') -> zlist ts db -> zlist ts' db.
Proof.
  induction ts as [|t r IH]; intros id ts' q id' H HZ; cbn [assign_sto] in H.
  - inversion H. constructor.
  - inversion HZ as [|? ? Zt Zr]. subst. destruct (t_res t) as [res|].
    + destruct (assign_subs _ _ _ _) as [[subs' q1] id1] eqn:ES.
      destruct (match t_stateTasks t with [] => _ | _ => _ end) as [[stt q2] id2].
      destruct (assign_sto r id2) as [[r1 q3] i3] eqn:E. inversion H. subst.
      constructor; [|eapply IH; eauto]. apply Z_aux; auto. eapply assign_subs_rel; eauto.
    + destruct (assign_sto r id) as [[r1 q1] i1] eqn:E. inversion H. subst.
      constructor; [exact Zt|eapply IH; eauto].
Qed.

Lemma assign_z s : zlist (s_tasks s) (s_db s) -> zlist (s_tasks (assign s)) (s_db (assign s)) /\ s_db (assign s) = s_db s.
Proof.
  intros HZ. unfold assign.
  destruct (assign_acc (s_tasks s) (s_nextid s)) as [[ts1 q1] id1] eqn:E1.
  destruct (assign_code ts1 id1) as [[ts2 q2] id2] eqn:E2.
  destruct (assign_sto ts2 id2) as [[ts3 q3] id3] eqn:E3.
  cbn [s_tasks s_db]. split; [|reflexivity].
  eapply assign_sto_z; [exact E3|]. eapply assign_code_z; [exact E2|]. eapply assign_acc_z; eauto.
Qed.

(* ---- the syncer *)
Definition GZ (s : syncer) : Prop := zlist (s_tasks s) (s_db s) /\ ADB (s_db s).

Lemma filter_z (f : atask -> bool) ts db : zlist ts db -> zlist (filter f ts) db.
Proof. unfold zlist. rewrite !Forall_forall. intros H t Ht. apply filter_In in Ht. apply H. tauto. Qed.

Lemma post_z s : GZ s -> GZ (post s).
Proof.
  intros [HZ HA]. unfold post. destruct (clean_storage (s_tasks s) (s_db s)) as [[ts db] p] eqn:E.
  set (s1 := {| s_tasks := ts; s_reqs := s_reqs s; s_nextid := s_nextid s; s_db := db; s_root := s_root s;
                s_snapped := s_snapped s; s_panic := s_panic s || p; s_saved := s_saved s |}).
  destruct (clean_accounts_fields s1) as [F1 F2].
  unfold clean_storage in E.
  destruct (map_tasks_z (fun t d => clean_subs (t_subs t) t d false)) with (ts := s_tasks s) (db := s_db s) (ts' := ts) (db' := db) (p := p)
    as (Z1 & A1 & M1); auto.
  { intros t d t' d' p0 H Zt At. eapply clean_subs_op; [apply (z_subs _ _ Zt)|exact H|exact Zt|exact At]. }
  assert (ZC : zlist (s_tasks (clean_accounts s1)) (s_db (clean_accounts s1))).
  { rewrite F1, F2. cbn [s1 s_tasks s_db]. apply filter_z. exact Z1. }
  destruct (assign_z _ ZC) as [Z2 E2]. split; [exact Z2|]. rewrite E2, F2. exact A1.
Qed.

(* the storage-side contract on the recorded verdicts, against the task the response fills *)
Definition sto_ev (s : syncer) (e : event) : Prop :=
  match e with
  | ESto id sets hp false true more =>
      forall q rest t, take_req id (s_reqs s) = Some (q, rest) -> q_kind q = KSto ->
        In t (s_tasks s) -> t_last t = q_task q ->
        sto_sound t (q_accounts q) (q_sub q) (match sets with [] => [[]] | _ => sets end) more
  | _ => True
  end.

Lemma with_tasks_GZ s rest ts db p : zlist ts db -> ADB db -> GZ (with_tasks s rest (ts, db, p)).
Proof. intros A B. split; cbn [with_tasks s_tasks s_db]; assumption. Qed.

Lemma handle_z c s e : GZ s -> ev_sound tg s e -> sto_ev s e -> GZ (handle c s e).
Proof.
  intros [HZ HA] SA SS. unfold handle.
  assert (REV : forall q rest, GZ (with_tasks s rest (on_task (q_task q) (revert q) (s_tasks s) (s_db s)))).
  { intros q rest. destruct (on_task _ _ _ _) as [[ts db] p] eqn:E.
    destruct (on_task_z _ _ _ _ _ _ _ (fun t _ _ d t' d' p0 F => revert_op q t d t' d' p0 F) E HZ HA) as (Z1 & A1 & _).
    apply with_tasks_GZ; assumption. }
  destruct e as [id items hp ok more|id sets hp lm ok more|id codes|id|root| |]; try (split; assumption).
  - destruct (take_req id (s_reqs s)) as [[q rest]|] eqn:TR; [|split; assumption].
    destruct (q_kind q) eqn:EK; try (split; assumption).
    destruct (_ || negb ok) eqn:EB; [apply REV|].
    apply orb_false_iff in EB. destruct EB as [_ EB]. apply negb_false_iff in EB. subst ok.
    destruct (on_task _ _ _ _) as [[ts db] p] eqn:E.
    destruct (on_task_z _ _ _ _ _ _ _ (fun t Hin EL d t' d' p0 F =>
        process_account_op t items more d t' d' p0
          (proj1 (proj2 (SA q rest t TR EK Hin EL))) F) E HZ HA) as (Z1 & A1 & _).
    apply with_tasks_GZ; assumption.
  - destruct (take_req id (s_reqs s)) as [[q rest]|] eqn:TR; [|split; assumption].
    destruct (q_kind q) eqn:EK; try (split; assumption).
    destruct (_ || negb ok) eqn:EB; [apply REV|].
    apply orb_false_iff in EB. destruct EB as [EB1 EB]. apply negb_false_iff in EB. subst ok.
    apply orb_false_iff in EB1. destruct EB1 as [EB1 EB3]. apply orb_false_iff in EB1. destruct EB1 as [EB1 EB2]. subst lm.
    apply Nat.ltb_ge in EB2.
    destruct (on_task _ _ _ _) as [[ts db] p] eqn:E.
    set (sets' := match sets with [] => [[]] | _ => sets end) in *.
    assert (OP : forall t, In t (s_tasks s) -> t_last t = q_task q -> forall d t' d' p0,
              process_storage c t (q_accounts q) (q_sub q) sets' more d = (t', d', p0) -> op_ok t d t' d').
    { intros t Hin EL d t' d' p0 F. pose proof (SS q rest t TR EK Hin EL) as SO. fold sets' in SO.
      eapply process_storage_op; [exact SO| |exact F].
      intros NN. destruct SO as [SW _]. destruct (q_sub q) as [[sa sl]|]; [|contradiction].
      destruct SW as [r0 SW]. rewrite SW in EB2. cbn [length] in EB2.
      unfold sets'. destruct sets as [|x l]; cbn [length] in *; lia. }
    destruct (on_task_z _ _ _ _ _ _ _ OP E HZ HA) as (Z1 & A1 & _).
    apply with_tasks_GZ; assumption.
  - destruct (take_req id (s_reqs s)) as [[q rest]|] eqn:TR; [|split; assumption].
    destruct (q_kind q) eqn:EK; try (split; assumption).
    destruct codes as [|x l]; [apply REV|].
    destruct (match_codes (q_hashes q) (x :: l)) as [cs|]; [|apply REV].
    destruct (on_task _ _ _ _) as [[ts db] p] eqn:E.
    destruct (on_task_z _ _ _ _ _ _ _ (fun t _ _ d t' d' p0 F => process_bytecode_op t (q_hashes q) cs d t' d' p0 F) E HZ HA)
      as (Z1 & A1 & _).
    apply with_tasks_GZ; assumption.
  - destruct (take_req id (s_reqs s)) as [[q rest]|] eqn:TR; [apply REV|split; assumption].
Qed.

Lemma shutdown_z s : GZ s -> GZ (shutdown s).
Proof.
  intros [HZ HA]. unfold shutdown. destruct (map_tasks forward (s_tasks s) (s_db s)) as [[ts db] p] eqn:E.
  destruct (map_tasks_z forward forward_op _ _ _ _ _ E HZ HA) as (Z1 & A1 & _).
  set (s1 := {| s_tasks := ts; s_reqs := []; s_nextid := s_nextid s; s_db := db; s_root := s_root s;
                s_snapped := s_snapped s; s_panic := s_panic s || p; s_saved := s_saved s |}).
  destruct (clean_accounts_fields s1) as [F1 F2]. split; cbn [s_tasks s_db]; rewrite ?F1, ?F2; cbn [s1 s_tasks s_db].
  - apply filter_z. exact Z1.
  - exact A1.
Qed.

(* reload from the persisted progress: every chunk is live again, everything else is kept *)
Lemma reload_z t db : Z t db -> Z (load_task (save_task t)) db.
Proof.
  intros [A B C]. split; cbn [load_task save_task t_completed t_subs t_res p_completed p_subs].
  - exact A.
  - intros a l' Hin. rewrite map_map in Hin. apply in_map_iff in Hin. destruct Hin as ([a0 l0] & E & Hin).
    inversion E. subst a l'. clear E. intros k v HK HP. apply (B a0 l0 Hin k v HK).
    intros m Hm. unfold cmarks in Hm. apply in_map_iff in Hm. destruct Hm as (st & <- & Hst).
    assert (ED : st_done st = true \/ st_done st = false) by (destruct (st_done st); auto).
    destruct ED as [ED|ED]; [unfold cp3; rewrite ED; reflexivity|].
    rewrite ED. apply HP. unfold cmarks. rewrite !map_map. apply in_map_iff. exists st. split; [reflexivity|exact Hst].
  - discriminate.
Qed.

Lemma fresh_z db : forall n b next step, zlist (fresh_tasks n b next step) db.
Proof.
  induction n as [|n IH]; intros b next step; cbn [fresh_tasks]; constructor; [|apply IH].
  split; cbn [t_completed t_subs t_res]; [intros h []|intros a l []|discriminate].
Qed.

Lemma start_z c s root :
  ADB (s_db s) ->
  (forall ps, s_saved s = Some ps -> exists ts, ps = map save_task ts /\ zlist ts (s_db s)) ->
  GZ (start c s root).
Proof.
  intros HA HS. unfold start. apply post_z. split; cbn [s_tasks s_db]; [|exact HA].
  destruct (s_saved s) as [ps|] eqn:E.
  - destruct (HS ps eq_refl) as (ts & -> & HZ). unfold zlist in *. rewrite Forall_forall in *.
    intros t Ht. rewrite map_map in Ht. apply in_map_iff in Ht. destruct Ht as (t0 & <- & Ht0).
    apply reload_z. apply HZ. exact Ht0.
  - apply fresh_z.
Qed.

Lemma step_z c s e : GZ s -> ev_sound tg s e -> sto_ev s e -> GZ (step c s e).
Proof.
  intros G SA SS. unfold step. destruct e; try (apply post_z; apply handle_z; assumption).
  - pose proof (shutdown_z s G) as [Z1 A1]. apply start_z; [exact A1|].
    intros ps E. exists (s_tasks (shutdown s)). split; [|exact Z1].
    destruct (shutdown_ok tg tg_fun c s) as (_ & _ & S3). rewrite S3 in E. inversion E. reflexivity.
  - apply shutdown_z. exact G.
  - exact G.
Qed.

Fixpoint sto_trace (c : config) (s : syncer) (evs : list event) : Prop :=
  match evs with
  | [] => True
  | e :: r => sto_ev s e /\ sto_trace c (step c s e) r
  end.

Lemma run_from_z c : forall evs s, GZ s -> trace_sound tg c s evs -> sto_trace c s evs ->
  GZ (fold_left (step c) evs s).
Proof.
  induction evs as [|e r IH]; intros s G HA HS; cbn [fold_left]; [exact G|].
  destruct HA as [A1 A2]. destruct HS as [S1 S2]. apply IH; auto. apply step_z; assumption.
Qed.

Lemma ADB_empty : ADB empty_store.
Proof. intros k a _ H. discriminate. Qed.

Lemma start_GZ c root : GZ (start c fresh root).
Proof. apply start_z; [apply ADB_empty|]. intros ps E. discriminate. Qed.

(* complete_implies_equal, the inclusion target <= store for ACCOUNTS, CODE and STORAGE: after any
   sound history (restarts included) that leaves no account task, every target account is in the flat
   state with its body, its code (if it has one) is stored and every one of its target slots is stored *)
Theorem complete_all c root evs :
  (forall k a, In (k, a) tg -> k <= MAXH) -> 1 <= c_acc c <= HSPACE ->
  trace_sound tg c (start c fresh root) evs -> sto_trace c (start c fresh root) evs ->
  s_tasks (run c root evs) = [] ->
  forall k a, In (k, a) tg ->
    get k (d_acc (s_db (run c root evs))) = Some (a_blob a) /\
    (a_code a = EMPTY_CODE \/ has (a_code a) (d_code (s_db (run c root evs))) = true) /\
    (forall sk v, In (sk, v) (ST k) -> slot_get k sk (s_db (run c root evs)) = Some v).
Proof.
  intros TB CO HA HS E k a Hin.
  pose proof (complete_accounts tg tg_fun c TB CO root evs HA E k a Hin) as B.
  unfold run in *. destruct (run_from_z c evs _ (start_GZ c root) HA HS) as [_ AD].
  destruct (AD k a Hin B) as [C1 C2]. split; [exact B|]. split; [exact C1|exact C2].
Qed.

(* ---------------------------------------------------------------- store <= target, account-aware *)
(* the provenance invariant of SnapSyncProofs instantiated with the target: every stored account body,
   every stored slot (under ITS account) and every stored code is a target item *)
Variable TC : N -> bytes -> Prop.
Definition A0 (k : N) (v : bytes) : Prop := exists a, In (k, a) tg /\ a_blob a = v.
Definition S0 (a k : N) (v : bytes) : Prop := In (k, v) (ST a).

Lemma on_task_grows_in last f : forall ts db ts' db' p,
  (forall t, In t ts -> t_last t = last -> forall d t' d' p0, res_in A0 t -> f t d = (t', d', p0) ->
     grows A0 S0 TC d d' /\ res_in A0 t') ->
  all_res A0 ts -> on_task last f ts db = (ts', db', p) -> grows A0 S0 TC db db' /\ all_res A0 ts'.
Proof.
  induction ts as [|t r IH]; intros db ts' db' p Hf HA H; cbn [on_task] in H.
  - inversion H. subst. split; [apply grows_refl|constructor].
  - inversion HA as [|? ? Ht Hr]. subst. destruct (t_last t =? last) eqn:EL.
    + apply N.eqb_eq in EL. destruct (f t db) as [[t1 d1] p1] eqn:F. inversion H. subst ts' db' p.
      destruct (Hf t (or_introl eq_refl) EL _ _ _ _ Ht F) as [G1 R1]. split; [exact G1|constructor; assumption].
    + destruct (on_task last f r db) as [[r1 d1] p1] eqn:M. inversion H. subst.
      destruct (IH _ _ _ _ (fun u Hu => Hf u (or_intror Hu)) Hr M) as [G1 R1]. split; [exact G1|constructor; assumption].
Qed.

Lemma handle_sub c s e db0 :
  (forall h x, ev_code e h x -> TC h x) -> ev_sound tg s e -> sto_ev s e ->
  s_ok A0 S0 TC db0 s -> s_ok A0 S0 TC db0 (handle c s e).
Proof.
  intros HC SA SS [G R]. unfold handle.
  assert (REV : forall q rest, s_ok A0 S0 TC db0 (with_tasks s rest (on_task (q_task q) (revert q) (s_tasks s) (s_db s)))).
  { intros q rest. destruct (on_task _ _ _ _) as [[ts db] p] eqn:E.
    destruct (on_task_grows_in _ _ _ _ _ _ _ (fun t _ _ d t' d' p0 HR F => revert_grows A0 S0 TC q t d t' d' p0 HR F) R E) as [G2 R2].
    apply with_tasks_ok; [eapply grows_trans; eauto|exact R2]. }
  destruct e as [id items hp ok more|id sets hp lm ok more|id codes|id|root| |]; try (split; assumption).
  - destruct (take_req id (s_reqs s)) as [[q rest]|] eqn:TR; [|split; assumption].
    destruct (q_kind q) eqn:EK; try (split; assumption).
    destruct (_ || negb ok) eqn:EB; [apply REV|].
    apply orb_false_iff in EB. destruct EB as [_ EB]. apply negb_false_iff in EB. subst ok.
    destruct (on_task _ _ _ _) as [[ts db] p] eqn:E.
    assert (OP : forall t, In t (s_tasks s) -> t_last t = q_task q -> forall d t' d' p0, res_in A0 t ->
              process_account t items more d = (t', d', p0) -> grows A0 S0 TC d d' /\ res_in A0 t').
    { intros t Hin EL d t' d' p0 _ F. eapply process_account_grows; [|exact F].
      intros k a Hk. exists a. split; [|reflexivity].
      apply (proj1 (proj2 (SA q rest t TR EK Hin EL))). exact Hk. }
    destruct (on_task_grows_in _ _ _ _ _ _ _ OP R E) as [G2 R2].
    apply with_tasks_ok; [eapply grows_trans; eauto|exact R2].
  - destruct (take_req id (s_reqs s)) as [[q rest]|] eqn:TR; [|split; assumption].
    destruct (q_kind q) eqn:EK; try (split; assumption).
    destruct (_ || negb ok) eqn:EB; [apply REV|].
    apply orb_false_iff in EB. destruct EB as [EB1 EB]. apply negb_false_iff in EB. subst ok.
    apply orb_false_iff in EB1. destruct EB1 as [EB1 _]. apply orb_false_iff in EB1. destruct EB1 as [EB1 _]. subst lm.
    destruct (on_task _ _ _ _) as [[ts db] p] eqn:E.
    set (sets' := match sets with [] => [[]] | _ => sets end) in *.
    assert (OP : forall t, In t (s_tasks s) -> t_last t = q_task q -> forall d t' d' p0, res_in A0 t ->
              process_storage c t (q_accounts q) (q_sub q) sets' more d = (t', d', p0) -> grows A0 S0 TC d d' /\ res_in A0 t').
    { intros t Hin EL d t' d' p0 HR F. pose proof (SS q rest t TR EK Hin EL) as [_ SO]. fold sets' in SO.
      eapply process_storage_grows; [exact HR| |exact F].
      intros j a r slots H1 H2 k v Hk. apply (proj1 (SO j a r slots H1 H2)). exact Hk. }
    destruct (on_task_grows_in _ _ _ _ _ _ _ OP R E) as [G2 R2].
    apply with_tasks_ok; [eapply grows_trans; eauto|exact R2].
  - destruct (take_req id (s_reqs s)) as [[q rest]|] eqn:TR; [|split; assumption].
    destruct (q_kind q) eqn:EK; try (split; assumption).
    destruct codes as [|x l]; [apply REV|].
    destruct (match_codes (q_hashes q) (x :: l)) as [cs|] eqn:M; [|apply REV].
    destruct (on_task _ _ _ _) as [[ts db] p] eqn:E.
    assert (HI : forall i h c0, nth_error (q_hashes q) i = Some h -> nth_error cs i = Some (Some c0) -> TC h c0).
    { intros i h c0 H1 H2. apply HC. cbn [ev_code]. eapply match_codes_in; eauto. }
    destruct (on_task_grows_in _ _ _ _ _ _ _
      (fun t _ _ d t' d' p0 HR F => process_bytecode_grows A0 S0 TC t (q_hashes q) cs d t' d' p0 HR HI F) R E) as [G2 R2].
    apply with_tasks_ok; [eapply grows_trans; eauto|exact R2].
  - destruct (take_req id (s_reqs s)) as [[q rest]|] eqn:TR; [apply REV|split; assumption].
Qed.

Lemma step_sub c s e db0 :
  (forall h x, ev_code e h x -> TC h x) -> ev_sound tg s e -> sto_ev s e ->
  s_ok A0 S0 TC db0 s -> s_ok A0 S0 TC db0 (step c s e).
Proof.
  intros HC SA SS OK. unfold step.
  destruct e; try (apply SnapSyncProofs.post_ok; apply handle_sub; assumption).
  - apply start_ok. apply SnapSyncProofs.shutdown_ok. exact OK.
  - apply SnapSyncProofs.shutdown_ok. exact OK.
  - exact OK.
Qed.

Lemma run_from_sub c : forall evs s,
  (forall e h x, In e evs -> ev_code e h x -> TC h x) ->
  trace_sound tg c s evs -> sto_trace c s evs ->
  s_ok A0 S0 TC empty_store s -> s_ok A0 S0 TC empty_store (fold_left (step c) evs s).
Proof.
  induction evs as [|e r IH]; intros s HC HA HS OK; cbn [fold_left]; [exact OK|].
  destruct HA as [A1 A2]. destruct HS as [S1 S2]. apply IH; auto.
  - intros e0 h x Hin. apply HC. right. exact Hin.
  - apply step_sub; auto. intros h x. apply HC. left. reflexivity.
Qed.

(* store <= target, over all sound histories: every stored account body is a target account's body, every
   slot stored under an account is a target slot OF THAT ACCOUNT, every stored code is a target code *)
Theorem stored_exact c root evs :
  (forall e h x, In e evs -> ev_code e h x -> TC h x) ->
  trace_sound tg c (start c fresh root) evs -> sto_trace c (start c fresh root) evs ->
  (forall k v, get k (d_acc (s_db (run c root evs))) = Some v -> exists a, In (k, a) tg /\ a_blob a = v) /\
  (forall a k v, slot_get a k (s_db (run c root evs)) = Some v -> In (k, v) (ST a)) /\
  (forall h x, get h (d_code (s_db (run c root evs))) = Some x -> TC h x).
Proof.
  intros HC HA HS. unfold run.
  assert (OK0 : s_ok A0 S0 TC empty_store (start c fresh root)) by (apply start_ok; apply grows_refl).
  destruct (run_from_sub c evs _ HC HA HS OK0) as [(ga & gs & gc) _].
  split; [|split].
  - intros k v H. destruct (ga _ _ H) as [H'|H']; [discriminate|exact H'].
  - intros a k v H. destruct (gs _ _ _ H) as [H'|H']; [|exact H']. unfold slot_get in H'. cbn in H'. discriminate.
  - intros h x H. destruct (gc _ _ H) as [H'|H']; [discriminate|exact H'].
Qed.

(* complete_implies_equal: at completion the three parts of the flat state ARE the target *)
Theorem complete_equal c root evs :
  (forall k a, In (k, a) tg -> k <= MAXH) -> 1 <= c_acc c <= HSPACE ->
  (forall e h x, In e evs -> ev_code e h x -> TC h x) ->
  trace_sound tg c (start c fresh root) evs -> sto_trace c (start c fresh root) evs ->
  s_tasks (run c root evs) = [] ->
  let db := s_db (run c root evs) in
  (forall k v, get k (d_acc db) = Some v <-> exists a, In (k, a) tg /\ a_blob a = v) /\
  (forall k a, In (k, a) tg -> forall sk v, slot_get k sk db = Some v <-> In (sk, v) (ST k)) /\
  (forall a sk v, slot_get a sk db = Some v -> In (sk, v) (ST a)) /\
  (forall k a, In (k, a) tg -> a_code a <> EMPTY_CODE -> exists x, get (a_code a) (d_code db) = Some x /\ TC (a_code a) x).
Proof.
  intros TB CO HC HA HS E. cbv zeta.
  destruct (stored_exact c root evs HC HA HS) as (X1 & X2 & X3).
  pose proof (complete_all c root evs TB CO HA HS E) as CA.
  split; [|split; [|split]].
  - intros k v. split; [apply X1|]. intros (a & Hin & <-). apply (CA k a Hin).
  - intros k a Hin sk v. split; [apply X2|]. intros HK. apply (CA k a Hin). exact HK.
  - exact X2.
  - intros k a Hin NE. destruct (CA k a Hin) as (_ & [C1|C1] & _); [contradiction|].
    unfold has in C1. destruct (get (a_code a) (d_code (s_db (run c root evs)))) as [x|] eqn:EG; [|discriminate].
    exists x. split; [reflexivity|apply X3; exact EG].
Qed.

(* ---------------------------------------------------------------- storage-chunk ranges, all histories *)
(* the chunks of one large contract: increasing, pairwise disjoint, each Next inside its chunk *)
Fixpoint chunks_from (lo : N) (l : list stask) : Prop :=
  match l with
  | [] => True
  | st :: r => lo <= st_next st /\ st_next st <= st_last st /\ st_last st <= MAXH /\ chunks_from (st_last st + 1) r
  end.
Definition SubsR (t : atask) : Prop := forall a l, In (a, l) (t_subs t) -> chunks_from 0 l.

Lemma chunks_weaken l : forall lo lo', lo' <= lo -> chunks_from lo l -> chunks_from lo' l.
Proof. destruct l as [|st r]; intros lo lo' L H; [exact I|]. cbn [chunks_from] in *. destruct H as (A & B & C & D). repeat split; auto. lia. Qed.

Lemma chunks_marks : forall l l' lo, cmarks l' = cmarks l -> chunks_from lo l -> chunks_from lo l'.
Proof.
  induction l as [|st r IH]; intros l' lo E H; destruct l' as [|st' r']; try discriminate; [exact I|].
  cbn [cmarks map] in E. inversion E as [[E1 E2 E3 E4]]. cbn [chunks_from] in *.
  destruct H as (A & B & C & D). rewrite E1, E2. split; [exact A|]. split; [exact B|]. split; [exact C|].
  apply (IH r'); [exact E4|exact D].
Qed.

Lemma chunks_filter (f : stask -> bool) l : forall lo, chunks_from lo l -> chunks_from lo (filter f l).
Proof.
  induction l as [|st r IH]; intros lo H; [exact I|]. cbn [chunks_from filter] in *.
  destruct H as (A & B & C & D). destruct (f st).
  - cbn [chunks_from]. repeat split; auto.
  - apply IH. eapply chunks_weaken; [|exact D]. lia.
Qed.

Lemma exact_chunks : forall l lo, exact_from lo l -> chunks_from lo l.
Proof.
  induction l as [|st r IH]; intros lo H; [exact I|]. cbn [exact_from chunks_from] in *.
  destruct H as (A & B & C & D). repeat split; auto; lia.
Qed.

Lemma SubsR_aux t subs cp rq pend nc ns ct stt :
  SubsR t -> subs_rel subs (t_subs t) -> SubsR (set_aux t subs cp rq pend nc ns ct stt).
Proof.
  intros H R a l Hin. cbn [set_aux t_subs] in Hin. destruct (R a l Hin) as (l0 & I0 & E).
  eapply chunks_marks; [exact E|]. apply (H a l0 I0).
Qed.

Lemma forward_subs t db t' db' p : forward t db = (t', db', p) -> t_subs t' = t_subs t.
Proof.
  unfold forward. destruct (t_res t) as [res|]; [|intros H; inversion H; reflexivity].
  destruct (write_prefix _ _ _ _) as [d1 p1]. destruct p1; [intros H; inversion H; reflexivity|].
  destruct (advance _ _ _ _ _) as [[n cp] al]. destruct al; intros H; inversion H; reflexivity.
Qed.

Lemma forward_R t db t' db' p : forward t db = (t', db', p) -> SubsR t -> SubsR t'.
Proof. intros H R a l Hin. rewrite (forward_subs _ _ _ _ _ H) in Hin. apply (R a l Hin). Qed.

Lemma revert_R q t db t' db' p : revert q t db = (t', db', p) -> SubsR t -> SubsR t'.
Proof.
  intros H R. unfold revert in H.
  destruct (q_kind q); [| |destruct (q_sub q) as [[sa sl]|]]; inversion H; subst; apply SubsR_aux; auto using subs_rel_refl.
  intros a l Hin. eapply upd_sub_marks; [|exact Hin]. intros st. reflexivity.
Qed.

Lemma classify_subs db cp : forall items c, subs_rel (cl_subs (classify db cp items c)) (cl_subs c).
Proof.
  induction items as [|[h a] r IH]; intros c; cbn [classify]; [apply subs_rel_refl|]. cbv zeta.
  eapply subs_rel_trans; [apply IH|].
  destruct (a_root a =? EMPTY_ROOT); [cbn [cl_subs]; apply subs_rel_refl|].
  destruct (smem h cp); [cbn [cl_subs]; apply subs_rel_refl|].
  destruct (get h (cl_subs c)) as [subs|] eqn:EG; cbn [cl_subs]; [|apply subs_rel_refl].
  intros x l' Hin. apply put_in in Hin. destruct Hin as [E|Hin]; [|exists l'; auto].
  inversion E. subst. exists subs. split; [apply get_in; exact EG|apply set_roots_marks].
Qed.

Lemma process_account_R t items cont db t' db' p : process_account t items cont db = (t', db', p) -> SubsR t -> SubsR t'.
Proof.
  intros H R. unfold process_account in H.
  destruct (cut_acc (t_last t) items cont) as [items' cont'].
  set (c0 := {| cl_nc := []; cl_ns := []; cl_subs := t_subs t; cl_ct := []; cl_st := [];
                cl_resumed := []; cl_pend := 0%Z; cl_panic := false |}) in H.
  pose proof (classify_subs db (t_completed t) items' c0) as CS.
  set (c := classify db (t_completed t) items' c0) in *.
  match type of H with context [set_core ?x ?n ?r ?cp ?dn] => set (t1 := set_core x n r cp dn) in H end.
  assert (R1 : SubsR t1).
  { intros a l Hin. unfold t1 in Hin. cbn [set_core set_aux t_subs] in Hin.
    assert (Hin' : In (a, l) (cl_subs c)) by (destruct (last_key items'); [apply filter_In in Hin; tauto|exact Hin]).
    destruct (CS a l Hin') as (l0 & I0 & E). eapply chunks_marks; [exact E|]. apply (R a l0 I0). }
  destruct (cl_pend c =? 0)%Z.
  - destruct (forward t1 db) as [[t2 db2] p2] eqn:F. inversion H. subst. eapply forward_R; eauto.
  - inversion H. subst. exact R1.
Qed.

Lemma process_bytecode_R t hashes codes db t' db' p : process_bytecode t hashes codes db = (t', db', p) -> SubsR t -> SubsR t'.
Proof.
  intros H R. unfold process_bytecode in H. destruct (t_res t) as [res|].
  - destruct (process_codes _ _ _ _ _ _ _) as [[[nc pend] ct] d1].
    match type of H with context [set_aux ?a ?b ?c ?d ?e ?f ?g ?h ?i] => set (t1 := set_aux a b c d e f g h i) in H end.
    assert (R1 : SubsR t1) by (apply SubsR_aux; auto using subs_rel_refl).
    destruct (pend =? 0)%Z; [eapply forward_R; eauto|inversion H; subst; exact R1].
  - destruct (existsb _ codes); inversion H; subst; [exact R|apply SubsR_aux; auto using subs_rel_refl].
Qed.

Lemma clean_subs_R subs : forall t db panic t' db' p,
  (forall a l, In (a, l) subs -> chunks_from 0 l) ->
  clean_subs subs t db panic = (t', db', p) -> SubsR t -> SubsR t'.
Proof.
  induction subs as [|[account l] r IH]; intros t db panic t' db' p HS H R; cbn [clean_subs] in H.
  - inversion H. subst. exact R.
  - assert (HSr : forall a l0, In (a, l0) r -> chunks_from 0 l0) by (intros a0 l0 Hx; apply (HS a0 l0); right; exact Hx).
    pose proof (chunks_filter (fun st => negb (st_done st)) l 0 (HS account l (or_introl eq_refl))) as CF.
    destruct (filter _ l) as [|x l'] eqn:EF.
    + destruct (t_res t) as [res|]; [|eapply IH; eauto].
      match type of H with context [set_aux ?a ?b ?c ?d ?e ?f ?g ?h ?i] => set (t1 := set_aux a b c d e f g h i) in H end.
      assert (R1 : SubsR t1).
      { intros a l0 Hin. unfold t1 in Hin. cbn [set_aux t_subs] in Hin. apply del_in in Hin. apply (R a l0 Hin). }
      destruct (t_pend t1 =? 0)%Z.
      * destruct (forward t1 db) as [[t2 db2] p2] eqn:F. eapply IH; [exact HSr|exact H|eapply forward_R; eauto].
      * eapply IH; eauto.
    + match type of H with context [set_aux ?a ?b ?c ?d ?e ?f ?g ?h ?i] => set (t1 := set_aux a b c d e f g h i) in H end.
      assert (R1 : SubsR t1).
      { intros a l0 Hin. unfold t1 in Hin. cbn [set_aux t_subs] in Hin. apply put_in in Hin.
        destruct Hin as [E|Hin]; [inversion E; subst; exact CF|apply (R a l0 Hin)]. }
      eapply IH; eauto.
Qed.

(* a chunk delivery under the contract keys >= Next *)
Lemma upd_chunks sl f : forall l lo,
  (forall st, In st l -> st_last st = sl -> st_last st <= MAXH -> st_next st <= st_last st ->
     st_last (f st) = st_last st /\ st_next st <= st_next (f st) /\ st_next (f st) <= st_last st) ->
  chunks_from lo l -> chunks_from lo (map (fun st => if st_last st =? sl then f st else st) l).
Proof.
  induction l as [|st r IH]; intros lo Hf H; [exact I|]. cbn [map chunks_from] in *.
  destruct H as (A & B & C & D).
  assert (IHr : chunks_from (st_last st + 1) (map (fun st0 => if st_last st0 =? sl then f st0 else st0) r)).
  { apply IH; [|exact D]. intros st0 Hin. apply Hf. right. exact Hin. }
  destruct (st_last st =? sl) eqn:EL.
  - apply N.eqb_eq in EL. destruct (Hf st (or_introl eq_refl) EL C B) as (F1 & F2 & F3). rewrite F1.
    split; [lia|]. split; [lia|]. split; [exact C|exact IHr].
  - split; [exact A|]. split; [exact B|]. split; [exact C|exact IHr].
Qed.

Definition GEcall (s : sps) (slots : list (N * bytes)) : Prop :=
  forall sa sl, sp_sub s = Some (sa, sl) ->
  forall l st, In (sa, l) (t_subs (sp_t s)) -> In st l -> st_last st = sl ->
  forall k v, In (k, v) slots -> st_next st <= k.

Lemma storage_D_R t2 sa sl account slots s p2 :
  SubsR t2 ->
  (forall l st, In (sa, l) (t_subs t2) -> In st l -> st_last st = sl -> forall k v, In (k, v) slots -> st_next st <= k) ->
  SubsR (sp_t (storage_D t2 (Some (sa, sl)) account slots s p2)).
Proof.
  intros R HG. unfold storage_D. cbv zeta.
  set (cont' := if existsb _ slots then false else sp_cont s).
  set (slots' := filter _ slots).
  destruct (if cont' then _ else _) as [f p3] eqn:EF. cbn [sp_t].
  intros a l' Hin. cbn [set_aux t_subs] in Hin. apply upd_sub_entry in Hin.
  destruct Hin as [Hin|(-> & l & I1 & ->)]; [apply (R a l' Hin)|].
  apply upd_chunks; [|apply (R sa l I1)].
  intros st Hst EL LM NL. destruct cont' eqn:EC.
  - destruct (last_key slots') as [lk|] eqn:LKE.
    + inversion EF. subst f p3. cbn [st_last st_next]. split; [reflexivity|].
      destruct (last_key_in _ _ LKE) as [v Hlk]. unfold slots' in Hlk. apply filter_In in Hlk. destruct Hlk as [Hlk _].
      assert (LT : lk < sl).
      { unfold cont' in EC. destruct (existsb _ slots) eqn:EX; [discriminate|].
        destruct (sl <=? lk) eqn:EK; [|apply N.leb_gt in EK; exact EK].
        exfalso. assert (EX' : existsb (fun '(k, _) => sl <=? k) slots = true)
          by (apply existsb_exists; exists (lk, v); split; [exact Hlk|exact EK]). congruence. }
      assert (GE : st_next st <= lk) by (apply (HG l st I1 Hst EL lk v Hlk)).
      rewrite inc_hash_lt by lia. lia.
    + inversion EF. subst f p3. split; [reflexivity|lia].
  - inversion EF. subst f p3. cbn [st_last st_next]. split; [reflexivity|lia].
Qed.

Lemma storage_one_R c n i account root set s :
  SubsR (sp_t s) ->
  (forall slots, set = Some slots -> GEcall s slots /\ (forall k v, In (k, v) slots -> k <= MAXH)) ->
  SubsR (sp_t (storage_one c n i account root set s)).
Proof.
  intros R HP. unfold storage_one. destruct set as [slots|].
  2:{ cbn [sp_t]. apply SubsR_aux; auto using subs_rel_refl. }
  destruct (HP slots eq_refl) as [HG KB]. clear HP.
  destruct (t_res (sp_t s)) as [res|]; [|exact R].
  destruct (find_idx account (r_items res) 0) as [[j acc]|]; [|exact R].
  destruct (nth_error (t_needState (sp_t s)) j) as [nsj|]; [|exact R].
  cbv zeta. set (lastset := Nat.eqb (S i) n).
  set (t1 := storage_A (sp_t s) (sp_sub s) nsj lastset (sp_cont s) account j).
  assert (E1 : t_subs t1 = t_subs (sp_t s)).
  { unfold t1, storage_A. destruct (_ && _ && _); reflexivity. }
  assert (R1 : SubsR t1) by (intros a l Hin; rewrite E1 in Hin; apply (R a l Hin)).
  destruct (storage_C c t1 (sp_sub s) lastset (sp_cont s) account slots acc) as [[t2 sub2] p2] eqn:EC.
  unfold storage_C in EC. destruct (sp_sub s) as [[sa sl]|] eqn:ES.
  - inversion EC. subst t2 sub2 p2. apply storage_D_R; [exact R1|].
    intros l st I1 I2 EL k v Hk. rewrite E1 in I1. apply (HG sa sl ES l st I1 I2 EL k v Hk).
  - assert (DN : forall tx px, SubsR tx -> SubsR (sp_t (storage_D tx None account slots s px))) by (intros; exact H).
    destruct (lastset && sp_cont s); [|inversion EC; subst; apply DN; exact R1].
    destruct (get account (t_subs t1)) as [lold|] eqn:EG; [inversion EC; subst; apply DN; exact R1|].
    destruct (make_chunks c (map fst slots) (a_root acc)) as [tasks|] eqn:MC; [|inversion EC; subst; apply DN; exact R1].
    inversion EC. subst t2 sub2 p2. clear EC.
    assert (KB' : forall k, In k (map fst slots) -> k <= MAXH).
    { intros k Hk. apply in_map_iff in Hk. destruct Hk as ([k0 v0] & <- & Hk). eapply KB. exact Hk. }
    pose proof (make_chunks_partition _ _ _ _ KB' MC) as EXF.
    set (t2 := set_aux t1 (put account tasks (t_subs t1)) (t_completed t1) (t_req t1) (t_pend t1)
                 (t_needCode t1) (t_needState t1) (t_codeTasks t1) (t_stateTasks t1)).
    assert (R2 : SubsR t2).
    { intros a l Hin. unfold t2 in Hin. cbn [set_aux t_subs] in Hin. apply put_in in Hin.
      destruct Hin as [E|Hin]; [inversion E; subst; apply exact_chunks; exact EXF|apply (R1 a l Hin)]. }
    destruct tasks as [|st1 rest]; [apply DN; exact R2|].
    apply storage_D_R; [exact R2|].
    intros l st I1 I2 EL k v Hk. unfold t2 in I1. cbn [set_aux t_subs] in I1. apply put_in in I1.
    destruct I1 as [E|I1]; [|exfalso; eapply get_none_in; eauto].
    inversion E. subst l. cbn [exact_from] in EXF. destruct EXF as (N0 & _ & _ & EXR).
    destruct I2 as [<-|I2]; [rewrite N0; lia|]. exfalso. destruct (exact_ge _ _ EXR st I2). lia.
Qed.

Lemma storage_loop_R_none c n : forall accounts sets i s,
  (sets <> [] -> sp_sub s = None /\ n = (i + length sets)%nat) ->
  (forall slots, In slots sets -> forall k v, In (k, v) slots -> k <= MAXH) ->
  SubsR (sp_t s) -> SubsR (sp_t (storage_loop c n i accounts sets s)).
Proof.
  induction accounts as [|[a r] ar IH]; intros sets i s HJ KB R; cbn [storage_loop]; [exact R|].
  destruct sets as [|x sr].
  - apply IH; [intros Q; contradiction|intros slots []|].
    apply storage_one_R; [exact R|]. intros slots Q. discriminate.
  - destruct (HJ ltac:(discriminate)) as [J1 J2]. cbn [length] in J2.
    apply IH.
    + intros NE. destruct sr as [|y sr']; [contradiction|].
      assert (EL : Nat.eqb (S i) n = false) by (apply Nat.eqb_neq; cbn [length] in J2; lia).
      destruct (storage_one_none c n i a r (Some x) s J1 EL) as [N1 _]. split; [exact N1|lia].
    + intros slots Hin. apply KB. right. exact Hin.
    + apply storage_one_R; [exact R|]. intros slots Q. inversion Q. subst slots. split.
      * intros sa sl E. rewrite J1 in E. discriminate.
      * apply KB. left. reflexivity.
Qed.

Lemma process_storage_R c t accounts sub sets cont db t' db' p :
  SubsR t ->
  (forall slots, In slots sets -> forall k v, In (k, v) slots -> k <= MAXH) ->
  (forall sa sl, sub = Some (sa, sl) ->
     (exists r, accounts = [(sa, r)]) /\ (length sets <= 1)%nat /\
     forall l st, In (sa, l) (t_subs t) -> In st l -> st_last st = sl ->
       forall slots, In slots sets -> forall k v, In (k, v) slots -> st_next st <= k) ->
  process_storage c t accounts sub sets cont db = (t', db', p) -> SubsR t'.
Proof.
  intros R KB HS H. unfold process_storage in H.
  set (t0 := match sub with Some _ => _ | None => t end) in H.
  set (s0 := {| sp_t := t0; sp_db := db; sp_sub := sub; sp_cont := cont; sp_panic := false |}) in H.
  assert (RL : SubsR (sp_t (storage_loop c (length sets) 0 accounts sets s0))).
  { destruct sub as [[sa sl]|] eqn:ESub.
    - destruct (HS sa sl eq_refl) as ((r0 & ->) & LB & HG).
      assert (R0 : SubsR t0).
      { unfold t0. apply SubsR_aux; [exact R|]. intros a l Hin. eapply upd_sub_marks; [|exact Hin]. intros st. reflexivity. }
      destruct sets as [|x [|y sr]]; [| |cbn [length] in LB; lia].
      + cbn [storage_loop]. apply storage_one_R; [exact R0|]. intros slots Q. discriminate.
      + cbn [storage_loop length]. apply storage_one_R; [exact R0|]. intros slots Q. inversion Q. subst slots. split.
        * intros sa' sl' E. cbn [s0 sp_sub] in E. inversion E. subst sa' sl'.
          intros l' st' I1 I2 EL k v Hk. cbn [s0 sp_t] in I1. unfold t0 in I1. cbn [set_aux t_subs] in I1.
          apply upd_sub_entry in I1. destruct I1 as [I1|(_ & l & I1 & ->)].
          -- apply (HG l' st' I1 I2 EL x (or_introl eq_refl) k v Hk).
          -- apply in_map_iff in I2. destruct I2 as (st & E2 & I2).
             assert (FE : st_next st' = st_next st /\ st_last st' = st_last st).
             { destruct (st_last st =? sl); subst st'; cbn [st_next st_last]; auto. }
             destruct FE as [F1 F2]. rewrite F1. rewrite F2 in EL.
             apply (HG l st I1 I2 EL x (or_introl eq_refl) k v Hk).
        * apply KB. left. reflexivity.
    - apply storage_loop_R_none; [|exact KB|exact R].
      intros NE. split; [reflexivity|reflexivity]. }
  destruct (t_pend _ =? 0)%Z.
  - destruct (forward _ _) as [[t2 db2] p2] eqn:F. inversion H. subst. eapply forward_R; eauto.
  - inversion H. subst. exact RL.
Qed.

(* ---- lists and the syncer *)
Lemma map_tasks_P (P : atask -> Prop) f :
  (forall t db t' db' p, f t db = (t', db', p) -> P t -> P t') ->
  forall ts db ts' db' p, map_tasks f ts db = (ts', db', p) -> Forall P ts -> Forall P ts'.
Proof.
  intros Hf. induction ts as [|t r IH]; intros db ts' db' p H HA; cbn [map_tasks] in H.
  - inversion H. constructor.
  - destruct (f t db) as [[t1 d1] p1] eqn:F. destruct (map_tasks f r d1) as [[r1 d2] p2] eqn:M.
    inversion H. subst. inversion HA. subst. constructor; [eapply Hf; eauto|eapply IH; eauto].
Qed.

Lemma on_task_P (P : atask -> Prop) last f : forall ts db ts' db' p,
  (forall t, In t ts -> t_last t = last -> forall d t' d' p0, f t d = (t', d', p0) -> P t -> P t') ->
  on_task last f ts db = (ts', db', p) -> Forall P ts -> Forall P ts'.
Proof.
  induction ts as [|t r IH]; intros db ts' db' p Hf H HA; cbn [on_task] in H.
  - inversion H. constructor.
  - inversion HA as [|? ? Pt Pr]. subst. destruct (t_last t =? last) eqn:EL.
    + apply N.eqb_eq in EL. destruct (f t db) as [[t1 d1] p1] eqn:F. inversion H. subst ts' db' p.
      constructor; [eapply (Hf t); eauto; left; reflexivity|exact Pr].
    + destruct (on_task last f r db) as [[r1 d1] p1] eqn:M. inversion H. subst.
      constructor; [exact Pt|]. eapply IH; [|exact M|exact Pr]. intros u Hu. apply Hf. right. exact Hu.
Qed.

Definition RS (s : syncer) : Prop := Forall SubsR (s_tasks s).

Lemma assign_acc_R : forall ts id ts' q id', assign_acc ts id = (ts', q, id') -> Forall SubsR ts -> Forall SubsR ts'.
Proof.
  induction ts as [|t r IH]; intros id ts' q id' H HZ; cbn [assign_acc] in H.
  - inversion H. constructor.
  - inversion HZ as [|? ? Zt Zr]. subst. destruct (negb (t_req t) && _).
    + destruct (assign_acc r (id + 1)) as [[r1 q1] i1] eqn:E. inversion H. subst.
      constructor; [apply SubsR_aux; auto using subs_rel_refl|eapply IH; eauto].
    + destruct (assign_acc r id) as [[r1 q1] i1] eqn:E. inversion H. subst.
      constructor; [exact Zt|eapply IH; eauto].
Qed.

Lemma assign_code_R : forall ts id ts' q id', assign_code ts id = (ts', q, id') -> Forall SubsR ts -> Forall SubsR ts'.
Proof.
  induction ts as [|t r IH]; intros id ts' q id' H HZ; cbn [assign_code] in H.
  - inversion H. constructor.
  - inversion HZ as [|? ? Zt Zr]. subst. destruct (t_res t) as [res|].
    + destruct (t_codeTasks t) as [|x l].
      * destruct (assign_code r id) as [[r1 q1] i1] eqn:E. inversion H. subst.
        constructor; [exact Zt|eapply IH; eauto].
      * destruct (assign_code r (id + 1)) as [[r1 q1] i1] eqn:E. inversion H. subst.
        constructor; [apply SubsR_aux; auto using subs_rel_refl|eapply IH; eauto].
    + destruct (assign_code r id) as [[r1 q1] i1] eqn:E. inversion H. subst.
      constructor; [exact Zt|eapply IH; eauto].
Qed.

Lemma assign_sto_R : forall ts id ts' q id', assign_sto ts id = (ts', q, id') -> Forall SubsR ts -> Forall SubsR ts'.
Proof.
  induction ts as [|t r IH]; intros id ts' q id' H HZ; cbn [assign_sto] in H.
  - inversion H. constructor.
  - inversion HZ as [|? ? Zt Zr]. subst. destruct (t_res t) as [res|].
    + destruct (assign_subs _ _ _ _) as [[subs' q1] id1] eqn:ES.
      destruct (match t_stateTasks t with [] => _ | _ => _ end) as [[stt q2] id2].
      destruct (assign_sto r id2) as [[r1 q3] i3] eqn:E. inversion H. subst.
      constructor; [|eapply IH; eauto]. apply SubsR_aux; [exact Zt|]. eapply assign_subs_rel; eauto.
    + destruct (assign_sto r id) as [[r1 q1] i1] eqn:E. inversion H. subst.
      constructor; [exact Zt|eapply IH; eauto].
Qed.

Lemma assign_R s : RS s -> RS (assign s).
Proof.
  unfold RS, assign. intros H.
  destruct (assign_acc (s_tasks s) (s_nextid s)) as [[ts1 q1] id1] eqn:E1.
  destruct (assign_code ts1 id1) as [[ts2 q2] id2] eqn:E2.
  destruct (assign_sto ts2 id2) as [[ts3 q3] id3] eqn:E3. cbn [s_tasks].
  eapply assign_sto_R; [exact E3|]. eapply assign_code_R; [exact E2|]. eapply assign_acc_R; eauto.
Qed.

Lemma post_R s : RS s -> RS (post s).
Proof.
  intros H. unfold post. destruct (clean_storage (s_tasks s) (s_db s)) as [[ts db] p] eqn:E.
  apply assign_R. unfold RS.
  match goal with |- Forall SubsR (s_tasks (clean_accounts ?x)) => destruct (clean_accounts_fields x) as [F1 _]; rewrite F1 end.
  cbn [s_tasks]. rewrite Forall_forall. intros t Ht. apply filter_In in Ht. destruct Ht as [Ht _]. revert t Ht. rewrite <- Forall_forall.
  unfold clean_storage in E. eapply (map_tasks_P SubsR); [|exact E|exact H].
  intros t d t' d' p0 HH RT. eapply clean_subs_R; [|exact HH|exact RT]. exact RT.
Qed.

(* the storage-side "keys >= chunk Next" clause of the verifier's contract *)
Definition ge_ev (s : syncer) (e : event) : Prop :=
  match e with
  | ESto id sets hp false true more =>
      forall q rest t sa sl, take_req id (s_reqs s) = Some (q, rest) -> q_kind q = KSto ->
        In t (s_tasks s) -> t_last t = q_task q -> q_sub q = Some (sa, sl) ->
        forall l st, In (sa, l) (t_subs t) -> In st l -> st_last st = sl ->
        forall slots, In slots sets -> forall k v, In (k, v) slots -> st_next st <= k
  | _ => True
  end.

Lemma handle_R c s e : RS s -> sto_ev s e -> ge_ev s e -> RS (handle c s e).
Proof.
  intros H SS SG. unfold handle.
  assert (REV : forall q rest, RS (with_tasks s rest (on_task (q_task q) (revert q) (s_tasks s) (s_db s)))).
  { intros q rest. destruct (on_task _ _ _ _) as [[ts db] p] eqn:E. unfold RS. cbn [with_tasks s_tasks].
    eapply (on_task_P SubsR); [|exact E|exact H]. intros t _ _ d t' d' p0 F. eapply revert_R; exact F. }
  destruct e as [id items hp ok more|id sets hp lm ok more|id codes|id|root| |]; try exact H.
  - destruct (take_req id (s_reqs s)) as [[q rest]|]; [|exact H].
    destruct (q_kind q); try exact H. destruct (_ || negb ok); [apply REV|].
    destruct (on_task _ _ _ _) as [[ts db] p] eqn:E. unfold RS. cbn [with_tasks s_tasks].
    eapply (on_task_P SubsR); [|exact E|exact H]. intros t _ _ d t' d' p0 F. eapply process_account_R; exact F.
  - destruct (take_req id (s_reqs s)) as [[q rest]|] eqn:TR; [|exact H].
    destruct (q_kind q) eqn:EK; try exact H.
    destruct (_ || negb ok) eqn:EB; [apply REV|].
    apply orb_false_iff in EB. destruct EB as [EB1 EB]. apply negb_false_iff in EB. subst ok.
    apply orb_false_iff in EB1. destruct EB1 as [EB1 EB3]. apply orb_false_iff in EB1. destruct EB1 as [EB1 EB2]. subst lm.
    apply Nat.ltb_ge in EB2.
    destruct (on_task _ _ _ _) as [[ts db] p] eqn:E. unfold RS. cbn [with_tasks s_tasks].
    set (sets' := match sets with [] => [[]] | _ => sets end) in *.
    eapply (on_task_P SubsR); [|exact E|exact H].
    intros t Hin EL d t' d' p0 F RT. pose proof (SS q rest t TR EK Hin EL) as [SW SO]. fold sets' in SW, SO.
    eapply process_storage_R; [exact RT| | |exact F].
    + intros slots Hs k v Hk. destruct (In_nth_error _ _ Hs) as [j Hj].
      destruct (nth_error (q_accounts q) j) as [[a r]|] eqn:EA.
      * eapply ST_bound. apply (proj1 (SO j a r slots EA Hj)). exact Hk.
      * (* more sets than accounts cannot happen: the handler rejected it *)
        exfalso. apply nth_error_None in EA. assert (j < length sets')%nat by (apply nth_error_Some; congruence).
        unfold sets' in *. destruct sets as [|x0 l0]; cbn [length] in *; [|lia].
        destruct j; [|lia]. destruct Hs as [<-|[]]. destruct Hk.
    + intros sa sl ESub. rewrite ESub in SW. split; [exact SW|]. split.
      * destruct SW as [r0 SW]. rewrite SW in EB2. cbn [length] in EB2.
        unfold sets'. destruct sets as [|x0 l0]; cbn [length] in *; lia.
      * intros l st I1 I2 EL2 slots Hs k v Hk.
        assert (Hs' : In slots sets).
        { unfold sets' in Hs. destruct sets as [|x0 l0]; [|exact Hs]. destruct Hs as [<-|[]]. destruct Hk. }
        apply (SG q rest t sa sl TR EK Hin EL ESub l st I1 I2 EL2 slots Hs' k v Hk).
  - destruct (take_req id (s_reqs s)) as [[q rest]|]; [|exact H].
    destruct (q_kind q); try exact H. destruct codes as [|x l]; [apply REV|].
    destruct (match_codes (q_hashes q) (x :: l)) as [cs|]; [|apply REV].
    destruct (on_task _ _ _ _) as [[ts db] p] eqn:E. unfold RS. cbn [with_tasks s_tasks].
    eapply (on_task_P SubsR); [|exact E|exact H]. intros t _ _ d t' d' p0 F. eapply process_bytecode_R; exact F.
  - destruct (take_req id (s_reqs s)) as [[q rest]|]; [apply REV|exact H].
Qed.

Lemma shutdown_R s : RS s -> RS (shutdown s).
Proof.
  intros H. unfold shutdown. destruct (map_tasks forward (s_tasks s) (s_db s)) as [[ts db] p] eqn:E.
  unfold RS. cbn [s_tasks].
  match goal with |- Forall SubsR (s_tasks (clean_accounts ?x)) => destruct (clean_accounts_fields x) as [F1 _]; rewrite F1 end.
  cbn [s_tasks]. rewrite Forall_forall. intros t Ht. apply filter_In in Ht. destruct Ht as [Ht _]. revert t Ht. rewrite <- Forall_forall.
  eapply (map_tasks_P SubsR); [|exact E|exact H]. intros t d t' d' p0 F. eapply forward_R; exact F.
Qed.

Lemma reload_chunks : forall l lo, chunks_from lo l ->
  chunks_from lo (map (fun '(n, l') => {| st_next := n; st_last := l'; st_root := 0; st_req := false; st_done := false |})
                      (map (fun st => (st_next st, st_last st)) l)).
Proof.
  induction l as [|st r IH]; intros lo H; [exact I|]. cbn [map chunks_from st_next st_last] in *.
  destruct H as (A & B & C & D). split; [exact A|]. split; [exact B|]. split; [exact C|apply IH; exact D].
Qed.

Lemma reload_R t : SubsR t -> SubsR (load_task (save_task t)).
Proof.
  intros R a l' Hin. cbn [load_task save_task t_subs p_subs] in Hin. rewrite map_map in Hin.
  apply in_map_iff in Hin. destruct Hin as ([a0 l0] & E & Hin). inversion E. subst a l'. clear E.
  apply reload_chunks. apply (R a0 l0 Hin).
Qed.

Lemma start_R c s root :
  (forall ps, s_saved s = Some ps -> exists ts, ps = map save_task ts /\ Forall SubsR ts) -> RS (start c s root).
Proof.
  intros HS. unfold start. apply post_R. unfold RS. cbn [s_tasks].
  destruct (s_saved s) as [ps|].
  - destruct (HS ps eq_refl) as (ts & -> & HR). rewrite Forall_forall in *. intros t Ht.
    rewrite map_map in Ht. apply in_map_iff in Ht. destruct Ht as (t0 & <- & Ht0). apply reload_R. apply HR. exact Ht0.
  - unfold init_tasks. generalize (N.to_nat (c_acc c)), 0, (HSPACE / c_acc c - 1).
    induction n as [|n IH]; intros nx st; cbn [fresh_tasks]; constructor; [intros a l []|apply IH].
Qed.

Lemma step_R c s e : RS s -> sto_ev s e -> ge_ev s e -> RS (step c s e).
Proof.
  intros H SS SG. unfold step. destruct e; try (apply post_R; apply handle_R; assumption).
  - apply start_R. intros ps E. exists (s_tasks (shutdown s)). split; [|apply shutdown_R; exact H].
    destruct (shutdown_ok tg tg_fun c s) as (_ & _ & S3). rewrite S3 in E. inversion E. reflexivity.
  - apply shutdown_R. exact H.
  - exact H.
Qed.

(* storage_trace_sound: the storage-side contract on every accepted storage response of the history:
   [sto_ev] (coverage: only target slots, none missing from the origin, completeness flags) and [ge_ev]
   (for a chunk request, every delivered key is >= the chunk's Next) *)
Fixpoint storage_trace_sound (c : config) (s : syncer) (evs : list event) : Prop :=
  match evs with
  | [] => True
  | e :: r => (sto_ev s e /\ ge_ev s e) /\ storage_trace_sound c (step c s e) r
  end.

Lemma chunks_in : forall l lo st, chunks_from lo l -> In st l -> lo <= st_next st /\ st_next st <= st_last st /\ st_last st <= MAXH.
Proof.
  induction l as [|x r IH]; intros lo st H Hin; [destruct Hin|]. cbn [chunks_from] in H.
  destruct H as (A & B & C & D). destruct Hin as [<-|Hin]; [auto|].
  destruct (IH _ _ D Hin) as (E1 & E2 & E3). repeat split; auto. lia.
Qed.

Lemma chunks_disjoint : forall l1 lo st1 l2 st2,
  chunks_from lo (l1 ++ st1 :: l2) -> In st2 l2 -> st_last st1 < st_next st2.
Proof.
  induction l1 as [|x r IH]; intros lo st1 l2 st2 H Hin; cbn [app chunks_from] in H.
  - destruct H as (_ & _ & _ & D). destruct (chunks_in _ _ _ D Hin). lia.
  - destruct H as (_ & _ & _ & D). eapply IH; eauto.
Qed.

(* ranges_partition, storage chunks, over ALL histories (restarts included): for every live account task and
   every large contract being fetched, the chunk ranges [Next, Last] are well formed, inside the slot space,
   increasing and pairwise disjoint *)
Theorem chunk_ranges_all c root evs :
  storage_trace_sound c (start c fresh root) evs ->
  forall t, In t (s_tasks (run c root evs)) -> forall a l, In (a, l) (t_subs t) ->
    (forall st, In st l -> st_next st <= st_last st /\ st_last st <= MAXH) /\
    (forall l1 st1 l2 st2, l = l1 ++ st1 :: l2 -> In st2 l2 -> st_last st1 < st_next st2).
Proof.
  intros HT. unfold run.
  assert (G : forall evs0 s, RS s -> storage_trace_sound c s evs0 -> RS (fold_left (step c) evs0 s)).
  { induction evs0 as [|e r IH]; intros s H HS; cbn [fold_left]; [exact H|].
    destruct HS as [[S1 S2] S3]. apply IH; [apply step_R; assumption|exact S3]. }
  assert (R0 : RS (start c fresh root)) by (apply start_R; intros ps E; discriminate).
  pose proof (G evs _ R0 HT) as RF. unfold RS in RF. rewrite Forall_forall in RF.
  intros t Ht a l Hin. pose proof (RF t Ht a l Hin) as CF. split.
  - intros st Hst. destruct (chunks_in _ _ _ CF Hst) as (_ & A & B). auto.
  - intros l1 st1 l2 st2 E Hin2. subst l. eapply chunks_disjoint; eauto.
Qed.

End Complete.

(* ---------------------------------------------------------------- the storage hypotheses are satisfiable *)
Definition ex_ST (h : N) : list (N * bytes) := if h =? 7 then [(1, [42]); (2, [43])] else [].

Lemma ex_ST_fun : forall h k v v', In (k, v) (ex_ST h) -> In (k, v') (ex_ST h) -> v = v'.
Proof.
  intros h k v v' H1 H2. unfold ex_ST in *. destruct (h =? 7); [|destruct H1].
  cbn [In] in *. destruct H1 as [E1|[E1|[]]]; destruct H2 as [E2|[E2|[]]]; inversion E1; inversion E2; subst; try reflexivity; lia.
Qed.

Lemma ex_ST_empty : forall h a, In (h, a) ex_tg -> a_root a = EMPTY_ROOT -> ex_ST h = [].
Proof.
  intros h a H R. unfold ex_tg in H. cbn [In] in H. unfold ex_ST.
  destruct H as [E|[E|[E|[]]]]; inversion E; subst.
  - reflexivity.
  - exfalso. vm_compute in R. discriminate.
  - destruct (ex_hi =? 7) eqn:Q; [|reflexivity]. apply N.eqb_eq in Q. rewrite ex_hi_val in Q. discriminate.
Qed.

Lemma ex_ST_bound : forall h k v, In (k, v) (ex_ST h) -> k <= MAXH.
Proof.
  intros h k v H. unfold ex_ST in H. destruct (h =? 7); [|destruct H]. cbn [In] in H.
  destruct H as [E|[E|[]]]; inversion E; subst; apply N.leb_le; vm_compute; reflexivity.
Qed.

Lemma ex_sto_trace : sto_trace ex_ST ex_cfg (start ex_cfg fresh 1) ex_sound_events.
Proof.
  unfold ex_sound_events. cbn [sto_trace].
  split; [exact I|split; [exact I|split; [exact I|split; [|split; [exact I|split; exact I]]]]].
  cbn [sto_ev]. intros q rest t TR EK Hin EL.
  vm_compute in TR. inversion TR. subst q rest. clear TR.
  cbn [q_accounts q_sub]. split; [exact I|].
  intros i a r slots H1 H2. destruct i as [|i]; cbn [nth_error] in H1, H2; [|destruct i; discriminate].
  inversion H1. inversion H2. subst a r slots. clear H1 H2.
  split.
  - intros k v Hk. unfold ex_ST. cbn. exact Hk.
  - intros o HO. cbn [evorig] in HO. subst o. split.
    + intros k v Hk _ _. unfold ex_ST in Hk. cbn in Hk. exact Hk.
    + intros _ k v Hk _. unfold ex_ST in Hk. cbn in Hk. exact Hk.
Qed.

Lemma ex_storage_trace_sound : storage_trace_sound ex_ST ex_cfg (start ex_cfg fresh 1) ex_sound_events.
Proof.
  pose proof ex_sto_trace as H. unfold ex_sound_events in *. cbn [sto_trace storage_trace_sound] in *.
  destruct H as (H1 & H2 & H3 & H4 & H5 & H6 & _).
  repeat (split; [split; [assumption|]|]); try exact I.
  cbn [ge_ev]. intros q rest t sa sl TR EK Hin EL ES. vm_compute in TR. inversion TR. subst q rest.
  cbn [q_sub] in ES. discriminate.
Qed.
