(* Net/SnapSyncRanges.v — range bookkeeping of the snap/1 syncer model (Net/SnapSync.v),
   account level: per-task invariant [W], the per-operation transition property [TP]
   (Last fixed, Next monotone, every target key leaving the pending range is in the flat
   state, nothing already stored is lost), lifted to task lists and to all event histories. *)
From GV Require Import Lib.Tactics Net.SnapSync Net.SnapSyncProofs.
Local Open Scope N_scope.

Lemma HSPACE_pos : 0 < HSPACE.
Proof. vm_compute. reflexivity. Qed.
Lemma MAXH_succ : MAXH + 1 = HSPACE.
Proof. vm_compute. reflexivity. Qed.

Lemma inc_hash_lt k : k < MAXH -> inc_hash k = k + 1.
Proof. intros H. unfold inc_hash. destruct (k =? MAXH) eqn:E; [apply N.eqb_eq in E; lia|reflexivity]. Qed.

(* ---------------------------------------------------------------- sorted key lists *)
Fixpoint incr (lo : N) (items : list (N * acct)) : Prop :=
  match items with
  | [] => True
  | (k, _) :: r => lo <= k /\ incr (k + 1) r
  end.

Lemma incr_weaken items : forall lo lo', lo' <= lo -> incr lo items -> incr lo' items.
Proof. destruct items as [|[k a] r]; cbn [incr]; intros; [exact I|]. split; [lia|tauto]. Qed.

Lemma incr_ge items : forall lo k a, incr lo items -> In (k, a) items -> lo <= k.
Proof.
  induction items as [|[h b] r IH]; intros lo k a H Hin; [destruct Hin|].
  cbn [incr] in H. destruct H as [H1 H2]. destruct Hin as [E|Hin].
  - inversion E. subst. exact H1.
  - pose proof (IH _ _ _ H2 Hin). lia.
Qed.

Lemma incr_app pre : forall post lo, incr lo (pre ++ post) ->
  incr lo pre /\ forall k a k2 a2, In (k, a) pre -> In (k2, a2) post -> k < k2.
Proof.
  induction pre as [|[h b] r IH]; intros post lo H; cbn [app incr] in *.
  - split; [exact I|]. intros k a k2 a2 [].
  - destruct H as [H1 H2]. destruct (IH _ _ H2) as [I1 I2]. split; [tauto|].
    intros k a k2 a2 [E|Hin] Hp.
    + inversion E. subst.
      assert (k + 1 <= k2).
      { apply (incr_ge (r ++ post) (k + 1) k2 a2 H2). apply in_or_app. right. exact Hp. }
      lia.
    + eapply I2; eauto.
Qed.

Lemma last_or_nil {A} (l : list A) : l = [] \/ exists l' a, l = l' ++ [a].
Proof.
  induction l as [|x r IH] using rev_ind; [left; reflexivity|right; exists r, x; reflexivity].
Qed.

Section Acc.
Variable tg : list (N * acct).
Hypothesis tg_fun : forall k a a', In (k, a) tg -> In (k, a') tg -> a = a'.

(* ---------------------------------------------------------------- response being filled *)
Record res_sound (next last : N) (res : ares) : Prop := {
  rs_incr : incr next (r_items res);
  rs_in : forall k a, In (k, a) (r_items res) -> In (k, a) tg /\ k <= last;
  rs_full : forall k a, In (k, a) tg -> next <= k ->
            (exists k' a', In (k', a') (r_items res) /\ k <= k') -> In (k, a) (r_items res);
  rs_end : r_cont res = false -> forall k a, In (k, a) tg -> next <= k -> k <= last -> In (k, a) (r_items res);
  rs_cont : r_cont res = true -> forall k a, In (k, a) (r_items res) -> k < last }.

Record W (t : atask) : Prop := {
  w_last : t_last t <= MAXH;
  w_live : t_done t = false -> t_next t <= t_last t;
  w_done : t_done t = true -> t_res t = None;
  w_res : forall res, t_res t = Some res -> res_sound (t_next t) (t_last t) res }.

Definition pendb (t : atask) (k : N) : bool :=
  negb (t_done t) && (t_next t <=? k) && (k <=? t_last t).
Definition blob_in (db : store) (k : N) (a : acct) : Prop := get k (d_acc db) = Some (a_blob a).

Record TP (t : atask) (db : store) (t' : atask) (db' : store) : Prop := {
  tp_last : t_last t' = t_last t;
  tp_mono : forall k a, In (k, a) tg -> blob_in db k a -> blob_in db' k a;
  tp_cov : forall k a, In (k, a) tg -> pendb t k = true -> pendb t' k = false -> blob_in db' k a;
  tp_next : t_done t' = false -> t_done t = false /\ t_next t <= t_next t' }.

Lemma TP_refl t db : TP t db t db.
Proof.
  split; auto.
  - intros k a _ H1 H2. rewrite H1 in H2. discriminate.
  - intros H. split; [exact H|lia].
Qed.

Lemma TP_trans t1 d1 t2 d2 t3 d3 : TP t1 d1 t2 d2 -> TP t2 d2 t3 d3 -> TP t1 d1 t3 d3.
Proof.
  intros A B. split.
  - rewrite (tp_last _ _ _ _ B). apply (tp_last _ _ _ _ A).
  - intros k a Hin H. apply (tp_mono _ _ _ _ B _ _ Hin). apply (tp_mono _ _ _ _ A _ _ Hin). exact H.
  - intros k a Hin H1 H3. destruct (pendb t2 k) eqn:E2.
    + apply (tp_cov _ _ _ _ B _ _ Hin E2 H3).
    + apply (tp_mono _ _ _ _ B _ _ Hin). apply (tp_cov _ _ _ _ A _ _ Hin H1 E2).
  - intros H. destruct (tp_next _ _ _ _ B H) as [H2 L2]. destruct (tp_next _ _ _ _ A H2) as [H1 L1].
    split; [exact H1|lia].
Qed.

Definition same_core (t t' : atask) : Prop :=
  t_next t' = t_next t /\ t_last t' = t_last t /\ t_res t' = t_res t /\ t_done t' = t_done t.

Lemma same_core_refl t : same_core t t.
Proof. unfold same_core. auto. Qed.
Lemma same_core_trans a b c : same_core a b -> same_core b c -> same_core a c.
Proof. unfold same_core. intros (A1 & A2 & A3 & A4) (B1 & B2 & B3 & B4). repeat split; congruence. Qed.
Lemma same_core_aux t subs cp rq pend nc ns ct stt : same_core t (set_aux t subs cp rq pend nc ns ct stt).
Proof. unfold same_core. cbn [set_aux t_next t_last t_res t_done]. auto. Qed.

Lemma W_same t t' : same_core t t' -> W t -> W t'.
Proof.
  intros (E1 & E2 & E3 & E4) [A B C D]. split; rewrite ?E1, ?E2, ?E3, ?E4; auto.
Qed.

Lemma pendb_same t t' k : same_core t t' -> pendb t' k = pendb t k.
Proof. intros (E1 & E2 & E3 & E4). unfold pendb. rewrite E1, E2, E4. reflexivity. Qed.

Lemma TP_same t db t' db' : same_core t t' -> d_acc db' = d_acc db -> TP t db t' db'.
Proof.
  intros SC E. pose proof SC as (E1 & E2 & E3 & E4). split.
  - exact E2.
  - intros k a _ H. unfold blob_in in *. rewrite E. exact H.
  - intros k a _ H1 H2. rewrite (pendb_same _ _ k SC) in H2. rewrite H1 in H2. discriminate.
  - intros H. rewrite E4 in H. split; [exact H|lia].
Qed.

(* ---------------------------------------------------------------- forwardAccountTask *)
(* the items persisted by one forward: the longest prefix whose flags are both clear *)
Fixpoint pre_of (items : list (N * acct)) (nc ns : list bool) : list (N * acct) :=
  match items, nc, ns with
  | (h, a) :: r, c :: nc', s :: ns' => if c || s then [] else (h, a) :: pre_of r nc' ns'
  | _, _, _ => []
  end.

Definition put_items (l : list (N * acct)) (db : store) : store :=
  fold_left (fun d '(h, a) => put_acc h (a_blob a) d) l db.

Lemma pre_of_prefix items : forall nc ns, exists post, items = pre_of items nc ns ++ post.
Proof.
  induction items as [|[h a] r IH]; intros nc ns; cbn [pre_of].
  - exists []. reflexivity.
  - destruct nc as [|c nc']; [exists ((h, a) :: r); reflexivity|].
    destruct ns as [|s ns']; [exists ((h, a) :: r); reflexivity|].
    destruct (c || s); [exists ((h, a) :: r); reflexivity|].
    destruct (IH nc' ns') as [post E]. exists post. cbn [app]. rewrite <- E. reflexivity.
Qed.

Lemma write_prefix_db items : forall nc ns db db' p,
  write_prefix items nc ns db = (db', p) -> db' = put_items (pre_of items nc ns) db.
Proof.
  induction items as [|[h a] r IH]; intros nc ns db db' p H; cbn [write_prefix pre_of] in *.
  - inversion H. reflexivity.
  - destruct nc as [|c nc']; [inversion H; reflexivity|].
    destruct ns as [|s ns']; [inversion H; reflexivity|].
    destruct (c || s); [inversion H; reflexivity|].
    cbn [put_items fold_left]. apply IH in H. exact H.
Qed.

Lemma advance_next items : forall nc ns next cp next' cp' al,
  advance items nc ns next cp = (next', cp', al) ->
  next' = fold_left (fun _ '(h, _) => inc_hash h) (pre_of items nc ns) next /\
  (al = true -> pre_of items nc ns = items) /\
  (al = false -> pre_of items nc ns <> items).
Proof.
  induction items as [|[h a] r IH]; intros nc ns next cp next' cp' al H; cbn [advance pre_of] in *.
  - inversion H. subst. repeat split; auto. discriminate.
  - destruct nc as [|c nc']; [inversion H; subst; repeat split; try discriminate; auto|].
    destruct ns as [|s ns']; [inversion H; subst; repeat split; try discriminate; auto|].
    destruct (c || s); [inversion H; subst; repeat split; try discriminate; auto|].
    destruct (IH _ _ _ _ _ _ _ H) as (E1 & E2 & E3). cbn [fold_left]. repeat split.
    + exact E1.
    + intros A. rewrite (E2 A). reflexivity.
    + intros A Q. inversion Q. apply (E3 A). assumption.
Qed.

Lemma put_items_other l : forall db k, (forall h a, In (h, a) l -> h <> k) ->
  get k (d_acc (put_items l db)) = get k (d_acc db).
Proof.
  induction l as [|[h a] r IH]; intros db k H; cbn [put_items fold_left]; [reflexivity|].
  change (fold_left _ r ?d) with (put_items r d). rewrite IH.
  - cbn [put_acc d_acc]. rewrite get_put. destruct (k =? h) eqn:E; [|reflexivity].
    apply N.eqb_eq in E. subst. exfalso. apply (H h a); [left; reflexivity|reflexivity].
  - intros h0 a0 Hin. apply (H h0 a0). right. exact Hin.
Qed.

Lemma put_items_written l : forall lo db k a, incr lo l -> In (k, a) l -> blob_in (put_items l db) k a.
Proof.
  induction l as [|[h b] r IH]; intros lo db k a HI Hin; [destruct Hin|].
  cbn [incr] in HI. destruct HI as [H1 H2]. cbn [put_items fold_left].
  change (fold_left _ r ?d) with (put_items r d).
  destruct Hin as [E|Hin].
  - inversion E. subst. unfold blob_in. rewrite put_items_other.
    + cbn [put_acc d_acc]. rewrite get_put, N.eqb_refl. reflexivity.
    + intros h0 a0 Hin0 Q. subst. pose proof (incr_ge _ _ _ _ H2 Hin0). lia.
  - eapply IH; eauto.
Qed.

Lemma put_items_mono l : forall db k a,
  (forall h b, In (h, b) l -> In (h, b) tg) -> In (k, a) tg -> blob_in db k a -> blob_in (put_items l db) k a.
Proof.
  induction l as [|[h b] r IH]; intros db k a HT Hin H; cbn [put_items fold_left]; [exact H|].
  change (fold_left _ r ?d) with (put_items r d). apply IH; [intros; apply HT; right; assumption|exact Hin|].
  unfold blob_in in *. cbn [put_acc d_acc]. rewrite get_put. destruct (k =? h) eqn:E; [|exact H].
  apply N.eqb_eq in E. subst. rewrite (tg_fun _ _ _ Hin (HT h b (or_introl eq_refl))). reflexivity.
Qed.

Lemma fold_next_last (l : list (N * acct)) : forall next kp (ap : acct),
  fold_left (fun (_ : N) '(h, _) => inc_hash h) (l ++ [(kp, ap)]) next = inc_hash kp.
Proof. intros. rewrite fold_left_app. reflexivity. Qed.

Lemma W_fwd t n cp d : W t -> t_done t = false -> (d = false -> n <= t_last t) -> W (set_core t n None cp d).
Proof.
  intros HW LIVE HN. split; cbn [set_core t_last t_next t_res t_done].
  - apply (w_last _ HW).
  - exact HN.
  - reflexivity.
  - discriminate.
Qed.

Lemma TP_fwd t db n cp d db' :
  t_done t = false ->
  (forall k a, In (k, a) tg -> blob_in db k a -> blob_in db' k a) ->
  t_next t <= n ->
  (forall k a, In (k, a) tg -> t_next t <= k -> k <= t_last t -> (d = true \/ k < n) -> blob_in db' k a) ->
  TP t db (set_core t n None cp d) db'.
Proof.
  intros LIVE MONO NN COV. split; cbn [set_core t_last t_next t_res t_done].
  - reflexivity.
  - exact MONO.
  - intros k a Hin H1 H2. unfold pendb in *. cbn [set_core t_last t_next t_done] in H2.
    rewrite LIVE in H1. cbn [negb andb] in H1.
    apply andb_true_iff in H1. destruct H1 as [H1a H1b]. apply N.leb_le in H1a. apply N.leb_le in H1b.
    apply COV; auto. destruct d; [left; reflexivity|right]. cbn [negb andb] in H2.
    apply andb_false_iff in H2. destruct H2 as [H2|H2]; apply N.leb_gt in H2; lia.
  - intros _. split; [exact LIVE|exact NN].
Qed.

Lemma forward_TP t db t' db' p : W t -> forward t db = (t', db', p) -> W t' /\ TP t db t' db'.
Proof.
  intros HW H. unfold forward in H.
  destruct (t_res t) as [res|] eqn:ER.
  2:{ inversion H. subst. split; [exact HW|apply TP_refl]. }
  pose proof (w_res _ HW _ ER) as RS.
  assert (LIVE : t_done t = false).
  { destruct (t_done t) eqn:E; [|reflexivity]. rewrite (w_done _ HW E) in ER. discriminate. }
  destruct (write_prefix _ _ _ _) as [d1 p1] eqn:WP.
  pose proof (write_prefix_db _ _ _ _ _ _ WP) as ED. subst d1.
  set (pre := pre_of (r_items res) (t_needCode t) (t_needState t)) in *.
  destruct (pre_of_prefix (r_items res) (t_needCode t) (t_needState t)) as [post EI]. fold pre in EI.
  pose proof (rs_incr _ _ _ RS) as INC. rewrite EI in INC.
  destruct (incr_app _ _ _ INC) as [IPRE SEP].
  assert (PT : forall h b, In (h, b) pre -> In (h, b) tg).
  { intros h b Hin. apply (rs_in _ _ _ RS). rewrite EI. apply in_or_app. left. exact Hin. }
  assert (MONO : forall k a, In (k, a) tg -> blob_in db k a -> blob_in (put_items pre db) k a).
  { intros. apply put_items_mono; assumption. }
  destruct p1.
  { (* flags shorter than the items: panic, nothing but the writes *)
    inversion H. subst. split.
    - apply W_fwd; [exact HW|exact LIVE|intros _; apply (w_live _ HW LIVE)].
    - apply TP_fwd; [exact LIVE|exact MONO|lia|].
      intros k a _ A _ [Q|Q]; [rewrite LIVE in Q; discriminate|lia]. }
  destruct (advance _ _ _ _ _) as [[n cp] al] eqn:AD.
  destruct (advance_next _ _ _ _ _ _ _ _ AD) as (EN & EA & ENA). fold pre in EN, EA, ENA.
  (* the new marker *)
  assert (NX : (pre = [] /\ n = t_next t) \/
               (exists l kp ap, pre = l ++ [(kp, ap)] /\ n = inc_hash kp /\ t_next t <= kp /\ kp <= t_last t)).
  { destruct (last_or_nil pre) as [E|E].
    - left. rewrite E in EN. cbn in EN. auto.
    - right. destruct E as (l & [kp ap] & E). exists l, kp, ap. rewrite E in EN. rewrite fold_next_last in EN.
      repeat split; auto.
      + apply (incr_ge pre (t_next t) kp ap IPRE). rewrite E. apply in_or_app. right. left. reflexivity.
      + apply (rs_in _ _ _ RS kp ap). rewrite EI, E. apply in_or_app. left. apply in_or_app. right. left. reflexivity. }
  (* every target key up to the last persisted key is persisted *)
  assert (COVPRE : forall l kp ap, pre = l ++ [(kp, ap)] -> forall k a, In (k, a) tg -> t_next t <= k -> k <= kp ->
                   blob_in (put_items pre db) k a).
  { intros l kp ap E k a Hin L1 L2.
    assert (INI : In (k, a) (r_items res)).
    { apply (rs_full _ _ _ RS k a Hin L1). exists kp, ap. split; [|exact L2].
      rewrite EI, E. apply in_or_app. left. apply in_or_app. right. left. reflexivity. }
    rewrite EI in INI. apply in_app_or in INI. destruct INI as [INI|INI].
    - eapply put_items_written; eauto.
    - exfalso. assert (kp < k); [|lia]. apply (SEP kp ap k a); [|exact INI].
      rewrite E. apply in_or_app. right. left. reflexivity. }
  (* a live successor: when the last persisted key is strictly below Last *)
  assert (LIVECASE : (forall l kp ap, pre = l ++ [(kp, ap)] -> kp < t_last t) ->
            n <= t_last t /\ t_next t <= n /\
            forall k a, In (k, a) tg -> t_next t <= k -> k < n -> blob_in (put_items pre db) k a).
  { intros BL. destruct NX as [[E ->]|(l & kp & ap & E & -> & L1 & L2)].
    - split; [apply (w_live _ HW LIVE)|]. split; [lia|]. intros. lia.
    - pose proof (BL l kp ap E). pose proof (w_last _ HW). rewrite inc_hash_lt by lia.
      split; [lia|]. split; [lia|]. intros k a Hin A B. apply (COVPRE l kp ap E k a Hin A). lia. }
  destruct al.
  - (* the whole response was persisted *)
    specialize (EA eq_refl). assert (post = []).
    { rewrite EA in EI. rewrite <- (app_nil_r (r_items res)) in EI at 1. apply app_inv_head in EI. auto. }
    subst post. rewrite app_nil_r in EI.
    inversion H. subst t' db' p. clear H.
    destruct (r_cont res) eqn:EC; cbn [negb].
    + (* continuation: the task stays live *)
      destruct LIVECASE as (N1 & N2 & N3).
      { intros l kp ap E. apply (rs_cont _ _ _ RS EC kp ap). rewrite EI, E. apply in_or_app. right. left. reflexivity. }
      split.
      * apply W_fwd; [exact HW|exact LIVE|intros _; exact N1].
      * apply TP_fwd; [exact LIVE|exact MONO|exact N2|].
        intros k a Hin A B [Q|Q]; [discriminate|apply N3; assumption].
    + (* no continuation: the task is done, its whole range is in the flat state *)
      assert (N2 : t_next t <= n \/ True) by (right; exact I).
      split.
      * apply W_fwd; [exact HW|exact LIVE|discriminate].
      * split; cbn [set_core t_last t_next t_res t_done]; auto; try discriminate.
        intros k a Hin H1 _. unfold pendb in H1. rewrite LIVE in H1. cbn [negb andb] in H1.
        apply andb_true_iff in H1. destruct H1 as [H1a H1b]. apply N.leb_le in H1a. apply N.leb_le in H1b.
        eapply put_items_written; [exact IPRE|]. rewrite <- EI.
        apply (rs_end _ _ _ RS EC k a Hin H1a H1b).
  - (* stopped at an account that still needs code or storage *)
    specialize (ENA eq_refl). inversion H. subst t' db' p. clear H.
    destruct post as [|[k2 a2] post'].
    { exfalso. rewrite app_nil_r in EI. apply ENA. symmetry. exact EI. }
    destruct LIVECASE as (N1 & N2 & N3).
    { intros l kp ap E.
      assert (kp < k2).
      { apply (SEP kp ap k2 a2); [rewrite E; apply in_or_app; right; left; reflexivity|left; reflexivity]. }
      assert (k2 <= t_last t).
      { apply (rs_in _ _ _ RS k2 a2). rewrite EI. apply in_or_app. right. left. reflexivity. }
      lia. }
    split.
    + apply W_fwd; [exact HW|exact LIVE|intros _; exact N1].
    + apply TP_fwd; [exact LIVE|exact MONO|exact N2|].
      intros k a Hin A B [Q|Q]; [rewrite LIVE in Q; discriminate|apply N3; assumption].
Qed.

Lemma TP_nld t db t' db' :
  t_next t' = t_next t -> t_last t' = t_last t -> t_done t' = t_done t -> d_acc db' = d_acc db -> TP t db t' db'.
Proof.
  intros E1 E2 E4 E. split.
  - exact E2.
  - intros k a _ H. unfold blob_in in *. rewrite E. exact H.
  - intros k a _ H1 H2. unfold pendb in *. rewrite E1, E2, E4 in H2. rewrite H1 in H2. discriminate.
  - intros H. rewrite E4 in H. split; [exact H|lia].
Qed.

(* ---------------------------------------------------------------- processAccountResponse *)
(* the contract of the range verifier (C09) for an accepted account-range response answering a
   request with origin [next]: keys strictly increasing and >= origin, every item is a target item,
   no target key between the origin and the last returned key is missing, and more = false only if
   the target has no key beyond *)
Definition acc_sound (next : N) (items : list (N * acct)) (more : bool) : Prop :=
  incr next items /\
  (forall k a, In (k, a) items -> In (k, a) tg) /\
  (forall k a, In (k, a) tg -> next <= k -> (exists k' a', In (k', a') items /\ k <= k') -> In (k, a) items) /\
  (more = false -> forall k a, In (k, a) tg -> next <= k -> In (k, a) items).

Lemma cut_after last : forall r c, incr (last + 1) r ->
  cut_acc last r c = ([], match r with [] => c | _ => false end).
Proof.
  destruct r as [|[h a] r]; intros c H; cbn [cut_acc]; [reflexivity|].
  cbn [incr] in H. destruct H as [H _].
  destruct (h =? last) eqn:E1; [apply N.eqb_eq in E1; lia|].
  destruct (last <? h) eqn:E2; [reflexivity|apply N.ltb_ge in E2; lia].
Qed.

Lemma cut_spec last : forall items lo cont items' cont',
  incr lo items -> cut_acc last items cont = (items', cont') ->
  incr lo items' /\ (forall k a, In (k, a) items' <-> (In (k, a) items /\ k <= last)) /\
  cont' = (if existsb (fun '(k, _) => last <=? k) items then false else cont).
Proof.
  induction items as [|[h a] r IH]; intros lo cont items' cont' HI H; cbn [cut_acc] in H.
  - inversion H. subst. split; [exact I|]. split; [|reflexivity]. intros; split; [intros []|intros [[] _]].
  - cbn [incr] in HI. destruct HI as [H1 H2]. cbn [existsb].
    destruct (h =? last) eqn:E1.
    + apply N.eqb_eq in E1. subst h. rewrite (cut_after last r false H2) in H.
      cbv beta iota zeta in H. inversion H. subst. rewrite N.leb_refl. cbn [orb].
      split; [cbn [incr]; auto|]. split; [|reflexivity].
      intros k a0; split.
      * intros [E|[]]. inversion E. subst. split; [left; reflexivity|lia].
      * intros [[E|Hin] L]; [left; exact E|]. pose proof (incr_ge _ _ _ _ H2 Hin). lia.
    + apply N.eqb_neq in E1. destruct (last <? h) eqn:E2.
      * apply N.ltb_lt in E2. inversion H. subst.
        assert (EL : (last <=? h) = true) by (apply N.leb_le; lia). rewrite EL. cbn [orb].
        split; [exact I|]. split; [|reflexivity]. intros k a0; split; [intros []|].
        intros [[E|Hin] L]; [inversion E; subst; lia|]. pose proof (incr_ge _ _ _ _ H2 Hin). lia.
      * apply N.ltb_ge in E2. destruct (cut_acc last r cont) as [r' c'] eqn:EC. inversion H. subst.
        destruct (IH _ _ _ _ H2 EC) as (I1 & I2 & I3).
        assert (EL : (last <=? h) = false) by (apply N.leb_gt; lia). rewrite EL. cbn [orb].
        split; [cbn [incr]; auto|]. split; [|exact I3].
        intros k a0; split.
        -- intros [E|Hin]; [inversion E; subst; split; [left; reflexivity|lia]|].
           apply I2 in Hin. split; [right|]; tauto.
        -- intros [[E|Hin] L]; [left; exact E|right; apply I2; auto].
Qed.

Lemma process_account_TP t items more db t' db' p :
  W t -> t_done t = false -> acc_sound (t_next t) items more ->
  process_account t items more db = (t', db', p) -> W t' /\ TP t db t' db'.
Proof.
  intros HW LIVE (S1 & S2 & S3 & S4) H. unfold process_account in H.
  destruct (cut_acc (t_last t) items more) as [items' cont'] eqn:EC.
  destruct (cut_spec _ _ _ _ _ _ S1 EC) as (C1 & C2 & C3).
  set (c := classify _ _ _ _) in H.
  match type of H with context [set_core ?x ?n ?r ?cp ?dn] => set (t1 := set_core x n r cp dn) in H end.
  assert (W1 : W t1).
  { split; unfold t1; cbn [set_core set_aux t_last t_next t_res t_done].
    - apply (w_last _ HW).
    - intros _. apply (w_live _ HW LIVE).
    - intros Q. rewrite LIVE in Q. discriminate.
    - intros res E. inversion E. subst res. split; cbn [r_items r_cont].
      + exact C1.
      + intros k a Hin. apply C2 in Hin. split; [apply S2|]; tauto.
      + intros k a Hin L (k' & a' & Hin' & L'). apply C2 in Hin'. destruct Hin' as [Hin' L2].
        apply C2. split; [|lia]. apply S3; auto. exists k', a'. auto.
      + intros EC0 k a Hin L1 L2. apply C2. split; [|exact L2]. rewrite C3 in EC0.
        destruct (existsb _ items) eqn:EX.
        * apply existsb_exists in EX. destruct EX as ([k0 a0] & Hin0 & L0). apply N.leb_le in L0.
          apply S3; auto. exists k0, a0. split; [exact Hin0|lia].
        * apply S4; auto.
      + intros EC0 k a Hin. rewrite C3 in EC0. destruct (existsb _ items) eqn:EX; [discriminate|].
        apply C2 in Hin. destruct Hin as [Hin _].
        destruct (t_last t <=? k) eqn:EL; [|apply N.leb_gt in EL; exact EL].
        exfalso. assert (EX' : existsb (fun '(k1, _) => t_last t <=? k1) items = true).
        { apply existsb_exists. exists (k, a). split; [exact Hin|exact EL]. }
        congruence. }
  assert (T1 : TP t db t1 db) by (apply TP_nld; reflexivity).
  destruct (cl_pend c =? 0)%Z.
  - destruct (forward t1 db) as [[t2 db2] p2] eqn:F. inversion H. subst.
    destruct (forward_TP _ _ _ _ _ W1 F) as [W2 T2]. split; [exact W2|eapply TP_trans; eauto].
  - inversion H. subst. auto.
Qed.

(* ---------------------------------------------------------------- the other operations *)
Inductive reach : atask -> store -> atask -> store -> Prop :=
| R_aux t db t' db' : same_core t t' -> d_acc db' = d_acc db -> reach t db t' db'
| R_fwd t db t' db' p : forward t db = (t', db', p) -> reach t db t' db'
| R_trans t1 d1 t2 d2 t3 d3 : reach t1 d1 t2 d2 -> reach t2 d2 t3 d3 -> reach t1 d1 t3 d3.

Lemma reach_TP t db t' db' : reach t db t' db' -> W t -> W t' /\ TP t db t' db'.
Proof.
  induction 1 as [t db t' db' SC E|t db t' db' p F|t1 d1 t2 d2 t3 d3 R1 IH1 R2 IH2]; intros HW.
  - split; [eapply W_same; eauto|apply TP_same; assumption].
  - eapply forward_TP; eauto.
  - destruct (IH1 HW) as [W2 T1]. destruct (IH2 W2) as [W3 T2]. split; [exact W3|eapply TP_trans; eauto].
Qed.

Lemma reach_refl t db : reach t db t db.
Proof. apply R_aux; [apply same_core_refl|reflexivity]. Qed.

Lemma revert_reach q t db t' db' p : revert q t db = (t', db', p) -> reach t db t' db'.
Proof.
  unfold revert. destruct (q_kind q).
  - intros H. inversion H. subst. apply R_aux; [apply same_core_aux|reflexivity].
  - intros H. inversion H. subst. apply R_aux; [apply same_core_aux|reflexivity].
  - destruct (q_sub q) as [[sa sl]|]; intros H; inversion H; subst; (apply R_aux; [apply same_core_aux|reflexivity]).
Qed.

Lemma process_codes_acc hashes : forall codes items nc pend ct db nc' pend' ct' db',
  process_codes hashes codes items nc pend ct db = (nc', pend', ct', db') -> d_acc db' = d_acc db.
Proof.
  induction hashes as [|h hr IH]; intros codes items nc pend ct db nc' pend' ct' db' H; cbn [process_codes] in H.
  - inversion H. reflexivity.
  - destruct codes as [|oc cr]; [inversion H; reflexivity|].
    destruct oc as [c|].
    + destruct (clear_code h items nc pend) as [nc1 pend1]. apply IH in H. rewrite H. reflexivity.
    + eapply IH; eauto.
Qed.

Lemma process_bytecode_reach t hashes codes db t' db' p :
  process_bytecode t hashes codes db = (t', db', p) -> reach t db t' db'.
Proof.
  unfold process_bytecode. destruct (t_res t) as [res|].
  - destruct (process_codes _ _ _ _ _ _ _) as [[[nc pend] ct] d1] eqn:PC.
    pose proof (process_codes_acc _ _ _ _ _ _ _ _ _ _ _ PC) as EA.
    match goal with |- context [set_aux ?a ?b ?c ?d ?e ?f ?g ?h ?i] => set (t1 := set_aux a b c d e f g h i) end.
    assert (R1 : reach t db t1 d1) by (apply R_aux; [apply same_core_aux|exact EA]).
    destruct (pend =? 0)%Z.
    + intros H. eapply R_trans; [exact R1|eapply R_fwd; exact H].
    + intros H. inversion H. subst. exact R1.
  - destruct (existsb _ codes); intros H; inversion H; subst.
    + apply reach_refl.
    + apply R_aux; [apply same_core_aux|reflexivity].
Qed.

Lemma write_slots_acc a l : forall db, d_acc (write_slots a l db) = d_acc db.
Proof.
  unfold write_slots. induction l as [|[k v] r IH]; intros db; cbn [fold_left]; [reflexivity|].
  rewrite IH. reflexivity.
Qed.

Definition sps_core (t0 : atask) (db0 : store) (s : sps) : Prop :=
  same_core t0 (sp_t s) /\ d_acc (sp_db s) = d_acc db0.

Lemma storage_one_core c n i account root set t0 db0 s :
  sps_core t0 db0 s -> sps_core t0 db0 (storage_one c n i account root set s).
Proof.
  intros [SC EA]. unfold storage_one. destruct set as [slots|].
  2:{ split; cbn [sp_t sp_db]; [eapply same_core_trans; [exact SC|apply same_core_aux]|exact EA]. }
  destruct (t_res (sp_t s)) as [res|]; [|split; assumption].
  destruct (find_idx account (r_items res) 0) as [[j acc]|].
  2:{ split; cbn [sp_t sp_db]; [exact SC|rewrite write_slots_acc; exact EA]. }
  destruct (nth_error (t_needState (sp_t s)) j) as [nsj|]; [|split; assumption].
  cbv zeta.
  set (t1 := storage_A _ _ _ _ _ _ _).
  assert (S1 : same_core t0 t1).
  { unfold t1, storage_A. destruct (_ && _ && _); [eapply same_core_trans; [exact SC|apply same_core_aux]|exact SC]. }
  destruct (storage_C _ _ _ _ _ _ _ _) as [[t2 sub2] p2] eqn:EX.
  assert (S2 : same_core t0 t2).
  { unfold storage_C in EX. destruct (sp_sub s) as [sb|].
    - inversion EX. subst. exact S1.
    - destruct (_ && _).
      + destruct (get account (t_subs t1)).
        * inversion EX. subst. exact S1.
        * destruct (make_chunks _ _ _) as [tasks|]; inversion EX; subst;
            [eapply same_core_trans; [exact S1|apply same_core_aux]|exact S1].
      + inversion EX. subst. exact S1. }
  unfold storage_D. destruct sub2 as [[sa sl]|].
  - cbv zeta. match goal with |- context [let '(f, p3) := ?X in _] => destruct X as [f p3] end.
    split; cbn [sp_t sp_db]; [eapply same_core_trans; [exact S2|apply same_core_aux]|rewrite write_slots_acc; exact EA].
  - split; cbn [sp_t sp_db]; [exact S2|rewrite write_slots_acc; exact EA].
Qed.

Lemma storage_loop_core c n t0 db0 : forall accounts sets i s,
  sps_core t0 db0 s -> sps_core t0 db0 (storage_loop c n i accounts sets s).
Proof.
  induction accounts as [|[a r] ar IH]; intros sets i s OK; cbn [storage_loop]; [exact OK|].
  destruct sets as [|x sr]; apply IH; apply storage_one_core; exact OK.
Qed.

Lemma process_storage_reach c t accounts sub sets cont db t' db' p :
  process_storage c t accounts sub sets cont db = (t', db', p) -> reach t db t' db'.
Proof.
  unfold process_storage.
  set (t0 := match sub with Some _ => _ | None => t end).
  assert (S0 : same_core t t0).
  { unfold t0. destruct sub as [[sa sl]|]; [apply same_core_aux|apply same_core_refl]. }
  set (s := storage_loop _ _ _ _ _ _).
  assert (OK : sps_core t db s).
  { unfold s. apply storage_loop_core. split; cbn [sp_t sp_db]; [exact S0|reflexivity]. }
  destruct OK as [SC EA].
  assert (R1 : reach t db (sp_t s) (sp_db s)) by (apply R_aux; assumption).
  destruct (t_pend (sp_t s) =? 0)%Z.
  - destruct (forward (sp_t s) (sp_db s)) as [[t2 db2] p2] eqn:F. intros H. inversion H. subst.
    eapply R_trans; [exact R1|eapply R_fwd; exact F].
  - intros H. inversion H. subst. exact R1.
Qed.

Lemma clean_subs_reach subs : forall t db panic t' db' p,
  clean_subs subs t db panic = (t', db', p) -> reach t db t' db'.
Proof.
  induction subs as [|[account l] r IH]; intros t db panic t' db' p H; cbn [clean_subs] in H.
  - inversion H. subst. apply reach_refl.
  - destruct (filter _ l) as [|x l'].
    + destruct (t_res t) as [res|].
      * match type of H with context [set_aux ?a ?b ?c ?d ?e ?f ?g ?h ?i] => set (t1 := set_aux a b c d e f g h i) in H end.
        assert (R1 : reach t db t1 db) by (apply R_aux; [apply same_core_aux|reflexivity]).
        destruct (t_pend t1 =? 0)%Z.
        -- destruct (forward t1 db) as [[t2 db2] p2] eqn:F.
           eapply R_trans; [exact R1|]. eapply R_trans; [eapply R_fwd; exact F|]. eapply IH; exact H.
        -- eapply R_trans; [exact R1|eapply IH; exact H].
      * eapply IH; exact H.
    + eapply R_trans; [|eapply IH; exact H]. apply R_aux; [apply same_core_aux|reflexivity].
Qed.

(* ---------------------------------------------------------------- task lists *)
Inductive lift : list atask -> store -> list atask -> store -> Prop :=
| L_nil db : lift [] db [] db
| L_cons t db t' d1 r r' d2 :
    (W t -> W t' /\ TP t db t' d1) -> lift r d1 r' d2 -> lift (t :: r) db (t' :: r') d2.

Lemma lift_refl ts db : lift ts db ts db.
Proof.
  induction ts as [|t r IH]; [constructor|].
  econstructor; [intros HW; split; [exact HW|apply TP_refl]|exact IH].
Qed.

Lemma map_tasks_lift f :
  (forall t db t' db' p, f t db = (t', db', p) -> W t -> W t' /\ TP t db t' db') ->
  forall ts db ts' db' p, map_tasks f ts db = (ts', db', p) -> lift ts db ts' db'.
Proof.
  intros Hf. induction ts as [|t r IH]; intros db ts' db' p H; cbn [map_tasks] in H.
  - inversion H. constructor.
  - destruct (f t db) as [[t1 d1] p1] eqn:F. destruct (map_tasks f r d1) as [[r1 d2] p2] eqn:M.
    inversion H. subst. econstructor; [eapply Hf; exact F|eapply IH; exact M].
Qed.

Definition all_live (ts : list atask) : Prop := Forall (fun t => t_done t = false) ts.

Lemma on_task_lift last f :
  (forall t db t' db' p, f t db = (t', db', p) -> W t -> t_done t = false -> W t' /\ TP t db t' db') ->
  forall ts db ts' db' p, all_live ts -> on_task last f ts db = (ts', db', p) -> lift ts db ts' db'.
Proof.
  intros Hf. induction ts as [|t r IH]; intros db ts' db' p AL H; cbn [on_task] in H.
  - inversion H. constructor.
  - inversion AL as [|? ? Lt Lr]. subst. destruct (t_last t =? last).
    + destruct (f t db) as [[t1 d1] p1] eqn:F. inversion H. subst.
      econstructor; [intros HW; eapply Hf; eauto|apply lift_refl].
    + destruct (on_task last f r db) as [[r1 d1] p1] eqn:M. inversion H. subst.
      econstructor; [intros HW; split; [exact HW|apply TP_refl]|eapply IH; eauto].
Qed.

Lemma lift_W ts db ts' db' : lift ts db ts' db' -> Forall W ts -> Forall W ts'.
Proof.
  induction 1 as [|t db t' d1 r r' d2 Ht L IH]; intros HA; [constructor|].
  inversion HA as [|? ? Wt Wr]. subst. constructor; [apply (Ht Wt)|apply IH; exact Wr].
Qed.

Lemma lift_mono ts db ts' db' : lift ts db ts' db' -> Forall W ts ->
  forall k a, In (k, a) tg -> blob_in db k a -> blob_in db' k a.
Proof.
  induction 1 as [|t db t' d1 r r' d2 Ht L IH]; intros HA k a Hin H; [exact H|].
  inversion HA as [|? ? Wt Wr]. subst. apply IH; auto. apply (tp_mono _ _ _ _ (proj2 (Ht Wt)) _ _ Hin H).
Qed.

Fixpoint ranges_from (lo : N) (ts : list atask) : Prop :=
  match ts with
  | [] => True
  | t :: r => (t_done t = false -> lo <= t_next t) /\ lo <= t_last t + 1 /\ ranges_from (t_last t + 1) r
  end.

Lemma lift_ranges ts db ts' db' : lift ts db ts' db' -> Forall W ts ->
  forall lo, ranges_from lo ts -> ranges_from lo ts'.
Proof.
  induction 1 as [|t db t' d1 r r' d2 Ht L IH]; intros HA lo HR; [exact I|].
  inversion HA as [|? ? Wt Wr]. subst. destruct (Ht Wt) as [Wt' T]. cbn [ranges_from] in *.
  destruct HR as (R1 & R2 & R3). rewrite (tp_last _ _ _ _ T). split; [|split; [exact R2|apply IH; assumption]].
  intros LV. destruct (tp_next _ _ _ _ T LV) as [LV0 LE]. specialize (R1 LV0). lia.
Qed.

Definition cover (ts : list atask) (db : store) : Prop :=
  forall k a, In (k, a) tg -> (forall t, In t ts -> pendb t k = false) -> blob_in db k a.

Lemma lift_cover ts db ts' db' : lift ts db ts' db' -> Forall W ts ->
  forall pre, cover (pre ++ ts) db -> cover (pre ++ ts') db'.
Proof.
  induction 1 as [|t db t' d1 r r' d2 Ht L IH]; intros HA pre HC; [exact HC|].
  inversion HA as [|? ? Wt Wr]. subst. destruct (Ht Wt) as [Wt' T].
  replace (pre ++ t' :: r') with ((pre ++ [t']) ++ r') by (rewrite <- app_assoc; reflexivity).
  apply IH; [exact Wr|]. rewrite <- app_assoc. cbn [app].
  intros k a Hin HP. destruct (pendb t k) eqn:EP.
  - apply (tp_cov _ _ _ _ T _ _ Hin EP). apply HP. apply in_or_app. right. left. reflexivity.
  - apply (tp_mono _ _ _ _ T _ _ Hin). apply HC; [exact Hin|]. intros u Hu.
    apply in_app_or in Hu. destruct Hu as [Hu|[Hu|Hu]].
    + apply HP. apply in_or_app. left. exact Hu.
    + subst u. exact EP.
    + apply HP. apply in_or_app. right. right. exact Hu.
Qed.

(* Next only moves forward: every live task afterwards was a live task before, same Last, Next not smaller *)
Definition mono_rel (ts ts' : list atask) : Prop :=
  forall t', In t' ts' -> t_done t' = false ->
  exists t, In t ts /\ t_last t = t_last t' /\ t_done t = false /\ t_next t <= t_next t'.

Lemma mono_rel_refl ts : mono_rel ts ts.
Proof. intros t Hin LV. exists t. repeat split; auto. lia. Qed.

Lemma mono_rel_trans a b c : mono_rel a b -> mono_rel b c -> mono_rel a c.
Proof.
  intros A B t3 H3 L3. destruct (B t3 H3 L3) as (t2 & H2 & E2 & L2 & N2).
  destruct (A t2 H2 L2) as (t1 & H1 & E1 & L1 & N1). exists t1. repeat split; auto; [congruence|lia].
Qed.

Lemma lift_mono_rel ts db ts' db' : lift ts db ts' db' -> Forall W ts -> mono_rel ts ts'.
Proof.
  induction 1 as [|t db t' d1 r r' d2 Ht L IH]; intros HA; [apply mono_rel_refl|].
  inversion HA as [|? ? Wt Wr]. subst. destruct (Ht Wt) as [Wt' T].
  intros u [E|Hu] LV.
  - subst u. destruct (tp_next _ _ _ _ T LV) as [LV0 LE]. exists t. repeat split; auto.
    + left. reflexivity.
    + symmetry. apply (tp_last _ _ _ _ T).
  - destruct (IH Wr u Hu LV) as (t0 & H0 & E0 & L0 & N0). exists t0. repeat split; auto. right. exact H0.
Qed.

Lemma lift_lasts ts db ts' db' : lift ts db ts' db' -> Forall W ts -> map t_last ts' = map t_last ts.
Proof.
  induction 1 as [|t db t' d1 r r' d2 Ht L IH]; intros HA; [reflexivity|].
  inversion HA as [|? ? Wt Wr]. subst. cbn [map]. rewrite (tp_last _ _ _ _ (proj2 (Ht Wt))), (IH Wr). reflexivity.
Qed.

(* a list changed only in auxiliary fields *)
Lemma same_core_lift ts ts' db : Forall2 same_core ts ts' -> lift ts db ts' db.
Proof.
  induction 1 as [|t t' r r' SC F IH]; [constructor|]. econstructor; [|exact IH].
  intros HW. split; [eapply W_same; eauto|apply TP_same; [exact SC|reflexivity]].
Qed.

(* ---------------------------------------------------------------- the syncer *)
Variable c : config.

(* the range of a task lies inside the chunk it was created with *)
Definition in_chunk (t : atask) : Prop :=
  exists t0, In t0 (init_tasks c) /\ t_last t0 = t_last t /\ (t_done t = false -> t_next t0 <= t_next t).

Record gi (ts : list atask) (db : store) : Prop := {
  gi_W : Forall W ts;
  gi_ranges : ranges_from 0 ts;
  gi_cover : cover ts db;
  gi_chunk : Forall in_chunk ts }.

Definition trans_ok (ts : list atask) (db : store) (ts' : list atask) (db' : store) : Prop :=
  gi ts db -> gi ts' db' /\ mono_rel ts ts'.

Lemma trans_ok_refl ts db : trans_ok ts db ts db.
Proof. intros G. split; [exact G|apply mono_rel_refl]. Qed.

Lemma trans_ok_trans t1 d1 t2 d2 t3 d3 : trans_ok t1 d1 t2 d2 -> trans_ok t2 d2 t3 d3 -> trans_ok t1 d1 t3 d3.
Proof.
  intros A B G. destruct (A G) as [G2 M1]. destruct (B G2) as [G3 M2]. split; [exact G3|eapply mono_rel_trans; eauto].
Qed.

Lemma lift_chunk ts db ts' db' : lift ts db ts' db' -> Forall W ts -> Forall in_chunk ts -> Forall in_chunk ts'.
Proof.
  induction 1 as [|t db t' d1 r r' d2 Ht L IH]; intros HA HC; [constructor|].
  inversion HA as [|? ? Wt Wr]. inversion HC as [|? ? Ct Cr]. subst. destruct (Ht Wt) as [Wt' T].
  constructor; [|apply IH; assumption].
  destruct Ct as (t0 & I0 & E0 & N0). exists t0. split; [exact I0|]. split; [rewrite (tp_last _ _ _ _ T); exact E0|].
  intros LV. destruct (tp_next _ _ _ _ T LV) as [LV0 LE]. specialize (N0 LV0). lia.
Qed.

Lemma lift_trans_ok ts db ts' db' : lift ts db ts' db' -> trans_ok ts db ts' db'.
Proof.
  intros L [GW GR GC GK]. split; [split|].
  - eapply lift_W; eauto.
  - eapply lift_ranges; eauto.
  - apply (lift_cover _ _ _ _ L GW []). exact GC.
  - eapply lift_chunk; eauto.
  - eapply lift_mono_rel; eauto.
Qed.

Lemma ranges_weaken ts : forall lo lo', lo' <= lo -> ranges_from lo ts -> ranges_from lo' ts.
Proof.
  destruct ts as [|t r]; intros lo lo' L H; [exact I|]. cbn [ranges_from] in *.
  destruct H as (H1 & H2 & H3). split; [intros LV; specialize (H1 LV); lia|]. split; [lia|exact H3].
Qed.

Lemma ranges_filter (f : atask -> bool) ts : forall lo, ranges_from lo ts -> ranges_from lo (filter f ts).
Proof.
  induction ts as [|t r IH]; intros lo H; [exact I|]. cbn [ranges_from filter] in *.
  destruct H as (H1 & H2 & H3). destruct (f t).
  - cbn [ranges_from]. split; [exact H1|]. split; [exact H2|apply IH; exact H3].
  - apply IH. eapply ranges_weaken; [|exact H3]. exact H2.
Qed.

Lemma filter_live_trans_ok ts db : trans_ok ts db (filter (fun t => negb (t_done t)) ts) db.
Proof.
  intros [GW GR GC GK]. split; [split|].
  - rewrite Forall_forall in *. intros t Ht. apply filter_In in Ht. apply GW. tauto.
  - apply ranges_filter. exact GR.
  - intros k a Hin HP. apply GC; [exact Hin|]. intros t Ht.
    destruct (t_done t) eqn:ED; [unfold pendb; rewrite ED; reflexivity|].
    apply HP. apply filter_In. split; [exact Ht|rewrite ED; reflexivity].
  - rewrite Forall_forall in *. intros t Ht. apply filter_In in Ht. apply GK. tauto.
  - intros t Ht LV. apply filter_In in Ht. exists t. repeat split; try tauto. lia.
Qed.

Lemma filter_live_all ts : all_live (filter (fun t => negb (t_done t)) ts).
Proof.
  unfold all_live. apply Forall_forall. intros t Ht. apply filter_In in Ht. destruct Ht as [_ H].
  destruct (t_done t); [discriminate|reflexivity].
Qed.

(* ---- assignment *)
Lemma assign_acc_core : forall ts id ts' q id', assign_acc ts id = (ts', q, id') -> Forall2 same_core ts ts'.
Proof.
  induction ts as [|t r IH]; intros id ts' q id' H; cbn [assign_acc] in H.
  - inversion H. constructor.
  - destruct (negb (t_req t) && _).
    + destruct (assign_acc r (id + 1)) as [[r1 q1] i1] eqn:E. inversion H. subst.
      constructor; [apply same_core_aux|eapply IH; eauto].
    + destruct (assign_acc r id) as [[r1 q1] i1] eqn:E. inversion H. subst.
      constructor; [apply same_core_refl|eapply IH; eauto].
Qed.

Lemma assign_code_core : forall ts id ts' q id', assign_code ts id = (ts', q, id') -> Forall2 same_core ts ts'.
Proof.
  induction ts as [|t r IH]; intros id ts' q id' H; cbn [assign_code] in H.
  - inversion H. constructor.
  - destruct (t_res t) as [res|].
    + destruct (t_codeTasks t) as [|x l].
      * destruct (assign_code r id) as [[r1 q1] i1] eqn:E. inversion H. subst.
        constructor; [apply same_core_refl|eapply IH; eauto].
      * destruct (assign_code r (id + 1)) as [[r1 q1] i1] eqn:E. inversion H. subst.
        constructor; [apply same_core_aux|eapply IH; eauto].
    + destruct (assign_code r id) as [[r1 q1] i1] eqn:E. inversion H. subst.
      constructor; [apply same_core_refl|eapply IH; eauto].
Qed.

Lemma assign_sto_core : forall ts id ts' q id', assign_sto ts id = (ts', q, id') -> Forall2 same_core ts ts'.
Proof.
  induction ts as [|t r IH]; intros id ts' q id' H; cbn [assign_sto] in H.
  - inversion H. constructor.
  - destruct (t_res t) as [res|].
    + destruct (assign_subs _ _ _ _) as [[subs' q1] id1].
      destruct (match t_stateTasks t with [] => _ | _ => _ end) as [[stt q2] id2].
      destruct (assign_sto r id2) as [[r1 q3] i3] eqn:E. inversion H. subst.
      constructor; [apply same_core_aux|eapply IH; eauto].
    + destruct (assign_sto r id) as [[r1 q1] i1] eqn:E. inversion H. subst.
      constructor; [apply same_core_refl|eapply IH; eauto].
Qed.

Lemma Forall2_same_core_trans a b d : Forall2 same_core a b -> Forall2 same_core b d -> Forall2 same_core a d.
Proof.
  intros H. revert d. induction H as [|x y l l' S F IH]; intros d H2; inversion H2; subst; constructor.
  - eapply same_core_trans; eauto.
  - apply IH. assumption.
Qed.

Lemma same_core_live a b : Forall2 same_core a b -> all_live a -> all_live b.
Proof.
  induction 1 as [|x y l l' (_ & _ & _ & E) F IH]; intros AL; [constructor|].
  inversion AL. subst. constructor; [congruence|apply IH; assumption].
Qed.

Lemma assign_core s : Forall2 same_core (s_tasks s) (s_tasks (assign s)) /\ s_db (assign s) = s_db s.
Proof.
  unfold assign.
  destruct (assign_acc (s_tasks s) (s_nextid s)) as [[ts1 q1] id1] eqn:E1.
  destruct (assign_code ts1 id1) as [[ts2 q2] id2] eqn:E2.
  destruct (assign_sto ts2 id2) as [[ts3 q3] id3] eqn:E3.
  cbn [s_tasks s_db]. split; [|reflexivity].
  eapply Forall2_same_core_trans; [eapply assign_acc_core; eauto|].
  eapply Forall2_same_core_trans; [eapply assign_code_core; eauto|eapply assign_sto_core; eauto].
Qed.

(* ---- the top of the run loop *)
Lemma clean_accounts_fields s :
  s_tasks (clean_accounts s) = filter (fun t => negb (t_done t)) (s_tasks s) /\ s_db (clean_accounts s) = s_db s.
Proof. unfold clean_accounts. destruct (s_tasks s) eqn:E; [rewrite E; auto|]. cbn [s_tasks s_db]. auto. Qed.

Lemma post_ok s : trans_ok (s_tasks s) (s_db s) (s_tasks (post s)) (s_db (post s)) /\ all_live (s_tasks (post s)).
Proof.
  unfold post. destruct (clean_storage (s_tasks s) (s_db s)) as [[ts db] p] eqn:E.
  set (s1 := {| s_tasks := ts; s_reqs := s_reqs s; s_nextid := s_nextid s; s_db := db; s_root := s_root s;
                s_snapped := s_snapped s; s_panic := s_panic s || p; s_saved := s_saved s |}).
  destruct (clean_accounts_fields s1) as [F1 F2].
  destruct (assign_core (clean_accounts s1)) as [A1 A2].
  split.
  - eapply trans_ok_trans.
    + apply lift_trans_ok. unfold clean_storage in E.
      eapply (map_tasks_lift (fun t d => clean_subs (t_subs t) t d false)); [|exact E].
      intros t d t' d' p0 H HW. eapply reach_TP; [eapply clean_subs_reach; exact H|exact HW].
    + eapply trans_ok_trans; [apply (filter_live_trans_ok ts db)|].
      rewrite A2, F2. cbn [s1 s_db]. apply lift_trans_ok. apply same_core_lift.
      rewrite F1 in A1. exact A1.
  - eapply same_core_live; [exact A1|]. rewrite F1. apply filter_live_all.
Qed.

(* ---- events *)
(* the verifier's contract on an ACCEPTED account-range response, against the Next marker of the
   task it fills (= the origin of the request: Next does not move while a request is outstanding) *)
Definition ev_sound (s : syncer) (e : event) : Prop :=
  match e with
  | EAcc id items hp true more =>
      forall q rest t, take_req id (s_reqs s) = Some (q, rest) -> q_kind q = KAcc ->
        In t (s_tasks s) -> t_last t = q_task q -> acc_sound (t_next t) items more
  | _ => True
  end.

Lemma on_task_trans last f ts db ts' db' p :
  all_live ts ->
  (forall t, In t ts -> t_last t = last ->
     forall d t' d' p0, f t d = (t', d', p0) -> W t -> t_done t = false -> W t' /\ TP t d t' d') ->
  on_task last f ts db = (ts', db', p) -> trans_ok ts db ts' db'.
Proof.
  intros AL Hf H. apply lift_trans_ok. revert db ts' db' p AL Hf H.
  induction ts as [|t r IH]; intros db ts' db' p AL Hf H; cbn [on_task] in H.
  - inversion H. constructor.
  - inversion AL as [|? ? Lt Lr]. subst. destruct (t_last t =? last) eqn:EL.
    + apply N.eqb_eq in EL. destruct (f t db) as [[t1 d1] p1] eqn:F. inversion H. subst.
      econstructor; [intros HW; eapply (Hf t); eauto; left; reflexivity|apply lift_refl].
    + destruct (on_task last f r db) as [[r1 d1] p1] eqn:M. inversion H. subst.
      econstructor; [intros HW; split; [exact HW|apply TP_refl]|].
      eapply IH; eauto. intros u Hu. apply Hf. right. exact Hu.
Qed.

Lemma revert_trans q s ts db p :
  all_live (s_tasks s) ->
  on_task (q_task q) (revert q) (s_tasks s) (s_db s) = (ts, db, p) -> trans_ok (s_tasks s) (s_db s) ts db.
Proof.
  intros AL H. eapply on_task_trans; [exact AL| |exact H].
  intros t _ _ d t' d' p0 F HW _. eapply reach_TP; [eapply revert_reach; exact F|exact HW].
Qed.

Lemma handle_ok s e :
  all_live (s_tasks s) -> ev_sound s e ->
  trans_ok (s_tasks s) (s_db s) (s_tasks (handle c s e)) (s_db (handle c s e)).
Proof.
  intros AL SND. unfold handle.
  assert (REV : forall q rest,
    trans_ok (s_tasks s) (s_db s)
      (s_tasks (with_tasks s rest (on_task (q_task q) (revert q) (s_tasks s) (s_db s))))
      (s_db (with_tasks s rest (on_task (q_task q) (revert q) (s_tasks s) (s_db s))))).
  { intros q rest. destruct (on_task _ _ _ _) as [[ts db] p] eqn:E. cbn [with_tasks s_tasks s_db].
    eapply revert_trans; eauto. }
  destruct e as [id items hp ok more|id sets hp lm ok more|id codes|id|root| |]; try apply trans_ok_refl.
  - destruct (take_req id (s_reqs s)) as [[q rest]|] eqn:TR; [|apply trans_ok_refl].
    destruct (q_kind q) eqn:EK; try apply trans_ok_refl.
    destruct (_ || negb ok) eqn:EB; [apply REV|].
    apply orb_false_iff in EB. destruct EB as [_ EB]. apply negb_false_iff in EB. subst ok.
    destruct (on_task _ _ _ _) as [[ts db] p] eqn:E. cbn [with_tasks s_tasks s_db].
    eapply on_task_trans; [exact AL| |exact E].
    intros t Hin EL d t' d' p0 F HW LV. eapply process_account_TP; [exact HW|exact LV| |exact F].
    cbn [ev_sound] in SND. eapply SND; eauto.
  - destruct (take_req id (s_reqs s)) as [[q rest]|] eqn:TR; [|apply trans_ok_refl].
    destruct (q_kind q) eqn:EK; try apply trans_ok_refl.
    destruct (_ || negb ok) eqn:EB; [apply REV|].
    destruct (on_task _ _ _ _) as [[ts db] p] eqn:E. cbn [with_tasks s_tasks s_db].
    eapply on_task_trans; [exact AL| |exact E].
    intros t _ _ d t' d' p0 F HW _. eapply reach_TP; [eapply process_storage_reach; exact F|exact HW].
  - destruct (take_req id (s_reqs s)) as [[q rest]|] eqn:TR; [|apply trans_ok_refl].
    destruct (q_kind q) eqn:EK; try apply trans_ok_refl.
    destruct codes as [|x l]; [apply REV|].
    destruct (match_codes (q_hashes q) (x :: l)) as [cs|]; [|apply REV].
    destruct (on_task _ _ _ _) as [[ts db] p] eqn:E. cbn [with_tasks s_tasks s_db].
    eapply on_task_trans; [exact AL| |exact E].
    intros t _ _ d t' d' p0 F HW _. eapply reach_TP; [eapply process_bytecode_reach; exact F|exact HW].
  - destruct (take_req id (s_reqs s)) as [[q rest]|] eqn:TR; [apply REV|apply trans_ok_refl].
Qed.

Lemma shutdown_ok s :
  trans_ok (s_tasks s) (s_db s) (s_tasks (shutdown s)) (s_db (shutdown s)) /\ all_live (s_tasks (shutdown s)) /\
  s_saved (shutdown s) = Some (map save_task (s_tasks (shutdown s))).
Proof.
  unfold shutdown. destruct (map_tasks forward (s_tasks s) (s_db s)) as [[ts db] p] eqn:E.
  set (s1 := {| s_tasks := ts; s_reqs := []; s_nextid := s_nextid s; s_db := db; s_root := s_root s;
                s_snapped := s_snapped s; s_panic := s_panic s || p; s_saved := s_saved s |}).
  destruct (clean_accounts_fields s1) as [F1 F2]. cbn [s_tasks s_db s_saved].
  split; [|split; [rewrite F1; apply filter_live_all|reflexivity]].
  eapply trans_ok_trans.
  - apply lift_trans_ok. eapply (map_tasks_lift forward); [|exact E].
    intros t d t' d' p0 H HW. eapply forward_TP; eauto.
  - rewrite F1, F2. cbn [s1 s_tasks s_db]. apply filter_live_trans_ok.
Qed.

(* reload from the persisted progress *)
Lemma reload_lift ts db : all_live ts -> lift ts db (map load_task (map save_task ts)) db.
Proof.
  induction ts as [|t r IH]; intros AL; cbn [map]; [constructor|].
  inversion AL as [|? ? Lt Lr]. subst. econstructor; [|apply IH; exact Lr].
  intros HW. split.
  - split; cbn [load_task save_task t_last t_next t_res t_done p_next p_last].
    + apply (w_last _ HW).
    + intros _. apply (w_live _ HW Lt).
    + reflexivity.
    + discriminate.
  - apply TP_nld; cbn [load_task save_task t_last t_next t_done p_next p_last]; auto.
Qed.

Lemma reload_live ts : all_live (map load_task ts).
Proof. unfold all_live. apply Forall_forall. intros t Ht. apply in_map_iff in Ht. destruct Ht as (x & <- & _). reflexivity. Qed.

Definition start_tasks (s : syncer) : list atask :=
  match s_saved s with Some ps => map load_task ps | None => init_tasks c end.

Lemma start_post s root :
  trans_ok (start_tasks s) (s_db s) (s_tasks (start c s root)) (s_db (start c s root)) /\
  all_live (s_tasks (start c s root)).
Proof.
  unfold start. fold (start_tasks s).
  match goal with |- context [post ?x] => destruct (post_ok x) as [P1 P2] end.
  cbn [s_tasks s_db] in P1. split; [exact P1|exact P2].
Qed.

(* ---------------------------------------------------------------- the initial chunks *)
Hypothesis tg_bound : forall k a, In (k, a) tg -> k <= MAXH.
Hypothesis cfg_ok : 1 <= c_acc c /\ c_acc c <= HSPACE.

Definition mk_task (next last : N) : atask :=
  {| t_next := next; t_last := last; t_subs := []; t_completed := []; t_req := false;
     t_res := None; t_pend := 0%Z; t_needCode := []; t_needState := []; t_codeTasks := [];
     t_stateTasks := []; t_done := false |}.

Lemma fresh_S n next step :
  fresh_tasks (S n) true next step =
  let last := if (match n with O => true | _ => false end) then MAXH else (next + step) mod HSPACE in
  mk_task next last :: fresh_tasks n true ((last + 1) mod HSPACE) step.
Proof. cbn [fresh_tasks]. rewrite andb_true_r. reflexivity. Qed.

Lemma of_nat_S_mul m b : N.of_nat (S m) * b = N.of_nat m * b + b.
Proof. rewrite Nat2N.inj_succ, N.mul_succ_l. reflexivity. Qed.

Lemma W_mk next last : next <= last -> last <= MAXH -> W (mk_task next last).
Proof.
  intros A B. split; cbn [mk_task t_last t_next t_res t_done]; auto; try discriminate.
Qed.

Lemma fresh_ok : forall n next step,
  next + N.of_nat n * (step + 1) <= HSPACE ->
  Forall W (fresh_tasks n true next step) /\ ranges_from next (fresh_tasks n true next step) /\
  all_live (fresh_tasks n true next step) /\
  (n <> O -> forall k, next <= k -> k <= MAXH ->
     exists t, In t (fresh_tasks n true next step) /\ t_next t <= k /\ k <= t_last t /\ t_done t = false).
Proof.
  pose proof MAXH_succ as MS.
  induction n as [|n IH]; intros next step H.
  - cbn [fresh_tasks]. repeat split; try constructor. intros Q. contradiction.
  - rewrite fresh_S. rewrite of_nat_S_mul in H. destruct n as [|m].
    + cbv zeta. cbn [fresh_tasks]. cbn [N.of_nat N.mul] in H.
      assert (next <= MAXH) by lia.
      split; [|split; [|split]].
      * constructor; [apply W_mk; lia|constructor].
      * cbn [ranges_from mk_task t_next t_last]. split; [intros _; lia|]. split; [lia|exact I].
      * constructor; [reflexivity|constructor].
      * intros _ k A B. exists (mk_task next MAXH). cbn [mk_task t_next t_last t_done]. repeat split; auto. left. reflexivity.
    + cbv zeta. set (X := N.of_nat (S m) * (step + 1)) in *.
      assert (XP : step + 1 <= X) by (unfold X; rewrite of_nat_S_mul; lia).
      assert (E1 : (next + step) mod HSPACE = next + step) by (apply N.mod_small; lia).
      rewrite E1.
      assert (E2 : (next + step + 1) mod HSPACE = next + step + 1) by (apply N.mod_small; lia).
      rewrite E2.
      destruct (IH (next + step + 1) step) as (I1 & I2 & I3 & I4); [fold X; lia|].
      split; [|split; [|split]].
      * constructor; [apply W_mk; lia|exact I1].
      * cbn [ranges_from mk_task t_next t_last]. split; [intros _; lia|]. split; [lia|exact I2].
      * constructor; [reflexivity|exact I3].
      * intros _ k A B. destruct (N.le_gt_cases k (next + step)) as [L|L].
        -- exists (mk_task next (next + step)). cbn [mk_task t_next t_last t_done]. repeat split; auto. left. reflexivity.
        -- destruct (I4 (fun Q => O_S _ (eq_sym Q)) k) as (t & Hin & T1 & T2 & T3); [lia|exact B|].
           exists t. repeat split; auto. right. exact Hin.
Qed.

Lemma init_ok :
  Forall W (init_tasks c) /\ ranges_from 0 (init_tasks c) /\ all_live (init_tasks c) /\
  (forall k, k <= MAXH -> exists t, In t (init_tasks c) /\ t_next t <= k /\ k <= t_last t /\ t_done t = false).
Proof.
  destruct cfg_ok as [C1 C2]. unfold init_tasks.
  assert (D1 : 1 <= HSPACE / c_acc c) by (apply N.div_le_lower_bound; lia).
  assert (D2 : c_acc c * (HSPACE / c_acc c) <= HSPACE) by (apply N.mul_div_le; lia).
  destruct (fresh_ok (N.to_nat (c_acc c)) 0 (HSPACE / c_acc c - 1)) as (I1 & I2 & I3 & I4).
  - rewrite N2Nat.id. replace (HSPACE / c_acc c - 1 + 1) with (HSPACE / c_acc c) by lia. lia.
  - repeat split; auto. intros k B. apply I4; [|lia|exact B]. intros Q.
    assert (c_acc c = 0) by (rewrite <- (N2Nat.id (c_acc c)), Q; reflexivity). lia.
Qed.

Lemma init_gi db : gi (init_tasks c) db.
Proof.
  destruct init_ok as (I1 & I2 & I3 & I4). split; auto.
  - intros k a Hin HP. exfalso. destruct (I4 k (tg_bound _ _ Hin)) as (t & Ht & A & B & D).
    specialize (HP t Ht). unfold pendb in HP. rewrite D in HP. cbn [negb andb] in HP.
    apply andb_false_iff in HP. destruct HP as [HP|HP]; apply N.leb_gt in HP; lia.
  - apply Forall_forall. intros t Ht. exists t. repeat split; auto. lia.
Qed.

(* ---------------------------------------------------------------- all histories *)
Definition Inv (s : syncer) : Prop := gi (s_tasks s) (s_db s) /\ all_live (s_tasks s).

Lemma step_ok s e : Inv s -> ev_sound s e ->
  Inv (step c s e) /\ mono_rel (s_tasks s) (s_tasks (step c s e)).
Proof.
  intros [G AL] SND.
  assert (GEN : forall s1, trans_ok (s_tasks s) (s_db s) (s_tasks s1) (s_db s1) ->
                Inv (post s1) /\ mono_rel (s_tasks s) (s_tasks (post s1))).
  { intros s1 T. destruct (post_ok s1) as [P1 P2].
    destruct (trans_ok_trans _ _ _ _ _ _ T P1 G) as [G2 M]. split; [split; assumption|exact M]. }
  unfold step. destruct e as [id items hp ok more|id sets hp lm ok more|id codes|id|root| |].
  - apply GEN. apply handle_ok; assumption.
  - apply GEN. apply handle_ok; assumption.
  - apply GEN. apply handle_ok; assumption.
  - apply GEN. apply handle_ok; assumption.
  - destruct (shutdown_ok s) as (S1 & S2 & S3).
    destruct (start_post (shutdown s) root) as [P1 P2].
    assert (T : trans_ok (s_tasks s) (s_db s) (start_tasks (shutdown s)) (s_db (shutdown s))).
    { eapply trans_ok_trans; [exact S1|]. unfold start_tasks. rewrite S3.
      apply lift_trans_ok. apply reload_lift. exact S2. }
    destruct (trans_ok_trans _ _ _ _ _ _ T P1 G) as [G2 M]. split; [split; assumption|exact M].
  - destruct (shutdown_ok s) as (S1 & S2 & S3). destruct (S1 G) as [G2 M]. split; [split; assumption|exact M].
  - split; [split; assumption|apply mono_rel_refl].
Qed.

Fixpoint trace_sound (s : syncer) (evs : list event) : Prop :=
  match evs with
  | [] => True
  | e :: r => ev_sound s e /\ trace_sound (step c s e) r
  end.

Lemma run_from_inv : forall evs s, Inv s -> trace_sound s evs ->
  Inv (fold_left (step c) evs s) /\ mono_rel (s_tasks s) (s_tasks (fold_left (step c) evs s)).
Proof.
  induction evs as [|e r IH]; intros s HI HT; cbn [fold_left].
  - split; [exact HI|apply mono_rel_refl].
  - destruct HT as [H1 H2]. destruct (step_ok s e HI H1) as [I1 M1].
    destruct (IH _ I1 H2) as [I2 M2]. split; [exact I2|eapply mono_rel_trans; eauto].
Qed.

Lemma start_inv root : Inv (start c fresh root).
Proof.
  destruct (start_post fresh root) as [P1 P2]. unfold start_tasks in P1. cbn [fresh s_saved s_db] in P1.
  destruct (P1 (init_gi empty_store)) as [G _]. split; assumption.
Qed.

Lemma trace_sound_app : forall evs1 evs2 s,
  trace_sound s (evs1 ++ evs2) -> trace_sound s evs1 /\ trace_sound (fold_left (step c) evs1 s) evs2.
Proof.
  induction evs1 as [|e r IH]; intros evs2 s H; cbn [app fold_left trace_sound] in *.
  - split; [exact I|exact H].
  - destruct H as [H1 H2]. destruct (IH _ _ H2) as [A B]. split; [split; assumption|exact B].
Qed.

(* ranges_partition (accounts), over all histories *)
Lemma ranges_in : forall ts lo t, ranges_from lo ts -> In t ts -> t_done t = false -> lo <= t_next t.
Proof.
  induction ts as [|x r IH]; intros lo t H Hin LV; [destruct Hin|]. cbn [ranges_from] in H.
  destruct H as (H1 & H2 & H3). destruct Hin as [E|Hin].
  - subst x. apply H1. exact LV.
  - pose proof (IH _ _ H3 Hin LV). lia.
Qed.

Lemma ranges_suffix : forall l1 lo l2, ranges_from lo (l1 ++ l2) -> exists lo', ranges_from lo' l2.
Proof.
  induction l1 as [|x r IH]; intros lo l2 H; cbn [app] in H; [exists lo; exact H|].
  cbn [ranges_from] in H. destruct H as (_ & _ & H3). eapply IH. exact H3.
Qed.

Theorem ranges_partition_acc root evs :
  trace_sound (start c fresh root) evs ->
  let ts := s_tasks (run c root evs) in
  (* every live range is well formed and inside the hash space *)
  (forall t, In t ts -> t_done t = false /\ t_next t <= t_last t /\ t_last t <= MAXH) /\
  (* pairwise disjoint, in increasing order *)
  (forall l1 t1 l2 t2, ts = l1 ++ t1 :: l2 -> In t2 l2 -> t_last t1 < t_next t2) /\
  (* each range is the not yet fetched suffix of one of the initial chunks ... *)
  (forall t, In t ts -> exists t0, In t0 (init_tasks c) /\ t_last t0 = t_last t /\ t_next t0 <= t_next t) /\
  (* ... and the initial chunks are disjoint, increasing, and cover the whole hash space *)
  ranges_from 0 (init_tasks c) /\
  (forall k, k <= MAXH -> exists t0, In t0 (init_tasks c) /\ t_next t0 <= k /\ k <= t_last t0).
Proof.
  intros HT. cbv zeta. unfold run.
  destruct (run_from_inv evs _ (start_inv root) HT) as [[[GW GR GC GK] AL] _].
  destruct init_ok as (I1 & I2 & I3 & I4).
  unfold all_live in AL. rewrite Forall_forall in AL, GW, GK.
  repeat split.
  - apply AL. assumption.
  - apply (w_live _ (GW _ H)). apply AL. assumption.
  - apply (w_last _ (GW _ H)).
  - intros l1 t1 l2 t2 E Hin. rewrite E in GR. destruct (ranges_suffix _ _ _ GR) as [lo' GR'].
    cbn [ranges_from] in GR'. destruct GR' as (_ & _ & R3).
    assert (In t2 (s_tasks (fold_left (step c) evs (start c fresh root)))).
    { rewrite E. apply in_or_app. right. right. exact Hin. }
    pose proof (ranges_in _ _ _ R3 Hin (AL _ H)). lia.
  - intros t Ht. destruct (GK _ Ht) as (t0 & A & B & D). exists t0. repeat split; auto.
  - exact I2.
  - intros k B. destruct (I4 k B) as (t0 & A & L1 & L2 & _). exists t0. auto.
Qed.

(* progress_monotone over histories: after any further events (restarts included) every live task is
   a task that was live before, with the same Last and a Next that is not smaller *)
Theorem progress_monotone root evs1 evs2 :
  trace_sound (start c fresh root) (evs1 ++ evs2) ->
  forall t', In t' (s_tasks (run c root (evs1 ++ evs2))) ->
  exists t, In t (s_tasks (run c root evs1)) /\ t_last t = t_last t' /\ t_next t <= t_next t'.
Proof.
  intros HT t' Hin. unfold run in *. rewrite fold_left_app in Hin.
  destruct (trace_sound_app _ _ _ HT) as [H1 H2].
  destruct (run_from_inv evs1 _ (start_inv root) H1) as [I1 _].
  destruct (run_from_inv evs2 _ I1 H2) as [[_ AL] M].
  unfold all_live in AL. rewrite Forall_forall in AL.
  destruct (M t' Hin (AL _ Hin)) as (t & A & B & _ & D). exists t. auto.
Qed.

(* complete_implies_equal, accounts: when no account task is left, every target account is in the flat
   state with its target body *)
Theorem complete_accounts root evs :
  trace_sound (start c fresh root) evs ->
  s_tasks (run c root evs) = [] ->
  forall k a, In (k, a) tg -> get k (d_acc (s_db (run c root evs))) = Some (a_blob a).
Proof.
  intros HT E k a Hin. unfold run in *.
  destruct (run_from_inv evs _ (start_inv root) HT) as [[[_ _ GC _] _] _].
  apply GC; [exact Hin|]. rewrite E. intros t [].
Qed.

(* restart_resumes: cancelling and starting again from the persisted progress gives a state that
   satisfies the same invariant, holds exactly the persisted markers as its progress record, and
   has lost no progress *)
Theorem restart_resumes s root' :
  Inv s ->
  s_saved (shutdown s) = Some (map save_task (s_tasks (shutdown s))) /\
  Inv (start c (shutdown s) root') /\
  mono_rel (s_tasks s) (s_tasks (start c (shutdown s) root')).
Proof.
  intros HI. destruct (shutdown_ok s) as (_ & _ & S3). split; [exact S3|].
  apply (step_ok s (ERestart root') HI I).
Qed.

(* complete_implies_equal, accounts, both directions: with the soundness direction of the verifier's
   contract on every accepted response of the history (items are target items), the flat account
   state at completion is exactly the target *)
Theorem complete_accounts_equal root evs :
  trace_sound (start c fresh root) evs ->
  (forall e k v, In e evs -> ev_acc e k v -> exists a, In (k, a) tg /\ a_blob a = v) ->
  s_tasks (run c root evs) = [] ->
  forall k v, get k (d_acc (s_db (run c root evs))) = Some v <-> exists a, In (k, a) tg /\ a_blob a = v.
Proof.
  intros HT HA E k v. split.
  - intros H. destruct (only_verified_stored c root evs) as (A & _ & _).
    destruct (A _ _ H) as (e & Hin & He). eapply HA; eauto.
  - intros (a & Hin & <-). apply complete_accounts; assumption.
Qed.

Theorem run_inv root evs : trace_sound (start c fresh root) evs -> Inv (run c root evs).
Proof. intros HT. unfold run. apply (run_from_inv evs _ (start_inv root) HT). Qed.

End Acc.
