(* Net/RlpxProofs.v — proofs about the RLPx model Net/Rlpx.v (property C44). *)
From GV Require Import Lib.Tactics Lib.Bytes Lib.BytesProofs Rlp.Item Rlp.Raw Rlp.RawProofs Rlp.Codec Net.Rlpx Net.Aes.
Local Open Scope N_scope.

(* ------------------------------------------------------------------ lists *)
Lemma skipn_skipn' {A} (x y : nat) (l : list A) : skipn x (skipn y l) = skipn (y + x) l.
Proof.
  revert l. induction y as [|y IH]; intros l; [reflexivity|].
  destruct l as [|a l]; [now rewrite !skipn_nil|]. cbn. apply IH.
Qed.

Lemma firstn_app_le {A} (n : nat) (a b : list A) :
  (n <= length a)%nat -> firstn n (a ++ b) = firstn n a.
Proof.
  intros H. rewrite firstn_app. replace (n - length a)%nat with 0%nat by lia.
  cbn. apply app_nil_r.
Qed.

Lemma skipn_app_le {A} (n : nat) (a b : list A) :
  (n <= length a)%nat -> skipn n (a ++ b) = skipn n a ++ b.
Proof.
  intros H. rewrite skipn_app. replace (n - length a)%nat with 0%nat by lia. reflexivity.
Qed.

Lemma firstn_app_exact {A} (a b : list A) : firstn (length a) (a ++ b) = a.
Proof. rewrite firstn_app_le by lia. apply firstn_all. Qed.

Lemma skipn_app_exact {A} (a b : list A) : skipn (length a) (a ++ b) = b.
Proof. rewrite skipn_app_le by lia. rewrite skipn_all. reflexivity. Qed.

Lemma list_eqb_eq (a : list N) : forall b, list_eqb N.eqb a b = true <-> a = b.
Proof.
  induction a as [|x a IH]; intros [|y b]; cbn; try (split; congruence).
  rewrite andb_true_iff, N.eqb_eq, IH. split.
  - intros [-> ->]. reflexivity.
  - intros H. inversion H. auto.
Qed.

Lemma bytes_eqb_refl a : bytes_eqb a a = true.
Proof. apply list_eqb_eq. reflexivity. Qed.

Lemma bytes_eqb_neq a b : a <> b -> bytes_eqb a b = false.
Proof.
  intros H. destruct (bytes_eqb a b) eqn:E; [|reflexivity].
  apply list_eqb_eq in E. contradiction.
Qed.

(* ------------------------------------------------------ io.ReadAtLeast *)
Lemma ral_spec (fr : conn) : forall space need first, (need <= space)%nat ->
  match ral fr space need first with
  | Good (got, fr') =>
      got ++ concat fr' = concat fr /\ (need <= length got)%nat /\ (length got <= space)%nat
  | Bad e => (length (concat fr) < need)%nat /\ (e = EConnEOF \/ e = EConnUnexpectedEOF)
  end.
Proof.
  induction fr as [|f r IH]; intros space need first Hle.
  - destruct need; cbn.
    + repeat split; lia.
    + split; [lia|]. destruct first; auto.
  - destruct need as [|need'].
    + cbn [ral]. split; [reflexivity|]. cbn. lia.
    + cbn [ral]. destruct (Nat.leb_spec (length f) space) as [Hf|Hf].
      * specialize (IH (space - length f)%nat (S need' - length f)%nat
                       (first && (length f =? 0)%nat)%bool ltac:(lia)).
        destruct (ral r (space - length f) (S need' - length f) _) as [[got fr']|e].
        -- destruct IH as (E & H1 & H2). split; [|split].
           ++ cbn [concat]. rewrite <- app_assoc, E. reflexivity.
           ++ rewrite app_length. lia.
           ++ rewrite app_length. lia.
        -- destruct IH as (H1 & H2). split; [|exact H2].
           cbn [concat]. rewrite app_length. lia.
      * split; [|split].
        -- cbn [concat]. rewrite app_assoc, firstn_skipn. reflexivity.
        -- rewrite firstn_length. lia.
        -- rewrite firstn_length. lia.
Qed.

Lemma read_at_least_spec fr space need : (need <= space)%nat ->
  match read_at_least fr space need with
  | Good (got, fr') =>
      got ++ concat fr' = concat fr /\ (need <= length got)%nat /\ (length got <= space)%nat
  | Bad e => (length (concat fr) < need)%nat /\ (e = EConnEOF \/ e = EConnUnexpectedEOF)
  end.
Proof.
  intros H. unfold read_at_least.
  destruct (Nat.ltb_spec space need); [lia|]. apply ral_spec. exact H.
Qed.

(* ------------------------------------------------------------ readBuffer *)
Definition rb_wf (b : rbuf) : Prop :=
  (rb_dlen b <= length (rb_buf b))%nat /\ (length (rb_buf b) <= rb_cap b)%nat.

Lemma rb_empty_wf : rb_wf rb_empty.
Proof. unfold rb_wf, rb_empty. cbn. lia. Qed.

Lemma rb_reset_wf b : rb_wf b -> rb_wf (rb_reset b).
Proof.
  unfold rb_wf, rb_reset. cbn. intros [H1 H2]. rewrite skipn_length. lia.
Qed.

Lemma rb_reset_rem b fr : rb_rem (rb_reset b) fr = rb_rem b fr.
Proof. unfold rb_rem, rb_reset. cbn. reflexivity. Qed.

Section ReadBuffer.
Variable newcap : nat -> nat -> nat.
Hypothesis newcap_ge : forall c n, (c + n <= newcap c n)%nat.

Lemma rb_read_spec b fr n : rb_wf b ->
  match rb_read newcap b fr n with
  | Good (out, b', fr') =>
      (n <= length (rb_rem b fr))%nat /\ out = firstn n (rb_rem b fr) /\
      rb_wf b' /\ rb_rem b' fr' = skipn n (rb_rem b fr)
  | Bad e => (length (rb_rem b fr) < n)%nat /\ (e = EConnEOF \/ e = EConnUnexpectedEOF)
  end.
Proof.
  intros [W1 W2]. unfold rb_read, rb_rem.
  destruct (Nat.leb_spec n (length (rb_buf b) - rb_dlen b)) as [Hn|Hn].
  - cbn [rb_buf rb_dlen rb_cap].
    assert (Hl : (n <= length (skipn (rb_dlen b) (rb_buf b)))%nat)
      by (rewrite skipn_length; lia).
    split; [rewrite app_length; lia|]. split; [now rewrite firstn_app_le|].
    split; [unfold rb_wf; cbn; lia|].
    rewrite skipn_app_le by exact Hl. rewrite skipn_skipn'. reflexivity.
  - remember (n - (length (rb_buf b) - rb_dlen b))%nat as need eqn:Eneed.
    remember (rb_grow newcap b need) as b1 eqn:Eb1.
    assert (Hb1 : rb_buf b1 = rb_buf b /\ rb_dlen b1 = rb_dlen b /\
                  (need <= rb_cap b1 - length (rb_buf b))%nat).
    { rewrite Eb1. unfold rb_grow.
      destruct (Nat.leb_spec need (rb_cap b - length (rb_buf b))); cbn; [auto|].
      repeat split.
      pose proof (newcap_ge (rb_cap b) (need - (rb_cap b - length (rb_buf b)))) as Hg.
      clear - Hg H W2. revert Hg H W2.
      generalize (newcap (rb_cap b) (need - (rb_cap b - length (rb_buf b)))).
      generalize (rb_cap b). generalize (length (rb_buf b)). intros. lia. }
    destruct Hb1 as (E1 & E2 & Hsp). rewrite E1.
    pose proof (read_at_least_spec fr (rb_cap b1 - length (rb_buf b)) need Hsp) as R.
    destruct (read_at_least fr (rb_cap b1 - length (rb_buf b)) need) as [[got fr']|e].
    + destruct R as (E & G1 & G2). cbn [rb_buf rb_dlen rb_cap].
      assert (Hs : skipn (rb_dlen b) (rb_buf b ++ got) = skipn (rb_dlen b) (rb_buf b) ++ got)
        by (apply skipn_app_le; lia).
      assert (Hl : (n <= length (skipn (rb_dlen b) (rb_buf b) ++ got))%nat)
        by (rewrite app_length, skipn_length; lia).
      rewrite <- E. rewrite app_assoc.
      split; [rewrite app_length; clear - Hl; lia|]. split; [rewrite Hs; symmetry; apply firstn_app_le; exact Hl|].
      split; [unfold rb_wf; cbn; rewrite app_length; lia|].
      rewrite (skipn_app_le n (skipn (rb_dlen b) (rb_buf b) ++ got)) by exact Hl.
      rewrite <- Hs, skipn_skipn'. reflexivity.
    + destruct R as (R1 & R2). split; [|exact R2].
      rewrite app_length, skipn_length. lia.
Qed.
End ReadBuffer.

(* ------------------------------------------------------------ arithmetic *)
Lemma read_put_uint24 v tail : v <= max_uint24 -> read_uint24 (put_uint24 v ++ tail) = Some v.
Proof.
  unfold max_uint24, read_uint24, put_uint24. intros H. cbn [app]. f_equal. lia.
Qed.

Lemma be_bytes_small x : x <> 0 -> x < 256 -> be_bytes x = [x].
Proof.
  intros H0 H. rewrite be_bytes_step by exact H0.
  replace (x / 256) with 0 by (symmetry; apply N.div_small; exact H).
  rewrite be_bytes_0. cbn. f_equal. apply N.mod_small. exact H.
Qed.

Lemma int_size_len code : code < 2 ^ 64 -> int_size code = lenN (enc_uint code).
Proof.
  intros Hc. unfold int_size, enc_uint.
  destruct (N.ltb_spec code 128) as [Hs|Hs].
  - destruct (N.eq_dec code 0) as [->|Hn]; [reflexivity|].
    rewrite be_bytes_small by lia. unfold enc_str.
    destruct (N.ltb_spec code 128); [reflexivity|lia].
  - pose proof (be_bytes_len_64 code Hc) as H8.
    assert (Hpos : 1 <= lenN (be_bytes code)) by (apply be_bytes_len_pos; lia).
    destruct (be_bytes code) as [|x [|y l]] eqn:E.
    + unfold lenN in Hpos. cbn in Hpos. lia.
    + assert (x = code).
      { pose proof (be_bytes_decode code) as D. rewrite E, be_decode_single in D. exact D. }
      subst x. unfold enc_str. destruct (N.ltb_spec code 128); [lia|]. reflexivity.
    + unfold enc_str, enc_head.
      destruct (N.ltb_spec (lenN (x :: y :: l)) 56) as [_|H56]; [|lia].
      rewrite lenN_app. unfold lenN at 2. cbn [length]. lia.
Qed.

Lemma pad16_spec f : (f + pad16 f) mod 16 = 0 /\ pad16 f < 16.
Proof.
  unfold pad16. destruct (N.eqb_spec (f mod 16) 0) as [E|E]; split; try lia.
Qed.

(* ================================================================= *)
Section FramingProofs.
Variable cst : Type.
Variable cnext : cst -> N * cst.
Variable hst : Type.
Variable hwrite : hst -> list N -> hst.
Variable hsum : hst -> list N.
Variable blk : list N -> list N.
Variable snappy_enc : list N -> list N.
Variable snappy_declen : list N -> option N.
Variable snappy_dec : list N -> option (list N).
Variable newcap : nat -> nat -> nat.

Local Notation xor_ks := (xor_ks cst cnext).
Local Notation compute_header := (compute_header hst hwrite hsum blk).
Local Notation compute_frame := (compute_frame hst hwrite hsum blk).
Local Notation write_frame := (write_frame cst cnext hst hwrite hsum blk).
Local Notation conn_write := (conn_write cst cnext hst hwrite hsum blk snappy_enc).
Local Notation write_msgs := (write_msgs cst cnext hst hwrite hsum blk snappy_enc).
Local Notation read_frame := (read_frame cst cnext hst hwrite hsum blk newcap).
Local Notation conn_read := (conn_read cst cnext hst hwrite hsum blk snappy_declen snappy_dec newcap).
Local Notation read_until := (read_until cst cnext hst hwrite hsum blk snappy_declen snappy_dec newcap).
Local Notation read_frame_s := (read_frame_s cst cnext hst hwrite hsum blk).
Local Notation conn_read_s := (conn_read_s cst cnext hst hwrite hsum blk snappy_declen snappy_dec).
Local Notation read_until_s := (read_until_s cst cnext hst hwrite hsum blk snappy_declen snappy_dec).
Local Notation mkw := (mkw cst hst).
Local Notation mkr := (mkr cst hst).
Local Notation mks := (mks cst hst).

(* the MAC tag functions of a given hash state *)
Definition header_tag (m : hst) (hc : list N) : list N := snd (compute_header m hc).
Definition frame_tag (m : hst) (fc : list N) : list N := snd (compute_frame m fc).

(* ---- the stream cipher: XOR with the same keystream twice is the identity ---- *)
Lemma xor_ks_length d : forall c, length (fst (xor_ks c d)) = length d.
Proof.
  induction d as [|b d IH]; intros c; cbn [Rlpx.xor_ks]; [reflexivity|].
  destruct (cnext c) as [k c1]. specialize (IH c1).
  destruct (xor_ks c1 d) as [out c2]. cbn in *. congruence.
Qed.

Lemma xor_involutive d : forall c, xor_ks c (fst (xor_ks c d)) = (d, snd (xor_ks c d)).
Proof.
  induction d as [|b d IH]; intros c; cbn [Rlpx.xor_ks]; [reflexivity|].
  destruct (cnext c) as [k c1] eqn:Ec. specialize (IH c1).
  destruct (xor_ks c1 d) as [out c2] eqn:Ed. cbn [fst snd] in *.
  cbn [Rlpx.xor_ks]. rewrite Ec, IH.
  rewrite N.lxor_assoc, N.lxor_nilpotent, N.lxor_0_r. reflexivity.
Qed.

(* ---- the chunked reader computes the stream reader ---- *)
Hypothesis newcap_ge : forall c n, (c + n <= newcap c n)%nat.

Lemma rb_read_take b fr n : rb_wf b ->
  match rb_read newcap b fr n, take_s n (rb_rem b fr) with
  | Good (out, b', fr'), Some (out2, rest) => out = out2 /\ rb_wf b' /\ rb_rem b' fr' = rest
  | Bad e, None => norm_err e = EConnEOF
  | _, _ => False
  end.
Proof.
  intros W. pose proof (rb_read_spec newcap newcap_ge b fr n W) as S. unfold take_s.
  destruct (rb_read newcap b fr n) as [[[out b'] fr']|e].
  - destruct S as (H1 & H2 & H3 & H4).
    destruct (Nat.leb_spec n (length (rb_rem b fr))); [auto|lia].
  - destruct S as (H1 & H2).
    destruct (Nat.leb_spec n (length (rb_rem b fr))); [lia|].
    destruct H2 as [-> | ->]; reflexivity.
Qed.

Definition sim_frame (x : rres (list N * rstate cst hst * conn))
                     (y : rres (list N * sstate cst hst * list N)) : Prop :=
  match x, y with
  | Good (f, r', fr'), Good (f2, s', rest) =>
      f = f2 /\ s' = mks (r_dec _ _ r') (r_mac _ _ r') /\
      rb_wf (r_buf _ _ r') /\ rb_rem (r_buf _ _ r') fr' = rest
  | Bad e, Bad e2 => norm_err e = e2
  | _, _ => False
  end.

Lemma read_frame_stream r fr : rb_wf (r_buf _ _ r) ->
  sim_frame (read_frame r fr)
            (read_frame_s (mks (r_dec _ _ r) (r_mac _ _ r)) (rb_rem (r_buf _ _ r) fr)).
Proof.
  intros W. unfold Rlpx.read_frame, Rlpx.read_frame_s. cbn [s_dec s_mac].
  pose proof (rb_read_take (rb_reset (r_buf _ _ r)) fr 32 (rb_reset_wf _ W)) as T1.
  rewrite rb_reset_rem in T1.
  destruct (rb_read newcap (rb_reset (r_buf _ _ r)) fr 32) as [[[header b1] fr1]|e];
    destruct (take_s 32 (rb_rem (r_buf _ _ r) fr)) as [[h2 s1]|]; try contradiction;
    [|exact T1].
  destruct T1 as (-> & W1 & R1).
  destruct (compute_header (r_mac _ _ r) (firstn 16 h2)) as [m1 want].
  destruct (negb (bytes_eqb want (skipn 16 h2))); [reflexivity|].
  destruct (xor_ks (r_dec _ _ r) (firstn 16 h2)) as [hp c1].
  destruct (read_uint24 hp) as [fsize|]; [|reflexivity].
  pose proof (rb_read_take b1 fr1 (N.to_nat (fsize + pad16 fsize)) W1) as T2. rewrite R1 in T2.
  destruct (rb_read newcap b1 fr1 (N.to_nat (fsize + pad16 fsize))) as [[[fc b2] fr2]|e];
    destruct (take_s (N.to_nat (fsize + pad16 fsize)) s1) as [[fc2 s2]|]; try contradiction;
    [|exact T2].
  destruct T2 as (-> & W2 & R2).
  pose proof (rb_read_take b2 fr2 16 W2) as T3. rewrite R2 in T3.
  destruct (rb_read newcap b2 fr2 16) as [[[fm b3] fr3]|e];
    destruct (take_s 16 s2) as [[fm2 s3]|]; try contradiction; [|exact T3].
  destruct T3 as (-> & W3 & R3).
  destruct (compute_frame m1 fc2) as [m2 wantf].
  destruct (negb (bytes_eqb wantf fm2)); [reflexivity|].
  destruct (xor_ks c1 fc2) as [fp c2]. cbn. auto.
Qed.

Definition sim_msg (x : rres (msg * rstate cst hst * conn))
                   (y : rres (msg * sstate cst hst * list N)) : Prop :=
  match x, y with
  | Good (m, r', fr'), Good (m2, s', rest) =>
      m = m2 /\ s' = mks (r_dec _ _ r') (r_mac _ _ r') /\
      rb_wf (r_buf _ _ r') /\ rb_rem (r_buf _ _ r') fr' = rest
  | Bad e, Bad e2 => norm_err e = e2
  | _, _ => False
  end.

Lemma conn_read_stream sn r fr : rb_wf (r_buf _ _ r) ->
  sim_msg (conn_read sn r fr)
          (conn_read_s sn (mks (r_dec _ _ r) (r_mac _ _ r)) (rb_rem (r_buf _ _ r) fr)).
Proof.
  intros W. unfold Rlpx.conn_read, Rlpx.conn_read_s.
  pose proof (read_frame_stream r fr W) as S. unfold sim_frame in S.
  destruct (read_frame r fr) as [[[f r'] fr']|e];
    destruct (read_frame_s _ _) as [[[f2 s'] rest]|e2]; try contradiction; [|exact S].
  destruct S as (-> & -> & W' & R').
  destruct (split_uint64 f2) as [[code data]|]; [|reflexivity].
  destruct sn; [|cbn; auto].
  destruct (snappy_declen data) as [n|]; [|reflexivity].
  destruct (max_uint24 <? n); [reflexivity|].
  destruct (snappy_dec data); [cbn; auto|reflexivity].
Qed.

Lemma read_until_stream k sn : forall r fr, rb_wf (r_buf _ _ r) ->
  norm_res (read_until k sn r fr) =
  read_until_s k sn (mks (r_dec _ _ r) (r_mac _ _ r)) (rb_rem (r_buf _ _ r) fr).
Proof.
  induction k as [|k IH]; intros r fr W; [reflexivity|].
  cbn [Rlpx.read_until Rlpx.read_until_s].
  pose proof (conn_read_stream sn r fr W) as S. unfold sim_msg in S.
  destruct (conn_read sn r fr) as [[[m r'] fr']|e];
    destruct (conn_read_s _ _ _) as [[[m2 s'] rest]|e2]; try contradiction.
  - destruct S as (-> & -> & W' & R'). specialize (IH r' fr' W'). rewrite R' in IH.
    rewrite <- IH. unfold norm_res.
    destruct (read_until k sn r' fr') as [ms e]. reflexivity.
  - unfold norm_res. cbn. rewrite S. reflexivity.
Qed.

(* parsing is a function of the byte stream: any two fragmentations / buffer
   states holding the same remaining bytes give the same messages and the same
   error class *)
Lemma chunk_independent k sn c m b1 fr1 b2 fr2 :
  rb_wf b1 -> rb_wf b2 -> rb_rem b1 fr1 = rb_rem b2 fr2 ->
  norm_res (read_until k sn (mkr c m b1) fr1) = norm_res (read_until k sn (mkr c m b2) fr2).
Proof.
  intros W1 W2 E. rewrite (read_until_stream k sn (mkr c m b1) fr1 W1).
  rewrite (read_until_stream k sn (mkr c m b2) fr2 W2). cbn. rewrite E. reflexivity.
Qed.
