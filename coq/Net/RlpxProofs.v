(* Net/RlpxProofs.v — proofs about the RLPx model Net/Rlpx.v (property C44). *)
From GV Require Import Lib.Tactics Lib.Bytes Lib.BytesProofs Rlp.Item Rlp.Raw Rlp.RawProofs Rlp.Codec Net.Rlpx Net.Aes.
Local Open Scope N_scope.

(* ------------------------------------------------------------------ lists *)
Lemma skipn_skipn' {A} (x y : nat) (l : list A) : skipn x (skipn y l) = skipn (y + x) l.
Proof.
  revert l. induction y as [|y IH]; intros l; [reflexivity|].
  destruct l as [|a l]; [now rewrite !skipn_nil|]. cbn. apply IH.
Qed.

Lemma firstn_app_le {A} (n : nat) (a b : list A) :
  (n <= length a)%nat -> firstn n (a ++ b) = firstn n a.
Proof.
  intros H. rewrite firstn_app. replace (n - length a)%nat with 0%nat by lia.
  cbn. apply app_nil_r.
Qed.

Lemma skipn_app_le {A} (n : nat) (a b : list A) :
  (n <= length a)%nat -> skipn n (a ++ b) = skipn n a ++ b.
Proof.
  intros H. rewrite skipn_app. replace (n - length a)%nat with 0%nat by lia. reflexivity.
Qed.

Lemma firstn_app_exact {A} (a b : list A) : firstn (length a) (a ++ b) = a.
Proof. rewrite firstn_app_le by lia. apply firstn_all. Qed.

Lemma skipn_app_exact {A} (a b : list A) : skipn (length a) (a ++ b) = b.
Proof. rewrite skipn_app_le by lia. rewrite skipn_all. reflexivity. Qed.

Lemma list_eqb_eq (a : list N) : forall b, list_eqb N.eqb a b = true <-> a = b.
Proof.
  induction a as [|x a IH]; intros [|y b]; cbn; try (split; congruence).
  rewrite andb_true_iff, N.eqb_eq, IH. split.
  - intros [-> ->]. reflexivity.
  - intros H. inversion H. auto.
Qed.

Lemma bytes_eqb_refl a : bytes_eqb a a = true.
Proof. apply list_eqb_eq. reflexivity. Qed.

Lemma bytes_eqb_neq a b : a <> b -> bytes_eqb a b = false.
Proof.
  intros H. destruct (bytes_eqb a b) eqn:E; [|reflexivity].
  apply list_eqb_eq in E. contradiction.
Qed.

(* ------------------------------------------------------ io.ReadAtLeast *)
Lemma ral_spec (fr : conn) : forall space need first, (need <= space)%nat ->
  match ral fr space need first with
  | Good (got, fr') =>
      got ++ concat fr' = concat fr /\ (need <= length got)%nat /\ (length got <= space)%nat
  | Bad e => (length (concat fr) < need)%nat /\ (e = EConnEOF \/ e = EConnUnexpectedEOF)
  end.
Proof.
  induction fr as [|f r IH]; intros space need first Hle.
  - destruct need; cbn.
    + repeat split; lia.
    + split; [lia|]. destruct first; auto.
  - destruct need as [|need'].
    + cbn [ral]. split; [reflexivity|]. cbn. lia.
    + cbn [ral]. destruct (Nat.leb_spec (length f) space) as [Hf|Hf].
      * specialize (IH (space - length f)%nat (S need' - length f)%nat
                       (first && (length f =? 0)%nat)%bool ltac:(lia)).
        destruct (ral r (space - length f) (S need' - length f) _) as [[got fr']|e].
        -- destruct IH as (E & H1 & H2). split; [|split].
           ++ cbn [concat]. rewrite <- app_assoc, E. reflexivity.
           ++ rewrite app_length. lia.
           ++ rewrite app_length. lia.
        -- destruct IH as (H1 & H2). split; [|exact H2].
           cbn [concat]. rewrite app_length. lia.
      * split; [|split].
        -- cbn [concat]. rewrite app_assoc, firstn_skipn. reflexivity.
        -- rewrite firstn_length. lia.
        -- rewrite firstn_length. lia.
Qed.

Lemma read_at_least_spec fr space need : (need <= space)%nat ->
  match read_at_least fr space need with
  | Good (got, fr') =>
      got ++ concat fr' = concat fr /\ (need <= length got)%nat /\ (length got <= space)%nat
  | Bad e => (length (concat fr) < need)%nat /\ (e = EConnEOF \/ e = EConnUnexpectedEOF)
  end.
Proof.
  intros H. unfold read_at_least.
  destruct (Nat.ltb_spec space need); [lia|]. apply ral_spec. exact H.
Qed.

(* ------------------------------------------------------------ readBuffer *)
Definition rb_wf (b : rbuf) : Prop :=
  (rb_dlen b <= length (rb_buf b))%nat /\ (length (rb_buf b) <= rb_cap b)%nat.

Lemma rb_empty_wf : rb_wf rb_empty.
Proof. unfold rb_wf, rb_empty. cbn. lia. Qed.

Lemma rb_reset_wf b : rb_wf b -> rb_wf (rb_reset b).
Proof.
  unfold rb_wf, rb_reset. cbn. intros [H1 H2]. rewrite skipn_length. lia.
Qed.

Lemma rb_reset_rem b fr : rb_rem (rb_reset b) fr = rb_rem b fr.
Proof. unfold rb_rem, rb_reset. cbn. reflexivity. Qed.

Section ReadBuffer.
Variable newcap : nat -> nat -> nat.
Hypothesis newcap_ge : forall c n, (c + n <= newcap c n)%nat.

Lemma rb_read_spec b fr n : rb_wf b ->
  match rb_read newcap b fr n with
  | Good (out, b', fr') =>
      (n <= length (rb_rem b fr))%nat /\ out = firstn n (rb_rem b fr) /\
      rb_wf b' /\ rb_rem b' fr' = skipn n (rb_rem b fr)
  | Bad e => (length (rb_rem b fr) < n)%nat /\ (e = EConnEOF \/ e = EConnUnexpectedEOF)
  end.
Proof.
  intros [W1 W2]. unfold rb_read, rb_rem.
  destruct (Nat.leb_spec n (length (rb_buf b) - rb_dlen b)) as [Hn|Hn].
  - cbn [rb_buf rb_dlen rb_cap].
    assert (Hl : (n <= length (skipn (rb_dlen b) (rb_buf b)))%nat)
      by (rewrite skipn_length; lia).
    split; [rewrite app_length; lia|]. split; [now rewrite firstn_app_le|].
    split; [unfold rb_wf; cbn; lia|].
    rewrite skipn_app_le by exact Hl. rewrite skipn_skipn'. reflexivity.
  - remember (n - (length (rb_buf b) - rb_dlen b))%nat as need eqn:Eneed.
    remember (rb_grow newcap b need) as b1 eqn:Eb1.
    assert (Hb1 : rb_buf b1 = rb_buf b /\ rb_dlen b1 = rb_dlen b /\
                  (need <= rb_cap b1 - length (rb_buf b))%nat).
    { rewrite Eb1. unfold rb_grow.
      destruct (Nat.leb_spec need (rb_cap b - length (rb_buf b))); cbn; [auto|].
      repeat split.
      pose proof (newcap_ge (rb_cap b) (need - (rb_cap b - length (rb_buf b)))) as Hg.
      clear - Hg H W2. revert Hg H W2.
      generalize (newcap (rb_cap b) (need - (rb_cap b - length (rb_buf b)))).
      generalize (rb_cap b). generalize (length (rb_buf b)). intros. lia. }
    destruct Hb1 as (E1 & E2 & Hsp). rewrite E1.
    pose proof (read_at_least_spec fr (rb_cap b1 - length (rb_buf b)) need Hsp) as R.
    destruct (read_at_least fr (rb_cap b1 - length (rb_buf b)) need) as [[got fr']|e].
    + destruct R as (E & G1 & G2). cbn [rb_buf rb_dlen rb_cap].
      assert (Hs : skipn (rb_dlen b) (rb_buf b ++ got) = skipn (rb_dlen b) (rb_buf b) ++ got)
        by (apply skipn_app_le; lia).
      assert (Hl : (n <= length (skipn (rb_dlen b) (rb_buf b) ++ got))%nat)
        by (rewrite app_length, skipn_length; lia).
      rewrite <- E. rewrite app_assoc.
      split; [rewrite app_length; clear - Hl; lia|]. split; [rewrite Hs; symmetry; apply firstn_app_le; exact Hl|].
      split; [unfold rb_wf; cbn; rewrite app_length; lia|].
      rewrite (skipn_app_le n (skipn (rb_dlen b) (rb_buf b) ++ got)) by exact Hl.
      rewrite <- Hs, skipn_skipn'. reflexivity.
    + destruct R as (R1 & R2). split; [|exact R2].
      rewrite app_length, skipn_length. lia.
Qed.
End ReadBuffer.

(* ------------------------------------------------------------ arithmetic *)
Lemma read_put_uint24 v tail : v <= max_uint24 -> read_uint24 (put_uint24 v ++ tail) = Some v.
Proof.
  unfold max_uint24, read_uint24, put_uint24. intros H. cbn [app]. f_equal. lia.
Qed.

Lemma be_bytes_small x : x <> 0 -> x < 256 -> be_bytes x = [x].
Proof.
  intros H0 H. rewrite be_bytes_step by exact H0.
  replace (x / 256) with 0 by (symmetry; apply N.div_small; exact H).
  rewrite be_bytes_0. cbn. f_equal. apply N.mod_small. exact H.
Qed.

Lemma int_size_len code : code < 2 ^ 64 -> int_size code = lenN (enc_uint code).
Proof.
  intros Hc. unfold int_size, enc_uint.
  destruct (N.ltb_spec code 128) as [Hs|Hs].
  - destruct (N.eq_dec code 0) as [->|Hn]; [reflexivity|].
    rewrite be_bytes_small by lia. unfold enc_str.
    destruct (N.ltb_spec code 128); [reflexivity|lia].
  - pose proof (be_bytes_len_64 code Hc) as H8.
    assert (Hpos : 1 <= lenN (be_bytes code)) by (apply be_bytes_len_pos; lia).
    destruct (be_bytes code) as [|x [|y l]] eqn:E.
    + unfold lenN in Hpos. cbn in Hpos. lia.
    + assert (x = code).
      { pose proof (be_bytes_decode code) as D. rewrite E, be_decode_single in D. exact D. }
      subst x. unfold enc_str. destruct (N.ltb_spec code 128); [lia|]. reflexivity.
    + unfold enc_str, enc_head.
      destruct (N.ltb_spec (lenN (x :: y :: l)) 56) as [_|H56]; [|lia].
      rewrite lenN_app. unfold lenN at 2. cbn [length]. lia.
Qed.

Lemma pad16_spec f : (f + pad16 f) mod 16 = 0 /\ pad16 f < 16.
Proof.
  unfold pad16. destruct (N.eqb_spec (f mod 16) 0) as [E|E]; split; try lia.
Qed.

Lemma take_s_app (a b : list N) n : length a = n -> take_s n (a ++ b) = Some (a, b).
Proof.
  intros <-. unfold take_s. rewrite app_length.
  destruct (Nat.leb_spec (length a) (length a + length b)); [|lia].
  rewrite firstn_app_exact, skipn_app_exact. reflexivity.
Qed.

Definition frame_header (fsize : N) : list N := put_uint24 fsize ++ zero_header ++ repeat 0 10.
Definition frame_data (code : N) (data : list N) : list N :=
  enc_uint code ++ data ++ repeat 0 (N.to_nat (pad16 (int_size code + lenN data))).

Lemma frame_header_len f : length (frame_header f) = 16%nat.
Proof. reflexivity. Qed.

Lemma frame_data_len code data : code < 2 ^ 64 ->
  length (frame_data code data) =
  N.to_nat (int_size code + lenN data + pad16 (int_size code + lenN data)).
Proof.
  intros Hc. unfold frame_data. rewrite !app_length, repeat_length.
  rewrite (int_size_len code Hc). unfold lenN. lia.
Qed.

Lemma frame_data_prefix code data : code < 2 ^ 64 ->
  firstn (N.to_nat (int_size code + lenN data)) (frame_data code data) = enc_uint code ++ data.
Proof.
  intros Hc. unfold frame_data. rewrite app_assoc.
  replace (N.to_nat (int_size code + lenN data)) with (length (enc_uint code ++ data)).
  - apply firstn_app_exact.
  - rewrite app_length, (int_size_len code Hc). unfold lenN. lia.
Qed.

(* replace the byte at index i *)
Fixpoint upd (i : nat) (v : N) (l : list N) : list N :=
  match l with
  | [] => []
  | x :: r => match i with O => v :: r | S j => x :: upd j v r end
  end.

Lemma upd_length i v l : length (upd i v l) = length l.
Proof. revert i; induction l as [|x l IH]; intros [|i]; cbn; auto. Qed.

Lemma upd_app_l i v a b : (i < length a)%nat -> upd i v (a ++ b) = upd i v a ++ b.
Proof.
  revert i; induction a as [|x a IH]; intros i H; [cbn in H; lia|].
  destruct i; [reflexivity|]. cbn in H. cbn [app upd]. rewrite IH by lia. reflexivity.
Qed.

Lemma upd_app_r i v a b : (length a <= i)%nat -> upd i v (a ++ b) = a ++ upd (i - length a) v b.
Proof.
  revert i; induction a as [|x a IH]; intros i H.
  - cbn. now rewrite Nat.sub_0_r.
  - destruct i; [cbn in H; lia|]. cbn in H. cbn [app upd length Nat.sub].
    rewrite IH by lia. reflexivity.
Qed.

Lemma upd_neq i v l : (i < length l)%nat -> v <> nth i l 0 -> upd i v l <> l.
Proof.
  revert i; induction l as [|x l IH]; intros i H Hv; cbn in *; [lia|].
  destruct i.
  - intros E. inversion E. contradiction.
  - intros E. inversion E as [E']. revert E'. apply IH; [lia|exact Hv].
Qed.

(* the MAC hypothesis, pointwise: the honest MAC input x has no second preimage
   of the same length under the tag function of the current MAC state *)
Definition second_preimage_free (tag : list N -> list N) (x : list N) : Prop :=
  forall y, length y = length x -> tag y = tag x -> y = x.

(* ================================================================= *)
Section FramingProofs.
Variable cst : Type.
Variable cnext : cst -> N * cst.
Variable hst : Type.
Variable hwrite : hst -> list N -> hst.
Variable hsum : hst -> list N.
Variable blk : list N -> list N.
Variable snappy_enc : list N -> list N.
Variable snappy_declen : list N -> option N.
Variable snappy_dec : list N -> option (list N).
Variable newcap : nat -> nat -> nat.
Collection Vars := cst cnext hst hwrite hsum blk snappy_enc snappy_declen snappy_dec newcap.
Set Default Proof Using "Vars".

Local Notation xor_ks := (xor_ks cst cnext).
Local Notation compute_header := (compute_header hst hwrite hsum blk).
Local Notation compute_frame := (compute_frame hst hwrite hsum blk).
Local Notation write_frame := (write_frame cst cnext hst hwrite hsum blk).
Local Notation conn_write := (conn_write cst cnext hst hwrite hsum blk snappy_enc).
Local Notation write_msgs := (write_msgs cst cnext hst hwrite hsum blk snappy_enc).
Local Notation read_frame := (read_frame cst cnext hst hwrite hsum blk newcap).
Local Notation conn_read := (conn_read cst cnext hst hwrite hsum blk snappy_declen snappy_dec newcap).
Local Notation read_until := (read_until cst cnext hst hwrite hsum blk snappy_declen snappy_dec newcap).
Local Notation read_frame_s := (read_frame_s cst cnext hst hwrite hsum blk).
Local Notation conn_read_s := (conn_read_s cst cnext hst hwrite hsum blk snappy_declen snappy_dec).
Local Notation read_until_s := (read_until_s cst cnext hst hwrite hsum blk snappy_declen snappy_dec).
Local Notation mkw := (mkw cst hst).
Local Notation mkr := (mkr cst hst).
Local Notation mks := (mks cst hst).

(* the MAC tag functions of a given hash state *)
Definition header_tag (m : hst) (hc : list N) : list N := snd (compute_header m hc).
Definition frame_tag (m : hst) (fc : list N) : list N := snd (compute_frame m fc).

(* ---- the stream cipher: XOR with the same keystream twice is the identity ---- *)
Lemma xor_ks_length d : forall c, length (fst (xor_ks c d)) = length d.
Proof using cst cnext.
  try clear newcap_ge; try clear hsum_len; try clear snappy_dec_enc; try clear snappy_declen_enc; try clear cnext_byte; try clear snappy_dec_len.
  induction d as [|b d IH]; intros c; cbn [Rlpx.xor_ks]; [reflexivity|].
  destruct (cnext c) as [k c1]. specialize (IH c1).
  destruct (xor_ks c1 d) as [out c2]. cbn in *. congruence.
Qed.

Lemma xor_involutive d : forall c, xor_ks c (fst (xor_ks c d)) = (d, snd (xor_ks c d)).
Proof using cst cnext.
  try clear newcap_ge; try clear hsum_len; try clear snappy_dec_enc; try clear snappy_declen_enc; try clear cnext_byte; try clear snappy_dec_len.
  induction d as [|b d IH]; intros c; cbn [Rlpx.xor_ks]; [reflexivity|].
  destruct (cnext c) as [k c1] eqn:Ec. specialize (IH c1).
  destruct (xor_ks c1 d) as [out c2] eqn:Ed. cbn [fst snd] in *.
  cbn [Rlpx.xor_ks]. rewrite Ec, IH.
  rewrite N.lxor_assoc, N.lxor_nilpotent, N.lxor_0_r. reflexivity.
Qed.

(* ---- the chunked reader computes the stream reader ---- *)
Hypothesis newcap_ge : forall c n, (c + n <= newcap c n)%nat.

Lemma rb_read_take b fr n : rb_wf b ->
  match rb_read newcap b fr n, take_s n (rb_rem b fr) with
  | Good (out, b', fr'), Some (out2, rest) => out = out2 /\ rb_wf b' /\ rb_rem b' fr' = rest
  | Bad e, None => norm_err e = EConnEOF
  | _, _ => False
  end.
Proof using Vars newcap_ge.
  try clear hsum_len; try clear snappy_dec_enc; try clear snappy_declen_enc; try clear cnext_byte; try clear snappy_dec_len.
  intros W. pose proof (rb_read_spec newcap newcap_ge b fr n W) as S. unfold take_s.
  destruct (rb_read newcap b fr n) as [[[out b'] fr']|e].
  - destruct S as (H1 & H2 & H3 & H4).
    destruct (Nat.leb_spec n (length (rb_rem b fr))); [auto|lia].
  - destruct S as (H1 & H2).
    destruct (Nat.leb_spec n (length (rb_rem b fr))); [lia|].
    destruct H2 as [-> | ->]; reflexivity.
Qed.

Definition sim_frame (x : rres (list N * rstate cst hst * conn))
                     (y : rres (list N * sstate cst hst * list N)) : Prop :=
  match x, y with
  | Good (f, r', fr'), Good (f2, s', rest) =>
      f = f2 /\ s' = mks (r_dec _ _ r') (r_mac _ _ r') /\
      rb_wf (r_buf _ _ r') /\ rb_rem (r_buf _ _ r') fr' = rest
  | Bad e, Bad e2 => norm_err e = e2
  | _, _ => False
  end.

Lemma read_frame_stream r fr : rb_wf (r_buf _ _ r) ->
  sim_frame (read_frame r fr)
            (read_frame_s (mks (r_dec _ _ r) (r_mac _ _ r)) (rb_rem (r_buf _ _ r) fr)).
Proof using Vars newcap_ge.
  try clear hsum_len; try clear snappy_dec_enc; try clear snappy_declen_enc; try clear cnext_byte; try clear snappy_dec_len.
  intros W. unfold Rlpx.read_frame, Rlpx.read_frame_s. cbn [s_dec s_mac].
  pose proof (rb_read_take (rb_reset (r_buf _ _ r)) fr 32 (rb_reset_wf _ W)) as T1.
  rewrite rb_reset_rem in T1.
  destruct (rb_read newcap (rb_reset (r_buf _ _ r)) fr 32) as [[[header b1] fr1]|e];
    destruct (take_s 32 (rb_rem (r_buf _ _ r) fr)) as [[h2 s1]|]; try contradiction;
    [|exact T1].
  destruct T1 as (-> & W1 & R1).
  destruct (compute_header (r_mac _ _ r) (firstn 16 h2)) as [m1 want].
  destruct (negb (bytes_eqb want (skipn 16 h2))); [reflexivity|].
  destruct (xor_ks (r_dec _ _ r) (firstn 16 h2)) as [hp c1].
  destruct (read_uint24 hp) as [fsize|]; [|reflexivity].
  pose proof (rb_read_take b1 fr1 (N.to_nat (fsize + pad16 fsize)) W1) as T2. rewrite R1 in T2.
  destruct (rb_read newcap b1 fr1 (N.to_nat (fsize + pad16 fsize))) as [[[fc b2] fr2]|e];
    destruct (take_s (N.to_nat (fsize + pad16 fsize)) s1) as [[fc2 s2]|]; try contradiction;
    [|exact T2].
  destruct T2 as (-> & W2 & R2).
  pose proof (rb_read_take b2 fr2 16 W2) as T3. rewrite R2 in T3.
  destruct (rb_read newcap b2 fr2 16) as [[[fm b3] fr3]|e];
    destruct (take_s 16 s2) as [[fm2 s3]|]; try contradiction; [|exact T3].
  destruct T3 as (-> & W3 & R3).
  destruct (compute_frame m1 fc2) as [m2 wantf].
  destruct (negb (bytes_eqb wantf fm2)); [reflexivity|].
  destruct (xor_ks c1 fc2) as [fp c2]. cbn. auto.
Qed.

Definition sim_msg (x : rres (msg * rstate cst hst * conn))
                   (y : rres (msg * sstate cst hst * list N)) : Prop :=
  match x, y with
  | Good (m, r', fr'), Good (m2, s', rest) =>
      m = m2 /\ s' = mks (r_dec _ _ r') (r_mac _ _ r') /\
      rb_wf (r_buf _ _ r') /\ rb_rem (r_buf _ _ r') fr' = rest
  | Bad e, Bad e2 => norm_err e = e2
  | _, _ => False
  end.

Lemma conn_read_stream sn r fr : rb_wf (r_buf _ _ r) ->
  sim_msg (conn_read sn r fr)
          (conn_read_s sn (mks (r_dec _ _ r) (r_mac _ _ r)) (rb_rem (r_buf _ _ r) fr)).
Proof using Vars newcap_ge.
  try clear hsum_len; try clear snappy_dec_enc; try clear snappy_declen_enc; try clear cnext_byte; try clear snappy_dec_len.
  intros W. unfold Rlpx.conn_read, Rlpx.conn_read_s.
  pose proof (read_frame_stream r fr W) as S. unfold sim_frame in S.
  destruct (read_frame r fr) as [[[f r'] fr']|e];
    destruct (read_frame_s _ _) as [[[f2 s'] rest]|e2]; try contradiction; [|exact S].
  destruct S as (-> & -> & W' & R').
  destruct (split_uint64 f2) as [[code data]|]; [|reflexivity].
  destruct sn; [|cbn; auto].
  destruct (snappy_declen data) as [n|]; [|reflexivity].
  destruct (max_uint24 <? n); [reflexivity|].
  destruct (snappy_dec data); [cbn; auto|reflexivity].
Qed.

Lemma read_until_stream k sn : forall r fr, rb_wf (r_buf _ _ r) ->
  norm_res (read_until k sn r fr) =
  read_until_s k sn (mks (r_dec _ _ r) (r_mac _ _ r)) (rb_rem (r_buf _ _ r) fr).
Proof using Vars newcap_ge.
  try clear hsum_len; try clear snappy_dec_enc; try clear snappy_declen_enc; try clear cnext_byte; try clear snappy_dec_len.
  induction k as [|k IH]; intros r fr W; [reflexivity|].
  cbn [Rlpx.read_until Rlpx.read_until_s].
  pose proof (conn_read_stream sn r fr W) as S. unfold sim_msg in S.
  destruct (conn_read sn r fr) as [[[m r'] fr']|e];
    destruct (conn_read_s _ _ _) as [[[m2 s'] rest]|e2]; try contradiction.
  - destruct S as (-> & -> & W' & R'). specialize (IH r' fr' W'). rewrite R' in IH.
    rewrite <- IH. unfold norm_res.
    destruct (read_until k sn r' fr') as [ms e]. reflexivity.
  - unfold norm_res. cbn. rewrite S. reflexivity.
Qed.

(* parsing is a function of the byte stream: any two fragmentations / buffer
   states holding the same remaining bytes give the same messages and the same
   error class *)
Lemma chunk_independent k sn c m b1 fr1 b2 fr2 :
  rb_wf b1 -> rb_wf b2 -> rb_rem b1 fr1 = rb_rem b2 fr2 ->
  norm_res (read_until k sn (mkr c m b1) fr1) = norm_res (read_until k sn (mkr c m b2) fr2).
Proof using Vars newcap_ge.
  try clear hsum_len; try clear snappy_dec_enc; try clear snappy_declen_enc; try clear cnext_byte; try clear snappy_dec_len.
  intros W1 W2 E. rewrite (read_until_stream k sn (mkr c m b1) fr1 W1).
  rewrite (read_until_stream k sn (mkr c m b2) fr2 W2). cbn. rewrite E. reflexivity.
Qed.

(* ---- what a written frame consists of ---- *)


Lemma write_frame_parts w code data w' wire :
  write_frame w code data = Good (w', wire) ->
  exists c1 m1 hc hm fc fm,
    int_size code + lenN data <= max_uint24 /\
    xor_ks (w_enc _ _ w) (frame_header (int_size code + lenN data)) = (hc, c1) /\
    compute_header (w_mac _ _ w) hc = (m1, hm) /\
    xor_ks c1 (frame_data code data) = (fc, w_enc _ _ w') /\
    compute_frame m1 fc = (w_mac _ _ w', fm) /\
    wire = hc ++ hm ++ fc ++ fm.
Proof.
  try clear newcap_ge; try clear hsum_len; try clear snappy_dec_enc; try clear snappy_declen_enc; try clear cnext_byte; try clear snappy_dec_len.
  unfold Rlpx.write_frame, frame_header, frame_data.
  destruct (N.ltb_spec max_uint24 (int_size code + lenN data)) as [|Hle]; [discriminate|].
  destruct (xor_ks (w_enc _ _ w) _) as [hc c1] eqn:E1.
  destruct (compute_header (w_mac _ _ w) hc) as [m1 hm] eqn:E2.
  destruct (xor_ks c1 _) as [fc c2] eqn:E3.
  destruct (compute_frame m1 fc) as [m2 fm] eqn:E4.
  intros H. inversion H; subst. cbn.
  exists c1, m1, hc, hm, fc, fm. auto 10.
Qed.

Hypothesis hsum_len : forall m, length (hsum m) = 32%nat.

Lemma header_tag_len m hc : length (header_tag m hc) = 16%nat.
Proof using Vars hsum_len.
  try clear newcap_ge; try clear snappy_dec_enc; try clear snappy_declen_enc; try clear cnext_byte; try clear snappy_dec_len.
  unfold header_tag, Rlpx.compute_header, mac_compute. cbv zeta. cbn [snd].
  rewrite firstn_length, hsum_len. reflexivity.
Qed.

Lemma frame_tag_len m fc : length (frame_tag m fc) = 16%nat.
Proof using Vars hsum_len.
  try clear newcap_ge; try clear snappy_dec_enc; try clear snappy_declen_enc; try clear cnext_byte; try clear snappy_dec_len.
  unfold frame_tag, Rlpx.compute_frame, mac_compute. cbv zeta. cbn [snd].
  rewrite firstn_length, hsum_len. reflexivity.
Qed.




(* the wire length of a frame *)
Lemma write_frame_len w code data w' wire : code < 2 ^ 64 ->
  write_frame w code data = Good (w', wire) ->
  lenN wire = frame_wire_len (int_size code + lenN data).
Proof using Vars hsum_len.
  try clear newcap_ge; try clear snappy_dec_enc; try clear snappy_declen_enc; try clear cnext_byte; try clear snappy_dec_len.
  intros Hc H. destruct (write_frame_parts _ _ _ _ _ H) as (c1 & m1 & hc & hm & fc & fm & Hle & E1 & E2 & E3 & E4 & ->).
  pose proof (xor_ks_length (frame_header (int_size code + lenN data)) (w_enc _ _ w)) as L1.
  rewrite E1 in L1. cbn in L1.
  pose proof (xor_ks_length (frame_data code data) c1) as L3. rewrite E3 in L3. cbn [fst] in L3.
  rewrite (frame_data_len code data Hc) in L3.
  assert (L2 : length hm = 16%nat) by (replace hm with (header_tag (w_mac _ _ w) hc); [apply header_tag_len|unfold header_tag; now rewrite E2]).
  assert (L4 : length fm = 16%nat) by (replace fm with (frame_tag m1 fc); [apply frame_tag_len|unfold frame_tag; now rewrite E4]).
  unfold frame_wire_len. unfold lenN in *. rewrite !app_length, L1, L2, L3, L4. lia.
Qed.

(* ---- reading back one written frame from the stream ---- *)
Lemma read_frame_s_write w code data w' wire rest : code < 2 ^ 64 ->
  write_frame w code data = Good (w', wire) ->
  read_frame_s (mks (w_enc _ _ w) (w_mac _ _ w)) (wire ++ rest) =
  Good (enc_uint code ++ data, mks (w_enc _ _ w') (w_mac _ _ w'), rest).
Proof using Vars hsum_len.
  try clear newcap_ge; try clear snappy_dec_enc; try clear snappy_declen_enc; try clear cnext_byte; try clear snappy_dec_len.
  intros Hc H. destruct (write_frame_parts _ _ _ _ _ H) as (c1 & m1 & hc & hm & fc & fm & Hle & E1 & E2 & E3 & E4 & ->).
  set (fsize := int_size code + lenN data) in *.
  pose proof (xor_ks_length (frame_header fsize) (w_enc _ _ w)) as L1.
  rewrite E1 in L1. cbn in L1.
  pose proof (xor_ks_length (frame_data code data) c1) as L3. rewrite E3 in L3. cbn [fst] in L3.
  rewrite (frame_data_len code data Hc) in L3. fold fsize in L3.
  assert (L2 : length hm = 16%nat) by (replace hm with (header_tag (w_mac _ _ w) hc); [apply header_tag_len|unfold header_tag; now rewrite E2]).
  assert (L4 : length fm = 16%nat) by (replace fm with (frame_tag m1 fc); [apply frame_tag_len|unfold frame_tag; now rewrite E4]).
  pose proof (xor_involutive (frame_header fsize) (w_enc _ _ w)) as I1. rewrite E1 in I1. cbn [fst snd] in I1.
  pose proof (xor_involutive (frame_data code data) c1) as I3. rewrite E3 in I3. cbn [fst snd] in I3.
  unfold Rlpx.read_frame_s. cbn [s_dec s_mac].
  replace ((hc ++ hm ++ fc ++ fm) ++ rest) with ((hc ++ hm) ++ fc ++ fm ++ rest)
    by (rewrite <- !app_assoc; reflexivity).
  rewrite (take_s_app (hc ++ hm)) by (rewrite app_length; lia).
  assert (F1 : firstn 16 (hc ++ hm) = hc) by (rewrite <- L1; apply firstn_app_exact).
  assert (F2 : skipn 16 (hc ++ hm) = hm) by (rewrite <- L1; apply skipn_app_exact).
  rewrite F1, F2.
  rewrite E2, bytes_eqb_refl. cbn [negb]. rewrite I1.
  unfold frame_header at 1. rewrite (read_put_uint24 fsize _ Hle).
  rewrite (take_s_app fc) by exact L3. rewrite (take_s_app fm) by exact L4.
  rewrite E4, bytes_eqb_refl. cbn [negb]. rewrite I3.
  unfold fsize. rewrite (frame_data_prefix code data Hc). reflexivity.
Qed.

(* ---- Conn.Write then Conn.Read ---- *)
Hypothesis snappy_dec_enc : forall d, snappy_dec (snappy_enc d) = Some d.
Hypothesis snappy_declen_enc : forall d, snappy_declen (snappy_enc d) = Some (lenN d).

Lemma conn_read_s_write sn w code data w' wire wsz rest : code < 2 ^ 64 ->
  conn_write sn w code data = Good (w', wire, wsz) ->
  conn_read_s sn (mks (w_enc _ _ w) (w_mac _ _ w)) (wire ++ rest) =
  Good ((code, data, wsz), mks (w_enc _ _ w') (w_mac _ _ w'), rest).
Proof using Vars hsum_len snappy_dec_enc snappy_declen_enc.
  try clear newcap_ge; try clear cnext_byte; try clear snappy_dec_len.
  intros Hc. unfold Rlpx.conn_write.
  destruct (N.ltb_spec max_uint24 (lenN data)) as [|Hle]; [discriminate|].
  destruct (write_frame w code (if sn then snappy_enc data else data)) as [[w1 wire1]|] eqn:E;
    [|discriminate].
  intros H. inversion H; subst. unfold Rlpx.conn_read_s.
  rewrite (read_frame_s_write _ _ _ _ _ rest Hc E).
  rewrite (split_uint64_complete code _ Hc).
  destruct sn; [|reflexivity].
  rewrite snappy_declen_enc.
  destruct (N.ltb_spec max_uint24 (lenN data)); [lia|].
  rewrite snappy_dec_enc. reflexivity.
Qed.

Fixpoint delivered (ms : list (N * list N)) (wszs : list N) : list msg :=
  match ms, wszs with
  | (c, d) :: r, z :: zs => (c, d, z) :: delivered r zs
  | _, _ => []
  end.

Definition codes_ok (ms : list (N * list N)) : Prop := Forall (fun m => fst m < 2 ^ 64) ms.

Lemma read_until_s_app sn : forall ms w w' wire wszs k rest,
  codes_ok ms -> write_msgs sn w ms = Good (w', wire, wszs) ->
  read_until_s (length ms + k) sn (mks (w_enc _ _ w) (w_mac _ _ w)) (wire ++ rest) =
  (delivered ms wszs ++ fst (read_until_s k sn (mks (w_enc _ _ w') (w_mac _ _ w')) rest),
   snd (read_until_s k sn (mks (w_enc _ _ w') (w_mac _ _ w')) rest)).
Proof using Vars hsum_len snappy_dec_enc snappy_declen_enc.
  try clear newcap_ge; try clear cnext_byte; try clear snappy_dec_len.
  induction ms as [|[code data] ms IH]; intros w w' wire wszs k rest Hok H.
  - cbn in H. inversion H; subst. cbn.
    destruct (read_until_s k sn _ rest). reflexivity.
  - cbn [Rlpx.write_msgs] in H. inversion Hok as [|? ? Hc Hok']; subst. cbn [fst] in Hc.
    destruct (conn_write sn w code data) as [[[w1 wire1] wsz]|] eqn:E1; [|discriminate].
    destruct (write_msgs sn w1 ms) as [[[w2 wires] wszs']|] eqn:E2; [|discriminate].
    inversion H; subst.
    cbn [length Nat.add Rlpx.read_until_s]. rewrite <- app_assoc.
    rewrite (conn_read_s_write sn w code data w1 wire1 wsz (wires ++ rest) Hc E1).
    rewrite (IH w1 w' wires wszs' k rest Hok' E2).
    cbn [delivered fst snd app]. reflexivity.
Qed.

Lemma read_frame_s_nil r : read_frame_s r [] = Bad EConnEOF.
Proof. reflexivity. Qed.

(* THE delivery theorem: any number of messages, any fragmentation of the byte
   stream, any buffer capacity policy *)
Lemma read_write_frames sn ms w w' wire wszs b fr :
  codes_ok ms -> write_msgs sn w ms = Good (w', wire, wszs) ->
  rb_wf b -> rb_rem b fr = wire ->
  norm_res (read_until (S (length ms)) sn (mkr (w_enc _ _ w) (w_mac _ _ w) b) fr) =
  (delivered ms wszs, Some EConnEOF).
Proof using Vars newcap_ge hsum_len snappy_dec_enc snappy_declen_enc.
  try clear cnext_byte; try clear snappy_dec_len.
  intros Hok H W E.
  rewrite (read_until_stream (S (length ms)) sn (mkr (w_enc _ _ w) (w_mac _ _ w) b) fr W).
  cbn [r_dec r_mac r_buf]. rewrite E.
  replace (S (length ms)) with (length ms + 1)%nat by lia.
  rewrite <- (app_nil_r wire).
  rewrite (read_until_s_app sn ms w w' wire wszs 1 [] Hok H).
  cbn. rewrite app_nil_r. reflexivity.
Qed.

(* ---- tampering ---- *)
Lemma bad_header_mac c m hc hm tail :
  length hc = 16%nat -> length hm = 16%nat -> header_tag m hc <> hm ->
  read_frame_s (mks c m) (hc ++ hm ++ tail) = Bad EBadHeaderMAC.
Proof.
  try clear newcap_ge; try clear hsum_len; try clear snappy_dec_enc; try clear snappy_declen_enc; try clear cnext_byte; try clear snappy_dec_len.
  intros L1 L2 Hne. unfold Rlpx.read_frame_s. cbn [s_dec s_mac].
  replace (hc ++ hm ++ tail) with ((hc ++ hm) ++ tail) by (rewrite <- app_assoc; reflexivity).
  rewrite (take_s_app (hc ++ hm)) by (rewrite app_length; lia).
  assert (F1 : firstn 16 (hc ++ hm) = hc) by (rewrite <- L1; apply firstn_app_exact).
  assert (F2 : skipn 16 (hc ++ hm) = hm) by (rewrite <- L1; apply skipn_app_exact).
  rewrite F1, F2. unfold header_tag in Hne.
  destruct (compute_header m hc) as [m1 want]. cbn [snd] in Hne.
  rewrite (bytes_eqb_neq _ _ Hne). reflexivity.
Qed.

Lemma bad_frame_mac c m hc hm fc fm rest m1 header c1 fsize :
  length hc = 16%nat -> length hm = 16%nat ->
  compute_header m hc = (m1, hm) -> xor_ks c hc = (header, c1) ->
  read_uint24 header = Some fsize ->
  length fc = N.to_nat (fsize + pad16 fsize) -> length fm = 16%nat ->
  frame_tag m1 fc <> fm ->
  read_frame_s (mks c m) (hc ++ hm ++ fc ++ fm ++ rest) = Bad EBadFrameMAC.
Proof.
  try clear newcap_ge; try clear hsum_len; try clear snappy_dec_enc; try clear snappy_declen_enc; try clear cnext_byte; try clear snappy_dec_len.
  intros L1 L2 E2 E1 Eu L3 L4 Hne. unfold Rlpx.read_frame_s. cbn [s_dec s_mac].
  replace (hc ++ hm ++ fc ++ fm ++ rest) with ((hc ++ hm) ++ fc ++ fm ++ rest)
    by (rewrite <- app_assoc; reflexivity).
  rewrite (take_s_app (hc ++ hm)) by (rewrite app_length; lia).
  assert (F1 : firstn 16 (hc ++ hm) = hc) by (rewrite <- L1; apply firstn_app_exact).
  assert (F2 : skipn 16 (hc ++ hm) = hm) by (rewrite <- L1; apply skipn_app_exact).
  rewrite F1, F2, E2, bytes_eqb_refl. cbn [negb]. rewrite E1, Eu.
  rewrite (take_s_app fc) by exact L3. rewrite (take_s_app fm) by exact L4.
  unfold frame_tag in Hne. destruct (compute_frame m1 fc) as [m2 wantf]. cbn [snd] in Hne.
  rewrite (bytes_eqb_neq _ _ Hne). reflexivity.
Qed.


(* the ciphertext parts of the frame a writer in state w produces *)
Definition frame_hc (w : wstate cst hst) (code : N) (data : list N) : list N :=
  fst (xor_ks (w_enc _ _ w) (frame_header (int_size code + lenN data))).
Definition frame_m1 (w : wstate cst hst) (code : N) (data : list N) : hst :=
  fst (compute_header (w_mac _ _ w) (frame_hc w code data)).
Definition frame_fc (w : wstate cst hst) (code : N) (data : list N) : list N :=
  fst (xor_ks (snd (xor_ks (w_enc _ _ w) (frame_header (int_size code + lenN data))))
              (frame_data code data)).

Definition mac_collision_free (w : wstate cst hst) (code : N) (data : list N) : Prop :=
  second_preimage_free (header_tag (w_mac _ _ w)) (frame_hc w code data) /\
  second_preimage_free (frame_tag (frame_m1 w code data)) (frame_fc w code data).

Definition mac_error_at (i : nat) : rerr :=
  if (i <? 32)%nat then EBadHeaderMAC else EBadFrameMAC.

Lemma tamper_frame_s w code data w' wire i v rest : code < 2 ^ 64 ->
  write_frame w code data = Good (w', wire) ->
  (i < length wire)%nat -> v <> nth i wire 0 ->
  mac_collision_free w code data ->
  read_frame_s (mks (w_enc _ _ w) (w_mac _ _ w)) (upd i v wire ++ rest) = Bad (mac_error_at i).
Proof using Vars hsum_len.
  try clear newcap_ge; try clear snappy_dec_enc; try clear snappy_declen_enc; try clear cnext_byte; try clear snappy_dec_len.
  intros Hc H Hi Hv [SP1 SP2].
  destruct (write_frame_parts _ _ _ _ _ H) as (c1 & m1 & hc & hm & fc & fm & Hle & E1 & E2 & E3 & E4 & ->).
  set (fsize := int_size code + lenN data) in *.
  unfold frame_m1, frame_fc, frame_hc in SP1, SP2. fold fsize in SP1, SP2.
  rewrite E1 in SP1, SP2. cbn [fst snd] in SP1, SP2. rewrite E2 in SP2. cbn [fst] in SP2.
  rewrite E3 in SP2. cbn [fst] in SP2.
  pose proof (xor_ks_length (frame_header fsize) (w_enc _ _ w)) as L1.
  rewrite E1 in L1. cbn in L1.
  pose proof (xor_ks_length (frame_data code data) c1) as L3. rewrite E3 in L3. cbn [fst] in L3.
  rewrite (frame_data_len code data Hc) in L3. fold fsize in L3.
  assert (T2 : header_tag (w_mac _ _ w) hc = hm) by (unfold header_tag; now rewrite E2).
  assert (T4 : frame_tag m1 fc = fm) by (unfold frame_tag; now rewrite E4).
  assert (L2 : length hm = 16%nat) by (rewrite <- T2; apply header_tag_len).
  assert (L4 : length fm = 16%nat) by (rewrite <- T4; apply frame_tag_len).
  pose proof (xor_involutive (frame_header fsize) (w_enc _ _ w)) as I1. rewrite E1 in I1. cbn [fst snd] in I1.
  rewrite !app_length in Hi. unfold mac_error_at.
  destruct (Nat.lt_ge_cases i 16) as [C1|C1].
  - (* header ciphertext *)
    rewrite upd_app_l by lia. rewrite app_nth1 in Hv by lia.
    destruct (Nat.ltb_spec i 32); [|lia]. rewrite <- !app_assoc.
    apply bad_header_mac; [rewrite upd_length; exact L1|exact L2|].
    intros E. rewrite <- T2 in E. apply SP1 in E; [|rewrite upd_length; reflexivity].
    revert E. apply upd_neq; [lia|exact Hv].
  - rewrite upd_app_r by lia. rewrite app_nth2 in Hv by lia. rewrite L1 in *.
    destruct (Nat.lt_ge_cases i 32) as [C2|C2].
    + (* header MAC *)
      rewrite upd_app_l by lia. rewrite app_nth1 in Hv by lia.
      destruct (Nat.ltb_spec i 32); [|lia]. rewrite <- !app_assoc.
      apply bad_header_mac; [exact L1|rewrite upd_length; exact L2|].
      rewrite T2. intros E. symmetry in E. revert E. apply upd_neq; [lia|exact Hv].
    + destruct (Nat.ltb_spec i 32); [lia|].
      rewrite upd_app_r by lia. rewrite app_nth2 in Hv by lia. rewrite L2 in *.
      destruct (Nat.lt_ge_cases (i - 16 - 16) (length fc)) as [C3|C3].
      * (* frame ciphertext *)
        rewrite upd_app_l by lia. rewrite app_nth1 in Hv by lia. rewrite <- !app_assoc.
        eapply bad_frame_mac; try eassumption.
        -- unfold frame_header. apply read_put_uint24. exact Hle.
        -- rewrite upd_length. exact L3.
        -- intros E. rewrite <- T4 in E. apply SP2 in E; [|rewrite upd_length; reflexivity].
           revert E. apply upd_neq; [lia|exact Hv].
      * (* frame MAC *)
        rewrite upd_app_r by lia. rewrite app_nth2 in Hv by lia. rewrite <- !app_assoc.
        eapply bad_frame_mac; try eassumption.
        -- unfold frame_header. apply read_put_uint24. exact Hle.
        -- rewrite upd_length. exact L4.
        -- rewrite T4. intros E. symmetry in E. revert E. apply upd_neq; [lia|exact Hv].
Qed.

(* a modified byte anywhere in frame number |ms| of a session: the |ms| earlier
   messages are delivered, then the reader reports a MAC error — for every
   fragmentation of the (modified) stream *)
Lemma tamper_detected sn ms w w1 wire1 wszs code data w2 wire i v rest b fr k :
  codes_ok ms -> write_msgs sn w ms = Good (w1, wire1, wszs) ->
  code < 2 ^ 64 -> write_frame w1 code data = Good (w2, wire) ->
  (i < length wire)%nat -> v <> nth i wire 0 ->
  mac_collision_free w1 code data ->
  rb_wf b -> rb_rem b fr = wire1 ++ upd i v wire ++ rest ->
  norm_res (read_until (length ms + S k) sn (mkr (w_enc _ _ w) (w_mac _ _ w) b) fr) =
  (delivered ms wszs, Some (mac_error_at i)).
Proof using Vars newcap_ge hsum_len snappy_dec_enc snappy_declen_enc.
  try clear cnext_byte; try clear snappy_dec_len.
  intros Hok H Hc Hf Hi Hv Hm W E.
  rewrite (read_until_stream _ sn (mkr (w_enc _ _ w) (w_mac _ _ w) b) fr W).
  cbn [r_dec r_mac r_buf]. rewrite E.
  rewrite (read_until_s_app sn ms w w1 wire1 wszs (S k) _ Hok H).
  cbn [Rlpx.read_until_s]. unfold Rlpx.conn_read_s.
  rewrite (tamper_frame_s w1 code data w2 wire i v rest Hc Hf Hi Hv Hm).
  cbn. rewrite app_nil_r. unfold mac_error_at. destruct (i <? 32)%nat; reflexivity.
Qed.

(* ---- size limits ---- *)
Lemma write_data_too_large sn w code data :
  max_uint24 < lenN data -> conn_write sn w code data = Bad ETooLarge.
Proof.
  try clear newcap_ge; try clear hsum_len; try clear snappy_dec_enc; try clear snappy_declen_enc; try clear cnext_byte; try clear snappy_dec_len.
  intros H. unfold Rlpx.conn_write. destruct (N.ltb_spec max_uint24 (lenN data)); [reflexivity|lia].
Qed.

Lemma write_frame_too_large w code data :
  max_uint24 < int_size code + lenN data -> write_frame w code data = Bad ETooLarge.
Proof.
  try clear newcap_ge; try clear hsum_len; try clear snappy_dec_enc; try clear snappy_declen_enc; try clear cnext_byte; try clear snappy_dec_len.
  intros H. unfold Rlpx.write_frame.
  destruct (N.ltb_spec max_uint24 (int_size code + lenN data)); [reflexivity|lia].
Qed.

Lemma write_frame_ok_limit w code data w' wire :
  write_frame w code data = Good (w', wire) -> int_size code + lenN data <= max_uint24.
Proof.
  try clear newcap_ge; try clear hsum_len; try clear snappy_dec_enc; try clear snappy_declen_enc; try clear cnext_byte; try clear snappy_dec_len.
  intros H. destruct (write_frame_parts _ _ _ _ _ H) as (c1 & m1 & hc & hm & fc & fm & Hle & _). exact Hle.
Qed.

Lemma write_frame_total w code data :
  int_size code + lenN data <= max_uint24 -> exists w' wire, write_frame w code data = Good (w', wire).
Proof.
  try clear newcap_ge; try clear hsum_len; try clear snappy_dec_enc; try clear snappy_declen_enc; try clear cnext_byte; try clear snappy_dec_len.
  intros H. unfold Rlpx.write_frame.
  destruct (N.ltb_spec max_uint24 (int_size code + lenN data)); [lia|].
  destruct (xor_ks (w_enc _ _ w) _) as [hc c1]. destruct (compute_header _ hc) as [m1 hm].
  destruct (xor_ks c1 _) as [fc c2]. destruct (compute_frame m1 fc) as [m2 fm]. eauto.
Qed.

Lemma conn_write_ok_limit sn w code data w' wire wsz :
  conn_write sn w code data = Good (w', wire, wsz) ->
  lenN data <= max_uint24 /\ int_size code + wsz <= max_uint24.
Proof.
  try clear newcap_ge; try clear hsum_len; try clear snappy_dec_enc; try clear snappy_declen_enc; try clear cnext_byte; try clear snappy_dec_len.
  unfold Rlpx.conn_write. destruct (N.ltb_spec max_uint24 (lenN data)); [discriminate|].
  destruct (write_frame w code _) as [[w1 wire1]|] eqn:E; [|discriminate].
  intros H'. inversion H'; subst. split; [assumption|]. eapply write_frame_ok_limit. exact E.
Qed.

Hypothesis cnext_byte : forall c, fst (cnext c) < 256.

Lemma lxor_byte a b : a < 256 -> b < 256 -> N.lxor a b < 256.
Proof.
  try clear newcap_ge; try clear hsum_len; try clear snappy_dec_enc; try clear snappy_declen_enc; try clear cnext_byte; try clear snappy_dec_len.
  intros Ha Hb.
  assert (H : forall x y, x < N.of_nat 256 -> y < N.of_nat 256 -> (N.lxor x y <? 256) = true).
  { apply sweep2. vm_compute. reflexivity. }
  apply N.ltb_lt. apply H; cbn; assumption.
Qed.

Lemma xor_ks_bytes d : forall c, bytesb d = true -> bytesb (fst (xor_ks c d)) = true.
Proof using Vars cnext_byte.
  try clear newcap_ge; try clear hsum_len; try clear snappy_dec_enc; try clear snappy_declen_enc; try clear snappy_dec_len.
  unfold bytesb.
  induction d as [|x d IH]; intros c Hb; cbn [Rlpx.xor_ks]; [reflexivity|].
  cbn [forallb] in Hb. apply andb_true_iff in Hb as [Hx Hd].
  pose proof (cnext_byte c) as Hk. destruct (cnext c) as [k c1]. cbn [fst] in Hk.
  specialize (IH c1 Hd). destruct (xor_ks c1 d) as [out c2]. cbn [fst] in *.
  cbn [forallb]. rewrite IH, andb_true_r. unfold byteb in *. apply N.ltb_lt. apply lxor_byte; [|exact Hk].
  apply N.ltb_lt. exact Hx.
Qed.

Lemma read_uint24_bound b f : bytesb b = true -> read_uint24 b = Some f -> f <= max_uint24.
Proof.
  try clear newcap_ge; try clear hsum_len; try clear snappy_dec_enc; try clear snappy_declen_enc; try clear cnext_byte; try clear snappy_dec_len.
  destruct b as [|b0 [|b1 [|b2 r]]]; cbn; try discriminate.
  unfold byteb. intros H E. inversion E; subst. unfold max_uint24.
  repeat (apply andb_true_iff in H as [? H]). lia.
Qed.

(* every frame the reader accepts is below 2^24 bytes, whatever is on the wire *)
Lemma read_frame_limit r s frame r' rest : bytesb s = true ->
  read_frame_s r s = Good (frame, r', rest) -> lenN frame <= max_uint24.
Proof using Vars cnext_byte.
  try clear newcap_ge; try clear hsum_len; try clear snappy_dec_enc; try clear snappy_declen_enc; try clear snappy_dec_len.
  intros Hb. unfold Rlpx.read_frame_s, take_s.
  destruct (32 <=? length s)%nat; [|discriminate].
  destruct (compute_header (s_mac _ _ r) _) as [m1 want].
  destruct (negb _); [discriminate|].
  pose proof (xor_ks_bytes (firstn 16 (firstn 32 s)) (s_dec _ _ r)) as HB.
  destruct (xor_ks (s_dec _ _ r) _) as [hp c1]. cbn [fst] in HB.
  destruct (read_uint24 hp) as [fsize|] eqn:Eu; [|discriminate].
  destruct (_ <=? _)%nat; [|discriminate]. destruct (_ <=? _)%nat; [|discriminate].
  destruct (compute_frame m1 _) as [m2 wantf]. destruct (negb _); [discriminate|].
  destruct (xor_ks c1 _) as [fp c2]. intros H. inversion H; subst.
  assert (Hf : fsize <= max_uint24).
  { eapply read_uint24_bound; [|exact Eu]. apply HB.
    apply bytesb_firstn. apply bytesb_firstn. exact Hb. }
  unfold lenN. rewrite firstn_length. lia.
Qed.

Hypothesis snappy_dec_len : forall x d, snappy_dec x = Some d -> snappy_declen x = Some (lenN d).

(* with compression on, nothing longer than 2^24-1 bytes is ever delivered *)
Lemma conn_read_limit r s code d wsz r' rest :
  conn_read_s true r s = Good ((code, d, wsz), r', rest) -> lenN d <= max_uint24.
Proof using Vars snappy_dec_len.
  try clear newcap_ge; try clear hsum_len; try clear snappy_dec_enc; try clear snappy_declen_enc; try clear cnext_byte.
  unfold Rlpx.conn_read_s. destruct (read_frame_s r s) as [[[frame r1] s1]|]; [|discriminate].
  destruct (split_uint64 frame) as [[c data]|]; [|discriminate].
  destruct (snappy_declen data) as [n|] eqn:En; [|discriminate].
  destruct (N.ltb_spec max_uint24 n); [discriminate|].
  destruct (snappy_dec data) as [d'|] eqn:Ed; [|discriminate].
  intros H'. inversion H'; subst. apply snappy_dec_len in Ed. rewrite En in Ed.
  inversion Ed; subst. assumption.
Qed.

End FramingProofs.
Unset Default Proof Using.

(* ================================================================= *)
(* The MAC state as a chain: with the hash object modelled as "the bytes
   absorbed so far" (hst = list N, Write = append, Sum = H of the list — what a
   streaming hash computes, property C04), the MAC state after n frames contains
   every frame ciphertext written before, and a frame produced at one position of
   the chain cannot be accepted at another position unless the truncated hash
   collides on two different inputs. *)
Section MacChain.
Variable cst : Type.
Variable cnext : cst -> N * cst.
Variable H : list N -> list N.
Variable blk : list N -> list N.
Variable snappy_enc : list N -> list N.

Local Notation write_frame := (write_frame cst cnext (list N) (@app N) H blk).
Local Notation write_msgs := (write_msgs cst cnext (list N) (@app N) H blk snappy_enc).
Local Notation read_frame_s := (read_frame_s cst cnext (list N) (@app N) H blk).
Local Notation header_tag := (header_tag (list N) (@app N) H blk).
Local Notation inst L := (L cst cnext (list N) (@app N) H blk snappy_enc (fun _ : list N => @None N) (fun _ : list N => @None (list N)) Nat.add) (only parsing).

Lemma xor_bytes_length a : forall b, length (xor_bytes a b) = Nat.min (length a) (length b).
Proof. induction a as [|x a IH]; intros [|y b]; cbn; auto. Qed.

(* the hash input whose truncated digest is the header MAC *)
Definition header_pre (m hc : list N) : list N := m ++ xor_bytes (blk (firstn 16 (H m))) hc.

Lemma header_tag_pre m hc : header_tag m hc = firstn 16 (H (header_pre m hc)).
Proof. reflexivity. Qed.

Lemma int_size_pos code : 1 <= int_size code.
Proof. unfold int_size. destruct (code <? 128); lia. Qed.

(* every frame strictly extends the absorbed history, by its whole ciphertext *)
Lemma write_frame_mac_grows w code data w' wire : code < 2 ^ 64 ->
  write_frame w code data = Good (w', wire) ->
  exists fc buf1 buf2, w_mac _ _ w' = ((w_mac _ _ w ++ buf1) ++ fc) ++ buf2 /\ (1 <= length fc)%nat.
Proof.
  intros Hc Hw.
  destruct (inst write_frame_parts _ _ _ _ _ Hw) as (c1 & m1 & hc & hm & fc & fm & Hle & E1 & E2 & E3 & E4 & ->).
  pose proof (xor_ks_length cst cnext (frame_data code data) c1) as L3. rewrite E3 in L3. cbn [fst] in L3.
  rewrite (frame_data_len code data Hc) in L3.
  unfold compute_header, mac_compute in E2. inversion E2; subst m1.
  unfold compute_frame, mac_compute in E4. inversion E4 as [[Em Ef]].
  eexists fc, _, _. split; [reflexivity|].
  pose proof (int_size_pos code). lia.
Qed.

Lemma write_frame_mac_lt w code data w' wire : code < 2 ^ 64 ->
  write_frame w code data = Good (w', wire) -> (length (w_mac _ _ w) < length (w_mac _ _ w'))%nat.
Proof.
  intros Hc Hw. destruct (write_frame_mac_grows _ _ _ _ _ Hc Hw) as (fc & b1 & b2 & -> & Hl).
  rewrite !app_length. lia.
Qed.

Lemma write_msgs_mac_le sn : forall ms w w' wire z, codes_ok ms ->
  write_msgs sn w ms = Good (w', wire, z) -> (length (w_mac _ _ w) <= length (w_mac _ _ w'))%nat.
Proof.
  induction ms as [|[code data] ms IH]; intros w w' wire z Hok Hw.
  - cbn in Hw. inversion Hw; subst. lia.
  - cbn [Rlpx.write_msgs] in Hw. inversion Hok as [|? ? Hc Hok']; subst. cbn [fst] in Hc.
    unfold conn_write in Hw. destruct (max_uint24 <? lenN data); [discriminate|].
    destruct (write_frame w code _) as [[w1 wire1]|] eqn:E1; [|discriminate].
    destruct (write_msgs sn w1 ms) as [[[w2 wires] zs]|] eqn:E2; [|discriminate].
    inversion Hw; subst. pose proof (write_frame_mac_lt _ _ _ _ _ Hc E1).
    pose proof (IH _ _ _ _ Hok' E2). lia.
Qed.

Lemma write_msgs_mac_lt sn ms w w' wire z : codes_ok ms -> ms <> [] ->
  write_msgs sn w ms = Good (w', wire, z) -> (length (w_mac _ _ w) < length (w_mac _ _ w'))%nat.
Proof.
  destruct ms as [|[code data] ms]; [congruence|]. intros Hok _ Hw.
  cbn [Rlpx.write_msgs] in Hw. inversion Hok as [|? ? Hc Hok']; subst. cbn [fst] in Hc.
  unfold conn_write in Hw. destruct (max_uint24 <? lenN data); [discriminate|].
  destruct (write_frame w code _) as [[w1 wire1]|] eqn:E1; [|discriminate].
  destruct (write_msgs sn w1 ms) as [[[w2 wires] zs]|] eqn:E2; [|discriminate].
  inversion Hw; subst. pose proof (write_frame_mac_lt _ _ _ _ _ Hc E1).
  pose proof (write_msgs_mac_le sn _ _ _ _ _ Hok' E2). lia.
Qed.

Hypothesis blk_len : forall x, length (blk x) = 16%nat.
Hypothesis H_len : forall m, length (H m) = 32%nat.

(* "no collision of the truncated hash on these two inputs" *)
Definition no_collision (a b : list N) : Prop := firstn 16 (H a) = firstn 16 (H b) -> a = b.

(* a frame produced when the writer's MAC history was mW, presented to a reader
   whose MAC history is mR of a different length (i.e. at another position of the
   session: replayed, or after a dropped frame, or reordered) *)
Lemma desync_detected c mR wW code data w' wire rest : code < 2 ^ 64 ->
  write_frame wW code data = Good (w', wire) ->
  length mR <> length (w_mac _ _ wW) ->
  no_collision (header_pre mR (firstn 16 wire)) (header_pre (w_mac _ _ wW) (firstn 16 wire)) ->
  read_frame_s (mks _ _ c mR) (wire ++ rest) = Bad EBadHeaderMAC.
Proof.
  intros Hc Hw Hlen Hnc.
  destruct (inst write_frame_parts _ _ _ _ _ Hw) as (c1 & m1 & hc & hm & fc & fm & Hle & E1 & E2 & E3 & E4 & ->).
  pose proof (xor_ks_length cst cnext (frame_header (int_size code + lenN data)) (w_enc _ _ wW)) as L1.
  rewrite E1 in L1. cbn in L1.
  assert (F : firstn 16 (hc ++ hm ++ fc ++ fm) = hc) by (rewrite <- L1; apply firstn_app_exact).
  rewrite F in Hnc.
  assert (T2 : hm = firstn 16 (H (header_pre (w_mac _ _ wW) hc))).
  { unfold compute_header, mac_compute in E2. inversion E2. reflexivity. }
  assert (L2 : length hm = 16%nat) by (rewrite T2, firstn_length, H_len; reflexivity).
  rewrite <- !app_assoc. apply (inst bad_header_mac); [exact L1|exact L2|].
  rewrite header_tag_pre, T2. intros E. apply Hnc in E.
  apply (f_equal (@length N)) in E. unfold header_pre in E.
  rewrite !app_length, !xor_bytes_length, !blk_len, L1 in E. lia.
Qed.

End MacChain.

(* ================================================================= *)
(* The handshake in the symbolic model *)
Section HandshakeProofs.
Variable key : Type.
Variable point : Type.
Variable pub_of : key -> point.
Variable export_pub : point -> list N.
Variable import_pub : list N -> option point.
Variable ecdh : key -> point -> list N.
Variable sign : key -> list N -> list N.
Variable ecrecover : list N -> list N -> option point.
Variable ecies_enc : point -> list N -> list N -> list N -> list N.
Variable ecies_dec : key -> list N -> list N -> option (list N).
Variable kec : list N -> list N.
Variable enc_auth : list N -> list N -> list N -> list N.
Variable dec_auth : list N -> option (list N * list N * list N).
Variable enc_resp : list N -> list N -> list N.
Variable dec_resp : list N -> option (list N * list N).

Hypothesis ecdh_comm : forall a b, ecdh a (pub_of b) = ecdh b (pub_of a).
Hypothesis import_export : forall p, import_pub (export_pub p) = Some p.
Hypothesis recover_sign : forall k m, ecrecover m (sign k m) = Some (pub_of k).
Hypothesis ecies_dec_enc : forall k r m s2, ecies_dec k (ecies_enc (pub_of k) r m s2) s2 = Some m.
Hypothesis ecies_len : forall p r m s2, lenN (ecies_enc p r m s2) = lenN m + ecies_overhead.
Hypothesis dec_enc_auth : forall s p n pad, dec_auth (enc_auth s p n ++ pad) = Some (s, p, n).
Hypothesis dec_enc_resp : forall p n pad, dec_resp (enc_resp p n ++ pad) = Some (p, n).

Local Notation seal := (seal_eip8 point ecies_enc).
Local Notation read_msg := (read_msg key ecies_dec).
Local Notation recipient_run :=
  (recipient_run key point pub_of export_pub import_pub ecdh ecrecover ecies_enc ecies_dec kec dec_auth enc_resp).
Local Notation initiator_auth := (initiator_auth key point pub_of export_pub ecdh sign ecies_enc enc_auth).
Local Notation initiator_finish :=
  (initiator_finish key point import_pub ecdh ecies_dec kec dec_resp).

Lemma read_msg_seal k rnd plain padlen :
  lenN (plain ++ repeat 0 padlen) + ecies_overhead <= 2048 ->
  read_msg k (seal (pub_of k) rnd plain padlen) =
  Good (plain ++ repeat 0 padlen, seal (pub_of k) rnd plain padlen).
Proof.
  intros Hs. unfold seal_eip8, Rlpx.read_msg, put_uint16. cbn [app].
  set (body := plain ++ repeat 0 padlen) in *.
  set (n := lenN body + ecies_overhead) in *.
  set (ct := ecies_enc (pub_of k) rnd body [n / 256 mod 256; n mod 256]).
  assert (Hn : n / 256 mod 256 * 256 + n mod 256 = n) by lia.
  rewrite Hn.
  destruct (N.ltb_spec 2048 n); [lia|].
  assert (Hl : lenN ct = n) by (unfold ct; rewrite ecies_len; reflexivity).
  destruct (N.ltb_spec (lenN ct) n); [lia|].
  assert (Hf : firstn (N.to_nat n) ct = ct) by (apply firstn_all2; unfold lenN in Hl; lia).
  rewrite Hf. unfold ct at 1. rewrite ecies_dec_enc. reflexivity.
Qed.

(* an honest run: both sides finish, each learns the other's static public key,
   both derive the same AES and MAC secrets, and the MAC hash of each direction
   starts from the same absorbed bytes on both ends *)
Lemma handshake_learns_key prvI prvR nI nR ephI ephR rndI rndR padI padR :
  let auth := initiator_auth prvI (pub_of prvR) nI ephI rndI padI in
  lenN (enc_auth (sign ephI (xor_bytes (ecdh prvI (pub_of prvR)) nI)) (export_pub (pub_of prvI)) nI
        ++ repeat 0 padI) + ecies_overhead <= 2048 ->
  lenN (enc_resp (export_pub (pub_of ephR)) nR ++ repeat 0 padR) + ecies_overhead <= 2048 ->
  exists resp sR sI,
    recipient_run prvR auth nR ephR rndR padR = Good (resp, sR) /\
    initiator_finish prvI (pub_of prvR) nI ephI auth resp = Good sI /\
    sec_remote _ sR = pub_of prvI /\ sec_remote _ sI = pub_of prvR /\
    sec_aes _ sI = sec_aes _ sR /\ sec_mac _ sI = sec_mac _ sR /\
    sec_egress _ sI = sec_ingress _ sR /\ sec_ingress _ sI = sec_egress _ sR.
Proof.
  intros auth H1 H2. unfold auth, Rlpx.initiator_auth, Rlpx.recipient_run, Rlpx.initiator_finish.
  rewrite (read_msg_seal prvR rndI _ padI H1).
  rewrite dec_enc_auth, import_export.
  rewrite (ecdh_comm prvR prvI), recover_sign.
  eexists _, _, _. split; [reflexivity|].
  rewrite (read_msg_seal prvI rndR _ padR H2).
  rewrite dec_enc_resp, import_export.
  split; [reflexivity|]. unfold derive. cbn [sec_remote sec_aes sec_mac sec_egress sec_ingress].
  rewrite (ecdh_comm ephR ephI). repeat split; reflexivity.
Qed.

(* invalid curve points: a public key that importPublicKey rejects stops the
   handshake on the side that decodes it, whatever else the packet contains *)
Lemma offcurve_auth_rejected prvR packet plain exact sg pb n nR ephR rndR padR :
  read_msg prvR packet = Good (plain, exact) -> dec_auth plain = Some (sg, pb, n) ->
  import_pub pb = None ->
  recipient_run prvR packet nR ephR rndR padR = Bad EHsInvalidPub.
Proof.
  intros H1 H2 H3. unfold Rlpx.recipient_run. rewrite H1, H2, H3. reflexivity.
Qed.

Lemma offcurve_resp_rejected prvI remote nI ephI auth packet plain exact pb n :
  read_msg prvI packet = Good (plain, exact) -> dec_resp plain = Some (pb, n) ->
  import_pub pb = None ->
  initiator_finish prvI remote nI ephI auth packet = Bad EHsInvalidPub.
Proof.
  intros H1 H2 H3. unfold Rlpx.initiator_finish. rewrite H1, H2, H3. reflexivity.
Qed.

End HandshakeProofs.

Section HandshakeTamper.
Variable key : Type.
Variable ecies_dec : key -> list N -> list N -> option (list N).
Local Notation read_msg := (read_msg key ecies_dec).
(* modified handshake packets: under ciphertext integrity of ECIES at the honest
   packet (no other ciphertext / size prefix decrypts under this key), any packet
   that differs from the honest one is rejected by readMsg *)
Definition ecies_integrity (k : key) (honest : list N) : Prop :=
  forall p0 p1 ct, p0 :: p1 :: ct <> honest -> ecies_dec k ct [p0; p1] = None.

Lemma tampered_packet_rejected k honest packet :
  ecies_integrity k honest -> lenN honest <= 2050 ->
  length packet = length honest -> packet <> honest ->
  exists e, read_msg k packet = Bad e.
Proof.
  intros Hint Hlen Hl Hne. unfold Rlpx.read_msg.
  destruct packet as [|p0 [|p1 body]]; try (eexists; reflexivity).
  destruct (2048 <? p0 * 256 + p1); [eexists; reflexivity|].
  destruct (N.ltb_spec (lenN body) (p0 * 256 + p1)) as [|Hb]; [eexists; reflexivity|].
  destruct (list_eq_dec N.eq_dec (p0 :: p1 :: firstn (N.to_nat (p0 * 256 + p1)) body) honest) as [E|E].
  - (* the reader would consume exactly the honest packet: then the stream differs
       only beyond it, impossible for equal lengths *)
    exfalso. apply Hne. rewrite <- E in Hl |- *. cbn [length] in Hl.
    assert (length body = length (firstn (N.to_nat (p0 * 256 + p1)) body)) by lia.
    rewrite firstn_length in H. f_equal. f_equal. symmetry. apply firstn_all2. lia.
  - rewrite (Hint _ _ _ E). eexists; reflexivity.
Qed.

End HandshakeTamper.

(* ---- the executable instances: FIPS-197 appendix C vectors for Net/Aes.v ---- *)
Definition aes_vectors_ok : bool :=
  let pt := [0;17;34;51;68;85;102;119;136;153;170;187;204;221;238;255] in
  bytes_eqb (enc_block (round_keys (map N.of_nat (seq 0 16))) pt)
            [105;196;224;216;106;123;4;48;216;205;183;128;112;180;197;90] &&
  bytes_eqb (enc_block (round_keys (map N.of_nat (seq 0 24))) pt)
            [221;169;124;164;134;76;223;224;110;175;112;160;236;13;113;145] &&
  bytes_eqb (enc_block (round_keys (map N.of_nat (seq 0 32))) pt)
            [142;162;183;202;81;103;69;191;234;252;73;144;75;73;96;137].
Lemma aes_vectors : aes_vectors_ok = true.
Proof. vm_compute. reflexivity. Qed.

(* ---- a concrete toy instance showing the hypotheses are jointly satisfiable
   (used by the non-vacuity Example of Properties/C44.v; NOT cryptography) ---- *)
Definition toy_next (c : N) : N * N := ((c * 7 + 3) mod 256, c + 1).
Definition toy_sum (s : list N) : list N := firstn 32 (rev s ++ repeat 0 32).
Definition toy_blk (_ : list N) : list N := repeat 0 16.
Definition toy_id (d : list N) : list N := d.
Definition toy_declen (d : list N) : option N := Some (lenN d).
Definition toy_dec (d : list N) : option (list N) := Some d.
Definition toy_cap (c n : nat) : nat := (c + n + 5)%nat.
Definition toy_w0 : wstate N (list N) := mkw _ _ 9 [1; 2; 3].
Definition toy_msgs : list (N * list N) :=
  [(5, [1;2;3;4;5;6;7;8;9;10;11;12;13;14;15]); (300, []); (0, repeat 7 40)].
Definition toy_cut : list nat := [1; 31; 0; 16; 17; 3; 90]%nat.

Fixpoint cut_at (sizes : list nat) (wire : list N) : list (list N) :=
  match sizes with
  | [] => [wire]
  | n :: r => firstn n wire :: cut_at r (skipn n wire)
  end.

Definition toy_check : bool :=
  match write_msgs N toy_next (list N) (@app N) toy_sum toy_blk toy_id true toy_w0 toy_msgs with
  | Bad _ => false
  | Good (_, wire, wszs) =>
      let rd w := read_until N toy_next (list N) (@app N) toy_sum toy_blk toy_declen toy_dec toy_cap
                    4 true (mkr _ _ 9 [1; 2; 3] rb_empty) (cut_at toy_cut w) in
      (* honest: the three messages, then EOF *)
      (match rd wire with
       | ([(5, d1, 15); (300, [], 0); (0, d3, 40)], Some e) =>
           bytes_eqb d1 [1;2;3;4;5;6;7;8;9;10;11;12;13;14;15] && bytes_eqb d3 (repeat 7 40) &&
           (rerr_code (norm_err e) =? 1)
       | _ => false
       end) &&
      (* one modified byte in the payload of the second frame: first message, then MAC error *)
      (match rd (upd 100 (N.lxor (nth 100 wire 0) 4) wire) with
       | ([(5, _, 15)], Some EBadFrameMAC) => true
       | _ => false
       end) &&
      (lenN wire =? 64 + 64 + 96)
  end.
Lemma toy_check_ok : toy_check = true.
Proof. vm_compute. reflexivity. Qed.

Lemma toy_collision_free :
  mac_collision_free N toy_next (list N) (@app N) toy_sum toy_blk toy_w0 5
    [1;2;3;4;5;6;7;8;9;10;11;12;13;14;15].
Proof.
  split; intros y Hl.
  - vm_compute in Hl.
    do 17 (destruct y as [|? y]; try discriminate Hl).
    unfold header_tag, compute_header, mac_compute. cbv zeta. cbn [snd].
    intros E. vm_compute in E. inversion E. reflexivity.
  - vm_compute in Hl.
    do 17 (destruct y as [|? y]; try discriminate Hl).
    unfold frame_tag, compute_frame, mac_compute. cbv zeta. cbn [snd].
    intros E. vm_compute in E. inversion E. reflexivity.
Qed.
