(* Net/RlpxProofs.v — proofs about the RLPx model Net/Rlpx.v (property C44). *)
From GV Require Import Lib.Tactics Lib.Bytes Lib.BytesProofs Rlp.Item Rlp.Raw Rlp.RawProofs Rlp.Codec Net.Rlpx Net.Aes.
Local Open Scope N_scope.

(* ------------------------------------------------------------------ lists *)
Lemma skipn_skipn' {A} (x y : nat) (l : list A) : skipn x (skipn y l) = skipn (y + x) l.
Proof.
  revert l. induction y as [|y IH]; intros l; [reflexivity|].
  destruct l as [|a l]; [now rewrite !skipn_nil|]. cbn. apply IH.
Qed.

Lemma firstn_app_le {A} (n : nat) (a b : list A) :
  (n <= length a)%nat -> firstn n (a ++ b) = firstn n a.
Proof.
  intros H. rewrite firstn_app. replace (n - length a)%nat with 0%nat by lia.
  cbn. apply app_nil_r.
Qed.

Lemma skipn_app_le {A} (n : nat) (a b : list A) :
  (n <= length a)%nat -> skipn n (a ++ b) = skipn n a ++ b.
Proof.
  intros H. rewrite skipn_app. replace (n - length a)%nat with 0%nat by lia. reflexivity.
Qed.

Lemma firstn_app_exact {A} (a b : list A) : firstn (length a) (a ++ b) = a.
Proof. rewrite firstn_app_le by lia. apply firstn_all. Qed.

Lemma skipn_app_exact {A} (a b : list A) : skipn (length a) (a ++ b) = b.
Proof. rewrite skipn_app_le by lia. rewrite skipn_all. reflexivity. Qed.

Lemma list_eqb_eq (a : list N) : forall b, list_eqb N.eqb a b = true <-> a = b.
Proof.
  induction a as [|x a IH]; intros [|y b]; cbn; try (split; congruence).
  rewrite andb_true_iff, N.eqb_eq, IH. split.
  - intros [-> ->]. reflexivity.
  - intros H. inversion H. auto.
Qed.

Lemma bytes_eqb_refl a : bytes_eqb a a = true.
Proof. apply list_eqb_eq. reflexivity. Qed.

Lemma bytes_eqb_neq a b : a <> b -> bytes_eqb a b = false.
Proof.
  intros H. destruct (bytes_eqb a b) eqn:E; [|reflexivity].
  apply list_eqb_eq in E. contradiction.
Qed.

(* ------------------------------------------------------ io.ReadAtLeast *)
Lemma ral_spec (fr : conn) : forall space need first, (need <= space)%nat ->
  match ral fr space need first with
  | Good (got, fr') =>
      got ++ concat fr' = concat fr /\ (need <= length got)%nat /\ (length got <= space)%nat
  | Bad e => (length (concat fr) < need)%nat /\ (e = EConnEOF \/ e = EConnUnexpectedEOF)
  end.
Proof.
  induction fr as [|f r IH]; intros space need first Hle.
  - destruct need; cbn.
    + repeat split; lia.
    + split; [lia|]. destruct first; auto.
  - destruct need as [|need'].
    + cbn [ral]. split; [reflexivity|]. cbn. lia.
    + cbn [ral]. destruct (Nat.leb_spec (length f) space) as [Hf|Hf].
      * specialize (IH (space - length f)%nat (S need' - length f)%nat
                       (first && (length f =? 0)%nat)%bool ltac:(lia)).
        destruct (ral r (space - length f) (S need' - length f) _) as [[got fr']|e].
        -- destruct IH as (E & H1 & H2). split; [|split].
           ++ cbn [concat]. rewrite <- app_assoc, E. reflexivity.
           ++ rewrite app_length. lia.
           ++ rewrite app_length. lia.
        -- destruct IH as (H1 & H2). split; [|exact H2].
           cbn [concat]. rewrite app_length. lia.
      * split; [|split].
        -- cbn [concat]. rewrite app_assoc, firstn_skipn. reflexivity.
        -- rewrite firstn_length. lia.
        -- rewrite firstn_length. lia.
Qed.

Lemma read_at_least_spec fr space need : (need <= space)%nat ->
  match read_at_least fr space need with
  | Good (got, fr') =>
      got ++ concat fr' = concat fr /\ (need <= length got)%nat /\ (length got <= space)%nat
  | Bad e => (length (concat fr) < need)%nat /\ (e = EConnEOF \/ e = EConnUnexpectedEOF)
  end.
Proof.
  intros H. unfold read_at_least.
  destruct (Nat.ltb_spec space need); [lia|]. apply ral_spec. exact H.
Qed.

(* ------------------------------------------------------------ readBuffer *)
Definition rb_wf (b : rbuf) : Prop :=
  (rb_dlen b <= length (rb_buf b))%nat /\ (length (rb_buf b) <= rb_cap b)%nat.

Lemma rb_empty_wf : rb_wf rb_empty.
Proof. unfold rb_wf, rb_empty. cbn. lia. Qed.

Lemma rb_reset_wf b : rb_wf b -> rb_wf (rb_reset b).
Proof.
  unfold rb_wf, rb_reset. cbn. intros [H1 H2]. rewrite skipn_length. lia.
Qed.

Lemma rb_reset_rem b fr : rb_rem (rb_reset b) fr = rb_rem b fr.
Proof. unfold rb_rem, rb_reset. cbn. reflexivity. Qed.

Section ReadBuffer.
Variable newcap : nat -> nat -> nat.
Hypothesis newcap_ge : forall c n, (c + n <= newcap c n)%nat.

Lemma rb_read_spec b fr n : rb_wf b ->
  match rb_read newcap b fr n with
  | Good (out, b', fr') =>
      (n <= length (rb_rem b fr))%nat /\ out = firstn n (rb_rem b fr) /\
      rb_wf b' /\ rb_rem b' fr' = skipn n (rb_rem b fr)
  | Bad e => (length (rb_rem b fr) < n)%nat /\ (e = EConnEOF \/ e = EConnUnexpectedEOF)
  end.
Proof.
  intros [W1 W2]. unfold rb_read, rb_rem.
  destruct (Nat.leb_spec n (length (rb_buf b) - rb_dlen b)) as [Hn|Hn].
  - cbn [rb_buf rb_dlen rb_cap].
    assert (Hl : (n <= length (skipn (rb_dlen b) (rb_buf b)))%nat)
      by (rewrite skipn_length; lia).
    split; [rewrite app_length; lia|]. split; [now rewrite firstn_app_le|].
    split; [unfold rb_wf; cbn; lia|].
    rewrite skipn_app_le by exact Hl. rewrite skipn_skipn'. reflexivity.
  - remember (n - (length (rb_buf b) - rb_dlen b))%nat as need eqn:Eneed.
    remember (rb_grow newcap b need) as b1 eqn:Eb1.
    assert (Hb1 : rb_buf b1 = rb_buf b /\ rb_dlen b1 = rb_dlen b /\
                  (need <= rb_cap b1 - length (rb_buf b))%nat).
    { rewrite Eb1. unfold rb_grow.
      destruct (Nat.leb_spec need (rb_cap b - length (rb_buf b))); cbn; [auto|].
      repeat split.
      pose proof (newcap_ge (rb_cap b) (need - (rb_cap b - length (rb_buf b)))) as Hg.
      clear - Hg H W2. revert Hg H W2.
      generalize (newcap (rb_cap b) (need - (rb_cap b - length (rb_buf b)))).
      generalize (rb_cap b). generalize (length (rb_buf b)). intros. lia. }
    destruct Hb1 as (E1 & E2 & Hsp). rewrite E1.
    pose proof (read_at_least_spec fr (rb_cap b1 - length (rb_buf b)) need Hsp) as R.
    destruct (read_at_least fr (rb_cap b1 - length (rb_buf b)) need) as [[got fr']|e].
    + destruct R as (E & G1 & G2). cbn [rb_buf rb_dlen rb_cap].
      assert (Hs : skipn (rb_dlen b) (rb_buf b ++ got) = skipn (rb_dlen b) (rb_buf b) ++ got)
        by (apply skipn_app_le; lia).
      assert (Hl : (n <= length (skipn (rb_dlen b) (rb_buf b) ++ got))%nat)
        by (rewrite app_length, skipn_length; lia).
      rewrite <- E. rewrite app_assoc.
      split; [rewrite app_length; clear - Hl; lia|]. split; [rewrite Hs; symmetry; apply firstn_app_le; exact Hl|].
      split; [unfold rb_wf; cbn; rewrite app_length; lia|].
      rewrite (skipn_app_le n (skipn (rb_dlen b) (rb_buf b) ++ got)) by exact Hl.
      rewrite <- Hs, skipn_skipn'. reflexivity.
    + destruct R as (R1 & R2). split; [|exact R2].
      rewrite app_length, skipn_length. lia.
Qed.
End ReadBuffer.
