(* PathDB/IterBinary.v — the binary (cross-validation) iterator of PathDB/Iter.v
   enumerates exactly the newest-wins view (C22). *)
From GV Require Import Lib.Tactics PathDB.Iter PathDB.IterProofs.
From Coq Require Import Sorted.

(* union of two ascending key lists *)
Fixpoint umerge (a : list key) : list key -> list key :=
  fix inner (b : list key) : list key :=
    match a, b with
    | [], _ => b
    | _, [] => a
    | ka :: ra, kb :: rb =>
        if N.ltb ka kb then ka :: umerge ra b
        else if N.eqb ka kb then ka :: umerge ra rb
        else kb :: inner rb
    end.

Lemma umerge_nil_l b : umerge [] b = b.
Proof. destruct b; reflexivity. Qed.
Lemma umerge_nil_r a : umerge a [] = a.
Proof. destruct a; reflexivity. Qed.
Lemma umerge_cons ka ra kb rb :
  umerge (ka :: ra) (kb :: rb) =
  if N.ltb ka kb then ka :: umerge ra (kb :: rb)
  else if N.eqb ka kb then ka :: umerge ra rb
  else kb :: umerge (ka :: ra) rb.
Proof. reflexivity. Qed.

Lemma umerge_keys a : forall b, key_list (lmerge a b) = umerge (key_list a) (key_list b).
Proof.
  induction a as [|[ka va] ra IHa]; [intros; now rewrite lmerge_nil_l, umerge_nil_l|].
  induction b as [|[kb vb] rb IHb]; [now rewrite lmerge_nil_r, umerge_nil_r|].
  rewrite lmerge_cons. unfold key_list in *. cbn [map fst]. rewrite umerge_cons.
  destruct (N.ltb ka kb); [|destruct (N.eqb ka kb)]; cbn [map fst]; f_equal.
  - apply IHa.
  - apply IHa.
  - apply IHb.
Qed.

Lemma from_seek_sorted seek l : lsorted l -> lsorted (from_seek seek l).
Proof. apply filter_keys_sorted. Qed.

Lemma from_seek_lmerge seek a b : lsorted a -> lsorted b ->
  from_seek seek (lmerge a b) = lmerge (from_seek seek a) (from_seek seek b).
Proof.
  intros Sa Sb.
  pose proof (from_seek_sorted seek a Sa) as Fa. pose proof (from_seek_sorted seek b Sb) as Fb.
  apply lsorted_ext.
  - apply from_seek_sorted, lmerge_sorted; auto.
  - apply lmerge_sorted; auto.
  - intros k. rewrite from_seek_lookup. rewrite (lmerge_lookup a b k Sa Sb).
    rewrite (lmerge_lookup _ _ k Fa Fb). rewrite !from_seek_lookup.
    destruct (N.leb seek k); reflexivity.
Qed.

(* keys an iterator will still yield *)
Definition alist (a : witer) (aDone : bool) : list key :=
  if aDone then [] else w_cur a :: w_keys a.

Fixpoint bpend (it : biter) : list key :=
  match it with
  | BLeaf x => w_keys x
  | BNode a b aD bD _ => umerge (alist a aD) (if bD then [] else b_hash b :: bpend b)
  end.

Fixpoint bwf (it : biter) : Prop :=
  match it with
  | BLeaf x => True
  | BNode a b aD bD _ =>
      ksorted (alist a aD) /\ (bD = false -> bwf b /\ ksorted (b_hash b :: bpend b))
  end.

Definition next_ok (r : res (bool * biter)) (pend : list key) : Prop :=
  match pend with
  | [] => exists it', r = Ok (false, it')
  | k :: rest => exists it', r = Ok (true, it') /\ b_hash it' = k /\ bpend it' = rest /\ bwf it'
  end.

Lemma a_adv_spec a :
  let a_adv := match advance a with Some a' => (a', false) | None => (a, true) end in
  alist (fst a_adv) (snd a_adv) = w_keys a.
Proof.
  unfold advance. destruct a as [c ks src p]. cbn. destruct ks; reflexivity.
Qed.

Lemma umerge_skip_eq h ka pb : ksorted (h :: ka) ->
  umerge ka (h :: pb) = h :: umerge ka pb.
Proof.
  intros S. apply ksorted_inv in S. destruct S as [_ F].
  destruct ka as [|k' r']; [now rewrite !umerge_nil_l|].
  inv F. destruct pb as [|p0 pb0].
  - rewrite umerge_cons. destruct (N.ltb_spec k' h); [lia|]. destruct (N.eqb_spec k' h); [lia|].
    now rewrite !umerge_nil_r.
  - rewrite umerge_cons. destruct (N.ltb_spec k' h); [lia|]. destruct (N.eqb_spec k' h); [lia|].
    reflexivity.
Qed.

Lemma bnode_loop_spec b bD k0 (rb : res (bool * biter)) :
  (bD = false -> bwf b /\ ksorted (b_hash b :: bpend b) /\ next_ok rb (bpend b)) ->
  forall fuel a aD, length (alist a aD) < fuel -> aD && bD = false ->
  ksorted (alist a aD) ->
  next_ok (bnode_loop fuel a aD b bD rb) (bpend (BNode a b aD bD k0)).
Proof.
  intros Hb. induction fuel as [|fuel IH]; intros a aD Hf Hd Sa; [lia|].
  cbn [bnode_loop bpend].
  assert (StepB : bD = false -> forall A, ksorted A -> alist a aD = A ->
            next_ok (match rb with
                     | Ok (okb, b') => Ok (true, BNode a b' aD (negb okb) (b_hash b))
                     | Err e => Err e end)
                    (b_hash b :: umerge A (bpend b))).
  { intros HbD A SA EA. destruct (Hb HbD) as (Wb & Sb & Hrb).
    apply ksorted_inv in Sb. destruct Sb as [Sb _].
    unfold next_ok in Hrb. destruct (bpend b) as [|k' r'] eqn:Eb.
    - destruct Hrb as (b' & ->). eexists. split; [reflexivity|]. split; [reflexivity|].
      cbn [bpend negb]. rewrite EA, !umerge_nil_r. split; [reflexivity|].
      cbn [bwf]. rewrite EA. split; [assumption|discriminate].
    - destruct Hrb as (b' & -> & Eh & Ep & Wb'). eexists. split; [reflexivity|].
      split; [reflexivity|]. cbn [bpend negb]. rewrite EA, Eh, Ep. split; [reflexivity|].
      cbn [bwf]. rewrite EA, Eh, Ep. auto. }
  destruct aD.
  - (* a exhausted *)
    destruct bD; [discriminate|]. cbn [alist]. rewrite umerge_nil_l.
    specialize (StepB eq_refl [] ltac:(constructor) eq_refl). rewrite umerge_nil_l in StepB.
    exact StepB.
  - cbn [alist] in *. pose proof (a_adv_spec a) as Ea. cbn zeta in Ea.
    set (a_adv := match advance a with Some a' => (a', false) | None => (a, true) end) in *.
    apply ksorted_inv in Sa. destruct Sa as [Ska Fa].
    destruct bD.
    + rewrite umerge_nil_r. eexists. split; [reflexivity|]. split; [reflexivity|].
      cbn [bpend bwf]. rewrite Ea, umerge_nil_r. split; [reflexivity|]. split; [assumption|discriminate].
    + destruct (Hb eq_refl) as (Wb & Sb & Hrb). rewrite umerge_cons.
      destruct (N.ltb_spec (w_cur a) (b_hash b)).
      * eexists. split; [reflexivity|]. split; [reflexivity|].
        cbn [bpend bwf]. rewrite Ea. split; [reflexivity|]. split; [assumption|].
        intros _. auto.
      * destruct (N.eqb_spec (w_cur a) (b_hash b)) as [Eq|Ne].
        -- (* equal: advance a and loop *)
           assert (Sk2 : ksorted (b_hash b :: w_keys a)).
           { constructor; auto. rewrite <- Eq. assumption. }
           rewrite Eq, <- (umerge_skip_eq _ _ _ Sk2).
           specialize (IH (fst a_adv) (snd a_adv)). cbn [bpend] in IH. rewrite Ea in IH.
           apply IH; auto; [cbn [length] in Hf; lia|apply andb_false_r].
        -- apply (StepB eq_refl (w_cur a :: w_keys a)); auto. constructor; auto.
Qed.

Lemma b_next_spec : forall it, bwf it -> next_ok (b_next it) (bpend it).
Proof.
  induction it as [x|a b IHb aD bD k0]; intros W.
  - cbn [b_next bpend]. unfold advance. destruct x as [c ks src p]. cbn.
    destruct ks as [|k r]; cbn; [eauto|]. eexists. split; [reflexivity|]. cbn. auto.
  - cbn [b_next]. destruct W as [Sa Wb].
    destruct (aD && bD) eqn:Ed.
    + apply andb_true_iff in Ed. destruct Ed as [-> ->]. cbn. eauto.
    + apply bnode_loop_spec; auto.
      * intros HbD. destruct (Wb HbD) as [Wb1 Sb]. auto.
      * unfold alist. destruct aD; cbn [length]; lia.
Qed.

(* ---------------------------------------------------------------------- *)

Definition allkeys (s : stack) (seek : key) : list key := key_list (from_seek seek (flatten s)).

Lemma allkeys_sorted s seek : wf_stack s -> ksorted (allkeys s seek).
Proof. intros W. apply (view_sorted s seek W). Qed.

Lemma allkeys_cons l r seek : lsorted l -> wf_stack r ->
  allkeys (l :: r) seek = umerge (keys_from seek l) (allkeys r seek).
Proof.
  intros Sl W. unfold allkeys. change (flatten (l :: r)) with (lmerge l (flatten r)).
  rewrite from_seek_lmerge, umerge_keys, keys_from_map; auto using flatten_sorted.
Qed.

Lemma allkeys_single d seek : allkeys [d] seek = keys_from seek d.
Proof.
  unfold allkeys. change (flatten [d]) with (lmerge d []). now rewrite lmerge_nil_r, keys_from_map.
Qed.

Lemma bin_init_spec seek : forall s, wf_stack s -> s <> [] ->
  exists it, bin_init s seek = Ok it /\ bwf it /\ bpend it = allkeys s seek.
Proof.
  induction s as [|l r IH]; intros W Hne; [congruence|]. inv W.
  destruct r as [|l2 r2].
  - cbn [bin_init]. rewrite new_iter_spec by assumption. eexists. split; [reflexivity|].
    split; [exact I|]. rewrite allkeys_single. reflexivity.
  - destruct (IH H2 ltac:(discriminate)) as (b & Eb & Wb & Pb).
    cbn [bin_init]. rewrite new_iter_spec by assumption.
    cbn [bin_init] in Eb. rewrite Eb.
    pose proof (a_adv_spec (mkW 0%N (keys_from seek l) l 0)) as Ea. cbn zeta in Ea. cbn [w_keys] in Ea.
    set (a_adv := match advance _ with Some a' => (a', false) | None => (_, true) end) in *.
    pose proof (b_next_spec b Wb) as Hn. rewrite Pb in Hn.
    pose proof (allkeys_sorted (l2 :: r2) seek H2) as Sr.
    assert (Sl : ksorted (keys_from seek l)) by (apply keys_from_sorted; assumption).
    rewrite allkeys_cons by assumption.
    unfold next_ok in Hn. destruct (allkeys (l2 :: r2) seek) as [|k' r'] eqn:Ek.
    + destruct Hn as (b' & ->). eexists. split; [reflexivity|].
      cbn [bpend bwf negb]. rewrite Ea. split; [|reflexivity]. split; [assumption|discriminate].
    + destruct Hn as (b' & -> & Eh & Ep & Wb'). eexists. split; [reflexivity|].
      cbn [bpend bwf negb]. rewrite Ea, Eh, Ep. split; [|reflexivity]. split; [assumption|]. auto.
Qed.

Definition bsel (s : stack) (k : key) : list (key * list N) :=
  match lookup_stack k s with Some (b0 :: bs) => [(k, b0 :: bs)] | _ => [] end.

Lemma bin_collect_spec s : forall fuel it, bwf it -> length (bpend it) < fuel ->
  bin_collect fuel it s = Ok (flat_map (bsel s) (bpend it)).
Proof.
  induction fuel as [|fuel IH]; intros it W Hf; [lia|].
  cbn [bin_collect]. pose proof (b_next_spec it W) as Hn. unfold next_ok in Hn.
  destruct (bpend it) as [|k r] eqn:Ep.
  - destruct Hn as (it' & ->). reflexivity.
  - destruct Hn as (it' & -> & Eh & Er & W'). rewrite Eh. cbn [flat_map]. unfold bsel at 1.
    cbn [length] in Hf. rewrite IH by (auto; rewrite Er; lia). rewrite Er.
    destruct (lookup_stack k s) as [[|b0 bs]|]; reflexivity.
Qed.

Lemma lmerge_length a : forall b, length (lmerge a b) <= length a + length b.
Proof.
  induction a as [|[ka va] ra IHa]; [intros; rewrite lmerge_nil_l; cbn; lia|].
  induction b as [|[kb vb] rb IHb]; [rewrite lmerge_nil_r; lia|].
  rewrite lmerge_cons. destruct (N.ltb ka kb); [|destruct (N.eqb ka kb)]; cbn [length].
  - specialize (IHa ((kb, vb) :: rb)). cbn [length] in IHa. lia.
  - specialize (IHa rb). lia.
  - cbn [length] in IHb. lia.
Qed.

Lemma filter_len {A} (f : A -> bool) l : length (filter f l) <= length l.
Proof. induction l as [|a l IH]; cbn; [lia|]. destruct (f a); cbn; lia. Qed.

Lemma allkeys_length s seek : length (allkeys s seek) <= stack_size s.
Proof.
  unfold allkeys, key_list, from_seek. rewrite map_length.
  eapply Nat.le_trans; [apply filter_len|].
  induction s as [|l r IH]; cbn [stack_size fold_right]; [cbn; lia|].
  change (flatten (l :: r)) with (lmerge l (flatten r)).
  pose proof (lmerge_length l (flatten r)). unfold stack_size in IH. lia.
Qed.

Lemma flat_map_keys {B} (f : key -> list B) (g : key * value -> list B) (F : layer) :
  (forall kv, In kv F -> f (fst kv) = g kv) ->
  flat_map f (key_list F) = flat_map g F.
Proof.
  induction F as [|kv r IH]; cbn; intros H; [reflexivity|].
  rewrite H by auto. f_equal. apply IH. auto.
Qed.

Theorem binary_iter_spec s seek : wf_stack s -> s <> [] ->
  binary_iter s seek = Ok (live_entries live_nonempty s seek).
Proof.
  intros W Hne. unfold binary_iter.
  destruct (bin_init_spec seek s W Hne) as (it & E & Wi & Pi). rewrite E.
  rewrite bin_collect_spec; auto.
  2:{ rewrite Pi. pose proof (allkeys_length s seek). lia. }
  f_equal. rewrite Pi, live_entries_eq. unfold allkeys. apply flat_map_keys.
  intros [k v] Hin. cbn [fst]. unfold bsel, sel. cbn [fst snd].
  apply (lsorted_in_lookup _ _ _ (view_sorted s seek W)) in Hin.
  rewrite view_lookup in Hin by assumption.
  destruct (N.leb seek k); [|discriminate].
  rewrite lookup_stack_first, Hin. destruct v as [[|b0 bs]|]; reflexivity.
Qed.

(* ---------------------------------------------------------------------- *)
(* fast = binary under the "nil means deleted" contract; shape of the output *)

Definition canonical (s : stack) : Prop :=
  Forall (Forall (fun kv : key * value => snd kv <> Some [])) s.

Lemma lmerge_in a : forall b x, In x (lmerge a b) -> In x a \/ In x b.
Proof.
  induction a as [|[ka va] ra IHa]; [intros; rewrite lmerge_nil_l in *; now right|].
  induction b as [|[kb vb] rb IHb]; intros x; [rewrite lmerge_nil_r; auto|].
  rewrite lmerge_cons.
  destruct (N.ltb ka kb); [|destruct (N.eqb ka kb)]; cbn [In]; intros [H|H]; auto.
  - apply IHa in H. cbn [In] in H. tauto.
  - apply IHa in H. tauto.
  - apply IHb in H. cbn [In] in H. tauto.
Qed.

Lemma flatten_in s x : In x (flatten s) -> exists l, In l s /\ In x l.
Proof.
  induction s as [|l r IH]; [intros []|].
  change (flatten (l :: r)) with (lmerge l (flatten r)). intros H.
  apply lmerge_in in H. destruct H as [H|H].
  - exists l. split; [now left|assumption].
  - destruct (IH H) as (l' & Hl & Hx). exists l'. split; [now right|assumption].
Qed.

Lemma live_agree s seek : canonical s ->
  live_entries live_nonnil s seek = live_entries live_nonempty s seek.
Proof.
  intros C. rewrite !live_entries_eq.
  assert (H : forall kv, In kv (from_seek seek (flatten s)) -> sel live_nonnil kv = sel live_nonempty kv).
  { intros [k v] Hin. apply filter_In in Hin. destruct Hin as [Hin _].
    apply flatten_in in Hin. destruct Hin as (l & Hl & Hx).
    unfold canonical in C. rewrite Forall_forall in C. specialize (C l Hl).
    rewrite Forall_forall in C. specialize (C _ Hx). cbn in C.
    unfold sel. cbn [fst snd]. destruct v as [[|b0 bs]|]; [congruence|reflexivity|reflexivity]. }
  induction (from_seek seek (flatten s)) as [|kv r IH]; [reflexivity|].
  cbn [flat_map]. rewrite H by (now left). f_equal. apply IH. intros; apply H. now right.
Qed.

Lemma live_entries_ascending live s seek : wf_stack s ->
  ksorted (map fst (live_entries live s seek)).
Proof.
  intros W. rewrite live_entries_eq.
  apply (flat_sel_spec live _ (view_sorted s seek W)).
Qed.

Lemma live_entries_meaning live s seek k b : wf_stack s ->
  In (k, b) (live_entries live s seek) <->
  ((seek <= k)%N /\ lookup_first k s = Some (Some b) /\ live (Some b) = true).
Proof.
  intros W. rewrite live_entries_eq.
  destruct (flat_sel_spec live _ (view_sorted s seek W)) as (_ & _ & T).
  rewrite T, view_lookup by assumption.
  destruct (N.leb_spec seek k) as [Hle|Hgt]; split; intros Hx; try tauto.
  - destruct Hx as [Hx _]. discriminate.
  - lia.
Qed.
