(* PathDB/HistoryProofs.v -- invariant and lemmas for the state-history model
   PathDB/History.v (C17: rollback; the index / reader part is in HistoryReadProofs.v).

   The ghost chain [l] is the list of committed transitions, NEWEST FIRST:
   a commit conses, a revert pops.  [sem_rev l] is the specification state. *)
From GV Require Import Lib.Tactics PathDB.History.
Local Open Scope N_scope.

(* ---------- keys and point updates --------------------------------------------- *)

Lemma key_eqb_eq x y : key_eqb x y = true <-> x = y.
Proof.
  destruct x, y; simpl; split; intro H; try discriminate; try congruence.
  - apply N.eqb_eq in H. congruence.
  - injection H as ->. apply N.eqb_refl.
  - apply andb_true_iff in H as [H1 H2]. apply N.eqb_eq in H1, H2. congruence.
  - injection H as -> ->. rewrite !N.eqb_refl. reflexivity.
Qed.

Lemma key_eqb_refl x : key_eqb x x = true.
Proof. apply key_eqb_eq. reflexivity. Qed.

Lemma key_eqb_neq x y : x <> y -> key_eqb x y = false.
Proof. intro H. destruct (key_eqb x y) eqn:E; auto. apply key_eqb_eq in E. contradiction. Qed.

Lemma key_dec (x y : key) : {x = y} + {x <> y}.
Proof.
  destruct (key_eqb x y) eqn:E.
  - left. apply key_eqb_eq. exact E.
  - right. intro H. apply key_eqb_eq in H. congruence.
Qed.

Lemma upd_same {V} (m : key -> V) k v : upd m k v k = v.
Proof. unfold upd. rewrite key_eqb_refl. reflexivity. Qed.

Lemma upd_other {V} (m : key -> V) k v k' : k <> k' -> upd m k v k' = m k'.
Proof. intro H. unfold upd. rewrite key_eqb_neq; auto. Qed.

(* fold of point updates over a list of pairs *)
Definition fu {V} (m : key -> V) (ps : list (key * V)) : key -> V :=
  fold_left (fun m p => upd m (fst p) (snd p)) ps m.

Lemma fu_notin {V} (ps : list (key * V)) : forall m k,
  ~ In k (map fst ps) -> fu m ps k = m k.
Proof.
  induction ps as [|[k0 v0] ps IH]; intros m k H; simpl in *; auto.
  unfold fu in *. simpl. rewrite IH by tauto. apply upd_other. tauto.
Qed.

Lemma fu_in {V} (ps : list (key * V)) : forall m k v,
  NoDup (map fst ps) -> In (k, v) ps -> fu m ps k = v.
Proof.
  induction ps as [|[k0 v0] ps IH]; intros m k v ND HI; simpl in *; [contradiction|].
  inversion ND as [|? ? Hn ND']; subst. unfold fu in *. simpl.
  destruct HI as [HI|HI].
  - injection HI as -> ->. fold (fu (upd m k v) ps). rewrite fu_notin by exact Hn. apply upd_same.
  - apply IH; auto.
Qed.

Lemma fu_ext {V} (ps : list (key * V)) : forall m m' k,
  m k = m' k -> fu m ps k = fu m' ps k.
Proof.
  induction ps as [|[k0 v0] ps IH]; intros m m' k H; simpl; auto.
  unfold fu in *. simpl. apply IH. unfold upd. destruct (key_eqb k0 k); auto.
Qed.

(* ---------- the specification ---------------------------------------------------- *)

Definition news (t : transition) : list (key * N) := map (fun c => (c_key c, c_new c)) (t_changes t).
Definition origs (t : transition) : list (key * N) := map (fun c => (c_key c, c_orig c)) (t_changes t).

Definition apply_tr (m : key -> N) (t : transition) : key -> N := fu m (news t).

Fixpoint sem_rev (l : list transition) : key -> N :=
  match l with [] => fun _ => 0 | t :: r => apply_tr (sem_rev r) t end.

Definition root_rev (r0 : N) (l : list transition) : N :=
  match l with [] => r0 | t :: _ => t_root t end.

Definition len (l : list transition) : N := N.of_nat (length l).

(* what the caller (the state layer) guarantees about a transition on top of state m *)
Record wf_tr (m : key -> N) (t : transition) : Prop := {
  w_nodup : NoDup (map c_key (t_changes t));
  w_orig : forall c, In c (t_changes t) -> c_orig c = m (c_key c);
  w_nonnull : forall c, In c (t_changes t) -> ~ (c_orig c = 0 /\ c_new c = 0);
  w_acct : exists c, In c (t_changes t) /\ is_KA (c_key c) = true;
  w_owner : forall c a s, In c (t_changes t) -> c_key c = KS a s ->
            exists c', In c' (t_changes t) /\ c_key c' = KA a }.

Lemma wf_tr_ext m m' t : (forall k, m k = m' k) -> wf_tr m t -> wf_tr m' t.
Proof.
  intros E [H1 H2 H3 H4 H5]. constructor; auto. intros c Hc. rewrite <- E. auto.
Qed.

Fixpoint wf_chain (l : list transition) : Prop :=
  match l with [] => True | t :: r => wf_tr (sem_rev r) t /\ wf_chain r end.

Lemma map_fst_news t : map fst (news t) = map c_key (t_changes t).
Proof. unfold news. rewrite map_map. reflexivity. Qed.
Lemma map_fst_origs t : map fst (origs t) = map c_key (t_changes t).
Proof. unfold origs. rewrite map_map. reflexivity. Qed.

Lemma apply_tr_notin m t k :
  ~ In k (map c_key (t_changes t)) -> apply_tr m t k = m k.
Proof. intro H. unfold apply_tr. apply fu_notin. rewrite map_fst_news. exact H. Qed.

Lemma apply_tr_in m t c :
  NoDup (map c_key (t_changes t)) -> In c (t_changes t) -> apply_tr m t (c_key c) = c_new c.
Proof.
  intros ND HI. unfold apply_tr. apply fu_in.
  - rewrite map_fst_news. exact ND.
  - unfold news. apply in_map_iff. exists c. auto.
Qed.

Lemma apply_tr_ext m m' t k : m k = m' k -> apply_tr m t k = apply_tr m' t k.
Proof. apply fu_ext. Qed.

(* undoing a transition with its original values *)
Lemma fu_origs_undo m t k :
  wf_tr m t -> fu (apply_tr m t) (origs t) k = m k.
Proof.
  intros W. destruct (in_dec key_dec k (map c_key (t_changes t))) as [HI|HN].
  - apply in_map_iff in HI as [c [<- Hc]].
    rewrite (fu_in (origs t) _ (c_key c) (c_orig c)).
    + apply (w_orig _ _ W). exact Hc.
    + rewrite map_fst_origs. apply (w_nodup _ _ W).
    + unfold origs. apply in_map_iff. exists c. auto.
  - rewrite fu_notin by (rewrite map_fst_origs; exact HN). apply apply_tr_notin. exact HN.
Qed.

(* ---------- histories of well-formed transitions -------------------------------- *)

Lemma has_acct_origs t a :
  has_acct (origs t) a = true <-> exists c, In c (t_changes t) /\ c_key c = KA a.
Proof.
  unfold has_acct. rewrite existsb_exists. split.
  - intros [[k v] [HI H]]. unfold origs in HI. apply in_map_iff in HI as [c [E Hc]].
    injection E as <- <-. simpl in H. destruct (c_key c) eqn:Ek; try discriminate.
    apply N.eqb_eq in H. subst. exists c. auto.
  - intros [c [Hc E]]. exists (c_key c, c_orig c). split.
    + unfold origs. apply in_map_iff. exists c. auto.
    + simpl. rewrite E. apply N.eqb_refl.
Qed.

Lemma filter_id {A} (f : A -> bool) (l : list A) :
  (forall x, In x l -> f x = true) -> filter f l = l.
Proof.
  induction l as [|x l IH]; intro H; simpl; auto.
  rewrite H by (left; reflexivity). f_equal. apply IH. intros y Hy. apply H. right. exact Hy.
Qed.

Lemma mk_history_wf m parent root t :
  wf_tr m t -> mk_history parent root (t_changes t) = mkHist parent root (origs t).
Proof.
  intro W. unfold mk_history. fold (origs t). f_equal. apply filter_id.
  intros [k v] HI. simpl. destruct k as [a|a s]; auto.
  unfold origs in HI. apply in_map_iff in HI as [c [E Hc]]. injection E as Ek Ev.
  apply has_acct_origs. apply (w_owner _ _ W c a s Hc Ek).
Qed.

Lemma state_set_wf m parent root t :
  wf_tr m t -> state_set (mkHist parent root (origs t)) = origs t.
Proof.
  intro W. unfold state_set. simpl. apply filter_id.
  intros [k v] HI. simpl. destruct k as [a|a s]; auto.
  unfold origs in HI. apply in_map_iff in HI as [c [E Hc]]. injection E as Ek Ev.
  apply has_acct_origs. apply (w_owner _ _ W c a s Hc Ek).
Qed.

Lemma decodable_wf m parent root t :
  wf_tr m t -> h_decodable (mkHist parent root (origs t)) = true.
Proof.
  intro W. destruct (w_acct _ _ W) as [c [Hc Hk]].
  unfold h_decodable. simpl. apply existsb_exists. exists (c_key c, c_orig c). split.
  - unfold origs. apply in_map_iff. exists c. auto.
  - exact Hk.
Qed.

(* ---------- invariant -------------------------------------------------------------- *)

(* the freezer holds, for every retained id, the history of that transition *)
Fixpoint frz_ok (r0 : N) (f : frz) (l : list transition) : Prop :=
  match l with
  | [] => True
  | t :: r =>
      (fr_tail f < len l -> fr_data f (len l) = Some (mkHist (root_rev r0 r) (t_root t) (origs t)))
      /\ frz_ok r0 f r
  end.

(* the root -> id table never under-estimates the latest occurrence of a root *)
Fixpoint ids_ok (r0 : N) (m : N -> option N) (l : list transition) : Prop :=
  (forall i, m (root_rev r0 l) = Some i -> len l <= i) /\
  match l with [] => True | _ :: r => ids_ok r0 m r end.

(* the diff layers: consecutive ids, well-formed on top of the running state *)
Fixpoint diffs_ok (m : key -> N) (id : N) (ds : list diff) : Prop :=
  match ds with
  | [] => True
  | d :: r => d_id d = id + 1 /\ d_root d = t_root (d_tr d) /\ wf_tr m (d_tr d) /\
              diffs_ok (apply_tr m (d_tr d)) (id + 1) r
  end.

Definition bl (o : disk) : nat := N.to_nat (buf_layers o).

(* the disk layer (buffer over store) represents the chain l; its store the chain
   without the newest bl transitions *)
Record DInv (r0 : N) (l : list transition) (o : disk) : Prop := {
  i_id : disk_id o = len l;
  i_root : disk_root o = root_rev r0 l;
  i_eff : forall k, eff o k = sem_rev l k;
  i_bl : (bl o <= length l)%nat;
  i_pid : pid o + buf_layers o = disk_id o;
  i_pflat : forall k, pflat o k = sem_rev (skipn (bl o) l) k;
  i_buf_in : forall t c, In t (firstn (bl o) l) -> In c (t_changes t) -> buf o (c_key c) <> None;
  i_buf_empty : buf_layers o = 0 -> forall k, buf o k = None }.

(* what holds all along a Recover: the freezer head may be ahead of the disk layer *)
Record RInv (r0 : N) (l : list transition) (st : db) : Prop := {
  i_disk : DInv r0 l (dk st);
  i_headle : len l <= fr_head (fr st);
  i_frz : frz_ok r0 (fr st) l;
  i_wf : wf_chain l;
  i_ids : ids_ok r0 (ids st) l }.

(* between operations the freezer head is the disk layer's id *)
Record CInv (r0 : N) (l : list transition) (st : db) : Prop := {
  i_r : RInv r0 l st;
  i_head : fr_head (fr st) = len l;
  i_tail : fr_tail (fr st) <= fr_head (fr st) }.

Record Inv (r0 : N) (l : list transition) (st : db) : Prop := {
  i_c : CInv r0 l st;
  i_diffs : diffs_ok (sem_rev l) (len l) (diffs st) }.

Lemma diffs_ok_ext ds : forall m m' id,
  (forall k, m k = m' k) -> diffs_ok m id ds -> diffs_ok m' id ds.
Proof.
  induction ds as [|d r IH]; intros m m' id E H; simpl in *; auto.
  destruct H as [H1 [H2 [H3 H4]]]. split; [exact H1|]. split; [exact H2|]. split.
  - eapply wf_tr_ext; eauto.
  - eapply IH; [|exact H4]. intro k. apply apply_tr_ext. apply E.
Qed.

Lemma len_cons t l : len (t :: l) = len l + 1.
Proof. unfold len. simpl length. lia. Qed.

(* ---------- the freezer part is insensitive to ids above the chain ---------------- *)

Lemma frz_ok_write r0 f l id h :
  len l < id ->
  frz_ok r0 f l -> frz_ok r0 (mkFrz (fr_tail f) id (updN (fr_data f) id (Some h))) l.
Proof.
  induction l as [|t r IH]; intros Hlt H; simpl in *; auto.
  destruct H as [H1 H2]. split.
  - intro Ht. unfold updN. fold (len (t :: r)) in *.
    destruct (id =? len (t :: r)) eqn:E; [apply N.eqb_eq in E; lia|]. apply H1. exact Ht.
  - apply IH; auto. rewrite len_cons in Hlt. lia.
Qed.

Lemma frz_ok_window r0 f l tail' head' :
  fr_tail f <= tail' ->
  frz_ok r0 f l -> frz_ok r0 (mkFrz tail' head' (fr_data f)) l.
Proof.
  intro Ht. induction l as [|t r IH]; intro H; simpl in *; auto.
  destruct H as [H1 H2]. split; auto. intro Hl. apply H1. lia.
Qed.

Lemma frz_ok_data r0 f pre : forall l t r,
  frz_ok r0 f l -> l = pre ++ t :: r -> fr_tail f < len (t :: r) ->
  fr_data f (len (t :: r)) = Some (mkHist (root_rev r0 r) (t_root t) (origs t)).
Proof.
  induction pre as [|p pre IH]; intros l t r H E Ht.
  - simpl in E. subst l. simpl in H. destruct H as [H1 _]. apply H1. exact Ht.
  - simpl in E. subst l. simpl in H. destruct H as [_ H2]. eapply IH; eauto.
Qed.

Lemma frz_ok_read r0 f l pre t r :
  frz_ok r0 f l -> len l <= fr_head f ->
  l = pre ++ t :: r -> fr_tail f < len (t :: r) ->
  fr_read f (len (t :: r)) = Some (mkHist (root_rev r0 r) (t_root t) (origs t)).
Proof.
  intros H Hh E Ht. unfold fr_read.
  replace (fr_tail f <? len (t :: r)) with true by (symmetry; apply N.ltb_lt; exact Ht).
  assert (len (t :: r) <= len l).
  { subst l. unfold len. rewrite app_length. lia. }
  replace (len (t :: r) <=? fr_head f) with true by (symmetry; apply N.leb_le; lia).
  simpl. eapply frz_ok_data; eauto.
Qed.

(* ---------- the write buffer: commit and revert ----------------------------------- *)

Lemma fold_upd_fu {A V} (f : A -> key) (g : A -> V) (cs : list A) : forall m,
  fold_left (fun m c => upd m (f c) (g c)) cs m = fu m (map (fun c => (f c, g c)) cs).
Proof. induction cs as [|c cs IH]; intro m; simpl; auto. Qed.

Definition somes (t : transition) : list (key * option N) :=
  map (fun c => (c_key c, Some (c_new c))) (t_changes t).

Lemma merge_changes_fu b t : merge_changes b (t_changes t) = fu b (somes t).
Proof. unfold merge_changes, somes. apply fold_upd_fu. Qed.

Lemma map_fst_somes t : map fst (somes t) = map c_key (t_changes t).
Proof. unfold somes. rewrite map_map. reflexivity. Qed.

Lemma merged_in b t c :
  NoDup (map c_key (t_changes t)) -> In c (t_changes t) ->
  fu b (somes t) (c_key c) = Some (c_new c).
Proof.
  intros ND HI. apply fu_in.
  - rewrite map_fst_somes. exact ND.
  - unfold somes. apply in_map_iff. exists c. auto.
Qed.

Lemma merged_notin b t k :
  ~ In k (map c_key (t_changes t)) -> fu b (somes t) k = b k.
Proof. intro H. apply fu_notin. rewrite map_fst_somes. exact H. Qed.

Lemma eff_merged o t k (b' : key -> option N) :
  NoDup (map c_key (t_changes t)) ->
  (forall k, b' k = fu (buf o) (somes t) k) ->
  match b' k with Some v => v | None => pflat o k end = apply_tr (eff o) t k.
Proof.
  intros ND E. rewrite E.
  destruct (in_dec key_dec k (map c_key (t_changes t))) as [HI|HN].
  - apply in_map_iff in HI as [c [<- Hc]]. rewrite merged_in by auto.
    symmetry. apply apply_tr_in; auto.
  - rewrite merged_notin by exact HN. rewrite apply_tr_notin by exact HN. reflexivity.
Qed.

Lemma commit_disk_ok r0 l o d fl :
  DInv r0 l o -> wf_tr (sem_rev l) (d_tr d) -> d_id d = len l + 1 -> d_root d = t_root (d_tr d) ->
  exists o', commit_disk o d fl = Ok o' /\ DInv r0 (d_tr d :: l) o'.
Proof.
  intros D W Hid Hroot. set (t := d_tr d) in *.
  assert (ND := w_nodup _ _ W).
  assert (E1 : forall k, match fu (buf o) (somes t) k with Some v => v | None => pflat o k end
                         = sem_rev (t :: l) k).
  { intro k. rewrite (eff_merged o t k (fu (buf o) (somes t))) by auto.
    simpl. apply apply_tr_ext. apply (i_eff _ _ _ D). }
  assert (Hb : N.to_nat (buf_layers o + 1) = S (bl o)) by (unfold bl; lia).
  unfold commit_disk. fold t. rewrite merge_changes_fu. destruct fl.
  - (* flush *)
    unfold flush_buffer. simpl.
    replace (pid o + (buf_layers o + 1) =? d_id d) with true.
    2:{ symmetry. apply N.eqb_eq. rewrite Hid, <- (i_id _ _ _ D), <- (i_pid _ _ _ D). lia. }
    simpl. eexists. split; [reflexivity|]. constructor; simpl.
    + rewrite Hid, len_cons. reflexivity.
    + exact Hroot.
    + intro k. unfold eff. simpl. apply E1.
    + unfold bl. simpl. lia.
    + lia.
    + intro k. unfold bl. simpl. unfold eff. simpl. apply E1.
    + unfold bl. simpl. intros ? ? [].
    + reflexivity.
  - eexists. split; [reflexivity|]. constructor; simpl.
    + rewrite Hid, len_cons. reflexivity.
    + exact Hroot.
    + intro k. unfold eff. simpl. apply E1.
    + unfold bl. simpl. rewrite Hb. assert (X := i_bl _ _ _ D). lia.
    + rewrite Hid, <- (i_id _ _ _ D), <- (i_pid _ _ _ D). lia.
    + intro k. unfold bl. simpl. rewrite Hb. simpl. apply (i_pflat _ _ _ D).
    + unfold bl. simpl. rewrite Hb. simpl. intros t' c [<-|Ht'] Hc.
      * rewrite merged_in by auto. discriminate.
      * destruct (in_dec key_dec (c_key c) (map c_key (t_changes t))) as [HI|HN].
        -- apply in_map_iff in HI as [c' [E' Hc']]. rewrite <- E'. rewrite merged_in by auto. discriminate.
        -- rewrite merged_notin by exact HN. apply (i_buf_in _ _ _ D t' c); auto.
    + intro H0. lia.
Qed.

(* stateSet.revertTo succeeds when every key is cached and no change is null-to-null *)
Lemma buf_revert_ok (os : list (key * N)) : forall b,
  NoDup (map fst os) ->
  (forall k v, In (k, v) os -> exists cur, b k = Some cur /\ ~ (cur = 0 /\ v = 0)) ->
  exists b', buf_revert b os = Ok b' /\
             forall k, b' k = fu b (map (fun p => (fst p, Some (snd p))) os) k.
Proof.
  induction os as [|[k0 v0] os IH]; intros b ND H; simpl.
  - eexists. split; [reflexivity|]. reflexivity.
  - inversion ND as [|? ? Hn ND']; subst.
    destruct (H k0 v0 (or_introl eq_refl)) as [cur [Hc Hnn]]. rewrite Hc.
    destruct ((cur =? 0) && (v0 =? 0)) eqn:Ez.
    { apply andb_true_iff in Ez as [E1 E2]. apply N.eqb_eq in E1, E2. tauto. }
    destruct (IH (upd b k0 (Some v0)) ND') as [b' [Hb' Hk]].
    + intros k v HI. assert (k <> k0).
      { intro; subst. apply Hn. apply in_map_iff. exists (k0, v). auto. }
      rewrite upd_other by congruence. apply H. right. exact HI.
    + exists b'. split; [exact Hb'|]. intro k. rewrite Hk. unfold fu. simpl. reflexivity.
Qed.

Lemma revert_disk_ok r0 l t o :
  DInv r0 (t :: l) o -> wf_tr (sem_rev l) t ->
  exists o', revert_disk o (mkHist (root_rev r0 l) (t_root t) (origs t)) = Ok o' /\ DInv r0 l o'.
Proof.
  intros D W. assert (ND := w_nodup _ _ W).
  assert (Hid : disk_id o - 1 = len l) by (rewrite (i_id _ _ _ D), len_cons; lia).
  unfold revert_disk. rewrite (state_set_wf _ _ _ _ W). simpl h_parent.
  destruct (buf_layers o =? 0) eqn:Eb; simpl.
  - (* persistent state *)
    apply N.eqb_eq in Eb. assert (Hbl : bl o = 0%nat) by (unfold bl; lia).
    eexists. split; [reflexivity|]. constructor; simpl.
    + exact Hid.
    + reflexivity.
    + intro k. unfold eff. simpl. rewrite (i_buf_empty _ _ _ D Eb).
      unfold flat_revert. fold (fu (pflat o) (origs t)).
      rewrite (fu_ext (origs t) (pflat o) (apply_tr (sem_rev l) t) k).
      * apply fu_origs_undo. exact W.
      * rewrite (i_pflat _ _ _ D). rewrite Hbl. reflexivity.
    + unfold bl. simpl. lia.
    + lia.
    + intro k. unfold bl. simpl. unfold flat_revert. fold (fu (pflat o) (origs t)).
      rewrite (fu_ext (origs t) (pflat o) (apply_tr (sem_rev l) t) k).
      * apply fu_origs_undo. exact W.
      * rewrite (i_pflat _ _ _ D). rewrite Hbl. reflexivity.
    + unfold bl. simpl. intros ? ? [].
    + intros _. apply (i_buf_empty _ _ _ D Eb).
  - apply N.eqb_neq in Eb.
    assert (Hb : bl o = S (N.to_nat (buf_layers o - 1))) by (unfold bl; lia).
    destruct (buf_layers o - 1 =? 0) eqn:E1.
    + (* the buffer held only this transition: reset *)
      apply N.eqb_eq in E1. assert (Hb1 : bl o = 1%nat) by lia.
      eexists. split; [reflexivity|]. constructor; simpl.
      * exact Hid.
      * reflexivity.
      * intro k. unfold eff. simpl. rewrite (i_pflat _ _ _ D). rewrite Hb1. reflexivity.
      * unfold bl. simpl. lia.
      * assert (X := i_pid _ _ _ D). lia.
      * intro k. unfold bl. simpl. rewrite (i_pflat _ _ _ D). rewrite Hb1. reflexivity.
      * unfold bl. simpl. intros ? ? [].
      * intros _ k. reflexivity.
    + apply N.eqb_neq in E1.
      destruct (buf_revert_ok (origs t) (buf o)) as [b' [Hb' Hk]].
      * rewrite map_fst_origs. exact ND.
      * intros k v HI. unfold origs in HI. apply in_map_iff in HI as [c [E Hc]].
        injection E as <- <-.
        assert (Hin : buf o (c_key c) <> None).
        { apply (i_buf_in _ _ _ D t c); auto. rewrite Hb. simpl. left. reflexivity. }
        destruct (buf o (c_key c)) as [cur|] eqn:Ec; [|contradiction].
        exists cur. split; [reflexivity|].
        assert (cur = c_new c).
        { assert (X := i_eff _ _ _ D (c_key c)). unfold eff in X. rewrite Ec in X.
          rewrite X. simpl. apply apply_tr_in; auto. }
        subst cur. intros [A B]. apply (w_nonnull _ _ W c Hc). tauto.
      * rewrite Hb'. eexists. split; [reflexivity|].
        set (os := map (fun p : key * N => (fst p, Some (snd p))) (origs t)) in *.
        assert (Hfst : map fst os = map c_key (t_changes t)).
        { unfold os, origs. rewrite !map_map. reflexivity. }
        assert (Hin : forall c, In c (t_changes t) -> b' (c_key c) = Some (c_orig c)).
        { intros c Hc. rewrite Hk. apply fu_in; [rewrite Hfst; exact ND|].
          unfold os, origs. rewrite map_map. apply in_map_iff. exists c. auto. }
        assert (Hnot : forall k, ~ In k (map c_key (t_changes t)) -> b' k = buf o k).
        { intros k Hn. rewrite Hk. apply fu_notin. rewrite Hfst. exact Hn. }
        constructor; simpl.
        -- exact Hid.
        -- reflexivity.
        -- intro k. unfold eff. simpl.
           destruct (in_dec key_dec k (map c_key (t_changes t))) as [HI|HN].
           ++ apply in_map_iff in HI as [c [<- Hc]]. rewrite Hin by auto.
              apply (w_orig _ _ W). exact Hc.
           ++ rewrite Hnot by auto. assert (X := i_eff _ _ _ D k). unfold eff in X. rewrite X.
              simpl. apply apply_tr_notin. exact HN.
        -- unfold bl. simpl. assert (X := i_bl _ _ _ D). simpl in X. lia.
        -- assert (X := i_pid _ _ _ D). lia.
        -- intro k. unfold bl. simpl. rewrite (i_pflat _ _ _ D). rewrite Hb. reflexivity.
        -- unfold bl. simpl. intros t' c Ht' Hc.
           assert (X : buf o (c_key c) <> None).
           { apply (i_buf_in _ _ _ D t' c); auto. rewrite Hb. simpl. right. exact Ht'. }
           destruct (in_dec key_dec (c_key c) (map c_key (t_changes t))) as [HI|HN].
           ++ apply in_map_iff in HI as [c' [E' Hc']]. rewrite <- E'. rewrite Hin by auto. discriminate.
           ++ rewrite Hnot by auto. exact X.
        -- intro H0. lia.
Qed.

(* ---------- revert, the Recover loop ------------------------------------------------- *)

Lemma ids_ok_suffix r0 m pre : forall s, ids_ok r0 m (pre ++ s) -> ids_ok r0 m s.
Proof.
  induction pre as [|p pre IH]; intros s H; simpl in *; auto. apply IH. apply H.
Qed.

Lemma ids_ok_weaken r0 m m' l :
  (forall x i, m' x = Some i -> m x = Some i \/ len l <= i) ->
  ids_ok r0 m l -> ids_ok r0 m' l.
Proof.
  induction l as [|t r IH]; intros Hm H.
  - simpl in *. split; auto. intros i Hi. destruct (Hm _ _ Hi) as [A|A]; [apply H; exact A|exact A].
  - simpl in H. destruct H as [H1 H2]. split.
    + intros i Hi. destruct (Hm _ _ Hi) as [A|A]; [apply H1; exact A|exact A].
    + apply IH; auto. intros x i Hi. destruct (Hm _ _ Hi) as [A|A]; auto.
      right. rewrite len_cons in A. lia.
Qed.

Definition same_but_disk (st st' : db) : Prop :=
  cfg st' = cfg st /\ wait_sync st' = wait_sync st /\ ids st' = ids st /\ fr st' = fr st /\
  diffs st' = diffs st /\ ix st' = ix st.

Lemma revert_step r0 t l st :
  RInv r0 (t :: l) st -> ix st = None -> fr_tail (fr st) < len (t :: l) ->
  let h := mkHist (root_rev r0 l) (t_root t) (origs t) in
  read_history (fr st) (disk_id (dk st)) = Ok h /\
  exists st', revert st h = Done st' /\ RInv r0 l st' /\ same_but_disk st st'.
Proof.
  intros R Hix Ht h. destruct R as [D Hh F W I]. simpl in W. destruct W as [W Wc].
  assert (Hr : fr_read (fr st) (len (t :: l)) = Some h).
  { apply (frz_ok_read r0 (fr st) (t :: l) [] t l); auto. }
  split.
  - unfold read_history. rewrite (i_id _ _ _ D). rewrite Hr.
    unfold h. rewrite (decodable_wf _ _ _ _ W). reflexivity.
  - destruct (revert_disk_ok r0 l t (dk st) D W) as [o' [Ho' D']]. fold h in Ho'.
    unfold revert. simpl h_root.
    replace (t_root t =? disk_root (dk st)) with true.
    2:{ symmetry. apply N.eqb_eq. rewrite (i_root _ _ _ D). reflexivity. }
    simpl negb. cbv iota.
    replace (disk_id (dk st) =? 0) with false.
    2:{ symmetry. apply N.eqb_neq. rewrite (i_id _ _ _ D), len_cons. lia. }
    rewrite Hix. simpl. rewrite Ho'.
    eexists. split; [reflexivity|]. split.
    + constructor; simpl; auto.
      * rewrite len_cons in Hh. lia.
      * simpl in F. apply F.
      * simpl in I. apply I.
    + unfold same_but_disk. simpl. rewrite Hix. auto 10.
Qed.

Lemma rinv_set_diffs r0 l st ds : RInv r0 l st -> RInv r0 l (set_diffs st ds).
Proof. intros [D Hh F W I]. constructor; simpl; auto. Qed.

Lemma recover_loop_ok r0 root pre : forall l st fuel,
  RInv r0 (pre ++ l) st -> ix st = None ->
  root_rev r0 l = root ->
  (forall p1 p2, pre = p1 ++ p2 -> p2 <> [] -> root_rev r0 (p2 ++ l) <> root) ->
  fr_tail (fr st) <= len l ->
  (length pre < fuel)%nat ->
  exists st', recover_loop fuel st root = Done st' /\ RInv r0 l st' /\
              cfg st' = cfg st /\ wait_sync st' = wait_sync st /\ ids st' = ids st /\
              fr st' = fr st /\ ix st' = None /\
              ((pre = [] /\ st' = st) \/ diffs st' = []).
Proof.
  induction pre as [|p pre IH]; intros l st fuel R Hix Hroot Hne Ht Hf.
  - simpl in R. exists st. split.
    + destruct fuel; simpl; replace (disk_root (dk st) =? root) with true; auto;
        symmetry; apply N.eqb_eq; rewrite (i_root _ _ _ (i_disk _ _ _ R)); exact Hroot.
    + auto 10.
  - simpl in R. destruct fuel as [|fuel]; [simpl in Hf; lia|].
    assert (Htl : fr_tail (fr st) < len (p :: pre ++ l)).
    { rewrite len_cons. unfold len in *. rewrite app_length. lia. }
    destruct (revert_step r0 p (pre ++ l) st R Hix Htl) as [Hread [st1 [Hrev [R1 S1]]]].
    destruct S1 as [Sc [Sw [Si [Sf [Sd Sx]]]]].
    simpl recover_loop.
    replace (disk_root (dk st) =? root) with false.
    2:{ symmetry. apply N.eqb_neq. rewrite (i_root _ _ _ (i_disk _ _ _ R)).
        apply (Hne [] (p :: pre)); [reflexivity|discriminate]. }
    rewrite Hread, Hrev.
    destruct (IH l (set_diffs st1 []) fuel) as [st' [Hl [R' [Ec [Ew [Ei [Ef [Ex Hd]]]]]]]].
    + apply rinv_set_diffs. exact R1.
    + simpl. rewrite Sx. exact Hix.
    + exact Hroot.
    + intros p1 p2 E Hp2. apply (Hne (p :: p1) p2); [simpl; rewrite E; reflexivity|exact Hp2].
    + simpl. rewrite Sf. exact Ht.
    + simpl in Hf. lia.
    + exists st'. split; [exact Hl|]. split; [exact R'|].
      simpl in *. rewrite Ec, Ew, Ei, Ef, Sc, Sw, Si, Sf.
      repeat (split; [reflexivity|]). split; [exact Ex|].
      right. destruct Hd as [[_ E]|E]; [subst st'; reflexivity|exact E].
Qed.

(* splitting a chain at a given length *)
Lemma split_at_len (l0 : list transition) (i : N) :
  i < len l0 -> exists pre t l, l0 = pre ++ t :: l /\ len l = i.
Proof.
  intro H. unfold len in *.
  set (n := (length l0 - S (N.to_nat i))%nat).
  assert (Hn : (n < length l0)%nat) by (unfold n; lia).
  destruct (nth_split l0 (mkTr 0 []) Hn) as [pre [l [E Hl]]].
  exists pre, (nth n l0 (mkTr 0 [])), l. split; [exact E|].
  apply (f_equal (@length transition)) in E. rewrite app_length in E. simpl in E. unfold n in *. lia.
Qed.

Definition outcome_state (o : out) : db := match o with Done s => s | Fail _ s => s end.

Theorem recover_exact r0 l0 st root :
  Inv r0 l0 st -> ix st = None -> recoverable st root = true ->
  exists pre l st',
    l0 = pre ++ l /\ pre <> [] /\ root_rev r0 l = root /\ ids st root = Some (len l) /\
    recover st root = Done st' /\ Inv r0 l st' /\
    (forall k, eff (dk st') k = sem_rev l k) /\
    disk_root (dk st') = root /\ disk_id (dk st') = len l /\
    fr_head (fr st') = len l /\ fr_tail (fr st') = fr_tail (fr st) /\
    fr_data (fr st') = fr_data (fr st) /\
    ids st' = ids st /\ diffs st' = [].
Proof.
  intros [[R Hhead Htail] Hdiffs] Hix Hrec.
  unfold recoverable in Hrec.
  destruct (wait_sync st) eqn:Ews; [discriminate|].
  destruct (ids st root) as [i|] eqn:Eid; [|discriminate].
  destruct (disk_id (dk st) <=? i) eqn:Ele; [discriminate|]. apply N.leb_gt in Ele.
  rewrite (i_id _ _ _ (i_disk _ _ _ R)) in Ele.
  destruct (fr_read (fr st) (i + 1)) as [h|] eqn:Eread; [|discriminate]. apply N.eqb_eq in Hrec.
  destruct (split_at_len l0 i Ele) as [pre0 [t [l [E Hl]]]].
  assert (Htl : fr_tail (fr st) < len (t :: l)).
  { unfold fr_read in Eread. destruct (fr_tail (fr st) <? i + 1) eqn:E1; [|discriminate].
    apply N.ltb_lt in E1. rewrite len_cons. lia. }
  assert (Hr := frz_ok_read r0 (fr st) l0 pre0 t l (i_frz _ _ _ R) (i_headle _ _ _ R) E Htl).
  rewrite len_cons, Hl, Eread in Hr. injection Hr as Hh. subst h. simpl in Hrec.
  set (pre := pre0 ++ [t]).
  assert (El0 : l0 = pre ++ l) by (unfold pre; rewrite <- app_assoc; exact E).
  assert (Hne : forall p1 p2, pre = p1 ++ p2 -> p2 <> [] -> root_rev r0 (p2 ++ l) <> root).
  { intros p1 p2 Ep Hp2 Hroot.
    assert (I2 : ids_ok r0 (ids st) (p2 ++ l)).
    { apply (ids_ok_suffix r0 (ids st) p1). rewrite app_assoc, <- Ep, <- El0. apply (i_ids _ _ _ R). }
    destruct (p2 ++ l) eqn:Ep2.
    - destruct p2; [exfalso; apply Hp2; reflexivity|discriminate].
    - simpl in I2. destruct I2 as [I2 _]. simpl in Hroot. simpl in I2. rewrite Hroot, Eid in I2.
      specialize (I2 i eq_refl).
      assert (len (t0 :: l1) = len (p2 ++ l)) by (rewrite Ep2; reflexivity).
      unfold len in *. rewrite app_length in *. destruct p2; [contradiction|simpl in *; lia]. }
  rewrite El0 in R.
  destruct (recover_loop_ok r0 root pre l st (S (N.to_nat (disk_id (dk st)))) R Hix Hrec Hne)
    as [st1 [Hloop [R1 [Ec [Ew [Ei [Ef [Ex Hd]]]]]]]].
  { rewrite len_cons in Htl. lia. }
  { rewrite (i_id _ _ _ (i_disk _ _ _ R)). unfold len. rewrite app_length. lia. }
  assert (Hpre : pre <> []) by (unfold pre; destruct pre0; discriminate).
  destruct Hd as [[Hp _]|Hd]; [contradiction|].
  exists pre, l. eexists. split; [exact El0|]. split; [exact Hpre|]. split; [exact Hrec|].
  split; [congruence|].
  assert (Hrv : recover st root =
                Done (set_fr st1 (mkFrz (fr_tail (fr st1)) (disk_id (dk st1)) (fr_data (fr st1))))).
  { unfold recover. rewrite Ews. unfold recoverable. rewrite Ews, Eid.
    replace (disk_id (dk st) <=? i) with false.
    2:{ symmetry. apply N.leb_gt. rewrite (i_id _ _ _ (i_disk _ _ _ R)). rewrite <- El0. exact Ele. }
    rewrite Eread. simpl h_parent. replace (root_rev r0 l =? root) with true by (symmetry; apply N.eqb_eq; exact Hrec).
    simpl negb. cbv iota. rewrite Hloop. unfold truncate_head.
    rewrite (i_id _ _ _ (i_disk _ _ _ R1)), Ef.
    replace (fr_head (fr st) <? len l) with false.
    2:{ symmetry. apply N.ltb_ge. rewrite Hhead. rewrite Hl. lia. }
    replace (len l <? fr_tail (fr st)) with false.
    2:{ symmetry. apply N.ltb_ge. rewrite len_cons in Htl. lia. }
    reflexivity. }
  split; [exact Hrv|].
  assert (Hid1 := i_id _ _ _ (i_disk _ _ _ R1)).
  split; [|simpl; rewrite Hid1, Ef, Ei; repeat split; auto;
           try apply (i_eff _ _ _ (i_disk _ _ _ R1));
           try (rewrite (i_root _ _ _ (i_disk _ _ _ R1)); exact Hrec)].
  constructor; [constructor|]; simpl.
  - destruct R1 as [D1 H1 F1 W1 I1]. constructor; simpl; auto.
    + rewrite Hid1. lia.
    + rewrite Hid1. apply (frz_ok_window r0 (fr st1) l (fr_tail (fr st1)) (len l)); [lia|exact F1].
  - exact Hid1.
  - rewrite Hid1, Ef. rewrite len_cons in Htl. lia.
  - rewrite Hd. exact I.
Qed.

Theorem not_recoverable_noop st root :
  recoverable st root = false ->
  exists e, recover st root = Fail e st /\ (e = EWaitSync \/ e = EUnrecoverable).
Proof.
  intro H. unfold recover. destruct (wait_sync st).
  - exists EWaitSync. auto.
  - rewrite H. exists EUnrecoverable. auto.
Qed.

(* ---------- committing a diff layer ------------------------------------------------- *)

Lemma write_history_ok r0 l st d :
  CInv r0 l st -> ix st = None -> d_id d = len l + 1 ->
  exists st1 fl tail',
    write_history st d = WOk st1 fl /\
    dk st1 = dk st /\ ids st1 = ids st /\ cfg st1 = cfg st /\ wait_sync st1 = wait_sync st /\
    diffs st1 = diffs st /\ ix st1 = None /\
    fr st1 = mkFrz tail' (d_id d)
               (updN (fr_data (fr st)) (d_id d)
                     (Some (mk_history (disk_root (dk st)) (d_root d) (t_changes (d_tr d))))) /\
    fr_tail (fr st) <= tail' /\ tail' <= d_id d.
Proof.
  intros [R Hh Ht] Hix Hid. unfold write_history.
  replace (fr_head (fr st) + 1 =? d_id d) with true by (symmetry; apply N.eqb_eq; lia).
  simpl negb. cbv iota. simpl ix. rewrite Hix. simpl.
  set (h := mk_history (disk_root (dk st)) (d_root d) (t_changes (d_tr d))).
  destruct (cfg_limit (cfg st) =? 0) eqn:El.
  { eexists _, _, (fr_tail (fr st)). split; [reflexivity|]. simpl. repeat (split; [reflexivity|]). lia. }
  apply N.eqb_neq in El.
  destruct (d_id d - fr_tail (fr st) <=? cfg_limit (cfg st)) eqn:E1.
  { eexists _, _, (fr_tail (fr st)). split; [reflexivity|]. simpl. repeat (split; [reflexivity|]). lia. }
  apply N.leb_gt in E1.
  destruct (pid (dk st) <? d_id d - cfg_limit (cfg st) + 1) eqn:E2.
  { eexists _, _, (fr_tail (fr st)). split; [reflexivity|]. simpl. repeat (split; [reflexivity|]). lia. }
  unfold truncate_tail. simpl.
  replace (d_id d - cfg_limit (cfg st) + 1 - 1 <? fr_tail (fr st)) with false
    by (symmetry; apply N.ltb_ge; lia).
  replace (d_id d <? d_id d - cfg_limit (cfg st) + 1 - 1) with false
    by (symmetry; apply N.ltb_ge; lia).
  simpl. eexists _, _, (d_id d - cfg_limit (cfg st) + 1 - 1). split; [reflexivity|]. simpl.
  repeat (split; [reflexivity|]). lia.
Qed.

(* the part of diskLayer.commit after writeHistory, for any outcome of the indexer *)
Lemma disk_commit_from_wh r0 l st d force st1 fl tail' :
  CInv r0 l st ->
  d_id d = len l + 1 -> d_root d = t_root (d_tr d) -> wf_tr (sem_rev l) (d_tr d) ->
  write_history st d = WOk st1 fl ->
  dk st1 = dk st -> ids st1 = ids st -> cfg st1 = cfg st -> wait_sync st1 = wait_sync st ->
  diffs st1 = diffs st ->
  fr st1 = mkFrz tail' (d_id d)
             (updN (fr_data (fr st)) (d_id d)
                   (Some (mk_history (disk_root (dk st)) (d_root d) (t_changes (d_tr d))))) ->
  fr_tail (fr st) <= tail' -> tail' <= d_id d ->
  exists st', disk_commit st d force = Done st' /\ CInv r0 (d_tr d :: l) st' /\
              cfg st' = cfg st /\ wait_sync st' = wait_sync st /\ diffs st' = diffs st /\
              ix st' = ix st1 /\ fr st' = fr st1.
Proof.
  intros C Hid Hroot W Hw Edk Eids Ecfg Ews Ediffs Efr Ht1 Ht2.
  destruct C as [R Hh Ht]. destruct R as [D Hhl F Wc I].
  destruct (commit_disk_ok r0 l (dk st) d (cfg_full (cfg st) || force || fl) D W Hid Hroot)
    as [o' [Ho' D']].
  unfold disk_commit. rewrite Hw. rewrite Edk, Ho'.
  eexists. split; [reflexivity|]. simpl. rewrite Ecfg, Ews, Ediffs.
  split; [|auto 10].
  assert (Hlen : len (d_tr d :: l) = d_id d) by (rewrite len_cons; lia).
  constructor; [constructor| |]; simpl.
  - exact D'.
  - rewrite Efr. simpl. lia.
  - rewrite Efr. split.
    + simpl fr_tail. simpl fr_data. intros _. fold (len (d_tr d :: l)). rewrite Hlen.
      unfold updN. rewrite N.eqb_refl. f_equal.
      rewrite (mk_history_wf _ _ _ _ W). rewrite (i_root _ _ _ D), Hroot. reflexivity.
    + apply (frz_ok_window r0 (mkFrz (fr_tail (fr st)) (d_id d) _) l tail' (d_id d)); [simpl; lia|].
      apply frz_ok_write; [lia|exact F].
  - split; [exact W|exact Wc].
  - assert (Hm : forall x i,
        updN (if disk_id (dk st) =? 0 then updN (ids st1) (disk_root (dk st)) (Some 0) else ids st1)
             (d_root d) (Some (d_id d)) x = Some i ->
        ids st x = Some i \/ len l <= i).
    { intros x i. unfold updN. destruct (d_root d =? x).
      - intro E. injection E as <-. right. lia.
      - destruct (disk_id (dk st) =? 0) eqn:E0.
        + apply N.eqb_eq in E0. rewrite (i_id _ _ _ D) in E0.
          destruct (disk_root (dk st) =? x); intro E; [right; lia|left; rewrite <- Eids; exact E].
        + intro E. left. rewrite <- Eids. exact E. }
    split.
    + intros i. simpl root_rev. rewrite <- Hroot. unfold updN at 1. rewrite N.eqb_refl.
      intro E. injection E as <-. fold (len (d_tr d :: l)). lia.
    + apply (ids_ok_weaken r0 (ids st)); [exact Hm|exact I].
  - rewrite Efr. simpl. symmetry. exact Hlen.
  - rewrite Efr. simpl. exact Ht2.
Qed.

Lemma disk_commit_ok r0 l st d force :
  CInv r0 l st -> ix st = None ->
  d_id d = len l + 1 -> d_root d = t_root (d_tr d) -> wf_tr (sem_rev l) (d_tr d) ->
  exists st', disk_commit st d force = Done st' /\ CInv r0 (d_tr d :: l) st' /\
              cfg st' = cfg st /\ wait_sync st' = wait_sync st /\ diffs st' = diffs st /\
              ix st' = None.
Proof.
  intros C Hix Hid Hroot W.
  destruct (write_history_ok r0 l st d C Hix Hid)
    as [st1 [fl [tail' [Hw [Edk [Eids [Ecfg [Ews [Ediffs [Eix [Efr [Ht1 Ht2]]]]]]]]]]]].
  destruct (disk_commit_from_wh r0 l st d force st1 fl tail' C Hid Hroot W Hw Edk Eids Ecfg Ews Ediffs Efr Ht1 Ht2)
    as [st' [A [B [E1 [E2 [E3 [E4 _]]]]]]].
  exists st'. rewrite E4, Eix. auto 10.
Qed.

(* reverting the newest history restores the disk layer of before the transition *)
Theorem revert_inverse r0 l st d force :
  CInv r0 l st -> ix st = None ->
  d_id d = len l + 1 -> d_root d = t_root (d_tr d) -> wf_tr (sem_rev l) (d_tr d) ->
  exists st1 h st2,
    disk_commit st d force = Done st1 /\
    (fr_tail (fr st1) < disk_id (dk st1) ->
       read_history (fr st1) (disk_id (dk st1)) = Ok h /\
       revert st1 h = Done st2 /\
       (forall k, eff (dk st2) k = eff (dk st) k) /\
       disk_root (dk st2) = disk_root (dk st) /\ disk_id (dk st2) = disk_id (dk st) /\
       RInv r0 l st2).
Proof.
  intros C Hix Hid Hroot W.
  destruct (disk_commit_ok r0 l st d force C Hix Hid Hroot W) as [st1 [Hc [C1 [_ [_ [_ Hix1]]]]]].
  exists st1, (mkHist (root_rev r0 l) (t_root (d_tr d)) (origs (d_tr d))).
  destruct C1 as [R1 Hh1 Ht1].
  assert (Hid1 := i_id _ _ _ (i_disk _ _ _ R1)).
  destruct (Nat.eq_dec 0 0) as [_|]; [|contradiction].
  destruct (N.ltb (fr_tail (fr st1)) (len (d_tr d :: l))) eqn:Elt.
  - apply N.ltb_lt in Elt.
    destruct (revert_step r0 (d_tr d) l st1 R1 Hix1 Elt) as [Hread [st2 [Hrev [R2 _]]]].
    exists st2. split; [exact Hc|]. intros _. split; [exact Hread|]. split; [exact Hrev|].
    destruct C as [R _ _]. destruct R as [D _ _ _ _]. destruct R2 as [D2 H2 F2 W2 I2].
    split; [|split; [|split]].
    + intro k. rewrite (i_eff _ _ _ D2), (i_eff _ _ _ D). reflexivity.
    + rewrite (i_root _ _ _ D2), (i_root _ _ _ D). reflexivity.
    + rewrite (i_id _ _ _ D2), (i_id _ _ _ D). reflexivity.
    + constructor; auto.
  - apply N.ltb_ge in Elt. exists st1. split; [exact Hc|]. intro Hlt. rewrite Hid1 in Hlt. lia.
Qed.

(* ---------- non-vacuity: a concrete history --------------------------------------- *)

Definition ex_t1 : transition :=
  mkTr 1 [mkChange (KA 0) 0 5; mkChange (KS 0 1) 0 7; mkChange (KA 1) 0 6].
Definition ex_t2 : transition :=
  mkTr 2 [mkChange (KA 0) 5 0; mkChange (KS 0 1) 7 0].          (* destruct with storage *)
Definition ex_t3 : transition :=
  mkTr 3 [mkChange (KA 0) 0 8; mkChange (KS 0 2) 0 9; mkChange (KA 1) 6 10].  (* re-create *)

Definition ex_db : db :=
  let c := mkCfg 0 false 128 false false false in
  let s0 := init_db c 0 false in
  let s1 := outcome_state (update s0 0 ex_t1) in
  let s2 := outcome_state (update s1 1 ex_t2) in
  let s3 := outcome_state (update s2 2 ex_t3) in
  outcome_state (cap s3 3 1).        (* two transitions in the disk layer's buffer *)

Definition ex_keys : list key := [KA 0; KS 0 1; KS 0 2; KA 1].

(* Recoverable(root 1) holds, Recover succeeds across two histories (one reverted in
   the buffer, emptying it) and yields the state after ex_t1; root 3 is refused *)
Definition ex_check : bool :=
  recoverable ex_db 1 && negb (recoverable ex_db 3) && negb (recoverable ex_db 2) &&
  match recover ex_db 1 with
  | Done s =>
      (disk_id (dk s) =? 1) && (disk_root (dk s) =? 1) && (fr_head (fr s) =? 1) &&
      forallb (fun k => eff (dk s) k =? sem_rev [ex_t1] k) ex_keys &&
      (eff (dk s) (KA 0) =? 5) && (eff (dk s) (KS 0 1) =? 7) && (eff (dk ex_db) (KA 0) =? 0)
  | Fail _ _ => false
  end &&
  match recover ex_db 3 with Fail EUnrecoverable _ => true | _ => false end.

(* ---------- every operation keeps the invariant (indexing off) ----------------------- *)

Definition tr_of (ds : list diff) : list transition := map d_tr ds.

Lemma diffs_ok_split j : forall ds l,
  diffs_ok (sem_rev l) (len l) ds ->
  diffs_ok (sem_rev l) (len l) (firstn j ds) /\
  diffs_ok (sem_rev (rev (tr_of (firstn j ds)) ++ l)) (len (rev (tr_of (firstn j ds)) ++ l)) (skipn j ds).
Proof.
  induction j as [|j IH]; intros ds l H.
  - simpl. auto.
  - destruct ds as [|d r]; simpl; auto.
    simpl in H. destruct H as [H1 [H2 [H3 H4]]].
    assert (H4' : diffs_ok (sem_rev (d_tr d :: l)) (len (d_tr d :: l)) r).
    { rewrite len_cons. exact H4. }
    destruct (IH r (d_tr d :: l) H4') as [A B]. split.
    + split; [exact H1|]. split; [exact H2|]. split; [exact H3|]. rewrite len_cons in A. exact A.
    + rewrite <- app_assoc. simpl. exact B.
Qed.

Lemma commit_layers_ok r0 force ds : forall l st,
  CInv r0 l st -> ix st = None -> diffs_ok (sem_rev l) (len l) ds ->
  exists st', commit_layers st ds force = Done st' /\ CInv r0 (rev (tr_of ds) ++ l) st' /\
              cfg st' = cfg st /\ wait_sync st' = wait_sync st /\ diffs st' = diffs st /\ ix st' = None.
Proof.
  induction ds as [|d r IH]; intros l st C Hix H.
  - simpl. exists st. auto 10.
  - simpl in H. destruct H as [H1 [H2 [H3 H4]]].
    destruct (disk_commit_ok r0 l st d force C Hix H1 H2 H3) as [st1 [Hc [C1 [E1 [E2 [E3 E4]]]]]].
    assert (H4' : diffs_ok (sem_rev (d_tr d :: l)) (len (d_tr d :: l)) r) by (rewrite len_cons; exact H4).
    destruct (IH (d_tr d :: l) st1 C1 E4 H4') as [st' [Hl [C' [F1 [F2 [F3 F4]]]]]].
    exists st'. simpl. rewrite Hc. split; [exact Hl|]. split.
    + rewrite <- app_assoc. simpl. exact C'.
    + rewrite F1, F2, F3, E1, E2, E3. auto.
Qed.

Lemma cinv_set_diffs r0 l st ds : CInv r0 l st -> CInv r0 l (set_diffs st ds).
Proof. intros [[D Hh F W I] H1 H2]. constructor; [constructor|..]; simpl; auto. Qed.

Lemma cap_from_ok r0 l st m k :
  Inv r0 l st -> ix st = None ->
  exists l' st', cap_from st m k = Done st' /\ Inv r0 l' st' /\ ix st' = None /\
                 cfg st' = cfg st /\ wait_sync st' = wait_sync st.
Proof.
  intros [C Hd] Hix. unfold cap_from. destruct k as [|k].
  - destruct (diffs_ok_split m (diffs st) l Hd) as [A _].
    destruct (commit_layers_ok r0 true (firstn m (diffs st)) l st C Hix A)
      as [st' [Hl [C' [F1 [F2 [F3 F4]]]]]].
    rewrite Hl. eexists _, _. split; [reflexivity|]. split; [|simpl; auto].
    constructor; [apply cinv_set_diffs; exact C'|simpl; exact I].
  - destruct (Nat.leb m (S k)).
    + exists l, st. split; [reflexivity|]. split; [constructor; assumption|auto].
    + destruct (diffs_ok_split (m - S k) (diffs st) l Hd) as [A B].
      destruct (commit_layers_ok r0 false (firstn (m - S k) (diffs st)) l st C Hix A)
        as [st' [Hl [C' [F1 [F2 [F3 F4]]]]]].
      rewrite Hl. eexists _, _. split; [reflexivity|]. split; [|simpl; auto].
      constructor; [apply cinv_set_diffs; exact C'|simpl; exact B].
Qed.

Lemma cap_ok r0 l st root k :
  Inv r0 l st -> ix st = None ->
  (exists l' st', cap st root k = Done st' /\ Inv r0 l' st' /\ ix st' = None /\
                  cfg st' = cfg st /\ wait_sync st' = wait_sync st) \/
  (exists e, cap st root k = Fail e st).
Proof.
  intros I Hix. unfold cap. destruct (find_diff (diffs st) root 0) as [p|].
  - left. apply (cap_from_ok r0 l); auto.
  - right. destruct (disk_root (dk st) =? root); eexists; reflexivity.
Qed.

(* the state the caller builds the next transition on: the disk layer's view with the
   diff layers applied *)
Definition head_state (st : db) : key -> N :=
  fold_left apply_tr (tr_of (diffs st)) (eff (dk st)).

Lemma fold_apply_ext ts : forall m m' k, (forall k, m k = m' k) ->
  fold_left apply_tr ts m k = fold_left apply_tr ts m' k.
Proof.
  induction ts as [|t ts IH]; intros m m' k E; simpl; auto.
  apply IH. intro k'. apply apply_tr_ext. apply E.
Qed.

Lemma diffs_ok_snoc ds : forall m id t,
  diffs_ok m id ds -> wf_tr (fold_left apply_tr (tr_of ds) m) t ->
  diffs_ok m id (ds ++ [mkDiff (t_root t) (id + N.of_nat (length ds) + 1) t]).
Proof.
  induction ds as [|d r IH]; intros m id t H W; simpl in *.
  - replace (id + 0 + 1) with (id + 1) by lia. auto.
  - destruct H as [H1 [H2 [H3 H4]]]. split; [exact H1|]. split; [exact H2|]. split; [exact H3|].
    replace (id + N.pos (Pos.of_succ_nat (length r)) + 1) with (id + 1 + N.of_nat (length r) + 1) by lia.
    apply IH; auto.
Qed.

Lemma find_diff_snoc l : forall root n d, d_root d = root ->
  exists p, find_diff (l ++ [d]) root n = Some p.
Proof.
  induction l as [|d0 r IH]; intros root n d E; simpl.
  - rewrite E, N.eqb_refl. eauto.
  - destruct (d_root d0 =? root); eauto.
Qed.

Inductive op := OUpdate (t : transition) | OCommit (root : N) | OCap (k : nat) | ORecover (root : N).

Definition do_op (st : db) (o : op) : out :=
  match o with
  | OUpdate t => update st (head_root st) t
  | OCommit r => commit st r
  | OCap k => if wait_sync st then Fail EWaitSync st else cap st (head_root st) k
  | ORecover r => recover st r
  end.

(* every operation, successful or refused, leads from a represented state to a
   represented state; a refused operation leaves the database untouched *)
Theorem op_preserves r0 l st o :
  Inv r0 l st -> ix st = None ->
  (forall t, o = OUpdate t -> wf_tr (head_state st) t) ->
  (exists l' st', do_op st o = Done st' /\ Inv r0 l' st' /\ ix st' = None) \/
  (exists e, do_op st o = Fail e st).
Proof.
  intros I Hix Hwf. destruct o as [t|root|k|root]; simpl.
  - (* Update *)
    unfold update. destruct (wait_sync st); [right; eexists; reflexivity|].
    destruct (t_root t =? head_root st); [right; eexists; reflexivity|].
    destruct ((disk_root (dk st) =? t_root t) ||
              match find_diff (diffs st) (t_root t) 0 with Some _ => true | None => false end).
    + destruct (cap_ok r0 l st (t_root t) (cfg_maxdiff (cfg st)) I Hix)
        as [[l' [st' [H [I' [X _]]]]]|[e H]]; [left|right]; eauto.
    + rewrite N.eqb_refl. simpl.
      set (st1 := set_diffs st (diffs st ++ [mkDiff (t_root t) (head_id st + 1) t])).
      assert (I1 : Inv r0 l st1).
      { destruct I as [C Hd]. constructor; [apply cinv_set_diffs; exact C|]. simpl.
        unfold head_id. rewrite (i_id _ _ _ (i_disk _ _ _ (i_r _ _ _ C))).
        apply diffs_ok_snoc; [exact Hd|].
        apply (wf_tr_ext (head_state st)); [|apply Hwf; reflexivity].
        intro k. unfold head_state. apply fold_apply_ext.
        apply (i_eff _ _ _ (i_disk _ _ _ (i_r _ _ _ C))). }
      destruct (cap_ok r0 l st1 (t_root t) (cfg_maxdiff (cfg st)) I1 Hix)
        as [[l' [st' [H [I' [X _]]]]]|[e H]].
      * left. eauto.
      * (* cap on the freshly added layer cannot be refused *)
        exfalso. unfold cap in H.
        assert (Hf : exists p, find_diff (diffs st1) (t_root t) 0 = Some p).
        { simpl. apply find_diff_snoc. reflexivity. }
        destruct Hf as [p Hp]. rewrite Hp in H.
        destruct (cap_from_ok r0 l st1 (S p) (cfg_maxdiff (cfg st)) I1 Hix) as [? [? [Hc _]]].
        rewrite Hc in H. discriminate.
  - (* Commit *)
    unfold commit. destruct (wait_sync st); [right; eexists; reflexivity|].
    destruct (cap_ok r0 l st root 0 I Hix) as [[l' [st' [H [I' [X _]]]]]|[e H]]; [left|right]; eauto.
  - (* cap *)
    destruct (wait_sync st); [right; eexists; reflexivity|].
    destruct (cap_ok r0 l st (head_root st) k I Hix) as [[l' [st' [H [I' [X _]]]]]|[e H]]; [left|right]; eauto.
  - (* Recover *)
    destruct (recoverable st root) eqn:Er.
    + destruct (recover_exact r0 l st root I Hix Er) as [pre [l' [st' [_ [_ [_ [_ [Hr [I' _]]]]]]]]].
      left. exists l', st'. split; [exact Hr|]. split; [exact I'|].
      (* the indexer stays off *)
      unfold recover in Hr. destruct (wait_sync st); [discriminate|]. rewrite Er in Hr. cbn [negb] in Hr.
      destruct I as [[R _ _] _].
      revert Hr. generalize (S (N.to_nat (disk_id (dk st)))). intros fuel Hr.
      assert (Hloop : forall fuel s s', ix s = None -> recover_loop fuel s root = Done s' -> ix s' = None).
      { clear. induction fuel as [|fuel IH]; intros s s' Hs H; simpl in H.
        - destruct (disk_root (dk s) =? root); [injection H as <-; exact Hs|discriminate].
        - destruct (disk_root (dk s) =? root); [injection H as <-; exact Hs|].
          destruct (read_history (fr s) (disk_id (dk s))) as [h|]; [|discriminate].
          unfold revert in H. rewrite Hs in H. simpl in H.
          destruct (negb (h_root h =? disk_root (dk s))); [discriminate|].
          destruct (disk_id (dk s) =? 0); [discriminate|].
          destruct (revert_disk (dk s) h); [|discriminate].
          eapply IH; [|exact H]. simpl. reflexivity. }
      destruct (recover_loop fuel st root) as [s1|] eqn:El; [|discriminate].
      specialize (Hloop fuel st s1 Hix El).
      destruct (truncate_head (fr s1) (disk_id (dk s1))); [|discriminate].
      injection Hr as <-. simpl. exact Hloop.
    + right. destruct (not_recoverable_noop st root Er) as [e [H _]]. eauto.
Qed.

(* all histories of operations from the empty database *)
Inductive reach (c : config) (r0 : N) : db -> Prop :=
| reach_init : reach c r0 (init_db c r0 false)
| reach_step st o : reach c r0 st ->
    (forall t, o = OUpdate t -> wf_tr (head_state st) t) ->
    reach c r0 (outcome_state (do_op st o)).

Lemma init_inv c r0 : Inv r0 [] (init_db c r0 false).
Proof.
  assert (D : DInv r0 [] (dk (init_db c r0 false))).
  { constructor; simpl; try reflexivity; try (unfold bl; simpl; lia);
      try (intros ? ? []); try (intros _ k; reflexivity). }
  constructor; [constructor; [constructor|..]|]; simpl; auto.
  - unfold len. simpl. apply N.le_refl.
  - split; auto. intros i H. discriminate.
  - apply N.le_refl.
Qed.

Theorem reach_inv c r0 st : reach c r0 st -> exists l, Inv r0 l st /\ ix st = None.
Proof.
  induction 1 as [|st o Hr [l [I Hix]] Hwf].
  - exists []. split; [apply init_inv|reflexivity].
  - destruct (op_preserves r0 l st o I Hix Hwf) as [[l' [st' [H [I' X]]]]|[e H]]; rewrite H; simpl; eauto.
Qed.

(* the rollback theorem for every state reachable by any history of operations *)
Theorem recover_exact_reach c r0 st root :
  reach c r0 st -> recoverable st root = true ->
  exists l0 pre l st',
    Inv r0 l0 st /\ l0 = pre ++ l /\ pre <> [] /\ root_rev r0 l = root /\
    ids st root = Some (len l) /\ recover st root = Done st' /\ Inv r0 l st' /\
    (forall k, eff (dk st') k = sem_rev l k) /\
    disk_root (dk st') = root /\ disk_id (dk st') = len l /\
    fr_head (fr st') = len l /\ fr_tail (fr st') = fr_tail (fr st) /\
    fr_data (fr st') = fr_data (fr st) /\ diffs st' = [].
Proof.
  intros Hr Hrec. destruct (reach_inv c r0 st Hr) as [l0 [I Hix]].
  destruct (recover_exact r0 l0 st root I Hix Hrec)
    as [pre [l [st' [A [B [C [D [E [F [G [H [J [K [L [M [_ O]]]]]]]]]]]]]]]].
  exists l0, pre, l, st'. auto 20.
Qed.
