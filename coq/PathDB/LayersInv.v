(* PathDB/LayersInv.v — the layer-tree invariant [Inv] of PathDB/LayersProofs.v is
   preserved by every operation of the model PathDB/Layers.v (with the sibling
   re-link of layertree.go:271-282), hence holds after every history. *)
From GV Require Import Lib.Tactics PathDB.Lookup PathDB.Layers PathDB.LayersProofs.
Local Open Scope N_scope.

(* ---- equality tests ----------------------------------------------------------- *)
Lemma skey_eqb_spec x y : skey_eqb x y = true <-> x = y.
Proof.
  destruct x, y; cbn [skey_eqb]; try (split; [discriminate|intros H; discriminate]).
  - rewrite N.eqb_eq. split; congruence.
  - rewrite andb_true_iff, !N.eqb_eq. split; [intros [-> ->]; auto|intros H; inversion H; auto].
Qed.

(* ---- association lists ----------------------------------------------------------- *)
Section AssocLemmas.
  Context {K V : Type} (eqb : K -> K -> bool) (eqb_spec : forall x y, eqb x y = true <-> x = y).

  Lemma eqb_refl' (x : K) : eqb x x = true. Proof. now apply eqb_spec. Qed.
  Lemma eqb_neq (x y : K) : x <> y -> eqb x y = false.
  Proof. intros H. destruct (eqb x y) eqn:E; auto. apply eqb_spec in E. contradiction. Qed.
  Lemma eqb_dec (x y : K) : {x = y} + {x <> y}.
  Proof. destruct (eqb x y) eqn:E; [left; now apply eqb_spec|right; intros ->; rewrite eqb_refl' in E; discriminate]. Qed.

  Lemma aget_aset (m : list (K * V)) k v k' :
    aget eqb (aset eqb m k v) k' = if eqb k' k then Some v else aget eqb m k'.
  Proof.
    induction m as [|(a, b) m IH]; cbn [aset aget].
    - reflexivity.
    - destruct (eqb k a) eqn:E.
      + apply eqb_spec in E. subst a. cbn [aget]. destruct (eqb k' k); reflexivity.
      + cbn [aget]. destruct (eqb k' a) eqn:E2.
        * apply eqb_spec in E2. subst a. destruct (eqb k' k) eqn:E3; auto.
          apply eqb_spec in E3. subst. rewrite eqb_refl' in E. discriminate.
        * exact IH.
  Qed.

  Lemma aget_adel (m : list (K * V)) k k' :
    aget eqb (adel eqb m k) k' = if eqb k' k then None else aget eqb m k'.
  Proof.
    induction m as [|(a, b) m IH]; cbn [adel aget].
    - destruct (eqb k' k); reflexivity.
    - destruct (eqb k a) eqn:E.
      + apply eqb_spec in E. subst a. rewrite IH. destruct (eqb k' k); reflexivity.
      + cbn [aget]. destruct (eqb k' a) eqn:E2.
        * apply eqb_spec in E2. subst a. destruct (eqb k' k) eqn:E3; auto.
          apply eqb_spec in E3. subst. rewrite eqb_refl' in E. discriminate.
        * exact IH.
  Qed.

  Lemma aget_some_in (m : list (K * V)) k v : aget eqb m k = Some v -> In k (map fst m).
  Proof.
    induction m as [|(a, b) m IH]; cbn [aget map fst]; [discriminate|].
    destruct (eqb k a) eqn:E; [apply eqb_spec in E; subst; now left|intros H; right; auto].
  Qed.

  Lemma aget_none_notin (m : list (K * V)) k : aget eqb m k = None -> ~ In k (map fst m).
  Proof.
    induction m as [|(a, b) m IH]; cbn [aget map fst]; [intros _ []|].
    destruct (eqb k a) eqn:E; [discriminate|]. intros H [Heq|Hin]; [subst; rewrite eqb_refl' in E; discriminate|].
    now apply IH.
  Qed.

  Lemma in_keys_aget (m : list (K * V)) k : In k (map fst m) -> exists v, aget eqb m k = Some v.
  Proof.
    intros H. destruct (aget eqb m k) eqn:E; eauto. exfalso. eapply aget_none_notin; eauto.
  Qed.

  Lemma keys_aset (m : list (K * V)) k v x :
    In x (map fst (aset eqb m k v)) <-> x = k \/ In x (map fst m).
  Proof.
    induction m as [|(a, b) m IH]; cbn [aset].
    - simpl. intuition.
    - destruct (eqb k a) eqn:E.
      + apply eqb_spec in E. subst. simpl. intuition.
      + simpl. rewrite IH. intuition.
  Qed.

  Lemma nodup_keys_aset (m : list (K * V)) k v :
    NoDup (map fst m) -> NoDup (map fst (aset eqb m k v)).
  Proof.
    induction m as [|(a, b) m IH]; cbn [aset map fst]; intros H.
    - constructor; [intros []|constructor].
    - destruct (eqb k a) eqn:E.
      + apply eqb_spec in E. subst. exact H.
      + inversion H; subst. cbn [map fst]. constructor; auto.
        rewrite keys_aset. intros [->|Hin]; [rewrite eqb_refl' in E; discriminate|auto].
  Qed.
End AssocLemmas.

Definition Neqb_spec := N.eqb_eq.

Lemma kv_of_list_nodup {K} (eqb : K -> K -> bool) hdr (eqb_spec : forall x y, eqb x y = true <-> x = y) l :
  NoDup (map fst (kv_data (kv_of_list eqb hdr l))).
Proof.
  unfold kv_of_list. cbn [kv_data].
  assert (H : forall m, NoDup (map fst m) ->
            NoDup (map fst (fold_left (fun m '(k, v) => aset eqb m k v) l m))).
  { induction l as [|(k, v) l IH]; intros m Hm; cbn [fold_left]; auto.
    apply IH. now apply nodup_keys_aset. }
  apply H. constructor.
Qed.

(* ---- heap ------------------------------------------------------------------------ *)
Lemma nth_upd_nth {A} (l : list A) i x j :
  nth_error (upd_nth l i x) j =
  if Nat.eqb j i then (match nth_error l i with Some _ => Some x | None => None end) else nth_error l j.
Proof.
  revert i j. induction l as [|a l IH]; intros i j.
  - destruct i, j; cbn; try reflexivity. destruct (Nat.eqb j i); reflexivity.
  - destruct i, j; cbn [upd_nth nth_error Nat.eqb]; auto.
Qed.

Lemma length_upd_nth {A} (l : list A) i x : length (upd_nth l i x) = length l.
Proof. revert i. induction l; intros [|i]; cbn [upd_nth length]; auto. Qed.

Lemma hget_hset s i l j :
  hget (hset s i l) j = if Nat.eqb j i then (match hget s i with Some _ => Some l | None => None end) else hget s j.
Proof. unfold hget, hset, with_heap. cbn [heap]. apply nth_upd_nth. Qed.

Lemma hget_lt s i l : hget s i = Some l -> (i < length (heap s))%nat.
Proof. unfold hget. intros H. apply nth_error_Some. congruence. Qed.

Lemma hget_alloc s l j :
  hget (with_heap s (heap s ++ [l])) j =
  if Nat.eqb j (length (heap s)) then Some l else hget s j.
Proof.
  unfold hget, with_heap. cbn [heap]. destruct (Nat.eqb j (length (heap s))) eqn:E.
  - apply Nat.eqb_eq in E. subst. rewrite nth_error_app2, Nat.sub_diag; auto.
  - apply Nat.eqb_neq in E. destruct (Nat.lt_ge_cases j (length (heap s))).
    + now rewrite nth_error_app1.
    + assert (H1 : nth_error (heap s ++ [l]) j = None).
      { apply nth_error_None. rewrite app_length. cbn [length]. lia. }
      assert (H2 : nth_error (heap s) j = None) by (apply nth_error_None; lia).
      now rewrite H1, H2.
Qed.

(* ---- paths --------------------------------------------------------------------------- *)
Lemma is_path_ext s s' : forall p lid,
  (forall x, In x p -> hget s' x = hget s x) -> is_path s lid p -> is_path s' lid p.
Proof.
  induction p as [|x rest IH]; intros lid Hx H; [destruct H|].
  destruct H as [-> H]. split; auto. rewrite (Hx lid (or_introl eq_refl)).
  destruct rest as [|y r]; auto. destruct H as [Hd H]. split; auto.
  apply IH; auto. intros z Hz. apply Hx. now right.
Qed.

Lemma is_path_det s : forall p1 p2 lid, is_path s lid p1 -> is_path s lid p2 -> p1 = p2.
Proof.
  induction p1 as [|x r1 IH]; intros p2 lid H1 H2; [destruct H1|].
  destruct p2 as [|y r2]; [destruct H2|].
  destruct H1 as [-> H1], H2 as [-> H2]. f_equal.
  destruct r1 as [|a r1'], r2 as [|b r2']; auto.
  - destruct H1 as (r & i & bb & f & st & H1), H2 as [(r' & i' & n & ss & H2) _]. congruence.
  - destruct H2 as (r & i & bb & f & st & H2), H1 as [(r' & i' & n & ss & H1) _]. congruence.
  - destruct H1 as [(r & i & n & ss & H1) H1'], H2 as [(r' & i' & n' & ss' & H2) H2'].
    assert (a = b) by congruence. subst b. eapply IH; eauto.
Qed.

Lemma is_path_in_some s : forall p lid x, is_path s lid p -> In x p -> exists l, hget s x = Some l.
Proof.
  induction p as [|y rest IH]; intros lid x H Hin; [destruct H|].
  destruct H as [-> H]. destruct Hin as [<-|Hin].
  - destruct rest as [|z0 r0]; [destruct H as (r & i & b & f & st & H)|destruct H as [(r & i & n1 & ss & H) _]]; eauto.
  - destruct rest as [|z r]; [destruct Hin|]. destruct H as [_ H]. eapply IH; eauto.
Qed.

(* ---- descendants ----------------------------------------------------------------------- *)
Lemma mem_app x l1 l2 : mem x (l1 ++ l2) = mem x l1 || mem x l2.
Proof. unfold mem. apply existsb_app. Qed.

Lemma desc_add_spec d anc hash r e :
  is_descendant (desc_add d anc hash) r e = is_descendant d r e || ((e =? anc) && (r =? hash)).
Proof.
  unfold desc_add, is_descendant.
  destruct (aget N.eqb d anc) as [sub|] eqn:E.
  - destruct (mem hash sub) eqn:M.
    + destruct (e =? anc) eqn:E1; [|now rewrite orb_false_r].
      apply N.eqb_eq in E1. subst e. rewrite E. cbn [andb].
      destruct (r =? hash) eqn:E2; [|now rewrite orb_false_r].
      apply N.eqb_eq in E2. subst r. now rewrite M.
    + rewrite (aget_aset N.eqb N.eqb_eq). destruct (e =? anc) eqn:E1.
      * apply N.eqb_eq in E1. subst e. rewrite E, mem_app. cbn [andb]. f_equal.
        unfold mem. cbn [existsb]. now rewrite orb_false_r.
      * now rewrite orb_false_r.
  - rewrite (aget_aset N.eqb N.eqb_eq). destruct (e =? anc) eqn:E1.
    + apply N.eqb_eq in E1. subst e. rewrite E. cbn [andb orb]. unfold mem. cbn [existsb].
      now rewrite orb_false_r.
    + now rewrite orb_false_r.
Qed.

Definition root_is (s : db) (e : N) (x : nat) : bool :=
  match hget s x with Some l => layer_root l =? e | None => false end.

Lemma root_is_spec s e x : root_is s e x = true <-> root_of s x e.
Proof.
  unfold root_is, root_of. destruct (hget s x) as [l|].
  - rewrite N.eqb_eq. split; [intros <-; eauto|intros (l' & H & <-); congruence].
  - split; [discriminate|intros (l' & H & _); discriminate].
Qed.

Lemma fill_ancestors_spec s hash r e : forall pp p fuel d,
  is_path s p pp -> (length pp <= fuel)%nat ->
  is_descendant (fill_ancestors fuel s d p hash) r e =
  is_descendant d r e || ((r =? hash) && existsb (root_is s e) pp).
Proof.
  induction pp as [|x rest IH]; intros p fuel d H Hl; [destruct H|].
  destruct H as [-> H]. destruct fuel as [|f]; [cbn in Hl; lia|].
  cbn [fill_ancestors existsb]. unfold root_is at 1.
  destruct rest as [|y rest'].
  - destruct H as (r0 & i & b & f0 & st & ->). rewrite desc_add_spec. cbn [layer_root existsb].
    rewrite orb_false_r. f_equal. rewrite (N.eqb_sym r0 e). apply andb_comm.
  - destruct H as [(r0 & i & n & ss & ->) H]. rewrite (IH y f); auto; [|cbn [length] in *; lia].
    rewrite desc_add_spec. cbn [layer_root]. rewrite <- orb_assoc. f_equal.
    rewrite (N.eqb_sym r0 e). destruct (r =? hash); cbn [andb]; [|now rewrite andb_false_r].
    now rewrite andb_true_r.
Qed.

(* ---- lookup_add --------------------------------------------------------------------------- *)
Definition lk_get (lk : lookup) (k : skey) : list N :=
  match aget skey_eqb lk k with Some l => l | None => [] end.

Lemma lookup_add_spec st : forall keys lk k,
  NoDup keys ->
  lk_get (lookup_add lk st keys) k =
  if existsb (skey_eqb k) keys then lk_get lk k ++ [st] else lk_get lk k.
Proof.
  unfold lookup_add.
  induction keys as [|k0 ks IH]; intros lk k Hnd; cbn [fold_left existsb]; [reflexivity|].
  inversion Hnd as [|? ? Hnot Hnd']; subst.
  rewrite IH by assumption.
  set (f := match aget skey_eqb lk k0 with
            | Some lst => aset skey_eqb lk k0 (lst ++ [st])
            | None => aset skey_eqb lk k0 [st] end).
  assert (Hf : lk_get f k = if skey_eqb k k0 then lk_get lk k0 ++ [st] else lk_get lk k).
  { unfold f, lk_get. destruct (aget skey_eqb lk k0) eqn:E; rewrite (aget_aset skey_eqb skey_eqb_spec);
      destruct (skey_eqb k k0); reflexivity. }
  rewrite Hf. destruct (skey_eqb k k0) eqn:E.
  - apply skey_eqb_spec in E. subst k0.
    destruct (existsb (skey_eqb k) ks) eqn:E2; [|reflexivity].
    exfalso. apply existsb_exists in E2. destruct E2 as (x & Hx & Hxe). apply skey_eqb_spec in Hxe. subst. auto.
  - reflexivity.
Qed.

Lemma existsb_skey k keys : existsb (skey_eqb k) keys = true <-> In k keys.
Proof.
  rewrite existsb_exists. split.
  - intros (x & Hx & He). apply skey_eqb_spec in He. now subst.
  - intros H. exists k. split; auto. now apply skey_eqb_spec.
Qed.

(* ---- live roots ------------------------------------------------------------------------------ *)
Lemma live_iff s r : In r (live_roots s) <-> exists lid, tget s r = Some lid.
Proof.
  unfold live_roots, tget. split.
  - intros H. apply (in_keys_aget N.eqb N.eqb_eq). exact H.
  - intros (lid & H). eapply (aget_some_in N.eqb N.eqb_eq); eauto.
Qed.

Lemma ordered_app d l x :
  ordered d l -> (forall y, In y l -> is_descendant d y x = false) -> ordered d (l ++ [x]).
Proof.
  induction l as [|a l IH]; intros Ho Hx; cbn [app ordered].
  - split; auto. intros y [].
  - destruct Ho as [Ha Ho]. split.
    + intros y Hy. apply in_app_or in Hy. destruct Hy as [Hy|[<-|[]]]; auto. apply Hx. now left.
    + apply IH; auto. intros y Hy. apply Hx. now right.
Qed.

Lemma ordered_ext d d' l :
  (forall x y, In x l -> In y l -> is_descendant d' x y = is_descendant d x y) ->
  ordered d l -> ordered d' l.
Proof.
  induction l as [|a l IH]; intros He Ho; cbn [ordered]; auto.
  destruct Ho as [Ha Ho]. split.
  - intros y Hy. rewrite He; [auto|now left|now right].
  - apply IH; auto. intros x y Hx Hy. apply He; now right.
Qed.

Lemma NoDup_app_single {A} (l : list A) x : NoDup l -> ~ In x l -> NoDup (l ++ [x]).
Proof.
  induction l as [|a l IH]; intros H Hx; cbn [app].
  - constructor; [intros []|constructor].
  - inversion H; subst. constructor.
    + rewrite in_app_iff. intros [Hin|[->|[]]]; auto. apply Hx. now left.
    + apply IH; auto. intros Hin. apply Hx. now right.
Qed.

(* ---- layertree.go add preserves the invariant ----------------------------------------------- *)
Lemma add_inv s root p pl nodes states :
  Inv s -> tget s root = None -> (exists parent, tget s parent = Some p) -> hget s p = Some pl ->
  NoDup (map fst (kv_data states)) ->
  let lid := length (heap s) in
  let l := Diff root (layer_id pl + 1) nodes states p in
  let s1 := with_heap s (heap s ++ [l]) in
  Inv (with_tr s1 {| t_base := t_base (tr s1);
                     t_layers := aset N.eqb (t_layers (tr s1)) root lid;
                     t_desc := fill_ancestors (walk_fuel s1) s1 (t_desc (tr s1)) p root;
                     t_lookup := lookup_add (t_lookup (tr s1)) root (map fst (kv_data states));
                     t_lkok := t_lkok (tr s1) |}).
Proof.
  intros I Hroot (parent & Hparent) Hp Hnd lid l s1.
  set (s' := with_tr s1 _).
  assert (Hh : forall x, hget s' x = if Nat.eqb x lid then Some l else hget s x).
  { intros x. unfold s', hget, with_tr. cbn [heap]. apply hget_alloc. }
  assert (Hh1 : forall x, hget s1 x = if Nat.eqb x lid then Some l else hget s x).
  { intros x. apply hget_alloc. }
  assert (Ht : forall r, tget s' r = if r =? root then Some lid else tget s r).
  { intros r. unfold s', tget, with_tr. cbn [tr t_layers]. apply (aget_aset N.eqb N.eqb_eq). }
  assert (Hold : forall x l0, hget s x = Some l0 -> hget s' x = Some l0 /\ hget s1 x = Some l0).
  { intros x l0 H. rewrite Hh, Hh1. pose proof (hget_lt _ _ _ H).
    destruct (Nat.eqb x lid) eqn:E; [apply Nat.eqb_eq in E; unfold lid in E; lia|auto]. }
  assert (Hro : forall x e, root_of s x e -> root_of s' x e).
  { intros x e (l0 & H & He). exists l0. split; auto. apply Hold; auto. }
  assert (Hro' : forall x e, x <> lid -> root_of s' x e -> root_of s x e).
  { intros x e Hx (l0 & H & He). rewrite Hh in H. apply Nat.eqb_neq in Hx. rewrite Hx in H. exists l0; auto. }
  assert (Hpe : forall a pp, is_path s a pp -> is_path s' a pp /\ is_path s1 a pp).
  { intros a pp H. split; eapply is_path_ext; try exact H; intros x Hx;
      destruct (is_path_in_some _ _ _ _ H Hx) as (l0 & Hl0); rewrite Hl0; apply Hold; auto. }
  assert (Hbase : t_base (tr s') = t_base (tr s)) by reflexivity.
  destruct (inv_path s I _ _ Hparent) as (Hproot & qp & Hpp & Hplen & Hpnd & Hpobj).
  set (base := t_base (tr s)) in *.
  assert (Hnl : forall x, In x (qp ++ [base]) -> x <> lid).
  { intros x Hx. destruct (is_path_in_some _ _ _ _ Hpp Hx) as (l0 & Hl0).
    pose proof (hget_lt _ _ _ Hl0). unfold lid. lia. }
  assert (Hnewpath : is_path s' lid (lid :: qp ++ [base])).
  { split; auto. rewrite Hh, Nat.eqb_refl.
    destruct (qp ++ [base]) as [|y r0] eqn:E; [destruct qp; discriminate|].
    destruct Hpp as [Hy Hpp']. subst y. split; [unfold l; eauto|].
    apply (Hpe p (p :: r0)). split; auto. }
  assert (Hlive_ne : forall r x, tget s r = Some x -> r <> root).
  { intros r x H ->. congruence. }
  assert (Hdesc : forall r e, is_descendant (t_desc (tr s')) r e =
                    is_descendant (t_desc (tr s)) r e || ((r =? root) && existsb (root_is s1 e) (qp ++ [base]))).
  { intros r e. unfold s', with_tr. cbn [tr t_desc].
    apply fill_ancestors_spec; [apply Hpe; exact Hpp|]. unfold walk_fuel, s1, with_heap. cbn [heap].
    rewrite (app_length (heap s)). cbn [length]. lia. }
  assert (Hnojunk : forall e, is_descendant (t_desc (tr s)) root e = false).
  { intros e. destruct (is_descendant (t_desc (tr s)) root e) eqn:E; auto.
    apply (inv_desc_live s I) in E. destruct E as [E _]. apply live_iff in E. destruct E as (x & E). congruence. }
  assert (Hris : forall e, existsb (root_is s1 e) (qp ++ [base]) = true <->
                           exists x, In x (qp ++ [base]) /\ root_of s x e).
  { intros e. rewrite existsb_exists. split; intros (x & Hx & H); exists x; split; auto.
    - apply root_is_spec in H. destruct H as (l0 & H & He). rewrite Hh1 in H.
      pose proof (Hnl _ Hx) as Hne. apply Nat.eqb_neq in Hne. rewrite Hne in H. exists l0; auto.
    - apply root_is_spec. destruct H as (l0 & H & He). exists l0. split; auto. apply Hold; auto. }
  assert (Hlk : forall k, lk_list s' k =
                  if existsb (skey_eqb k) (map fst (kv_data states)) then lk_list s k ++ [root] else lk_list s k).
  { intros k. unfold lk_list, s', with_tr. cbn [tr t_lookup]. apply (lookup_add_spec root); auto. }
  assert (Hhk : forall x k v, x <> lid -> (has_key s' x k v <-> has_key s x k v)).
  { intros x k v Hx. apply Nat.eqb_neq in Hx. unfold has_key. rewrite Hh, Hx. tauto. }
  assert (Hrootnot : forall k, ~ In root (lk_list s k)).
  { intros k H. apply (inv_lookup s I) in H. destruct H as (x & v & H & _). congruence. }
  constructor.
  - (* base *)
    destruct (inv_base s I) as (br & bi & bb & bf & Hb). exists br, bi, bb, bf.
    rewrite Hbase. apply Hold. exact Hb.
  - (* paths *)
    intros r x Hx. rewrite Ht in Hx. rewrite Hbase. fold base. destruct (r =? root) eqn:E.
    + apply N.eqb_eq in E. subst r. inversion Hx; subst x. split.
      * exists l. split; [rewrite Hh, Nat.eqb_refl; auto|reflexivity].
      * exists (lid :: qp). cbn [app]. split; [exact Hnewpath|]. split; [|split].
        -- cbn [length]. unfold s', with_tr, s1, with_heap. cbn [heap]. rewrite (app_length (heap s)). cbn [length] in *. lia.
        -- constructor; auto. intros Hin. apply (Hnl _ Hin). reflexivity.
        -- intros y [<-|Hy].
           ++ exists root. split; [exists l; split; [rewrite Hh, Nat.eqb_refl; auto|reflexivity]|].
              rewrite Ht, N.eqb_refl. reflexivity.
           ++ destruct (Hpobj _ Hy) as (ry & Hry & Hty). exists ry. split; auto.
              rewrite Ht. apply (Hlive_ne _ _) in Hty as Hne. apply N.eqb_neq in Hne. now rewrite Hne.
    + destruct (inv_path s I _ _ Hx) as (Hr & q & Hq & Hql & Hqn & Hqo). split; auto.
      exists q. repeat split; auto.
      * apply Hpe. exact Hq.
      * fold base in Hql. unfold s', with_tr, s1, with_heap. cbn [heap]. rewrite (app_length (heap s)). cbn [length] in *. lia.
      * intros y Hy. destruct (Hqo _ Hy) as (ry & Hry & Hty). exists ry. split; auto.
        rewrite Ht. apply (Hlive_ne _ _) in Hty as Hne. apply N.eqb_neq in Hne. now rewrite Hne.
  - (* descendants *)
    intros r x pth e Hx Hpth. rewrite Ht in Hx. rewrite Hdesc. destruct (r =? root) eqn:E.
    + apply N.eqb_eq in E. subst r. inversion Hx; subst x.
      rewrite (is_path_det _ _ _ _ Hpth Hnewpath). cbn [tl andb]. rewrite Hnojunk. cbn [orb].
      rewrite Hris. split; intros (y & Hy & H); exists y; split; auto.
    + cbn [andb]. rewrite orb_false_r.
      destruct (inv_path s I _ _ Hx) as (Hr & q & Hq & _ & _ & _).
      assert (pth = q ++ [base]) by (eapply is_path_det; [exact Hpth|apply Hpe; exact Hq]). subst pth.
      rewrite (inv_desc s I _ _ _ e Hx Hq). split; intros (y & Hy & H); exists y; split; auto.
      apply Hro'; auto.
      assert (Hyin : In y (q ++ [base])) by (destruct q; cbn [app tl] in *; [destruct Hy|now right]).
      destruct (is_path_in_some _ _ _ _ Hq Hyin) as (l0 & Hl0).
      pose proof (hget_lt _ _ _ Hl0). unfold lid. lia.
  - (* lookup *)
    intros k e. rewrite Hlk. destruct (existsb (skey_eqb k) (map fst (kv_data states))) eqn:Ek.
    + apply existsb_skey in Ek. destruct (in_keys_aget skey_eqb skey_eqb_spec _ _ Ek) as (v0 & Hv0).
      rewrite in_app_iff. split.
      * intros [H|[<-|[]]].
        -- apply (inv_lookup s I) in H. destruct H as (x & v & Hx & Hk). exists x, v.
           pose proof (Hlive_ne _ _ Hx) as Hne. apply N.eqb_neq in Hne. rewrite Ht, Hne. split; auto.
           apply Hhk; auto. destruct Hk as (a & b & c & d & f & Hk & _). pose proof (hget_lt _ _ _ Hk). unfold lid. lia.
        -- exists lid, v0. rewrite Ht, N.eqb_refl. split; auto. exists root, (layer_id pl + 1), nodes, states, p.
           rewrite Hh, Nat.eqb_refl. auto.
      * intros (x & v & Hx & Hk). rewrite Ht in Hx. destruct (e =? root) eqn:E.
        -- apply N.eqb_eq in E. right. now left.
        -- left. apply (inv_lookup s I). exists x, v. split; auto. apply Hhk; auto.
           intros ->. destruct (inv_path s I _ _ Hx) as ((l0 & Hl0 & _) & _). pose proof (hget_lt _ _ _ Hl0). unfold lid in *. lia.
    + split.
      * intros H. apply (inv_lookup s I) in H. destruct H as (x & v & Hx & Hk). exists x, v.
        pose proof (Hlive_ne _ _ Hx) as Hne. apply N.eqb_neq in Hne. rewrite Ht, Hne. split; auto.
        apply Hhk; auto. destruct Hk as (a & b & c & d & f & Hk & _). pose proof (hget_lt _ _ _ Hk). unfold lid. lia.
      * intros (x & v & Hx & Hk). rewrite Ht in Hx. destruct (e =? root) eqn:E.
        -- exfalso. inversion Hx; subst x. destruct Hk as (a & b & c & d & f & Hk & Hg).
           rewrite Hh, Nat.eqb_refl in Hk. inversion Hk; subst.
           apply (aget_some_in skey_eqb skey_eqb_spec) in Hg. apply existsb_skey in Hg. congruence.
        -- apply (inv_lookup s I). exists x, v. split; auto. apply Hhk; auto.
           intros ->. destruct (inv_path s I _ _ Hx) as ((l0 & Hl0 & _) & _). pose proof (hget_lt _ _ _ Hl0). unfold lid in *. lia.
  - (* order *)
    intros k. rewrite Hlk.
    assert (Hordold : ordered (t_desc (tr s')) (lk_list s k)).
    { apply (ordered_ext (t_desc (tr s))); [|apply (inv_order s I)].
      intros x y Hx Hy. rewrite Hdesc. destruct (x =? root) eqn:E; [|cbn [andb]; now rewrite orb_false_r].
      apply N.eqb_eq in E. subst x. exfalso. eapply Hrootnot; eauto. }
    destruct (existsb (skey_eqb k) (map fst (kv_data states))); auto.
    apply ordered_app; auto. intros y Hy. rewrite Hdesc.
    destruct (y =? root) eqn:E; [apply N.eqb_eq in E; subst y; exfalso; eapply Hrootnot; eauto|].
    cbn [andb]. rewrite orb_false_r.
    destruct (is_descendant (t_desc (tr s)) y root) eqn:Ed; auto.
    apply (inv_desc_live s I) in Ed. destruct Ed as [_ Ed]. apply live_iff in Ed. destruct Ed as (x & Ed). congruence.
  - (* no junk *)
    intros r e H. rewrite Hdesc in H. apply orb_true_iff in H. rewrite !live_iff. destruct H as [H|H].
    + apply (inv_desc_live s I) in H. rewrite !live_iff in H. destruct H as ((x & Hx) & (y & Hy)).
      split; [exists x|exists y]; rewrite Ht.
      * pose proof (Hlive_ne _ _ Hx) as Hne. apply N.eqb_neq in Hne. now rewrite Hne.
      * pose proof (Hlive_ne _ _ Hy) as Hne. apply N.eqb_neq in Hne. now rewrite Hne.
    + apply andb_true_iff in H. destruct H as [Hr He]. apply N.eqb_eq in Hr. subst r. split.
      * exists lid. now rewrite Ht, N.eqb_refl.
      * apply Hris in He. destruct He as (x & Hx & Hxe). destruct (Hpobj _ Hx) as (rx & Hrx & Htx).
        rewrite (root_of_fun _ _ _ _ Hxe Hrx). exists x. rewrite Ht.
        pose proof (Hlive_ne _ _ Htx) as Hne. apply N.eqb_neq in Hne. now rewrite Hne.
  - (* nodup lists *)
    intros k. rewrite Hlk. destruct (existsb (skey_eqb k) (map fst (kv_data states))); [|apply (inv_lk_nodup s I)].
    apply NoDup_app_single; [apply (inv_lk_nodup s I)|apply Hrootnot].
  - (* nodup keys *)
    intros r x r' i n ss pp Hx Hd. rewrite Ht in Hx. rewrite Hh in Hd. destruct (r =? root) eqn:E.
    + inversion Hx; subst x. rewrite Nat.eqb_refl in Hd. inversion Hd; subst. exact Hnd.
    + destruct (Nat.eqb x lid) eqn:E2.
      * apply Nat.eqb_eq in E2. destruct (inv_path s I _ _ Hx) as ((l0 & Hl0 & _) & _).
        pose proof (hget_lt _ _ _ Hl0). unfold lid in *. lia.
      * eapply (inv_keys_nodup s I); eauto.
  - unfold s', with_tr. cbn [tr t_layers]. apply (nodup_keys_aset N.eqb N.eqb_eq). apply (inv_layers_nodup s I).
Qed.

(* ---- buffer operations do not touch layers or the tree ----------------------------------------- *)
Definition same_htc (s s' : db) : Prop := heap s' = heap s /\ tr s' = tr s /\ cfg s' = cfg s.

Lemma same_htc_refl s : same_htc s s. Proof. repeat split. Qed.
Lemma same_htc_trans a b c : same_htc a b -> same_htc b c -> same_htc a c.
Proof. intros (H1 & H2 & H3) (H4 & H5 & H6). repeat split; congruence. Qed.

Lemma do_flush_htc s bid id : same_htc s (do_flush s bid id).
Proof.
  unfold do_flush. destruct (bget s bid); [|apply same_htc_refl].
  destruct (_ =? id); repeat split.
Qed.

Lemma flush_all_htc s : same_htc s (flush_all s).
Proof.
  unfold flush_all. generalize (pending s) at 1. intros l. revert s.
  induction l as [|p l IH]; intros s; cbn [fold_left]; [apply same_htc_refl|].
  eapply same_htc_trans; [apply do_flush_htc|apply IH].
Qed.

Lemma wait_flush_htc s bid s' r : wait_flush s bid = (s', r) -> same_htc s s'.
Proof.
  unfold wait_flush. destruct (bget s bid); [|intros H; inversion H; apply same_htc_refl].
  destruct (negb (b_done b)); [intros H; inversion H; apply same_htc_refl|].
  set (s1 := match find _ _ with Some p => _ | None => s end).
  assert (same_htc s s1) by (unfold s1; destruct (find _ _); [apply do_flush_htc|apply same_htc_refl]).
  destruct (bget s1 bid); [destruct (b_err b0)|]; intros H'; inversion H'; subst; auto.
Qed.

Lemma buf_flush_htc s bid id s' r : buf_flush s bid id = (s', r) -> same_htc s s'.
Proof.
  unfold buf_flush. destruct (bget s bid); [|intros H; inversion H; apply same_htc_refl].
  destruct (b_done b); intros H; inversion H; subst; repeat split.
Qed.

(* [R dl s s']: only the disk layer object dl may differ, and it stays a disk layer
   with the same root and id *)
Definition R (dl : nat) (s s' : db) : Prop :=
  tr s' = tr s /\ cfg s' = cfg s /\ length (heap s') = length (heap s) /\
  (forall x, x <> dl -> hget s' x = hget s x) /\
  (forall r i b f st, hget s dl = Some (Disk r i b f st) ->
                      exists b' f' st', hget s' dl = Some (Disk r i b' f' st')).

Lemma R_refl dl s : R dl s s.
Proof. repeat split; auto. intros; eauto. Qed.

Lemma R_trans dl a b c : R dl a b -> R dl b c -> R dl a c.
Proof.
  intros (A1 & A2 & A3 & A4 & A5) (B1 & B2 & B3 & B4 & B5). repeat split; try congruence.
  - intros x Hx. rewrite B4, A4; auto.
  - intros r i bb f st H. destruct (A5 _ _ _ _ _ H) as (b' & f' & st' & H'). eapply B5; eauto.
Qed.

Lemma R_htc dl s s' : same_htc s s' -> R dl s s'.
Proof.
  intros (H1 & H2 & H3). unfold R, hget. rewrite H1. repeat split; auto. intros; eauto.
Qed.

Lemma R_hset dl s r i b f st b' f' st' :
  hget s dl = Some (Disk r i b f st) -> R dl s (hset s dl (Disk r i b' f' st')).
Proof.
  intros H. repeat split.
  - unfold hset, with_heap. cbn [heap]. apply length_upd_nth.
  - intros x Hx. rewrite hget_hset. apply Nat.eqb_neq in Hx. now rewrite Hx.
  - intros r0 i0 b0 f0 st0 H0. rewrite H in H0. inversion H0; subst.
    rewrite hget_hset, Nat.eqb_refl, H. eauto.
Qed.

Lemma R_set_frozen dl s fr : R dl s (set_disk_frozen s dl fr).
Proof.
  unfold set_disk_frozen. destruct (hget s dl) as [[r i b f st|]|] eqn:E; try apply R_refl.
  eapply R_hset; eauto.
Qed.

(* ---- disklayer.go commit ------------------------------------------------------------------------- *)
Lemma commit_spec s dl bottom force s' nd droot did buf frozen st broot bid bn bs bp :
  disk_commit s dl bottom force = (s', Ok nd) ->
  hget s dl = Some (Disk droot did buf frozen st) ->
  hget s bottom = Some (Diff broot bid bn bs bp) ->
  exists sx b f, R dl s sx /\ nd = length (heap sx) /\
                 s' = with_heap sx (heap sx ++ [Disk broot bid b f false]).
Proof.
  unfold disk_commit. intros H Hd Hb. rewrite Hd, Hb in H.
  set (s1 := hset s dl (Disk droot did buf frozen true)) in *.
  assert (R1 : R dl s s1) by (eapply R_hset; eauto).
  destruct (bget s1 buf) as [b|]; [|inversion H].
  set (s2 := bset s1 buf (buf_commit b bn bs)) in *.
  assert (R2 : R dl s s2) by (eapply R_trans; [exact R1|apply R_htc; repeat split]).
  destruct (buf_full (buf_commit b bn bs) || force).
  - destruct (match frozen with Some f => wait_flush s2 f | None => (s2, Ok tt) end) as [s3 r3] eqn:E3.
    assert (R3 : R dl s s3).
    { eapply R_trans; [exact R2|]. apply R_htc. destruct frozen; [eapply wait_flush_htc; eauto|inversion E3; apply same_htc_refl]. }
    destruct r3; try (inversion H; fail).
    set (s4 := set_disk_frozen s3 dl (Some buf)) in *.
    assert (R4 : R dl s s4) by (eapply R_trans; [exact R3|apply R_set_frozen]).
    destruct (buf_flush s4 buf bid) as [s5 r5] eqn:E5.
    assert (R5 : R dl s s5) by (eapply R_trans; [exact R4|apply R_htc; eapply buf_flush_htc; eauto]).
    destruct r5; try (inversion H; fail).
    destruct (if c_noasync (cfg s5)
              then let '(s'0, r') := wait_flush s5 buf in
                   match r' with Ok _ => (set_disk_frozen s'0 dl None, Ok tt) | _ => (s'0, r') end
              else (s5, Ok tt)) as [s6 r6] eqn:E6.
    assert (R6 : R dl s s6).
    { destruct (c_noasync (cfg s5)); [|inversion E6; subst; auto].
      destruct (wait_flush s5 buf) as [s'0 r'] eqn:Ew.
      assert (R dl s s'0) by (eapply R_trans; [exact R5|apply R_htc; eapply wait_flush_htc; eauto]).
      destruct r'; inversion E6; subst; auto. eapply R_trans; [eassumption|apply R_set_frozen]. }
    destruct r6; try (inversion H; fail).
    inversion H; subst. clear H.
    eexists (with_bufs s6 _), _, _. split; [|split; reflexivity].
    eapply R_trans; [exact R6|apply R_htc; repeat split].
  - inversion H; subst. exists s2, buf, frozen. auto.
Qed.

(* ---- evolution of the heap during persist ---------------------------------------------------------- *)
Record Ev (bd : nat) (P : list nat) (s s1 : db) : Prop := {
  ev_tr : tr s1 = tr s;
  ev_cfg : cfg s1 = cfg s;
  ev_len : (length (heap s) <= length (heap s1))%nat;
  ev_frame : forall x, (x < length (heap s))%nat -> ~ In x P -> hget s1 x = hget s x;
  ev_disk : forall x r i b f st, hget s x = Some (Disk r i b f st) ->
      exists b' f' st', hget s1 x = Some (Disk r i b' f' st');
  ev_diff : forall x r i n ss y, hget s x = Some (Diff r i n ss y) ->
      exists y', hget s1 x = Some (Diff r i n ss y') /\
                 (y' = y \/ (In x P /\ (bd <= y')%nat)) /\
                 (forall ry, root_of s y ry -> root_of s1 y' ry)
}.

Lemma Ev_root bd P s s1 x rx : Ev bd P s s1 -> root_of s x rx -> root_of s1 x rx.
Proof.
  intros E (l0 & H & Hr). destruct l0 as [r i b f st|r i n ss y].
  - destruct (ev_disk _ _ _ _ E _ _ _ _ _ _ H) as (b' & f' & st' & H'). exists (Disk r i b' f' st'). auto.
  - destruct (ev_diff _ _ _ _ E _ _ _ _ _ _ H) as (y' & H' & _). exists (Diff r i n ss y'). auto.
Qed.

Lemma Ev_trans bd P Q s s1 s2 : Ev bd P s s1 -> Ev bd Q s1 s2 -> Ev bd (P ++ Q) s s2.
Proof.
  intros A B. constructor.
  - rewrite (ev_tr _ _ _ _ B). apply (ev_tr _ _ _ _ A).
  - rewrite (ev_cfg _ _ _ _ B). apply (ev_cfg _ _ _ _ A).
  - pose proof (ev_len _ _ _ _ A). pose proof (ev_len _ _ _ _ B). lia.
  - intros x Hx Hn. rewrite in_app_iff in Hn. pose proof (ev_len _ _ _ _ A).
    rewrite (ev_frame _ _ _ _ B), (ev_frame _ _ _ _ A); auto. lia.
  - intros x r i b f st H. destruct (ev_disk _ _ _ _ A _ _ _ _ _ _ H) as (b' & f' & st' & H').
    eapply (ev_disk _ _ _ _ B); eauto.
  - intros x r i n ss y H. destruct (ev_diff _ _ _ _ A _ _ _ _ _ _ H) as (y1 & H1 & Hy1 & Hr1).
    destruct (ev_diff _ _ _ _ B _ _ _ _ _ _ H1) as (y2 & H2 & Hy2 & Hr2).
    exists y2. split; auto. split.
    + rewrite in_app_iff.
      destruct Hy2 as [->|[Hin Hl]]; [destruct Hy1 as [->|[Hin Hl]]; auto|right; split; auto].
    + intros ry Hry. auto.
Qed.

Lemma Ev_weaken bd P Q s s1 :
  (forall x, (x < length (heap s))%nat -> In x P -> In x Q) -> Ev bd P s s1 -> Ev bd Q s s1.
Proof.
  intros Hi E. constructor; try apply E.
  - intros x Hx Hn. apply (ev_frame _ _ _ _ E); auto.
  - intros x r i n ss y H. destruct (ev_diff _ _ _ _ E _ _ _ _ _ _ H) as (y' & H' & Hy & Hr).
    exists y'. split; auto. split; auto. destruct Hy as [->|[Hin Hl]]; auto. right. split; auto.
    apply Hi; auto. eapply hget_lt; eauto.
Qed.

Lemma Ev_R bd dl s sx : R dl s sx -> (exists r i b f st, hget s dl = Some (Disk r i b f st)) -> Ev bd [dl] s sx.
Proof.
  intros (R1 & R2 & R3 & R4 & R5) (r0 & i0 & b0 & f0 & st0 & Hd). constructor; auto.
  - lia.
  - intros x Hx Hn. apply R4. intros ->. apply Hn. now left.
  - intros x r i b f st H. destruct (Nat.eq_dec x dl) as [->|Hne]; [eauto|]. rewrite R4; eauto.
  - intros x r i n ss y H. assert (x <> dl) by (intros ->; congruence).
    exists y. rewrite R4; auto. split; auto. split; auto.
    intros ry (l0 & Hl0 & Hr). destruct (Nat.eq_dec y dl) as [->|Hne].
    + rewrite Hd in Hl0. inversion Hl0; subst. destruct (R5 _ _ _ _ _ Hd) as (b' & f' & st' & H').
      exists (Disk r0 i0 b' f' st'). auto.
    + exists l0. rewrite R4; auto.
Qed.

Lemma Ev_alloc bd s l : Ev bd [] s (with_heap s (heap s ++ [l])).
Proof.
  assert (H : forall x l0, hget s x = Some l0 -> hget (with_heap s (heap s ++ [l])) x = Some l0).
  { intros x l0 Hx. rewrite hget_alloc. pose proof (hget_lt _ _ _ Hx).
    destruct (Nat.eqb x (length (heap s))) eqn:E; [apply Nat.eqb_eq in E; lia|auto]. }
  constructor; auto.
  - unfold with_heap. cbn [heap]. rewrite app_length. lia.
  - intros x Hx _. rewrite hget_alloc. destruct (Nat.eqb x (length (heap s))) eqn:E; [apply Nat.eqb_eq in E; lia|auto].
  - intros; eauto.
  - intros x r i n ss y Hx. exists y. split; auto. split; auto. intros ry (l0 & Hl0 & Hr). exists l0; auto.
Qed.

Lemma Ev_set_parent bd s lid r i n ss y y' :
  hget s lid = Some (Diff r i n ss y) -> (bd <= y' \/ y' = y)%nat ->
  (forall ry, root_of s y ry -> root_of s y' ry) -> y' <> lid ->
  Ev bd [lid] s (set_parent s lid y').
Proof.
  intros H Hy Hr Hne. unfold set_parent. rewrite H.
  assert (Hg : forall x, hget (hset s lid (Diff r i n ss y')) x =
                         if Nat.eqb x lid then Some (Diff r i n ss y') else hget s x).
  { intros x. rewrite hget_hset, H. reflexivity. }
  assert (Hro : forall x rx, root_of s x rx -> root_of (hset s lid (Diff r i n ss y')) x rx).
  { intros x rx (l0 & Hl0 & Hrx). unfold root_of. rewrite Hg. destruct (Nat.eqb x lid) eqn:E.
    - apply Nat.eqb_eq in E. subst. rewrite H in Hl0. inversion Hl0; subst. eexists; split; eauto.
    - eauto. }
  constructor; auto.
  - unfold hset, with_heap. cbn [heap]. rewrite length_upd_nth. lia.
  - intros x Hx Hn. rewrite Hg. destruct (Nat.eqb x lid) eqn:E; auto. apply Nat.eqb_eq in E. subst. exfalso. apply Hn. now left.
  - intros x r0 i0 b f st Hx. rewrite Hg. destruct (Nat.eqb x lid) eqn:E; [apply Nat.eqb_eq in E; subst; congruence|eauto].
  - intros x r0 i0 n0 ss0 y0 Hx. rewrite Hg. destruct (Nat.eqb x lid) eqn:E.
    + apply Nat.eqb_eq in E. subst. rewrite H in Hx. inversion Hx; subst. exists y'. split; auto. split.
      * destruct Hy as [Hy| ->]; auto. right. split; auto. now left.
      * intros ry Hry. apply Hro. auto.
    + exists y0. split; auto.
Qed.

(* ---- difflayer.go persist ---------------------------------------------------------------------------- *)
Lemma persist_spec bd : forall fuel s lid force s1 nd pth r i n ss p,
  persist fuel s lid force = (s1, Ok nd) -> is_path s lid pth ->
  hget s lid = Some (Diff r i n ss p) -> (bd <= length (heap s))%nat ->
  Ev bd pth s s1 /\ (length (heap s) <= nd)%nat /\ exists b f, hget s1 nd = Some (Disk r i b f false).
Proof.
  induction fuel as [|fu IH]; intros s lid force s1 nd pth r i n ss p H Hp Hl Hbd; [inversion H|].
  cbn [persist] in H. rewrite Hl in H.
  destruct pth as [|x0 rest]; [destruct Hp|]. destruct Hp as [-> Hp].
  destruct rest as [|y rest']; [destruct Hp as (? & ? & ? & ? & ? & Hp); congruence|].
  destruct Hp as [(r0 & i0 & n0 & ss0 & Hl') Hp]. rewrite Hl in Hl'. inversion Hl'; subst r0 i0 n0 ss0 y. clear Hl'.
  destruct (hget s p) as [[pr pi pb pf pst|pr pi pn pss pp]|] eqn:Ep; [| |inversion H].
  - (* parent is the disk layer *)
    unfold diff_to_disk in H. rewrite Hl, Ep in H.
    destruct (commit_spec _ _ _ _ _ _ _ _ _ _ _ _ _ _ _ _ H Ep Hl) as (sx & b & f & HR & Hnd & ->).
    assert (E1 : Ev bd [p] s sx) by (apply Ev_R; eauto 8).
    pose proof (Ev_trans _ _ _ _ _ _ E1 (Ev_alloc bd sx (Disk r i b f false))) as E2.
    split; [|split].
    + eapply Ev_weaken; [|exact E2]. intros x _ Hin. apply in_app_or in Hin. destruct Hin as [[<-|[]]|[]].
      right. now left.
    + destruct HR as (_ & _ & HR & _). lia.
    + exists b, f. rewrite hget_alloc, Hnd, Nat.eqb_refl. reflexivity.
  - (* parent is a diff layer: recurse, re-parent, commit *)
    destruct (persist fu s p force) as [s1' r1] eqn:Er.
    destruct r1 as [result| |]; try (inversion H; fail).
    destruct (IH _ _ _ _ _ _ _ _ _ _ _ Er Hp Ep Hbd) as (E1 & Hres & rb & rf & Hresd).
    destruct (ev_diff _ _ _ _ E1 _ _ _ _ _ _ Hl) as (y1 & Hl1 & Hy1 & Hr1).
    assert (Hlid_lt : (lid < length (heap s))%nat) by (eapply hget_lt; eauto).
    assert (E2 : Ev bd [lid] s1' (set_parent s1' lid result)).
    { eapply Ev_set_parent; eauto; [left; lia| |lia].
      intros ry Hry. assert (ry = pr).
      { assert (root_of s1' y1 pr) by (apply Hr1; exists (Diff pr pi pn pss pp); auto).
        eapply root_of_fun; eauto. }
      subst ry. exists (Disk pr pi rb rf false). auto. }
    set (s2 := set_parent s1' lid result) in *.
    assert (Hl2 : hget s2 lid = Some (Diff r i n ss result)).
    { unfold s2, set_parent. rewrite Hl1, hget_hset, Nat.eqb_refl, Hl1. reflexivity. }
    assert (Hres2 : hget s2 result = Some (Disk pr pi rb rf false)).
    { unfold s2, set_parent. rewrite Hl1, hget_hset. destruct (Nat.eqb result lid) eqn:E; [apply Nat.eqb_eq in E; lia|auto]. }
    unfold diff_to_disk in H. rewrite Hl2, Hres2 in H.
    destruct (commit_spec _ _ _ _ _ _ _ _ _ _ _ _ _ _ _ _ H Hres2 Hl2) as (sx & b & f & HR & Hnd & ->).
    assert (E3 : Ev bd [result] s2 sx) by (apply Ev_R; eauto 8).
    pose proof (Ev_trans _ _ _ _ _ _ (Ev_trans _ _ _ _ _ _ (Ev_trans _ _ _ _ _ _ E1 E2) E3)
                         (Ev_alloc bd sx (Disk r i b f false))) as E4.
    split; [|split].
    + eapply Ev_weaken; [|exact E4]. intros x Hx Hin. rewrite !in_app_iff in Hin.
      destruct Hin as [[[Hin|[<-|[]]]|[<-|[]]]|[]]; [now right|now left|lia].
    + pose proof (ev_len _ _ _ _ (Ev_trans _ _ _ _ _ _ (Ev_trans _ _ _ _ _ _ E1 E2) E3)). lia.
    + exists b, f. rewrite hget_alloc, Hnd, Nat.eqb_refl. reflexivity.
Qed.

(* ---- more association-list facts ---------------------------------------------------------------------- *)
Lemma aget_in_nodup {V} (m : list (N * V)) k v :
  NoDup (map fst m) -> (In (k, v) m <-> aget N.eqb m k = Some v).
Proof.
  induction m as [|(a, b) m IH]; cbn [aget map fst]; intros Hn.
  - split; [intros []|discriminate].
  - inversion Hn; subst. destruct (N.eqb k a) eqn:E.
    + apply N.eqb_eq in E. subst a. split.
      * intros [Heq|Hin]; [inversion Heq; auto|]. exfalso. apply H1. apply in_map_iff. exists (k, v). auto.
      * intros Heq. inversion Heq. now left.
    + apply N.eqb_neq in E. rewrite <- IH by auto. split; [intros [Heq|Hin]; [inversion Heq; congruence|auto]|intros; now right].
Qed.

Lemma keys_adel {V} (m : list (N * V)) k x : In x (map fst (adel N.eqb m k)) -> In x (map fst m).
Proof.
  induction m as [|(a, b) m IH]; cbn [adel]; auto.
  destruct (N.eqb k a); simpl; intuition.
Qed.

Lemma nodup_keys_adel {V} (m : list (N * V)) k : NoDup (map fst m) -> NoDup (map fst (adel N.eqb m k)).
Proof.
  induction m as [|(a, b) m IH]; cbn [adel]; intros H; auto.
  inversion H; subst. destruct (N.eqb k a); auto. simpl. constructor; auto.
  intros Hin. apply H2. eapply keys_adel; eauto.
Qed.

Lemma is_desc_adel d r a e :
  is_descendant (adel N.eqb d r) a e = if e =? r then false else is_descendant d a e.
Proof. unfold is_descendant. rewrite (aget_adel N.eqb N.eqb_eq). destruct (e =? r); reflexivity. Qed.

(* ---- a database whose tree is a single disk layer ---------------------------------------------------------- *)
Lemma singleton_inv s base r i b f ok :
  hget s base = Some (Disk r i b f false) ->
  Inv (with_tr s {| t_base := base; t_layers := [(r, base)]; t_desc := []; t_lookup := []; t_lkok := ok |}).
Proof.
  intros Hb. set (s' := with_tr s _).
  assert (Hh : forall x, hget s' x = hget s x) by reflexivity.
  assert (Ht : forall r0 lid, tget s' r0 = Some lid -> r0 = r /\ lid = base).
  { intros r0 lid. unfold tget, s', with_tr. cbn [tr t_layers aget]. destruct (N.eqb r0 r) eqn:E; [|discriminate].
    apply N.eqb_eq in E. intros H. inversion H. auto. }
  constructor.
  - exists r, i, b, f. exact Hb.
  - intros r0 lid H. destruct (Ht _ _ H) as [-> ->]. split.
    + exists (Disk r i b f false). split; auto.
    + exists []. cbn [app]. split; [|split; [|split]].
      * split; auto. cbn [t_base tr s' with_tr]. eauto 8.
      * cbn. lia.
      * constructor; [intros []|constructor].
      * intros x [<-|[]]. exists r. split; [exists (Disk r i b f false); auto|].
        unfold tget, s', with_tr. cbn [tr t_layers aget t_base]. now rewrite N.eqb_refl.
  - intros r0 lid p e H Hp. destruct (Ht _ _ H) as [-> ->]. split.
    + cbn. discriminate.
    + intros (x & Hin & _). destruct p as [|a [|c p']]; cbn [tl] in Hin; try destruct Hin.
      * destruct Hp as [_ [(r1 & i1 & n & ss & Hd) _]]. rewrite Hh in Hd. congruence.
      * destruct Hp as [_ [(r1 & i1 & n & ss & Hd) _]]. rewrite Hh in Hd. congruence.
  - intros k e. split.
    + intros [].
    + intros (lid & v & H & (r1 & i1 & n & ss & p & Hd & _)).
      destruct (Ht _ _ H) as [-> ->]. rewrite Hh in Hd. congruence.
  - intros k. exact I.
  - intros r0 e H. cbn in H. discriminate.
  - intros k. constructor.
  - intros r0 lid r' i' n ss p H Hd. destruct (Ht _ _ H) as [-> ->]. rewrite Hh in Hd. congruence.
  - cbn. constructor; [intros []|constructor].
Qed.

(* ---- lookup.go removeLayer -------------------------------------------------------------------------------- *)
Lemma rfl_in l e l' x : remove_from_list l e = Some l' -> In x l' -> In x l.
Proof.
  revert l'. induction l as [|a l IH]; intros l' H Hx; cbn [remove_from_list] in H; [discriminate|].
  destruct (a =? e); [inversion H; subst; now right|].
  destruct (remove_from_list l e) as [r'|]; [|discriminate]. inversion H; subst.
  destruct Hx as [<-|Hx]; [now left|right; eauto].
Qed.

Lemma rfl_keep l e l' x : remove_from_list l e = Some l' -> In x l -> x <> e -> In x l'.
Proof.
  revert l'. induction l as [|a l IH]; intros l' H Hx Hne; cbn [remove_from_list] in H; [discriminate|].
  destruct (a =? e) eqn:E.
  - apply N.eqb_eq in E. subst a. inversion H; subst. destruct Hx as [->|Hx]; [congruence|auto].
  - destruct (remove_from_list l e) as [r'|]; [|discriminate]. inversion H; subst.
    destruct Hx as [<-|Hx]; [now left|right; eauto].
Qed.

Lemma rfl_nodup l e l' : remove_from_list l e = Some l' -> NoDup l -> NoDup l' /\ ~ In e l'.
Proof.
  revert l'. induction l as [|a l IH]; intros l' H Hn; cbn [remove_from_list] in H; [discriminate|].
  inversion Hn; subst. destruct (a =? e) eqn:E.
  - apply N.eqb_eq in E. subst a. inversion H; subst. auto.
  - destruct (remove_from_list l e) as [r'|] eqn:Er; [|discriminate]. inversion H; subst.
    destruct (IH _ eq_refl H3) as [Hn' Hni]. split.
    + constructor; auto. intros Hin. apply H2. eapply rfl_in; eauto.
    + intros [->|Hin]; [rewrite N.eqb_refl in E; discriminate|auto].
Qed.

Lemma rfl_none l e : remove_from_list l e = None -> ~ In e l.
Proof.
  induction l as [|a l IH]; cbn [remove_from_list]; intros H; [intros []|].
  destruct (a =? e) eqn:E; [discriminate|]. destruct (remove_from_list l e); [discriminate|].
  intros [->|Hin]; [rewrite N.eqb_refl in E; discriminate|]. now apply IH.
Qed.

Lemma rfl_ordered d l e l' : remove_from_list l e = Some l' -> ordered d l -> ordered d l'.
Proof.
  revert l'. induction l as [|a l IH]; intros l' H Ho; cbn [remove_from_list] in H; [discriminate|].
  destruct Ho as [Ha Ho]. destruct (a =? e); [inversion H; subst; auto|].
  destruct (remove_from_list l e) as [r'|] eqn:Er; [|discriminate]. inversion H; subst.
  split; [|eauto]. intros y Hy. apply Ha. eapply rfl_in; eauto.
Qed.

(* one key of one removeLayer *)
Definition lr_step (state : N) (acc : lookup * bool) (k : skey) : lookup * bool :=
  let '(l, ok) := acc in
  match aget skey_eqb l k with
  | None => (l, false)
  | Some lst =>
      match remove_from_list lst state with
      | None => (l, false)
      | Some [] => (adel skey_eqb l k, ok)
      | Some lst' => (aset skey_eqb l k lst', ok)
      end
  end.

Lemma lr_step_get state l ok k k' :
  lk_get (fst (lr_step state (l, ok) k)) k' =
  if skey_eqb k' k then
    match remove_from_list (lk_get l k) state with Some l' => l' | None => lk_get l k end
  else lk_get l k'.
Proof.
  unfold lr_step, lk_get. destruct (aget skey_eqb l k) as [lst|] eqn:E.
  - destruct (remove_from_list lst state) as [[|a r]|] eqn:Er; cbn [fst].
    + rewrite (aget_adel skey_eqb skey_eqb_spec). destruct (skey_eqb k' k) eqn:E2; auto.
    + rewrite (aget_aset skey_eqb skey_eqb_spec). destruct (skey_eqb k' k) eqn:E2; auto.
    + destruct (skey_eqb k' k) eqn:E2; auto. apply skey_eqb_spec in E2. subst. now rewrite E.
  - cbn [fst]. destruct (skey_eqb k' k) eqn:E2; auto. apply skey_eqb_spec in E2. subst. rewrite E.
    cbn [remove_from_list]. reflexivity.
Qed.

Lemma lookup_remove_eq lk state keys : lookup_remove lk state keys = fold_left (lr_step state) keys (lk, true).
Proof.
  unfold lookup_remove. generalize (lk, true). induction keys as [|k ks IH]; intros acc; cbn [fold_left]; auto.
  rewrite IH. f_equal. destruct acc. reflexivity.
Qed.

Lemma lr_fst state : forall ks l a b,
  fst (fold_left (lr_step state) ks (l, a)) = fst (fold_left (lr_step state) ks (l, b)).
Proof.
  induction ks as [|k0 ks IH]; intros l a b; cbn [fold_left]; auto.
  unfold lr_step at 2 4. destruct (aget skey_eqb l k0) as [lst|]; auto.
  destruct (remove_from_list lst state) as [[|x r]|]; auto.
Qed.

(* a property of lists closed under removal of [state] is kept by removeLayer, for every key *)
Lemma lr_closed (Q : list N -> Prop) state :
  (forall l l', remove_from_list l state = Some l' -> Q l -> Q l') ->
  forall keys acc k, Q (lk_get (fst acc) k) -> Q (lk_get (fst (fold_left (lr_step state) keys acc)) k).
Proof.
  intros HQ. induction keys as [|k0 ks IH]; intros [l ok] k Hq; cbn [fold_left]; auto.
  apply IH. rewrite lr_step_get. destruct (skey_eqb k k0) eqn:E; auto.
  apply skey_eqb_spec in E. subst. cbn [fst] in Hq.
  destruct (remove_from_list (lk_get l k0) state) eqn:Er; eauto.
Qed.

Lemma lookup_remove_closed (Q : list N -> Prop) state :
  (forall l l', remove_from_list l state = Some l' -> Q l -> Q l') ->
  forall keys lk k, Q (lk_get lk k) -> Q (lk_get (fst (lookup_remove lk state keys)) k).
Proof. intros HQ keys lk k Hq. rewrite lookup_remove_eq. apply (lr_closed Q state HQ keys (lk, true) k). exact Hq. Qed.

Lemma lookup_remove_gone state : forall keys lk k,
  NoDup (lk_get lk k) -> In k keys -> ~ In state (lk_get (fst (lookup_remove lk state keys)) k).
Proof.
  intros keys lk k. rewrite lookup_remove_eq. generalize true. revert lk.
  induction keys as [|k0 ks IH]; intros lk ok Hn Hin; [destruct Hin|].
  cbn [fold_left].
  destruct (lr_step state (lk, ok) k0) as [l1 ok1] eqn:E1.
  assert (Hg : forall k', lk_get l1 k' = lk_get (fst (lr_step state (lk, ok) k0)) k') by (intros; now rewrite E1).
  destruct (skey_eqb k k0) eqn:Ek0.
  - apply skey_eqb_spec in Ek0. subst k0.
    assert (Hk : skey_eqb k k = true) by now apply skey_eqb_spec.
    apply (lr_closed (fun l => ~ In state l) state).
    + intros l l' Hr Hq Hi. apply Hq. eapply rfl_in; eauto.
    + cbn [fst]. rewrite Hg, lr_step_get, Hk.
      destruct (remove_from_list (lk_get lk k) state) eqn:Er; [apply (rfl_nodup _ _ _ Er Hn)|now apply rfl_none].
  - destruct Hin as [->|Hin]; [rewrite (proj2 (skey_eqb_spec k k) eq_refl) in Ek0; discriminate|].
    apply IH; auto. rewrite Hg, lr_step_get, Ek0. exact Hn.
Qed.

Lemma lookup_remove_keep state keys lk k e :
  In e (lk_get lk k) -> e <> state -> In e (lk_get (fst (lookup_remove lk state keys)) k).
Proof.
  intros Hin Hne. apply (lookup_remove_closed (fun l => In e l) state); auto.
  intros l l' Hr Hq. eapply rfl_keep; eauto.
Qed.

(* ---- layertree.go:271-282 the re-link loop ------------------------------------------------------------------ *)
Definition rl_step (diff replaced nb : nat) (s : db) (e : N * nat) : db :=
  match hget s (snd e) with
  | Some (Diff _ _ _ _ p) =>
      if negb (Nat.eqb (snd e) diff) && Nat.eqb p replaced then set_parent s (snd e) nb else s
  | _ => s
  end.

Lemma relink_eq s ls diff replaced nb :
  relink_siblings s ls diff replaced nb = fold_left (rl_step diff replaced nb) ls s.
Proof.
  unfold relink_siblings. revert s. induction ls as [|[r lid] ls IH]; intros s; cbn [fold_left]; auto.
Qed.

Definition rl_parent (diff replaced nb : nat) (inls : bool) (x p : nat) : nat :=
  if inls && negb (Nat.eqb x diff) && Nat.eqb p replaced then nb else p.

Definition rl_layer (diff replaced nb : nat) (inls : bool) (x : nat) (o : option layer) : option layer :=
  match o with
  | Some (Diff r i n ss p) => Some (Diff r i n ss (rl_parent diff replaced nb inls x p))
  | o => o
  end.

Lemma rl_step_hget diff replaced nb s e x :
  hget (rl_step diff replaced nb s e) x = rl_layer diff replaced nb (Nat.eqb x (snd e)) x (hget s x).
Proof.
  unfold rl_step, rl_layer, rl_parent. destruct e as [r lid]. cbn [snd].
  destruct (hget s lid) as [[dr di db0 df dst|r0 i n ss p]|] eqn:E.
  - destruct (Nat.eqb x lid) eqn:Ex; [apply Nat.eqb_eq in Ex; subst; rewrite E; auto|].
    destruct (hget s x) as [[]|]; auto.
  - destruct (negb (Nat.eqb lid diff) && Nat.eqb p replaced) eqn:C.
    + unfold set_parent. rewrite E, hget_hset, E. destruct (Nat.eqb x lid) eqn:Ex.
      * apply Nat.eqb_eq in Ex. subst x. rewrite E. cbn [andb]. now rewrite C.
      * destruct (hget s x) as [[]|]; auto.
    + destruct (Nat.eqb x lid) eqn:Ex.
      * apply Nat.eqb_eq in Ex. subst x. rewrite E. cbn [andb]. now rewrite C.
      * destruct (hget s x) as [[]|]; auto.
  - destruct (Nat.eqb x lid) eqn:Ex; [apply Nat.eqb_eq in Ex; subst; rewrite E; auto|].
    destruct (hget s x) as [[]|]; auto.
Qed.

Lemma rl_step_htc diff replaced nb s e :
  tr (rl_step diff replaced nb s e) = tr s /\ cfg (rl_step diff replaced nb s e) = cfg s /\
  length (heap (rl_step diff replaced nb s e)) = length (heap s).
Proof.
  unfold rl_step. destruct (hget s (snd e)) as [[|r i n ss p]|] eqn:E; auto.
  destruct (negb _ && _); auto. unfold set_parent. rewrite E. unfold hset, with_heap. cbn.
  rewrite length_upd_nth. auto.
Qed.

Lemma relink_spec diff replaced nb : nb <> replaced -> forall ls s,
  let s2 := fold_left (rl_step diff replaced nb) ls s in
  tr s2 = tr s /\ cfg s2 = cfg s /\ length (heap s2) = length (heap s) /\
  forall x, hget s2 x = rl_layer diff replaced nb (existsb (Nat.eqb x) (map snd ls)) x (hget s x).
Proof.
  intros Hne. induction ls as [|e ls IH]; intros s; cbn [fold_left map existsb].
  - repeat split; auto. intros x. unfold rl_layer, rl_parent. cbn [andb]. destruct (hget s x) as [[]|]; auto.
  - destruct (IH (rl_step diff replaced nb s e)) as (H1 & H2 & H3 & H4).
    destruct (rl_step_htc diff replaced nb s e) as (G1 & G2 & G3).
    repeat split; try congruence.
    intros x. rewrite H4, rl_step_hget. unfold rl_layer, rl_parent.
    destruct (hget s x) as [[|r i n ss p]|]; auto. f_equal. f_equal.
    destruct (Nat.eqb x (snd e)); cbn [orb andb].
    + destruct (negb (Nat.eqb x diff)); cbn [andb]; [|now rewrite andb_false_r].
      destruct (Nat.eqb p replaced) eqn:Ep; cbn [andb].
      * apply Nat.eqb_neq in Hne. rewrite Hne. now rewrite andb_false_r.
      * rewrite Ep. now rewrite andb_false_r.
    + reflexivity.
Qed.

(* ---- layertree.go:275-281 the children map ------------------------------------------------------------------- *)
Definition pr_of (s : db) (lid : nat) : option N :=
  match hget s lid with
  | Some (Diff _ _ _ _ p) => match hget s p with Some pl => Some (layer_root pl) | None => None end
  | _ => None
  end.

Definition chget (ch : list (N * list N)) (r : N) : list N :=
  match aget N.eqb ch r with Some l => l | None => [] end.

Definition ch_step (s : db) (ch : list (N * list N)) (e : N * nat) : list (N * list N) :=
  match pr_of s (snd e) with
  | Some pr => aset N.eqb ch pr (chget ch pr ++ [fst e])
  | None => ch
  end.

Lemma children_map_eq s : children_map s = fold_left (ch_step s) (t_layers (tr s)) [].
Proof.
  unfold children_map. generalize (@nil (N * list N)). induction (t_layers (tr s)) as [|[r lid] ls IH]; intros ch; cbn [fold_left]; auto.
  rewrite IH. f_equal. unfold ch_step, pr_of, chget. cbn [fst snd].
  destruct (hget s lid) as [[|r0 i n ss p]|]; auto. destruct (hget s p); auto.
  destruct (aget N.eqb ch (layer_root l)); auto.
Qed.

Lemma ch_fold_spec s rho rx : forall ls ch0,
  In rx (chget (fold_left (ch_step s) ls ch0) rho) <->
  In rx (chget ch0 rho) \/ exists x, In (rx, x) ls /\ pr_of s x = Some rho.
Proof.
  induction ls as [|[r lid] ls IH]; intros ch0; cbn [fold_left].
  - split; auto. intros [H|(x & [] & _)]; auto.
  - rewrite IH. unfold ch_step. cbn [fst snd]. destruct (pr_of s lid) as [pr|] eqn:E.
    + unfold chget at 1. rewrite (aget_aset N.eqb N.eqb_eq). destruct (rho =? pr) eqn:Er.
      * apply N.eqb_eq in Er. subst pr. rewrite in_app_iff. split.
        -- intros [[H|[<-|[]]]|(x & Hx & Hp)]; auto.
           ++ right. exists lid. split; auto. now left.
           ++ right. exists x. split; auto. now right.
        -- intros [H|(x & [Heq|Hx] & Hp)]; auto.
           ++ inversion Heq; subst. left. right. now left.
           ++ right. eauto.
      * fold (chget ch0 rho). split.
        -- intros [H|(x & Hx & Hp)]; auto. right. exists x. split; auto. now right.
        -- intros [H|(x & [Heq|Hx] & Hp)]; auto.
           ++ inversion Heq; subst. rewrite E in Hp. inversion Hp; subst. rewrite N.eqb_refl in Er. discriminate.
           ++ right. eauto.
    + split.
      * intros [H|(x & Hx & Hp)]; auto. right. exists x. split; auto. now right.
      * intros [H|(x & [Heq|Hx] & Hp)]; auto.
        -- inversion Heq; subst. congruence.
        -- right. eauto.
Qed.

Lemma children_spec s rho rx :
  In rx (chget (children_map s) rho) <-> exists x, In (rx, x) (t_layers (tr s)) /\ pr_of s x = Some rho.
Proof.
  rewrite children_map_eq, ch_fold_spec. unfold chget. cbn [aget]. split; [intros [[]|H]; auto|auto].
Qed.

(* ---- layertree.go:289-300 the cascading removal ------------------------------------------------------------------ *)
Definition cl_entry (s : db) (o : option nat) : list (N * list skey) :=
  match o with
  | Some i => match hget s i with
              | Some (Diff r' _ _ ss _) => [(r', map fst (kv_data ss))]
              | _ => []
              end
  | None => []
  end.

Definition cl_apply (lk : lookup) (cl : list (N * list skey)) : lookup :=
  fold_left (fun lk c => fst (lookup_remove lk (fst c) (snd c))) cl lk.

Lemma clear_diff_spec s t o :
  t_base (clear_diff s t o) = t_base t /\ t_layers (clear_diff s t o) = t_layers t /\
  t_desc (clear_diff s t o) = t_desc t /\ t_lookup (clear_diff s t o) = cl_apply (t_lookup t) (cl_entry s o).
Proof.
  unfold clear_diff, cl_entry, cl_apply. destruct o as [i|]; auto.
  destruct (hget s i) as [[|r' i0 n ss p]|]; auto.
  cbn [fold_left fst snd]. destruct (lookup_remove (t_lookup t) r' (map fst (kv_data ss))). auto.
Qed.

Lemma mem_in x l : mem x l = true <-> In x l.
Proof.
  unfold mem. rewrite existsb_exists. split.
  - intros (y & Hy & E). apply N.eqb_eq in E. now subst.
  - intros H. exists x. split; auto. apply N.eqb_refl.
Qed.

Lemma chget_adel ch r x : chget (adel N.eqb ch r) x = if x =? r then [] else chget ch x.
Proof. unfold chget. rewrite (aget_adel N.eqb N.eqb_eq). destruct (x =? r); reflexivity. Qed.

Lemma remove_rec_spec s : forall fuel t ch work t',
  remove_rec fuel s t ch work = Some t' ->
  exists Rm cl,
    (forall r, aget N.eqb (t_layers t') r = if mem r Rm then None else aget N.eqb (t_layers t) r) /\
    (forall a e, is_descendant (t_desc t') a e = if mem e Rm then false else is_descendant (t_desc t) a e) /\
    t_lookup t' = cl_apply (t_lookup t) cl /\
    (forall c, In c cl -> exists r, In r Rm /\ In c (cl_entry s (aget N.eqb (t_layers t) r))) /\
    (forall r c, In r Rm -> In c (cl_entry s (aget N.eqb (t_layers t) r)) -> In c cl) /\
    (forall r, In r work -> In r Rm) /\
    (forall x y, In x Rm -> In y (chget ch x) -> In y Rm) /\
    (forall y, In y Rm -> In y work \/ exists x, In x Rm /\ In y (chget ch x)) /\
    (NoDup (map fst (t_layers t)) -> NoDup (map fst (t_layers t'))).
Proof.
  induction fuel as [|fu IH]; intros t ch work t' H.
  - destruct work; [|discriminate]. inversion H; subst. exists [], []. cbn [mem existsb].
    repeat split; auto; try (intros; contradiction).
  - destruct work as [|r rest].
    + inversion H; subst. exists [], []. cbn [mem existsb].
      repeat split; auto; try (intros; contradiction).
    + cbn [remove_rec] in H.
      destruct (clear_diff_spec s t (aget N.eqb (t_layers t) r)) as (C1 & C2 & C3 & C4).
      set (t1 := clear_diff s t (aget N.eqb (t_layers t) r)) in *.
      apply IH in H. destruct H as (Rm' & cl' & H1 & H2 & H3 & H4 & H5 & H6 & H7 & H8 & H9).
      cbn [t_layers t_desc t_lookup] in *. rewrite C2 in *. rewrite C3 in *. rewrite C4 in *.
      exists (r :: Rm'), (cl_entry s (aget N.eqb (t_layers t) r) ++ cl').
      split; [|split; [|split; [|split; [|split; [|split; [|split; [|split]]]]]]].
      * intros x. rewrite H1, (aget_adel N.eqb N.eqb_eq). unfold mem. cbn [existsb]. fold (mem x Rm').
        destruct (x =? r), (mem x Rm'); reflexivity.
      * intros a e. rewrite H2, is_desc_adel. unfold mem. cbn [existsb]. fold (mem e Rm').
        destruct (e =? r), (mem e Rm'); reflexivity.
      * rewrite H3. unfold cl_apply. now rewrite fold_left_app.
      * intros c Hc. apply in_app_or in Hc. destruct Hc as [Hc|Hc].
        -- exists r. split; [now left|auto].
        -- destruct (H4 _ Hc) as (r0 & Hr0 & Hc0). exists r0. split; [now right|].
           rewrite (aget_adel N.eqb N.eqb_eq) in Hc0. destruct (r0 =? r); [destruct Hc0|auto].
      * intros r0 c [<-|Hr0] Hc; [apply in_or_app; now left|].
        destruct (N.eq_dec r0 r) as [->|Hne]; [apply in_or_app; now left|].
        apply in_or_app. right. apply (H5 r0); auto.
        rewrite (aget_adel N.eqb N.eqb_eq). apply N.eqb_neq in Hne. now rewrite Hne.
      * intros x [<-|Hx]; [now left|]. right. apply H6. apply in_or_app. now right.
      * intros x y [<-|Hx] Hy.
        -- right. apply H6. apply in_or_app. now left.
        -- destruct (N.eq_dec x r) as [->|Hne]; [right; apply H6; apply in_or_app; now left|].
           right. apply (H7 x); auto. rewrite chget_adel. apply N.eqb_neq in Hne. now rewrite Hne.
      * intros y [<-|Hy]; [left; now left|].
        destruct (H8 _ Hy) as [Hw|(x & Hx & Hyx)].
        -- apply in_app_or in Hw. destruct Hw as [Hw|Hw]; [right; exists r; split; [now left|auto]|left; now right].
        -- rewrite chget_adel in Hyx. destruct (x =? r); [destruct Hyx|]. right. exists x. split; [now right|auto].
      * intros Hn. apply H9. now apply nodup_keys_adel.
Qed.

(* ---- layertree.go cap, the flattening case ------------------------------------------------------------------------ *)
Lemma set_parent_tr s lid p : tr (set_parent s lid p) = tr s /\ cfg (set_parent s lid p) = cfg s /\
  length (heap (set_parent s lid p)) = length (heap s).
Proof.
  unfold set_parent. destruct (hget s lid) as [[|r i n ss y]|]; auto.
  unfold hset, with_heap. cbn. rewrite length_upd_nth. auto.
Qed.

Lemma live_nonbase_diff s r x : Inv s -> tget s r = Some x -> x <> t_base (tr s) ->
  exists i n ss y, hget s x = Some (Diff r i n ss y).
Proof.
  intros I H Hne. destruct (inv_path s I _ _ H) as ((l0 & Hl0 & Hr) & q & Hp & _).
  destruct q as [|a q'].
  - cbn [app] in Hp. destruct Hp as [Hx _]. congruence.
  - assert (Hh : (a :: q') ++ [t_base (tr s)] = [] ++ x :: (match q' ++ [t_base (tr s)] with y :: _ => y | [] => x end) :: tl (q' ++ [t_base (tr s)])).
    { cbn [app] in *. destruct Hp as [-> _]. destruct (q' ++ [t_base (tr s)]) eqn:E; [destruct q'; discriminate|reflexivity]. }
    rewrite Hh in Hp. destruct (is_path_nonlast_diff _ _ _ _ _ _ Hp) as (r0 & i & n & ss & Hd).
    rewrite Hd in Hl0. inversion Hl0; subst. cbn [layer_root]. eauto.
Qed.

Section CapMain.
  Variables (s s1 : db) (diff parent nb : nat).
  Variables (dr di : N) (dn : nset) (dss : sset) (pr pi : N) (pn : nset) (pss : sset) (pp : nat).
  Variables (rd : N).
  Hypothesis (I : Inv s) (Hrelink : c_relink (cfg s) = true).
  Hypothesis (Hdlive : tget s rd = Some diff).
  Hypothesis (Hdiff : hget s diff = Some (Diff dr di dn dss parent)).
  Hypothesis (Hparent : hget s parent = Some (Diff pr pi pn pss pp)).
  Hypothesis (Hpersist : persist (walk_fuel s) s parent false = (s1, Ok nb)).

  Notation base := (t_base (tr s)).
  Let t1 := {| t_base := t_base (tr s1); t_layers := aset N.eqb (t_layers (tr s1)) pr nb;
               t_desc := t_desc (tr s1); t_lookup := t_lookup (tr s1); t_lkok := t_lkok (tr s1) |}.
  Let s2a := set_parent (with_tr s1 t1) diff nb.
  Let s2 := relink_siblings s2a (t_layers t1) diff parent nb.

  (* the chain of [parent] *)
  Lemma cm_paths : exists qp, is_path s parent (parent :: qp ++ [base]) /\
      NoDup (diff :: parent :: qp ++ [base]) /\
      (forall x, In x (diff :: parent :: qp ++ [base]) -> exists rx, root_of s x rx /\ tget s rx = Some x).
  Proof.
    destruct (inv_path s I _ _ Hdlive) as (_ & q & Hp & _ & Hnd & Hobj).
    destruct q as [|a q]; cbn [app] in Hp.
    - destruct Hp as [_ (r & i & b & f & st & H)]. congruence.
    - destruct Hp as [-> Hp]. cbn [app] in Hnd, Hobj.
      destruct (q ++ [base]) as [|y rest] eqn:E; [destruct q; discriminate|].
      destruct Hp as [(r & i & n & ss & H) Hp]. rewrite Hdiff in H. inversion H; subst y.
      destruct rest as [|z rest'].
      + destruct Hp as [_ (r0 & i0 & b & f & st & H')]. congruence.
      + assert (exists qp, z :: rest' = qp ++ [base]) as (qp & Hq).
        { destruct q as [|q0 q']; cbn [app] in E; [discriminate|]. inversion E. exists q'. reflexivity. }
        exists qp. rewrite Hq in *. auto.
  Qed.
End CapMain.

Lemma nodup_app_l {A} (a b : list A) : NoDup (a ++ b) -> NoDup a.
Proof.
  induction a as [|x a IH]; cbn [app]; intros H; [constructor|].
  inversion H; subst. constructor; auto. intros Hin. apply H2. apply in_or_app. now left.
Qed.

Section CapMain2.
  Variables (s s1 : db) (diff parent nb : nat).
  Variables (dr di : N) (dn : nset) (dss : sset) (pr pi : N) (pn : nset) (pss : sset) (pp : nat).
  Variables (rd : N) (qp : list nat) (b0 : nat) (f0 : option nat).
  Hypothesis (I : Inv s).
  Hypothesis (Hdlive : tget s rd = Some diff).
  Hypothesis (Hdiff : hget s diff = Some (Diff dr di dn dss parent)).
  Hypothesis (Hparent : hget s parent = Some (Diff pr pi pn pss pp)).
  Notation base := (t_base (tr s)).
  Notation Pp := (parent :: qp ++ [base]).
  Hypothesis (Hpp : is_path s parent Pp).
  Hypothesis (Hnd : NoDup (diff :: Pp)).
  Hypothesis (Hobj : forall x, In x (diff :: Pp) -> exists rx, root_of s x rx /\ tget s rx = Some x).
  Hypothesis (HEv : Ev (length (heap s)) Pp s s1).
  Hypothesis (Hnbge : (length (heap s) <= nb)%nat).
  Hypothesis (Hnb : hget s1 nb = Some (Disk pr pi b0 f0 false)).

  Let t1 := {| t_base := t_base (tr s1); t_layers := aset N.eqb (t_layers (tr s1)) pr nb;
               t_desc := t_desc (tr s1); t_lookup := t_lookup (tr s1); t_lkok := t_lkok (tr s1) |}.
  Let s2a := set_parent (with_tr s1 t1) diff nb.
  Let s2 := relink_siblings s2a (t_layers t1) diff parent nb.

  Lemma cm_lt x l0 : hget s x = Some l0 -> (x < length (heap s))%nat.
  Proof. apply hget_lt. Qed.

  Lemma cm_diff_s1 : hget s1 diff = Some (Diff dr di dn dss parent).
  Proof.
    rewrite (ev_frame _ _ _ _ HEv); auto. eapply cm_lt; eauto.
    inversion Hnd; auto.
  Qed.

  Lemma cm_h2a x : hget s2a x = if Nat.eqb x diff then Some (Diff dr di dn dss nb) else hget s1 x.
  Proof.
    unfold s2a, set_parent. change (hget (with_tr s1 t1) diff) with (hget s1 diff). rewrite cm_diff_s1.
    rewrite hget_hset. change (hget (with_tr s1 t1) diff) with (hget s1 diff). rewrite cm_diff_s1.
    destruct (Nat.eqb x diff); reflexivity.
  Qed.

  Lemma cm_nb_ne : nb <> parent.
  Proof. pose proof (cm_lt _ _ Hparent). lia. Qed.

  Lemma cm_h2 x : hget s2 x = rl_layer diff parent nb (existsb (Nat.eqb x) (map snd (t_layers t1))) x (hget s2a x).
  Proof. unfold s2. rewrite relink_eq. apply (relink_spec diff parent nb cm_nb_ne). Qed.

  Lemma cm_tr2 : tr s2 = t1.
  Proof.
    unfold s2. rewrite relink_eq. destruct (relink_spec diff parent nb cm_nb_ne (t_layers t1) s2a) as (H & _).
    rewrite H. unfold s2a. destruct (set_parent_tr (with_tr s1 t1) diff nb) as (H' & _). rewrite H'. reflexivity.
  Qed.

  Lemma cm_root12 x rx : root_of s1 x rx -> root_of s2 x rx.
  Proof.
    intros (l0 & H & Hr). unfold root_of. rewrite cm_h2, cm_h2a. destruct (Nat.eqb x diff) eqn:E.
    - apply Nat.eqb_eq in E. subst x. rewrite cm_diff_s1 in H. inversion H; subst. cbn [rl_layer]. eauto.
    - rewrite H. destruct l0; cbn [rl_layer]; eauto.
  Qed.

  Lemma cm_root x rx : root_of s x rx -> root_of s2 x rx.
  Proof. intros H. apply cm_root12. eapply Ev_root; eauto. Qed.

  Lemma cm_nb2 : hget s2 nb = Some (Disk pr pi b0 f0 false).
  Proof.
    rewrite cm_h2, cm_h2a. destruct (Nat.eqb nb diff) eqn:E.
    - apply Nat.eqb_eq in E. pose proof (cm_lt _ _ Hdiff). lia.
    - rewrite Hnb. reflexivity.
  Qed.

  Lemma cm_tr1 : tr s1 = tr s. Proof. apply (ev_tr _ _ _ _ HEv). Qed.

  Lemma cm_L1 r : aget N.eqb (t_layers t1) r = if r =? pr then Some nb else tget s r.
  Proof. unfold t1. cbn [t_layers]. rewrite (aget_aset N.eqb N.eqb_eq), cm_tr1. reflexivity. Qed.

  Lemma cm_L1_nodup : NoDup (map fst (t_layers t1)).
  Proof. unfold t1. cbn [t_layers]. apply (nodup_keys_aset N.eqb N.eqb_eq). rewrite cm_tr1. apply (inv_layers_nodup s I). Qed.

  Lemma cm_parent_live : tget s pr = Some parent.
  Proof.
    destruct (Hobj parent) as (rx & Hrx & Ht); [right; now left|].
    assert (rx = pr) by (eapply root_of_fun; eauto; exists (Diff pr pi pn pss pp); auto). now subst.
  Qed.

  Lemma cm_live_h2 rx x : tget s rx = Some x -> ~ In x Pp ->
    exists i n ss y, hget s x = Some (Diff rx i n ss y) /\
                     hget s2 x = Some (Diff rx i n ss (if Nat.eqb y parent then nb else y)).
  Proof.
    intros Ht Hni.
    destruct (live_nonbase_diff s rx x I Ht) as (i & n & ss & y & Hx).
    { intros ->. apply Hni. right. apply in_or_app. right. now left. }
    exists i, n, ss, y. split; auto.
    assert (Hrx : rx <> pr) by (intros ->; rewrite cm_parent_live in Ht; inversion Ht; subst; apply Hni; now left).
    assert (Hin : existsb (Nat.eqb x) (map snd (t_layers t1)) = true).
    { apply existsb_exists. exists x. split; [|apply Nat.eqb_refl].
      apply in_map_iff. exists (rx, x). split; auto. apply (aget_in_nodup _ _ _ cm_L1_nodup).
      rewrite cm_L1. apply N.eqb_neq in Hrx. now rewrite Hrx. }
    rewrite cm_h2, Hin, cm_h2a. destruct (Nat.eqb x diff) eqn:E.
    - apply Nat.eqb_eq in E. subst x. rewrite Hdiff in Hx. inversion Hx; subst.
      cbn [rl_layer]. unfold rl_parent. rewrite Nat.eqb_refl. cbn [negb andb]. now rewrite Nat.eqb_refl.
    - rewrite (ev_frame _ _ _ _ HEv); [|eapply cm_lt; eauto|auto]. rewrite Hx. cbn [rl_layer]. unfold rl_parent.
      rewrite E. cbn [negb andb]. reflexivity.
  Qed.

  Lemma cm_path_h2 x r i n ss y : In x Pp -> hget s x = Some (Diff r i n ss y) ->
    exists y', hget s2 x = Some (Diff r i n ss y') /\ forall ry, root_of s y ry -> root_of s2 y' ry.
  Proof.
    intros Hin Hx. destruct (ev_diff _ _ _ _ HEv _ _ _ _ _ _ Hx) as (y' & H1 & Hy & Hr).
    exists y'. split.
    - rewrite cm_h2, cm_h2a. assert (E : Nat.eqb x diff = false).
      { apply Nat.eqb_neq. intros ->. inversion Hnd; auto. }
      rewrite E, H1. cbn [rl_layer]. unfold rl_parent.
      assert (Hne : Nat.eqb y' parent = false).
      { apply Nat.eqb_neq. destruct Hy as [->|[_ Hge]]; [|pose proof (cm_lt _ _ Hparent); lia].
        (* y follows x on the path of parent, whose head is parent *)
        intros ->. destruct (in_split _ _ Hin) as (a & c & Hs).
        assert (Hp' := Hpp). rewrite Hs in Hp'. apply is_path_suffix in Hp'.
        destruct c as [|z c]; [destruct Hp' as [_ (? & ? & ? & ? & ? & Hd)]; congruence|].
        destruct Hp' as [_ [(r' & i' & n' & ss' & Hd) _]]. rewrite Hx in Hd. inversion Hd; subst z.
        inversion Hnd as [|? ? _ Hnd']. rewrite Hs in Hnd'.
        destruct a as [|a0 a']; cbn [app] in Hs; inversion Hs; subst.
        + inversion Hnd'; subst. apply H2. now left.
        + inversion Hnd'; subst. apply H2. apply in_or_app. right. right. now left. }
      now rewrite Hne, andb_false_r.
    - intros ry Hry. apply cm_root12. auto.
  Qed.

  (* ---- the cascade ---- *)
  Variables (Rm : list N) (cl : list (N * list skey)) (t2 : tree) (obr : N).
  Hypothesis (Hobr : root_of s base obr).
  Hypothesis (HR1 : forall r, aget N.eqb (t_layers t2) r = if mem r Rm then None else aget N.eqb (t_layers t1) r).
  Hypothesis (HR2 : forall a e, is_descendant (t_desc t2) a e = if mem e Rm then false else is_descendant (t_desc t1) a e).
  Hypothesis (HR3 : t_lookup t2 = cl_apply (t_lookup t1) cl).
  Hypothesis (HR4 : forall c, In c cl -> exists r, In r Rm /\ In c (cl_entry s2 (aget N.eqb (t_layers t1) r))).
  Hypothesis (HR5 : forall r c, In r Rm -> In c (cl_entry s2 (aget N.eqb (t_layers t1) r)) -> In c cl).
  Hypothesis (HR6 : In obr Rm).
  Hypothesis (HR7 : forall x y, In x Rm -> In y (chget (children_map s2) x) -> In y Rm).
  Hypothesis (HR8 : forall y, In y Rm -> In y [obr] \/ exists x, In x Rm /\ In y (chget (children_map s2) x)).

  Lemma cm_child rx x r' i n ss y' rho :
    aget N.eqb (t_layers t1) rx = Some x -> hget s2 x = Some (Diff r' i n ss y') -> root_of s2 y' rho ->
    In rx (chget (children_map s2) rho).
  Proof.
    intros Ha Hx (l0 & Hl0 & Hr). apply children_spec. exists x. rewrite cm_tr2. split.
    - apply (aget_in_nodup _ _ _ cm_L1_nodup). exact Ha.
    - unfold pr_of. rewrite Hx, Hl0. now subst.
  Qed.

  Lemma cm_child_inv rx rho : In rx (chget (children_map s2) rho) ->
    exists x r' i n ss y', aget N.eqb (t_layers t1) rx = Some x /\ hget s2 x = Some (Diff r' i n ss y') /\ root_of s2 y' rho.
  Proof.
    intros H. apply children_spec in H. destruct H as (x & Hin & Hp). rewrite cm_tr2 in Hin.
    apply (aget_in_nodup _ _ _ cm_L1_nodup) in Hin. unfold pr_of in Hp.
    destruct (hget s2 x) as [[|r' i n ss y']|] eqn:E; try discriminate.
    destruct (hget s2 y') as [l0|] eqn:E2; [|discriminate]. inversion Hp; subst.
    exists x, r', i, n, ss, y'. repeat split; auto. exists l0. auto.
  Qed.

  Lemma cm_base_live : tget s obr = Some base.
  Proof.
    destruct (Hobj base) as (rx & Hrx & Ht); [right; right; apply in_or_app; right; now left|].
    rewrite (root_of_fun _ _ _ _ Hobr Hrx). exact Ht.
  Qed.

  Lemma cm_K1 : ~ In pr Rm.
  Proof.
    intros H. destruct (HR8 _ H) as [[Heq|[]]|(x & Hx & Hc)].
    - pose proof cm_base_live as Hb. rewrite Heq, cm_parent_live in Hb. inversion Hb as [Hb'].
      destruct (inv_base s I) as (br & bi & bb & bf & Hbase). rewrite <- Hb' in Hbase. congruence.
    - destruct (cm_child_inv _ _ Hc) as (x0 & r' & i & n & ss & y' & Ha & Hd & _).
      rewrite cm_L1, N.eqb_refl in Ha. inversion Ha; subst x0. rewrite cm_nb2 in Hd. discriminate.
  Qed.

  (* every proper ancestor of the flattened layer is removed *)
  Lemma cm_K2 : forall c a, Pp = a ++ c -> a <> [] -> forall x rx, In x c -> root_of s x rx -> In rx Rm.
  Proof.
    induction c as [|x0 c IH]; intros a Ha Hne x rx Hx Hrx; [destruct Hx|].
    destruct Hx as [<-|Hx]; [|apply (IH (a ++ [x0]) ltac:(rewrite <- app_assoc; exact Ha) ltac:(destruct a; discriminate) x rx); auto].
    assert (Hp' := Hpp). rewrite Ha in Hp'. apply is_path_suffix in Hp'.
    destruct c as [|y c'].
    - (* the old base *)
      assert (x0 = base).
      { assert (Hl : last Pp 0%nat = x0) by (rewrite Ha; apply last_last).
        rewrite app_comm_cons, last_last in Hl. auto. }
      subst x0. rewrite (root_of_fun _ _ _ _ Hrx Hobr). exact HR6.
    - destruct Hp' as [_ [(r & i & n & ss & Hd) Hpy]].
      assert (Hyin : In y (y :: c')) by now left.
      destruct (Hobj y) as (ry & Hry & Hty).
      { right. rewrite Ha. apply in_or_app. right. right. now left. }
      assert (Hry_rm : In ry Rm) by (apply (IH (a ++ [x0]) ltac:(rewrite <- app_assoc; exact Ha) ltac:(destruct a; discriminate) y ry); auto).
      assert (Hx0in : In x0 Pp) by (rewrite Ha; apply in_or_app; right; now left).
      destruct (cm_path_h2 _ _ _ _ _ _ Hx0in Hd) as (y' & Hd2 & Hroot).
      destruct (Hobj x0) as (rx0 & Hrx0 & Htx0); [now right|].
      rewrite (root_of_fun _ _ _ _ Hrx Hrx0).
      apply (HR7 ry); auto. eapply cm_child; eauto.
      rewrite cm_L1. destruct (rx0 =? pr) eqn:E; auto.
      apply N.eqb_eq in E. subst rx0. rewrite cm_parent_live in Htx0. inversion Htx0; subst x0.
      (* parent is the head of Pp and cannot re-occur in the tail *)
      exfalso. inversion Hnd as [|? ? _ Hnd']. destruct a as [|a0 a']; [congruence|].
      cbn [app] in Ha. inversion Ha as [[Ha0 Ha1]]. inversion Hnd' as [|? ? Hni _]. apply Hni.
      rewrite Ha1. apply in_or_app. right. now left.
  Qed.

  Lemma cm_K3 rx x r' i n ss y' rho :
    ~ In rx Rm -> aget N.eqb (t_layers t1) rx = Some x -> hget s2 x = Some (Diff r' i n ss y') ->
    root_of s2 y' rho -> ~ In rho Rm.
  Proof. intros Hn Ha Hx Hr Hin. apply Hn. apply (HR7 rho); auto. eapply cm_child; eauto. Qed.

  Lemma cm_not_parent rx x : tget s rx = Some x -> rx <> pr -> x <> parent.
  Proof.
    intros Ht Hne ->. destruct (inv_path s I _ _ Ht) as (Hr & _).
    apply Hne. eapply root_of_fun; eauto. exists (Diff pr pi pn pss pp). auto.
  Qed.

  Lemma cm_surv_notin rx x : tget s rx = Some x -> ~ In rx Rm -> rx <> pr -> ~ In x Pp.
  Proof.
    intros Ht Hn Hne [Heq|Hin]; [symmetry in Heq; eapply cm_not_parent; eauto|].
    apply Hn. destruct (inv_path s I _ _ Ht) as (Hr & _).
    apply (cm_K2 (qp ++ [base]) [parent] eq_refl ltac:(discriminate) x rx); auto.
  Qed.

  (* a removed layer has only removed ancestors *)
  Lemma cm_up : forall pth x rx, is_path s x pth ->
    (forall z, In z pth -> exists rz, root_of s z rz /\ tget s rz = Some z) ->
    tget s rx = Some x -> In rx Rm -> forall z rz, In z pth -> root_of s z rz -> In rz Rm.
  Proof.
    induction pth as [|x0 rest IH]; intros x rx Hp Hob Ht Hrm z rz Hz Hrz; [destruct Hp|].
    destruct Hp as [-> Hp]. destruct (inv_path s I _ _ Ht) as (Hrx & _).
    destruct Hz as [<-|Hz]; [now rewrite (root_of_fun _ _ _ _ Hrz Hrx)|].
    destruct rest as [|y rest']; [destruct Hz|]. destruct Hp as [(r & i & n & ss & Hd) Hpy].
    destruct (Hob y) as (ry & Hry & Hty); [right; now left|].
    assert (Hry_rm : In ry Rm).
    { destruct (HR8 _ Hrm) as [[Heq|[]]|(x0 & Hx0 & Hc)].
      - rewrite <- Heq in Ht. rewrite cm_base_live in Ht. inversion Ht as [Hb].
        destruct (inv_base s I) as (br & bi & bb & bf & Hbase). rewrite Hb in Hbase. congruence.
      - destruct (cm_child_inv _ _ Hc) as (x' & r' & i' & n' & ss' & y' & Ha & Hd2 & Hroot).
        rewrite cm_L1 in Ha. destruct (rx =? pr) eqn:E.
        + inversion Ha; subst x'. rewrite cm_nb2 in Hd2. discriminate.
        + rewrite Ht in Ha. inversion Ha; subst x'.
          destruct (in_dec Nat.eq_dec x Pp) as [Hin|Hni].
          * destruct (cm_path_h2 _ _ _ _ _ _ Hin Hd) as (y'' & Hd3 & Hr3). rewrite Hd2 in Hd3. inversion Hd3; subst.
            rewrite (root_of_fun _ _ _ _ (Hr3 _ Hry) Hroot). exact Hx0.
          * destruct (cm_live_h2 _ _ Ht Hni) as (i2 & n2 & ss2 & y2 & Hd4 & Hd5). rewrite Hd in Hd4. inversion Hd4; subst.
            rewrite Hd2 in Hd5. inversion Hd5; subst. destruct (Nat.eqb y2 parent) eqn:Ey.
            -- exfalso. apply cm_K1. assert (x0 = pr) by (eapply root_of_fun; eauto; exists (Disk pr pi b0 f0 false); split; [apply cm_nb2|reflexivity]).
               now subst.
            -- rewrite (root_of_fun _ _ _ _ (cm_root _ _ Hry) Hroot). exact Hx0. }
    apply (IH y ry Hpy (fun z0 Hz0 => Hob z0 (or_intror Hz0)) Hty Hry_rm z rz); auto.
  Qed.

  (* a surviving layer reaches the new base *)
  Lemma cm_surv_path : forall pth x rx, is_path s x pth ->
    (forall z, In z pth -> exists rz, root_of s z rz /\ tget s rz = Some z) ->
    tget s rx = Some x -> ~ In rx Rm -> rx <> pr ->
    exists q1 rest, pth = q1 ++ parent :: rest /\ is_path s2 x (q1 ++ [nb]) /\
      forall z, In z q1 -> ~ In z Pp /\ exists rz, root_of s z rz /\ tget s rz = Some z /\ ~ In rz Rm /\ rz <> pr.
  Proof.
    induction pth as [|x0 rest IH]; intros x rx Hp Hob Ht Hn Hne; [destruct Hp|].
    destruct Hp as [-> Hp]. destruct (inv_path s I _ _ Ht) as (Hrx & _).
    pose proof (cm_surv_notin _ _ Ht Hn Hne) as Hni.
    destruct (cm_live_h2 _ _ Ht Hni) as (i & n & ss & y & Hd & Hd2).
    destruct rest as [|y0 rest']; [destruct Hp as (? & ? & ? & ? & ? & Hp); congruence|].
    destruct Hp as [(r & i' & n' & ss' & Hd') Hpy]. rewrite Hd in Hd'. inversion Hd'; subst y0. clear Hd'.
    assert (Hzx : ~ In x Pp /\ exists rz, root_of s x rz /\ tget s rz = Some x /\ ~ In rz Rm /\ rz <> pr) by eauto 8.
    destruct (Nat.eqb y parent) eqn:Ey.
    - apply Nat.eqb_eq in Ey. subst y. exists [x], rest'. split; [reflexivity|]. split.
      + cbn [app]. split; auto. split; [eauto|]. split; auto. exists pr, pi, b0, f0, false. apply cm_nb2.
      + intros z [<-|[]]. exact Hzx.
    - destruct (Hob y) as (ry & Hry & Hty); [right; now left|].
      assert (Hry_n : ~ In ry Rm).
      { eapply (cm_K3 rx x); eauto. rewrite cm_L1. apply N.eqb_neq in Hne. now rewrite Hne. apply cm_root. exact Hry. }
      assert (Hry_ne : ry <> pr).
      { intros ->. rewrite cm_parent_live in Hty. inversion Hty. subst. rewrite Nat.eqb_refl in Ey. discriminate. }
      destruct (IH y ry Hpy) as (q1 & rest2 & Hs & Hp2 & Hq); auto.
      { intros z0 Hz0. apply Hob. now right. }
      exists (x :: q1), rest2. split; [cbn [app]; now rewrite Hs|]. split.
      + cbn [app]. split; auto. destruct (q1 ++ [nb]) as [|y1 r1] eqn:E; [destruct q1; discriminate|].
        assert (y1 = y) by (destruct Hp2 as [Hy _]; exact Hy). subst y1. split; [eauto|exact Hp2].
      + intros z [<-|Hz]; [exact Hzx|auto].
  Qed.

  (* ---- sequences of removeLayer ---- *)
  Lemma cl_closed (Q : list N -> Prop) :
    (forall l e l', remove_from_list l e = Some l' -> Q l -> Q l') ->
    forall c lk k, Q (lk_get lk k) -> Q (lk_get (cl_apply lk c) k).
  Proof.
    intros HQ. induction c as [|c0 c IH]; intros lk k Hq; cbn [cl_apply fold_left]; auto.
    apply IH. apply lookup_remove_closed; auto. intros l l'. apply HQ.
  Qed.

  Lemma cl_gone : forall c lk k st keys, In (st, keys) c -> In k keys -> NoDup (lk_get lk k) ->
    ~ In st (lk_get (cl_apply lk c) k).
  Proof.
    induction c as [|c0 c IH]; intros lk k st keys Hin Hk Hn; [destruct Hin|].
    cbn [cl_apply fold_left]. destruct Hin as [->|Hin].
    - cbn [fst snd]. apply (cl_closed (fun l => ~ In st l)).
      + intros l e l' Hr Hq Hi. apply Hq. eapply rfl_in; eauto.
      + apply lookup_remove_gone; auto.
    - eapply IH; eauto. apply (lookup_remove_closed (fun l => NoDup l)); auto.
      intros l l' Hr Hq. apply (rfl_nodup _ _ _ Hr Hq).
  Qed.

  Lemma cl_keep : forall c lk k e, ~ In e (map fst c) -> In e (lk_get lk k) -> In e (lk_get (cl_apply lk c) k).
  Proof.
    induction c as [|c0 c IH]; intros lk k e Hn Hin; cbn [cl_apply fold_left]; auto.
    apply IH; [intros H; apply Hn; now right|]. apply lookup_remove_keep; auto.
    intros ->. apply Hn. now left.
  Qed.

  (* ---- the state after the cap ---- *)
  Variables (lk3 : lookup) (ok : bool).
  Hypothesis (Hlk3 : lk3 = cl_apply (t_lookup t2) [(pr, map fst (kv_data pss))]).
  Hypothesis (HR9 : NoDup (map fst (t_layers t2))).
  Let sF := with_tr s2 {| t_base := nb; t_layers := t_layers t2; t_desc := t_desc t2; t_lookup := lk3; t_lkok := ok |}.

  Lemma cm_Ft r : tget sF r = if mem r Rm then None else if r =? pr then Some nb else tget s r.
  Proof. unfold tget, sF, with_tr. cbn [tr t_layers]. rewrite HR1, cm_L1. reflexivity. Qed.

  Lemma cm_Fd a e : is_descendant (t_desc (tr sF)) a e = if mem e Rm then false else is_descendant (t_desc (tr s)) a e.
  Proof. unfold sF, with_tr. cbn [tr t_desc]. rewrite HR2. unfold t1. cbn [t_desc]. now rewrite cm_tr1. Qed.

  Lemma cm_Flk k : lk_list sF k = lk_get (cl_apply (t_lookup (tr s)) (cl ++ [(pr, map fst (kv_data pss))])) k.
  Proof.
    unfold lk_list, sF, with_tr. cbn [tr t_lookup]. rewrite Hlk3, HR3. unfold t1. cbn [t_lookup]. rewrite cm_tr1.
    unfold cl_apply. rewrite fold_left_app. reflexivity.
  Qed.

  Lemma cm_len2 : (length (heap s) <= length (heap s2))%nat.
  Proof.
    unfold s2. rewrite relink_eq. destruct (relink_spec diff parent nb cm_nb_ne (t_layers t1) s2a) as (_ & _ & H & _).
    rewrite H. unfold s2a. destruct (set_parent_tr (with_tr s1 t1) diff nb) as (_ & _ & H'). rewrite H'.
    apply (ev_len _ _ _ _ HEv).
  Qed.

  Lemma cm_notmem r : ~ In r Rm -> mem r Rm = false.
  Proof. intros H. destruct (mem r Rm) eqn:E; auto. apply mem_in in E. contradiction. Qed.

  Lemma cm_surv_tget r x : tget s r = Some x -> ~ In r Rm -> r <> pr -> tget sF r = Some x.
  Proof. intros Ht Hn Hne. rewrite cm_Ft, (cm_notmem _ Hn). apply N.eqb_neq in Hne. now rewrite Hne. Qed.

  Lemma cm_Ft_inv r x : tget sF r = Some x -> ~ In r Rm /\ ((r = pr /\ x = nb) \/ (r <> pr /\ tget s r = Some x)).
  Proof.
    rewrite cm_Ft. destruct (mem r Rm) eqn:E; [discriminate|]. intros H. split.
    - intros Hin. apply mem_in in Hin. congruence.
    - destruct (r =? pr) eqn:E2; [apply N.eqb_eq in E2; inversion H; auto|apply N.eqb_neq in E2; auto].
  Qed.

  Lemma cm_parent_path_rest q1 rest x : is_path s x (q1 ++ parent :: rest) -> rest = qp ++ [base].
  Proof.
    intros H. apply is_path_suffix in H. pose proof (is_path_det _ _ _ _ H Hpp) as E. now inversion E.
  Qed.

  (* a surviving diff layer keeps its state set *)
  Lemma cm_surv_obj r x : tget s r = Some x -> ~ In r Rm -> r <> pr ->
    exists i n ss y y', hget s x = Some (Diff r i n ss y) /\ hget s2 x = Some (Diff r i n ss y').
  Proof.
    intros Ht Hn Hne. destruct (cm_live_h2 _ _ Ht (cm_surv_notin _ _ Ht Hn Hne)) as (i & n & ss & y & H1 & H2). eauto 8.
  Qed.

  Lemma cm_cl_fst c : In c cl -> In (fst c) Rm.
  Proof.
    intros Hc. destruct (HR4 _ Hc) as (r & Hr & Hin). rewrite cm_L1 in Hin. destruct (r =? pr) eqn:E.
    - cbn [cl_entry] in Hin. rewrite cm_nb2 in Hin. destruct Hin.
    - destruct (tget s r) as [x|] eqn:Ht; [|destruct Hin]. cbn [cl_entry] in Hin.
      destruct (hget s2 x) as [[|r' i n ss y]|] eqn:Hx; try destruct Hin as [<-|[]]; try destruct Hin.
      cbn [fst]. destruct (inv_path s I _ _ Ht) as (Hrx & _). apply cm_root in Hrx.
      assert (r' = r) by (eapply root_of_fun; eauto; exists (Diff r' i n ss y); auto). now subst.
  Qed.

  Lemma cm_lookup_fwd k e : In e (lk_list sF k) ->
    In e (lk_list s k) /\ ~ In e Rm /\ e <> pr.
  Proof.
    intros H. rewrite cm_Flk in H.
    assert (Hold : In e (lk_list s k)).
    { revert H. apply (cl_closed (fun l => In e l -> In e (lk_list s k))); auto.
      intros l e0 l' Hr Hq Hi. apply Hq. eapply rfl_in; eauto. }
    split; auto.
    destruct (proj1 (inv_lookup s I k e) Hold) as (lid & v & Ht & (r & i & n & ss & p & Hd & Hk)).
    destruct (inv_path s I _ _ Ht) as ((l0 & Hl0 & Hr0) & _). rewrite Hd in Hl0. inversion Hl0; subst l0. cbn [layer_root] in Hr0. subst r.
    assert (Hkin : In k (map fst (kv_data ss))) by (eapply (aget_some_in skey_eqb skey_eqb_spec); eauto).
    split.
    - intros Hrm. revert H. apply (cl_gone _ _ k e (map fst (kv_data ss))); auto; [|apply (inv_lk_nodup s I)].
      apply in_or_app. left. apply (HR5 e); auto. rewrite cm_L1.
      destruct (e =? pr) eqn:E; [apply N.eqb_eq in E; subst; exfalso; now apply cm_K1|].
      rewrite Ht. cbn [cl_entry].
      destruct (in_dec Nat.eq_dec lid Pp) as [Hin|Hni].
      + destruct (cm_path_h2 _ _ _ _ _ _ Hin Hd) as (y' & H2 & _). rewrite H2. now left.
      + destruct (cm_live_h2 _ _ Ht Hni) as (i2 & n2 & ss2 & y2 & H1 & H2). rewrite Hd in H1. inversion H1; subst.
        rewrite H2. now left.
    - intros ->. revert H. apply (cl_gone _ _ k pr (map fst (kv_data ss))); auto; [|apply (inv_lk_nodup s I)].
      apply in_or_app. right. rewrite cm_parent_live in Ht. inversion Ht; subst lid. rewrite Hparent in Hd. inversion Hd; subst. now left.
  Qed.

  Theorem cm_inv : Inv sF.
  Proof.
    assert (Hh : forall x, hget sF x = hget s2 x) by reflexivity.
    assert (Hpe : forall a pth, is_path s2 a pth -> is_path sF a pth).
    { intros a pth H. eapply is_path_ext; [|exact H]. auto. }
    assert (HnbF : hget sF nb = Some (Disk pr pi b0 f0 false)) by (rewrite Hh; apply cm_nb2).
    assert (Hpr_t : tget sF pr = Some nb) by (rewrite cm_Ft, (cm_notmem _ cm_K1), N.eqb_refl; reflexivity).
    (* the path of a surviving diff layer *)
    assert (Hsp : forall r x, tget s r = Some x -> ~ In r Rm -> r <> pr ->
              exists q q1, is_path s x (q ++ [base]) /\ q ++ [base] = q1 ++ parent :: qp ++ [base] /\
                           NoDup (q ++ [base]) /\ (length (q ++ [base]) <= S (length (heap s)))%nat /\
                           is_path s2 x (q1 ++ [nb]) /\
                           (forall z, In z q1 -> ~ In z Pp /\ exists rz, root_of s z rz /\ tget s rz = Some z /\ ~ In rz Rm /\ rz <> pr)).
    { intros r x Ht Hn Hne. destruct (inv_path s I _ _ Ht) as (_ & q & Hq & Hql & Hqn & Hqo).
      destruct (cm_surv_path _ _ _ Hq Hqo Ht Hn Hne) as (q1 & rest & Hs & Hp2 & Hz).
      pose proof Hq as Hq0. rewrite Hs in Hq. pose proof (cm_parent_path_rest _ _ _ Hq) as Hrest. subst rest.
      exists q, q1. split; [exact Hq0|]. split; [exact Hs|]. split; [exact Hqn|]. split; [exact Hql|]. split; [exact Hp2|exact Hz]. }
    constructor.
    - exists pr, pi, b0, f0. exact HnbF.
    - intros r x Ht. destruct (cm_Ft_inv _ _ Ht) as (Hn & [[-> ->]|[Hne Hts]]).
      + split; [exists (Disk pr pi b0 f0 false); auto|]. exists []. cbn [app]. split; [|split; [|split]].
        * split; auto. eauto 8.
        * cbn. lia.
        * constructor; [intros []|constructor].
        * intros z [<-|[]]. exists pr. split; [exists (Disk pr pi b0 f0 false); auto|auto].
      + destruct (Hsp _ _ Hts Hn Hne) as (q & q1 & Hq & Hs & Hqn & Hql & Hp2 & Hz).
        destruct (inv_path s I _ _ Hts) as (Hrx & _).
        split; [apply cm_root; exact Hrx|]. exists q1. cbn [t_base tr sF with_tr]. split; [|split; [|split]].
        * apply Hpe. exact Hp2.
        * pose proof cm_len2. rewrite Hs in Hql. rewrite !app_length in *. cbn [length] in *.
          change (heap sF) with (heap s2). lia.
        * rewrite Hs in Hqn. pose proof (nodup_app_l _ _ Hqn) as Hq1. apply NoDup_app_single; auto.
          intros Hin. destruct (Hz _ Hin) as (_ & rz & (l0 & Hl0 & _) & _). pose proof (cm_lt _ _ Hl0). lia.
        * intros z Hin. apply in_app_or in Hin. destruct Hin as [Hin|[<-|[]]].
          -- destruct (Hz _ Hin) as (_ & rz & Hrz & Htz & Hnz & Hnez). exists rz. split; [apply cm_root; auto|].
             apply cm_surv_tget; auto.
          -- exists pr. split; [exists (Disk pr pi b0 f0 false); auto|auto].
    - intros r x pth e Ht Hpth. rewrite cm_Fd. destruct (cm_Ft_inv _ _ Ht) as (Hn & [[-> ->]|[Hne Hts]]).
      + assert (pth = [nb]).
        { eapply is_path_det; [exact Hpth|]. split; auto. eauto 8. }
        subst pth. cbn [tl]. split; [|intros (z & [] & _)].
        destruct (mem e Rm) eqn:E; [discriminate|]. intros Hd. exfalso.
        apply (inv_desc s I _ _ _ e cm_parent_live Hpp) in Hd. destruct Hd as (z & Hz & Hrz). cbn [tl] in Hz.
        assert (In e Rm) by (apply (cm_K2 (qp ++ [base]) [parent] eq_refl ltac:(discriminate) z e); auto).
        apply mem_in in H. congruence.
      + destruct (Hsp _ _ Hts Hn Hne) as (q & q1 & Hq & Hs & Hqn & Hql & Hp2 & Hz).
        assert (pth = q1 ++ [nb]) by (eapply is_path_det; [exact Hpth|apply Hpe; exact Hp2]). subst pth.
        destruct q1 as [|x0 q1t].
        { cbn [app] in Hp2. destruct Hp2 as [Hx _]. exfalso. destruct (inv_path s I _ _ Hts) as ((l0 & Hl0 & _) & _).
          pose proof (cm_lt _ _ Hl0). lia. }
        cbn [app tl]. pose proof (inv_desc s I _ _ _ e Hts Hq) as Hold. rewrite Hs in Hold. cbn [app tl] in Hold.
        split.
        * destruct (mem e Rm) eqn:E; [discriminate|]. intros Hd. apply Hold in Hd. destruct Hd as (z & Hzin & Hrz).
          apply in_app_or in Hzin. destruct Hzin as [Hzin|[<-|Hzin]].
          -- exists z. split; [apply in_or_app; now left|apply cm_root; auto].
          -- exists nb. split; [apply in_or_app; right; now left|].
             assert (e = pr) by (eapply root_of_fun; eauto; exists (Diff pr pi pn pss pp); auto). subst e.
             exists (Disk pr pi b0 f0 false). auto.
          -- exfalso. assert (In e Rm) by (apply (cm_K2 (qp ++ [base]) [parent] eq_refl ltac:(discriminate) z e); auto).
             apply mem_in in H. congruence.
        * intros (z & Hzin & Hrz). apply in_app_or in Hzin. destruct Hzin as [Hzin|[<-|[]]].
          -- destruct (Hz z (or_intror Hzin)) as (_ & rz & Hrz0 & Htz & Hnz & Hnez).
             assert (e = rz) by (eapply root_of_fun; [exact Hrz|apply cm_root; exact Hrz0]). subst e.
             rewrite (cm_notmem _ Hnz). apply Hold. exists z. split; [apply in_or_app; now left|auto].
          -- assert (e = pr) by (eapply root_of_fun; eauto; exists (Disk pr pi b0 f0 false); auto). subst e.
             rewrite (cm_notmem _ cm_K1). apply Hold. exists parent. split; [apply in_or_app; right; now left|].
             exists (Diff pr pi pn pss pp). auto.
    - intros k e. split.
      + intros H. destruct (cm_lookup_fwd _ _ H) as (Hold & Hn & Hne).
        destruct (proj1 (inv_lookup s I k e) Hold) as (lid & v & Ht & (r & i & n & ss & p & Hd & Hk)).
        exists lid, v. split; [apply cm_surv_tget; auto|].
        destruct (cm_surv_obj _ _ Ht Hn Hne) as (i2 & n2 & ss2 & y & y' & H1 & H2). rewrite Hd in H1.
        inversion H1 as [[E1 E2 E3 E4 E5]]. rewrite E4 in Hk.
        exists e, i2, n2, ss2, y'. split; auto.
      + intros (lid & v & Ht & (r & i & n & ss & p & Hd & Hk)).
        destruct (cm_Ft_inv _ _ Ht) as (Hn & [[-> ->]|[Hne Hts]]); [rewrite HnbF in Hd; discriminate|].
        destruct (cm_surv_obj _ _ Hts Hn Hne) as (i2 & n2 & ss2 & y & y' & H1 & H2). rewrite Hh, H2 in Hd.
        inversion Hd as [[E1 E2 E3 E4 E5]]. rewrite <- E4 in Hk.
        rewrite cm_Flk. apply cl_keep.
        * rewrite map_app, in_app_iff. intros [Hin|[Heq|[]]]; [|cbn [fst] in Heq; congruence].
          apply in_map_iff in Hin. destruct Hin as (c & Hce & Hc). apply Hn. pose proof (cm_cl_fst _ Hc) as Hf. rewrite Hce in Hf. first [exact Hf | rewrite E1; exact Hf].
        * apply (inv_lookup s I). exists lid, v. split; [first [exact Hts | rewrite <- E1; exact Hts]|]. unfold has_key. eauto 10.
    - intros k.
      assert (Hord : ordered (t_desc (tr s)) (lk_list sF k)).
      { rewrite cm_Flk. apply (cl_closed (ordered (t_desc (tr s)))); [|apply (inv_order s I)].
        intros l e l' Hr Hq. eapply rfl_ordered; eauto. }
      eapply ordered_ext; [|exact Hord]. intros x y Hx Hy. rewrite cm_Fd.
      destruct (cm_lookup_fwd _ _ Hy) as (_ & Hn & _). now rewrite (cm_notmem _ Hn).
    - intros r e H. rewrite cm_Fd in H. destruct (mem e Rm) eqn:E; [discriminate|].
      destruct (inv_desc_live s I _ _ H) as (Hr & He). apply live_iff in Hr, He. destruct Hr as (x & Hx), He as (y & Hy).
      assert (Hen : ~ In e Rm) by (intros Hin; apply mem_in in Hin; congruence).
      assert (Hrn : ~ In r Rm).
      { intros Hin. destruct (inv_path s I _ _ Hx) as (_ & q & Hq & _ & _ & Hqo).
        apply (inv_desc s I _ _ _ e Hx Hq) in H. destruct H as (z & Hz & Hrz). apply Hen.
        apply (cm_up _ _ _ Hq Hqo Hx Hin z e); auto. destruct q; cbn [app tl] in *; [destruct Hz|now right]. }
      rewrite !live_iff. split.
      * destruct (N.eq_dec r pr) as [->|Hne]; [eauto|]. exists x. apply cm_surv_tget; auto.
      * destruct (N.eq_dec e pr) as [->|Hne]; [eauto|]. exists y. apply cm_surv_tget; auto.
    - intros k. rewrite cm_Flk. apply (cl_closed (fun l => NoDup l)); [|apply (inv_lk_nodup s I)].
      intros l e l' Hr Hq. apply (rfl_nodup _ _ _ Hr Hq).
    - intros r x r' i n ss p Ht Hd. destruct (cm_Ft_inv _ _ Ht) as (Hn & [[-> ->]|[Hne Hts]]); [rewrite HnbF in Hd; discriminate|].
      destruct (cm_surv_obj _ _ Hts Hn Hne) as (i2 & n2 & ss2 & y & y' & H1 & H2). rewrite Hh, H2 in Hd.
      inversion Hd as [[E1 E2 E3 E4 E5]]. rewrite <- E4.
      eapply (inv_keys_nodup s I); eauto.
    - exact HR9.
  Qed.
End CapMain2.


(* ---- layertree.go cap preserves the invariant ------------------------------------------------------------------- *)
Lemma dive_live s : Inv s -> forall n l r d, tget s r = Some l -> dive n s l = Some d -> exists rd, tget s rd = Some d.
Proof.
  intros I. induction n as [|n IH]; intros l r d Ht Hd; cbn [dive] in Hd.
  - inversion Hd; subst. eauto.
  - destruct (hget s l) as [[|r0 i0 n0 ss0 p]|] eqn:El; try discriminate.
    destruct (hget s p) as [[|r1 i1 n1 ss1 p1]|] eqn:Ep; try discriminate.
    destruct (inv_path s I _ _ Ht) as (_ & q & Hq & _ & _ & Hobj).
    destruct q as [|a q]; cbn [app] in Hq.
    + destruct Hq as [_ (? & ? & ? & ? & ? & H)]. congruence.
    + destruct Hq as [-> Hq]. cbn [app] in Hobj. destruct (q ++ [t_base (tr s)]) as [|y rest] eqn:E; [destruct q; discriminate|].
      destruct Hq as [(r2 & i2 & n2 & ss2 & H) _]. rewrite El in H. inversion H; subst y.
      destruct (Hobj p) as (rp & _ & Htp); [right; now left|]. eapply IH; eauto.
Qed.

Definition Inv2 (s : db) : Prop := Inv s /\ c_relink (cfg s) = true.

Lemma cap_inv s root layers s' : Inv2 s -> tree_cap s root layers = (s', Ok tt) -> Inv2 s'.
Proof.
  intros [I Hrl] H. unfold tree_cap in H.
  destruct (tget s root) as [l|] eqn:Hl; [|inversion H].
  destruct (hget s l) as [[|lr li ln lss lp]|] eqn:Hhl; try (inversion H; fail).
  destruct (layers =? 0) eqn:E0.
  - (* full commit *)
    destruct (persist (walk_fuel s) s l true) as [s1 r] eqn:Ep. destruct r as [nb| |]; try (inversion H; fail).
    destruct (inv_path s I _ _ Hl) as (_ & q & Hq & _).
    destruct (persist_spec (length (heap s)) _ _ _ _ _ _ _ _ _ _ _ _ Ep Hq Hhl (le_n _)) as (HEv & Hge & b & f & Hnb).
    rewrite Hnb in H. inversion H; subst. cbn [layer_root]. split.
    + eapply singleton_inv; eauto.
    + cbn [cfg with_tr]. rewrite (ev_cfg _ _ _ _ HEv). exact Hrl.
  - destruct (dive (N.to_nat (layers - 1)) s l) as [diff|] eqn:Ed; [|inversion H; subst; split; auto].
    destruct (dive_live s I _ _ _ _ Hl Ed) as (rd & Hdlive).
    destruct (hget s diff) as [[|dr di dn dss parent]|] eqn:Hdiff; try (inversion H; fail).
    destruct (hget s parent) as [[|pr pi pn pss pp]|] eqn:Hparent; try (inversion H; subst; split; auto; fail).
    destruct (persist (walk_fuel s) s parent false) as [s1 r] eqn:Ep. destruct r as [nb| |]; try (inversion H; fail).
    destruct (cm_paths s diff parent dr di dn dss pr pi pn pss pp rd I Hdlive Hdiff Hparent) as (qp & Hpp & Hnd & Hobj).
    destruct (persist_spec (length (heap s)) _ _ _ _ _ _ _ _ _ _ _ _ Ep Hpp Hparent (le_n _)) as (HEv & Hge & b & f & Hnb).
    rewrite Hnb in H.
    destruct (inv_base s I) as (br & bi & bb & bf & Hbase).
    destruct (ev_disk _ _ _ _ HEv _ _ _ _ _ _ Hbase) as (bb' & bf' & bst' & Hbase1).
    assert (Hbr : base_root s1 = Some br).
    { unfold base_root. rewrite (ev_tr _ _ _ _ HEv), Hbase1. reflexivity. }
    rewrite Hbr in H. cbn [layer_root] in H.
    assert (Hcfg2a : forall t, cfg (set_parent (with_tr s1 t) diff nb) = cfg s).
    { intros t. destruct (set_parent_tr (with_tr s1 t) diff nb) as (_ & Hc & _). rewrite Hc. cbn [cfg with_tr].
      apply (ev_cfg _ _ _ _ HEv). }
    rewrite Hcfg2a, Hrl in H.
    match type of H with context [remove_rec ?fu ?s2 ?t1 ?ch ?w] =>
      destruct (remove_rec fu s2 t1 ch w) as [t2|] eqn:Er; [|inversion H] end.
    apply remove_rec_spec in Er. destruct Er as (Rm & cl & HR1 & HR2 & HR3 & HR4 & HR5 & HR6 & HR7 & HR8 & HR9).
    inversion H; subst s'. clear H.
    match goal with |- Inv2 (with_tr ?x _) => set (s2 := x) in * end.
    assert (Hp2 : exists y', hget s2 parent = Some (Diff pr pi pn pss y')).
    { destruct (cm_path_h2 s s1 diff parent nb dr di dn dss pr pi pn pss pp qp b Hdiff Hparent Hpp Hnd Hobj HEv Hge
                  parent pr pi pn pss pp (or_introl eq_refl) Hparent) as (y' & Hy & _). eauto. }
    destruct Hp2 as (y' & Hp2).
    destruct (clear_diff_spec s2 t2 (Some parent)) as (C1 & C2 & C3 & C4).
    unfold clear_diff in C2, C3, C4. rewrite C2, C3, C4. cbn [cl_entry]. rewrite Hp2.
    split.
    + eapply (cm_inv s s1 diff parent nb dr di dn dss pr pi pn pss pp qp b f I Hdiff Hparent Hpp Hnd Hobj HEv Hge Hnb
                     Rm cl t2 br); eauto.
      * exists (Disk br bi bb bf false). auto.
      * apply HR6. now left.
      * apply HR9. cbn [t_layers]. apply (nodup_keys_aset N.eqb N.eqb_eq). rewrite (ev_tr _ _ _ _ HEv). apply (inv_layers_nodup s I).
    + cbn [cfg with_tr]. unfold s2. rewrite relink_eq.
      match goal with |- context [fold_left ?f ?ls ?s0] =>
        destruct (relink_spec diff parent nb ltac:(pose proof (hget_lt _ _ _ Hparent); lia) ls s0) as (_ & Hc & _) end.
      rewrite Hc, Hcfg2a. exact Hrl.
Qed.

(* ---- every operation preserves the invariant ---------------------------------------------------------------------- *)
Lemma Inv_htc s s' : same_htc s s' -> Inv s -> Inv s'.
Proof.
  intros (Hh & Ht & _) I.
  assert (Hg : forall x, hget s' x = hget s x) by (intros; unfold hget; now rewrite Hh).
  assert (Htg : forall r, tget s' r = tget s r) by (intros; unfold tget; now rewrite Ht).
  assert (Hp : forall a p, is_path s' a p <-> is_path s a p).
  { intros a p. split; apply is_path_ext; auto. }
  assert (Hro : forall x r, root_of s' x r <-> root_of s x r) by (intros; unfold root_of; now rewrite Hg).
  assert (Hk : forall x k v, has_key s' x k v <-> has_key s x k v) by (intros; unfold has_key; now rewrite Hg).
  assert (Hl : forall k, lk_list s' k = lk_list s k) by (intros; unfold lk_list; now rewrite Ht).
  assert (Hlv : live_roots s' = live_roots s) by (unfold live_roots; now rewrite Ht).
  constructor.
  - rewrite Ht. destruct (inv_base s I) as (a & b & c & d & H). exists a, b, c, d. now rewrite Hg.
  - intros r lid H. rewrite Htg in H. destruct (inv_path s I _ _ H) as (Hr & q & Hq & Hql & Hqn & Hqo).
    split; [now apply Hro|]. rewrite Ht. exists q. split; [now apply Hp|]. split; [now rewrite Hh|]. split; auto.
    intros x Hx. destruct (Hqo _ Hx) as (rx & Hrx & Htx). exists rx. split; [now apply Hro|now rewrite Htg].
  - intros r lid p e H Hpth. rewrite Htg in H. apply Hp in Hpth. rewrite Ht, (inv_desc s I _ _ _ e H Hpth).
    split; intros (x & Hx & Hrx); exists x; split; auto; now apply Hro.
  - intros k e. rewrite Hl, (inv_lookup s I). split; intros (lid & v & H & Hkk); exists lid, v; split;
      try (now rewrite Htg); try (now rewrite <- Htg); now apply Hk.
  - intros k. rewrite Hl, Ht. apply (inv_order s I).
  - intros r e H. rewrite Ht in H. rewrite Hlv. apply (inv_desc_live s I _ _ H).
  - intros k. rewrite Hl. apply (inv_lk_nodup s I).
  - intros r lid r' i n ss p H Hd. rewrite Htg in H. rewrite Hg in Hd. eapply (inv_keys_nodup s I); eauto.
  - rewrite Ht. apply (inv_layers_nodup s I).
Qed.

Lemma add_step_inv s root parent nodes states s' r :
  Inv2 s -> NoDup (map fst (kv_data states)) -> tree_add s root parent nodes states = (s', r) -> Inv2 s'.
Proof.
  intros [I Hrl] Hnd H. unfold tree_add in H.
  destruct (root =? parent); [inversion H; subst; split; auto|].
  destruct (tget s root) eqn:Hr; [inversion H; subst; split; auto|].
  destruct (tget s parent) as [p|] eqn:Hp; [|inversion H; subst; split; auto].
  destruct (hget s p) as [pl|] eqn:Hpl; [|inversion H; subst; split; auto].
  inversion H; subst. split; [|exact Hrl].
  apply (add_inv s root p pl nodes states I Hr (ex_intro _ parent Hp) Hpl Hnd).
Qed.

Lemma step_inv s o s' : Inv2 s -> step s o = (s', Ok tt) -> Inv2 s'.
Proof.
  intros I2 H. destruct o as [root parent states nodes|root layers|root|]; cbn [step] in H.
  - unfold db_update in H. destruct (tree_add s root parent (nset_of_list nodes) (sset_of_list states)) as [s1 r1] eqn:Ea.
    assert (Inv2 s1) by (eapply add_step_inv; eauto; apply (kv_of_list_nodup skey_eqb skey_hdr skey_eqb_spec)).
    destruct r1 as [[]| |]; try (inversion H; fail).
    eapply cap_inv; [|exact H]. destruct H0 as [I1 Hc]. split; auto.
  - eapply cap_inv; eauto.
  - unfold db_commit in H. eapply cap_inv; eauto.
  - inversion H; subst. destruct I2 as [I Hrl]. pose proof (flush_all_htc s) as Hf. split.
    + eapply Inv_htc; eauto.
    + destruct Hf as (_ & _ & Hc). now rewrite Hc.
Qed.

(* histories: every operation either succeeds, or is rejected with an error and
   leaves the database untouched (cycle, duplicate, missing parent / layer, disk
   layer).  Histories in which an operation fails half-way with an internal error
   (flush errors, fuel, dangling references) or panics are not covered. *)
Inductive reach : db -> list op -> db -> Prop :=
| reach_nil s : reach s [] s
| reach_ok s o s1 h s2 : step s o = (s1, Ok tt) -> reach s1 h s2 -> reach s (o :: h) s2
| reach_rej s o e h s2 : step s o = (s, Err e) -> reach s h s2 -> reach s (o :: h) s2.

Theorem reach_inv s h s' : Inv2 s -> reach s h s' -> Inv2 s'.
Proof.
  intros I2 H. induction H; auto. apply IHreach. eapply step_inv; eauto.
Qed.

Theorem read_correct_all c h s root :
  c_relink c = true -> reach (init_db c) h s -> In root (live_roots s) ->
  (forall k, exists v, sem_state s root k = Ok v /\ read_state s root k = Ok v) /\
  (forall k, exists v, sem_node s root k = Ok v /\ read_node s root k = Ok v).
Proof.
  intros Hc Hr Hl. assert (I2 : Inv2 s) by (eapply reach_inv; [|exact Hr]; split; [apply init_inv|exact Hc]).
  destruct I2 as [I _]. split; intros k; [apply read_state_correct|apply read_node_correct]; auto.
Qed.
