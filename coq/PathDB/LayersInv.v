(* PathDB/LayersInv.v — the layer-tree invariant [Inv] of PathDB/LayersProofs.v is
   preserved by every operation of the model PathDB/Layers.v (with the sibling
   re-link of layertree.go:271-282), hence holds after every history. *)
From GV Require Import Lib.Tactics PathDB.Lookup PathDB.Layers PathDB.LayersProofs.
Local Open Scope N_scope.

(* ---- equality tests ----------------------------------------------------------- *)
Lemma skey_eqb_spec x y : skey_eqb x y = true <-> x = y.
Proof.
  destruct x, y; cbn [skey_eqb]; try (split; [discriminate|intros H; discriminate]).
  - rewrite N.eqb_eq. split; congruence.
  - rewrite andb_true_iff, !N.eqb_eq. split; [intros [-> ->]; auto|intros H; inversion H; auto].
Qed.

(* ---- association lists ----------------------------------------------------------- *)
Section AssocLemmas.
  Context {K V : Type} (eqb : K -> K -> bool) (eqb_spec : forall x y, eqb x y = true <-> x = y).

  Lemma eqb_refl' x : eqb x x = true. Proof. now apply eqb_spec. Qed.
  Lemma eqb_neq x y : x <> y -> eqb x y = false.
  Proof. intros H. destruct (eqb x y) eqn:E; auto. apply eqb_spec in E. contradiction. Qed.
  Lemma eqb_dec x y : {x = y} + {x <> y}.
  Proof. destruct (eqb x y) eqn:E; [left; now apply eqb_spec|right; intros ->; rewrite eqb_refl' in E; discriminate]. Qed.

  Lemma aget_aset (m : list (K * V)) k v k' :
    aget eqb (aset eqb m k v) k' = if eqb k' k then Some v else aget eqb m k'.
  Proof.
    induction m as [|(a, b) m IH]; cbn [aset aget].
    - reflexivity.
    - destruct (eqb k a) eqn:E.
      + apply eqb_spec in E. subst a. cbn [aget]. destruct (eqb k' k); reflexivity.
      + cbn [aget]. destruct (eqb k' a) eqn:E2.
        * apply eqb_spec in E2. subst a. destruct (eqb k' k) eqn:E3; auto.
          apply eqb_spec in E3. subst. rewrite eqb_refl' in E. discriminate.
        * exact IH.
  Qed.

  Lemma aget_adel (m : list (K * V)) k k' :
    aget eqb (adel eqb m k) k' = if eqb k' k then None else aget eqb m k'.
  Proof.
    induction m as [|(a, b) m IH]; cbn [adel aget].
    - destruct (eqb k' k); reflexivity.
    - destruct (eqb k a) eqn:E.
      + apply eqb_spec in E. subst a. rewrite IH. destruct (eqb k' k); reflexivity.
      + cbn [aget]. destruct (eqb k' a) eqn:E2.
        * apply eqb_spec in E2. subst a. destruct (eqb k' k) eqn:E3; auto.
          apply eqb_spec in E3. subst. rewrite eqb_refl' in E. discriminate.
        * exact IH.
  Qed.

  Lemma aget_some_in (m : list (K * V)) k v : aget eqb m k = Some v -> In k (map fst m).
  Proof.
    induction m as [|(a, b) m IH]; cbn [aget map fst]; [discriminate|].
    destruct (eqb k a) eqn:E; [apply eqb_spec in E; subst; now left|intros H; right; auto].
  Qed.

  Lemma aget_none_notin (m : list (K * V)) k : aget eqb m k = None -> ~ In k (map fst m).
  Proof.
    induction m as [|(a, b) m IH]; cbn [aget map fst]; [intros _ []|].
    destruct (eqb k a) eqn:E; [discriminate|]. intros H [Heq|Hin]; [subst; rewrite eqb_refl' in E; discriminate|].
    now apply IH.
  Qed.

  Lemma in_keys_aget (m : list (K * V)) k : In k (map fst m) -> exists v, aget eqb m k = Some v.
  Proof.
    intros H. destruct (aget eqb m k) eqn:E; eauto. exfalso. eapply aget_none_notin; eauto.
  Qed.

  Lemma keys_aset (m : list (K * V)) k v x :
    In x (map fst (aset eqb m k v)) <-> x = k \/ In x (map fst m).
  Proof.
    induction m as [|(a, b) m IH]; cbn [aset map fst].
    - cbn. intuition.
    - destruct (eqb k a) eqn:E.
      + apply eqb_spec in E. subst. cbn [map fst]. intuition.
      + cbn [map fst]. rewrite IH. intuition.
  Qed.

  Lemma nodup_keys_aset (m : list (K * V)) k v :
    NoDup (map fst m) -> NoDup (map fst (aset eqb m k v)).
  Proof.
    induction m as [|(a, b) m IH]; cbn [aset map fst]; intros H.
    - constructor; [intros []|constructor].
    - destruct (eqb k a) eqn:E.
      + apply eqb_spec in E. subst. exact H.
      + inversion H; subst. cbn [map fst]. constructor; auto.
        rewrite keys_aset. intros [->|Hin]; [rewrite eqb_refl' in E; discriminate|auto].
  Qed.
End AssocLemmas.

Definition Neqb_spec := N.eqb_eq.

Lemma kv_of_list_nodup {K} (eqb : K -> K -> bool) hdr (eqb_spec : forall x y, eqb x y = true <-> x = y) l :
  NoDup (map fst (kv_data (kv_of_list eqb hdr l))).
Proof.
  unfold kv_of_list. cbn [kv_data].
  assert (H : forall m, NoDup (map fst m) ->
            NoDup (map fst (fold_left (fun m '(k, v) => aset eqb m k v) l m))).
  { induction l as [|(k, v) l IH]; intros m Hm; cbn [fold_left]; auto.
    apply IH. now apply nodup_keys_aset. }
  apply H. constructor.
Qed.

(* ---- heap ------------------------------------------------------------------------ *)
Lemma nth_upd_nth {A} (l : list A) i x j :
  nth_error (upd_nth l i x) j =
  if Nat.eqb j i then (match nth_error l i with Some _ => Some x | None => None end) else nth_error l j.
Proof.
  revert i j. induction l as [|a l IH]; intros i j.
  - cbn [upd_nth]. destruct (Nat.eqb j i); destruct i, j; reflexivity.
  - destruct i, j; cbn [upd_nth nth_error Nat.eqb]; auto. apply IH.
Qed.

Lemma length_upd_nth {A} (l : list A) i x : length (upd_nth l i x) = length l.
Proof. revert i. induction l; intros [|i]; cbn [upd_nth length]; auto. Qed.

Lemma hget_hset s i l j :
  hget (hset s i l) j = if Nat.eqb j i then (match hget s i with Some _ => Some l | None => None end) else hget s j.
Proof. unfold hget, hset, with_heap. cbn [heap]. apply nth_upd_nth. Qed.

Lemma hget_lt s i l : hget s i = Some l -> (i < length (heap s))%nat.
Proof. unfold hget. intros H. apply nth_error_Some. congruence. Qed.

Lemma hget_alloc s l j :
  hget (with_heap s (heap s ++ [l])) j =
  if Nat.eqb j (length (heap s)) then Some l else hget s j.
Proof.
  unfold hget, with_heap. cbn [heap]. destruct (Nat.eqb j (length (heap s))) eqn:E.
  - apply Nat.eqb_eq in E. subst. rewrite nth_error_app2, Nat.sub_diag; auto.
  - apply Nat.eqb_neq in E. destruct (Nat.lt_ge_cases j (length (heap s))).
    + now rewrite nth_error_app1.
    + rewrite nth_error_app2 by lia. destruct (nth_error (heap s) j) eqn:F.
      * apply nth_error_Some in H. lia. congruence.
      * destruct (j - length (heap s))%nat eqn:G; [lia|]. cbn. now destruct n.
Qed.

(* ---- paths --------------------------------------------------------------------------- *)
Lemma is_path_ext s s' : forall p lid,
  (forall x, In x p -> hget s' x = hget s x) -> is_path s lid p -> is_path s' lid p.
Proof.
  induction p as [|x rest IH]; intros lid Hx H; [destruct H|].
  destruct H as [-> H]. split; auto. rewrite (Hx lid (or_introl eq_refl)).
  destruct rest as [|y r]; auto. destruct H as [Hd H]. split; auto.
  apply IH; auto. intros z Hz. apply Hx. now right.
Qed.

Lemma is_path_det s : forall p1 p2 lid, is_path s lid p1 -> is_path s lid p2 -> p1 = p2.
Proof.
  induction p1 as [|x r1 IH]; intros p2 lid H1 H2; [destruct H1|].
  destruct p2 as [|y r2]; [destruct H2|].
  destruct H1 as [-> H1], H2 as [-> H2]. f_equal.
  destruct r1 as [|a r1'], r2 as [|b r2']; auto.
  - destruct H1 as (r & i & bb & f & st & H1), H2 as [(r' & i' & n & ss & H2) _]. congruence.
  - destruct H2 as (r & i & bb & f & st & H2), H1 as [(r' & i' & n & ss & H1) _]. congruence.
  - destruct H1 as [(r & i & n & ss & H1) H1'], H2 as [(r' & i' & n' & ss' & H2) H2'].
    assert (a = b) by congruence. subst b. eapply IH; eauto.
Qed.

Lemma is_path_in_some s : forall p lid x, is_path s lid p -> In x p -> exists l, hget s x = Some l.
Proof.
  induction p as [|y rest IH]; intros lid x H Hin; [destruct H|].
  destruct H as [-> H]. destruct Hin as [<-|Hin].
  - destruct rest; [destruct H as (r & i & b & f & st & H)|destruct H as [(r & i & n & ss & H) _]]; eauto.
  - destruct rest as [|z r]; [destruct Hin|]. destruct H as [_ H]. eapply IH; eauto.
Qed.
