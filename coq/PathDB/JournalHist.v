(* PathDB/JournalHist.v -- the crash invariant over ALL histories of the path database
   model PathDB/Journal.v (C20): every persistence event of Update (cap / flush),
   Commit, Journal, Recover (journal dropped before the first revert: jc_recover = 2),
   clean reopen and crash + reopen keeps the persistent invariant PInv of
   JournalProofs.v, and every completed operation re-establishes the live invariant.

   [RJ] / [RI] are the root-freshness facts that make "a stored journal is accepted only
   on the persisted state it was written for" an invariant: the diff layers (live or in a
   stored journal) have pairwise distinct roots, none of which is the persisted root or
   the disk root a stored journal was written for.  The caller's obligation
   ([fresh_root], part of [wf_op]) is that a new state root is not one of those roots. *)
From GV Require Import Lib.Tactics PathDB.History PathDB.HistoryProofs PathDB.Journal PathDB.JournalProofs.
Local Open Scope N_scope.

Definition droots (ds : list diff) : list N := map d_root ds.

Definition RJ (w : world) : Prop :=
  forall j, In (Some j) (slots w) ->
    NoDup (droots (j_diffs j)) /\ ~ In (j_proot j) (droots (j_diffs j)).

Record RI (w : world) : Prop := {
  ri_nd : NoDup (droots (w_diffs w));
  ri_p : ~ In (w_proot w) (droots (w_diffs w));
  ri_j : forall j, In (Some j) (slots w) -> ~ In (j_proot j) (droots (w_diffs w)) }.

(* between operations *)
Record WInv (w : world) : Prop := {
  wv_l : exists l lp, LInv w l lp;
  wv_ri : RI w;
  wv_rj : RJ w;
  wv_mode : jc_recover (w_cfg w) = 2;
  wv_js : w_jlive w = w_jdur w }.

(* at every crash point *)
Record CP (w : world) : Prop := {
  cp_p : exists lp, PInv w lp;
  cp_rj : RJ w;
  cp_mode : jc_recover (w_cfg w) = 2 }.

Lemma winv_cp w : WInv w -> CP w.
Proof.
  intros [[l [lp L]] R1 R2 M JS]. constructor; auto. exists lp. apply (li_p _ _ _ L).
Qed.

Lemma droots_renumber ds : forall id, droots (renumber id ds) = droots ds.
Proof. induction ds as [|d r IH]; intro id; simpl; auto. rewrite IH. reflexivity. Qed.

Lemma open_fields w evs w' :
  open w = (evs, Done w') ->
  w_dk w' = fst (load_layers w) /\ w_diffs w' = snd (load_layers w).
Proof.
  intro H. destruct (opened_fields w) as [B1 [B2 _]].
  destruct (open_done _ _ _ H) as [[-> _]|[[-> _]|[-> _]]].
  - auto.
  - unfold fr_reset. destruct (set_frz_other (opened w) (mkFrz 0 0 (fun _ => None)) 0 0) as [X1 [X2 _]].
    rewrite X1, X2. auto.
  - destruct (trunc_head_cases (opened w) (disk_id (fst (load_layers w)))) as [a [b [-> _]]].
    match goal with |- context [set_frz ?w0 ?f ?a ?b] =>
      destruct (set_frz_other w0 f a b) as [X1 [X2 _]] end.
    rewrite X1, X2. auto.
Qed.

Lemma crash_slots c w j : In (Some j) (slots (crash c w)) -> In (Some j) (slots w).
Proof.
  unfold slots, crash. simpl. destruct (c_jold c); intuition.
Qed.

(* crash + reopen from any crash point: New succeeds, the database is consistent, and the
   live invariant holds again *)
Theorem cp_reopen w c :
  CP w ->
  exists evs w' l lp, open (crash c w) = (evs, Done w') /\ Consistent w' l lp /\ WInv w'.
Proof.
  intros [[lp P] RJw M].
  destruct (crash_open_consistent w lp c P) as [evs [w' [l [O [C _]]]]].
  assert (PC := crash_pinv c w lp P). assert (SC := crash_settled c w).
  assert (LI := open_linv (crash c w) lp evs w' l PC SC O C).
  set (wc := crash c w) in *.
  assert (TH : fr_tail (w_fr wc) <= fr_head (w_fr wc)).
  { destruct PC as [_ _ _ _ _ P6 P7 P8 P9 _ _]. destruct SC as [S1 [S2 _]]. lia. }
  destruct (open_aligned _ _ _ TH O) as [A1 [A2 [A3 [A4 A5]]]].
  unfold kv_part in A3. injection A3 as K1 K2 K3 K4 K5 K6 K7 K8 K9.
  assert (SL : slots w' = slots wc) by (unfold slots; rewrite K5, K6, K7; reflexivity).
  destruct (open_fields _ _ _ O) as [Hdk Hdf].
  exists evs, w', l, lp. split; [exact O|]. split; [exact C|].
  constructor.
  - exists l, lp. exact LI.
  - (* RI *)
    assert (L := load_layers_spec wc).
    destruct (journal_used wc) as [j|] eqn:EJ.
    + destruct (journal_only_if_matching _ _ EJ) as [M1 [M2 M3]].
      assert (Hin : In (Some j) (slots wc)).
      { unfold load_journal in M1. unfold slots. destruct (w_jfile wc).
        - destruct (w_jlive wc) eqn:E; [injection M1 as ->; simpl; auto|]. rewrite M1. simpl. auto.
        - rewrite M1. simpl. auto. }
      destruct (RJw j (crash_slots c w j Hin)) as [R1 R2].
      rewrite L in Hdf. simpl in Hdf.
      constructor; rewrite Hdf, droots_renumber.
      * exact R1.
      * replace (w_proot w') with (j_proot j); [exact R2|]. rewrite K1. exact M2.
      * intros j' Hj'. rewrite SL in Hj'.
        assert (LJ := slot_loaded wc j' (p_ex _ _ PC) SC Hj'). rewrite M1 in LJ.
        injection LJ as <-. exact R2.
    + rewrite L in Hdf. simpl in Hdf. constructor; rewrite Hdf; simpl.
      * constructor.
      * tauto.
      * intros; tauto.
  - intros j Hj. rewrite SL in Hj. apply RJw. apply (crash_slots c w j Hj).
  - rewrite K8. exact M.
  - destruct (c_set _ _ _ C) as [_ [_ S3]]. exact S3.
Qed.

(* ---------- worlds that differ only in the volatile part ---------------------------------- *)

Definition same_pers (w w' : world) : Prop :=
  w_dk w' = w_dk w /\ w_proot w' = w_proot w /\ w_fr w' = w_fr w /\ w_shead w' = w_shead w /\
  w_stail w' = w_stail w /\ w_kvj w' = w_kvj w /\ w_jlive w' = w_jlive w /\ w_jdur w' = w_jdur w /\
  w_jfile w' = w_jfile w.

Lemma pinv_same_pers w w' lp : same_pers w w' -> PInv w lp -> PInv w' lp.
Proof.
  intros [E1 [E2 [E3 [E4 [E5 [E6 [E7 [E8 E9]]]]]]]] P.
  apply (pinv_slots w w' lp P E2 E1 E3 E4 E5).
  - unfold slot_excl. rewrite E9, E6, E7, E8. exact (p_ex _ _ P).
  - intros j Hj. apply (jok_transfer w).
    + apply (p_js _ _ P). unfold slots in *. rewrite E6, E7, E8 in Hj. exact Hj.
    + exact E2.
    + rewrite E1. reflexivity.
    + rewrite E1. reflexivity.
    + rewrite E3. reflexivity.
    + rewrite E5. apply N.le_refl.
    + rewrite E4. apply N.le_refl.
Qed.

Lemma linvd_same_pers w w' l lp : same_pers w w' -> LInvD w l lp -> LInvD w' l lp.
Proof.
  intros S [L1 L2 L3 L4 L6 L7]. assert (P := pinv_same_pers w w' lp S L6).
  destruct S as [E1 [E2 [E3 [E4 [E5 [E6 [E7 [E8 E9]]]]]]]].
  constructor.
  - rewrite E1. exact L1.
  - exact L2.
  - rewrite E3. exact L3.
  - rewrite E5, E3. exact L4.
  - exact P.
  - intros j Hj A B. rewrite E1. apply L7.
    + unfold slots in *. rewrite E6, E7, E8 in Hj. exact Hj.
    + rewrite <- E2. exact A.
    + rewrite <- E1. exact B.
Qed.

Lemma same_pers_set_diffs w ds : same_pers w (set_diffs w ds).
Proof. unfold same_pers. simpl. repeat split. Qed.
Lemma same_pers_set_ro w b : same_pers w (set_ro w b).
Proof. unfold same_pers. simpl. repeat split. Qed.

(* ---------- list facts ------------------------------------------------------------------------ *)

Lemma nodup_snoc {A} (l : list A) x : NoDup l -> ~ In x l -> NoDup (l ++ [x]).
Proof.
  induction l as [|a l IH]; intros ND Hn; simpl.
  - constructor; [tauto|constructor].
  - inversion ND as [|? ? Ha ND']; subst. constructor.
    + intro H. apply in_app_iff in H. destruct H as [H|[H|[]]]; [tauto|]. subst. apply Hn. left. reflexivity.
    + apply IH; auto. intro H. apply Hn. right. exact H.
Qed.

Lemma nodup_app_disj {A} (l1 l2 : list A) x : NoDup (l1 ++ l2) -> In x l1 -> ~ In x l2.
Proof.
  induction l1 as [|a l1 IH]; intros ND H1 H2; simpl in *; [tauto|].
  inversion ND as [|? ? Ha ND']; subst. destruct H1 as [->|H1].
  - apply Ha. apply in_app_iff. right. exact H2.
  - exact (IH ND' H1 H2).
Qed.

Lemma nodup_app_l {A} (l1 l2 : list A) : NoDup (l1 ++ l2) -> NoDup l1.
Proof.
  induction l1 as [|a l1 IH]; intro ND; [constructor|].
  simpl in ND. inversion ND as [|? ? Ha ND']; subst. constructor.
  - intro H. apply Ha. apply in_app_iff. left. exact H.
  - apply IH. exact ND'.
Qed.

Lemma nodup_app_r {A} (l1 l2 : list A) : NoDup (l1 ++ l2) -> NoDup l2.
Proof.
  induction l1 as [|a l1 IH]; intro ND; [exact ND|].
  simpl in ND. inversion ND; subst. apply IH. assumption.
Qed.

Lemma droots_split n ds : droots ds = droots (firstn n ds) ++ droots (skipn n ds).
Proof. unfold droots. rewrite <- map_app, firstn_skipn. reflexivity. Qed.

Lemma find_diff_notin ds r : ~ In r (droots ds) -> forall n, find_diff ds r n = None.
Proof.
  induction ds as [|d ds IH]; intros H n; simpl; auto.
  destruct (d_root d =? r) eqn:E.
  - apply N.eqb_eq in E. exfalso. apply H. left. exact E.
  - apply IH. intro X. apply H. right. exact X.
Qed.

(* ---------- merging diff layers --------------------------------------------------------------- *)

Definition ev_cp (w : world) (e : ev) : Prop := (exists lp0, PInv (snd e) lp0) /\ ev_frame w e.

Lemma ev_cp_CP w e : RJ w -> jc_recover (w_cfg w) = 2 -> ev_cp w e -> CP (snd e).
Proof.
  intros R M [[lp0 P] [S [C J]]]. constructor.
  - exists lp0. exact P.
  - intros j Hj. rewrite S in Hj. apply R. exact Hj.
  - rewrite C. exact M.
Qed.

Lemma ev_cp_trans w k w1 e : ev_frame w (k, w1) -> ev_cp w1 e -> ev_cp w e.
Proof.
  intros [S1 [C1 J1]] [P [S2 [C2 J2]]]. simpl in *. split; [exact P|].
  unfold ev_frame. rewrite S2, C2, J2. auto.
Qed.

Lemma commit_layers_ok force ds : forall w l lp,
  LInvD w l lp -> diffs_ok (sem_rev l) (len l) ds -> NoDup (droots ds) ->
  (forall j, In (Some j) (slots w) -> ~ In (j_proot j) (droots ds)) ->
  exists evs w' lp', commit_layers w ds force = (evs, Done w') /\
    (forall e, In e evs -> ev_cp w e) /\
    LInvD w' (rev (tr_of ds) ++ l) lp' /\ ev_frame w (0, w') /\
    w_diffs w' = w_diffs w /\ w_ro w' = w_ro w /\
    (w_proot w' = w_proot w \/ In (w_proot w') (droots ds)).
Proof.
  induction ds as [|d r IH]; intros w l lp LI DO ND FR.
  - exists [], w, lp. simpl. split; [reflexivity|]. split; [intros ? []|]. split; [exact LI|].
    split; [unfold ev_frame; simpl; auto|]. auto.
  - simpl in DO. destruct DO as [H1 [H2 [H3 H4]]].
    inversion ND as [|? ? Hn ND']; subst.
    assert (FR0 : forall j, In (Some j) (slots w) -> j_proot j <> d_root d).
    { intros j Hj E. apply (FR j Hj). left. symmetry. exact E. }
    destruct (disk_commit_events_pinv w l lp d force LI H1 H2 H3 FR0)
      as [e1 [w1 [lp1 [E1 [P1 [LI1 [F1 [F1' [D1 [R1 PR1]]]]]]]]]].
    assert (F1'' := F1'). destruct F1'' as [S1 [C1 J1]]. simpl in S1, C1, J1.
    assert (DO' : diffs_ok (sem_rev (d_tr d :: l)) (len (d_tr d :: l)) r).
    { rewrite len_cons. exact H4. }
    assert (FR' : forall j, In (Some j) (slots w1) -> ~ In (j_proot j) (droots r)).
    { intros j Hj X. rewrite S1 in Hj. apply (FR j Hj). right. exact X. }
    destruct (IH w1 (d_tr d :: l) lp1 LI1 DO' ND' FR')
      as [e2 [w2 [lp2 [E2 [P2 [LI2 [F2 [D2 [R2 PR2]]]]]]]]].
    exists (e1 ++ e2), w2, lp2. split.
    { simpl. rewrite E1, E2. reflexivity. }
    split.
    { intros e He. apply in_app_iff in He. destruct He as [He|He].
      - split; [|apply F1; exact He]. destruct (P1 e He) as [X|X]; eexists; exact X.
      - apply (ev_cp_trans w 0 w1); [exact F1'|apply P2; exact He]. }
    split.
    { simpl. rewrite <- app_assoc. simpl. exact LI2. }
    split.
    { destruct F2 as [S2 [C2 J2]]. simpl in *. unfold ev_frame. simpl. rewrite S2, C2, J2. auto. }
    split; [rewrite D2; exact D1|]. split; [rewrite R2; exact R1|].
    destruct PR2 as [X|X].
    + rewrite X. destruct PR1 as [Y|Y]; [left; exact Y|right; left; symmetry; exact Y].
    + right. right. exact X.
Qed.

Lemma fresh_subset (x : N) n (ds : list diff) : ~ In x (droots ds) -> ~ In x (droots (skipn n ds)).
Proof.
  intros H X. apply H. rewrite (droots_split n ds). apply in_app_iff. right. exact X.
Qed.

Lemma winv_drop_diffs w : WInv w -> WInv (set_diffs w []).
Proof.
  intros [[l [lp LI]] [R1 R2 R3] RJw M JS]. constructor.
  - exists l, lp. apply linvd_l.
    + apply (linvd_same_pers w); [apply same_pers_set_diffs|apply linv_d; exact LI].
    + exact Logic.I.
  - constructor; simpl; [constructor|tauto|intros; tauto].
  - intros j Hj. apply RJw. exact Hj.
  - exact M.
  - exact JS.
Qed.

Lemma cap_from_ok w m k :
  WInv w -> (m <= length (w_diffs w))%nat ->
  exists evs w', cap_from w m k = (evs, Done w') /\ (forall e, In e evs -> CP (snd e)) /\
                 WInv w' /\ w_ro w' = w_ro w.
Proof.
  intros WI Hm. assert (WI' := WI). destruct WI' as [[l [lp LI]] [R1 R2 R3] RJw M JS].
  (* committing the first n layers and keeping the rest *)
  assert (GEN : forall n force,
    exists evs w' , commit_layers w (firstn n (w_diffs w)) force = (evs, Done w') /\
      (forall e, In e evs -> CP (snd e)) /\
      WInv (set_diffs w' (skipn n (w_diffs w))) /\ w_ro w' = w_ro w).
  { intros n force.
    destruct (diffs_ok_split n (w_diffs w) l (li_diffs _ _ _ LI)) as [DA DB].
    assert (NDs := R1). rewrite (droots_split n) in NDs.
    destruct (commit_layers_ok force (firstn n (w_diffs w)) w l lp (linv_d _ _ _ LI) DA
                (nodup_app_l _ _ NDs))
      as [evs [w' [lp' [E [P [LI' [F [D [RO PR]]]]]]]]].
    { intros j Hj X. apply (R3 j Hj). rewrite (droots_split n). apply in_app_iff. left. exact X. }
    exists evs, w'. split; [exact E|]. split.
    { intros e He. apply (ev_cp_CP w); auto. }
    split; [|exact RO].
    destruct F as [S [C J]]. simpl in S, C, J.
    constructor.
    - exists (rev (tr_of (firstn n (w_diffs w))) ++ l), lp'.
      apply linvd_l.
      + apply (linvd_same_pers w'); [apply same_pers_set_diffs|exact LI'].
      + simpl. exact DB.
    - constructor; simpl.
      + apply (nodup_app_r _ _ NDs).
      + destruct PR as [X|X].
        * rewrite X. apply fresh_subset. exact R2.
        * apply (nodup_app_disj _ _ _ NDs X).
      + intros j Hj. apply fresh_subset. apply R3.
        change (In (Some j) (slots w')) in Hj. rewrite S in Hj. exact Hj.
    - intros j Hj. apply RJw.
      change (In (Some j) (slots w')) in Hj. rewrite S in Hj. exact Hj.
    - simpl. rewrite C. exact M.
    - simpl. unfold slots in S. injection S as S1 S2 S3. rewrite S2, S3. exact JS. }
  unfold cap_from. destruct k as [|k'].
  - destruct (GEN m true) as [evs [w' [E [P [WI2 RO]]]]]. rewrite E.
    exists evs, (set_diffs w' []). split; [reflexivity|]. split; [exact P|]. split; [|exact RO].
    exact (winv_drop_diffs _ WI2).
  - destruct (Nat.leb m (S k')).
    + exists [], w. split; [reflexivity|]. split; [intros ? []|]. auto.
    + destruct (GEN (m - S k')%nat false) as [evs [w' [E [P [WI2 RO]]]]]. rewrite E.
      eexists _, _. split; [reflexivity|]. split; [exact P|]. split; [exact WI2|exact RO].
Qed.

(* ---------- Update, Commit -------------------------------------------------------------------- *)

Lemma head_state_fold ds : forall m,
  fold_left (fun m d => fold_left (fun m c => upd m (c_key c) (c_new c)) (t_changes (d_tr d)) m) ds m
  = fold_left apply_tr (tr_of ds) m.
Proof.
  induction ds as [|a ds IH]; intro m; simpl; auto.
  rewrite IH. f_equal. unfold apply_tr, news. apply fold_upd_fu.
Qed.

(* the caller's freshness obligation for a new state root *)
Definition fresh_root (w : world) (r : N) : Prop :=
  r <> w_proot w /\ r <> disk_root (w_dk w) /\ ~ In r (droots (w_diffs w)) /\
  (forall j, In (Some j) (slots w) -> r <> j_proot j).

Lemma update_ok w t :
  WInv w -> wf_tr (head_state w) t -> fresh_root w (t_root t) ->
  exists evs o, update w t = (evs, o) /\ (forall e, In e evs -> CP (snd e)) /\ WInv (out_world o).
Proof.
  intros WI W [F1 [F2 [F3 F4]]]. unfold update.
  destruct (w_ro w) eqn:RO.
  { exists [], (Fail 3 w). split; [reflexivity|]. split; [intros ? []|exact WI]. }
  assert (HR : (t_root t =? head_root w) = false).
  { apply N.eqb_neq. unfold head_root. destruct (rev (w_diffs w)) as [|d r] eqn:E; [exact F2|].
    intro X. apply F3. rewrite X. unfold droots. apply in_map. apply in_rev. rewrite E. left. reflexivity. }
  rewrite HR. rewrite (find_diff_notin _ _ F3).
  replace (disk_root (w_dk w) =? t_root t) with false by (symmetry; apply N.eqb_neq; congruence).
  set (w1 := set_diffs w (w_diffs w ++ [mkDiff (t_root t) (head_id w + 1) t])).
  assert (WI1 : WInv w1).
  { destruct WI as [[l [lp LI]] [R1 R2 R3] RJw M JS]. constructor.
    - exists l, lp. apply linvd_l.
      + apply (linvd_same_pers w); [apply same_pers_set_diffs|apply linv_d; exact LI].
      + assert (Hid : head_id w + 1 = len l + N.of_nat (length (w_diffs w)) + 1).
        { unfold head_id. rewrite (i_id _ _ _ (li_d _ _ _ LI)). reflexivity. }
        unfold w1. simpl. rewrite Hid. apply diffs_ok_snoc; [exact (li_diffs _ _ _ LI)|].
        eapply wf_tr_ext; [|exact W]. intro k. unfold head_state. rewrite head_state_fold.
        apply fold_apply_ext. intro k'. apply (i_eff _ _ _ (li_d _ _ _ LI)).
    - constructor; unfold w1; simpl; unfold droots; rewrite map_app; simpl.
      + apply nodup_snoc; [exact R1|exact F3].
      + intro X. apply in_app_iff in X. destruct X as [X|[X|[]]]; [exact (R2 X)|].
        apply F1. exact X.
      + intros j Hj X. apply in_app_iff in X. destruct X as [X|[X|[]]]; [exact (R3 j Hj X)|].
        apply (F4 j Hj). exact X.
    - intros j Hj. apply RJw. exact Hj.
    - exact M.
    - exact JS. }
  destruct (cap_from_ok w1 (length (w_diffs w1)) (jc_maxdiff (w_cfg w)) WI1 (le_n _))
    as [evs [w' [E [P [WI' _]]]]].
  exists evs, (Done w'). split; [exact E|]. split; [exact P|exact WI'].
Qed.

Lemma commit_ok w p :
  WInv w ->
  exists evs o, commit w p = (evs, o) /\ (forall e, In e evs -> CP (snd e)) /\ WInv (out_world o).
Proof.
  intro WI. unfold commit.
  destruct (w_ro w).
  { exists [], (Fail 3 w). split; [reflexivity|]. split; [intros ? []|exact WI]. }
  destruct (length (w_diffs w)) as [|n] eqn:EL.
  { exists [], (Fail 9 w). split; [reflexivity|]. split; [intros ? []|exact WI]. }
  assert (Hm : (S n - Nat.modulo p (S n) <= length (w_diffs w))%nat) by (rewrite EL; lia).
  destruct (cap_from_ok w (S n - Nat.modulo p (S n)) 0 WI Hm) as [evs [w' [E [P [WI' _]]]]].
  exists evs, (Done w'). split; [exact E|]. split; [exact P|exact WI'].
Qed.

(* ---------- Journal ------------------------------------------------------------------------------- *)

Lemma journal_ok w :
  WInv w ->
  exists evs o, journal_op w = (evs, o) /\ (forall e, In e evs -> CP (snd e)) /\ WInv (out_world o).
Proof.
  intro WI. destruct (w_ro w) eqn:RO.
  { exists [], (Fail 3 w). unfold journal_op. rewrite RO. split; [reflexivity|].
    split; [intros ? []|exact WI]. }
  destruct WI as [[l [lp LI]] [R1 R2 R3] RJw M JS].
  assert (PE := journal_events_pinv w l lp LI RO).
  set (j := mkJ (w_proot w) (disk_root (w_dk w)) (disk_id (w_dk w)) (buf (w_dk w)) (w_diffs w)).
  (* a world whose slots are old ones or the new journal *)
  assert (RJX : forall wx, (forall j', In (Some j') (slots wx) -> In (Some j') (slots w) \/ j' = j) -> RJ wx).
  { intros wx H j' Hj'. destruct (H j' Hj') as [X| ->]; [apply RJw; exact X|]. simpl. auto. }
  (* the final world *)
  assert (FIN : forall wl, PInv wl lp -> w_dk wl = w_dk w -> w_proot wl = w_proot w ->
                  w_fr wl = w_fr w -> w_stail wl = fr_tail (w_fr w) -> w_diffs wl = w_diffs w ->
                  w_cfg wl = w_cfg w -> w_jlive wl = w_jdur wl ->
                  (forall j', In (Some j') (slots wl) -> In (Some j') (slots w) \/ j' = j) ->
                  WInv (set_ro wl true)).
  { intros wl PL E1 E2 E3 E4 E5 E6 E7 SL. constructor.
    - exists l, lp. apply linvd_l.
      + apply (linvd_same_pers wl); [apply same_pers_set_ro|]. constructor.
        * rewrite E1. exact (li_d _ _ _ LI).
        * exact (li_wf _ _ _ LI).
        * rewrite E3. exact (li_head _ _ _ LI).
        * rewrite E4, E3. eapply fok_mono; [|exact (li_fr _ _ _ LI)]. apply (p_st _ _ (li_p _ _ _ LI)).
        * exact PL.
        * intros j' Hj' A B. rewrite E1. destruct (SL j' Hj') as [X| ->].
          -- apply (li_jid _ _ _ LI j' X); [rewrite <- E2; exact A|rewrite <- E1; exact B].
          -- simpl. apply N.le_refl.
      + simpl. rewrite E5. exact (li_diffs _ _ _ LI).
    - constructor; simpl; rewrite E5.
      + exact R1.
      + rewrite E2. exact R2.
      + intros j' Hj'. change (In (Some j') (slots wl)) in Hj'.
        destruct (SL j' Hj') as [X| ->]; [apply R3; exact X|exact R2].
    - apply RJX. intros j' Hj'. apply SL. exact Hj'.
    - simpl. rewrite E6. exact M.
    - simpl. exact E7. }
  unfold journal_op in *. rewrite RO in *. fold j in PE |- *.
  destruct (w_jfile w) eqn:JF.
  - eexists _, _. split; [reflexivity|]. split.
    + intros e He. constructor.
      * exists lp. apply PE. exact He.
      * apply RJX. simpl in He.
        destruct He as [<-|[<-|[<-|[<-|[<-|[]]]]]]; unfold slots; simpl; intuition congruence.
      * simpl in He. destruct He as [<-|[<-|[<-|[<-|[<-|[]]]]]]; exact M.
    + simpl. apply FIN; try reflexivity.
      * apply (PE (EV_JDIR_SYNC, set_jfile (fr_sync w) (Some j) (Some j))). simpl. auto 10.
      * unfold slots. simpl. intuition congruence.
  - eexists _, _. split; [reflexivity|]. split.
    + intros e He. constructor.
      * exists lp. apply PE. exact He.
      * apply RJX. simpl in He.
        destruct He as [<-|[<-|[]]]; unfold slots; simpl; intuition congruence.
      * simpl in He. destruct He as [<-|[<-|[]]]; exact M.
    + simpl. apply FIN; try reflexivity; try exact JS.
      * apply (PE (EV_PUT_JOURNAL, set_kvj (fr_sync w) (Some j))). simpl. auto.
      * unfold slots. simpl. intuition congruence.
Qed.

(* ---------- Recover (journal dropped before the first revert) ------------------------------------ *)

Definition noslots (w : world) : Prop := w_kvj w = None /\ w_jlive w = None /\ w_jdur w = None.

Lemma noslots_in w j : noslots w -> ~ In (Some j) (slots w).
Proof.
  intros [A [B C]] H. unfold slots in H. rewrite A, B, C in H.
  destruct H as [H|[H|[H|[]]]]; discriminate.
Qed.

Lemma pinv_drop w w' lp :
  PInv w lp -> w_proot w' = w_proot w -> w_dk w' = w_dk w -> w_fr w' = w_fr w ->
  w_shead w' = w_shead w -> w_stail w' = w_stail w -> w_jfile w' = w_jfile w ->
  (w_kvj w' = w_kvj w \/ w_kvj w' = None) -> (w_jlive w' = w_jlive w \/ w_jlive w' = None) ->
  (w_jdur w' = w_jdur w \/ w_jdur w' = None) -> PInv w' lp.
Proof.
  intros P E1 E2 E3 E4 E5 E6 A B C.
  apply (pinv_slots w w' lp P E1 E2 E3 E4 E5).
  - assert (X := p_ex _ _ P). unfold slot_excl in *. rewrite E6. destruct (w_jfile w).
    + destruct A as [A|A]; rewrite A; auto.
    + destruct X as [X1 X2]. destruct B as [B|B], C as [C|C]; rewrite B, C; auto.
  - intros j Hj. apply (jok_transfer w).
    + apply (p_js _ _ P). unfold slots in *. simpl in *.
      destruct Hj as [Hj|[Hj|[Hj|[]]]].
      * destruct A as [A|A]; rewrite A in Hj; [auto|discriminate].
      * destruct B as [B|B]; rewrite B in Hj; [auto|discriminate].
      * destruct C as [C|C]; rewrite C in Hj; [auto|discriminate].
    + exact E1.
    + rewrite E2. reflexivity.
    + rewrite E2. reflexivity.
    + rewrite E3. reflexivity.
    + rewrite E5. apply N.le_refl.
    + rewrite E4. apply N.le_refl.
Qed.

Definition sub_slots (w w' : world) : Prop := forall j, In (Some j) (slots w') -> In (Some j) (slots w).

Lemma drop_journal_ok w lp evs wd :
  PInv w lp -> w_jlive w = w_jdur w -> drop_journal w = (evs, wd) ->
  (forall e, In e evs -> PInv (snd e) lp /\ w_cfg (snd e) = w_cfg w /\ sub_slots w (snd e)) /\
  PInv wd lp /\ noslots wd /\
  w_dk wd = w_dk w /\ w_proot wd = w_proot w /\ w_fr wd = w_fr w /\ w_shead wd = w_shead w /\
  w_stail wd = w_stail w /\ w_diffs wd = w_diffs w /\ w_ro wd = w_ro w /\ w_cfg wd = w_cfg w /\
  w_jfile wd = w_jfile w.
Proof.
  intros P JS H. assert (X := p_ex _ _ P). unfold slot_excl in X.
  assert (SS : forall w', (w_kvj w' = w_kvj w \/ w_kvj w' = None) ->
                 (w_jlive w' = w_jlive w \/ w_jlive w' = None) ->
                 (w_jdur w' = w_jdur w \/ w_jdur w' = None) -> sub_slots w w').
  { intros w' A B C j Hj. unfold slots in *. simpl in *.
    destruct Hj as [Hj|[Hj|[Hj|[]]]].
    - destruct A as [A|A]; rewrite A in Hj; [auto|discriminate].
    - destruct B as [B|B]; rewrite B in Hj; [auto|discriminate].
    - destruct C as [C|C]; rewrite C in Hj; [auto|discriminate]. }
  unfold drop_journal in H.
  destruct (w_jfile w) eqn:JF; destruct (w_jlive w) as [jl|] eqn:JL; simpl in H;
    destruct (w_kvj w) as [kj|] eqn:KJ; simpl in H; injection H as <- <-;
    try discriminate X;
    (split; [intros e He; simpl in He;
             repeat (destruct He as [<-|He];
                     [split; [apply (pinv_drop w); simpl; auto|split; [reflexivity|apply SS; simpl; auto]]|]);
             contradiction|]);
    (split; [apply (pinv_drop w); simpl; auto|]);
    (split; [unfold noslots; simpl; rewrite <- ?JS, ?JL, ?KJ; try (destruct X as [X1 X2]; rewrite <- ?JS, ?X1, ?X2); auto|]);
    simpl; repeat split; auto.
Qed.

(* what holds while the histories are being applied *)
Record RV (w : world) (l lp : list transition) : Prop := {
  rv_d : DInv 0 l (w_dk w);
  rv_wf : wf_chain l;
  rv_head : len l <= fr_head (w_fr w);
  rv_fr : fok (w_stail w) (fr_data (w_fr w)) l;
  rv_p : PInv w lp;
  rv_ns : noslots w }.

Definition ev_rv (w : world) (e : ev) : Prop :=
  (exists lp0, PInv (snd e) lp0) /\ noslots (snd e) /\ w_cfg (snd e) = w_cfg w.

Lemma recover_loop_ok root : forall fuel w l lp pre l0,
  RV w l lp -> l = pre ++ l0 -> root_rev 0 l0 = root -> fr_tail (w_fr w) <= len l0 ->
  (length pre < fuel)%nat ->
  exists evs w' l' lp', recover_loop fuel w root = (evs, Done w') /\
    (forall e, In e evs -> ev_rv w e) /\
    RV w' l' lp' /\ w_cfg w' = w_cfg w /\ w_ro w' = w_ro w /\ w_jfile w' = w_jfile w /\
    w_fr w' = w_fr w /\ w_shead w' = w_shead w /\ w_stail w' = w_stail w /\
    ((w' = w /\ l' = l) \/ w_diffs w' = []).
Proof.
  induction fuel as [|fu IH]; intros w l lp pre l0 R El Hr Ht Hf; [lia|].
  simpl. destruct (disk_root (w_dk w) =? root) eqn:ER.
  { exists [], w, l, lp. split; [reflexivity|]. split; [intros ? []|]. split; [exact R|].
    repeat split; auto. }
  apply N.eqb_neq in ER. destruct R as [D WF HH FK P NS].
  destruct pre as [|t pre'].
  { exfalso. apply ER. simpl in El. subst l. rewrite (i_root _ _ _ D). exact Hr. }
  set (l1 := pre' ++ l0) in *. simpl in El. fold l1 in El. subst l.
  simpl in WF. destruct WF as [W1 W2].
  assert (Hid : disk_id (w_dk w) = len (t :: l1)) by apply (i_id _ _ _ D).
  assert (Hl01 : len l0 <= len l1).
  { unfold l1, len. rewrite app_length. lia. }
  assert (Hlc : len (t :: l1) = len l1 + 1) by apply len_cons.
  unfold fok in FK. simpl in FK. destruct FK as [FK1 FK2]. fold (fok (w_stail w) (fr_data (w_fr w)) l1) in FK2.
  assert (Pst := p_st _ _ P). assert (Ptl := p_tl _ _ P). assert (Psh := p_sh _ _ P).
  assert (Phd := p_hd _ _ P).
  set (h := mkHist (root_rev 0 l1) (t_root t) (origs t)).
  assert (RH : read_history (w_fr w) (disk_id (w_dk w)) = Ok h).
  { unfold read_history, fr_read. rewrite Hid.
    replace (fr_tail (w_fr w) <? len (t :: l1)) with true by (symmetry; apply N.ltb_lt; lia).
    replace (len (t :: l1) <=? fr_head (w_fr w)) with true by (symmetry; apply N.leb_le; lia).
    simpl. rewrite FK1 by lia. fold h. unfold h. rewrite (decodable_wf _ _ _ _ W1). reflexivity. }
  rewrite RH. unfold revert.
  replace (h_root h =? disk_root (w_dk w)) with true
    by (symmetry; apply N.eqb_eq; rewrite (i_root _ _ _ D); reflexivity).
  replace (disk_id (w_dk w) =? 0) with false by (symmetry; apply N.eqb_neq; lia).
  cbn [negb].
  destruct (revert_disk_ok 0 l1 t (w_dk w) D W1) as [o' [RD DI']]. fold h in RD. rewrite RD.
  assert (RD' := RD). unfold revert_disk in RD'.
  assert (NSI : forall j wx, noslots wx -> ~ In (Some j) (slots wx)) by (intros; apply noslots_in; auto).
  destruct (buf_layers (w_dk w) =? 0) eqn:Eb; cbn [negb] in *.
  - (* the revert is persisted: one batch *)
    injection RD' as EO.
    assert (Pid : pid o' = disk_id (w_dk w) - 1) by (rewrite <- EO; reflexivity).
    assert (B0 : bl o' = 0%nat) by (unfold bl; rewrite <- EO; reflexivity).
    apply N.eqb_eq in Eb. assert (Ppid := i_pid _ _ _ D).
    set (w2 := set_state w o' (h_parent h)).
    assert (PW2 : PInv w2 l1).
    { constructor.
      - exact W2.
      - reflexivity.
      - intro k. simpl. rewrite (i_pflat _ _ _ DI' k), B0. reflexivity.
      - simpl. rewrite Pid. lia.
      - simpl. exact FK2.
      - simpl. rewrite Pid. lia.
      - simpl. exact Phd.
      - simpl. exact Pst.
      - simpl. rewrite Pid. lia.
      - unfold slot_excl. simpl. destruct NS as [N1 [N2 N3]]. destruct (w_jfile w); auto.
      - intros j Hj. exfalso. apply (NSI j w2); [exact NS|exact Hj]. }
    assert (RV2 : RV (set_diffs w2 []) l1 l1).
    { constructor; simpl.
      - exact DI'.
      - exact W2.
      - lia.
      - exact FK2.
      - apply (pinv_same_pers w2); [apply same_pers_set_diffs|exact PW2].
      - exact NS. }
    destruct (IH (set_diffs w2 []) l1 l1 pre' l0 RV2 eq_refl Hr Ht) as
      [e2 [w' [l' [lp' [E2 [P2 [R2 [C2 [O2 [J2 [F2 [S2 [T2 _]]]]]]]]]]]]]; [simpl in Hf; lia|].
    rewrite E2. exists ((EV_BATCH, w2) :: e2), w', l', lp'. split; [reflexivity|]. split.
    { intros e [<-|He].
      - split; [exists l1; exact PW2|]. split; [exact NS|reflexivity].
      - destruct (P2 e He) as [A [B C]]. split; [exact A|]. split; [exact B|]. rewrite C. reflexivity. }
    split; [exact R2|]. simpl in *. repeat split; auto.
    right. destruct (IH (set_diffs w2 []) l1 l1 pre' l0 RV2 eq_refl Hr Ht) as
      [e3 [w3 [l3 [lp3 [E3 [_ [_ [_ [_ [_ [_ [_ [_ DD]]]]]]]]]]]]]; [simpl in Hf; lia|].
    rewrite E2 in E3. injection E3 as <- <-. destruct DD as [[-> _]|DD]; [reflexivity|exact DD].
  - (* the revert happens in the write buffer: no persistence event *)
    assert (KP : pflat o' = pflat (w_dk w) /\ pid o' = pid (w_dk w)).
    { destruct (buf_layers (w_dk w) - 1 =? 0).
      - injection RD' as <-. simpl. auto.
      - destruct (buf_revert (buf (w_dk w)) (state_set h)); [injection RD' as <-; simpl; auto|discriminate]. }
    destruct KP as [KP1 KP2].
    set (w2 := set_dk w o').
    assert (PW2 : PInv w2 lp) by (apply pinv_dk; auto).
    assert (RV2 : RV (set_diffs w2 []) l1 lp).
    { constructor; simpl.
      - exact DI'.
      - exact W2.
      - lia.
      - exact FK2.
      - apply (pinv_same_pers w2); [apply same_pers_set_diffs|exact PW2].
      - exact NS. }
    destruct (IH (set_diffs w2 []) l1 lp pre' l0 RV2 eq_refl Hr Ht) as
      [e2 [w' [l' [lp' [E2 [P2 [R2 [C2 [O2 [J2 [F2 [S2 [T2 DD]]]]]]]]]]]]]; [simpl in Hf; lia|].
    rewrite E2. exists e2, w', l', lp'. split; [reflexivity|]. split.
    { intros e He. destruct (P2 e He) as [A [B C]]. split; [exact A|]. split; [exact B|]. rewrite C. reflexivity. }
    split; [exact R2|]. simpl in *. repeat split; auto.
    right. destruct DD as [[-> _]|DD]; [reflexivity|exact DD].
Qed.

Lemma trunc_head_pinv w n lp :
  PInv w lp -> noslots w -> pid (w_dk w) <= n -> n <= fr_head (w_fr w) ->
  PInv (fr_trunc_head w n) lp /\ noslots (fr_trunc_head w n) /\
  w_stail w <= w_stail (fr_trunc_head w n) /\
  w_fr (fr_trunc_head w n) = mkFrz (fr_tail (w_fr w)) n (fr_data (w_fr w)) /\
  w_dk (fr_trunc_head w n) = w_dk w /\ w_diffs (fr_trunc_head w n) = w_diffs w /\
  w_cfg (fr_trunc_head w n) = w_cfg w /\ w_proot (fr_trunc_head w n) = w_proot w /\
  w_ro (fr_trunc_head w n) = w_ro w.
Proof.
  intros P NS H1 H2. assert (P' := P). destruct P' as [P1 P2 P3 P4 P5 P6 P7 P8 P9 P10 P11].
  unfold fr_trunc_head. destruct (n <? w_shead w) eqn:E.
  - apply N.ltb_lt in E. split.
    + apply (pinv_transfer_core w _ lp P).
      * reflexivity.
      * simpl. eapply fok_mono; eauto.
      * simpl. exact H1.
      * simpl. apply N.le_refl.
      * simpl. apply N.le_refl.
      * simpl. exact P9.
      * intros j Hj. exfalso. apply (noslots_in _ j NS). exact Hj.
    + simpl. split; [exact NS|]. split; [exact P8|]. repeat split.
  - apply N.ltb_ge in E. split.
    + apply (pinv_transfer_core w _ lp P).
      * reflexivity.
      * simpl. exact P5.
      * simpl. exact P6.
      * simpl. exact E.
      * simpl. exact P8.
      * simpl. exact P9.
      * intros j Hj. exfalso. apply (noslots_in _ j NS). exact Hj.
    + simpl. split; [exact NS|]. split; [apply N.le_refl|]. repeat split.
Qed.

Lemma recover_ok w root :
  WInv w ->
  exists evs o, recover w root = (evs, o) /\ (forall e, In e evs -> CP (snd e)) /\ WInv (out_world o).
Proof.
  intro WI. unfold recover.
  destruct (w_ro w) eqn:RO.
  { exists [], (Fail 3 w). split; [reflexivity|]. split; [intros ? []|exact WI]. }
  destruct (recoverable w root) eqn:RC; cbn [negb].
  2:{ exists [], (Fail 4 w). split; [reflexivity|]. split; [intros ? []|exact WI]. }
  destruct WI as [[l [lp LI]] [R1 R2 R3] RJw M JS].
  rewrite M. replace (2 =? 2) with true by reflexivity.
  destruct (drop_journal w) as [ed wd] eqn:ED.
  destruct (drop_journal_ok w lp ed wd (li_p _ _ _ LI) JS ED)
    as [PD [PWd [NSd [K1 [K2 [K3 [K4 [K5 [K6 [K7 [K8 K9]]]]]]]]]]].
  assert (D := li_d _ _ _ LI).
  assert (RVd : RV wd l lp).
  { constructor.
    - rewrite K1. exact D.
    - exact (li_wf _ _ _ LI).
    - rewrite K3, (li_head _ _ _ LI). apply N.le_refl.
    - rewrite K5, K3. exact (li_fr _ _ _ LI).
    - exact PWd.
    - exact NSd. }
  (* the target state is on the chain *)
  unfold recoverable in RC.
  destruct (w_ids w root) as [id|]; [|discriminate].
  destruct (disk_id (w_dk w) <=? id) eqn:E1; [discriminate|]. apply N.leb_gt in E1.
  destruct (fr_read (w_fr w) (id + 1)) as [h|] eqn:FRD; [|discriminate]. apply N.eqb_eq in RC.
  assert (Hlen : id < len l) by (rewrite <- (i_id _ _ _ D); exact E1).
  destruct (split_at_len l id Hlen) as [pre [t [r [El Hr]]]].
  unfold fr_read in FRD.
  destruct ((fr_tail (w_fr w) <? id + 1) && (id + 1 <=? fr_head (w_fr w))) eqn:EB; [|discriminate].
  apply andb_true_iff in EB. destruct EB as [EB1 EB2]. apply N.ltb_lt in EB1.
  assert (Pst := p_st _ _ (li_p _ _ _ LI)).
  assert (Hh : h_parent h = root_rev 0 r).
  { assert (X := frz_ok_data 0 (mkFrz (w_stail w) 0 (fr_data (w_fr w))) pre l t r (li_fr _ _ _ LI) El).
    simpl in X. rewrite len_cons, Hr in X. rewrite X in FRD by lia. injection FRD as <-. reflexivity. }
  assert (El' : l = (pre ++ [t]) ++ r) by (rewrite <- app_assoc; exact El).
  assert (Hfuel : (length (pre ++ [t]) < S (N.to_nat (disk_id (w_dk wd))))%nat).
  { rewrite K1, (i_id _ _ _ D). unfold len. rewrite Nat2N.id. rewrite El, !app_length. simpl. lia. }
  destruct (recover_loop_ok root _ wd l lp (pre ++ [t]) r RVd El' (eq_trans (eq_sym Hh) RC)
              ltac:(rewrite K3, Hr; lia) Hfuel)
    as [e1 [w0 [l' [lp' [EL [Pev [R0 [C0 [O0 [J0 [F0 [S0 [T0 DD]]]]]]]]]]]]].
  rewrite EL. rewrite C0, K8, M. replace (2 =? 1) with false by reflexivity.
  destruct R0 as [D0 WF0 HH0 FK0 P0 NS0].
  assert (Hn : disk_id (w_dk w0) = len l') by apply (i_id _ _ _ D0).
  assert (Ppid : pid (w_dk w0) <= disk_id (w_dk w0)).
  { rewrite <- (i_pid _ _ _ D0). lia. }
  assert (Ptl := p_tl _ _ P0).
  replace ((fr_head (w_fr w0) <? disk_id (w_dk w0)) || (disk_id (w_dk w0) <? fr_tail (w_fr w0)))
    with false.
  2:{ symmetry. apply orb_false_iff. split; apply N.ltb_ge; lia. }
  (* the crash points *)
  assert (CPE : forall e, In e ((ed ++ e1 ++ [])) -> CP (snd e)).
  { intros e He. rewrite app_nil_r in He. apply in_app_iff in He. destruct He as [He|He].
    - destruct (PD e He) as [A [B C]]. constructor.
      + exists lp. exact A.
      + intros j Hj. apply RJw. apply C. exact Hj.
      + rewrite B. exact M.
    - destruct (Pev e He) as [A [B C]]. constructor.
      + exact A.
      + intros j Hj. exfalso. apply (noslots_in _ j B). exact Hj.
      + rewrite C, K8. exact M. }
  assert (DO : forall wz, w_diffs wz = w_diffs w0 -> diffs_ok (sem_rev l') (len l') (w_diffs wz)).
  { intros wz Ez. rewrite Ez. destruct DD as [[-> ->]|DD].
    - rewrite K6. exact (li_diffs _ _ _ LI).
    - rewrite DD. exact Logic.I. }
  assert (RIz : forall wz, w_diffs wz = w_diffs w0 -> w_proot wz = w_proot w0 -> noslots wz -> RI wz).
  { intros wz Ez Ep Nz. constructor.
    - rewrite Ez. destruct DD as [[-> _]|DD]; [rewrite K6; exact R1|rewrite DD; constructor].
    - rewrite Ez, Ep. destruct DD as [[-> _]|DD]; [rewrite K6, K2; exact R2|rewrite DD; simpl; tauto].
    - intros j Hj. exfalso. apply (noslots_in _ j Nz). exact Hj. }
  destruct (fr_head (w_fr w0) =? disk_id (w_dk w0)) eqn:EH.
  - apply N.eqb_eq in EH.
    exists (ed ++ e1 ++ []), (Done w0). split; [reflexivity|]. split; [exact CPE|].
    simpl. constructor.
    + exists l', lp'. constructor; auto.
      * rewrite EH. exact Hn.
      * intros j Hj. exfalso. apply (noslots_in _ j NS0). exact Hj.
    + apply RIz; auto.
    + intros j Hj. exfalso. apply (noslots_in _ j NS0). exact Hj.
    + rewrite C0, K8. exact M.
    + destruct NS0 as [_ [A B]]. rewrite A, B. reflexivity.
  - apply N.eqb_neq in EH.
    destruct (trunc_head_pinv w0 (disk_id (w_dk w0)) lp' P0 NS0 Ppid ltac:(lia))
      as [PT [NT [ST [FT [DT [FD [CT [PRT ROT]]]]]]]].
    set (w2 := fr_trunc_head w0 (disk_id (w_dk w0))) in *.
    exists ((ed ++ e1 ++ []) ++ [(EV_TRUNC_HEAD, w2)]), (Done w2). split; [reflexivity|]. split.
    { intros e He. apply in_app_iff in He. destruct He as [He|[<-|[]]]; [apply CPE; exact He|].
      constructor.
      - exists lp'. exact PT.
      - intros j Hj. exfalso. apply (noslots_in _ j NT). exact Hj.
      - simpl. rewrite CT, C0, K8. exact M. }
    simpl. constructor.
    + exists l', lp'. constructor.
      * rewrite DT. exact D0.
      * exact WF0.
      * rewrite FT. simpl. exact Hn.
      * rewrite FT. simpl. eapply fok_mono; [exact ST|exact FK0].
      * apply DO. exact FD.
      * exact PT.
      * intros j Hj. exfalso. apply (noslots_in _ j NT). exact Hj.
    + apply RIz; auto.
    + intros j Hj. exfalso. apply (noslots_in _ j NT). exact Hj.
    + rewrite CT, C0, K8. exact M.
    + destruct NT as [_ [A B]]. rewrite A, B. reflexivity.
Qed.

(* ---------- histories ------------------------------------------------------------------------------- *)

Definition simple (o : hop) : bool :=
  match o with HUpdate _ | HCommit _ | HJournal | HRecover _ => true | _ => false end.

(* what the caller guarantees for one operation in world w: a new transition is
   well-formed on the head state and its root is fresh; a crash interrupts an Update,
   Commit, Journal or Recover (crashes during recovery itself: C20_reopen_idempotent) *)
Fixpoint wf_op (w : world) (o : hop) : Prop :=
  match o with
  | HUpdate t => wf_tr (head_state w) t /\ fresh_root w (t_root t)
  | HCrash _ _ o' => simple o' = true /\ wf_op w o'
  | _ => True
  end.

Lemma simple_ok w o :
  WInv w -> simple o = true -> wf_op w o ->
  exists evs out, run_op w o = (evs, out) /\ (forall e, In e evs -> CP (snd e)) /\
                  WInv (out_world out).
Proof.
  intros WI S W. destruct o; try discriminate; simpl in *.
  - destruct W as [W1 W2]. apply update_ok; auto.
  - apply commit_ok; auto.
  - apply journal_ok; auto.
  - apply recover_ok; auto.
Qed.

Lemma simple_points w o :
  simple o = true -> crash_points w o = w :: map snd (fst (run_op w o)).
Proof. destruct o; try discriminate; reflexivity. Qed.

Theorem step_ok w o :
  WInv w -> wf_op w o ->
  (forall wc, In wc (crash_points w o) -> CP wc) /\ exists w', step w o = Some w' /\ WInv w'.
Proof.
  intros WI W.
  assert (SIMP : forall o0, simple o0 = true -> wf_op w o0 ->
            (forall wc, In wc (crash_points w o0) -> CP wc) /\
            exists w', out_world (snd (run_op w o0)) = w' /\ WInv w').
  { intros o0 S W0. destruct (simple_ok w o0 WI S W0) as [evs [out [E [P WO]]]].
    rewrite (simple_points w o0 S), E. simpl. split.
    - intros wc [<-|H]; [apply winv_cp; exact WI|].
      apply in_map_iff in H. destruct H as [e [<- He]]. apply P. exact He.
    - eexists. split; [reflexivity|exact WO]. }
  destruct o.
  - destruct (SIMP (HUpdate t) eq_refl W) as [A [w' [B C]]]. split; [exact A|]. exists w'. simpl in *. rewrite B. auto.
  - destruct (SIMP (HCommit p) eq_refl W) as [A [w' [B C]]]. split; [exact A|]. exists w'. simpl in *. rewrite B. auto.
  - destruct (SIMP HJournal eq_refl W) as [A [w' [B C]]]. split; [exact A|]. exists w'. simpl in *. rewrite B. auto.
  - destruct (SIMP (HRecover k) eq_refl W) as [A [w' [B C]]]. split; [exact A|]. exists w'. simpl in *. rewrite B. auto.
  - (* clean reopen *)
    split.
    + intros wc [<-|[]]. apply winv_cp. exact WI.
    + assert (CPs : CP (close w)).
      { destruct WI as [[l [lp LI]] R RJw M JS]. constructor.
        - exists lp. apply sync_pinv. apply (li_p _ _ _ LI).
        - intros j Hj. apply RJw. exact Hj.
        - exact M. }
      destruct (cp_reopen (close w) clean_cut CPs) as [evs [w' [l [lp [O [C WI']]]]]].
      exists w'. simpl. rewrite O. simpl. auto.
  - (* crash during o, then reopen *)
    simpl in W. destruct W as [S W0].
    destruct (SIMP o S W0) as [A _]. split.
    + intros wc H. apply A. simpl in H. rewrite (simple_points w o S).
      destruct o; try discriminate; exact H.
    + simpl. set (pts := crash_points w o).
      assert (Hlen : (0 < length pts)%nat).
      { unfold pts. rewrite (simple_points w o S). simpl. lia. }
      destruct (nth_error pts (Nat.modulo i (length pts))) as [wc|] eqn:EN.
      * assert (CPw : CP wc) by (apply A; eapply nth_error_In; exact EN).
        destruct (cp_reopen wc c CPw) as [evs [w' [l [lp [O [C WI']]]]]].
        exists w'. rewrite O. simpl. auto.
      * exfalso. apply nth_error_None in EN.
        assert (X := Nat.mod_upper_bound i (length pts)). lia.
Qed.

Fixpoint wf_hist (w : world) (os : list hop) : Prop :=
  match os with
  | [] => True
  | o :: r => wf_op w o /\ match step w o with Some w' => wf_hist w' r | None => True end
  end.

Lemma run_ok os : forall w, WInv w -> wf_hist w os -> exists w', run w os = Some w' /\ WInv w'.
Proof.
  induction os as [|o r IH]; intros w WI H; simpl in *.
  - exists w. auto.
  - destruct H as [H1 H2]. destruct (step_ok w o WI H1) as [_ [w1 [E WI1]]].
    rewrite E in *. apply IH; auto.
Qed.

Lemma init_winv c jf : jc_recover c = 2 -> WInv (init_world c jf 0).
Proof.
  intro M. constructor.
  - exists [], []. apply init_linv.
  - constructor; simpl; [constructor|tauto|intros; tauto].
  - intros j [H|[H|[H|[]]]]; discriminate.
  - exact M.
  - reflexivity.
Qed.

(* over ALL histories from the empty database: the history itself never gets stuck on a
   reopen, and at every crash point of the next operation every cut reopens into a
   consistent database *)
Theorem crash_consistent c jf os o :
  jc_recover c = 2 ->
  wf_hist (init_world c jf 0) os ->
  exists w, run (init_world c jf 0) os = Some w /\
    (wf_op w o ->
     forall wc, In wc (crash_points w o) -> forall ct,
       exists evs w' l lp, open (crash ct wc) = (evs, Done w') /\ Consistent w' l lp).
Proof.
  intros M H. destruct (run_ok os _ (init_winv c jf M) H) as [w [E WI]].
  exists w. split; [exact E|]. intros W wc Hwc ct.
  destruct (step_ok w o WI W) as [A _].
  destruct (cp_reopen wc ct (A wc Hwc)) as [evs [w' [l [lp [O [C _]]]]]].
  exists evs, w', l, lp. auto.
Qed.

(* END *)
