(* PathDB/IterFast.v — the fast (priority-merge) iterator of PathDB/Iter.v
   enumerates exactly the newest-wins view (C22). *)
From GV Require Import Lib.Tactics PathDB.Iter PathDB.IterProofs.
From Coq Require Import Sorted Permutation.

(* ---------------------------------------------------------------------- *)
(* list plumbing *)

Lemma firstn_len_app {A} (a b : list A) : firstn (length a) (a ++ b) = a.
Proof. induction a; cbn; [destruct b; reflexivity|]. now f_equal. Qed.
Lemma skipn_len_app {A} (a b : list A) : skipn (length a) (a ++ b) = b.
Proof. induction a; cbn; auto. Qed.
Lemma nth_error_mid {A} (pre : list A) x post : nth_error (pre ++ x :: post) (length pre) = Some x.
Proof. induction pre; cbn; auto. Qed.
Lemma nth_error_after {A} (pre : list A) x post j :
  nth_error (pre ++ x :: post) (S (length pre + j)) = nth_error post j.
Proof. induction pre; cbn; auto. Qed.
Lemma skipn_S_mid {A} (pre : list A) x post : skipn (S (length pre)) (pre ++ x :: post) = post.
Proof. induction pre; cbn; auto. Qed.
Lemma set_nth_mid {A} (pre : list A) x post y :
  set_nth (pre ++ x :: post) (length pre) y = pre ++ y :: post.
Proof. unfold set_nth. now rewrite firstn_len_app, skipn_S_mid. Qed.
Lemma remove_nth_mid {A} (pre : list A) x post :
  remove_nth (pre ++ x :: post) (length pre) = pre ++ post.
Proof. unfold remove_nth. now rewrite firstn_len_app, skipn_S_mid. Qed.

Lemma move_mid pre x A C :
  move (pre ++ x :: A ++ C) (length pre) (length pre + length A) = Some (pre ++ A ++ x :: C).
Proof.
  unfold move. rewrite nth_error_mid.
  destruct (Nat.leb_spec (length (pre ++ x :: A ++ C)) (length pre + length A)) as [H|H].
  { rewrite app_length in H. cbn in H. rewrite app_length in H. lia. }
  rewrite firstn_len_app, skipn_S_mid.
  replace (length pre + length A - length pre) with (length A) by lia.
  rewrite firstn_len_app.
  replace (pre ++ x :: A ++ C) with ((pre ++ x :: A) ++ C) by (rewrite <- app_assoc; reflexivity).
  replace (S (length pre + length A)) with (length (pre ++ x :: A))
    by (rewrite app_length; cbn; lia).
  now rewrite skipn_len_app.
Qed.

Lemma find_unique {A} (t : A -> bool) q : forall l,
  (forall p, In p l -> t p = true -> p = q) -> In q l -> t q = true -> find t l = Some q.
Proof.
  induction l as [|a l IH]; cbn; intros U Hin Hq; [tauto|].
  destruct (t a) eqn:Ta.
  - f_equal. apply U; auto.
  - destruct Hin as [->|Hin]; [congruence|]. apply IH; auto.
Qed.

Lemma find_none {A} (t : A -> bool) : forall l,
  (forall p, In p l -> t p = false) -> find t l = None.
Proof.
  induction l as [|a l IH]; cbn; intros U; [reflexivity|].
  rewrite (U a) by auto. apply IH. auto.
Qed.

(* ---------------------------------------------------------------------- *)
(* the abstraction: which priority currently owns a key *)

Definition pend := (nat * list key)%type.
Definition has (k : key) (ks : list key) : bool := existsb (N.eqb k) ks.
Definition omin (n : nat) (o : option nat) : nat :=
  match o with None => n | Some m => Nat.min n m end.
Fixpoint top (ps : list pend) (k : key) : option nat :=
  match ps with
  | [] => None
  | (n, ks) :: r => if has k ks then Some (omin n (top r k)) else top r k
  end.
Definition Equiv (ps qs : list pend) : Prop := forall k, top ps k = top qs k.

Lemma has_In k ks : has k ks = true <-> In k ks.
Proof.
  unfold has. rewrite existsb_exists. split.
  - intros (x & Hx & E). apply N.eqb_eq in E. now subst.
  - intros H. exists k. split; auto. apply N.eqb_refl.
Qed.

Lemma has_false k ks : has k ks = false <-> ~ In k ks.
Proof. rewrite <- has_In. destruct (has k ks); split; congruence. Qed.

Lemma Equiv_refl ps : Equiv ps ps.
Proof. intros k; reflexivity. Qed.
Lemma Equiv_sym ps qs : Equiv ps qs -> Equiv qs ps.
Proof. intros H k; symmetry; apply H. Qed.
Lemma Equiv_trans ps qs rs : Equiv ps qs -> Equiv qs rs -> Equiv ps rs.
Proof. intros H1 H2 k; rewrite H1; apply H2. Qed.

Lemma Equiv_cons p ps qs : Equiv ps qs -> Equiv (p :: ps) (p :: qs).
Proof. intros H k. destruct p as [n ks]. cbn. now rewrite H. Qed.

Lemma Equiv_app_l c ps qs : Equiv ps qs -> Equiv (c ++ ps) (c ++ qs).
Proof. induction c; cbn; auto using Equiv_cons. Qed.

Lemma Equiv_perm ps qs : Permutation ps qs -> Equiv ps qs.
Proof.
  induction 1 as [|p ps qs _ IH|[n1 k1] [n2 k2] l|ps qs rs _ IH1 _ IH2].
  - apply Equiv_refl.
  - now apply Equiv_cons.
  - intros k. cbn. destruct (has k k1), (has k k2); auto.
    f_equal. destruct (top l k); cbn; lia.
  - eapply Equiv_trans; eauto.
Qed.

Lemma Equiv_nil_pend n r : Equiv ((n, []) :: r) r.
Proof. intros k. reflexivity. Qed.

Lemma top_bound ps n ks k : In (n, ks) ps -> In k ks -> exists m, top ps k = Some m /\ m <= n.
Proof.
  induction ps as [|[n' ks'] r IH]; cbn; [tauto|]. intros [E|Hin] Hk.
  - inv E. apply has_In in Hk. rewrite Hk. eexists. split; [reflexivity|].
    destruct (top r k); cbn; lia.
  - destruct (IH Hin Hk) as (m & E & Hm). rewrite E.
    destruct (has k ks'); eexists; split; try reflexivity; cbn; lia.
Qed.

(* a key pending in an iterator can be dropped from it when an iterator of at
   least the same precedence also has it *)
Lemma Equiv_drop n h ks rest m ks2 :
  In (m, ks2) rest -> In h ks2 -> m <= n ->
  Equiv ((n, h :: ks) :: rest) ((n, ks) :: rest).
Proof.
  intros Hin Hh Hm k. cbn.
  destruct (N.eqb_spec k h); cbn; [subst|reflexivity].
  destruct (top_bound _ _ _ _ Hin Hh) as (m' & E & Hm'). rewrite E. cbn.
  destruct (has h ks); f_equal; lia.
Qed.

Lemma Equiv_drop_mid L1 L2 n h ks m ks2 :
  In (m, ks2) (L1 ++ L2) -> In h ks2 -> m <= n ->
  Equiv (L1 ++ (n, h :: ks) :: L2) (L1 ++ (n, ks) :: L2).
Proof.
  intros Hin Hh Hm.
  eapply Equiv_trans; [apply Equiv_perm; symmetry; apply Permutation_middle|].
  eapply Equiv_trans; [eapply Equiv_drop; eauto|].
  apply Equiv_perm, Permutation_middle.
Qed.

Lemma top_none ps k : (forall n ks, In (n, ks) ps -> ~ In k ks) -> top ps k = None.
Proof.
  induction ps as [|[n ks] r IH]; cbn; intros H; [reflexivity|].
  assert (has k ks = false) as -> by (apply has_false; eapply H; eauto).
  apply IH. intros; eapply H; eauto.
Qed.

(* ---------------------------------------------------------------------- *)
(* iterators over a stack *)

Definition pend_of (x : witer) : pend := (w_prio x, w_cur x :: w_keys x).
Definition tailp (x : witer) : pend := (w_prio x, w_keys x).
Definition pends := map pend_of.
Definition tailps := map tailp.

Definition wfk (s : stack) (x : witer) (ks : list key) : Prop :=
  ksorted ks /\ nth_error s (w_prio x) = Some (w_src x) /\
  Forall (fun k => In k (key_list (w_src x))) ks.
Definition wf_it s x := wfk s x (w_cur x :: w_keys x).
Definition wf0 s x := wfk s x (w_keys x).

Definition cur_lt (a b : witer) : Prop := (w_cur a < w_cur b)%N.
Definition cur_sorted (l : list witer) : Prop := StronglySorted cur_lt l.

Definition msum (its : list witer) : nat :=
  fold_right (fun x n => S (length (w_keys x)) + n) 0 its.

Lemma its_fuel_msum its : its_fuel its = S (msum its).
Proof. reflexivity. Qed.

Lemma msum_app a b : msum (a ++ b) = msum a + msum b.
Proof.
  induction a as [|x a IH]; [reflexivity|].
  change (msum ((x :: a) ++ b)) with (S (length (w_keys x)) + msum (a ++ b)).
  change (msum (x :: a)) with (S (length (w_keys x)) + msum a). lia.
Qed.

Lemma msum_cons x l : msum (x :: l) = S (length (w_keys x)) + msum l.
Proof. reflexivity. Qed.

Lemma wf_it_tail s x : wf_it s x -> wf0 s x.
Proof.
  intros (S1 & S2 & S3). split; [|split]; auto.
  - apply ksorted_inv in S1. tauto.
  - inv S3. auto.
Qed.

Lemma advance_wf s x x' : wf0 s x -> advance x = Some x' ->
  wf_it s x' /\ pend_of x' = tailp x /\ w_keys x = w_cur x' :: w_keys x' /\
  w_prio x' = w_prio x /\ w_src x' = w_src x.
Proof.
  unfold advance. destruct x as [c ks src p]; cbn. destruct ks as [|k r]; [discriminate|].
  intros W E. inv E. cbn. repeat split; auto; apply W.
Qed.

Lemma advance_none x : advance x = None -> w_keys x = [].
Proof. unfold advance. destruct (w_keys x); [auto|discriminate]. Qed.

Lemma cur_sorted_app a b :
  cur_sorted a -> cur_sorted b -> (forall z w, In z a -> In w b -> cur_lt z w) ->
  cur_sorted (a ++ b).
Proof.
  induction a as [|x a IH]; cbn; intros Sa Sb H; [assumption|].
  inv Sa. constructor.
  - apply IH; auto.
  - apply Forall_app. split; [assumption|]. apply Forall_forall. intros w Hw. apply H; auto.
Qed.

Lemma cur_sorted_app_inv a b :
  cur_sorted (a ++ b) -> cur_sorted a /\ cur_sorted b /\
  (forall z w, In z a -> In w b -> cur_lt z w).
Proof.
  induction a as [|x a IH]; cbn; intros S.
  - split; [constructor|]. split; [assumption|]. tauto.
  - inv S. destruct (IH H1) as (Sa & Sb & H). apply Forall_app in H2. destruct H2 as [F1 F2].
    split; [constructor; auto|]. split; [assumption|].
    intros z w [->|Hz] Hw; [|auto]. rewrite Forall_forall in F2. auto.
Qed.

Lemma sorted_nth_lt l : cur_sorted l -> forall i j y z, i < j ->
  nth_error l i = Some y -> nth_error l j = Some z -> cur_lt y z.
Proof.
  induction 1 as [|x l S IH F]; intros i j y z Hij Hi Hj.
  - destruct i; discriminate.
  - destruct j; [lia|]. destruct i; cbn in Hi, Hj.
    + inv Hi. rewrite Forall_forall in F. apply F. eapply nth_error_In; eauto.
    + eapply IH; [|eassumption|eassumption]. lia.
Qed.

Lemma pends_app a b : pends (a ++ b) = pends a ++ pends b.
Proof. apply map_app. Qed.

(* ---------------------------------------------------------------------- *)
(* fastIterator.next(idx) *)

Lemma nonempty_flag {A} (pre : list A) y l : negb (length (pre ++ y :: l) =? 0) = true.
Proof. rewrite app_length. cbn. destruct (Nat.eqb_spec (length pre + S (length l)) 0); [lia|reflexivity]. Qed.

Lemma nonempty_flag2 {A} (l : list A) : 0 < length l -> negb (length l =? 0) = true.
Proof. intros H. destruct (Nat.eqb_spec (length l) 0); [lia|reflexivity]. Qed.

Lemma nth_error_next {A} (pre : list A) x y l : nth_error (pre ++ x :: y :: l) (S (length pre)) = Some y.
Proof. induction pre; cbn; auto. Qed.

Lemma len_mid {A} (pre : list A) x post : length (pre ++ x :: post) = length pre + S (length post).
Proof. rewrite app_length. reflexivity. Qed.

Definition pred_val (x' z : witer) : bool :=
  if N.ltb (w_cur x') (w_cur z) then true
  else if N.ltb (w_cur z) (w_cur x') then false else w_prio x' <? w_prio z.

Lemma next_pred_at pre x' post j z : nth_error post j = Some z ->
  next_pred (pre ++ x' :: post) (length pre) x' (length pre + j) = Some (pred_val x' z).
Proof.
  intros Hz. assert (j < length post) by (apply nth_error_Some; congruence).
  unfold next_pred. rewrite len_mid.
  destruct (Nat.ltb_spec (length pre + j) (length pre)); [lia|].
  destruct (Nat.eqb_spec (length pre + j) (length pre + S (length post) - 1)); [lia|].
  rewrite nth_error_after, Hz. unfold pred_val.
  destruct (N.ltb _ _); [reflexivity|]. destruct (N.ltb _ _); reflexivity.
Qed.

Lemma next_pred_last pre x' post :
  next_pred (pre ++ x' :: post) (length pre) x' (length pre + length post) = Some true.
Proof.
  unfold next_pred. rewrite len_mid.
  destruct (Nat.ltb_spec (length pre + length post) (length pre)); [lia|].
  destruct (Nat.eqb_spec (length pre + length post) (length pre + S (length post) - 1)); [reflexivity|lia].
Qed.

Lemma next_pred_before its idx x' h : h < idx -> next_pred its idx x' h = Some false.
Proof. intros H. unfold next_pred. destruct (Nat.ltb_spec h idx); [reflexivity|lia]. Qed.

Lemma next_pred_total pre x' post h : h < length (pre ++ x' :: post) ->
  next_pred (pre ++ x' :: post) (length pre) x' h <> None.
Proof.
  intros Hh. rewrite len_mid in Hh. unfold next_pred. rewrite len_mid.
  destruct (h <? length pre); [discriminate|].
  destruct (Nat.eqb_spec h (length pre + S (length post) - 1)); [discriminate|].
  destruct (nth_error (pre ++ x' :: post) (S h)) eqn:E.
  - destruct (N.ltb _ _); [discriminate|]. destruct (N.ltb _ _); discriminate.
  - apply nth_error_None in E. rewrite len_mid in E. lia.
Qed.

Definition clash_test (its : list witer) (idx : nat) (cur : witer) (n : nat) : bool :=
  negb (n <? idx) && negb (n =? length its - 1) &&
  match nth_error its (S n) with
  | Some y => N.eqb (w_cur cur) (w_cur y) | None => false end.

Lemma clash_test_at pre x' post i z : nth_error post i = Some z -> w_cur z = w_cur x' ->
  clash_test (pre ++ x' :: post) (length pre) x' (length pre + i) = true.
Proof.
  intros Hz E. assert (i < length post) by (apply nth_error_Some; congruence).
  unfold clash_test. rewrite len_mid, nth_error_after, Hz, E, N.eqb_refl.
  destruct (Nat.ltb_spec (length pre + i) (length pre)); [lia|].
  destruct (Nat.eqb_spec (length pre + i) (length pre + S (length post) - 1)); [lia|reflexivity].
Qed.

Lemma clash_test_inv pre x' post p :
  clash_test (pre ++ x' :: post) (length pre) x' p = true ->
  exists i z, p = length pre + i /\ nth_error post i = Some z /\ w_cur z = w_cur x'.
Proof.
  unfold clash_test. intros H. apply andb_true_iff in H. destruct H as [H H3].
  apply andb_true_iff in H. destruct H as [H1 H2].
  destruct (Nat.ltb_spec p (length pre)); [discriminate|].
  exists (p - length pre).
  replace (S p) with (S (length pre + (p - length pre))) in H3 by lia.
  rewrite nth_error_after in H3.
  destruct (nth_error post (p - length pre)) as [z|]; [|discriminate].
  exists z. split; [lia|]. split; [reflexivity|]. apply N.eqb_eq in H3. auto.
Qed.

Lemma sorted_nth_inj l : cur_sorted l -> forall i j y z,
  nth_error l i = Some y -> nth_error l j = Some z -> w_cur y = w_cur z -> i = j.
Proof.
  intros S i j y z Hi Hj E.
  destruct (Nat.lt_trichotomy i j) as [H|[H|H]]; [|assumption|].
  - pose proof (sorted_nth_lt l S i j y z H Hi Hj) as L. unfold cur_lt in L. lia.
  - pose proof (sorted_nth_lt l S j i z y H Hj Hi) as L. unfold cur_lt in L. lia.
Qed.

Lemma split_at_A : forall post j a, cur_sorted post -> 1 <= j -> nth_error post (j - 1) = Some a ->
  Forall (fun z => cur_lt z a \/ z = a) (firstn j post).
Proof.
  induction post as [|p l IH]; intros j a HS Hj Ha.
  - destruct (j - 1); discriminate.
  - destruct j as [|j']; [lia|]. cbn [firstn]. replace (S j' - 1) with j' in Ha by lia.
    inv HS. destruct j' as [|j''].
    + cbn in Ha. inv Ha. constructor; [now right|constructor].
    + cbn in Ha. constructor.
      * left. rewrite Forall_forall in H2. apply H2. eapply nth_error_In; eauto.
      * apply IH; auto; [lia|]. replace (S j'' - 1) with j'' by lia. assumption.
Qed.

Lemma split_at_C : forall post j c, cur_sorted post -> nth_error post j = Some c ->
  exists C2, skipn j post = c :: C2 /\ Forall (cur_lt c) C2.
Proof.
  induction post as [|p l IH]; intros j c HS Hc.
  - destruct j; discriminate.
  - inv HS. destruct j as [|j']; cbn in Hc.
    + inv Hc. exists l. split; auto.
    + cbn [skipn]. apply IH; auto.
Qed.

Section Fast.
Variable s : stack.

Lemma fi_next_spec : forall fuel pre x post,
  its_fuel (x :: post) <= fuel ->
  wf_it s x -> Forall (wf_it s) post -> cur_sorted post -> Forall (cur_lt x) post ->
  exists post',
    fi_next fuel (pre ++ x :: post) (length pre)
      = Ok (pre ++ post', negb (length (pre ++ post') =? 0)) /\
    Forall (wf_it s) post' /\ cur_sorted post' /\ Forall (cur_lt x) post' /\
    Equiv (pends post') (tailp x :: pends post) /\ msum post' < msum (x :: post).
Proof.
  induction fuel as [|fuel IH]; intros pre x post Hf Wx Wp Sp Fp.
  { rewrite its_fuel_msum in Hf. lia. }
  cbn [fi_next]. rewrite nth_error_mid.
  destruct (advance x) as [x'|] eqn:Adv.
  2:{ rewrite remove_nth_mid. exists post. split; [reflexivity|]. repeat split; auto.
      - apply advance_none in Adv. unfold tailp. rewrite Adv. apply Equiv_sym, Equiv_nil_pend.
      - rewrite msum_cons. lia. }
  destruct (advance_wf s x x' (wf_it_tail _ _ Wx) Adv) as (Wx' & Ep & Ek & Epr & Esrc).
  rewrite set_nth_mid.
  assert (Hxx' : cur_lt x x').
  { destruct Wx as (S1 & _). apply ksorted_inv in S1. destruct S1 as [_ F].
    rewrite Ek in F. inv F. assumption. }
  assert (Hm : msum (x' :: post) < msum (x :: post)).
  { rewrite !msum_cons, Ek. cbn [length]. lia. }
  destruct post as [|y post2].
  { (* no one left to cascade into *)
    rewrite len_mid. cbn [length].
    destruct (Nat.eqb_spec (length pre) (length pre + 1 - 1)); [|lia].
    exists [x']. rewrite nonempty_flag. split; [reflexivity|].
    split; [constructor; auto|]. split; [constructor; constructor|].
    split; [constructor; auto|]. split; [|assumption].
    cbn. rewrite Ep. apply Equiv_refl. }
  rewrite len_mid. cbn [length].
  destruct (Nat.eqb_spec (length pre) (length pre + S (S (length post2)) - 1)); [lia|].
  rewrite nth_error_next.
  assert (Wy : wf_it s y) by (inv Wp; assumption).
  destruct (N.ltb_spec (w_cur x') (w_cur y)) as [Hlt|Hge].
  { (* still in the correct place *)
    exists (x' :: y :: post2). rewrite nonempty_flag. split; [reflexivity|].
    split; [constructor; auto|]. split.
    { constructor; auto. constructor; auto.
      inv Sp. eapply Forall_impl; [|eassumption]. unfold cur_lt in *. intros; lia. }
    split; [constructor; auto|]. split; [|assumption].
    cbn. rewrite Ep. apply Equiv_refl. }
  destruct (N.eqb (w_cur x') (w_cur y) && (w_prio x' <? w_prio y)) eqn:Eb.
  { (* same hash, x' newer: iterate on the next *)
    apply andb_true_iff in Eb. destruct Eb as [Eb1 Eb2].
    apply N.eqb_eq in Eb1. apply Nat.ltb_lt in Eb2.
    inv Sp. inv Wp. inv Fp.
    destruct (IH (pre ++ [x']) y post2) as (post2' & E & W' & S' & F' & Q' & M'); auto.
    { rewrite its_fuel_msum in *. rewrite !msum_cons in Hf. rewrite msum_cons. lia. }
    replace (pre ++ x' :: y :: post2) with ((pre ++ [x']) ++ y :: post2)
      by (rewrite <- app_assoc; reflexivity).
    replace (S (length pre)) with (length (pre ++ [x'])) by (rewrite app_length; cbn; lia).
    rewrite E. exists (x' :: post2').
    replace ((pre ++ [x']) ++ post2') with (pre ++ x' :: post2')
      by (rewrite <- app_assoc; reflexivity).
    rewrite nonempty_flag. split; [reflexivity|].
    split; [constructor; auto|]. split.
    { constructor; auto. eapply Forall_impl; [|exact F']. unfold cur_lt. intros; lia. }
    split.
    { constructor; auto. eapply Forall_impl; [|exact F']. unfold cur_lt in *. intros; lia. }
    split.
    { cbn [pends map]. rewrite Ep.
      eapply Equiv_trans; [apply Equiv_cons; exact Q'|].
      rewrite <- Ep. unfold tailp at 1.
      change (pend_of y) with (w_prio y, w_cur y :: w_keys y).
      apply Equiv_sym.
      apply (Equiv_drop_mid [pend_of x'] (map pend_of post2) (w_prio y) (w_cur y) (w_keys y)
               (w_prio x') (w_cur x' :: w_keys x')).
      - left. reflexivity.
      - left. auto.
      - lia. }
    rewrite !msum_cons in *. lia. }
  (* the iterator is in the wrong location: binary search for its new place *)
  remember (y :: post2) as post eqn:Epost.
  assert (Hy : nth_error post 0 = Some y) by (subst; reflexivity).
  assert (Hpv : pred_val x' y = false).
  { unfold pred_val. destruct (N.ltb_spec (w_cur x') (w_cur y)); [lia|].
    destruct (N.ltb_spec (w_cur y) (w_cur x')); [reflexivity|].
    apply andb_false_iff in Eb. destruct Eb as [Eb|Eb]; [|assumption].
    apply N.eqb_neq in Eb. lia. }
  replace (length pre + S (S (length post2))) with (length (pre ++ x' :: post))
    by (rewrite len_mid; subst; reflexivity).
  clear n Hge Eb.
  set (its1 := pre ++ x' :: post).
  destruct (sort_search_spec (length its1) (next_pred its1 (length pre) x'))
    as (r & pr & E & Hr & H1 & H2 & Hpr).
  { intros h Hh. apply next_pred_total. exact Hh. }
  rewrite E.
  assert (Hlen : length its1 = length pre + S (length post)) by apply len_mid.
  (* r is strictly inside (idx, len) *)
  assert (Hr2 : next_pred its1 (length pre) x' r = Some true /\ In r pr /\ r < length its1).
  { destruct H2 as [H2|[H2 H2']].
    - exfalso. subst r. destruct H1 as [H1|[H1 _]]; [lia|].
      replace (length its1 - 1) with (length pre + length post) in H1 by lia.
      unfold its1 in H1. rewrite next_pred_last in H1. discriminate.
    - split; auto. split; auto. rewrite Forall_forall in Hpr. auto. }
  destruct Hr2 as (Hr2 & Hr3 & Hr4).
  assert (Hr5 : length pre < r).
  { destruct (Nat.lt_trichotomy r (length pre)) as [L|[L|L]]; [| |assumption].
    - rewrite next_pred_before in Hr2 by assumption. discriminate.
    - subst r. replace (length pre) with (length pre + 0) in Hr2 at 2 by lia.
      unfold its1 in Hr2. rewrite (next_pred_at pre x' post 0 y Hy), Hpv in Hr2. discriminate. }
  set (j := r - length pre).
  assert (Hj : r = length pre + j /\ 1 <= j <= length post) by (unfold j; lia).
  destruct Hj as (Hrj & Hj1 & Hj2). clearbody j. subst r.
  destruct (nth_error post (j - 1)) as [a|] eqn:Ea.
  2:{ apply nth_error_None in Ea. lia. }
  assert (Hpa : pred_val x' a = false).
  { destruct H1 as [H1|[H1 _]]; [lia|].
    replace (length pre + j - 1) with (length pre + (j - 1)) in H1 by lia.
    unfold its1 in H1. rewrite (next_pred_at pre x' post (j - 1) a Ea) in H1. congruence. }
  assert (Hq1 : In (length pre + (j - 1)) pr).
  { destruct H1 as [H1|[_ H1]]; [lia|].
    replace (length pre + j - 1) with (length pre + (j - 1)) in H1 by lia. exact H1. }
  pose proof (split_at_A post j a Sp Hj1 Ea) as FA.
  pose proof (firstn_skipn j post) as Esplit.
  pose proof (msum_app (firstn j post) (skipn j post)) as Hms. rewrite Esplit in Hms.
  assert (HlenA : length (firstn j post) = j) by (apply firstn_length_le; lia).
  set (A := firstn j post) in *. set (C := skipn j post) in *.
  assert (Emove : move its1 (length pre) (length pre + j) = Some (pre ++ A ++ x' :: C)).
  { unfold its1. rewrite <- Esplit, <- HlenA. apply move_mid. }
  rewrite Emove.
  assert (Ha_in : In a A).
  { apply nth_error_In with (n := j - 1). unfold A.
    rewrite <- Esplit in Ea. rewrite nth_error_app1 in Ea by (fold A; lia). exact Ea. }
  rewrite <- Esplit in Sp, Wp, Fp.
  apply cur_sorted_app_inv in Sp. destruct Sp as (SA & SC & SAC).
  apply Forall_app in Wp. destruct Wp as [WA WC].
  apply Forall_app in Fp. destruct Fp as [FpA FpC].
  assert (Hcur_a : (w_cur a <= w_cur x')%N /\
                   ((w_cur a = w_cur x') -> w_prio a <= w_prio x')).
  { unfold pred_val in Hpa. destruct (N.ltb_spec (w_cur x') (w_cur a)); [discriminate|].
    split; [assumption|]. intros Eq.
    destruct (N.ltb_spec (w_cur a) (w_cur x')); [lia|]. apply Nat.ltb_ge in Hpa. exact Hpa. }
  destruct Hcur_a as [Hca1 Hca2].
  (* what sits right after the insertion point *)
  assert (HC : C = [] \/ exists c C2, C = c :: C2 /\ Forall (cur_lt c) C2 /\
                 nth_error post j = Some c /\ pred_val x' c = true).
  { destruct (nth_error post j) as [c|] eqn:Ec.
    - right.
      destruct (split_at_C post j c) as (C2 & EC & FC2); auto.
      { rewrite <- Esplit. apply cur_sorted_app; auto. }
      exists c, C2. split; [exact EC|]. split; [exact FC2|]. split; [reflexivity|].
      unfold its1 in Hr2. rewrite (next_pred_at pre x' post j c Ec) in Hr2. congruence.
    - left. apply nth_error_None in Ec. unfold C. apply skipn_all2. exact Ec. }
  assert (Hclash_inj : forall p, In p pr ->
            clash_test its1 (length pre) x' p = true ->
            exists i z, p = length pre + i /\ nth_error post i = Some z /\ w_cur z = w_cur x').
  { intros p _ Hp. apply clash_test_inv. exact Hp. }
  assert (Spost : cur_sorted post).
  { rewrite <- Esplit. apply cur_sorted_app; auto. }
  destruct (N.eqb_spec (w_cur a) (w_cur x')) as [Eak|Nak].
  - (* clash with [a] (not older than x'): x' goes right after it and is advanced again *)
    assert (Ecl : next_clash its1 (length pre) x' pr = Some (S (length pre + (j - 1)))).
    { unfold next_clash. fold (clash_test its1 (length pre) x').
      rewrite (find_unique _ (length pre + (j - 1))); auto.
      - intros p Hp Tp. destruct (Hclash_inj p Hp Tp) as (i & z & -> & Hz & Ez).
        f_equal. eapply sorted_nth_inj; eauto. congruence.
      - unfold its1. eapply clash_test_at; eauto. }
    rewrite Ecl.
    assert (FCk : Forall (cur_lt x') C).
    { apply Forall_forall. intros w Hw. specialize (SAC a w Ha_in Hw). unfold cur_lt in *. lia. }
    destruct (IH (pre ++ A) x' C) as (C' & E' & W' & S' & F' & Q' & M'); auto.
    { rewrite its_fuel_msum in *. rewrite !msum_cons in *. lia. }
    replace (pre ++ A ++ x' :: C) with ((pre ++ A) ++ x' :: C) by (rewrite <- app_assoc; reflexivity).
    replace (S (length pre + (j - 1))) with (length (pre ++ A)) by (rewrite app_length; lia).
    rewrite E'. exists (A ++ C').
    replace ((pre ++ A) ++ C') with (pre ++ A ++ C') by (rewrite app_assoc; reflexivity).
    assert (Enz : negb (length (pre ++ A ++ C') =? 0) = true).
    { apply nonempty_flag2. rewrite !app_length. lia. }
    rewrite Enz. split; [reflexivity|].
    split; [apply Forall_app; auto|]. split.
    { apply cur_sorted_app; auto. intros z w Hz Hw.
      rewrite Forall_forall in FA, F'. specialize (FA z Hz). specialize (F' w Hw).
      unfold cur_lt in *. destruct FA as [FA|FA]; [lia|subst z; lia]. }
    split.
    { apply Forall_app. split; auto. eapply Forall_impl; [|exact F'].
      unfold cur_lt in *. intros; lia. }
    split.
    { rewrite <- Esplit. fold A C. rewrite !pends_app.
      eapply Equiv_trans; [apply Equiv_app_l; exact Q'|].
      eapply Equiv_trans; [apply Equiv_perm; symmetry; apply Permutation_middle|].
      rewrite <- Ep. unfold tailp.
      change (pend_of x') with (w_prio x', w_cur x' :: w_keys x').
      apply Equiv_sym.
      apply (Equiv_drop _ _ _ _ (w_prio a) (w_cur a :: w_keys a)).
      - apply in_or_app. left. apply in_map_iff. exists a. split; [reflexivity|assumption].
      - left. exact Eak.
      - auto. }
    rewrite !msum_cons, !msum_app in *. lia.
  - assert (Hak : (w_cur a < w_cur x')%N) by lia.
    assert (FAk : forall z, In z A -> cur_lt z x').
    { intros z Hz. rewrite Forall_forall in FA. specialize (FA z Hz).
      unfold cur_lt in *. destruct FA as [FA|FA]; [lia|subst z; lia]. }
    assert (Hcase : (exists c C2, C = c :: C2 /\ w_cur x' = w_cur c /\ w_prio x' < w_prio c /\
                       nth_error post j = Some c /\ Forall (cur_lt c) C2)
                    \/ Forall (cur_lt x') C).
    { destruct HC as [HC0|(c & C2 & HC0 & FC2 & Ec & Hpc)]; [right; rewrite HC0; constructor|].
      unfold pred_val in Hpc. destruct (N.ltb_spec (w_cur x') (w_cur c)).
      - right. rewrite HC0. constructor; [assumption|].
        eapply Forall_impl; [|exact FC2]. unfold cur_lt. intros; lia.
      - destruct (N.ltb_spec (w_cur c) (w_cur x')); [discriminate|].
        left. exists c, C2. repeat split; auto; [lia|]. apply Nat.ltb_lt. exact Hpc. }
    clear HC. destruct Hcase as [(c & C2 & HC & Eck & Hpx & Ec & FC2)|FCk].
    + (* clash with [c] (older than x'): x' goes right before it, [c] is advanced *)
      rewrite HC in WC, FpC, SC.
      apply Forall_cons_iff in WC. destruct WC as [Wc WC2].
      apply Forall_cons_iff in FpC. destruct FpC as [Fpc FpC2].
      apply StronglySorted_inv in SC. destruct SC as [SC2 FSC].
      assert (Ecl : next_clash its1 (length pre) x' pr = Some (S (length pre + j))).
      { unfold next_clash. fold (clash_test its1 (length pre) x').
        rewrite (find_unique _ (length pre + j)); auto.
        - intros p Hp Tp. destruct (Hclash_inj p Hp Tp) as (i & z & -> & Hz & Ez).
          f_equal. eapply sorted_nth_inj; eauto. congruence.
        - unfold its1. eapply clash_test_at; eauto. }
      rewrite Ecl, HC.
      destruct (IH (pre ++ A ++ [x']) c C2) as (C' & E' & W' & S' & F' & Q' & M'); auto.
      { rewrite its_fuel_msum in *. rewrite HC in Hms. rewrite !msum_cons in *. lia. }
      replace (pre ++ A ++ x' :: c :: C2) with ((pre ++ A ++ [x']) ++ c :: C2)
        by (rewrite <- !app_assoc; reflexivity).
      replace (S (length pre + j)) with (length (pre ++ A ++ [x']))
        by (rewrite !app_length; cbn; lia).
      rewrite E'. exists (A ++ x' :: C').
      replace ((pre ++ A ++ [x']) ++ C') with (pre ++ A ++ x' :: C')
        by (rewrite <- !app_assoc; reflexivity).
      assert (Enz : negb (length (pre ++ A ++ x' :: C') =? 0) = true).
      { apply nonempty_flag2. rewrite !app_length. lia. }
      rewrite Enz. split; [reflexivity|].
      split; [apply Forall_app; auto|]. split.
      { apply cur_sorted_app; auto.
        - constructor; auto. eapply Forall_impl; [|exact F']. unfold cur_lt. intros; lia.
        - intros z w Hz [<-|Hw]; [auto|].
          rewrite Forall_forall in F'. specialize (F' w Hw). specialize (FAk z Hz).
          unfold cur_lt in *. lia. }
      split.
      { apply Forall_app. split; auto. constructor; auto.
        eapply Forall_impl; [|exact F']. unfold cur_lt in *. intros; lia. }
      split.
      { rewrite <- Esplit. fold A C. rewrite HC, !pends_app. cbn [pends map].
        eapply Equiv_trans; [apply Equiv_app_l; apply Equiv_cons; exact Q'|].
        eapply Equiv_trans; [apply Equiv_perm; symmetry; apply Permutation_middle|].
        rewrite <- Ep.
        unfold tailp. change (pend_of c) with (w_prio c, w_cur c :: w_keys c).
        apply Equiv_sym.
        apply (Equiv_drop_mid (pend_of x' :: pends A) (pends C2)
                 (w_prio c) (w_cur c) (w_keys c) (w_prio x') (w_cur x' :: w_keys x')).
        - left. reflexivity.
        - left. auto.
        - lia. }
      rewrite HC in Hms. rewrite !msum_cons, !msum_app, !msum_cons in *. lia.
    + (* no clash *)
      assert (Ecl : next_clash its1 (length pre) x' pr = None).
      { unfold next_clash. fold (clash_test its1 (length pre) x').
        rewrite find_none; auto.
        intros p Hp. destruct (clash_test its1 (length pre) x' p) eqn:Tp; [|reflexivity].
        exfalso. destruct (Hclash_inj p Hp Tp) as (i & z & -> & Hz & Ez).
        apply nth_error_In in Hz. rewrite <- Esplit in Hz. apply in_app_or in Hz.
        destruct Hz as [Hz|Hz].
        - specialize (FAk z Hz). unfold cur_lt in FAk. lia.
        - rewrite Forall_forall in FCk. specialize (FCk z Hz). unfold cur_lt in FCk. lia. }
      rewrite Ecl. exists (A ++ x' :: C).
      assert (Enz : negb (length (pre ++ A ++ x' :: C) =? 0) = true).
      { apply nonempty_flag2. rewrite !app_length. lia. }
      rewrite Enz. split; [reflexivity|].
      split; [apply Forall_app; auto|]. split.
      { apply cur_sorted_app; auto; [constructor; auto|].
        intros z w Hz [<-|Hw]; auto. }
      split; [apply Forall_app; auto|]. split.
      { rewrite <- Esplit. fold A C. rewrite !pends_app. cbn [pends map].
        rewrite Ep. apply Equiv_perm. symmetry. apply Permutation_middle. }
      rewrite !msum_cons, !msum_app, !msum_cons in *. lia.
Qed.

End Fast.

(* ---------------------------------------------------------------------- *)
(* draining a positioned, sorted iterator list *)

Section Drain.
Variable s : stack.

Definition val_top (k : key) (o : option nat) : option value :=
  match o with
  | None => None
  | Some n => match nth_error s n with Some l => lookup k l | None => None end
  end.
Definition V (its : list witer) (k : key) : option value := val_top k (top (pends its) k).
Definition Stable (its : list witer) : Prop := Forall (wf_it s) its /\ cur_sorted its.
Definition dead (o : option value) : Prop := o = None \/ o = Some None.

Lemma pending_ge x k : wf_it s x -> In k (w_cur x :: w_keys x) -> (w_cur x <= k)%N.
Proof.
  intros (S1 & _) [<-|H]; [lia|]. apply ksorted_inv in S1. destruct S1 as [_ F].
  rewrite Forall_forall in F. apply F in H. lia.
Qed.

Lemma top_below its k : Forall (wf_it s) its -> Forall (fun y => (k < w_cur y)%N) its ->
  top (pends its) k = None.
Proof.
  intros W F. apply top_none. intros n ks Hin Hk.
  apply in_map_iff in Hin. destruct Hin as (y & Ey & Hy). inv Ey.
  rewrite Forall_forall in W, F. pose proof (pending_ge y k (W y Hy) Hk). specialize (F y Hy). lia.
Qed.

Lemma top_tail x R k : k <> w_cur x -> top (pend_of x :: R) k = top (tailp x :: R) k.
Proof. intros H. cbn. destruct (N.eqb_spec k (w_cur x)); [congruence|reflexivity]. Qed.

Lemma head_facts x post : Stable (x :: post) ->
  V (x :: post) (w_cur x) = value_of x /\ value_of x <> None /\
  (forall k, (k < w_cur x)%N -> V (x :: post) k = None).
Proof.
  intros [W Sd]. inv W. inv Sd. destruct H1 as (S1 & S2 & S3). split; [|split].
  - unfold V. cbn [pends map top pend_of has existsb]. rewrite N.eqb_refl. cbn [orb].
    rewrite (top_below post (w_cur x)); auto. cbn. rewrite S2. reflexivity.
  - unfold value_of. apply lookup_in_keys. inv S3. assumption.
  - intros k Hk. unfold V. rewrite (top_below (x :: post) k); [reflexivity| |].
    + constructor; auto. split; auto.
    + constructor; auto. eapply Forall_impl; [|exact H4]. unfold cur_lt. intros; lia.
Qed.

Lemma fi_Next_loop_spec : forall fuel x post,
  Stable (x :: post) -> its_fuel (x :: post) <= fuel ->
  match fi_Next_loop fuel (x :: post) with
  | Err _ => False
  | Ok None => forall k, (w_cur x < k)%N -> dead (V (x :: post) k)
  | Ok (Some ((k, b), its')) =>
      exists y post', its' = y :: post' /\ Stable its' /\ msum its' < msum (x :: post) /\
        w_cur y = k /\ (w_cur x < k)%N /\ V (x :: post) k = Some (Some b) /\
        (forall k', (w_cur x < k' < k)%N -> dead (V (x :: post) k')) /\
        (forall k', (k < k')%N -> V its' k' = V (x :: post) k')
  end.
Proof.
  induction fuel as [|fuel IH]; intros x post St Hf.
  { rewrite its_fuel_msum in Hf. lia. }
  cbn [fi_Next_loop]. destruct St as [W Sd].
  assert (Wx : wf_it s x) by (inv W; assumption).
  assert (Wp : Forall (wf_it s) post) by (inv W; assumption).
  assert (Sp : cur_sorted post) by (inv Sd; assumption).
  assert (Fp : Forall (cur_lt x) post) by (inv Sd; assumption).
  destruct (fi_next_spec s (its_fuel (x :: post)) [] x post (le_n _) Wx Wp Sp Fp)
    as (post' & E & W' & S' & F' & Q' & M').
  cbn [app length] in E. rewrite E.
  assert (R1 : forall k', k' <> w_cur x -> V post' k' = V (x :: post) k').
  { intros k' Hk'. unfold V. rewrite Q'. cbn [pends map]. now rewrite top_tail. }
  destruct post' as [|y p2].
  { cbn. intros k Hk. left. rewrite <- R1 by lia. reflexivity. }
  cbn [length Nat.eqb negb].
  assert (St' : Stable (y :: p2)) by (split; assumption).
  destruct (head_facts y p2 St') as (Hv & Hnn & Hlow).
  assert (Hxy : (w_cur x < w_cur y)%N) by (inv F'; assumption).
  assert (R2 : forall k', (w_cur x < k' < w_cur y)%N -> dead (V (x :: post) k')).
  { intros k' Hk'. left. rewrite <- R1 by lia. apply Hlow. lia. }
  destruct (value_of y) as [[b|]|] eqn:Ev; [| |congruence].
  - exists y, p2. repeat split; auto.
    + rewrite <- R1 by lia. exact Hv.
    + intros k' Hk'. apply R1. lia.
  - assert (Hf' : its_fuel (y :: p2) <= fuel) by (rewrite its_fuel_msum in *; lia).
    specialize (IH y p2 St' Hf').
    destruct (fi_Next_loop fuel (y :: p2)) as [[[[k b] its']|]|e]; [| |assumption].
    + destruct IH as (z & p3 & -> & St3 & M3 & Ez & Hyk & Hvk & Hdead & Hrest).
      exists z, p3. repeat split; auto; try apply St3; try lia.
      * rewrite <- R1 by lia. assumption.
      * intros k' Hk'.
        destruct (N.lt_total k' (w_cur y)) as [L|[L|L]].
        -- apply R2. lia.
        -- subst k'. right. rewrite <- R1 by lia. exact Hv.
        -- rewrite <- R1 by lia. apply Hdead. lia.
      * intros k' Hk'. rewrite Hrest by assumption. apply R1. lia.
    + intros k Hk.
      destruct (N.lt_total k (w_cur y)) as [L|[L|L]].
      * apply R2. lia.
      * subst k. right. rewrite <- R1 by lia. exact Hv.
      * rewrite <- R1 by lia. apply IH. assumption.
Qed.

Lemma fi_collect_spec : forall fuel x post,
  Stable (x :: post) -> msum (x :: post) <= fuel ->
  exists out, fi_collect fuel (x :: post) true = Ok out /\
    ksorted (map fst out) /\ Forall (fun kv => (w_cur x < fst kv)%N) out /\
    forall k b, In (k, b) out <-> ((w_cur x < k)%N /\ V (x :: post) k = Some (Some b)).
Proof.
  induction fuel as [|fuel IH]; intros x post St Hf.
  { rewrite msum_cons in Hf. lia. }
  cbn [fi_collect fi_Next].
  pose proof (fi_Next_loop_spec (its_fuel (x :: post)) x post St (le_n _)) as L.
  destruct (fi_Next_loop (its_fuel (x :: post)) (x :: post)) as [[[[k b] its']|]|e]; [| |contradiction].
  - destruct L as (y & post' & -> & St' & M' & Ey & Hxk & Hvk & Hdead & Hrest).
    destruct (IH y post' St' ltac:(lia)) as (out' & E' & So' & Fo' & Mem').
    rewrite E'. exists ((k, b) :: out'). split; [reflexivity|]. split; [|split].
    + cbn. constructor; auto. rewrite Forall_map. subst k. exact Fo'.
    + constructor; [assumption|]. eapply Forall_impl; [|exact Fo']. cbn. intros; lia.
    + intros k0 b0. cbn [In]. rewrite Mem'. split.
      * intros [E|[L1 L2]]; [inv E; auto|]. split; [lia|]. rewrite <- Hrest by lia. assumption.
      * intros [L1 L2]. destruct (N.lt_total k0 k) as [L|[L|L]].
        -- destruct (Hdead k0 ltac:(lia)) as [D|D]; congruence.
        -- subst k0. left. congruence.
        -- right. split; [lia|]. rewrite Hrest by lia. assumption.
  - exists []. split; [reflexivity|]. split; [constructor|]. split; [constructor|].
    intros k b. split; [intros []|]. intros [L1 L2]. destruct (L k L1) as [D|D]; congruence.
Qed.

Lemma fi_collect_start its :
  Stable its ->
  exists out, fi_collect (its_fuel its) its false = Ok out /\
    ksorted (map fst out) /\ forall k b, In (k, b) out <-> V its k = Some (Some b).
Proof.
  intros St. destruct its as [|x post].
  { exists []. split; [reflexivity|]. split; [constructor|]. intros k b. split; [intros []|].
    unfold V. cbn. discriminate. }
  rewrite its_fuel_msum. cbn [fi_collect fi_Next].
  destruct (head_facts x post St) as (Hv & Hnn & Hlow).
  destruct (value_of x) as [[b|]|] eqn:Ev; [| |congruence].
  - destruct (fi_collect_spec (msum (x :: post)) x post St (le_n _)) as (out & E & So & Fo & Mem).
    rewrite E. exists ((w_cur x, b) :: out). split; [reflexivity|]. split.
    + cbn. constructor; auto. rewrite Forall_map. exact Fo.
    + intros k0 b0. cbn [In]. rewrite Mem. split.
      * intros [E0|[_ L2]]; [inv E0; exact Hv|assumption].
      * intros L2. destruct (N.lt_total k0 (w_cur x)) as [L|[L|L]].
        -- rewrite Hlow in L2 by assumption. discriminate.
        -- subst k0. left. rewrite Hv in L2. inv L2. reflexivity.
        -- right. auto.
  - (* head is a tombstone: same as an initiated step *)
    pose proof (fi_collect_spec (S (msum (x :: post))) x post St ltac:(lia)) as (out & E & So & Fo & Mem).
    cbn [fi_collect fi_Next] in E. rewrite ?its_fuel_msum in *. rewrite E.
    exists out. split; [reflexivity|]. split; [assumption|].
    intros k0 b0. rewrite Mem. split; [tauto|].
    intros L2. split; [|assumption]. destruct (N.lt_total k0 (w_cur x)) as [L|[L|L]]; [| |assumption].
    + rewrite Hlow in L2 by assumption. discriminate.
    + subst k0. rewrite Hv in L2. discriminate.
Qed.

End Drain.

(* ---------------------------------------------------------------------- *)
(* fastIterator.init *)

Lemma perm_swap_ends {A} (a b : A) M R : Permutation (a :: M ++ b :: R) (b :: M ++ a :: R).
Proof.
  eapply perm_trans; [apply perm_skip; symmetry; apply Permutation_middle|].
  eapply perm_trans; [apply perm_swap|]. apply perm_skip. apply Permutation_middle.
Qed.

Lemma nth_error_replace {A} (d1 d2 : list A) a b j : j <> length d1 ->
  nth_error (d1 ++ a :: d2) j = nth_error (d1 ++ b :: d2) j.
Proof.
  intros H. destruct (Nat.lt_trichotomy j (length d1)) as [L|[L|L]]; [|lia|].
  - now rewrite !nth_error_app1 by assumption.
  - rewrite !nth_error_app2 by lia. destruct (j - length d1) eqn:E; [lia|reflexivity].
Qed.

Lemma tailps_app a b : tailps (a ++ b) = tailps a ++ tailps b.
Proof. apply map_app. Qed.

Section Init.
Variable s : stack.
Variable P0 : list pend.

Definition pos_ok (done : list witer) (pos : list (key * nat)) : Prop :=
  (forall h j, pos_get pos h = Some j -> exists z, nth_error done j = Some z /\ w_cur z = h) /\
  (forall h, pos_get pos h = None -> ~ In h (map w_cur done)).

Lemma fi_init_loop_spec : forall fuel done todo pos,
  msum (done ++ todo) < fuel ->
  Forall (wf_it s) done -> Forall (wf0 s) todo -> NoDup (map w_cur done) -> pos_ok done pos ->
  Equiv (pends done ++ tailps todo) P0 ->
  exists its', fi_init_loop fuel (done ++ todo) (length done) pos = Ok its' /\
    Forall (wf_it s) its' /\ NoDup (map w_cur its') /\ Equiv (pends its') P0.
Proof.
  induction fuel as [|fuel IH]; intros done todo pos Hf Wd Wt Nd Hpos HQ; [lia|].
  cbn [fi_init_loop]. destruct todo as [|it rest].
  { rewrite app_nil_r. rewrite Nat.leb_refl. exists done.
    change (tailps []) with (@nil pend) in HQ. rewrite app_nil_r in HQ. auto. }
  rewrite len_mid. destruct (Nat.leb_spec (length done + S (length rest)) (length done)); [lia|].
  rewrite nth_error_mid.
  assert (Wit : wf0 s it) by (inv Wt; assumption).
  assert (Wrest : Forall (wf0 s) rest) by (inv Wt; assumption).
  destruct (advance it) as [it'|] eqn:Adv.
  - destruct (advance_wf s it it' Wit Adv) as (Wit' & Ep & Ek & Epr & Esrc).
    rewrite set_nth_mid.
    assert (Hms : msum (done ++ it' :: rest) < msum (done ++ it :: rest)).
    { rewrite !msum_app, !msum_cons, Ek. cbn [length]. lia. }
    destruct Hpos as [Hp1 Hp2].
    destruct (pos_get pos (w_cur it')) as [other|] eqn:Epos.
    + destruct (Hp1 _ _ Epos) as (o & Ho & Eo).
      assert (Hlt : other < length done) by (apply nth_error_Some; congruence).
      rewrite nth_error_app1 by assumption. rewrite Ho.
      destruct (nth_error_split done other Ho) as (d1 & d2 & Ed & Elen).
      assert (Wo : wf_it s o).
      { rewrite Forall_forall in Wd. apply Wd. eapply nth_error_In; eauto. }
      destruct (Nat.ltb_spec (w_prio o) (w_prio it')) as [Epo|Epo].
      * (* the current one is progressed again *)
        apply (IH done (it' :: rest) pos); auto; [lia| |split; auto|].
        { constructor; auto. apply wf_it_tail. assumption. }
        eapply Equiv_trans; [|exact HQ]. cbn [tailps map].
        unfold tailp at 2. rewrite Ek. unfold tailp at 1. rewrite Epr.
        apply Equiv_sym.
        apply (Equiv_drop_mid (pends done) (map tailp rest) (w_prio it) (w_cur it') (w_keys it')
                 (w_prio o) (w_cur o :: w_keys o)).
        -- apply in_or_app. left. apply in_map_iff. exists o. split; [reflexivity|].
           eapply nth_error_In; eauto.
        -- left. assumption.
        -- lia.
      * (* the other one is progressed: swap *)
        subst done.
        assert (Es1 : set_nth ((d1 ++ o :: d2) ++ it' :: rest) other it'
                      = (d1 ++ it' :: d2) ++ it' :: rest).
        { rewrite <- !app_assoc. cbn [app]. subst other. apply set_nth_mid. }
        rewrite Es1.
        assert (El : length (d1 ++ o :: d2) = length (d1 ++ it' :: d2)) by (rewrite !len_mid; reflexivity).
        rewrite El, set_nth_mid.
        apply Forall_app in Wd. destruct Wd as [Wd1 Wd2]. inv Wd2.
        apply (IH (d1 ++ it' :: d2) (o :: rest) pos).
        -- rewrite !msum_app, !msum_cons in *. rewrite Ek in Hf. cbn [length] in Hf. lia.
        -- apply Forall_app. split; auto.
        -- constructor; auto. apply wf_it_tail. assumption.
        -- rewrite map_app in *. cbn [map] in *. rewrite <- Eo. assumption.
        -- split.
           ++ intros h j Hj. destruct (Hp1 h j Hj) as (z & Hz & Ez).
              destruct (Nat.eq_dec j (length d1)) as [->|Hne].
              ** rewrite nth_error_mid in Hz. inv Hz. exists it'. rewrite nth_error_mid. auto.
              ** exists z. split; [|assumption].
                 rewrite (nth_error_replace d1 d2 it' o) by assumption. assumption.
           ++ intros h Hh. specialize (Hp2 h Hh). rewrite map_app in *. cbn [map] in *.
              rewrite <- Eo. assumption.
        -- eapply Equiv_trans; [|exact HQ].
           rewrite !pends_app. cbn [pends tailps map]. rewrite <- !app_assoc. cbn [app].
           apply Equiv_app_l. rewrite <- Ep.
           eapply Equiv_trans;
             [|apply Equiv_perm; apply (perm_swap_ends (pend_of it') (pend_of o))].
           apply Equiv_sym.
           change (pend_of o) with (w_prio o, w_cur o :: w_keys o).
           change (tailp o) with (w_prio o, w_keys o).
           apply (Equiv_drop_mid (pend_of it' :: pends d2) (tailps rest)
                    (w_prio o) (w_cur o) (w_keys o) (w_prio it') (w_cur it' :: w_keys it')).
           ++ left. reflexivity.
           ++ left. auto.
           ++ lia.
    + (* not positioned yet: register *)
      replace (done ++ it' :: rest) with ((done ++ [it']) ++ rest) by (rewrite <- app_assoc; reflexivity).
      replace (S (length done)) with (length (done ++ [it'])) by (rewrite app_length; cbn; lia).
      apply IH; auto.
      * rewrite <- app_assoc. cbn [app]. lia.
      * apply Forall_app. split; auto.
      * rewrite map_app. cbn [map].
        eapply Permutation_NoDup; [apply Permutation_cons_append|].
        constructor; auto.
      * split.
        -- intros h j. cbn [pos_get]. destruct (N.eqb_spec h (w_cur it')).
           ++ intros Hj. inv Hj. exists it'. rewrite nth_error_mid. auto.
           ++ intros Hj. destruct (Hp1 h j Hj) as (z & Hz & Ez). exists z. split; auto.
              rewrite nth_error_app1; auto. apply nth_error_Some. congruence.
        -- intros h. cbn [pos_get]. destruct (N.eqb_spec h (w_cur it')); [discriminate|].
           intros Hh. specialize (Hp2 h Hh). rewrite map_app. cbn [map]. intros Hin.
           apply in_app_or in Hin. destruct Hin as [Hin|[Hin|[]]]; auto.
      * eapply Equiv_trans; [|exact HQ].
        rewrite pends_app, <- app_assoc. cbn [pends tailps map app]. rewrite Ep. apply Equiv_refl.
  - (* exhausted: replaced by the last iterator, list truncated *)
    apply advance_none in Adv.
    replace (length done + S (length rest) - 1) with (length done + length rest) by lia.
    destruct rest as [|r0 rest0].
    + cbn [length]. rewrite Nat.add_0_r, nth_error_mid, set_nth_mid, firstn_len_app.
      specialize (IH done [] pos). rewrite app_nil_r in IH. apply IH; auto.
      * rewrite msum_app, msum_cons in Hf. lia.
      * eapply Equiv_trans; [|exact HQ]. apply Equiv_app_l. cbn. unfold tailp. rewrite Adv.
        apply Equiv_sym, Equiv_nil_pend.
    + destruct (@exists_last _ (r0 :: rest0) ltac:(discriminate)) as (mid & l & Erest).
      rewrite Erest in *. clear Erest r0 rest0.
      assert (E1 : nth_error (done ++ it :: mid ++ [l]) (length done + length (mid ++ [l])) = Some l).
      { replace (done ++ it :: mid ++ [l]) with ((done ++ it :: mid) ++ [l])
          by (rewrite <- app_assoc; reflexivity).
        replace (length done + length (mid ++ [l])) with (length (done ++ it :: mid))
          by (rewrite !app_length; cbn; lia).
        apply nth_error_mid. }
      rewrite E1, set_nth_mid.
      replace (done ++ l :: mid ++ [l]) with ((done ++ l :: mid) ++ [l])
        by (rewrite <- app_assoc; reflexivity).
      replace (length done + length (mid ++ [l])) with (length (done ++ l :: mid))
        by (rewrite !app_length; cbn; lia).
      rewrite firstn_len_app.
      apply Forall_app in Wrest. destruct Wrest as [Wmid Wl]. inv Wl.
      apply IH; auto.
      * rewrite !msum_app, !msum_cons, !msum_app, !msum_cons in *. cbn [msum fold_right] in *. lia.
      * eapply Equiv_trans; [|exact HQ]. apply Equiv_app_l.
        change (tailps (it :: mid ++ [l])) with (tailp it :: tailps (mid ++ [l])).
        replace (tailp it) with (w_prio it, @nil key) by (unfold tailp; rewrite Adv; reflexivity).
        eapply Equiv_trans; [|apply Equiv_sym, Equiv_nil_pend].
        rewrite tailps_app. change (tailps (l :: mid)) with (tailp l :: tailps mid).
        apply Equiv_perm. apply Permutation_cons_append.
Qed.

End Init.

(* insertion sort by Cmp on iterators with pairwise distinct hashes *)
Lemma w_insert_perm x l : Permutation (x :: l) (w_insert x l).
Proof.
  induction l as [|y r IH]; cbn; [reflexivity|].
  destruct (w_lt y x); [|reflexivity].
  eapply perm_trans; [apply perm_swap|]. now apply perm_skip.
Qed.

Lemma w_sort_perm l : Permutation l (w_sort l).
Proof.
  induction l as [|x l IH]; cbn; [reflexivity|].
  eapply perm_trans; [apply perm_skip; exact IH|]. apply w_insert_perm.
Qed.

Lemma w_insert_sorted x l : cur_sorted l -> ~ In (w_cur x) (map w_cur l) ->
  cur_sorted (w_insert x l).
Proof.
  induction l as [|y r IH]; cbn [w_insert]; intros Sd Hn.
  - constructor; constructor.
  - inv Sd. cbn [map In] in Hn.
    assert (w_cur y <> w_cur x) by tauto.
    unfold w_lt. destruct (N.ltb_spec (w_cur y) (w_cur x)); cbn [orb].
    + constructor; [apply IH; tauto|].
      eapply Permutation_Forall; [apply w_insert_perm|]. constructor; assumption.
    + destruct (N.eqb_spec (w_cur y) (w_cur x)); [congruence|]. cbn [andb].
      assert (cur_lt x y) by (unfold cur_lt; lia).
      constructor; [constructor; assumption|]. constructor; [assumption|].
      eapply Forall_impl; [|exact H2]. unfold cur_lt in *. intros; lia.
Qed.

Lemma w_sort_sorted l : NoDup (map w_cur l) -> cur_sorted (w_sort l).
Proof.
  induction l as [|x l IH]; cbn; intros Nd; [constructor|]. inv Nd.
  apply w_insert_sorted; auto.
  intros Hin. apply H1. eapply Permutation_in; [|exact Hin].
  apply Permutation_map. symmetry. apply w_sort_perm.
Qed.

(* ---------------------------------------------------------------------- *)
(* newFastIterator + init + drain = the newest-wins view *)

Fixpoint its0 (s : stack) (seek : key) (depth : nat) : list witer :=
  match s with
  | [] => []
  | l :: r => mkW 0%N (keys_from seek l) l depth :: its0 r seek (S depth)
  end.

Lemma fast_new_spec seek : forall s d, wf_stack s -> fast_new s seek d = Ok (its0 s seek d).
Proof.
  induction s as [|l r IH]; intros d W; [reflexivity|]. inv W.
  cbn [fast_new its0]. rewrite new_iter_spec by assumption. rewrite IH by assumption. reflexivity.
Qed.

Lemma its0_wf0 seek : forall s' pre, wf_stack s' ->
  Forall (wf0 (pre ++ s')) (its0 s' seek (length pre)).
Proof.
  induction s' as [|l r IH]; intros pre W; [constructor|]. inv W. cbn [its0]. constructor.
  - split; [|split]; cbn.
    + apply keys_from_sorted. assumption.
    + apply nth_error_mid.
    + apply Forall_forall. intros k Hk. apply keys_from_in in Hk. tauto.
  - specialize (IH (pre ++ [l]) H2). rewrite <- app_assoc in IH. cbn [app] in IH.
    rewrite app_length in IH. cbn [length] in IH. rewrite Nat.add_1_r in IH. exact IH.
Qed.

Lemma top_ge ps k d m : (forall p, In p ps -> d <= fst p) -> top ps k = Some m -> d <= m.
Proof.
  revert m. induction ps as [|[n ks] r IH]; cbn; intros m H E; [discriminate|].
  destruct (has k ks).
  - inv E. pose proof (H (n, ks) (or_introl eq_refl)) as Hn. cbn in Hn.
    destruct (top r k) eqn:Et; cbn; [|assumption].
    assert (d <= n0) by (apply IH; auto). lia.
  - apply IH; auto.
Qed.

Lemma its0_prio seek : forall s d p, In p (tailps (its0 s seek d)) -> d <= fst p.
Proof.
  induction s as [|l r IH]; intros d p; cbn; [tauto|]. intros [<-|H]; [cbn; lia|].
  apply IH in H. lia.
Qed.

Lemma top_its0 seek : forall s' pre k, wf_stack s' ->
  val_top (pre ++ s') k (top (tailps (its0 s' seek (length pre))) k)
  = if N.leb seek k then lookup_first k s' else None.
Proof.
  induction s' as [|l r IH]; intros pre k W.
  - cbn. destruct (N.leb seek k); reflexivity.
  - inv W. cbn [its0 tailps map tailp w_prio w_keys top].
    specialize (IH (pre ++ [l]) k H2). rewrite <- app_assoc in IH. cbn [app] in IH.
    rewrite app_length in IH. cbn [length] in IH. rewrite Nat.add_1_r in IH.
    fold tailps. destruct (has k (keys_from seek l)) eqn:Hh.
    + apply has_In, keys_from_in in Hh. destruct Hh as [Hin Hle].
      assert (omin (length pre) (top (tailps (its0 r seek (S (length pre)))) k) = length pre) as ->.
      { destruct (top _ k) eqn:Et; cbn; [|reflexivity].
        assert (S (length pre) <= n); [|lia].
        eapply top_ge; [|exact Et]. intros p. apply its0_prio. }
      cbn [val_top]. rewrite nth_error_mid.
      apply N.leb_le in Hle. rewrite Hle. cbn [lookup_first].
      apply lookup_in_keys in Hin. destruct (lookup k l); [reflexivity|congruence].
    + rewrite IH. destruct (N.leb_spec seek k); [|reflexivity]. cbn [lookup_first].
      apply has_false in Hh.
      assert (lookup k l = None) as ->; [|reflexivity].
      destruct (lookup k l) eqn:El; [|reflexivity]. exfalso. apply Hh.
      apply keys_from_in. split; [|assumption]. apply lookup_in_keys. congruence.
Qed.

Lemma fi_init_spec s seek : wf_stack s ->
  exists its, fi_init (its0 s seek 0) = Ok its /\ Stable s its /\
              Equiv (pends its) (tailps (its0 s seek 0)).
Proof.
  intros W. unfold fi_init.
  destruct (fi_init_loop_spec s (tailps (its0 s seek 0)) (its_fuel (its0 s seek 0)) [] (its0 s seek 0) [])
    as (its' & E & W' & Nd & Q).
  - cbn [app]. rewrite its_fuel_msum. lia.
  - constructor.
  - apply (its0_wf0 seek s [] W).
  - constructor.
  - split; [intros h j Hj; discriminate|intros h _ []].
  - apply Equiv_refl.
  - cbn [app length] in E. rewrite E. exists (w_sort its'). split; [reflexivity|]. split; [split|].
    + eapply Permutation_Forall; [apply w_sort_perm|assumption].
    + apply w_sort_sorted. assumption.
    + eapply Equiv_trans; [|exact Q]. apply Equiv_perm. apply Permutation_map.
      symmetry. apply w_sort_perm.
Qed.

Theorem fast_iter_spec s seek : wf_stack s ->
  fast_iter s seek = Ok (live_entries live_nonnil s seek).
Proof.
  intros W. unfold fast_iter. rewrite fast_new_spec by assumption.
  destruct (fi_init_spec s seek W) as (its & E & St & Q). rewrite E.
  destruct (fi_collect_start s its St) as (out & Ec & So & Mem). rewrite Ec. f_equal.
  rewrite live_entries_eq.
  destruct (flat_sel_spec live_nonnil _ (view_sorted s seek W)) as (T1 & _ & T3).
  apply sorted_mem_ext; auto. intros [k b]. rewrite Mem, T3.
  unfold V. rewrite Q. pose proof (top_its0 seek s [] k W) as T. cbn [app length] in T.
  rewrite T. rewrite view_lookup by assumption.
  cbn. tauto.
Qed.
